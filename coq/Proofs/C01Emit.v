(* C01 - compiler correctness: Table.__iter__ on a table satisfying the invariant for all nodes emits a symbol list with
   the instruction-level wiring that C01Canon.v turns into acceptance by the validator. Segments without persistent
   groups. *)
Require Import List Bool ZArith Arith Lia.
From FV Require Import Lib.Sym Model.C01 Model.C01Compile Proofs.C01Prim Proofs.C01Blocks Proofs.C01Inv Proofs.C01Step Proofs.C01Canon.
Import ListNotations.

Lemma all_some (l : list (option key)) : (forall q, q < List.length l -> exists k, nth q l None = Some k) -> exists ks, l = map Some ks.
Proof.
  induction l as [|x l IH]; intros H; [exists []; reflexivity|].
  destruct (H 0 ltac:(simpl; lia)) as [k Hk]. simpl in Hk. subst x.
  destruct IH as [ks ->]; [intros q Hq; apply (H (S q)); simpl; lia|]. exists (k :: ks). reflexivity.
Qed.

Lemma merge_nil_r l : merge l [] = Some l.
Proof. destruct l; reflexivity. Qed.

Lemma traverse_resolve {A} (f : key -> option A) ks :
  traverse (fun x => match x with Some k => f k | None => None end) (map Some ks) = traverse f ks.
Proof. induction ks as [|k ks IH]; simpl; [reflexivity|]. destruct (f k); simpl; [rewrite IH; reflexivity|reflexivity]. Qed.

Lemma Forall2_in_l {A B} (R : A -> B -> Prop) l r x : Forall2 R l r -> In x l -> exists y, In y r /\ R x y.
Proof. intros H. induction H as [|a b l r Hab H IH]; intros Hin; [destruct Hin|]. destruct Hin as [->|Hin]; [exists b; split; [left; reflexivity|exact Hab]|]. destruct (IH Hin) as [y [Hy Hr]]. exists y. split; [right; exact Hy|exact Hr]. Qed.

Lemma Forall2_in_r {A B} (R : A -> B -> Prop) l r y : Forall2 R l r -> In y r -> exists x, In x l /\ R x y.
Proof. intros H. induction H as [|a b l r Hab H IH]; intros Hin; [destruct Hin|]. destruct Hin as [->|Hin]; [exists a; split; [left; reflexivity|exact Hab]|]. destruct (IH Hin) as [x [Hx Hr]]. exists x. split; [right; exact Hx|exact Hr]. Qed.

Lemma nodup_map_filter {A} (f : A -> nat) (P : A -> bool) l : NoDup (map f l) -> NoDup (map f (filter P l)).
Proof.
  induction l as [|x l IH]; intros H; simpl; [constructor|]. inversion H as [|? ? Hn Hr]; subst.
  destruct (P x); simpl; [constructor; [|apply IH; exact Hr]|apply IH; exact Hr].
  intros X. apply Hn. apply in_map_iff in X. destruct X as [y [E Hy]]. apply filter_In in Hy. apply in_map_iff. exists y. tauto.
Qed.

Lemma max_exists {A} (f : A -> nat) (l : list A) : l <> [] -> exists x, In x l /\ forall y, In y l -> f y <= f x.
Proof.
  induction l as [|a l IH]; intros H; [contradiction|]. destruct l as [|b l].
  - exists a. split; [left; reflexivity|]. intros y [<-|[]]. lia.
  - destruct (IH ltac:(discriminate)) as [x [Hx Hm]]. destruct (Nat.le_gt_cases (f a) (f x)) as [Hle|Hgt].
    + exists x. split; [right; exact Hx|]. intros y [<-|Hy]; [exact Hle|exact (Hm y Hy)].
    + exists a. split; [left; reflexivity|]. intros y [<-|Hy]; [lia|]. specialize (Hm y Hy). lia.
Qed.

Section Emit.
Variable a : assets.
Variable nodes : list node.
Hypothesis wf : WF a nodes.
Variable S : list nat.
Variable T : tbl.
Variable B : blocks.
Hypothesis H : Inv a nodes S (allp S) T B.
Hypothesis Hall : forall i nd, nth_error nodes i = Some nd -> In i S.

Notation fop := (fop a nodes).
Notation preset_of := (preset_of a nodes).

Lemma block_instr I ks k : In (I, ks) B -> In k ks -> instr_at T k = Some I.
Proof.
  intros Hb Hk. unfold instr_at. rewrite (v_idx _ _ _ _ _ _ H). apply in_assoc; [exact (v_keys _ _ _ _ _ _ H)|].
  apply expand_in. exists ks. auto.
Qed.

Lemma instr_block k I : instr_at T k = Some I -> exists ks, In (I, ks) B /\ In k ks.
Proof. unfold instr_at. rewrite (v_idx _ _ _ _ _ _ H). intros X. apply assoc_in in X. apply expand_in in X. exact X. Qed.

Lemma same_id_same_block I ks I' ks' : In (I, ks) B -> In (I', ks') B -> iid I = iid I' -> (I, ks) = (I', ks').
Proof.
  intros H1 H2 E. apply In_nth_error in H1. apply In_nth_error in H2. destruct H1 as [q1 H1], H2 as [q2 H2].
  assert (q1 = q2).
  { apply (proj1 (NoDup_nth_error (map bid B)) (v_ids _ _ _ _ _ _ H)).
    - rewrite map_length. apply nth_error_Some. rewrite H1. discriminate.
    - rewrite (map_nth_error bid q1 B H1), (map_nth_error bid q2 B H2). unfold bid. simpl. rewrite E. reflexivity. }
  subst q2. rewrite H1 in H2. injection H2 as -> ->. reflexivity.
Qed.

Lemma fun_block i nd : nth_error nodes i = Some nd -> exists F, In (F, fkeys i nd) B /\ iop F = fop i nd /\ instr_at T (KU i) = Some F.
Proof.
  intros Hn. destruct (v_fun _ _ _ _ _ _ H i (Hall i nd Hn)) as [nd' [F [Hn' [Hin Ho]]]]. rewrite Hn in Hn'. injection Hn' as <-.
  exists F. split; [exact Hin|]. split; [exact Ho|]. apply (block_instr F (fkeys i nd)); [exact Hin|left; reflexivity].
Qed.

Lemma blocks_nonempty b : In b B -> snd b <> [].
Proof. intros Hb. destruct b as [I ks]. destruct (v_kinds _ _ _ _ _ _ H I ks Hb); simpl; discriminate. Qed.

Lemma groups_are_blocks : groupby (index T) None = B.
Proof. rewrite (v_idx _ _ _ _ _ _ H). apply groupby_expand; [exact (v_ids _ _ _ _ _ _ H)|exact blocks_nonempty]. Qed.

(* ---- rows ------------------------------------------------------------------------------------------------ *)
Lemma prow_other k : (forall j, k <> KU j) -> prow T k = [].
Proof. intros Hk. destruct (prow T k) eqn:E; [reflexivity|]. destruct (v_prows _ _ _ _ _ _ H k) as [j [_ X]]; [rewrite E; discriminate|]. exfalso. exact (Hk j X). Qed.

Lemma arow_full j nd : nth_error nodes j = Some nd ->
  exists ks, arow T (KU j) = map Some ks /\ List.length ks = List.length (ports nd)
    /\ forall q ip, nth_error (ports nd) q = Some ip -> exists k, nth_error ks q = Some k /\ srckey nodes T B ip k.
Proof.
  intros Hn. destruct (v_rows _ _ _ _ _ _ H j nd Hn) as [Hl Hr].
  assert (Hsome : forall q ip, nth_error (ports nd) q = Some ip -> exists k, aget T (KU j) q = Some k /\ srckey nodes T B ip k).
  { intros q ip Hip. apply (proj1 (Hr q ip Hip)). destruct (w_ports a nodes wf j nd q ip Hn Hip) as [_ [ndi [Hni _]]]. exact (Hall _ _ Hni). }
  assert (Hlen : List.length (arow T (KU j)) = List.length (ports nd)).
  { apply Nat.le_antisymm; [exact Hl|]. destruct (Nat.eq_dec (List.length (ports nd)) 0) as [E0|Hne]; [lia|].
    destruct (nth_error (ports nd) (List.length (ports nd) - 1)) as [ip|] eqn:E; [|apply nth_error_None in E; lia].
    destruct (Hsome _ ip E) as [k [Hk _]]. unfold aget in Hk.
    destruct (Nat.le_gt_cases (List.length (arow T (KU j))) (List.length (ports nd) - 1)) as [X|X]; [rewrite nth_overflow in Hk by exact X; discriminate|lia]. }
  destruct (all_some (arow T (KU j))) as [ks Hks].
  - intros q Hq. rewrite Hlen in Hq. destruct (nth_error (ports nd) q) as [ip|] eqn:E; [|apply nth_error_None in E; lia].
    destruct (Hsome q ip E) as [k [Hk _]]. exists k. exact Hk.
  - exists ks. split; [exact Hks|]. split; [rewrite <- Hlen, Hks, map_length; reflexivity|].
    intros q ip Hip. destruct (Hsome q ip Hip) as [k [Hk Hs]]. exists k. split; [|exact Hs].
    unfold aget in Hk. rewrite Hks in Hk.
    assert (Hq : q < List.length ks) by (rewrite <- (map_length Some); rewrite <- Hks; rewrite Hlen; apply nth_error_Some; rewrite Hip; discriminate).
    rewrite (nth_indep _ None (Some (KU 0))) in Hk by (rewrite map_length; exact Hq). rewrite map_nth in Hk. injection Hk as <-.
    apply nth_error_nth'. exact Hq.
Qed.

Lemma linkage_ku j nd : nth_error nodes j = Some nd ->
  exists ks, linkage T (KU j) = map Some ((if preset_of j nd then [KG (ngid nd)] else []) ++ ks)
    /\ arow T (KU j) = map Some ks
    /\ List.length ks = List.length (ports nd)
    /\ forall q ip, nth_error (ports nd) q = Some ip -> exists k, nth_error ks q = Some k /\ srckey nodes T B ip k.
Proof.
  intros Hn. destruct (arow_full j nd Hn) as [ks [Hks [Hl Hq]]]. exists ks. split; [|split; [exact Hks|split; assumption]].
  unfold linkage. fold (prow T (KU j)). fold (arow T (KU j)). rewrite Hks, map_app. f_equal.
  destruct (v_pref _ _ _ _ _ _ H j nd Hn) as [H1 H2]. destruct (preset_of j nd) eqn:Ep.
  - rewrite (H1 (Hall j nd Hn) eq_refl). reflexivity.
  - rewrite (H2 (or_intror eq_refl)). reflexivity.
Qed.

Lemma linkage_kg g : linkage T (KG g) = [].
Proof.
  unfold linkage. fold (prow T (KG g)). fold (arow T (KG g)).
  rewrite (prow_other (KG g)) by (intros j; discriminate). rewrite (v_kgrow _ _ _ _ _ _ H g). reflexivity.
Qed.

Lemma linkage_getter c i : arow T (KF c) = [Some (KU i)] -> linkage T (KF c) = [Some (KU i)].
Proof.
  intros Hr. unfold linkage. fold (prow T (KF c)). fold (arow T (KF c)).
  rewrite (prow_other (KF c)) by (intros j; discriminate). rewrite Hr. reflexivity.
Qed.

(* ---- Linkage.leaves ------------------------------------------------------------------------------------------ *)
Lemma opt_key_in_spec k l : opt_key_in k l = true <-> In (Some k) l.
Proof.
  unfold opt_key_in. rewrite existsb_exists. split.
  - intros [[y|] [Hy E]]; [apply key_eqb_eq in E; subst; exact Hy|discriminate].
  - intros Hin. exists (Some k). split; [exact Hin|apply key_eqb_refl].
Qed.

Definition lkeys : list key := map fst (absl T) ++ map fst (pref T).
Definition lparents : list (option key) := flat_map snd (absl T) ++ flat_map (fun kv => map Some (snd kv)) (pref T).

Lemma absl_entry k row : In (k, row) (absl T) -> row = arow T k.
Proof. intros Hin. unfold arow. rewrite (in_assoc k row (absl T) (proj1 (v_anodup _ _ _ _ _ _ H)) Hin). reflexivity. Qed.

Lemma pref_entry k row : In (k, row) (pref T) -> row = prow T k.
Proof. intros Hin. unfold prow. rewrite (in_assoc k row (pref T) (proj2 (v_anodup _ _ _ _ _ _ H)) Hin). reflexivity. Qed.

Lemma arow_parent k' e : In (Some e) (arow T k') -> In (Some e) lparents.
Proof.
  intros Hin. unfold lparents. apply in_or_app. left. apply in_flat_map. unfold arow in Hin.
  destruct (assoc k' (absl T)) as [row|] eqn:E; [|destruct Hin]. exists (k', row). split; [apply assoc_in; exact E|exact Hin].
Qed.

Lemma lkey_in_index k : In k lkeys -> exists I, instr_at T k = Some I.
Proof.
  intros Hk. apply in_app_or in Hk. destruct Hk as [Hk|Hk].
  - pose proof (proj1 (v_rowsne _ _ _ _ _ _ H) k Hk) as Hne. destruct (v_arows _ _ _ _ _ _ H k Hne) as [[j [nd [-> Hn]]]|X].
    + destruct (fun_block j nd Hn) as [F [_ [_ X]]]. exists F. exact X.
    + unfold instr_at. rewrite (v_idx _ _ _ _ _ _ H). destruct (assoc k (expand B)) eqn:E; [eauto|]. apply assoc_none in E. contradiction.
  - pose proof (proj2 (v_rowsne _ _ _ _ _ _ H) k Hk) as Hne. destruct (v_prows _ _ _ _ _ _ H k Hne) as [j [Hj ->]].
    destruct (v_fun _ _ _ _ _ _ H j Hj) as [nd [F [Hn [Hin _]]]]. exists F. apply (block_instr F (fkeys j nd)); [exact Hin|left; reflexivity].
Qed.

Definition rankf (k : key) : nat :=
  match k with
  | KU j => 2 * j + 1
  | KF c => match arow T (KF c) with [Some (KU i)] => 2 * i + 2 | _ => 0 end
  | KG _ => 0
  end.

Lemma lkey_has_row k : In k lkeys -> arow T k <> [] \/ prow T k <> [].
Proof.
  intros Hk. apply in_app_or in Hk. destruct Hk as [Hk|Hk]; [left; exact (proj1 (v_rowsne _ _ _ _ _ _ H) k Hk)|right; exact (proj2 (v_rowsne _ _ _ _ _ _ H) k Hk)].
Qed.

Lemma kg_not_lkey g : ~ In (KG g) lkeys.
Proof.
  intros X. destruct (lkey_has_row _ X) as [Y|Y].
  - apply Y. exact (v_kgrow _ _ _ _ _ _ H g).
  - apply Y. apply prow_other. intros j. discriminate.
Qed.

Lemma entry_rank k' e : arow T k' <> [] -> In (Some e) (arow T k') -> rankf e < rankf k'.
Proof.
  intros Hne Hin. destruct (v_arows _ _ _ _ _ _ H k' Hne) as [[j [nd [-> Hn]]]|X].
  - destruct (arow_full j nd Hn) as [ks [Hks [Hl Hq]]]. rewrite Hks in Hin. apply in_map_iff in Hin. destruct Hin as [e' [E He]].
    injection E as ->. apply In_nth_error in He. destruct He as [q He].
    destruct (nth_error (ports nd) q) as [ip|] eqn:Ep; [|apply nth_error_None in Ep; assert (q < List.length ks) by (apply nth_error_Some; rewrite He; discriminate); lia].
    destruct (Hq q ip Ep) as [k [Hk Hs]]. rewrite He in Hk. injection Hk as <-.
    destruct (w_ports a nodes wf j nd q ip Hn Ep) as [Hlt _].
    destruct Hs as [ndi [Hni [[_ ->]|[_ [c [I [-> [_ [_ Hr]]]]]]]]]; simpl; [lia|rewrite Hr; lia].
  - apply expand_keys in X. destruct X as [[I ks] [Hb Hk]]. simpl in Hk.
    destruct (v_kinds _ _ _ _ _ _ H I ks Hb) as [i nd I0 Hi Hn Ho|i nd p c I0 Hi Hn Ht Hz Hp Ho Hr].
    + unfold fkeys in Hk. destruct Hk as [<-|Hk].
      * destruct (arow_full i nd Hn) as [ks' [Hks [Hl Hq]]]. rewrite Hks in Hin. apply in_map_iff in Hin. destruct Hin as [e' [E He]].
        injection E as ->. apply In_nth_error in He. destruct He as [q He].
        destruct (nth_error (ports nd) q) as [ip|] eqn:Ep; [|apply nth_error_None in Ep; assert (q < List.length ks') by (apply nth_error_Some; rewrite He; discriminate); lia].
        destruct (Hq q ip Ep) as [k [Hk' Hs]]. rewrite He in Hk'. injection Hk' as <-.
        destruct (w_ports a nodes wf i nd q ip Hn Ep) as [Hlt _].
        destruct Hs as [ndi [Hni [[_ ->]|[_ [c [I [-> [_ [_ Hr]]]]]]]]]; simpl; [lia|rewrite Hr; lia].
      * destruct (strain nd); [|destruct Hk]. destruct Hk as [<-|[]]. exfalso. apply Hne. exact (v_kgrow _ _ _ _ _ _ H (ngid nd)).
    + destruct Hk as [<-|[]]. rewrite Hr in Hin. destruct Hin as [E|[]]. injection E as <-. simpl. rewrite Hr. lia.
Qed.

Lemma leaves_ok : exists lv, leaves T = Some lv /\ forall k, In k lv -> In k lkeys /\ ~ In (Some k) lparents.
Proof.
  unfold leaves. fold lkeys. fold lparents.
  set (children := filter (fun k => negb (opt_key_in k lparents)) lkeys).
  assert (Hch : forall k, In k children -> In k lkeys /\ ~ In (Some k) lparents).
  { intros k Hk. apply filter_In in Hk. destruct Hk as [Hk Hn]. split; [exact Hk|]. intros X. apply opt_key_in_spec in X. rewrite X in Hn. discriminate. }
  destruct lkeys as [|k0 rest] eqn:Ek.
  - exists children. split; [destruct children; reflexivity|exact Hch].
  - assert (Hne : children <> []).
    { destruct (max_exists rankf lkeys) as [km [Hkm Hmax]]; [rewrite Ek; discriminate|].
      assert (In km children).
      { apply filter_In. split; [rewrite <- Ek; exact Hkm|]. apply negb_true_iff. apply not_true_iff_false. intros X.
        apply opt_key_in_spec in X. unfold lparents in X. apply in_app_or in X. destruct X as [X|X].
        - apply in_flat_map in X. destruct X as [[k' row] [Hin Hrow]]. simpl in Hrow. pose proof (absl_entry k' row Hin) as ->.
          assert (Hk' : In k' lkeys) by (unfold lkeys; apply in_or_app; left; apply in_map_iff; exists (k', arow T k'); auto).
          assert (Hne' : arow T k' <> []) by (intros Y; rewrite Y in Hrow; destruct Hrow).
          pose proof (entry_rank k' km Hne' Hrow). specialize (Hmax k' Hk'). lia.
        - apply in_flat_map in X. destruct X as [[k' row] [Hin Hrow]]. simpl in Hrow. apply in_map_iff in Hrow. destruct Hrow as [e [E He]].
          injection E as ->. pose proof (pref_entry k' row Hin) as ->.
          assert (Hne' : prow T k' <> []) by (intros Y; rewrite Y in He; destruct He).
          destruct (v_prows _ _ _ _ _ _ H k' Hne') as [j [Hj ->]]. destruct (v_fun _ _ _ _ _ _ H j Hj) as [nd [_ [Hn _]]].
          destruct (v_pref _ _ _ _ _ _ H j nd Hn) as [H1 H2]. destruct (preset_of j nd) eqn:Ep.
          + rewrite (H1 Hj eq_refl) in He. destruct He as [<-|[]]. exact (kg_not_lkey _ Hkm).
          + rewrite (H2 (or_intror eq_refl)) in He. destruct He. }
      intros Y. rewrite Y in H0. destruct H0. }
    exists children. split; [|exact Hch]. destruct children; [contradiction|reflexivity].
Qed.

(* ---- emission ------------------------------------------------------------------------------------------------ *)
Definition fblock (g : instr * list key) : option (instr * list instr) :=
  let '(i, ks) := g in
  bind (match map (linkage T) ks with [] => None | x :: r => fold_opt merge r x end) (fun ks' =>
  bind (traverse (fun x => match x with Some k => assoc k (index T) | None => None end) ks') (fun args => Some (i, args))).

Definition fun_of (j : nat) (F : instr) : Prop :=
  exists ndj, nth_error nodes j = Some ndj /\ In (F, fkeys j ndj) B /\ iop F = fop j ndj.

Definition rsrc (x : instr) (ip : nat * nat) : Prop :=
  exists ndj Fj, nth_error nodes (fst ip) = Some ndj /\ fun_of (fst ip) Fj
    /\ ((nszout ndj = 1 /\ x = Fj) \/
        (nszout ndj <> 1 /\ iop x = OGetter (snd ip) /\ exists c, In (x, [KF c]) B /\ arow T (KF c) = [Some (KU (fst ip))]
                          /\ exists k', arow T k' <> [] /\ In (Some (KF c)) (arow T k'))).

Lemma resolve_src j nd q ip k : nth_error nodes j = Some nd -> nth_error (ports nd) q = Some ip ->
  In (Some k) (arow T (KU j)) -> srckey nodes T B ip k -> exists x, assoc k (index T) = Some x /\ rsrc x ip.
Proof.
  intros Hn Hq Hin [ndi [Hni Hs]]. destruct (fun_block (fst ip) ndi Hni) as [Fi [HFi [Hoi Hati]]].
  assert (HFo : fun_of (fst ip) Fi) by (exists ndi; auto).
  destruct Hs as [[Hone ->]|[Hz [c [I [-> [HinB [Ho Hr]]]]]]].
  - exists Fi. split; [exact Hati|]. exists ndi, Fi. split; [exact Hni|]. split; [exact HFo|]. left. auto.
  - exists I. split; [apply (block_instr I [KF c]); [exact HinB|left; reflexivity]|].
    exists ndi, Fi. split; [exact Hni|]. split; [exact HFo|]. right. split; [exact Hz|]. split; [exact Ho|].
    exists c. split; [exact HinB|]. split; [exact Hr|]. exists (KU j). split; [intros Y; rewrite Y in Hin; destruct Hin|exact Hin].
Qed.

Lemma resolve_inputs j nd : nth_error nodes j = Some nd -> forall ks, arow T (KU j) = map Some ks ->
  List.length ks = List.length (ports nd) ->
  (forall q ip, nth_error (ports nd) q = Some ip -> exists k, nth_error ks q = Some k /\ srckey nodes T B ip k) ->
  exists iargs, traverse (fun k => assoc k (index T)) ks = Some iargs /\ Forall2 rsrc iargs (ports nd).
Proof.
  intros Hn ks Hrow Hl Hq.
  assert (G : forall (ks0 : list key) (ps : list (nat * nat)), List.length ks0 = List.length ps ->
            (forall q k ip, nth_error ks0 q = Some k -> nth_error ps q = Some ip -> exists x, assoc k (index T) = Some x /\ rsrc x ip) ->
            exists iargs, traverse (fun k => assoc k (index T)) ks0 = Some iargs /\ Forall2 rsrc iargs ps).
  { induction ks0 as [|k ks0 IH]; intros [|ip ps] Hlen Hx; simpl in Hlen; try discriminate.
    - exists []. split; [reflexivity|constructor].
    - destruct (Hx 0 k ip eq_refl eq_refl) as [x [Hk Hr]]. destruct (IH ps ltac:(lia)) as [iargs [Ht Hf]].
      + intros q k' ip' H1 H2. exact (Hx (Datatypes.S q) k' ip' H1 H2).
      + exists (x :: iargs). split; [simpl; rewrite Hk; simpl; rewrite Ht; reflexivity|constructor; assumption]. }
  apply G; [exact Hl|]. intros q k ip Hk Hip. destruct (Hq q ip Hip) as [k' [Hk' Hs]]. rewrite Hk in Hk'. injection Hk' as <-.
  apply (resolve_src j nd q ip k Hn Hip); [rewrite Hrow; apply in_map; apply (nth_error_In _ _ Hk)|exact Hs].
Qed.

Lemma fblock_fun i nd F : nth_error nodes i = Some nd -> In (F, fkeys i nd) B ->
  exists sargs iargs, fblock (F, fkeys i nd) = Some (F, sargs ++ iargs)
    /\ (if preset_of i nd
        then exists k ndk Fk, sargs = [Fk] /\ nth_error nodes k = Some ndk /\ is_train ndk = true /\ ngid ndk = ngid nd /\ k <> i /\ fun_of k Fk
        else sargs = [])
    /\ Forall2 rsrc iargs (ports nd).
Proof.
  intros Hn HinB. destruct (linkage_ku i nd Hn) as [ks [Hlk [Hrow [Hl Hq]]]].
  destruct (resolve_inputs i nd Hn ks Hrow Hl Hq) as [iargs [Hti Hfi]].
  assert (Hmerge : match map (linkage T) (fkeys i nd) with [] => None | x :: r => fold_opt merge r x end = Some (linkage T (KU i))).
  { unfold fkeys. destruct (strain nd); simpl; [rewrite linkage_kg, merge_nil_r|]; reflexivity. }
  unfold fblock. rewrite Hmerge. simpl. rewrite Hlk, traverse_resolve.
  destruct (preset_of i nd) eqn:Ep.
  - (* the state argument is the functor of the trained sibling *)
    assert (Hder : derived nodes i nd = true).
    { unfold C01Inv.preset_of in Ep. rewrite (w_nopers a nodes wf i nd Hn) in Ep. simpl in Ep. apply andb_prop in Ep. exact (proj2 Ep). }
    apply (derived_spec nodes i nd Hn) in Hder. destruct Hder as [_ [k [ndk [Hne [Hnk [Hg Htk]]]]]].
    destruct (fun_block k ndk Hnk) as [Fk [HFk [Hok _]]].
    assert (Hkg : assoc (KG (ngid nd)) (index T) = Some Fk).
    { apply (block_instr Fk (fkeys k ndk) (KG (ngid nd)) HFk). unfold fkeys, strain. rewrite Htk, (w_train_stateful a nodes wf k ndk Hnk Htk). simpl. right. left. rewrite Hg. reflexivity. }
    exists [Fk], iargs. split; [simpl; rewrite Hkg; simpl; rewrite Hti; reflexivity|]. split; [|exact Hfi].
    exists k, ndk, Fk. repeat split; auto. exists ndk. auto.
  - exists [], iargs. split; [simpl; rewrite Hti; reflexivity|]. split; [reflexivity|exact Hfi].
Qed.

Lemma fblock_get i nd c I : In i S -> nth_error nodes i = Some nd -> arow T (KF c) = [Some (KU i)] ->
  exists Fi, fblock (I, [KF c]) = Some (I, [Fi]) /\ fun_of i Fi.
Proof.
  intros _ Hn Hr. destruct (fun_block i nd Hn) as [Fi [HFi [Hoi Hati]]]. exists Fi. split; [|exists nd; auto].
  unfold fblock. simpl. rewrite (linkage_getter c i Hr). simpl. unfold instr_at in Hati. rewrite Hati. reflexivity.
Qed.

Lemma fblock_ok I ks : In (I, ks) B -> exists args, fblock (I, ks) = Some (I, args).
Proof.
  intros Hb. destruct (v_kinds _ _ _ _ _ _ H I ks Hb) as [i nd I0 Hi Hn Ho|i nd p c I0 Hi Hn Ht Hz Hp Ho Hr].
  - destruct (fblock_fun i nd I0 Hn Hb) as [sa [ia [E _]]]. eauto.
  - destruct (fblock_get i nd c I0 Hi Hn Hr) as [Fi [E _]]. eauto.
Qed.

(* ---- the emitted list ------------------------------------------------------------------------------------------ *)
Lemma fun_of_unique j x y : fun_of j x -> fun_of j y -> x = y.
Proof.
  intros [nd [Hn [Hx _]]] [nd' [Hn' [Hy _]]]. rewrite Hn in Hn'. injection Hn' as <-.
  pose proof (block_instr x (fkeys j nd) (KU j) Hx (or_introl eq_refl)) as E1.
  pose proof (block_instr y (fkeys j nd) (KU j) Hy (or_introl eq_refl)) as E2. congruence.
Qed.

Lemma Forall2_impl {A C} (R R' : A -> C -> Prop) l r : (forall x y, R x y -> R' x y) -> Forall2 R l r -> Forall2 R' l r.
Proof. intros Hi HF. induction HF; constructor; auto. Qed.

Theorem symbols_lfacts : exists L, symbols T = Some L /\ lfacts a nodes L.
Proof.
  destruct leaves_ok as [lv [Hlv Hleaf]].
  destruct (traverse_ok (fun n => assoc n (index T)) lv) as [st0 Hst0].
  { intros k Hk. destruct (lkey_in_index k (proj1 (Hleaf k Hk))) as [I HI]. exists I. exact HI. }
  set (stubs := filter is_getter st0).
  set (nonstub := fun g : instr * list key => negb (existsb (fun s => Nat.eqb (iid s) (iid (fst g))) stubs)).
  destruct (traverse_ok fblock (filter nonstub B)) as [L HL].
  { intros [I ks] Hin. apply filter_In in Hin. destruct (fblock_ok I ks (proj1 Hin)) as [args E]. eauto. }
  assert (Hsym : symbols T = Some L).
  { unfold symbols. rewrite Hlv. simpl. rewrite Hst0. simpl. rewrite groups_are_blocks. exact HL. }
  pose proof (traverse_forall2 _ _ _ HL) as HF.
  assert (Hstub : forall s, In s stubs -> is_getter s = true /\ exists k, In k lv /\ instr_at T k = Some s).
  { intros s Hs. apply filter_In in Hs. destruct Hs as [Hs Hg]. split; [exact Hg|].
    destruct (Forall2_in_r _ _ _ s (traverse_forall2 _ _ _ Hst0) Hs) as [k [Hk E]]. exists k. auto. }
  assert (Hfst : forall I ks s, fblock (I, ks) = Some s -> fst s = I).
  { intros I ks s E. unfold fblock in E. destruct (match map (linkage T) ks with [] => None | x :: r => fold_opt merge r x end); simpl in E; [|discriminate].
    destruct (traverse _ l); simpl in E; [|discriminate]. injection E as <-. reflexivity. }
  assert (elem_inv : forall I args, In (I, args) L -> exists ks, In (I, ks) B /\ nonstub (I, ks) = true /\ fblock (I, ks) = Some (I, args)).
  { intros I args Hin. destruct (Forall2_in_r _ _ _ _ HF Hin) as [[I' ks] [Hb E]]. apply filter_In in Hb.
    pose proof (Hfst I' ks _ E) as X. simpl in X. subst I'. exists ks. tauto. }
  assert (elem_intro : forall I ks, In (I, ks) B -> nonstub (I, ks) = true -> exists args, In (I, args) L /\ fblock (I, ks) = Some (I, args)).
  { intros I ks Hb Hn. destruct (Forall2_in_l _ _ _ (I, ks) HF) as [[I' args] [Hin E]]; [apply filter_In; auto|].
    pose proof (Hfst I ks _ E) as X. simpl in X. subst I'. exists args. auto. }
  assert (fun_nonstub : forall F ks, In (F, ks) B -> is_getter F = false -> nonstub (F, ks) = true).
  { intros F ks Hb Hg. unfold nonstub. apply negb_true_iff. apply not_true_iff_false. intros X. apply existsb_exists in X.
    destruct X as [s [Hs E]]. apply Nat.eqb_eq in E. simpl in E. destruct (Hstub s Hs) as [Hgs [k [_ Hk]]].
    destruct (instr_block k s Hk) as [ks' [Hb' _]]. pose proof (same_id_same_block s ks' F ks Hb' Hb E) as Y. injection Y as -> _. congruence. }
  assert (getter_nonstub : forall G c, In (G, [KF c]) B -> (exists k', In (Some (KF c)) (arow T k')) -> nonstub (G, [KF c]) = true).
  { intros G c Hb [k' Hused]. unfold nonstub. apply negb_true_iff. apply not_true_iff_false. intros X. apply existsb_exists in X.
    destruct X as [s [Hs E]]. apply Nat.eqb_eq in E. simpl in E. destruct (Hstub s Hs) as [_ [k [Hklv Hk]]].
    destruct (instr_block k s Hk) as [ks' [Hb' Hkin]]. pose proof (same_id_same_block s ks' G [KF c] Hb' Hb E) as Y. injection Y as -> ->.
    destruct Hkin as [<-|[]]. apply (proj2 (Hleaf _ Hklv)). exact (arow_parent k' (KF c) Hused). }
  assert (fun_isF : forall j F, fun_of j F -> isF L j F).
  { intros j F [nd [Hn [Hb Ho]]]. split.
    - destruct (elem_intro F (fkeys j nd) Hb) as [args [Hin _]]; [apply fun_nonstub; [exact Hb|unfold is_getter; rewrite Ho; reflexivity]|]. eauto.
    - unfold C01Inv.fop in Ho. eauto. }
  assert (isF_fun : forall j F, isF L j F -> fun_of j F).
  { intros j F [[args Hin] [tr [pr Ho]]]. destruct (elem_inv F args Hin) as [ks [Hb _]].
    destruct (v_kinds _ _ _ _ _ _ H F ks Hb) as [i nd I0 Hi Hn Ho'|i nd p c I0 Hi Hn Ht Hz Hp Ho' Hr].
    - assert (j = i) by (rewrite Ho in Ho'; unfold C01Inv.fop in Ho'; injection Ho'; auto). subst j.
      exists nd. split; [exact Hn|]. split; [exact Hb|exact Ho'].
    - rewrite Ho in Ho'. discriminate. }
  assert (rsrc_deliv : forall x ip, rsrc x ip -> deliv nodes L x ip).
  { intros x ip [ndj [Fj [Hnj [HFj Hx]]]]. exists ndj, Fj. split; [exact Hnj|]. split; [apply fun_isF; exact HFj|].
    destruct Hx as [Hx|[Hz [Ho [c [Hb [Hr [k' [_ Hused]]]]]]]]; [left; exact Hx|right]. split; [exact Hz|]. split; [exact Ho|].
    destruct (elem_intro x [KF c] Hb (getter_nonstub x c Hb (ex_intro _ k' Hused))) as [args [Hin E]].
    destruct (fblock_get (fst ip) ndj c x (Hall _ _ Hnj) Hnj Hr) as [Fi [E' HFi]]. rewrite E in E'. injection E' as ->.
    rewrite (fun_of_unique (fst ip) Fj Fi HFj HFi). exact Hin. }
  exists L. split; [exact Hsym|]. constructor.
  - (* l_nodup *)
    assert (E : map sid L = map bid (filter nonstub B)).
    { clear -HF Hfst. induction HF as [|[I ks] s l r Hs HF' IH]; [reflexivity|]. simpl. rewrite IH. f_equal.
      unfold sid, bid. rewrite (Hfst I ks s Hs). reflexivity. }
    rewrite E. apply nodup_map_filter. exact (v_ids _ _ _ _ _ _ H).
  - (* l_closed *)
    intros I args x Hin Hx. destruct (elem_inv I args Hin) as [ks [Hb [_ E]]].
    assert (Hxf : (exists j, fun_of j x) \/ (exists ip, rsrc x ip)).
    { destruct (v_kinds _ _ _ _ _ _ H I ks Hb) as [i nd I0 Hi Hn Ho|i nd p c I0 Hi Hn Ht Hz Hp Ho Hr].
      - destruct (fblock_fun i nd I0 Hn Hb) as [sa [ia [E' [Hs Hd]]]]. rewrite E in E'. injection E' as ->.
        apply in_app_or in Hx. destruct Hx as [Hx|Hx].
        + destruct (preset_of i nd); [|subst sa; destruct Hx]. destruct Hs as [k [ndk [Fk [-> [_ [_ [_ [_ HFk]]]]]]]]. destruct Hx as [<-|[]]. left. eauto.
        + destruct (Forall2_in_l _ _ _ x Hd Hx) as [ip [_ Hr]]. right. eauto.
      - destruct (fblock_get i nd c I0 Hi Hn Hr) as [Fi [E' HFi]]. rewrite E in E'. injection E' as ->. destruct Hx as [<-|[]]. left. eauto. }
    destruct Hxf as [[j HFx]|[ip Hr]].
    + destruct (fun_isF j x HFx) as [[xs Hxs] _]. eauto.
    + destruct (rsrc_deliv x ip Hr) as [ndj [Fj [_ [[[xs Hxs] _] [[_ ->]|[_ [_ Hin']]]]]]]; eauto.
  - (* l_ops *)
    intros I args Hin. destruct (elem_inv I args Hin) as [ks [Hb _]].
    destruct (v_kinds _ _ _ _ _ _ H I ks Hb) as [i nd I0 Hi Hn Ho|i nd p c I0 Hi Hn Ht Hz Hp Ho Hr]; [left; unfold C01Inv.fop in Ho; eauto|right; eauto].
  - (* l_unique *)
    intros j x y Hx Hy. exact (fun_of_unique j x y (isF_fun j x Hx) (isF_fun j y Hy)).
  - (* l_node *)
    intros i nd Hn. destruct (fun_block i nd Hn) as [F [Hb [Ho _]]].
    destruct (fblock_fun i nd F Hn Hb) as [sa [ia [E [Hs Hd]]]].
    destruct (elem_intro F (fkeys i nd) Hb) as [args [Hin E']]; [apply fun_nonstub; [exact Hb|unfold is_getter; rewrite Ho; reflexivity]|].
    rewrite E in E'. injection E' as <-. exists F, sa, ia. split; [exact Hin|]. split; [exact Ho|]. split.
    + destruct (preset_of i nd); [|exact Hs]. destruct Hs as [k [ndk [Fk [-> [Hnk [Htk [Hg [Hne HFk]]]]]]]].
      exists k, ndk, Fk. repeat split; auto; apply (fun_isF k Fk HFk).
    + exact (Forall2_impl _ _ _ _ rsrc_deliv Hd).
Qed.

End Emit.
