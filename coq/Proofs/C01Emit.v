(* C01 - compiler correctness: Table.__iter__ on a table satisfying the invariant for all nodes emits a symbol list with
   the instruction-level wiring that C01Canon.v turns into acceptance by the validator. Segments without persistent
   groups. *)
Require Import List Bool ZArith Arith Lia.
From FV Require Import Lib.Sym Model.C01 Model.C01Compile Proofs.C01Prim Proofs.C01Blocks Proofs.C01Inv Proofs.C01Step Proofs.C01Canon.
Import ListNotations.

Lemma all_some (l : list (option key)) : (forall q, q < List.length l -> exists k, nth q l None = Some k) -> exists ks, l = map Some ks.
Proof.
  induction l as [|x l IH]; intros H; [exists []; reflexivity|].
  destruct (H 0 ltac:(simpl; lia)) as [k Hk]. simpl in Hk. subst x.
  destruct IH as [ks ->]; [intros q Hq; apply (H (S q)); simpl; lia|]. exists (k :: ks). reflexivity.
Qed.

Lemma merge_nil_r l : merge l [] = Some l.
Proof. destruct l; reflexivity. Qed.

Lemma traverse_resolve {A} (f : key -> option A) ks :
  traverse (fun x => match x with Some k => f k | None => None end) (map Some ks) = traverse f ks.
Proof. induction ks as [|k ks IH]; simpl; [reflexivity|]. destruct (f k); simpl; [rewrite IH; reflexivity|reflexivity]. Qed.

Lemma Forall2_in_l {A B} (R : A -> B -> Prop) l r x : Forall2 R l r -> In x l -> exists y, In y r /\ R x y.
Proof. intros H. induction H as [|a b l r Hab H IH]; intros Hin; [destruct Hin|]. destruct Hin as [->|Hin]; [exists b; split; [left; reflexivity|exact Hab]|]. destruct (IH Hin) as [y [Hy Hr]]. exists y. split; [right; exact Hy|exact Hr]. Qed.

Lemma Forall2_in_r {A B} (R : A -> B -> Prop) l r y : Forall2 R l r -> In y r -> exists x, In x l /\ R x y.
Proof. intros H. induction H as [|a b l r Hab H IH]; intros Hin; [destruct Hin|]. destruct Hin as [->|Hin]; [exists a; split; [left; reflexivity|exact Hab]|]. destruct (IH Hin) as [x [Hx Hr]]. exists x. split; [right; exact Hx|exact Hr]. Qed.

Lemma nodup_map_filter {A} (f : A -> nat) (P : A -> bool) l : NoDup (map f l) -> NoDup (map f (filter P l)).
Proof.
  induction l as [|x l IH]; intros H; simpl; [constructor|]. inversion H as [|? ? Hn Hr]; subst.
  destruct (P x); simpl; [constructor; [|apply IH; exact Hr]|apply IH; exact Hr].
  intros X. apply Hn. apply in_map_iff in X. destruct X as [y [E Hy]]. apply filter_In in Hy. apply in_map_iff. exists y. tauto.
Qed.

Lemma exists_or_forall {A} (P : A -> Prop) (l : list A) : (forall x, P x \/ ~ P x) ->
  (exists x, In x l /\ P x) \/ (forall x, In x l -> ~ P x).
Proof.
  intros Hd. induction l as [|y l IH]; [right; intros x []|].
  destruct (Hd y) as [Hy|Hy]; [left; exists y; split; [left; reflexivity|exact Hy]|].
  destruct IH as [[x [Hx Px]]|IH]; [left; exists x; split; [right; exact Hx|exact Px]|right].
  intros x [<-|Hx]; [exact Hy|exact (IH x Hx)].
Qed.

Lemma offset_of_in g l off : offset_of g l = Some off -> exists gt, nth_error l off = Some gt /\ fst gt = g.
Proof.
  revert off. induction l as [|[g' x] l IH]; intros off H; simpl in H; [discriminate|].
  destruct (Nat.eqb g g') eqn:E.
  - injection H as <-. apply Nat.eqb_eq in E. exists (g', x). auto.
  - destruct (offset_of g l) as [o|] eqn:O; simpl in H; [|discriminate]. injection H as <-. destruct (IH o eq_refl) as [gt [Hn Hg]]. exists gt. auto.
Qed.

Lemma offset_of_nth l : NoDup (map fst l) -> forall off gt, nth_error l off = Some gt -> offset_of (fst gt) l = Some off.
Proof.
  induction l as [|[g' x] l IH]; intros Hd off gt Hn; [destruct off; discriminate|]. inversion Hd as [|? ? Hni Hd']; subst.
  destruct off as [|off]; simpl in Hn.
  - injection Hn as <-. simpl. rewrite Nat.eqb_refl. reflexivity.
  - simpl. destruct (Nat.eqb (fst gt) g') eqn:E.
    + apply Nat.eqb_eq in E. exfalso. apply Hni. rewrite <- E. apply in_map. exact (nth_error_In _ _ Hn).
    + rewrite (IH Hd' off gt Hn). reflexivity.
Qed.

Lemma max_exists {A} (f : A -> nat) (l : list A) : l <> [] -> exists x, In x l /\ forall y, In y l -> f y <= f x.
Proof.
  induction l as [|a l IH]; intros H; [contradiction|]. destruct l as [|b l].
  - exists a. split; [left; reflexivity|]. intros y [<-|[]]. lia.
  - destruct (IH ltac:(discriminate)) as [x [Hx Hm]]. destruct (Nat.le_gt_cases (f a) (f x)) as [Hle|Hgt].
    + exists x. split; [right; exact Hx|]. intros y [<-|Hy]; [exact Hle|exact (Hm y Hy)].
    + exists a. split; [left; reflexivity|]. intros y [<-|Hy]; [lia|]. specialize (Hm y Hy). lia.
Qed.

Lemma full_row (row : list (option key)) m : List.length row <= m -> (forall q, q < m -> exists k, nth q row None = Some k) ->
  exists ks, row = map Some ks /\ List.length ks = m.
Proof.
  intros Hl Hs. assert (Hlen : List.length row = m).
  { apply Nat.le_antisymm; [exact Hl|]. destruct m as [|m]; [lia|]. destruct (Hs m ltac:(lia)) as [k Hk].
    destruct (Nat.le_gt_cases (List.length row) m) as [X|X]; [rewrite nth_overflow in Hk by exact X; discriminate|lia]. }
  destruct (all_some row) as [ks Hks]; [intros q Hq; apply Hs; lia|]. exists ks. split; [exact Hks|]. rewrite <- Hlen, Hks, map_length. reflexivity.
Qed.

Lemma traverse_pointwise {A P} (f : key -> option A) (R : A -> P -> Prop) : forall (ks : list key) (ps : list P), List.length ks = List.length ps ->
  (forall q k p, nth_error ks q = Some k -> nth_error ps q = Some p -> exists x, f k = Some x /\ R x p) ->
  exists xs, traverse f ks = Some xs /\ Forall2 R xs ps.
Proof.
  induction ks as [|k ks IH]; intros [|p ps] Hlen Hx; simpl in Hlen; try discriminate.
  - exists []. split; [reflexivity|constructor].
  - destruct (Hx 0 k p eq_refl eq_refl) as [x [Hk Hr]]. destruct (IH ps ltac:(lia)) as [xs [Ht Hf]].
    + intros q k' p' H1 H2. exact (Hx (Datatypes.S q) k' p' H1 H2).
    + exists (x :: xs). split; [simpl; rewrite Hk; simpl; rewrite Ht; reflexivity|constructor; assumption].
Qed.

Section Emit.
Variable a : assets.
Variable nodes : list node.
Hypothesis wf : WF a nodes.
Variable S0 : list nat.
Variable T : tbl.
Variable B : blocks.
Hypothesis H : Inv a nodes S0 S0 S0 (allp S0) T B.
Hypothesis Hall : forall i nd, nth_error nodes i = Some nd -> In i S0.
Hypothesis Hcm : forall l, a = Some l ->
  (forall gt, In gt l -> exists k ndk, nth_error nodes k = Some ndk /\ is_train ndk = true /\ ngid ndk = fst gt)
  \/ (forall gt k ndk, In gt l -> nth_error nodes k = Some ndk -> is_train ndk = true -> ngid ndk = fst gt -> False).

Notation fop := (fop a nodes).
Notation preset_of := (preset_of a nodes).
Notation pers := (pers a).

Lemma block_instr I ks k : In (I, ks) B -> In k ks -> instr_at T k = Some I.
Proof.
  intros Hb Hk. unfold instr_at. rewrite (v_idx _ _ _ _ _ _ _ _ H). apply in_assoc; [exact (v_keys _ _ _ _ _ _ _ _ H)|].
  apply expand_in. exists ks. auto.
Qed.

Lemma instr_block k I : instr_at T k = Some I -> exists ks, In (I, ks) B /\ In k ks.
Proof. unfold instr_at. rewrite (v_idx _ _ _ _ _ _ _ _ H). intros X. apply assoc_in in X. apply expand_in in X. exact X. Qed.

Lemma same_id_same_block I ks I' ks' : In (I, ks) B -> In (I', ks') B -> iid I = iid I' -> (I, ks) = (I', ks').
Proof.
  intros H1 H2 E. apply In_nth_error in H1. apply In_nth_error in H2. destruct H1 as [q1 H1], H2 as [q2 H2].
  assert (q1 = q2).
  { apply (proj1 (NoDup_nth_error (map bid B)) (v_ids _ _ _ _ _ _ _ _ H)).
    - rewrite map_length. apply nth_error_Some. rewrite H1. discriminate.
    - rewrite (map_nth_error bid q1 B H1), (map_nth_error bid q2 B H2). unfold bid. simpl. rewrite E. reflexivity. }
  subst q2. rewrite H1 in H2. injection H2 as -> ->. reflexivity.
Qed.

Lemma fun_block i nd : nth_error nodes i = Some nd -> exists F, In (F, fkeys i nd) B /\ iop F = fop i nd /\ instr_at T (KU i) = Some F.
Proof.
  intros Hn. destruct (v_fun _ _ _ _ _ _ _ _ H i (Hall i nd Hn)) as [nd' [F [Hn' [Hin Ho]]]]. rewrite Hn in Hn'. injection Hn' as <-.
  exists F. split; [exact Hin|]. split; [exact Ho|]. apply (block_instr F (fkeys i nd)); [exact Hin|left; reflexivity].
Qed.

Lemma blocks_nonempty b : In b B -> snd b <> [].
Proof. intros Hb. destruct b as [I ks]. destruct (v_kinds _ _ _ _ _ _ _ _ H I ks Hb); simpl; discriminate. Qed.

Lemma groups_are_blocks : groupby (index T) None = B.
Proof. rewrite (v_idx _ _ _ _ _ _ _ _ H). apply groupby_expand; [exact (v_ids _ _ _ _ _ _ _ _ H)|exact blocks_nonempty]. Qed.

(* ---- rows ------------------------------------------------------------------------------------------------ *)
Lemma prow_other k : (forall j, k <> KU j) -> prow T k = [].
Proof. intros Hk. destruct (prow T k) eqn:E; [reflexivity|]. destruct (v_prows _ _ _ _ _ _ _ _ H k) as [j [_ X]]; [rewrite E; discriminate|]. exfalso. exact (Hk j X). Qed.

Lemma linkage_nonku k : (forall j, k <> KU j) -> linkage T k = arow T k.
Proof. intros Hk. unfold linkage. fold (prow T k). fold (arow T k). rewrite (prow_other k Hk). reflexivity. Qed.

Lemma arow_full j nd : nth_error nodes j = Some nd ->
  exists ks, arow T (KU j) = map Some ks /\ List.length ks = List.length (ports nd)
    /\ forall q ip, nth_error (ports nd) q = Some ip -> exists k, nth_error ks q = Some k /\ srckey nodes T B ip k.
Proof.
  intros Hn. destruct (v_rows _ _ _ _ _ _ _ _ H j nd Hn) as [Hl Hr].
  assert (Hsome : forall q ip, nth_error (ports nd) q = Some ip -> exists k, aget T (KU j) q = Some k /\ srckey nodes T B ip k).
  { intros q ip Hip. apply (proj1 (Hr q ip Hip)). destruct (w_ports a nodes wf j nd q ip Hn Hip) as [_ [ndi [Hni _]]]. exact (Hall _ _ Hni). }
  assert (Hlen : List.length (arow T (KU j)) = List.length (ports nd)).
  { apply Nat.le_antisymm; [exact Hl|]. destruct (Nat.eq_dec (List.length (ports nd)) 0) as [E0|Hne]; [lia|].
    destruct (nth_error (ports nd) (List.length (ports nd) - 1)) as [ip|] eqn:E; [|apply nth_error_None in E; lia].
    destruct (Hsome _ ip E) as [k [Hk _]]. unfold aget in Hk.
    destruct (Nat.le_gt_cases (List.length (arow T (KU j))) (List.length (ports nd) - 1)) as [X|X]; [rewrite nth_overflow in Hk by exact X; discriminate|lia]. }
  destruct (all_some (arow T (KU j))) as [ks Hks].
  - intros q Hq. rewrite Hlen in Hq. destruct (nth_error (ports nd) q) as [ip|] eqn:E; [|apply nth_error_None in E; lia].
    destruct (Hsome q ip E) as [k [Hk _]]. exists k. exact Hk.
  - exists ks. split; [exact Hks|]. split; [rewrite <- Hlen, Hks, map_length; reflexivity|].
    intros q ip Hip. destruct (Hsome q ip Hip) as [k [Hk Hs]]. exists k. split; [|exact Hs].
    unfold aget in Hk. rewrite Hks in Hk.
    assert (Hq : q < List.length ks) by (rewrite <- (map_length Some); rewrite <- Hks; rewrite Hlen; apply nth_error_Some; rewrite Hip; discriminate).
    rewrite (nth_indep _ None (Some (KU 0))) in Hk by (rewrite map_length; exact Hq). rewrite map_nth in Hk. injection Hk as <-.
    apply nth_error_nth'. exact Hq.
Qed.

Lemma linkage_ku j nd : nth_error nodes j = Some nd ->
  exists sks ks, linkage T (KU j) = map Some (sks ++ ks)
    /\ (if preset_of j nd then exists sk, sks = [sk] /\ statekey_ok a B nd sk else sks = [])
    /\ arow T (KU j) = map Some ks
    /\ List.length ks = List.length (ports nd)
    /\ forall q ip, nth_error (ports nd) q = Some ip -> exists k, nth_error ks q = Some k /\ srckey nodes T B ip k.
Proof.
  intros Hn. destruct (arow_full j nd Hn) as [ks [Hks [Hl Hq]]].
  destruct (v_pref _ _ _ _ _ _ _ _ H j nd Hn) as [H1 H2]. unfold linkage. fold (prow T (KU j)). fold (arow T (KU j)).
  destruct (preset_of j nd) eqn:Ep.
  - destruct (H1 (Hall j nd Hn) eq_refl) as [sk [Esk Hsk]]. exists [sk], ks. rewrite Esk, Hks, map_app. simpl.
    split; [reflexivity|]. split; [eauto|]. split; [reflexivity|split; assumption].
  - exists [], ks. rewrite (H2 (or_intror eq_refl)), Hks. simpl. split; [reflexivity|]. split; [reflexivity|]. split; [reflexivity|split; assumption].
Qed.

Lemma linkage_kg g : linkage T (KG g) = [].
Proof. rewrite linkage_nonku by (intros j; discriminate). exact (v_kgrow _ _ _ _ _ _ _ _ H g). Qed.

(* ---- Linkage.leaves ------------------------------------------------------------------------------------------ *)
Lemma opt_key_in_spec k l : opt_key_in k l = true <-> In (Some k) l.
Proof.
  unfold opt_key_in. rewrite existsb_exists. split.
  - intros [[y|] [Hy E]]; [apply key_eqb_eq in E; subst; exact Hy|discriminate].
  - intros Hin. exists (Some k). split; [exact Hin|apply key_eqb_refl].
Qed.

Definition lkeys : list key := map fst (absl T) ++ map fst (pref T).
Definition lparents : list (option key) := flat_map snd (absl T) ++ flat_map (fun kv => map Some (snd kv)) (pref T).

Lemma absl_entry k row : In (k, row) (absl T) -> row = arow T k.
Proof. intros Hin. unfold arow. rewrite (in_assoc k row (absl T) (proj1 (v_anodup _ _ _ _ _ _ _ _ H)) Hin). reflexivity. Qed.

Lemma pref_entry k row : In (k, row) (pref T) -> row = prow T k.
Proof. intros Hin. unfold prow. rewrite (in_assoc k row (pref T) (proj2 (v_anodup _ _ _ _ _ _ _ _ H)) Hin). reflexivity. Qed.

Lemma arow_parent k' e : In (Some e) (arow T k') -> In (Some e) lparents.
Proof.
  intros Hin. unfold lparents. apply in_or_app. left. apply in_flat_map. unfold arow in Hin.
  destruct (assoc k' (absl T)) as [row|] eqn:E; [|destruct Hin]. exists (k', row). split; [apply assoc_in; exact E|exact Hin].
Qed.

Lemma lkey_in_index k : In k lkeys -> exists I, instr_at T k = Some I.
Proof.
  intros Hk. apply in_app_or in Hk. destruct Hk as [Hk|Hk].
  - pose proof (proj1 (v_rowsne _ _ _ _ _ _ _ _ H) k Hk) as Hne. destruct (v_arows _ _ _ _ _ _ _ _ H k Hne) as [[j [nd [-> Hn]]]|X].
    + destruct (fun_block j nd Hn) as [F [_ [_ X]]]. exists F. exact X.
    + unfold instr_at. rewrite (v_idx _ _ _ _ _ _ _ _ H). destruct (assoc k (expand B)) eqn:E; [eauto|]. apply assoc_none in E. contradiction.
  - pose proof (proj2 (v_rowsne _ _ _ _ _ _ _ _ H) k Hk) as Hne. destruct (v_prows _ _ _ _ _ _ _ _ H k Hne) as [j [Hj ->]].
    destruct (v_fun _ _ _ _ _ _ _ _ H j Hj) as [nd [F [Hn [Hin _]]]]. exists F. apply (block_instr F (fkeys j nd)); [exact Hin|left; reflexivity].
Qed.

Definition is_ck (c : nat) : bool := match committer T with Some (KF c') => Nat.eqb c c' | _ => false end.

Definition rankf (k : key) : nat :=
  match k with
  | KU j => 2 * j + 1
  | KF c => if is_ck c then 2 * List.length nodes + 3
            else match arow T (KF c) with [Some (KU i)] => 2 * i + 2 | _ => 0 end
  | KG _ => 0
  end.

Lemma lkey_has_row k : In k lkeys -> arow T k <> [] \/ prow T k <> [].
Proof.
  intros Hk. apply in_app_or in Hk. destruct Hk as [Hk|Hk]; [left; exact (proj1 (v_rowsne _ _ _ _ _ _ _ _ H) k Hk)|right; exact (proj2 (v_rowsne _ _ _ _ _ _ _ _ H) k Hk)].
Qed.

Lemma norow_not_lkey k : arow T k = [] -> (forall j, k <> KU j) -> ~ In k lkeys.
Proof. intros Ha Hk X. destruct (lkey_has_row _ X) as [Y|Y]; [exact (Y Ha)|apply Y; apply prow_other; exact Hk]. Qed.

Lemma kg_not_lkey g : ~ In (KG g) lkeys.
Proof. apply norow_not_lkey; [exact (v_kgrow _ _ _ _ _ _ _ _ H g)|intros j; discriminate]. Qed.

Lemma block_key_unique I ks I' ks' k : In (I, ks) B -> In (I', ks') B -> In k ks -> In k ks' -> I = I'.
Proof. intros H1 H2 K1 K2. pose proof (block_instr I ks k H1 K1) as E1. pose proof (block_instr I' ks' k H2 K2) as E2. congruence. Qed.

Lemma not_ck c I : In (I, [KF c]) B -> iop I <> OCommitter -> is_ck c = false.
Proof.
  intros Hb Ho. unfold is_ck. destruct (committer T) as [[j|g|c']|] eqn:Ec; try reflexivity.
  destruct (Nat.eqb c c') eqn:E; [|reflexivity]. apply Nat.eqb_eq in E. subst c'. exfalso.
  destruct (p_some _ _ _ _ _ _ (v_pers _ _ _ _ _ _ _ _ H) _ Ec) as [c2 [C [E2 [HC HCo]]]]. injection E2 as <-.
  apply Ho. rewrite (block_key_unique I [KF c] C [KF c] (KF c) Hb HC (or_introl eq_refl) (or_introl eq_refl)). exact HCo.
Qed.

Lemma unary_rank c I i : In (I, [KF c]) B -> iop I <> OCommitter -> arow T (KF c) = [Some (KU i)] -> rankf (KF c) = 2 * i + 2.
Proof. intros Hb Ho Hr. simpl. rewrite (not_ck c I Hb Ho), Hr. reflexivity. Qed.

Lemma ku_entry_rank j nd e : nth_error nodes j = Some nd -> In (Some e) (arow T (KU j)) -> rankf e < 2 * j + 1.
Proof.
  intros Hn Hin. destruct (arow_full j nd Hn) as [ks [Hks [Hl Hq]]]. rewrite Hks in Hin. apply in_map_iff in Hin. destruct Hin as [e' [E He]].
  injection E as ->. apply In_nth_error in He. destruct He as [q He].
  destruct (nth_error (ports nd) q) as [ip|] eqn:Ep; [|apply nth_error_None in Ep; assert (q < List.length ks) by (apply nth_error_Some; rewrite He; discriminate); lia].
  destruct (Hq q ip Ep) as [k [Hk Hs]]. rewrite He in Hk. injection Hk as <-.
  destruct (w_ports a nodes wf j nd q ip Hn Ep) as [Hlt _].
  destruct Hs as [ndi [Hni [[_ ->]|[_ [c [I [-> [HinB [Ho Hr]]]]]]]]]; [simpl; lia|].
  rewrite (unary_rank c I (fst ip) HinB) by (try exact Hr; rewrite Ho; discriminate). lia.
Qed.

Lemma comm_entries ck l off e : committer T = Some ck -> a = Some l -> aget T ck off = Some e ->
  exists i nd, nth_error nodes i = Some nd /\ strain nd && pers nd = true /\ offset a (ngid nd) = Some off /\ dumper_of T B i e.
Proof.
  intros Hck Hl He. destruct (p_crow _ _ _ _ _ _ (v_pers _ _ _ _ _ _ _ _ H) ck l Hck Hl) as [_ Hrow]. destruct (Hrow off) as [R1 R2].
  destruct (exists_or_forall (fun i => exists nd, nth_error nodes i = Some nd /\ strain nd && pers nd = true /\ offset a (ngid nd) = Some off) S0) as [[i [Hi [nd [Hn [Hsp Ho]]]]]|Hno].
  - intros i. destruct (nth_error nodes i) as [nd|]; [|right; intros [nd [X _]]; discriminate].
    destruct (strain nd && pers nd) eqn:E1; [|right; intros [nd' [X [Y _]]]; injection X as <-; congruence].
    destruct (offset a (ngid nd)) as [o|] eqn:E2; [|right; intros [nd' [X [_ Y]]]; injection X as <-; congruence].
    destruct (Nat.eq_dec o off) as [->|Hne]; [left; exists nd; auto|right; intros [nd' [X [_ Y]]]; injection X as <-; congruence].
  - destruct (R1 i nd Hi Hn Hsp Ho) as [k [Hk Hd]]. rewrite He in Hk. injection Hk as <-. exists i, nd. auto.
  - rewrite R2 in He; [discriminate|]. intros i nd Hi Hn Hsp Ho. apply (Hno i Hi). exists nd. auto.
Qed.

Lemma entry_rank k' e : arow T k' <> [] -> In (Some e) (arow T k') -> rankf e < rankf k'.
Proof.
  intros Hne Hin. destruct (v_arows _ _ _ _ _ _ _ _ H k' Hne) as [[j [nd [-> Hn]]]|X].
  - simpl. exact (ku_entry_rank j nd e Hn Hin).
  - apply expand_keys in X. destruct X as [[I ks] [Hb Hk]]. simpl in Hk.
    destruct (v_kinds _ _ _ _ _ _ _ _ H I ks Hb) as [i nd I0 Hi Hn Ho|i nd p c I0 Hi Hn Ht Hz Hp Ho Hr|g k I0 Ho Hp Hr Hkk|i nd c I0 Hn Hsp Ho Hr|c I0 Ho Hck].
    + unfold fkeys in Hk. destruct Hk as [<-|Hk]; [simpl; exact (ku_entry_rank i nd e Hn Hin)|].
      destruct (strain nd); [|destruct Hk]. destruct Hk as [<-|[]]. exfalso. apply Hne. exact (v_kgrow _ _ _ _ _ _ _ _ H (ngid nd)).
    + destruct Hk as [<-|[]]. rewrite (unary_rank c I0 i Hb) by (try exact Hr; rewrite Ho; discriminate). rewrite Hr in Hin. destruct Hin as [E|[]]. injection E as <-. simpl. lia.
    + destruct Hk as [<-|[]]. exfalso. exact (Hne Hr).
    + destruct Hk as [<-|[]]. rewrite (unary_rank c I0 i Hb) by (try exact Hr; rewrite Ho; discriminate). rewrite Hr in Hin. destruct Hin as [E|[]]. injection E as <-. simpl. lia.
    + destruct Hk as [<-|[]]. apply In_nth_error in Hin. destruct Hin as [off Hoff].
      assert (Hag : aget T (KF c) off = Some e) by (unfold aget; apply nth_error_nth with (d := None) in Hoff; exact Hoff).
      destruct (p_conv _ _ _ _ _ _ (v_pers _ _ _ _ _ _ _ _ H) _ Hck) as [i0 [nd0 [_ [Hn0 Hsp0]]]].
      assert (Hpa : exists l, a = Some l).
      { apply andb_prop in Hsp0. destruct Hsp0 as [_ Hp0]. unfold C01Inv.pers in Hp0. apply andb_prop in Hp0. destruct Hp0 as [_ Hp0].
        unfold persistent in Hp0. destruct a as [l|]; [eauto|discriminate]. }
      destruct Hpa as [l Hl]. destruct (comm_entries (KF c) l off e Hck Hl Hag) as [i [nd [Hn [Hsp [Hoffs [cd [D [-> [HD [HDo HDr]]]]]]]]]].
      rewrite (unary_rank cd D i HD) by (try exact HDr; rewrite HDo; discriminate).
      assert (Hil : i < List.length nodes) by (apply nth_error_Some; rewrite Hn; discriminate).
      simpl. unfold is_ck. rewrite Hck, Nat.eqb_refl. lia.
Qed.

Lemma loader_row g k : loader_at B g k -> arow T k = [] /\ (forall j, k <> KU j).
Proof.
  intros [I [Hin Ho]]. remember [k] as ks eqn:Eks.
  destruct (v_kinds _ _ _ _ _ _ _ _ H I ks Hin) as [i1 nd1 I1 Hi1 Hn1 Ho1|i1 nd1 p1 c1 I1 Hi1 Hn1 Ht1 Hz1 Hp1 Ho1 Hr1|g1 k1 I1 Ho1 Hp1 Hr1 Hk1|i1 nd1 c1 I1 Hn1 Hsp1 Ho1 Hr1|c1 I1 Ho1 Hck1].
  - unfold C01Inv.fop in Ho1. rewrite Ho in Ho1. discriminate.
  - rewrite Ho in Ho1. discriminate.
  - injection Eks as ->. split; [exact Hr1|]. intros j E. subst k. destruct Hk1 as [X|[c X]]; discriminate.
  - rewrite Ho in Ho1. discriminate.
  - rewrite Ho in Ho1. discriminate.
Qed.

Lemma leaves_ok : exists lv, leaves T = Some lv /\ forall k, In k lv -> In k lkeys /\ ~ In (Some k) lparents.
Proof.
  unfold leaves. fold lkeys. fold lparents.
  set (children := filter (fun k => negb (opt_key_in k lparents)) lkeys).
  assert (Hch : forall k, In k children -> In k lkeys /\ ~ In (Some k) lparents).
  { intros k Hk. apply filter_In in Hk. destruct Hk as [Hk Hn]. split; [exact Hk|]. intros X. apply opt_key_in_spec in X. rewrite X in Hn. discriminate. }
  destruct lkeys as [|k0 rest] eqn:Ek.
  - exists children. split; [destruct children; reflexivity|exact Hch].
  - assert (Hne : children <> []).
    { destruct (max_exists rankf lkeys) as [km [Hkm Hmax]]; [rewrite Ek; discriminate|].
      assert (In km children).
      { apply filter_In. split; [rewrite <- Ek; exact Hkm|]. apply negb_true_iff. apply not_true_iff_false. intros X.
        apply opt_key_in_spec in X. unfold lparents in X. apply in_app_or in X. destruct X as [X|X].
        - apply in_flat_map in X. destruct X as [[k' row] [Hin Hrow]]. simpl in Hrow. pose proof (absl_entry k' row Hin) as ->.
          assert (Hk' : In k' lkeys) by (unfold lkeys; apply in_or_app; left; apply in_map_iff; exists (k', arow T k'); auto).
          assert (Hne' : arow T k' <> []) by (intros Y; rewrite Y in Hrow; destruct Hrow).
          pose proof (entry_rank k' km Hne' Hrow). specialize (Hmax k' Hk'). lia.
        - apply in_flat_map in X. destruct X as [[k' row] [Hin Hrow]]. simpl in Hrow. apply in_map_iff in Hrow. destruct Hrow as [e [E He]].
          injection E as ->. pose proof (pref_entry k' row Hin) as ->.
          assert (Hne' : prow T k' <> []) by (intros Y; rewrite Y in He; destruct He).
          destruct (v_prows _ _ _ _ _ _ _ _ H k' Hne') as [j [Hj ->]]. destruct (v_fun _ _ _ _ _ _ _ _ H j Hj) as [nd [_ [Hn _]]].
          destruct (v_pref _ _ _ _ _ _ _ _ H j nd Hn) as [H1 H2]. destruct (preset_of j nd) eqn:Ep.
          + destruct (H1 Hj eq_refl) as [sk [Esk Hsk]]. rewrite Esk in He. destruct He as [<-|[]].
            unfold C01Inv.statekey_ok in Hsk. destruct (strain nd && pers nd).
            * destruct Hsk as [_ Hlo]. destruct (loader_row _ _ Hlo) as [Hr1 Hnk]. exact (norow_not_lkey _ Hr1 Hnk Hkm).
            * subst sk. exact (kg_not_lkey _ Hkm).
          + rewrite (H2 (or_intror eq_refl)) in He. destruct He. }
      intros Y. rewrite Y in H0. destruct H0. }
    exists children. split; [|exact Hch]. destruct children; [contradiction|reflexivity].
Qed.

(* ---- emission ------------------------------------------------------------------------------------------------ *)
Definition fblock (g : instr * list key) : option (instr * list instr) :=
  let '(i, ks) := g in
  bind (match map (linkage T) ks with [] => None | x :: r => fold_opt merge r x end) (fun ks' =>
  bind (traverse (fun x => match x with Some k => assoc k (index T) | None => None end) ks') (fun args => Some (i, args))).

Definition fun_of (j : nat) (F : instr) : Prop :=
  exists ndj, nth_error nodes j = Some ndj /\ In (F, fkeys j ndj) B /\ iop F = fop j ndj.

Definition rsrc (x : instr) (ip : nat * nat) : Prop :=
  exists ndj Fj, nth_error nodes (fst ip) = Some ndj /\ fun_of (fst ip) Fj
    /\ ((nszout ndj = 1 /\ x = Fj) \/
        (nszout ndj <> 1 /\ iop x = OGetter (snd ip) /\ exists c, In (x, [KF c]) B /\ arow T (KF c) = [Some (KU (fst ip))]
                          /\ exists k', In (Some (KF c)) (arow T k'))).

Definition sres (i : nat) (nd : node) (x : instr) : Prop :=
  (exists k ndk, nth_error nodes k = Some ndk /\ is_train ndk = true /\ ngid ndk = ngid nd /\ k <> i /\ fun_of k x)
  \/ ((forall k ndk, nth_error nodes k = Some ndk -> is_train ndk = true -> ngid ndk = ngid nd -> k = i)
      /\ pers nd = true /\ iop x = OLoader (ngid nd) /\ exists kx, In (x, [kx]) B /\ arow T kx = [] /\ forall j, kx <> KU j).

Definition dres (d : instr) (gt : nat * term) : Prop :=
  iop d = ODumper /\ exists k ndk Fk cd, In (d, [KF cd]) B /\ arow T (KF cd) = [Some (KU k)] /\ nth_error nodes k = Some ndk
    /\ is_train ndk = true /\ ngid ndk = fst gt /\ fun_of k Fk.

Lemma resolve_src j nd q ip k : nth_error nodes j = Some nd -> nth_error (ports nd) q = Some ip ->
  In (Some k) (arow T (KU j)) -> srckey nodes T B ip k -> exists x, assoc k (index T) = Some x /\ rsrc x ip.
Proof.
  intros Hn Hq Hin [ndi [Hni Hs]]. destruct (fun_block (fst ip) ndi Hni) as [Fi [HFi [Hoi Hati]]].
  assert (HFo : fun_of (fst ip) Fi) by (exists ndi; auto).
  destruct Hs as [[Hone ->]|[Hz [c [I [-> [HinB [Ho Hr]]]]]]].
  - exists Fi. split; [exact Hati|]. exists ndi, Fi. split; [exact Hni|]. split; [exact HFo|]. left. auto.
  - exists I. split; [apply (block_instr I [KF c]); [exact HinB|left; reflexivity]|].
    exists ndi, Fi. split; [exact Hni|]. split; [exact HFo|]. right. split; [exact Hz|]. split; [exact Ho|].
    exists c. split; [exact HinB|]. split; [exact Hr|]. exists (KU j). exact Hin.
Qed.

Lemma resolve_state i nd sk : nth_error nodes i = Some nd -> preset_of i nd = true -> statekey_ok a B nd sk ->
  exists x, assoc sk (index T) = Some x /\ sres i nd x.
Proof.
  intros Hn Hpre Hsk. unfold C01Inv.statekey_ok in Hsk. destruct (strain nd && pers nd) eqn:Esp.
  - destruct Hsk as [_ Hlo]. pose proof (loader_row _ _ Hlo) as [Hr Hnk]. destruct Hlo as [I [HinB Ho]].
    exists I. split; [apply (block_instr I [sk]); [exact HinB|left; reflexivity]|]. right.
    apply andb_prop in Esp. destruct Esp as [Es Ep]. pose proof (strain_train nd Es) as Et. split.
    + intros k ndk Hnk' Htk Hg. exact (w_unique a nodes wf k ndk i nd Hnk' Hn Htk Et Hg).
    + split; [exact Ep|]. split; [exact Ho|]. exists sk. auto.
  - subst sk. destruct (trainer nodes (List.length nodes) (ngid nd)) as [k|] eqn:Etr.
    + destruct (trainer_some nodes (ngid nd) _ k Etr) as [_ [ndk [Hnk [Hg Htk]]]].
      assert (Hsk : strain ndk = true) by (unfold strain; rewrite Htk, (w_train_stateful a nodes wf k ndk Hnk Htk); reflexivity).
      destruct (fun_block k ndk Hnk) as [Fk [HFk [Hok _]]].
      assert (Hkg : assoc (KG (ngid nd)) (index T) = Some Fk).
      { apply (block_instr Fk (fkeys k ndk) (KG (ngid nd)) HFk). unfold fkeys. rewrite Hsk, Hg. right. left. reflexivity. }
      exists Fk. split; [exact Hkg|]. left. exists k, ndk. repeat split; auto; [|exists ndk; auto].
      intros ->. rewrite Hn in Hnk. injection Hnk as <-.
      (* i itself is the trainer: not persistent (Esp), so preset comes from another trained member - impossible *)
      rewrite Hsk in Esp. simpl in Esp. unfold C01Inv.preset_of in Hpre. rewrite Esp in Hpre. simpl in Hpre.
      apply andb_prop in Hpre. destruct Hpre as [_ Hder]. apply (derived_spec nodes i nd Hn) in Hder.
      destruct Hder as [_ [k' [ndk' [Hne [Hnk' [Hg' Htk']]]]]]. apply Hne. exact (w_unique a nodes wf k' ndk' i nd Hnk' Hn Htk' Htk Hg').
    + assert (Hnone : forall k ndk, nth_error nodes k = Some ndk -> is_train ndk = true -> ngid ndk = ngid nd -> False).
      { intros k ndk Hnk Htk Hg. assert (Hk : k < List.length nodes) by (apply nth_error_Some; rewrite Hnk; discriminate).
        rewrite (trainer_none nodes (ngid nd) _ Etr k ndk Hk Hnk Hg) in Htk. discriminate. }
      assert (Hder : derived nodes i nd = false).
      { destruct (derived nodes i nd) eqn:E; [|reflexivity]. apply (derived_spec nodes i nd Hn) in E. destruct E as [_ [k [ndk [_ [Hnk [Hg Htk]]]]]].
        exfalso. exact (Hnone k ndk Hnk Htk Hg). }
      assert (Hp : pers nd = true).
      { unfold C01Inv.preset_of in Hpre. rewrite Hder, orb_false_r in Hpre. apply andb_prop in Hpre. tauto. }
      destruct (p_load _ _ _ _ _ _ (v_pers _ _ _ _ _ _ _ _ H) i nd (Hall i nd Hn) Hn Hp) as [I [HinB Ho]].
      { intros [k [ndk [_ [Hnk [Htk Hg]]]]]. exact (Hnone k ndk Hnk Htk Hg). }
      pose proof (loader_row (ngid nd) (KG (ngid nd)) (ex_intro _ I (conj HinB Ho))) as [Hr Hnk].
      exists I. split; [apply (block_instr I [KG (ngid nd)]); [exact HinB|left; reflexivity]|]. right. split.
      * intros k ndk Hnk' Htk Hg. exfalso. exact (Hnone k ndk Hnk' Htk Hg).
      * split; [exact Hp|]. split; [exact Ho|]. exists (KG (ngid nd)). auto.
Qed.

Lemma fblock_fun i nd F : nth_error nodes i = Some nd -> In (F, fkeys i nd) B ->
  exists sargs iargs, fblock (F, fkeys i nd) = Some (F, sargs ++ iargs)
    /\ (if preset_of i nd then exists x, sargs = [x] /\ sres i nd x else sargs = [])
    /\ Forall2 rsrc iargs (ports nd).
Proof.
  intros Hn HinB. destruct (linkage_ku i nd Hn) as [sks [ks [Hlk [Hsks [Hrow [Hl Hq]]]]]].
  destruct (traverse_pointwise (fun k => assoc k (index T)) rsrc ks (ports nd) Hl) as [iargs [Hti Hfi]].
  { intros q k ip Hk Hip. destruct (Hq q ip Hip) as [k' [Hk' Hs]]. rewrite Hk in Hk'. injection Hk' as <-.
    apply (resolve_src i nd q ip k Hn Hip); [rewrite Hrow; apply in_map; apply (nth_error_In _ _ Hk)|exact Hs]. }
  assert (Hmerge : match map (linkage T) (fkeys i nd) with [] => None | x :: r => fold_opt merge r x end = Some (linkage T (KU i))).
  { unfold fkeys. destruct (strain nd); simpl; [rewrite linkage_kg, merge_nil_r|]; reflexivity. }
  unfold fblock. rewrite Hmerge. simpl. rewrite Hlk, traverse_resolve.
  destruct (preset_of i nd) eqn:Ep.
  - destruct Hsks as [sk [-> Hsk]]. destruct (resolve_state i nd sk Hn Ep Hsk) as [x [Hx Hsx]].
    exists [x], iargs. split; [simpl; rewrite Hx; simpl; rewrite Hti; reflexivity|]. split; [eauto|exact Hfi].
  - subst sks. exists [], iargs. split; [simpl; rewrite Hti; reflexivity|]. split; [reflexivity|exact Hfi].
Qed.

Lemma fblock_unary i nd c I : nth_error nodes i = Some nd -> arow T (KF c) = [Some (KU i)] ->
  exists Fi, fblock (I, [KF c]) = Some (I, [Fi]) /\ fun_of i Fi.
Proof.
  intros Hn Hr. destruct (fun_block i nd Hn) as [Fi [HFi [Hoi Hati]]]. exists Fi. split; [|exists nd; auto].
  unfold fblock. simpl. rewrite linkage_nonku by (intros j; discriminate). rewrite Hr. simpl. unfold instr_at in Hati. rewrite Hati. reflexivity.
Qed.

Lemma fblock_load I k : arow T k = [] -> (forall j, k <> KU j) -> fblock (I, [k]) = Some (I, []).
Proof. intros Hr Hk. unfold fblock. simpl. rewrite (linkage_nonku k Hk), Hr. reflexivity. Qed.

Lemma pers_trainer_offset l k ndk off gt : a = Some l -> nth_error l off = Some gt -> nth_error nodes k = Some ndk ->
  is_train ndk = true -> ngid ndk = fst gt -> strain ndk && pers ndk = true /\ offset a (ngid ndk) = Some off.
Proof.
  intros Hl Hgt Hnk Htk Hg. pose proof (offset_of_nth l (w_assets a nodes wf l Hl) off gt Hgt) as Ho.
  unfold strain, C01Inv.pers, persistent, offset. rewrite Htk, (w_train_stateful a nodes wf k ndk Hnk Htk), Hl, Hg, Ho. auto.
Qed.

Lemma fblock_comm c C : In (C, [KF c]) B -> committer T = Some (KF c) ->
  exists dargs l, fblock (C, [KF c]) = Some (C, dargs) /\ a = Some l /\ Forall2 dres dargs l.
Proof.
  intros HC Hck. destruct (v_pers _ _ _ _ _ _ _ _ H) as [P1 P2 P3 PC P4].
  destruct (PC _ Hck) as [i0 [nd0 [_ [Hn0 Hsp0]]]].
  assert (Hpa : persistent a (ngid nd0) = true) by (apply andb_prop in Hsp0; destruct Hsp0 as [_ X]; unfold C01Inv.pers in X; apply andb_prop in X; tauto).
  assert (Ht0 : is_train nd0 = true) by (apply andb_prop in Hsp0; apply strain_train; tauto).
  assert (Hl : exists l, a = Some l) by (unfold persistent in Hpa; destruct a as [l|]; [eauto|discriminate]).
  destruct Hl as [l Hl]. destruct (P4 (KF c) l Hck Hl) as [Hlen Hrow].
  assert (Htr : forall gt, In gt l -> exists k ndk, nth_error nodes k = Some ndk /\ is_train ndk = true /\ ngid ndk = fst gt).
  { destruct (Hcm l Hl) as [X|X]; [exact X|]. exfalso. unfold persistent in Hpa. rewrite Hl in Hpa.
    destruct (offset_of (ngid nd0) l) as [o|] eqn:Eo; [|discriminate]. destruct (offset_of_in _ _ _ Eo) as [gt [Hgt Hg]].
    exact (X gt i0 nd0 (nth_error_In _ _ Hgt) Hn0 Ht0 (eq_sym Hg)). }
  assert (Hent : forall off gt, nth_error l off = Some gt -> exists kd, aget T (KF c) off = Some kd
             /\ exists k ndk, nth_error nodes k = Some ndk /\ is_train ndk = true /\ ngid ndk = fst gt /\ dumper_of T B k kd).
  { intros off gt Hgt. destruct (Htr gt (nth_error_In _ _ Hgt)) as [k [ndk [Hnk [Htk Hg]]]].
    destruct (pers_trainer_offset l k ndk off gt Hl Hgt Hnk Htk Hg) as [Hsp Ho].
    destruct (proj1 (Hrow off) k ndk (Hall k ndk Hnk) Hnk Hsp Ho) as [kd [Hkd Hd]]. exists kd. split; [exact Hkd|]. exists k, ndk. auto. }
  destruct (full_row (arow T (KF c)) (List.length l) Hlen) as [dks [Hdks Hdl]].
  { intros q Hq. destruct (nth_error l q) as [gt|] eqn:E; [|apply nth_error_None in E; lia]. destruct (Hent q gt E) as [kd [Hkd _]]. exists kd. exact Hkd. }
  destruct (traverse_pointwise (fun k => assoc k (index T)) dres dks l Hdl) as [dargs [Htd Hfd]].
  { intros q kd gt Hkd Hgt. destruct (Hent q gt Hgt) as [kd' [Hkd' [k [ndk [Hnk [Htk [Hg [cd [D [-> [HD [HDo HDr]]]]]]]]]]]].
    assert (kd = KF cd).
    { unfold aget in Hkd'. rewrite Hdks in Hkd'. assert (Hq : q < List.length dks) by (apply nth_error_Some; rewrite Hkd; discriminate).
      rewrite (nth_indep _ None (Some (KU 0))) in Hkd' by (rewrite map_length; exact Hq). rewrite map_nth in Hkd'. injection Hkd' as <-.
      apply nth_error_nth with (d := KU 0) in Hkd. congruence. } subst kd.
    destruct (fun_block k ndk Hnk) as [Fk [HFk [Hok _]]].
    exists D. split; [apply (block_instr D [KF cd]); [exact HD|left; reflexivity]|]. split; [exact HDo|].
    exists k, ndk, Fk, cd. repeat split; auto. exists ndk. auto. }
  exists dargs, l. split; [|split; [exact Hl|exact Hfd]].
  unfold fblock. simpl. rewrite linkage_nonku by (intros j; discriminate). rewrite Hdks, traverse_resolve, Htd. reflexivity.
Qed.

Lemma fblock_ok I ks : In (I, ks) B -> exists args, fblock (I, ks) = Some (I, args).
Proof.
  intros Hb. destruct (v_kinds _ _ _ _ _ _ _ _ H I ks Hb) as [i nd I0 Hi Hn Ho|i nd p c I0 Hi Hn Ht Hz Hp Ho Hr|g k I0 Ho Hp Hr Hk|i nd c I0 Hn Hsp Ho Hr|c I0 Ho Hck].
  - destruct (fblock_fun i nd I0 Hn Hb) as [sa [ia [E _]]]. eauto.
  - destruct (fblock_unary i nd c I0 Hn Hr) as [Fi [E _]]. eauto.
  - exists []. apply fblock_load; [exact Hr|]. intros j E. subst k. destruct Hk as [X|[c X]]; discriminate.
  - destruct (fblock_unary i nd c I0 Hn Hr) as [Fi [E _]]. eauto.
  - destruct (fblock_comm c I0 Hb Hck) as [dargs [l [E _]]]. eauto.
Qed.

(* ---- the emitted list ------------------------------------------------------------------------------------------ *)
Lemma fun_of_unique j x y : fun_of j x -> fun_of j y -> x = y.
Proof.
  intros [nd [Hn [Hx _]]] [nd' [Hn' [Hy _]]]. rewrite Hn in Hn'. injection Hn' as <-.
  pose proof (block_instr x (fkeys j nd) (KU j) Hx (or_introl eq_refl)) as E1.
  pose proof (block_instr y (fkeys j nd) (KU j) Hy (or_introl eq_refl)) as E2. congruence.
Qed.

Lemma Forall2_impl {A C} (R R' : A -> C -> Prop) l r : (forall x y, R x y -> R' x y) -> Forall2 R l r -> Forall2 R' l r.
Proof. intros Hi HF. induction HF; constructor; auto. Qed.

Theorem symbols_lfacts : exists L, symbols T = Some L /\ lfacts a nodes L.
Proof.
  destruct leaves_ok as [lv [Hlv Hleaf]].
  destruct (traverse_ok (fun n => assoc n (index T)) lv) as [st0 Hst0].
  { intros k Hk. destruct (lkey_in_index k (proj1 (Hleaf k Hk))) as [I HI]. exists I. exact HI. }
  set (stubs := filter is_getter st0).
  set (nonstub := fun g : instr * list key => negb (existsb (fun s => Nat.eqb (iid s) (iid (fst g))) stubs)).
  destruct (traverse_ok fblock (filter nonstub B)) as [L HL].
  { intros [I ks] Hin. apply filter_In in Hin. destruct (fblock_ok I ks (proj1 Hin)) as [args E]. eauto. }
  assert (Hsym : symbols T = Some L).
  { unfold symbols. rewrite Hlv. simpl. rewrite Hst0. simpl. rewrite groups_are_blocks. exact HL. }
  pose proof (traverse_forall2 _ _ _ HL) as HF.
  assert (Hstub : forall s, In s stubs -> is_getter s = true /\ exists k, In k lv /\ instr_at T k = Some s).
  { intros s Hs. apply filter_In in Hs. destruct Hs as [Hs Hg]. split; [exact Hg|].
    destruct (Forall2_in_r _ _ _ s (traverse_forall2 _ _ _ Hst0) Hs) as [k [Hk E]]. exists k. auto. }
  assert (Hfst : forall I ks s, fblock (I, ks) = Some s -> fst s = I).
  { intros I ks s E. unfold fblock in E. destruct (match map (linkage T) ks with [] => None | x :: r => fold_opt merge r x end); simpl in E; [|discriminate].
    destruct (traverse _ l); simpl in E; [|discriminate]. injection E as <-. reflexivity. }
  assert (elem_inv : forall I args, In (I, args) L -> exists ks, In (I, ks) B /\ nonstub (I, ks) = true /\ fblock (I, ks) = Some (I, args)).
  { intros I args Hin. destruct (Forall2_in_r _ _ _ _ HF Hin) as [[I' ks] [Hb E]]. apply filter_In in Hb.
    pose proof (Hfst I' ks _ E) as X. simpl in X. subst I'. exists ks. tauto. }
  assert (elem_intro : forall I ks, In (I, ks) B -> nonstub (I, ks) = true -> exists args, In (I, args) L /\ fblock (I, ks) = Some (I, args)).
  { intros I ks Hb Hn. destruct (Forall2_in_l _ _ _ (I, ks) HF) as [[I' args] [Hin E]]; [apply filter_In; auto|].
    pose proof (Hfst I ks _ E) as X. simpl in X. subst I'. exists args. auto. }
  assert (plain_nonstub : forall F ks, In (F, ks) B -> is_getter F = false -> nonstub (F, ks) = true).
  { intros F ks Hb Hg. unfold nonstub. apply negb_true_iff. apply not_true_iff_false. intros X. apply existsb_exists in X.
    destruct X as [s [Hs E]]. apply Nat.eqb_eq in E. simpl in E. destruct (Hstub s Hs) as [Hgs [k [_ Hk]]].
    destruct (instr_block k s Hk) as [ks' [Hb' _]]. pose proof (same_id_same_block s ks' F ks Hb' Hb E) as Y. injection Y as -> _. congruence. }
  assert (getter_nonstub : forall G c, In (G, [KF c]) B -> (exists k', In (Some (KF c)) (arow T k')) -> nonstub (G, [KF c]) = true).
  { intros G c Hb [k' Hused]. unfold nonstub. apply negb_true_iff. apply not_true_iff_false. intros X. apply existsb_exists in X.
    destruct X as [s [Hs E]]. apply Nat.eqb_eq in E. simpl in E. destruct (Hstub s Hs) as [_ [k [Hklv Hk]]].
    destruct (instr_block k s Hk) as [ks' [Hb' Hkin]]. pose proof (same_id_same_block s ks' G [KF c] Hb' Hb E) as Y. injection Y as -> ->.
    destruct Hkin as [<-|[]]. apply (proj2 (Hleaf _ Hklv)). exact (arow_parent k' (KF c) Hused). }
  assert (plain_in : forall F ks, In (F, ks) B -> is_getter F = false -> exists args, In (F, args) L /\ fblock (F, ks) = Some (F, args)).
  { intros F ks Hb Hg. exact (elem_intro F ks Hb (plain_nonstub F ks Hb Hg)). }
  assert (fun_isF : forall j F, fun_of j F -> isF L j F).
  { intros j F [nd [Hn [Hb Ho]]]. split.
    - destruct (plain_in F (fkeys j nd) Hb) as [args [Hin _]]; [unfold is_getter; rewrite Ho; reflexivity|]. eauto.
    - unfold C01Inv.fop in Ho. eauto. }
  assert (isF_fun : forall j F, isF L j F -> fun_of j F).
  { intros j F [[args Hin] [tr [pr Ho]]]. destruct (elem_inv F args Hin) as [ks [Hb _]].
    destruct (v_kinds _ _ _ _ _ _ _ _ H F ks Hb) as [i nd I0 Hi Hn Ho'|i nd p c I0 Hi Hn Ht Hz Hp Ho' Hr|g k I0 Ho' Hp Hr Hk|i nd c I0 Hn Hsp Ho' Hr|c I0 Ho' Hck];
      try (rewrite Ho in Ho'; discriminate).
    assert (j = i) by (rewrite Ho in Ho'; unfold C01Inv.fop in Ho'; injection Ho'; auto). subst j.
    exists nd. split; [exact Hn|]. split; [exact Hb|exact Ho']. }
  assert (unary_in : forall d cd k ndk, In (d, [KF cd]) B -> is_getter d = false \/ (exists k', In (Some (KF cd)) (arow T k')) ->
            nth_error nodes k = Some ndk -> arow T (KF cd) = [Some (KU k)] -> forall Fk, fun_of k Fk -> In (d, [Fk]) L).
  { intros d cd k ndk Hb Hns Hnk Hr Fk HFk.
    assert (Hn' : nonstub (d, [KF cd]) = true) by (destruct Hns as [X|X]; [apply plain_nonstub; assumption|apply getter_nonstub; assumption]).
    destruct (elem_intro d [KF cd] Hb Hn') as [args [Hin E]].
    destruct (fblock_unary k ndk cd d Hnk Hr) as [Fi [E' HFi]]. rewrite E in E'. injection E' as ->.
    rewrite (fun_of_unique k Fk Fi HFk HFi). exact Hin. }
  assert (rsrc_deliv : forall x ip, rsrc x ip -> deliv nodes L x ip).
  { intros x ip [ndj [Fj [Hnj [HFj Hx]]]]. exists ndj, Fj. split; [exact Hnj|]. split; [apply fun_isF; exact HFj|].
    destruct Hx as [Hx|[Hz [Ho [c [Hb [Hr Hused]]]]]]; [left; exact Hx|right]. split; [exact Hz|]. split; [exact Ho|].
    exact (unary_in x c (fst ip) ndj Hb (or_intror Hused) Hnj Hr Fj HFj). }
  assert (sres_ok : forall i nd x, sres i nd x -> state_ok a nodes L i nd x).
  { intros i nd x [[k [ndk [Hnk [Htk [Hg [Hne HFk]]]]]]|[Hno [Hp [Ho [kx [Hb [Hr Hk]]]]]]].
    - left. exists k, ndk. repeat split; auto; apply (fun_isF k x HFk).
    - right. split; [exact Hno|]. split; [exact Hp|]. split; [exact Ho|].
      destruct (plain_in x [kx] Hb) as [args [Hin E]]; [unfold is_getter; rewrite Ho; reflexivity|].
      rewrite (fblock_load x kx Hr Hk) in E. injection E as <-. exact Hin. }
  assert (dres_ok : forall d gt, dres d gt -> dump_ok nodes L d gt).
  { intros d gt [Ho [k [ndk [Fk [cd [Hb [Hr [Hnk [Htk [Hg HFk]]]]]]]]]]. split; [exact Ho|]. exists k, ndk, Fk.
    split; [apply (unary_in d cd k ndk Hb); [left; unfold is_getter; rewrite Ho; reflexivity|exact Hnk|exact Hr|exact HFk]|].
    repeat split; auto; apply (fun_isF k Fk HFk). }
  exists L. split; [exact Hsym|]. constructor.
  - (* l_nodup *)
    assert (E : map sid L = map bid (filter nonstub B)).
    { clear -HF Hfst. induction HF as [|[I ks] s l r Hs HF' IH]; [reflexivity|]. simpl. rewrite IH. f_equal.
      unfold sid, bid. rewrite (Hfst I ks s Hs). reflexivity. }
    rewrite E. apply nodup_map_filter. exact (v_ids _ _ _ _ _ _ _ _ H).
  - (* l_closed *)
    intros I args x Hin Hx. destruct (elem_inv I args Hin) as [ks [Hb [_ E]]].
    destruct (v_kinds _ _ _ _ _ _ _ _ H I ks Hb) as [i nd I0 Hi Hn Ho|i nd p c I0 Hi Hn Ht Hz Hp Ho Hr|g k I0 Ho Hp Hr Hk|i nd c I0 Hn Hsp Ho Hr|c I0 Ho Hck].
    + destruct (fblock_fun i nd I0 Hn Hb) as [sa [ia [E' [Hs Hd]]]]. rewrite E in E'. injection E' as ->.
      apply in_app_or in Hx. destruct Hx as [Hx|Hx].
      * destruct (preset_of i nd); [|subst sa; destruct Hx]. destruct Hs as [y [-> Hy]]. destruct Hx as [<-|[]].
        destruct (sres_ok i nd y Hy) as [[k [ndk [_ [_ [_ [_ [[xs Hxs] _]]]]]]]|[_ [_ [_ Hxs]]]]; eauto.
      * destruct (Forall2_in_l _ _ _ x Hd Hx) as [ip [_ Hr]].
        destruct (rsrc_deliv x ip Hr) as [ndj [Fj [_ [[[xs Hxs] _] [[_ ->]|[_ [_ Hin']]]]]]]; eauto.
    + destruct (fblock_unary i nd c I0 Hn Hr) as [Fi [E' HFi]]. rewrite E in E'. injection E' as ->. destruct Hx as [E2|[]]. subst x.
      destruct (fun_isF i Fi HFi) as [[xs Hxs] _]. eauto.
    + rewrite fblock_load in E; [injection E as <-; destruct Hx|exact Hr|]. intros j X. subst k. destruct Hk as [Y|[c Y]]; discriminate.
    + destruct (fblock_unary i nd c I0 Hn Hr) as [Fi [E' HFi]]. rewrite E in E'. injection E' as ->. destruct Hx as [E2|[]]. subst x.
      destruct (fun_isF i Fi HFi) as [[xs Hxs] _]. eauto.
    + destruct (fblock_comm c I0 Hb Hck) as [dargs [l [E' [_ Hfd]]]]. rewrite E in E'. injection E' as ->.
      destruct (Forall2_in_l _ _ _ x Hfd Hx) as [gt [_ Hd]]. destruct (dres_ok x gt Hd) as [_ [k [ndk [Fk [Hxin _]]]]]. eauto.
  - (* l_unique *)
    intros j x y Hx Hy. exact (fun_of_unique j x y (isF_fun j x Hx) (isF_fun j y Hy)).
  - (* l_node *)
    intros i nd Hn. destruct (fun_block i nd Hn) as [F [Hb [Ho _]]].
    destruct (fblock_fun i nd F Hn Hb) as [sa [ia [E [Hs Hd]]]].
    destruct (plain_in F (fkeys i nd) Hb) as [args [Hin E']]; [unfold is_getter; rewrite Ho; reflexivity|].
    rewrite E in E'. injection E' as <-. exists F, sa, ia. split; [exact Hin|]. split; [exact Ho|]. split.
    + destruct (preset_of i nd); [|exact Hs]. destruct Hs as [x [-> Hx]]. exists x. split; [reflexivity|exact (sres_ok i nd x Hx)].
    + exact (Forall2_impl _ _ _ _ rsrc_deliv Hd).
  - (* l_commit *)
    unfold commit_ok. assert (G : forall a0, a = a0 ->
      match a0 with
      | None => forall I args, In (I, args) L -> (exists j t p, iop I = OFunctor j t p) \/ (exists p, iop I = OGetter p)
      | Some l =>
          ((forall I args, In (I, args) L -> iop I <> OCommitter)
           /\ forall i nd, nth_error nodes i = Some nd -> is_train nd && persistent a0 (ngid nd) = false)
          \/ (exists C dargs, In (C, dargs) L /\ iop C = OCommitter
                /\ (forall C' args', In (C', args') L -> iop C' = OCommitter -> C' = C)
                /\ Forall2 (dump_ok nodes L) dargs l)
      end); [|exact (G a eq_refl)].
    intros a0 Ea. destruct a0 as [l|].
    + destruct (committer T) as [ck|] eqn:Eck.
      * right. destruct (p_some _ _ _ _ _ _ (v_pers _ _ _ _ _ _ _ _ H) ck Eck) as [c [C [-> [HC HCo]]]].
        destruct (fblock_comm c C HC Eck) as [dargs [l' [E [Hl' Hfd]]]]. assert (l' = l) by congruence. subst l'.
        destruct (plain_in C [KF c] HC) as [args [Hin E']]; [unfold is_getter; rewrite HCo; reflexivity|]. rewrite E in E'. injection E' as <-.
        exists C, dargs. split; [exact Hin|]. split; [exact HCo|]. split; [|exact (Forall2_impl _ _ _ _ dres_ok Hfd)].
        intros C' args' Hin' Ho'. destruct (elem_inv C' args' Hin') as [ks [Hb' _]].
        destruct (v_kinds _ _ _ _ _ _ _ _ H C' ks Hb') as [i nd I0 Hi Hn Ho|i nd p c' I0 Hi Hn Ht Hz Hp Ho Hr|g k I0 Ho Hp Hr Hk|i nd c' I0 Hn Hsp Ho Hr|c' I0 Ho Hck'];
          try (rewrite Ho' in Ho; discriminate); try (unfold C01Inv.fop in Ho; rewrite Ho' in Ho; discriminate).
        rewrite Eck in Hck'. injection Hck' as E3. subst c'. exact (block_key_unique I0 [KF c] C [KF c] (KF c) Hb' HC (or_introl eq_refl) (or_introl eq_refl)).
      * left. split.
        -- intros I args Hin Ho. destruct (elem_inv I args Hin) as [ks [Hb _]].
           destruct (v_kinds _ _ _ _ _ _ _ _ H I ks Hb) as [i nd I0 Hi Hn Ho'|i nd p c' I0 Hi Hn Ht Hz Hp Ho' Hr|g k I0 Ho' Hp Hr Hk|i nd c' I0 Hn Hsp Ho' Hr|c' I0 Ho' Hck'];
             try (rewrite Ho in Ho'; discriminate); try (unfold C01Inv.fop in Ho'; rewrite Ho in Ho'; discriminate).
           rewrite Eck in Hck'. discriminate.
        -- intros i nd Hn. destruct (is_train nd && persistent (Some l) (ngid nd)) eqn:E; [|reflexivity]. exfalso.
           apply andb_prop in E. destruct E as [Et Ep].
           pose proof (p_none _ _ _ _ _ _ (v_pers _ _ _ _ _ _ _ _ H) Eck i nd (Hall i nd Hn) Hn) as X.
           unfold strain, C01Inv.pers in X. rewrite Et, (w_train_stateful a nodes wf i nd Hn Et), Ea, Ep in X. discriminate.
    + intros I args Hin. destruct (elem_inv I args Hin) as [ks [Hb _]].
      destruct (v_kinds _ _ _ _ _ _ _ _ H I ks Hb) as [i nd I0 Hi Hn Ho|i nd p c' I0 Hi Hn Ht Hz Hp Ho Hr|g k I0 Ho Hp Hr Hk|i nd c' I0 Hn Hsp Ho Hr|c' I0 Ho Hck'].
      * left. unfold C01Inv.fop in Ho. eauto.
      * right. eauto.
      * exfalso. rewrite Ea in Hp. discriminate.
      * exfalso. apply andb_prop in Hsp. destruct Hsp as [_ Hp]. unfold C01Inv.pers in Hp. rewrite Ea in Hp. apply andb_prop in Hp. destruct Hp as [_ Hp]. discriminate.
      * exfalso. destruct (p_conv _ _ _ _ _ _ (v_pers _ _ _ _ _ _ _ _ H) _ Hck') as [i0 [nd0 [_ [_ Hsp]]]].
        apply andb_prop in Hsp. destruct Hsp as [_ Hp]. unfold C01Inv.pers in Hp. rewrite Ea in Hp. apply andb_prop in Hp. destruct Hp as [_ Hp]. discriminate.
Qed.

End Emit.
