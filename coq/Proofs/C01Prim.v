(* C01 - compiler correctness, layer 0: observations of a table and the effect of each primitive
   (Index.set / reset, Linkage.insert / prepend) on them. *)
Require Import List Bool ZArith Arith Lia.
From FV Require Import Lib.Sym Model.C01 Model.C01Compile.
Import ListNotations.

Lemma key_eqb_eq a b : key_eqb a b = true <-> a = b.
Proof.
  destruct a, b; simpl; try (split; [discriminate|intros H; discriminate H]);
    rewrite Nat.eqb_eq; split; [intros ->; reflexivity|intros H; injection H; auto| intros ->; reflexivity|intros H; injection H; auto| intros ->; reflexivity|intros H; injection H; auto].
Qed.
Lemma key_eqb_refl a : key_eqb a a = true.
Proof. apply key_eqb_eq. reflexivity. Qed.
Lemma key_eqb_neq a b : key_eqb a b = false <-> a <> b.
Proof.
  split.
  - intros H E. apply key_eqb_eq in E. congruence.
  - intros H. destruct (key_eqb a b) eqn:E; [apply key_eqb_eq in E; contradiction|reflexivity].
Qed.
Lemma key_eq_dec (a b : key) : {a = b} + {a <> b}.
Proof. destruct (key_eqb a b) eqn:E; [left; apply key_eqb_eq; exact E|right; apply key_eqb_neq; exact E]. Qed.

(* ---- association lists ---------------------------------------------------------------------------------- *)
Section Assoc.
  Context {A : Type}.
  Implicit Types (l : list (key * A)).

  Lemma assoc_app k l1 l2 : assoc k (l1 ++ l2) = match assoc k l1 with Some v => Some v | None => assoc k l2 end.
  Proof. induction l1 as [|[k' v] r IH]; simpl; [reflexivity|]. destruct (key_eqb k k'); [reflexivity|exact IH]. Qed.

  Lemma assoc_set_same k v l : assoc k (assoc_set k v l) = Some v.
  Proof.
    induction l as [|[k' v'] r IH]; simpl; [rewrite key_eqb_refl; reflexivity|].
    destruct (key_eqb k k') eqn:E; simpl; [rewrite key_eqb_refl; reflexivity|rewrite E; exact IH].
  Qed.

  Lemma assoc_set_other k k' v l : k <> k' -> assoc k (assoc_set k' v l) = assoc k l.
  Proof.
    intros H. apply key_eqb_neq in H. induction l as [|[k2 v2] r IH]; simpl; [rewrite H; reflexivity|].
    destruct (key_eqb k' k2) eqn:E; simpl.
    - apply key_eqb_eq in E. subst k2. rewrite H. reflexivity.
    - destruct (key_eqb k k2); [reflexivity|exact IH].
  Qed.

  Lemma assoc_set_keys k v l : forall x, In x (map fst (assoc_set k v l)) <-> x = k \/ In x (map fst l).
  Proof.
    intros x. induction l as [|[k' v'] r IH]; simpl; [intuition congruence|].
    destruct (key_eqb k k') eqn:E; simpl.
    - apply key_eqb_eq in E. subst k'. intuition congruence.
    - rewrite IH. intuition congruence.
  Qed.

  Lemma assoc_set_nodup k v l : NoDup (map fst l) -> NoDup (map fst (assoc_set k v l)).
  Proof.
    induction l as [|[k' v'] r IH]; simpl; intros H; [constructor; [intros []|constructor]|].
    inversion H as [|? ? Hn Hr]; subst. destruct (key_eqb k k') eqn:E; simpl.
    - apply key_eqb_eq in E. subst k'. constructor; assumption.
    - constructor; [|apply IH; exact Hr]. intros X. apply assoc_set_keys in X. destruct X as [->|X]; [|contradiction].
      rewrite key_eqb_refl in E. discriminate.
  Qed.

  Lemma assoc_in k v l : assoc k l = Some v -> In (k, v) l.
  Proof.
    induction l as [|[k' v'] r IH]; simpl; [discriminate|]. destruct (key_eqb k k') eqn:E.
    - apply key_eqb_eq in E. subst. intros [= ->]. left. reflexivity.
    - intros H. right. apply IH. exact H.
  Qed.

  Lemma in_assoc k v l : NoDup (map fst l) -> In (k, v) l -> assoc k l = Some v.
  Proof.
    induction l as [|[k' v'] r IH]; simpl; intros Hn H; [destruct H|]. inversion Hn as [|? ? Hx Hr]; subst.
    destruct H as [H|H].
    - injection H as -> ->. rewrite key_eqb_refl. reflexivity.
    - destruct (key_eqb k k') eqn:E; [|apply IH; assumption]. apply key_eqb_eq in E. subst k'.
      exfalso. apply Hx. apply in_map_iff. exists (k, v). split; [reflexivity|exact H].
  Qed.

  Lemma assoc_none k l : assoc k l = None <-> ~ In k (map fst l).
  Proof.
    induction l as [|[k' v'] r IH]; simpl; [tauto|]. destruct (key_eqb k k') eqn:E.
    - apply key_eqb_eq in E. subst. split; [discriminate|intros H; exfalso; apply H; left; reflexivity].
    - apply key_eqb_neq in E. rewrite IH. split; [intros H [X|X]; [congruence|contradiction]|tauto].
  Qed.

  Lemma assoc_del_other k k' l : k <> k' -> assoc k (assoc_del k' l) = assoc k l.
  Proof.
    intros H. apply key_eqb_neq in H. induction l as [|[k2 v2] r IH]; simpl; [reflexivity|].
    destruct (key_eqb k' k2) eqn:E.
    - apply key_eqb_eq in E. subst k2. rewrite H. reflexivity.
    - simpl. destruct (key_eqb k k2); [reflexivity|exact IH].
  Qed.

  Lemma assoc_del_split k v l1 l2 : ~ In k (map fst l1) -> assoc_del k (l1 ++ (k, v) :: l2) = l1 ++ l2.
  Proof.
    induction l1 as [|[k' v'] r IH]; simpl; intros H; [rewrite key_eqb_refl; reflexivity|].
    destruct (key_eqb k k') eqn:E; [apply key_eqb_eq in E; subst; exfalso; apply H; left; reflexivity|].
    f_equal. apply IH. tauto.
  Qed.
End Assoc.

(* ---- observations ---------------------------------------------------------------------------------------- *)
Definition instr_at (t : tbl) (k : key) : option instr := assoc k (index t).
Definition arow (t : tbl) (k : key) : list (option key) := match assoc k (absl t) with Some l => l | None => [] end.
Definition aget (t : tbl) (k : key) (q : nat) : option key := nth q (arow t k) None.
Definition prow (t : tbl) (k : key) : list key := match assoc k (pref t) with Some l => l | None => [] end.

(* ---- Index.set / fresh / reset ---------------------------------------------------------------------------- *)
Lemma index_set_inv t i k t' : index_set t i k = Some t' ->
  instr_at t k = None /\ t' = Tbl (index t ++ [(k, i)]) (absl t) (pref t) (committer t) (next t).
Proof. unfold index_set, instr_at. destruct (assoc k (index t)); [discriminate|]. intros [= <-]. auto. Qed.

Lemma index_set_ok t i k : instr_at t k = None ->
  index_set t i k = Some (Tbl (index t ++ [(k, i)]) (absl t) (pref t) (committer t) (next t)).
Proof. unfold index_set, instr_at. intros ->. reflexivity. Qed.

Lemma index_fresh_ok t i : instr_at t (KF (next t)) = None ->
  index_fresh t i = Some (Tbl (index t ++ [(KF (next t), i)]) (absl t) (pref t) (committer t) (S (next t)), KF (next t)).
Proof. unfold index_fresh, index_set, instr_at. simpl. intros ->. reflexivity. Qed.

(* ---- Linkage.insert -------------------------------------------------------------------------------------- *)
Lemma nth_set_nth {A} (d v : A) : forall l i q, i < List.length l ->
  nth q (set_nth i v l) d = if Nat.eqb q i then v else nth q l d.
Proof.
  induction l as [|x l IH]; intros i q Hi; simpl in Hi; [lia|].
  destruct i as [|i], q as [|q]; simpl; try reflexivity.
  apply IH. lia.
Qed.

Lemma set_nth_length {A} (v : A) : forall l i, List.length (set_nth i v l) = List.length l.
Proof. induction l as [|x l IH]; intros [|i]; simpl; auto. Qed.

Lemma nth_pad (l : list (option key)) m q : nth q (l ++ repeat None m) None = nth q l None.
Proof.
  destruct (Nat.lt_ge_cases q (List.length l)) as [H|H].
  - apply app_nth1. exact H.
  - rewrite app_nth2 by exact H. rewrite (nth_overflow l) by exact H.
    destruct (Nat.lt_ge_cases (q - List.length l) m) as [H'|H'].
    + apply nth_repeat.
    + apply nth_overflow. rewrite repeat_length. exact H'.
Qed.

Definition padded (l : list (option key)) (i : nat) : list (option key) :=
  if Nat.leb (List.length l) i then l ++ repeat None (i - List.length l + 1) else l.

Lemma padded_length l i : List.length (padded l i) = Nat.max (List.length l) (S i).
Proof.
  unfold padded. destruct (Nat.leb (List.length l) i) eqn:E.
  - apply Nat.leb_le in E. rewrite app_length, repeat_length. lia.
  - apply Nat.leb_gt in E. lia.
Qed.

Lemma padded_nth l i q : nth q (padded l i) None = nth q l None.
Proof. unfold padded. destruct (Nat.leb (List.length l) i); [apply nth_pad|reflexivity]. Qed.

Definition inserted (t : tbl) (ins arg : key) (i : nat) : tbl :=
  Tbl (index t) (assoc_set ins (set_nth i (Some arg) (padded (arow t ins) i)) (absl t)) (pref t) (committer t) (next t).

Lemma insert_unfold t ins arg idx :
  insert t ins arg idx =
  bind (match idx with None => if Nat.leb (List.length (arow t ins)) 1 then Some 0 else None | Some i => Some i end)
       (fun i => match nth i (padded (arow t ins) i) None with Some _ => None | None => Some (inserted t ins arg i) end).
Proof. reflexivity. Qed.

Lemma insert_some_ok t ins arg i : aget t ins i = None -> insert t ins arg (Some i) = Some (inserted t ins arg i).
Proof. intros H. rewrite insert_unfold. simpl. rewrite padded_nth. unfold aget in H. rewrite H. reflexivity. Qed.

Lemma insert_none_ok t ins arg : arow t ins = [] -> insert t ins arg None = Some (inserted t ins arg 0).
Proof. intros H. rewrite insert_unfold. rewrite H. reflexivity. Qed.

Lemma inserted_arow t ins arg i k :
  arow (inserted t ins arg i) k = if key_eqb k ins then set_nth i (Some arg) (padded (arow t ins) i) else arow t k.
Proof.
  unfold arow at 1, inserted. simpl. destruct (key_eqb k ins) eqn:E.
  - apply key_eqb_eq in E. subst k. rewrite assoc_set_same. reflexivity.
  - apply key_eqb_neq in E. rewrite assoc_set_other by exact E. reflexivity.
Qed.

Lemma inserted_aget t ins arg i k q :
  aget (inserted t ins arg i) k q = if key_eqb k ins && Nat.eqb q i then Some arg else aget t k q.
Proof.
  unfold aget. rewrite inserted_arow. destruct (key_eqb k ins) eqn:E; [|reflexivity]. simpl.
  apply key_eqb_eq in E. subst k.
  rewrite nth_set_nth by (rewrite padded_length; lia). destruct (Nat.eqb q i); [reflexivity|apply padded_nth].
Qed.

Lemma inserted_alen t ins arg i k :
  List.length (arow (inserted t ins arg i) k) = if key_eqb k ins then Nat.max (List.length (arow t ins)) (S i) else List.length (arow t k).
Proof.
  rewrite inserted_arow. destruct (key_eqb k ins); [|reflexivity]. rewrite set_nth_length, padded_length. reflexivity.
Qed.

Lemma inserted_keys t ins arg i x :
  In x (map fst (absl (inserted t ins arg i))) <-> x = ins \/ In x (map fst (absl t)).
Proof. unfold inserted. simpl. apply assoc_set_keys. Qed.

(* ---- Linkage.prepend -------------------------------------------------------------------------------------- *)
Lemma prepend_prow t ins arg k : prow (prepend t ins arg) k = if key_eqb k ins then prow t ins ++ [arg] else prow t k.
Proof.
  unfold prow at 1, prepend. simpl. destruct (key_eqb k ins) eqn:E.
  - apply key_eqb_eq in E. subst k. rewrite assoc_set_same. reflexivity.
  - apply key_eqb_neq in E. rewrite assoc_set_other by exact E. reflexivity.
Qed.

(* a row without holes is determined by its entries *)
Lemma row_complete (l : list (option key)) (ks : list key) :
  List.length l = List.length ks -> (forall q, q < List.length ks -> nth q l None = Some (nth q ks (KU 0))) -> l = map Some ks.
Proof.
  revert ks. induction l as [|x l IH]; intros [|k ks] Hl H; simpl in Hl; try discriminate; [reflexivity|].
  simpl. f_equal.
  - apply (H 0). simpl. lia.
  - apply IH; [lia|]. intros q Hq. apply (H (S q)). simpl. lia.
Qed.
