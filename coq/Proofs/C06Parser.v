(* The push-down automaton of the Visitor computes the direct translation and cannot fail on scoped statements. *)
Require Import List Bool ZArith.
From FV Require Import Model.Dsl Model.C06Parser.
Import ListNotations.

Lemma visit_feat_tr : forall o f st,
  visit_feat o f st = match tr_feat o f with Some x => Some (SF x :: st) | None => None end.
Proof.
  intros o. induction f as [t c k|r c k|v|g IH n|op a IHa b IHb|a IH|fn a IH]; intros st; cbn [visit_feat tr_feat].
  - destruct (lookup (OT t) o); reflexivity.
  - destruct (lookup (OR r) o); reflexivity.
  - reflexivity.
  - rewrite IH. destruct (tr_feat o g); reflexivity.
  - rewrite IHa. destruct (tr_feat o a) as [x|]; [|reflexivity]. rewrite IHb. destruct (tr_feat o b); reflexivity.
  - rewrite IH. destruct (tr_feat o a); reflexivity.
  - rewrite IH. destruct (tr_feat o a); reflexivity.
Qed.

Lemma gen_feat_tr o f st : gen_feat o f st = match tr_feat o f with Some x => Some (x, st) | None => None end.
Proof. unfold gen_feat. rewrite visit_feat_tr. destruct (tr_feat o f); reflexivity. Qed.

Lemma gen_feats_tr o : forall fs st, gen_feats o fs st = match tr_feats o fs with Some xs => Some (xs, st) | None => None end.
Proof.
  induction fs as [|f fs IH]; intros st; cbn [gen_feats tr_feats]; [reflexivity|].
  rewrite gen_feat_tr. destruct (tr_feat o f); [|reflexivity]. rewrite IH. destruct (tr_feats o fs); reflexivity.
Qed.

Lemma gen_opt_tr o p st : gen_opt o p st = match tr_opt o p with Some x => Some (x, st) | None => None end.
Proof. destruct p as [f|]; cbn [gen_opt tr_opt]; [|reflexivity]. rewrite gen_feat_tr. destruct (tr_feat o f); reflexivity. Qed.

Lemma gen_ord_tr o : forall l st, gen_ord o l st = match tr_ord o l with Some xs => Some (xs, st) | None => None end.
Proof.
  induction l as [|[f d] l IH]; intros st; cbn [gen_ord tr_ord]; [reflexivity|].
  rewrite gen_feat_tr. destruct (tr_feat o f); [|reflexivity]. rewrite IH. destruct (tr_ord o l); reflexivity.
Qed.

Definition pushed (t : tsrc) (o' : origins) (p : pstate) : pstate :=
  {| cur := {| symbols := SS t :: symbols (cur p); orig := o' |}; suspended := suspended p |}.

(* the automaton leaves exactly the translation of the source on top of an otherwise untouched stack, in the same context,
   with the origins the translation registers - and fails exactly when the translation does *)
Theorem visit_src_tr : forall s p,
  visit_src s p = match tr_src (orig (cur p)) s with Some (t, o') => Some (pushed t o' p) | None => None end.
Proof.
  induction s as [t cols|s' IH r|k l IHl r IHr c|sk l IHl r IHr|s' IH sel pre grp post ord rows]; intros p; cbn [visit_src tr_src].
  - reflexivity.
  - rewrite IH. destruct (tr_src (orig (cur p)) s') as [[i o']|]; reflexivity.
  - rewrite IHl. destruct (tr_src (orig (cur p)) l) as [[tl o1]|]; [|reflexivity].
    rewrite IHr. cbn [pushed cur orig]. destruct (tr_src o1 r) as [[tr o2]|]; [|reflexivity].
    cbn [pushed pop_src cur symbols orig suspended]. rewrite gen_opt_tr. destruct (tr_opt o2 c); reflexivity.
  - rewrite IHl. destruct (tr_src (orig (cur p)) l) as [[tl o1]|]; [|reflexivity].
    rewrite IHr. cbn [pushed cur orig]. destruct (tr_src o1 r) as [[tr o2]|]; reflexivity.
  - rewrite IH. cbn [cur orig]. destruct (tr_src [] s') as [[ts oi]|]; [|reflexivity].
    cbn [pushed cur orig symbols suspended].
    rewrite gen_feats_tr. destruct (tr_feats oi match sel with [] => src_features s' | _ :: _ => sel end); [|reflexivity].
    rewrite gen_opt_tr. destruct (tr_opt oi pre); [|reflexivity].
    rewrite gen_feats_tr. destruct (tr_feats oi grp); [|destruct (tr_opt oi post); reflexivity].
    rewrite gen_opt_tr. destruct (tr_opt oi post); [|reflexivity].
    rewrite gen_ord_tr. destruct (tr_ord oi ord); [|reflexivity].
    destruct p as [[syms og] susp]. reflexivity.
Qed.

Theorem parse_tr s : parse s = match tr_src [] s with Some (t, _) => Some t | None => None end.
Proof. unfold parse. rewrite visit_src_tr. cbn [cur orig]. destruct (tr_src [] s) as [[t o']|]; reflexivity. Qed.

(* ---- scoped statements always parse ------------------------------------------------------------------------------ *)
Lemma lookup_key_in k : forall o, key_in k (map fst o) = true -> lookup k o <> None.
Proof.
  induction o as [|[k' h] o IH]; cbn [map fst key_in lookup]; intros H; [discriminate H|].
  destruct (okey_eqb k k'); [discriminate|]. apply IH. exact H.
Qed.

Lemma feat_ok_tr o : forall f, feat_ok (map fst o) f = true -> tr_feat o f <> None.
Proof.
  induction f as [t c k|r c k|v|g IH n|op a IHa b IHb|a IH|fn a IH]; cbn [feat_ok tr_feat]; intros H.
  - pose proof (lookup_key_in _ _ H). destruct (lookup (OT t) o); [discriminate|contradiction].
  - pose proof (lookup_key_in _ _ H). destruct (lookup (OR r) o); [discriminate|contradiction].
  - discriminate.
  - specialize (IH H). destruct (tr_feat o g); [discriminate|contradiction].
  - apply andb_true_iff in H. destruct H as [Ha Hb]. specialize (IHa Ha). specialize (IHb Hb).
    destruct (tr_feat o a); [|contradiction]. destruct (tr_feat o b); [discriminate|contradiction].
  - specialize (IH H). destruct (tr_feat o a); [discriminate|contradiction].
  - specialize (IH H). destruct (tr_feat o a); [discriminate|contradiction].
Qed.

Lemma feats_ok_tr o : forall fs, forallb (feat_ok (map fst o)) fs = true -> tr_feats o fs <> None.
Proof.
  induction fs as [|f fs IH]; cbn [forallb tr_feats]; intros H; [discriminate|].
  apply andb_true_iff in H. destruct H as [Hf Hr]. pose proof (feat_ok_tr o f Hf). specialize (IH Hr).
  destruct (tr_feat o f); [|contradiction]. destruct (tr_feats o fs); [discriminate|contradiction].
Qed.

Lemma opt_ok_tr o p : opt_ok (map fst o) p = true -> tr_opt o p <> None.
Proof.
  destruct p as [f|]; cbn [opt_ok tr_opt]; intros H; [|discriminate].
  pose proof (feat_ok_tr o f H). destruct (tr_feat o f); [discriminate|contradiction].
Qed.

Lemma ord_ok_tr o : forall l, forallb (fun fd => feat_ok (map fst o) (fst fd)) l = true -> tr_ord o l <> None.
Proof.
  induction l as [|[f d] l IH]; cbn [forallb tr_ord fst]; intros H; [discriminate|].
  apply andb_true_iff in H. destruct H as [Hf Hr]. pose proof (feat_ok_tr o f Hf). specialize (IH Hr).
  destruct (tr_feat o f); [|contradiction]. destruct (tr_ord o l); [discriminate|contradiction].
Qed.

Theorem scoped_translates : forall s o, scoped (map fst o) s = true ->
  exists t o', tr_src o s = Some (t, o') /\ map fst o' = reg s ++ map fst o.
Proof.
  induction s as [t cols|s' IH r|k l IHl r IHr c|sk l IHl r IHr|s' IH sel pre grp post ord rows]; intros o H; cbn [scoped tr_src reg] in *.
  - eexists _, _. split; reflexivity.
  - destruct (IH o H) as [i [o' [E K]]]. rewrite E. eexists _, _. split; [reflexivity|]. cbn [map fst]. rewrite K. reflexivity.
  - apply andb_true_iff in H. destruct H as [H Hc]. apply andb_true_iff in H. destruct H as [Hl Hr].
    destruct (IHl o Hl) as [tl [o1 [E1 K1]]]. rewrite E1. rewrite <- K1 in Hr.
    destruct (IHr o1 Hr) as [tr [o2 [E2 K2]]]. rewrite E2.
    assert (K : map fst o2 = reg r ++ reg l ++ map fst o) by (rewrite K2, K1; reflexivity).
    rewrite <- K in Hc. pose proof (opt_ok_tr o2 c Hc) as N. destruct (tr_opt o2 c) as [c'|]; [|contradiction].
    eexists _, _. split; [reflexivity|]. rewrite K, app_assoc. reflexivity.
  - apply andb_true_iff in H. destruct H as [Hl Hr].
    destruct (IHl o Hl) as [tl [o1 [E1 K1]]]. rewrite E1. rewrite <- K1 in Hr.
    destruct (IHr o1 Hr) as [tr [o2 [E2 K2]]]. rewrite E2.
    eexists _, _. split; [reflexivity|]. rewrite K2, K1, app_assoc. reflexivity.
  - repeat (apply andb_true_iff in H; let X := fresh "X" in destruct H as [H X]).
    destruct (IH [] H) as [ts [oi [E K]]]. rewrite E. cbn [map] in K. rewrite app_nil_r in K. rewrite <- K in *.
    pose proof (feats_ok_tr oi _ X3) as N1. pose proof (opt_ok_tr oi _ X2) as N2. pose proof (feats_ok_tr oi _ X1) as N3.
    pose proof (opt_ok_tr oi _ X0) as N4. pose proof (ord_ok_tr oi _ X) as N5.
    destruct (tr_feats oi match sel with [] => src_features s' | _ :: _ => sel end); [|contradiction].
    destruct (tr_opt oi pre); [|contradiction]. destruct (tr_feats oi grp); [|contradiction].
    destruct (tr_opt oi post); [|contradiction]. destruct (tr_ord oi ord); [|contradiction].
    eexists _, _. split; reflexivity.
Qed.

(* parsing a scoped statement never fails and leaves nothing behind *)
Theorem scoped_parses s : scoped [] s = true -> exists t, parse s = Some t.
Proof.
  intros H. destruct (scoped_translates s [] H) as [t [o' [E _]]]. exists t. rewrite parse_tr, E. reflexivity.
Qed.
