(* C01 - compiler correctness, the invariant of Table.add over ANY visiting order.
   Ghost state: the block list B (index = expand B); the sets Sl / Sd / Sf of nodes for which the loader phase, the
   dumper-committer phase and the functor registration of Table.add have been carried out; the predicate Dn telling for
   which output ports Linkage.update has run. Between two add() calls the three sets coincide and Dn holds of all ports
   of their nodes. *)
Require Import List Bool ZArith Arith Lia.
From FV Require Import Lib.Sym Model.C01 Model.C01Compile Proofs.C01Prim Proofs.C01Blocks.
Import ListNotations.

Section Inv.
Variable a : assets.
Variable nodes : list node.

Definition strain (nd : node) : bool := nstateful nd && is_train nd.
Definition pers (nd : node) : bool := nstateful nd && persistent a (ngid nd).
Definition preset_of (i : nat) (nd : node) : bool := nstateful nd && (pers nd || derived nodes i nd).
Definition fop (i : nat) (nd : node) : op := OFunctor i (strain nd) (preset_of i nd).
Definition fkeys (i : nat) (nd : node) : list key := KU i :: (if strain nd then [KG (ngid nd)] else []).

(* ---- static well-formedness facts (derived from wfb in C01Main.v) --------------------------------------- *)
Record WF : Prop := {
  w_ports : forall j nd q ip, nth_error nodes j = Some nd -> nth_error (ports nd) q = Some ip ->
              fst ip < j /\ exists ndi, nth_error nodes (fst ip) = Some ndi /\ is_train ndi = false /\ snd ip < nszout ndi;
  w_train_stateful : forall i nd, nth_error nodes i = Some nd -> is_train nd = true -> nstateful nd = true;
  w_unique : forall i nd i' nd', nth_error nodes i = Some nd -> nth_error nodes i' = Some nd' ->
              is_train nd = true -> is_train nd' = true -> ngid nd = ngid nd' -> i = i';
  w_assets : forall l, a = Some l -> NoDup (map fst l)
}.
Hypothesis wf : WF.

(* ---- sources ------------------------------------------------------------------------------------------------ *)
Definition getter_of (T : tbl) (B : blocks) (i p : nat) (k : key) : Prop :=
  exists c I, k = KF c /\ In (I, [KF c]) B /\ iop I = OGetter p /\ arow T (KF c) = [Some (KU i)].

Definition srckey (T : tbl) (B : blocks) (ip : nat * nat) (k : key) : Prop :=
  exists ndi, nth_error nodes (fst ip) = Some ndi
    /\ ((nszout ndi = 1 /\ k = KU (fst ip)) \/ (nszout ndi <> 1 /\ getter_of T B (fst ip) (snd ip) k)).

Definition loader_at (B : blocks) (g : nat) (k : key) : Prop := exists I, In (I, [k]) B /\ iop I = OLoader g.

Definition statekey_ok (B : blocks) (nd : node) (sk : key) : Prop :=
  if strain nd && pers nd then (exists c, sk = KF c) /\ loader_at B (ngid nd) sk else sk = KG (ngid nd).

Definition dumper_of (T : tbl) (B : blocks) (i : nat) (k : key) : Prop :=
  exists c I, k = KF c /\ In (I, [KF c]) B /\ iop I = ODumper /\ arow T (KF c) = [Some (KU i)].

Definition trainer_in (Sd : list nat) (g : nat) : Prop :=
  exists k ndk, In k Sd /\ nth_error nodes k = Some ndk /\ is_train ndk = true /\ ngid ndk = g.

Inductive bkind (Sf : list nat) (T : tbl) : instr -> list key -> Prop :=
  | BFun i nd I : In i Sf -> nth_error nodes i = Some nd -> iop I = fop i nd -> bkind Sf T I (fkeys i nd)
  | BGet i nd p c I : In i Sf -> nth_error nodes i = Some nd -> is_train nd = false -> nszout nd <> 1 -> p < nszout nd ->
      iop I = OGetter p -> arow T (KF c) = [Some (KU i)] -> bkind Sf T I [KF c]
  | BLoad g k I : iop I = OLoader g -> persistent a g = true -> arow T k = [] -> (k = KG g \/ exists c, k = KF c) ->
      bkind Sf T I [k]
  | BDump i nd c I : nth_error nodes i = Some nd -> strain nd && pers nd = true -> iop I = ODumper ->
      arow T (KF c) = [Some (KU i)] -> bkind Sf T I [KF c]
  | BComm c I : iop I = OCommitter -> committer T = Some (KF c) -> bkind Sf T I [KF c].

(* the clauses about persistent groups *)
Record PInv (Sl Sd : list nat) (T : tbl) (B : blocks) : Prop := {
  p_load : forall j nd, In j Sl -> nth_error nodes j = Some nd -> pers nd = true -> ~ trainer_in Sd (ngid nd) ->
             loader_at B (ngid nd) (KG (ngid nd));
  p_none : committer T = None -> forall i nd, In i Sd -> nth_error nodes i = Some nd -> strain nd && pers nd = false;
  p_some : forall ck, committer T = Some ck -> exists c I, ck = KF c /\ In (I, [KF c]) B /\ iop I = OCommitter;
  p_conv : forall ck, committer T = Some ck ->
             exists i nd, In i Sl /\ nth_error nodes i = Some nd /\ strain nd && pers nd = true;
  p_crow : forall ck l, committer T = Some ck -> a = Some l ->
             List.length (arow T ck) <= List.length l
             /\ forall off,
                  (forall i nd, In i Sd -> nth_error nodes i = Some nd -> strain nd && pers nd = true ->
                                offset a (ngid nd) = Some off -> exists k, aget T ck off = Some k /\ dumper_of T B i k)
                  /\ ((forall i nd, In i Sd -> nth_error nodes i = Some nd -> strain nd && pers nd = true ->
                                    offset a (ngid nd) <> Some off) -> aget T ck off = None)
}.

Record Inv (Sl Sd Sf : list nat) (Dn : nat -> nat -> Prop) (T : tbl) (B : blocks) : Prop := {
  v_idx : index T = expand B;
  v_ids : NoDup (map bid B);
  v_keys : NoDup (map fst (expand B));
  v_next : (forall b, In b B -> bid b < next T) /\ (forall c, In (KF c) (map fst (expand B)) -> c < next T);
  v_arows : forall k, arow T k <> [] -> (exists j nd, k = KU j /\ nth_error nodes j = Some nd) \/ In k (map fst (expand B));
  v_prows : forall k, prow T k <> [] -> exists j, In j Sf /\ k = KU j;
  v_anodup : NoDup (map fst (absl T)) /\ NoDup (map fst (pref T));
  v_pers : PInv Sl Sd T B;
  v_rowsne : (forall k, In k (map fst (absl T)) -> arow T k <> []) /\ (forall k, In k (map fst (pref T)) -> prow T k <> []);
  v_kgrow : forall g, arow T (KG g) = [];
  v_kinds : forall I ks, In (I, ks) B -> bkind Sf T I ks;
  v_fun : forall i, In i Sf -> exists nd I, nth_error nodes i = Some nd /\ In (I, fkeys i nd) B /\ iop I = fop i nd;
  v_get : forall i nd p, Dn i p -> nth_error nodes i = Some nd -> is_train nd = false -> nszout nd <> 1 -> p < nszout nd ->
            exists k, getter_of T B i p k;
  v_rows : forall j nd, nth_error nodes j = Some nd ->
            List.length (arow T (KU j)) <= List.length (ports nd)
            /\ forall q ip, nth_error (ports nd) q = Some ip ->
                 (Dn (fst ip) (snd ip) -> exists k, aget T (KU j) q = Some k /\ srckey T B ip k)
                 /\ (~ Dn (fst ip) (snd ip) -> aget T (KU j) q = None);
  v_pref : forall i nd, nth_error nodes i = Some nd ->
            (In i Sf -> preset_of i nd = true -> exists sk, prow T (KU i) = [sk] /\ statekey_ok B nd sk)
            /\ ((~ In i Sf \/ preset_of i nd = false) -> prow T (KU i) = [])
}.

Lemma inv_empty : Inv [] [] [] (fun _ _ => False) empty [].
Proof.
  constructor.
  - reflexivity.
  - constructor.
  - constructor.
  - split; simpl; intros ? [].
  - intros k H. exfalso. apply H. reflexivity.
  - intros k H. exfalso. apply H. reflexivity.
  - split; constructor.
  - constructor; simpl; [intros j nd []|intros _ i nd []|intros ck X; discriminate X|intros ck X; discriminate X|intros ck l X; discriminate X].
  - split; intros k [].
  - intros g. reflexivity.
  - intros I ks [].
  - intros i [].
  - intros i nd p [].
  - intros j nd Hn. split; [unfold arow; simpl; lia|]. intros q ip Hq. split; [intros []|]. intros _. unfold aget, arow. simpl. destruct q; reflexivity.
  - intros i nd Hn. split; [intros []|]. intros _. reflexivity.
Qed.

(* the port predicate only matters on existing ports *)
Lemma inv_ext Sl Sd Sf Dn Dn' T B :
  (forall j nd p, nth_error nodes j = Some nd -> is_train nd = false -> p < nszout nd -> (Dn j p <-> Dn' j p)) ->
  Inv Sl Sd Sf Dn T B -> Inv Sl Sd Sf Dn' T B.
Proof.
  intros E H. destruct H. constructor; auto.
  - intros i nd p Hd Hn Ht Hz Hp. apply (v_get0 i nd p); auto. apply (E i nd p Hn Ht Hp). exact Hd.
  - intros j nd Hn. destruct (v_rows0 j nd Hn) as [Hl Hq]. split; [exact Hl|]. intros q ip Hip.
    destruct (w_ports wf j nd q ip Hn Hip) as [_ [ndi [Hni [Hti Hpi]]]].
    destruct (Hq q ip Hip) as [H1 H2]. split; intros Hd.
    + apply H1. apply (E (fst ip) ndi (snd ip) Hni Hti Hpi). exact Hd.
    + apply H2. intros X. apply Hd. apply (E (fst ip) ndi (snd ip) Hni Hti Hpi). exact X.
Qed.

End Inv.
