(* C01 - compiler correctness, the invariant of Table.add over ANY visiting order, for segments without persistent
   groups (no asset accessor, or one listing none of the segment's stateful groups): the loader / dumper / committer
   branch of Table.add is dead there.
   Ghost state: the block list B (index = expand B), the set Sf of nodes whose functor is registered and the predicate Dn
   telling for which output ports Linkage.update has run (between two add() calls: all ports of the nodes of Sf). *)
Require Import List Bool ZArith Arith Lia.
From FV Require Import Lib.Sym Model.C01 Model.C01Compile Proofs.C01Prim Proofs.C01Blocks.
Import ListNotations.

Section Inv.
Variable a : assets.
Variable nodes : list node.

Definition strain (nd : node) : bool := nstateful nd && is_train nd.
Definition pers (nd : node) : bool := nstateful nd && persistent a (ngid nd).
Definition preset_of (i : nat) (nd : node) : bool := nstateful nd && (pers nd || derived nodes i nd).
Definition fop (i : nat) (nd : node) : op := OFunctor i (strain nd) (preset_of i nd).
Definition fkeys (i : nat) (nd : node) : list key := KU i :: (if strain nd then [KG (ngid nd)] else []).

(* ---- static well-formedness facts (derived from wfb in C01Main.v) --------------------------------------- *)
Record WF : Prop := {
  w_ports : forall j nd q ip, nth_error nodes j = Some nd -> nth_error (ports nd) q = Some ip ->
              fst ip < j /\ exists ndi, nth_error nodes (fst ip) = Some ndi /\ is_train ndi = false /\ snd ip < nszout ndi;
  w_train_stateful : forall i nd, nth_error nodes i = Some nd -> is_train nd = true -> nstateful nd = true;
  w_unique : forall i nd i' nd', nth_error nodes i = Some nd -> nth_error nodes i' = Some nd' ->
              is_train nd = true -> is_train nd' = true -> ngid nd = ngid nd' -> i = i';
  w_nopers : forall i nd, nth_error nodes i = Some nd -> pers nd = false
}.
Hypothesis wf : WF.

(* ---- sources ------------------------------------------------------------------------------------------------ *)
Definition getter_of (T : tbl) (B : blocks) (i p : nat) (k : key) : Prop :=
  exists c I, k = KF c /\ In (I, [KF c]) B /\ iop I = OGetter p /\ arow T (KF c) = [Some (KU i)].

Definition srckey (T : tbl) (B : blocks) (ip : nat * nat) (k : key) : Prop :=
  exists ndi, nth_error nodes (fst ip) = Some ndi
    /\ ((nszout ndi = 1 /\ k = KU (fst ip)) \/ (nszout ndi <> 1 /\ getter_of T B (fst ip) (snd ip) k)).

Inductive bkind (Sf : list nat) (Dn : nat -> nat -> Prop) (T : tbl) : instr -> list key -> Prop :=
  | BFun i nd I : In i Sf -> nth_error nodes i = Some nd -> iop I = fop i nd -> bkind Sf Dn T I (fkeys i nd)
  | BGet i nd p c I : In i Sf -> nth_error nodes i = Some nd -> is_train nd = false -> nszout nd <> 1 -> p < nszout nd ->
      iop I = OGetter p -> arow T (KF c) = [Some (KU i)] -> bkind Sf Dn T I [KF c].

Record Inv (Sf : list nat) (Dn : nat -> nat -> Prop) (T : tbl) (B : blocks) : Prop := {
  v_idx : index T = expand B;
  v_ids : NoDup (map bid B);
  v_keys : NoDup (map fst (expand B));
  v_next : (forall b, In b B -> bid b < next T) /\ (forall c, In (KF c) (map fst (expand B)) -> c < next T);
  v_arows : forall k, arow T k <> [] -> (exists j nd, k = KU j /\ nth_error nodes j = Some nd) \/ In k (map fst (expand B));
  v_prows : forall k, prow T k <> [] -> exists j, In j Sf /\ k = KU j;
  v_anodup : NoDup (map fst (absl T)) /\ NoDup (map fst (pref T));
  v_comm : committer T = None;
  v_rowsne : (forall k, In k (map fst (absl T)) -> arow T k <> []) /\ (forall k, In k (map fst (pref T)) -> prow T k <> []);
  v_kgrow : forall g, arow T (KG g) = [];
  v_kinds : forall I ks, In (I, ks) B -> bkind Sf Dn T I ks;
  v_fun : forall i, In i Sf -> exists nd I, nth_error nodes i = Some nd /\ In (I, fkeys i nd) B /\ iop I = fop i nd;
  v_get : forall i nd p, Dn i p -> nth_error nodes i = Some nd -> is_train nd = false -> nszout nd <> 1 -> p < nszout nd ->
            exists k, getter_of T B i p k;
  v_rows : forall j nd, nth_error nodes j = Some nd ->
            List.length (arow T (KU j)) <= List.length (ports nd)
            /\ forall q ip, nth_error (ports nd) q = Some ip ->
                 (Dn (fst ip) (snd ip) -> exists k, aget T (KU j) q = Some k /\ srckey T B ip k)
                 /\ (~ Dn (fst ip) (snd ip) -> aget T (KU j) q = None);
  v_pref : forall i nd, nth_error nodes i = Some nd ->
            (In i Sf -> preset_of i nd = true -> prow T (KU i) = [KG (ngid nd)])
            /\ ((~ In i Sf \/ preset_of i nd = false) -> prow T (KU i) = [])
}.

Lemma inv_empty : Inv [] (fun _ _ => False) empty [].
Proof.
  constructor.
  - reflexivity.
  - constructor.
  - constructor.
  - split; simpl; intros ? [].
  - intros k H. exfalso. apply H. reflexivity.
  - intros k H. exfalso. apply H. reflexivity.
  - split; constructor.
  - reflexivity.
  - split; intros k [].
  - intros g. reflexivity.
  - intros I ks [].
  - intros i [].
  - intros i nd p [].
  - intros j nd Hn. split; [unfold arow; simpl; lia|]. intros q ip Hq. split; [intros []|]. intros _. unfold aget, arow. simpl. destruct q; reflexivity.
  - intros i nd Hn. split; [intros []|]. intros _. reflexivity.
Qed.

(* the port predicate only matters on existing ports *)
Lemma inv_ext Sf Dn Dn' T B :
  (forall j nd p, nth_error nodes j = Some nd -> is_train nd = false -> p < nszout nd -> (Dn j p <-> Dn' j p)) ->
  Inv Sf Dn T B -> Inv Sf Dn' T B.
Proof.
  intros E H. destruct H. constructor; auto.
  - intros I ks Hin. destruct (v_kinds0 I ks Hin) as [i nd I0 Hi Hn Ho|i nd p c I0 Hd Hn Ht Hz Hp Ho Hr].
    + apply (BFun Sf Dn' T i nd I0 Hi Hn Ho).
    + apply (BGet Sf Dn' T i nd p c I0); auto.
  - intros i nd p Hd Hn Ht Hz Hp. apply (v_get0 i nd p); auto. apply (E i nd p Hn Ht Hp). exact Hd.
  - intros j nd Hn. destruct (v_rows0 j nd Hn) as [Hl Hq]. split; [exact Hl|]. intros q ip Hip.
    destruct (w_ports wf j nd q ip Hn Hip) as [_ [ndi [Hni [Hti Hpi]]]].
    destruct (Hq q ip Hip) as [H1 H2]. split; intros Hd.
    + apply H1. apply (E (fst ip) ndi (snd ip) Hni Hti Hpi). exact Hd.
    + apply H2. intros X. apply Hd. apply (E (fst ip) ndi (snd ip) Hni Hti Hpi). exact X.
Qed.

End Inv.
