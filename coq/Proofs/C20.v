(* C20 - proofs about configuration layering and the provider bank. *)
Require Import String List Bool ZArith Lia Permutation.
From FV Require Import Model.C20.
Import ListNotations.

(* ---- configuration ------------------------------------------------------------------------------ *)
Definition merge_entry (tr : list (string * cfg)) (kv : string * cfg) : string * cfg :=
  (fst kv, match lookup (fst kv) tr with Some rv => merge (snd kv) rv | None => snd kv end).

Definition merged (tl tr : list (string * cfg)) : list (string * cfg) :=
  map (merge_entry tr) tl ++ filter (fun kv => negb (has_key (fst kv) tl)) tr.

Lemma merge_tables tl tr : merge (Tbl tl) (Tbl tr) = Tbl (merged tl tr).
Proof. reflexivity. Qed.

Lemma lookup_app k a b : lookup k (a ++ b) = match lookup k a with Some v => Some v | None => lookup k b end.
Proof.
  induction a as [|[k' v] a IH]; simpl; [reflexivity|]. destruct (String.eqb k k'); [reflexivity|exact IH].
Qed.

Lemma lookup_map_entry k tl tr :
  lookup k (map (merge_entry tr) tl)
  = match lookup k tl with
    | Some a => Some (match lookup k tr with Some b => merge a b | None => a end)
    | None => None
    end.
Proof.
  induction tl as [|[k' v] tl IH]; simpl; [reflexivity|].
  destruct (String.eqb k k') eqn:E; [|exact IH].
  apply String.eqb_eq in E. subst. reflexivity.
Qed.

Lemma lookup_filter_absent k tl tr :
  lookup k tl = None -> lookup k (filter (fun kv => negb (has_key (fst kv) tl)) tr) = lookup k tr.
Proof.
  intros Hk. induction tr as [|[k' v] tr IH]; simpl; [reflexivity|].
  destruct (String.eqb k k') eqn:E.
  - apply String.eqb_eq in E. subst. unfold has_key at 1. simpl. rewrite Hk. simpl. rewrite String.eqb_refl. reflexivity.
  - destruct (negb (has_key k' tl)); simpl; [rewrite E|]; exact IH.
Qed.

(* the key-by-key law of one merge step *)
Lemma lookup_merge k tl tr :
  lookup k (merged tl tr)
  = match lookup k tl, lookup k tr with
    | Some a, Some b => Some (merge a b)
    | Some a, None => Some a
    | None, r => r
    end.
Proof.
  unfold merged. rewrite lookup_app, lookup_map_entry.
  destruct (lookup k tl) as [a|] eqn:Hl.
  - destruct (lookup k tr); reflexivity.
  - rewrite (lookup_filter_absent k tl tr Hl). destruct (lookup k tr); reflexivity.
Qed.

Lemma merge_nontable_right l r : is_table r = false -> (forall a b, l = Lst a -> r <> Lst b) -> merge l r = r.
Proof.
  intros Hr Hl. destruct l as [a|a|tl]; simpl; [reflexivity| |].
  - destruct r; try reflexivity. exfalso. eapply Hl; reflexivity.
  - destruct r; try reflexivity. discriminate.
Qed.

Lemma merge_scalar_right l x : merge l (Scalar x) = Scalar x.
Proof. destruct l; reflexivity. Qed.

(* later source defines the path with a scalar: it wins, whatever the earlier sources hold there *)
Lemma get_merge_scalar p : forall l r x, get p r = Some (Scalar x) -> get p (merge l r) = Some (Scalar x).
Proof.
  induction p as [|k p IH]; intros l r x H.
  - simpl in H. injection H as ->. rewrite merge_scalar_right. reflexivity.
  - destruct r as [a|a|tr]; try discriminate. simpl in H.
    destruct (lookup k tr) as [rv|] eqn:Hk; [|discriminate].
    destruct l as [a|a|tl]; try (simpl; rewrite Hk; exact H).
    rewrite merge_tables. cbn [get].
    rewrite lookup_merge, Hk. destruct (lookup k tl) as [lv|]; [apply IH|]; exact H.
Qed.

(* the later source does not touch the path (absent, reached only through tables): earlier value survives *)
Fixpoint untouched (p : list string) (r : cfg) : bool :=
  match p with
  | [] => false
  | k :: p' =>
      match r with
      | Tbl tr => match lookup k tr with None => true | Some v => untouched p' v end
      | _ => false
      end
  end.

Lemma get_merge_untouched p : forall l r, untouched p r = true -> get p (merge l r) = get p l.
Proof.
  induction p as [|k p IH]; intros l r H; [discriminate|].
  destruct r as [a|a|tr]; try discriminate. simpl in H.
  destruct l as [a|a|tl].
  - simpl. destruct (lookup k tr) as [rv|] eqn:Hk; [|reflexivity].
    (* left scalar, right table defining k: right wins - but then p is not untouched unless deeper absent *)
    revert H. clear. revert rv. induction p as [|k' p IHp]; intros rv H; [discriminate|].
    destruct rv as [a|a|t]; try discriminate. simpl in *. destruct (lookup k' t) as [v|]; [apply IHp; exact H|reflexivity].
  - simpl. destruct (lookup k tr) as [rv|] eqn:Hk; [|reflexivity].
    revert H. clear. revert rv. induction p as [|k' p IHp]; intros rv H; [discriminate|].
    destruct rv as [a|a|t]; try discriminate. simpl in *. destruct (lookup k' t) as [v|]; [apply IHp; exact H|reflexivity].
  - rewrite merge_tables. cbn [get]. rewrite lookup_merge. destruct (lookup k tr) as [rv|] eqn:Hk.
    + destruct (lookup k tl) as [lv|]; [apply IH; exact H|].
      revert H. clear. revert rv. induction p as [|k' p IHp]; intros rv H; [discriminate|].
      destruct rv as [a|a|t]; try discriminate. simpl in *. destruct (lookup k' t) as [v|]; [apply IHp; exact H|reflexivity].
    + destruct (lookup k tl); reflexivity.
Qed.

(* stacks: the last source defining the path as a scalar wins if later sources leave the path untouched *)
Lemma stack_app base srcs : fold_left merge srcs base = fold_left merge srcs base.
Proof. reflexivity. Qed.

Lemma fold_untouched p later : forall acc,
  forallb (untouched p) later = true -> get p (fold_left merge later acc) = get p acc.
Proof.
  induction later as [|c later IH]; intros acc H; [reflexivity|].
  simpl in H. apply andb_true_iff in H. destruct H as [Hc Hl]. simpl.
  rewrite (IH _ Hl). apply get_merge_untouched. exact Hc.
Qed.

Lemma stack_override earlier c later p x :
  get p c = Some (Scalar x) -> forallb (untouched p) later = true ->
  get p (stack (earlier ++ c :: later)) = Some (Scalar x).
Proof.
  intros Hc Hl. unfold stack. rewrite fold_left_app. simpl.
  rewrite (fold_untouched p later _ Hl). apply get_merge_scalar. exact Hc.
Qed.

(* lists: new-first, and duplicate-free when the inputs are *)
Lemma zmem_in v l : zmem v l = true <-> In v l.
Proof.
  unfold zmem. rewrite existsb_exists. split.
  - intros [x [Hx Hv]]. apply Z.eqb_eq in Hv. subst. exact Hx.
  - intros H. exists v. split; [exact H|apply Z.eqb_refl].
Qed.

Lemma NoDup_app_disjoint {A} (a b : list A) :
  NoDup a -> NoDup b -> (forall x, In x a -> ~ In x b) -> NoDup (a ++ b).
Proof.
  induction a as [|x a IH]; intros Ha Hb Hd; [exact Hb|].
  simpl. inversion Ha; subst. constructor.
  - intros Hin. apply in_app_or in Hin. destruct Hin as [Hin|Hin]; [contradiction|]. apply (Hd x); [left; reflexivity|exact Hin].
  - apply IH; auto. intros y Hy. apply Hd. right. exact Hy.
Qed.

Lemma merge_lists_nodup a b : NoDup a -> NoDup b -> NoDup (merge_lists a b).
Proof.
  intros Ha Hb. unfold merge_lists. apply NoDup_app_disjoint; [exact Hb|apply NoDup_filter; exact Ha|].
  intros x Hx Hf. apply filter_In in Hf. destruct Hf as [_ Hf]. apply negb_true_iff in Hf.
  apply zmem_in in Hx. congruence.
Qed.

Lemma merge_lists_members a b x : In x (merge_lists a b) <-> In x a \/ In x b.
Proof.
  unfold merge_lists. rewrite in_app_iff, filter_In, negb_true_iff. split.
  - intros [H|[H _]]; auto.
  - intros [H|H]; [|left; exact H]. destruct (zmem x b) eqn:E; [left; apply zmem_in; exact E|right; split; auto].
Qed.

Lemma merge_lists_new_first a b : exists rest, merge_lists a b = b ++ rest /\ forall x, In x rest -> In x a /\ ~ In x b.
Proof.
  exists (filter (fun v => negb (zmem v b)) a). split; [reflexivity|].
  intros x Hx. apply filter_In in Hx. destruct Hx as [Hx Hn]. split; [exact Hx|].
  intros Hb. apply zmem_in in Hb. rewrite Hb in Hn. discriminate.
Qed.

(* ---- provider bank -------------------------------------------------------------------------------- *)
Lemma ref_eqb_spec a b : ref_eqb a b = true <-> a = b.
Proof.
  destruct a, b; simpl; rewrite ?String.eqb_eq; split; intros H; try discriminate; try congruence.
Qed.

Lemma ref_eqb_refl a : ref_eqb a a = true.
Proof. apply ref_eqb_spec. reflexivity. Qed.

Definition has_ref (r : ref) (c : cls) : bool := existsb (ref_eqb r) (refs_of c).

Lemma has_ref_in r c : has_ref r c = true <-> In r (refs_of c).
Proof.
  unfold has_ref. rewrite existsb_exists. split.
  - intros [x [Hx Hr]]. apply ref_eqb_spec in Hr. subst. exact Hx.
  - intros H. exists r. split; [exact H|apply ref_eqb_refl].
Qed.

(* what the references are supposed to denote: the unique concrete class carrying them *)
Definition spec_get (r : ref) (cs : list cls) : option cls :=
  find (fun c => negb (cabstract c) && has_ref r c) cs.

Definition collision_free (cs : list cls) : Prop := NoDup (flat_map refs_of cs).

Lemma bank_get_registered r c rs b :
  bank_get r (map (fun r' => (r', c)) rs ++ b) = if existsb (ref_eqb r) rs then Some c else bank_get r b.
Proof.
  induction rs as [|x rs IH]; simpl; [reflexivity|].
  destruct (ref_eqb r x); simpl; [reflexivity|exact IH].
Qed.

Lemma collides_fresh c b : (forall r, In r (refs_of c) -> bank_get r b = None) -> collides c b = false.
Proof.
  intros H. unfold collides. apply not_true_is_false. intros Hex. apply existsb_exists in Hex.
  destruct Hex as [r [Hr Hc]]. rewrite (H r Hr) in Hc. discriminate.
Qed.

Lemma NoDup_app_inv {A} (a b : list A) :
  NoDup (a ++ b) -> NoDup a /\ NoDup b /\ forall x, In x a -> ~ In x b.
Proof.
  induction a as [|x a IH]; simpl; intros H.
  - repeat split; [constructor|exact H|intros ? []].
  - inversion H; subst. destruct (IH H3) as [Ha [Hb Hd]]. repeat split; auto.
    + constructor; [|exact Ha]. intros Hin. apply H2, in_or_app. left. exact Hin.
    + intros y [<-|Hy] Hin; [apply H2, in_or_app; right; exact Hin|apply (Hd y); assumption].
Qed.

Lemma find_none_conv {A} (f : A -> bool) l : (forall x, In x l -> f x = false) -> find f l = None.
Proof.
  induction l as [|x l IH]; intros H; [reflexivity|]. simpl. rewrite (H x (or_introl eq_refl)).
  apply IH. intros y Hy. apply H. right. exact Hy.
Qed.

Lemma add_all_ok cs : forall b,
  collision_free cs -> (forall r, In r (flat_map refs_of cs) -> bank_get r b = None) ->
  exists b', bank_add_all cs b = Some b'
    /\ forall r, bank_get r b' = match spec_get r cs with Some c => Some c | None => bank_get r b end.
Proof.
  induction cs as [|c cs IH]; intros b Hnd Hfresh.
  - exists b. split; [reflexivity|]. intros r. reflexivity.
  - unfold collision_free in Hnd. cbn [flat_map] in Hnd. destruct (NoDup_app_inv _ _ Hnd) as [_ [Hcs Hdisj]].
    simpl. unfold bank_add.
    rewrite collides_fresh by (intros r Hr; apply Hfresh; cbn [flat_map]; apply in_or_app; left; exact Hr).
    destruct (cabstract c) eqn:Habs.
    + destruct (IH b Hcs) as [b' [Hb' Hget]].
      { intros r Hr. apply Hfresh. cbn [flat_map]. apply in_or_app. right. exact Hr. }
      exists b'. split; [exact Hb'|]. intros r. rewrite Hget. unfold spec_get. cbn [find negb andb]. reflexivity.
    + destruct (IH (map (fun r => (r, c)) (refs_of c) ++ b) Hcs) as [b' [Hb' Hget]].
      { intros r Hr. rewrite bank_get_registered.
        destruct (existsb (ref_eqb r) (refs_of c)) eqn:E.
        - exfalso. apply (Hdisj r); [apply has_ref_in; exact E|exact Hr].
        - apply Hfresh. cbn [flat_map]. apply in_or_app. right. exact Hr. }
      exists b'. split; [exact Hb'|]. intros r. rewrite Hget, bank_get_registered. unfold spec_get. cbn [find negb andb].
      fold (has_ref r c). destruct (has_ref r c) eqn:E; [|reflexivity].
      assert (find (fun c0 => negb (cabstract c0) && has_ref r c0) cs = None) as ->; [|reflexivity].
      apply find_none_conv. intros c' Hc'. apply andb_false_iff. right. apply not_true_is_false. intros Hr'.
      apply (Hdisj r); [apply has_ref_in; exact E|]. apply in_flat_map. exists c'. split; [exact Hc'|apply has_ref_in; exact Hr'].
Qed.

Lemma spec_get_iff r cs c :
  collision_free cs ->
  (spec_get r cs = Some c <-> In c cs /\ cabstract c = false /\ In r (refs_of c)).
Proof.
  intros Hnd. split.
  - intros H. apply find_some in H. destruct H as [Hin H]. apply andb_true_iff in H. destruct H as [Ha Hr].
    apply negb_true_iff in Ha. apply has_ref_in in Hr. auto.
  - intros [Hin [Ha Hr]]. induction cs as [|c' cs IH]; [destruct Hin|].
    unfold collision_free in Hnd. cbn [flat_map] in Hnd. destruct (NoDup_app_inv _ _ Hnd) as [_ [Hcs Hdisj]].
    unfold spec_get. cbn [find]. destruct Hin as [->|Hin].
    + rewrite Ha. cbn [negb andb]. rewrite (proj2 (has_ref_in r c) Hr). reflexivity.
    + destruct (has_ref r c') eqn:E.
      * exfalso. apply (Hdisj r); [apply has_ref_in; exact E|]. apply in_flat_map. exists c. auto.
      * rewrite andb_false_r. apply IH; assumption.
Qed.

Lemma collision_free_perm cs cs' : Permutation cs cs' -> collision_free cs -> collision_free cs'.
Proof.
  intros Hp Hnd. unfold collision_free in *. eapply Permutation_NoDup; [|exact Hnd].
  clear Hnd. induction Hp; cbn [flat_map].
  - constructor.
  - apply Permutation_app_head. exact IHHp.
  - rewrite !app_assoc. apply Permutation_app_tail. apply Permutation_app_comm.
  - eapply Permutation_trans; eassumption.
Qed.

Lemma spec_get_perm r cs cs' : Permutation cs cs' -> collision_free cs -> spec_get r cs = spec_get r cs'.
Proof.
  intros Hp Hnd. pose proof (collision_free_perm _ _ Hp Hnd) as Hnd'.
  destruct (spec_get r cs) as [c|] eqn:E.
  - symmetry. apply (spec_get_iff r cs' c Hnd'). apply (spec_get_iff r cs c Hnd) in E.
    destruct E as [Hin H]. split; [eapply Permutation_in; eassumption|exact H].
  - destruct (spec_get r cs') as [c|] eqn:E'; [|reflexivity].
    apply (spec_get_iff r cs' c Hnd') in E'. destruct E' as [Hin H].
    assert (spec_get r cs = Some c) as Hc; [|congruence].
    apply (spec_get_iff r cs c Hnd). split; [eapply Permutation_in; [apply Permutation_sym|]; eassumption|exact H].
Qed.

(* registration in any order of a collision-free class set succeeds and yields the same reference map *)
Lemma bank_order_independent cs cs' :
  Permutation cs cs' -> collision_free cs ->
  exists b b', bank_add_all cs [] = Some b /\ bank_add_all cs' [] = Some b'
    /\ forall r, bank_get r b = bank_get r b' /\ bank_get r b = spec_get r cs.
Proof.
  intros Hp Hnd. pose proof (collision_free_perm _ _ Hp Hnd) as Hnd'.
  destruct (add_all_ok cs [] Hnd (fun _ _ => eq_refl)) as [b [Hb Hg]].
  destruct (add_all_ok cs' [] Hnd' (fun _ _ => eq_refl)) as [b' [Hb' Hg']].
  exists b, b'. repeat split; auto.
  - rewrite Hg, Hg', (spec_get_perm r cs cs' Hp Hnd). reflexivity.
  - rewrite Hg. simpl. destruct (spec_get r cs); reflexivity.
Qed.

(* alias and qualified name resolve to the same single class; abstract classes are never returned;
   an unknown reference yields nothing *)
Lemma bank_resolution cs b :
  collision_free cs -> bank_add_all cs [] = Some b ->
  (forall c, In c cs -> cabstract c = false ->
     bank_get (RQ (cid c)) b = Some c /\ forall a, calias c = Some a -> bank_get (RA a) b = Some c)
  /\ (forall r c, bank_get r b = Some c -> In c cs /\ cabstract c = false /\ In r (refs_of c))
  /\ (forall r, (forall c, In c cs -> cabstract c = false -> ~ In r (refs_of c)) -> bank_get r b = None).
Proof.
  intros Hnd Hb. destruct (add_all_ok cs [] Hnd (fun _ _ => eq_refl)) as [b0 [Hb0 Hg]].
  rewrite Hb in Hb0. injection Hb0 as <-.
  assert (forall r, bank_get r b = spec_get r cs) as Hs by (intros r; rewrite Hg; simpl; destruct (spec_get r cs); reflexivity).
  repeat split.
  - rewrite Hs. apply spec_get_iff; auto. repeat split; auto. left. reflexivity.
  - intros a Ha. rewrite Hs. apply spec_get_iff; auto. repeat split; auto. unfold refs_of. rewrite Ha. right. left. reflexivity.
  - rewrite Hs in H. apply spec_get_iff in H; tauto.
  - rewrite Hs in H. apply spec_get_iff in H; tauto.
  - rewrite Hs in H. apply spec_get_iff in H; tauto.
  - intros r H. rewrite Hs. destruct (spec_get r cs) as [c|] eqn:E; [|reflexivity].
    apply spec_get_iff in E; auto. destruct E as [Hin [Ha Hr]]. exfalso. apply (H c); assumption.
Qed.

(* a reference already held by a different class makes the registration fail (the bank is left as it was) *)
Lemma bank_collision_rejected c c' r b :
  In r (refs_of c) -> bank_get r b = Some c' -> cid c' <> cid c -> bank_add c b = None.
Proof.
  intros Hr Hg Hne. unfold bank_add.
  assert (collides c b = true) as ->; [|reflexivity].
  unfold collides. apply existsb_exists. exists r. split; [exact Hr|]. rewrite Hg.
  apply negb_true_iff. apply String.eqb_neq. exact Hne.
Qed.
