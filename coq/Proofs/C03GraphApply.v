(* C03 + C04: the apply segment of a pipeline expression, run with the states the training run committed (bound to the
   groups by their position in the persistent list), produces the apply output the expression denotes. *)
Require Import List Bool ZArith Arith Lia.
From FV Require Import Lib.Sym Model.C01 Model.C03 Model.C03Graph Model.C01Compile Proofs.C01Compile Proofs.C01Blocks Proofs.C01Inv Proofs.C01Main Proofs.C03GraphEval Proofs.C03GraphPers Proofs.C03GraphCommit.
Import ListNotations.

(* ---- generic evaluation lemmas (any accessor) ----------------------------------------------------------------- *)
Lemma geval_snoc a ns n : geval a (ns ++ [n]) = eval_node a (geval a ns) n.
Proof. unfold geval. rewrite fold_left_app. reflexivity. Qed.

Lemma geval_len a ns : List.length (outputs (geval a ns)) = List.length ns.
Proof.
  induction ns as [|n ns IH] using rev_ind; [reflexivity|]. rewrite geval_snoc. unfold eval_node.
  destruct (nkind n); simpl; rewrite !app_length, IH; reflexivity.
Qed.

Lemma gvalue_snoc a ns n r : fst r < List.length ns -> value (geval a (ns ++ [n])) r = value (geval a ns) r.
Proof.
  intros H. rewrite geval_snoc. unfold value, eval_node. destruct (nkind n); simpl; rewrite app_nth1 by (rewrite geval_len; exact H); reflexivity.
Qed.

(* ---- what the denotation adds to the persisted list ------------------------------------------------------------- *)
Definition news_op (o : opspec) (s : flowst) : list term :=
  let y' := match olabel o with Some l => act l (fit l (xt s) (yl s)) (yl s) | None => yl s end in
  match oapply o with Some a => if astateful a then [fit a (xt s) y'] else [] | None => [] end.

Fixpoint news (e : expr) (s : flowst) : list term :=
  match e with EOp o => news_op o s | ESeq l r => news l s ++ news r (den l s) end.

Lemma persisted_den : forall e s, persisted (den e s) = persisted s ++ news e s.
Proof.
  induction e as [o|l IHl r IHr]; intros s; simpl.
  - unfold den_op, news_op. simpl. destruct (oapply o) as [a|]; [destruct (astateful a)|]; reflexivity.
  - rewrite IHr, IHl, app_assoc. reflexivity.
Qed.

Lemma news_len : forall e s gs, List.length (pers_gids e gs) = List.length (news e s).
Proof.
  induction e as [o|l IHl r IHr]; intros s gs; simpl.
  - unfold pers_op, news_op. destruct (oapply o) as [a|]; [destruct (astateful a)|]; reflexivity.
  - rewrite !app_length, (IHl s gs), (IHr (den l s) (build l gs)). reflexivity.
Qed.

Lemma combine_app_eq {A B} (l1 l2 : list A) (r1 r2 : list B) : List.length l1 = List.length r1 ->
  combine (l1 ++ l2) (r1 ++ r2) = combine l1 r1 ++ combine l2 r2.
Proof.
  revert r1. induction l1 as [|x l1 IH]; intros [|y r1] H; simpl in *; try discriminate; [reflexivity|]. rewrite IH by lia. reflexivity.
Qed.

Lemma lookup_combine gs : forall ts g t, NoDup gs -> In (g, t) (combine gs ts) -> lookup_gid g (combine gs ts) = Some t.
Proof.
  induction gs as [|g0 gs IH]; intros [|t0 ts] g t Hnd Hin; simpl in *; try contradiction.
  inversion Hnd as [|? ? Hni Hnd']; subst. destruct Hin as [E|Hin].
  - injection E as <- <-. rewrite Nat.eqb_refl. reflexivity.
  - destruct (Nat.eqb g g0) eqn:E; [|exact (IH ts g t Hnd' Hin)].
    apply Nat.eqb_eq in E. subst. exfalso. apply Hni. exact (in_combine_l _ _ _ _ Hin).
Qed.

(* ---- the invariant ------------------------------------------------------------------------------------------------ *)
Section Apply.
Variable l : list (nat * term).

Record ainv (s : flowst) (gs : gstate) (sa : astate) : Prop := {
  a_fresh : afresh sa = gfresh gs;
  a_bound : fst (apa sa) < List.length (anodes sa);
  a_value : value (geval (Some l) (anodes sa)) (apa sa) = xa s;
  a_untrained : trained (geval (Some l) (anodes sa)) = []
}.

Lemma gfresh_build_op o gs : gfresh (build_op o gs) =
  S (let g1 := match olabel o with Some _ => S (gfresh gs) | None => gfresh gs end in match oapply o with Some _ => S g1 | None => g1 end).
Proof.
  unfold build_op, group_nodes. destruct (olabel o) as [lb|]; destruct (oapply o) as [a|]; destruct (otrain o) as [| |t]; simpl;
  repeat match goal with |- context [astateful ?x] => destruct (astateful x) end; reflexivity.
Qed.

Lemma build_a_op_inv o s gs sa : ainv s gs sa ->
  (forall g t, In (g, t) (combine (pers_op o gs) (news_op o s)) -> lookup_gid g l = Some t) ->
  ainv (den_op o s) (build_op o gs) (build_a_op o sa).
Proof.
  intros [Hf Hb Hv Hu] Hl. unfold pers_op, news_op in Hl.
  set (y' := match olabel o with Some lb => act lb (fit lb (xt s) (yl s)) (yl s) | None => yl s end) in *.
  set (g1 := match olabel o with Some _ => S (gfresh gs) | None => gfresh gs end) in *.
  assert (Eg : match olabel o with Some _ => S (afresh sa) | None => afresh sa end = g1) by (rewrite Hf; reflexivity).
  destruct (oapply o) as [a|] eqn:Ea.
  - assert (Hst : (if astateful a then match lookup_gid g1 l with Some t => t | None => TNone end else TNone) = fit a (xt s) y').
    { unfold fit. destruct (astateful a) eqn:Es; [|reflexivity].
      rewrite (Hl g1 (fit a (xt s) y')); [unfold fit; rewrite Es; reflexivity|]. left. reflexivity. }
    constructor.
    + rewrite gfresh_build_op. unfold build_a_op. rewrite Ea, Eg. simpl. reflexivity.
    + unfold build_a_op. rewrite Ea. simpl. rewrite app_length. simpl. lia.
    + unfold build_a_op. rewrite Ea, Eg. cbn [anodes apa]. rewrite geval_snoc. unfold eval_node, mknode. cbn [nkind nstateful ngid nname nhp nszout].
      rewrite Hu. cbn [lookup_gid previous]. unfold value at 1. cbn [outputs fst snd].
      rewrite app_nth2 by (rewrite geval_len; lia). rewrite geval_len, Nat.sub_diag. cbn [nth map].
      rewrite Hst, Hv. unfold den_op. rewrite Ea. cbn [xa]. reflexivity.
    + unfold build_a_op. rewrite Ea. cbn [anodes]. rewrite geval_snoc. unfold eval_node, mknode. cbn [nkind trained]. exact Hu.
  - constructor.
    + rewrite gfresh_build_op. unfold build_a_op. rewrite Ea, Eg. simpl. reflexivity.
    + unfold build_a_op. rewrite Ea. exact Hb.
    + unfold build_a_op. rewrite Ea. cbn [anodes apa]. rewrite Hv. unfold den_op. rewrite Ea. reflexivity.
    + unfold build_a_op. rewrite Ea. exact Hu.
Qed.

Theorem build_a_inv : forall e s gs sa, ainv s gs sa ->
  (forall g t, In (g, t) (combine (pers_gids e gs) (news e s)) -> lookup_gid g l = Some t) ->
  ainv (den e s) (build e gs) (build_a e sa).
Proof.
  induction e as [o|e1 IH1 e2 IH2]; intros s gs sa Hi Hl; simpl in *.
  - apply build_a_op_inv; assumption.
  - rewrite (combine_app_eq _ _ _ _ (news_len e1 s gs)) in Hl. apply IH2.
    + apply IH1; [exact Hi|]. intros g t H. apply Hl. apply in_or_app. left. exact H.
    + intros g t H. apply Hl. apply in_or_app. right. exact H.
Qed.
End Apply.

(* the round trip: train, commit the persisted list, load it by position, apply *)
Theorem apply_reloads e a t sl :
  let s := den e (source a t sl) in
  let l := combine (pers_gids e (gsource a t sl)) (persisted s) in
  let ga := build_a e (asource a) in
  value (geval (Some l) (anodes ga)) (apa ga) = xa s.
Proof.
  intros s l ga.
  assert (Hi : ainv l (source a t sl) (gsource a t sl) (asource a)) by (constructor; simpl; [reflexivity|lia|reflexivity|reflexivity]).
  assert (El : l = combine (pers_gids e (gsource a t sl)) (news e (source a t sl))).
  { unfold l, s. rewrite persisted_den. reflexivity. }
  refine (a_value l _ _ _ (build_a_inv l e _ _ _ Hi _)). intros g st H. rewrite El. apply lookup_combine; [|exact H].
  apply (pers_nodup e (source a t sl) (gsource a t sl) [] (C03GraphEval.agree_source a t sl)); [split; [reflexivity|intros g0 []]|constructor].
Qed.

(* ---- compiled: the apply segment is a well-formed compiler input for the accessor holding the committed states ---- *)
Record awf (sa : astate) : Prop := {
  w_tail : fst (apa sa) < List.length (anodes sa) /\ snd (apa sa) = 0;
  w_nodes : forall j nd, nth_error (anodes sa) j = Some nd ->
              is_train nd = false /\ nszout nd = 1 /\ forall q ip, nth_error (ports nd) q = Some ip -> fst ip < j /\ snd ip = 0
}.

Lemma awf_source a : awf (asource a).
Proof.
  constructor; [simpl; split; [lia|reflexivity]|]. intros [|j] nd H; simpl in H; [|destruct j; discriminate].
  injection H as <-. split; [reflexivity|]. split; [reflexivity|]. intros [|q] ip X; discriminate X.
Qed.

Lemma build_a_op_wf o sa : awf sa -> awf (build_a_op o sa).
Proof.
  intros [[Ht1 Ht2] Hn]. unfold build_a_op. destruct (oapply o) as [a|]; [|constructor; [split|]; assumption].
  constructor; cbn [anodes apa].
  - rewrite app_length. simpl. split; [lia|reflexivity].
  - intros j nd H. destruct (Nat.lt_ge_cases j (List.length (anodes sa))) as [Hj|Hj].
    + rewrite nth_error_app1 in H by exact Hj. exact (Hn j nd H).
    + rewrite nth_error_app2 in H by exact Hj. destruct (j - List.length (anodes sa)) as [|d] eqn:Ed; simpl in H; [|destruct d; discriminate].
      injection H as <-. split; [reflexivity|]. split; [reflexivity|]. unfold ports, mknode. simpl.
      intros [|q] ip X; simpl in X; [|destruct q; discriminate]. injection X as <-. split; [lia|exact Ht2].
Qed.

Lemma build_a_wf : forall e sa, awf sa -> awf (build_a e sa).
Proof. induction e as [o|e1 IH1 e2 IH2]; intros sa H; simpl; [apply build_a_op_wf; exact H|apply IH2, IH1; exact H]. Qed.

Lemma awf_WF sa l : awf sa -> NoDup (map fst l) -> WF (Some l) (anodes sa).
Proof.
  intros [_ Hn] Hnd. constructor.
  - intros j nd q ip Hj Hq. destruct (Hn j nd Hj) as [_ [_ Hp]]. destruct (Hp q ip Hq) as [P1 P2]. split; [exact P1|].
    assert (Hlt : fst ip < List.length (anodes sa)).
    { assert (j < List.length (anodes sa)) by (apply nth_error_Some; rewrite Hj; discriminate). lia. }
    destruct (nth_error (anodes sa) (fst ip)) as [ndi|] eqn:Ei; [|apply nth_error_None in Ei; lia].
    exists ndi. split; [reflexivity|]. destruct (Hn _ _ Ei) as [Q1 [Q2 _]]. split; [exact Q1|]. rewrite Q2, P2. lia.
  - intros i nd Hi Ht. destruct (Hn i nd Hi) as [X _]. congruence.
  - intros i nd i' nd' Hi _ Ht. destruct (Hn i nd Hi) as [X _]. congruence.
  - intros l' E. injection E as <-. exact Hnd.
Qed.

Lemma map_fst_combine {A B} (l : list A) : forall (r : list B), List.length l = List.length r -> map fst (combine l r) = l.
Proof. induction l as [|x l IH]; intros [|y r] H; simpl in *; try discriminate; [reflexivity|]. rewrite IH by lia. reflexivity. Qed.

Definition delivered_with (a : assets) (tb : list sym) (ns : list node) (r : nat * nat) (v : term) : Prop :=
  exists n p0 nt, nth_error ns (fst r) = Some n /\ pos tb (fst r) = Some p0
    /\ (forall fuel, 2 * fst r + 2 <= fuel -> eval fuel a ns tb p0 = Some nt)
    /\ v = match nszout n with 1 => nt | _ => TProj (snd r) nt end.

Theorem apply_compiles e a t sl visit :
  let s := den e (source a t sl) in
  let l := combine (pers_gids e (gsource a t sl)) (persisted s) in
  let ga := build_a e (asource a) in
  NoDup visit -> (forall i, In i visit -> i < List.length (anodes ga)) -> List.length visit = List.length (anodes ga) ->
  exists tb, bind (compile (Some l) (anodes ga) visit) canon = Some tb /\ delivered_with (Some l) tb (anodes ga) (apa ga) (xa s).
Proof.
  intros s l ga Hnd Hlt Hlen.
  pose proof (build_a_wf e _ (awf_source a)) as Hw. fold ga in Hw.
  assert (Hl : NoDup (map fst l)).
  { unfold l, s. rewrite persisted_den. simpl. rewrite map_fst_combine by apply news_len.
    apply (pers_nodup e (source a t sl) (gsource a t sl) [] (agree_source a t sl)); [split; [reflexivity|intros g0 []]|constructor]. }
  pose proof (awf_WF ga l Hw Hl) as wf. destruct Hw as [[Ht1 Ht2] Hn].
  assert (Hc : compile_ok (Some l) (anodes ga) visit = true).
  { apply compile_correct_prop; [exact wf| | |exact Hnd|exact Hlt|exact Hlen].
    - intros i nd k ndk _ Hk _ _ Htk _. destruct (Hn k ndk Hk) as [X _]. congruence.
    - intros l' _. right. intros gt k ndk _ Hk Htk _. destruct (Hn k ndk Hk) as [X _]. congruence. }
  unfold compile_ok in Hc. destruct (bind (compile (Some l) (anodes ga) visit) canon) as [tb|]; [|discriminate].
  apply andb_prop in Hc. destruct Hc as [Hv _]. exists tb. split; [reflexivity|].
  destruct (nth_error (anodes ga) (fst (apa ga))) as [n|] eqn:En; [|apply nth_error_None in En; lia].
  destruct (Hn _ _ En) as [Q1 [Q2 _]].
  destruct (validate_sound (Some l) (anodes ga) tb Hv _ n En) as [p0 [Hpos Hev]].
  exists n, p0, (node_term (Some l) (anodes ga) (fst (apa ga))). split; [exact En|]. split; [exact Hpos|]. split; [exact Hev|].
  pose proof (apply_reloads e a t sl) as R. cbv zeta in R. fold s in R. fold l in R. fold ga in R. rewrite <- R.
  destruct (apa ga) as [i p] eqn:Ep. simpl in *. subst p.
  apply (port_value (Some l) (anodes ga) i n 0 En Q1). lia.
Qed.
