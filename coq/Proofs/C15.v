(* C15 - proofs about entry alignment and the tabular operations. *)
Require Import String List Bool ZArith Lia.
From FV Require Import Model.C15.
Import ListNotations.

Lemma okey_eqb_spec a b : okey_eqb a b = true <-> a = b.
Proof.
  destruct a, b; simpl; rewrite ?String.eqb_eq; split; intros H; try discriminate; try congruence; reflexivity.
Qed.

Lemma okey_eqb_refl a : okey_eqb a a = true.
Proof. apply okey_eqb_spec. reflexivity. Qed.

(* ---- soundness of the indices ------------------------------------------------------------------------ *)
Definition src_sound (e : list string) (s : src) : Prop :=
  forall name j, src_get (Some name) s = Some j -> nth_error e j = Some name.

Lemma loop_sound e pairs : forall i s id s' id',
  (forall k d y, nth_error pairs k = Some (d, Some y) -> nth_error e (i + k) = Some y) ->
  src_sound e s -> match_loop pairs i s id = Some (s', id') -> src_sound e s'.
Proof.
  induction pairs as [|[d sup] r IH]; intros i s id s' id' Hp Hs H; simpl in H.
  - injection H as <- _. exact Hs.
  - destruct (falsy sup && negb (src_mem d (src_set sup i s))); [discriminate|].
    eapply IH; [| |exact H].
    + intros k d' y Hk. replace (S i + k) with (i + S k) by lia. apply (Hp (S k) d' y). exact Hk.
    + intros name j Hg. unfold src_set in Hg. cbn [src_get] in Hg.
      destruct (okey_eqb (Some name) sup) eqn:E.
      * apply okey_eqb_spec in E. subst sup. injection Hg as <-.
        specialize (Hp 0 d name eq_refl). rewrite Nat.add_0_r in Hp. exact Hp.
      * apply Hs. exact Hg.
Qed.

Lemma zip_supply {A} (q e : list A) : forall k d y, nth_error (zip_longest q e) k = Some (d, Some y) -> nth_error e k = Some y.
Proof.
  revert e; induction q as [|x q IH]; intros e k d y H.
  - simpl in H. revert k H. induction e as [|z e IHe]; intros k H; [destruct k; simpl in H; discriminate|].
    destruct k; simpl in *; [injection H as _ <-; reflexivity|apply IHe; exact H].
  - destruct e as [|z e].
    + exfalso. change (zip_longest (x :: q) []) with (map (fun x0 : A => (Some x0, @None A)) (x :: q)) in H. revert k H. generalize (x :: q). intros l. induction l as [|a l IHl]; intros k H; [destruct k; simpl in H; discriminate|].
      destruct k; simpl in H; [discriminate|apply (IHl k H)].
    + destruct k; simpl in *; [injection H as _ <-; reflexivity|eapply IH; exact H].
Qed.

Lemma collect_sound e q s is : src_sound e s -> collect q s = Some is -> map (nth_error e) is = map Some q.
Proof.
  intros Hs. revert is; induction q as [|c q IH]; intros is H; simpl in H.
  - injection H as <-. reflexivity.
  - destruct (src_get (Some c) s) as [i|] eqn:E; [|discriminate]. destruct (collect q s) as [is'|]; [|discriminate].
    injection H as <-. simpl. rewrite (Hs c i E), (IH is' eq_refl). reflexivity.
Qed.

Lemma match_entry_indices q e is : match_entry q e = (true, Some is) -> map (nth_error e) is = map Some q.
Proof.
  unfold match_entry. destruct (match_loop (zip_longest q e) 0 [] true) as [[s [|]]|] eqn:E; try discriminate.
  destruct (collect q s) as [is'|] eqn:C; [|discriminate]. intros [= <-].
  eapply collect_sound; [|exact C]. eapply loop_sound; [| |exact E].
  - intros k d y Hk. simpl. eapply zip_supply. exact Hk.
  - intros name j Hg. discriminate.
Qed.

(* ---- the identical shortcut ----------------------------------------------------------------------- *)
Lemma loop_identical pairs : forall i s id s',
  match_loop pairs i s id = Some (s', true) -> id = true /\ Forall (fun p => snd p = fst p) pairs.
Proof.
  induction pairs as [|[d sup] r IH]; intros i s id s' H; simpl in H.
  - injection H as _ ->. split; [reflexivity|constructor].
  - destruct (falsy sup && negb (src_mem d (src_set sup i s))); [discriminate|].
    destruct (IH _ _ _ _ H) as [Hid Hr]. apply andb_true_iff in Hid. destruct Hid as [-> Heq].
    split; [reflexivity|]. constructor; [apply okey_eqb_spec; exact Heq|exact Hr].
Qed.

Lemma zip_equal {A} (q e : list A) : Forall (fun p => snd p = fst p) (zip_longest q e) -> q = e.
Proof.
  revert e; induction q as [|x q IH]; intros e H.
  - destruct e as [|y e]; [reflexivity|]. simpl in H. inversion H; subst. discriminate.
  - destruct e as [|y e]; simpl in H; inversion H as [|? ? Hh Ht]; subst; simpl in Hh; [discriminate|].
    injection Hh as ->. f_equal. apply IH. exact Ht.
Qed.

Lemma match_entry_identical q e : match_entry q e = (true, None) -> q = e.
Proof.
  unfold match_entry. destruct (match_loop (zip_longest q e) 0 [] true) as [[s [|]]|] eqn:E; try discriminate.
  - intros _. apply zip_equal. eapply loop_identical. exact E.
  - destruct (collect q s); discriminate.
Qed.

(* an accepted entry carries every required name *)
Lemma match_entry_accepts q e idx : match_entry q e = (true, idx) -> incl q e.
Proof.
  destruct idx as [is|]; intros H.
  - apply match_entry_indices in H. intros x Hx. 
    assert (In (Some x) (map (nth_error e) is)) as Hin by (rewrite H; apply in_map; exact Hx).
    apply in_map_iff in Hin. destruct Hin as [i [Hi _]]. eapply nth_error_In. exact Hi.
  - apply match_entry_identical in H. subst. apply incl_refl.
Qed.

(* ---- completeness: an entry carrying every required name is never refused --------------------------- *)
Lemma src_mem_set k k' i s : src_mem k (src_set k' i s) = okey_eqb k k' || src_mem k s.
Proof. unfold src_mem, src_set. simpl. destruct (okey_eqb k k'); reflexivity. Qed.

Lemma loop_no_exit pairs : forall i s id,
  (forall k d sup, nth_error pairs k = Some (d, sup) -> falsy sup = true ->
     src_mem d s = true \/ exists k' d', k' < k /\ nth_error pairs k' = Some (d', d)) ->
  exists s' id', match_loop pairs i s id = Some (s', id')
    /\ (forall key, src_mem key s = true -> src_mem key s' = true)
    /\ (forall k d sup, nth_error pairs k = Some (d, sup) -> src_mem sup s' = true).
Proof.
  induction pairs as [|[d sup] r IH]; intros i s id H.
  - exists s, id. repeat split; auto. intros k d sup Hk. destruct k; discriminate.
  - simpl. destruct (falsy sup) eqn:Hf.
    + destruct (H 0 d sup eq_refl Hf) as [Hm|[k' [d' [Hlt _]]]]; [|lia].
      rewrite src_mem_set, Hm, orb_true_r. simpl.
      destruct (IH (S i) (src_set sup i s) (id && okey_eqb sup d)) as [s' [id' [Hl [Hmono Hkeys]]]].
      { intros k d2 sup2 Hk Hf2. destruct (H (S k) d2 sup2 Hk Hf2) as [Hm2|[k' [d' [Hlt Hk']]]].
        - left. rewrite src_mem_set, Hm2, orb_true_r. reflexivity.
        - destruct k' as [|k']; simpl in Hk'.
          + injection Hk' as _ <-. left. rewrite src_mem_set, okey_eqb_refl. reflexivity.
          + right. exists k', d'. split; [lia|exact Hk']. }
      exists s', id'. split; [exact Hl|]. split.
      * intros key Hk. apply Hmono. rewrite src_mem_set, Hk, orb_true_r. reflexivity.
      * intros [|k] d2 sup2 Hk; simpl in Hk; [injection Hk as _ <-; apply Hmono; rewrite src_mem_set, okey_eqb_refl; reflexivity|eapply Hkeys; exact Hk].
    + simpl.
      destruct (IH (S i) (src_set sup i s) (id && okey_eqb sup d)) as [s' [id' [Hl [Hmono Hkeys]]]].
      { intros k d2 sup2 Hk Hf2. destruct (H (S k) d2 sup2 Hk Hf2) as [Hm2|[k' [d' [Hlt Hk']]]].
        - left. rewrite src_mem_set, Hm2, orb_true_r. reflexivity.
        - destruct k' as [|k']; simpl in Hk'.
          + injection Hk' as _ <-. left. rewrite src_mem_set, okey_eqb_refl. reflexivity.
          + right. exists k', d'. split; [lia|exact Hk']. }
      exists s', id'. split; [exact Hl|]. split.
      * intros key Hk. apply Hmono. rewrite src_mem_set, Hk, orb_true_r. reflexivity.
      * intros [|k] d2 sup2 Hk; simpl in Hk; [injection Hk as _ <-; apply Hmono; rewrite src_mem_set, okey_eqb_refl; reflexivity|eapply Hkeys; exact Hk].
Qed.

Lemma zip_nth {A} (q e : list A) : forall k,
  nth_error (zip_longest q e) k
  = if (k <? Nat.max (List.length q) (List.length e)) then Some (nth_error q k, nth_error e k) else None.
Proof.
  revert e; induction q as [|x q IH]; intros e k.
  - simpl. revert k; induction e as [|y e IHe]; intros k; [destruct k; reflexivity|].
    destruct k; simpl; [reflexivity|]. rewrite IHe. simpl. destruct (k <? List.length e) eqn:E.
    + assert (S k <? S (List.length e) = true) as -> by (apply Nat.ltb_lt; apply Nat.ltb_lt in E; lia). destruct k; reflexivity.
    + assert (S k <? S (List.length e) = false) as -> by (apply Nat.ltb_ge; apply Nat.ltb_ge in E; lia). reflexivity.
  - destruct e as [|y e].
    + change (zip_longest (x :: q) []) with (map (fun x0 : A => (Some x0, @None A)) (x :: q)).
      rewrite Nat.max_0_r. generalize (x :: q). intros l. revert k. induction l as [|a l IHl]; intros k; [destruct k; reflexivity|].
      destruct k; simpl; [reflexivity|]. rewrite IHl. destruct (k <? List.length l) eqn:E.
      * assert (S k <? S (List.length l) = true) as -> by (apply Nat.ltb_lt; apply Nat.ltb_lt in E; lia). destruct k; reflexivity.
      * assert (S k <? S (List.length l) = false) as -> by (apply Nat.ltb_ge; apply Nat.ltb_ge in E; lia). reflexivity.
    + destruct k; [reflexivity|]. simpl zip_longest. simpl nth_error. rewrite IH. simpl List.length.
      rewrite <- Nat.succ_max_distr.
      destruct (k <? Nat.max (List.length q) (List.length e)) eqn:E.
      * assert (S k <? S (Nat.max (List.length q) (List.length e)) = true) as -> by (apply Nat.ltb_lt; apply Nat.ltb_lt in E; lia). reflexivity.
      * assert (S k <? S (Nat.max (List.length q) (List.length e)) = false) as -> by (apply Nat.ltb_ge; apply Nat.ltb_ge in E; lia). reflexivity.
Qed.

Definition nonempty_names (e : list string) : Prop := Forall (fun n => n <> ""%string) e.

Lemma match_entry_complete q e : incl q e -> nonempty_names e -> fst (match_entry q e) = true.
Proof.
  intros Hincl Hne. unfold match_entry.
  destruct (loop_no_exit (zip_longest q e) 0 [] true) as [s' [id' [Hl [_ Hkeys]]]].
  { intros k d sup Hk Hf. right. rewrite zip_nth in Hk.
    destruct (k <? Nat.max (List.length q) (List.length e)) eqn:E; [|discriminate]. injection Hk as <- <-.
    (* a falsy supply is an exhausted entry: the demand is a name of q, hence supplied earlier *)
    destruct (nth_error e k) as [y|] eqn:Ey.
    - exfalso. simpl in Hf. apply String.eqb_eq in Hf. subst y. apply nth_error_In in Ey.
      unfold nonempty_names in Hne. rewrite Forall_forall in Hne. exact (Hne _ Ey eq_refl).
    - apply nth_error_None in Ey. apply Nat.ltb_lt in E.
      destruct (nth_error q k) as [x|] eqn:Ex; [|apply nth_error_None in Ex; lia].
      assert (In x e) as Hin by (apply Hincl; eapply nth_error_In; exact Ex).
      apply In_nth_error in Hin. destruct Hin as [k' Hk'].
      assert (k' < List.length e) by (apply nth_error_Some; congruence).
      exists k', (nth_error q k'). split; [lia|]. rewrite zip_nth.
      assert (k' <? Nat.max (List.length q) (List.length e) = true) as -> by (apply Nat.ltb_lt; lia).
      rewrite Hk'. reflexivity. }
  rewrite Hl. destruct id'; [reflexivity|].
  assert (exists is, collect q s' = Some is) as [is ->]; [|reflexivity].
  assert (forall x, In x q -> src_mem (Some x) s' = true) as Hall.
  { intros x Hx. apply Hincl in Hx. apply In_nth_error in Hx. destruct Hx as [k Hk].
    assert (k < List.length e) by (apply nth_error_Some; congruence).
    apply (Hkeys k (nth_error q k) (Some x)). rewrite zip_nth.
    assert (k <? Nat.max (List.length q) (List.length e) = true) as -> by (apply Nat.ltb_lt; lia).
    rewrite Hk. reflexivity. }
  clear - Hall. induction q as [|c q IH]; [exists []; reflexivity|].
  destruct IH as [is His]; [intros x Hx; apply Hall; right; exact Hx|].
  simpl. specialize (Hall c (or_introl eq_refl)). unfold src_mem in Hall.
  destruct (src_get (Some c) s') as [i|]; [|discriminate]. rewrite His. eexists. reflexivity.
Qed.

(* refusal: an entry lacking a required name is refused, with no indices *)
Lemma match_entry_refuses q e x : In x q -> ~ In x e -> match_entry q e = (false, None).
Proof.
  intros Hq He. destruct (match_entry q e) as [b idx] eqn:E. destruct b.
  - exfalso. apply He. apply (match_entry_accepts q e idx E). exact Hq.
  - unfold match_entry in E. destruct (match_loop (zip_longest q e) 0 [] true) as [[s [|]]|]; try discriminate; try (symmetry; exact E).
    destruct (collect q s); [discriminate|symmetry; exact E].
Qed.

(* ---- matrix semantics ----------------------------------------------------------------------------------- *)
Definition cell (m : matrix) (i j : nat) : value := nth j (nth i m []) dflt.

Lemma take_rows_cell idx m i j : i < List.length idx -> cell (take_rows idx m) i j = cell m (nth i idx 0) j.
Proof.
  intros Hi. unfold cell, take_rows. rewrite (nth_indep _ [] (nth 0 m [])) by (rewrite map_length; exact Hi).
  rewrite (map_nth (fun i0 => nth i0 m []) idx 0 i). reflexivity.
Qed.

Lemma take_columns_cell idx m i j : i < List.length m -> j < List.length idx ->
  cell (take_columns idx m) i j = cell m i (nth j idx 0).
Proof.
  intros Hi Hj. unfold cell, take_columns.
  rewrite (nth_indep _ [] (map (fun j0 => nth j0 [] dflt) idx)) by (rewrite map_length; exact Hi).
  rewrite (map_nth (fun r => map (fun j0 => nth j0 r dflt) idx) m [] i).
  rewrite (nth_indep _ dflt (nth 0 (nth i m []) dflt)) by (rewrite map_length; exact Hj).
  rewrite (map_nth (fun j0 => nth j0 (nth i m []) dflt) idx 0 j). reflexivity.
Qed.

Lemma take_rows_shape idx m : List.length (take_rows idx m) = List.length idx.
Proof. unfold take_rows. apply map_length. Qed.

Lemma take_columns_shape idx m : List.length (take_columns idx m) = List.length m
  /\ Forall (fun r => List.length r = List.length idx) (take_columns idx m).
Proof.
  unfold take_columns. split; [apply map_length|]. apply Forall_forall. intros r Hr.
  apply in_map_iff in Hr. destruct Hr as [r0 [<- _]]. apply map_length.
Qed.

(* the column view is the transpose of the row view *)
Lemma to_columns_cell w m i j : j < w -> i < List.length m -> cell (to_columns_w w m) j i = cell m i j.
Proof.
  intros Hj Hi. unfold cell, to_columns_w, column.
  rewrite (nth_indep _ [] (map (fun r => nth 0 r dflt) m)) by (rewrite map_length, seq_length; exact Hj).
  rewrite (map_nth (fun j0 => map (fun r => nth j0 r dflt) m) (seq 0 w) 0 j), seq_nth by exact Hj. simpl.
  rewrite (nth_indep _ dflt (nth j [] dflt)) by (rewrite map_length; exact Hi).
  rewrite (map_nth (fun r => nth j r dflt) m [] i). reflexivity.
Qed.

(* ---- the whole entry path ------------------------------------------------------------------------------- *)
Lemma deliver_refused query entry data x :
  In x (map fst query) -> ~ In x (map fst entry) -> deliver query entry data = Refused.
Proof. intros Hq He. unfold deliver. rewrite (match_entry_refuses _ _ x Hq He). reflexivity. Qed.

Lemma deliver_not_refused query entry data :
  incl (map fst query) (map fst entry) -> nonempty_names (map fst entry) -> deliver query entry data <> Refused.
Proof.
  intros Hi Hn. unfold deliver. pose proof (match_entry_complete _ _ Hi Hn) as Hc.
  destruct (match_entry (map fst query) (map fst entry)) as [b idx]. simpl in Hc. subst b.
  destruct (fields_eqb entry query); [discriminate|].
  destruct (cast_columns _ _ _); discriminate.
Qed.

(* each delivered column is the declared field's column, cast to the declared kind *)
Lemma cast_all_spec k c c' : cast_all k c = Some c' -> List.length c' = List.length c /\ forall i v, nth_error c i = Some v -> exists v', nth_error c' i = Some v' /\ cast k v = Some v'.
Proof.
  revert c'; induction c as [|v r IH]; intros c' H; simpl in H.
  - injection H as <-. split; [reflexivity|]. intros i v Hi. destruct i; discriminate.
  - destruct (cast k v) as [v'|] eqn:E; [|discriminate]. destruct (cast_all k r) as [r'|]; [|discriminate].
    injection H as <-. destruct (IH r' eq_refl) as [Hl Hc]. split; [simpl; rewrite Hl; reflexivity|].
    intros [|i] w Hi; simpl in Hi; [injection Hi as <-; exists v'; auto|apply Hc; exact Hi].
Qed.

Lemma cast_columns_spec expected actual : forall cols out,
  List.length cols = List.length expected ->
  cast_columns expected actual cols = Some out ->
  forall i n k c, nth_error expected i = Some (n, k) -> nth_error cols i = Some c ->
    exists ak c', kind_named n actual = Some ak /\ nth_error out i = Some c'
      /\ (if kind_eqb k ak then c' = c else cast_all k c = Some c').
Proof.
  induction expected as [|[n0 k0] er IH]; intros cols out Hlen H i n k c He Hc; [destruct i; discriminate|].
  destruct cols as [|c0 cr]; [discriminate|]. simpl in H.
  destruct (kind_named n0 actual) as [ak|] eqn:Ek; [|discriminate].
  destruct (if kind_eqb k0 ak then Some c0 else cast_all k0 c0) as [x|] eqn:Ex; [|discriminate].
  destruct (cast_columns er actual cr) as [y|] eqn:Ey; [|discriminate]. injection H as <-.
  destruct i as [|i]; simpl in He, Hc.
  - injection He as <- <-. injection Hc as <-. exists ak, x. repeat split; auto.
    destruct (kind_eqb k0 ak); [injection Ex as <-; reflexivity|exact Ex].
  - simpl in Hlen. injection Hlen as Hlen. apply (IH cr y Hlen Ey i n k c He Hc).
Qed.
