(* C16 proofs, liveness side: no request is lost - as long as a request is unanswered some agent can move, every step makes
   progress, so every schedule that keeps moving ends with every caller answered (exactly once, with the right outcome). *)
Require Import List Bool ZArith Lia Permutation.
From FV Require Import Model.C16 Proofs.C16.
Import ListNotations.

Section Live.
  Variable reqs : nat -> request.
  Variable inst_of : nat -> option nat.
  Variable F : nat -> Z -> Z.
  Variable workers : nat.
  Hypothesis workers_pos : 0 < workers.

  Notation step := (step reqs inst_of F workers).
  Notation run := (run reqs inst_of F workers).
  Notation expected := (expected reqs inst_of F).
  Notation Inv := (Inv reqs inst_of F).

  (* every waiting request still has its future registered and its token somewhere in the executor *)
  Definition Live (st : state) : Prop :=
    forall r i id, phases st r = Waiting i id ->
      lookup id (pending (execs st i)) = Some r /\ In id (tokens (execs st i)).

  Lemma live_init : Live init.
  Proof. intros r i id H. discriminate H. Qed.

  Lemma step_live st a st' : Inv st -> Live st -> step st a = Some st' -> Live st'.
  Proof.
    intros I L H. destruct a as [x|x|i|i n|i n|x]; cbn [C16.step] in H.
    - destruct (phases st x) eqn:Px; try discriminate H. injection H as <-. intros r j id Hr. cbn [phases execs] in *.
      destruct (Nat.eq_dec r x) as [->|N]; [rewrite upd_same in Hr|rewrite upd_other in Hr by assumption; exact (L r j id Hr)].
      destruct (inst_of (r_app (reqs x))); [destruct (r_badenc (reqs x))|]; discriminate Hr.
    - destruct (phases st x) as [|i0| | |] eqn:Px; try discriminate H. injection H as <-. intros r j id Hr. cbn [phases execs] in *.
      destruct (Nat.eq_dec r x) as [->|N].
      + rewrite upd_same in Hr. injection Hr as <- <-. rewrite upd_same. cbn [pending lookup]. rewrite Nat.eqb_refl. split; [reflexivity|].
        unfold tokens. cbn [tasks]. rewrite map_app. cbn [map fst]. apply in_or_app. left. apply in_or_app. right. left. reflexivity.
      + rewrite upd_other in Hr by assumption. destruct (L r j id Hr) as [Lk Tk].
        destruct (Nat.eq_dec j i0) as [->|Nj]; [|rewrite upd_other by assumption; split; assumption].
        rewrite upd_same. cbn [pending lookup]. pose proof (proj1 (inv_pend _ _ _ st I i0 id r (lookup_In _ _ _ Lk))) as Lt.
        destruct (Nat.eqb id (next (execs st i0))) eqn:E; [apply Nat.eqb_eq in E; lia|]. split; [exact Lk|].
        unfold tokens in *. cbn [tasks inwork results]. rewrite map_app. apply in_app_or in Tk. apply in_or_app.
        destruct Tk as [Tk|Tk]; [left; apply in_or_app; left; exact Tk|right; exact Tk].
    - destruct (tasks (execs st i)) as [|t rest] eqn:T; [discriminate H|]. destruct (Nat.ltb _ _); [|discriminate H]. injection H as <-.
      intros r j id Hr. cbn [phases execs] in *. destruct (L r j id Hr) as [Lk Tk].
      destruct (Nat.eq_dec j i) as [->|Nj]; [|rewrite upd_other by assumption; split; assumption].
      rewrite upd_same. cbn [pending]. split; [exact Lk|]. unfold tokens in *. rewrite T in Tk. cbn [tasks inwork results map fst] in *.
      eapply Permutation_in; [|exact Tk]. cbn [app]. apply Permutation_middle.
    - destruct (nth_error (inwork (execs st i)) n) as [[id0 en0]|] eqn:T; [|discriminate H]. injection H as <-.
      intros r j id Hr. cbn [phases execs] in *. destruct (L r j id Hr) as [Lk Tk].
      destruct (Nat.eq_dec j i) as [->|Nj]; [|rewrite upd_other by assumption; split; assumption].
      rewrite upd_same. cbn [pending]. split; [exact Lk|]. unfold tokens in *. cbn [tasks inwork results] in *.
      apply in_app_or in Tk. apply in_or_app. destruct Tk as [Tk|Tk]; [left; exact Tk|right].
      pose proof (nth_error_perm n _ _ T) as Pm. apply (Permutation_map fst) in Pm. cbn [map fst] in Pm.
      rewrite map_app. cbn [map fst]. apply in_app_or in Tk. destruct Tk as [Tk|Tk].
      + pose proof (Permutation_in _ Pm Tk) as [<-|X]; apply in_or_app; [right; apply in_or_app; right; left; reflexivity|left; exact X].
      + apply in_or_app. right. apply in_or_app. left. exact Tk.
    - destruct (nth_error (results (execs st i)) n) as [[id0 o0]|] eqn:T; [|discriminate H].
      destruct (lookup id0 (pending (execs st i))) as [x|] eqn:Lx; [|discriminate H]. injection H as <-.
      intros r j id Hr. cbn [phases execs] in *.
      destruct (Nat.eq_dec r x) as [->|N]; [rewrite upd_same in Hr; destruct o0; discriminate Hr|rewrite upd_other in Hr by assumption].
      destruct (L r j id Hr) as [Lk Tk].
      destruct (Nat.eq_dec j i) as [->|Nj]; [|rewrite upd_other by assumption; split; assumption].
      rewrite upd_same. cbn [pending].
      assert (Nid : id <> id0) by (intros ->; rewrite Lx in Lk; injection Lk as E; symmetry in E; contradiction).
      split; [rewrite lookup_drop_other; assumption|].
      unfold tokens in *. cbn [tasks inwork results] in *.
      pose proof (nth_error_perm n _ _ T) as Pm. apply (Permutation_map fst) in Pm. cbn [map fst] in Pm.
      apply in_app_or in Tk. apply in_or_app. destruct Tk as [Tk|Tk]; [left; exact Tk|right].
      apply in_app_or in Tk. apply in_or_app. destruct Tk as [Tk|Tk]; [left; exact Tk|right].
      pose proof (Permutation_in _ Pm Tk) as [X|X]; [symmetry in X; contradiction|exact X].
    - destruct (phases st x) eqn:Px; try discriminate H. injection H as <-. intros r j id Hr. cbn [phases execs] in *.
      destruct (Nat.eq_dec r x) as [->|N]; [rewrite upd_same in Hr; discriminate Hr|rewrite upd_other in Hr by assumption; exact (L r j id Hr)].
  Qed.

  Lemma run_live : forall acts st, Inv st -> Live st -> Inv (run st acts) /\ Live (run st acts).
  Proof.
    induction acts as [|a acts IH]; intros st I L; cbn [C16.run]; [split; assumption|].
    destruct (step st a) as [st'|] eqn:E; [|exact (IH st I L)].
    apply IH; [exact (step_inv _ _ _ _ st a st' I E)|exact (step_live st a st' I L E)].
  Qed.

  (* as long as a request is unanswered, some agent has an enabled step on it *)
  Definition acts_for (st : state) (r : nat) : list action :=
    match phases st r with
    | New => [AExtract r]
    | Extracted _ => [ASubmit r]
    | Waiting i _ => [ATake i; AFinish i 0; ADeliver i 0]
    | Computed _ _ => [ARespond r]
    | Done _ => []
    end.

  Lemma never_stuck st r : Inv st -> Live st -> (forall a, phases st r <> Done a) ->
    exists a, In a (acts_for st r) /\ step st a <> None.
  Proof.
    intros I L ND. unfold acts_for. destruct (phases st r) as [|i|i id|i v|a] eqn:P.
    - exists (AExtract r). split; [left; reflexivity|]. cbn [C16.step]. rewrite P. discriminate.
    - exists (ASubmit r). split; [left; reflexivity|]. cbn [C16.step]. rewrite P. discriminate.
    - destruct (L r i id P) as [Lk Tk]. unfold tokens in Tk.
      destruct (inwork (execs st i)) as [|w ws] eqn:W.
      + destruct (tasks (execs st i)) as [|t ts] eqn:T.
        * cbn [map app] in Tk. apply in_map_fst in Tk. destruct Tk as [o Tk].
          exists (ADeliver i 0). split; [right; right; left; reflexivity|]. cbn [C16.step].
          destruct (results (execs st i)) as [|[id1 o1] rest] eqn:R; [destruct Tk|]. cbn [nth_error].
          assert (H1 : In (id1, o1) ((id1, o1) :: rest)) by (left; reflexivity).
          rewrite <- R in H1. destruct (inv_res _ _ _ st I i id1 o1 H1) as [x [Lx _]]. rewrite Lx. discriminate.
        * exists (ATake i). split; [left; reflexivity|]. cbn [C16.step]. rewrite T, W. cbn [List.length].
          destruct (Nat.ltb 0 workers) eqn:E; [discriminate|]. apply Nat.ltb_ge in E. lia.
      + exists (AFinish i 0). split; [right; left; reflexivity|]. cbn [C16.step]. rewrite W. cbn [nth_error]. destruct w. discriminate.
    - exists (ARespond r). split; [left; reflexivity|]. cbn [C16.step]. rewrite P. discriminate.
    - exfalso. exact (ND a eq_refl).
  Qed.

  (* when no agent can move any more, every caller has received exactly its own, right answer *)
  Theorem quiescent_all_answered : forall acts r,
    (forall a, In a (acts_for (run init acts) r) -> step (run init acts) a = None) ->
    answered (run init acts) r = Some (expected r).
  Proof.
    intros acts r Q. destruct (run_live acts init (inv_init _ _ _) live_init) as [I L].
    unfold answered. destruct (phases (run init acts) r) as [| | | |a] eqn:P.
    1-4: exfalso; destruct (never_stuck (run init acts) r I L) as [a [Ha Hs]]; [intros a Ea; rewrite P in Ea; discriminate Ea|exact (Hs (Q a Ha))].
    rewrite (inv_done _ _ _ _ I r a P). reflexivity.
  Qed.

  (* ---- every step makes progress: a measure that strictly decreases ------------------------------------------------ *)
  Variables N NI : nat.                                     (* requests 0..N-1, model instances 0..NI-1 *)
  Definition rank (p : phase) : nat := match p with New => 8 | Extracted _ => 7 | Waiting _ _ => 2 | Computed _ _ => 1 | Done _ => 0 end.
  Definition eweight (e : exec) : nat := 3 * List.length (tasks e) + 2 * List.length (inwork e) + List.length (results e).
  Fixpoint sumto {A : Type} (n : nat) (f : A -> nat) (g : nat -> A) : nat :=
    match n with 0 => 0 | S m => sumto m f g + f (g m) end.
  Definition weight (st : state) : nat := sumto N rank (phases st) + sumto NI eweight (execs st).

  Lemma sumto_outside {A} (f : A -> nat) g k v : forall n, n <= k -> sumto n f (upd g k v) = sumto n f g.
  Proof. induction n as [|j IHj]; intros Hj; [reflexivity|]. cbn [sumto]. rewrite IHj by lia. rewrite upd_other by lia. reflexivity. Qed.

  Lemma sumto_upd {A} (f : A -> nat) n g k v : k < n -> sumto n f (upd g k v) + f (g k) = sumto n f g + f v.
  Proof.
    induction n as [|m IH]; intros H; [lia|]. cbn [sumto]. destruct (Nat.eq_dec k m) as [->|Nk].
    - rewrite upd_same. rewrite (sumto_outside f g m v m (le_n m)). lia.
    - rewrite upd_other by lia. assert (Hk : k < m) by lia. specialize (IH Hk). lia.
  Qed.

  Definition bounded (a : action) : Prop :=
    match a with AExtract r | ASubmit r | ARespond r => r < N | ATake i | AFinish i _ | ADeliver i _ => i < NI end.
  Hypothesis instances_bounded : forall a i, inst_of a = Some i -> i < NI.

  Lemma length_remove_nth {A} n (l : list A) x : nth_error l n = Some x -> S (List.length (remove_nth n l)) = List.length l.
  Proof.
    revert n. induction l as [|y l IH]; intros n H; [destruct n; discriminate H|].
    destruct n; cbn [nth_error remove_nth List.length] in *; [reflexivity|]. rewrite (IH n H). reflexivity.
  Qed.

  Theorem step_decreases st a st' : Inv st -> bounded a -> step st a = Some st' -> weight st' < weight st.
  Proof.
    intros I B H. unfold weight. destruct a as [x|x|i|i n|i n|x]; cbn [C16.step bounded] in *.
    - destruct (phases st x) eqn:P; try discriminate H. injection H as <-. cbn [phases execs].
      pose proof (sumto_upd rank N (phases st) x
        (match inst_of (r_app (reqs x)) with None => Done (Err EUnknownApp) | Some i => if r_badenc (reqs x) then Done (Err EEncoding) else Extracted i end) B) as E.
      rewrite P in E. cbn [rank] in E.
      destruct (inst_of (r_app (reqs x))); [destruct (r_badenc (reqs x))|]; cbn [rank] in E; lia.
    - destruct (phases st x) as [|i0| | |] eqn:P; try discriminate H. injection H as <-. cbn [phases execs].
      pose proof (sumto_upd rank N (phases st) x (Waiting i0 (next (execs st i0))) B) as E. rewrite P in E. cbn [rank] in E.
      assert (Bi : i0 < NI) by (exact (instances_bounded _ _ (proj1 (inv_ext _ _ _ st I x i0 P)))).
      match goal with |- context [upd (execs st) i0 ?e'] => remember e' as e1 eqn:He1; pose proof (sumto_upd eweight NI (execs st) i0 e1 Bi) as E2 end.
      assert (W1 : eweight e1 = eweight (execs st i0) + 3) by (subst e1; unfold eweight; cbn [tasks inwork results]; rewrite app_length; cbn [List.length]; lia).
      lia.
    - destruct (tasks (execs st i)) as [|t rest] eqn:T; [discriminate H|]. destruct (Nat.ltb _ _); [|discriminate H]. injection H as <-.
      cbn [phases execs].
      match goal with |- context [upd (execs st) i ?e'] => remember e' as e1 eqn:He1; pose proof (sumto_upd eweight NI (execs st) i e1 B) as E2 end.
      assert (W1 : eweight e1 + 1 = eweight (execs st i)) by (subst e1; unfold eweight; cbn [tasks inwork results]; rewrite T; cbn [List.length]; lia).
      lia.
    - destruct (nth_error (inwork (execs st i)) n) as [[id0 en0]|] eqn:T; [|discriminate H]. injection H as <-. cbn [phases execs].
      match goal with |- context [upd (execs st) i ?e'] => remember e' as e1 eqn:He1; pose proof (sumto_upd eweight NI (execs st) i e1 B) as E2 end.
      assert (W1 : eweight e1 + 1 = eweight (execs st i)).
      { subst e1. unfold eweight. cbn [tasks inwork results]. rewrite app_length. cbn [List.length]. pose proof (length_remove_nth n _ _ T). lia. }
      lia.
    - destruct (nth_error (results (execs st i)) n) as [[id0 o0]|] eqn:T; [|discriminate H].
      destruct (lookup id0 (pending (execs st i))) as [x|] eqn:Lx; [|discriminate H]. injection H as <-. cbn [phases execs].
      match goal with |- context [upd (execs st) i ?e'] => remember e' as e1 eqn:He1; pose proof (sumto_upd eweight NI (execs st) i e1 B) as E2 end.
      assert (W1 : eweight e1 + 1 = eweight (execs st i)).
      { subst e1. unfold eweight. cbn [tasks inwork results]. pose proof (length_remove_nth n _ _ T). lia. }
      pose proof (proj2 (inv_pend _ _ _ st I i id0 x (lookup_In _ _ _ Lx))) as W.
      destruct (Nat.lt_ge_cases x N) as [Bx|Bx].
      + pose proof (sumto_upd rank N (phases st) x (match o0 with Success v => Computed i v | Failure k => Done (Err k) end) Bx) as E.
        rewrite W in E. cbn [rank] in E. destruct o0; cbn [rank] in E; lia.
      + rewrite (sumto_outside rank (phases st) x _ N Bx). lia.
    - destruct (phases st x) as [| | |i0 v0|] eqn:P; try discriminate H. injection H as <-. cbn [phases execs].
      pose proof (sumto_upd rank N (phases st) x (Done (if r_badaccept (reqs x) then Err EEncoding else Ok i0 v0)) B) as E. rewrite P in E. cbn [rank] in E. lia.
  Qed.

  (* so a schedule of real (bounded, enabled) steps is at most 8 N long: no livelock *)
  Theorem steps_bounded : forall acts st, Inv st -> Forall bounded acts ->
    (fix count (st : state) (acts : list action) : nat :=
       match acts with [] => 0 | a :: r => match step st a with Some st' => S (count st' r) | None => count st r end end) st acts
    <= weight st.
  Proof.
    induction acts as [|a acts IH]; intros st I Bd; [lia|]. inversion Bd as [|? ? Ba Br]; subst.
    destruct (step st a) as [st'|] eqn:E.
    - pose proof (step_decreases st a st' I Ba E). specialize (IH st' (step_inv _ _ _ _ st a st' I E) Br). lia.
    - exact (IH st I Br).
  Qed.
End Live.
