(* C01 - compiler correctness, last layer: a symbol list with the right instruction-level wiring is accepted by the
   validator once keys and object identities are abstracted into positions (canon). Segments without persistent
   groups. *)
Require Import List Bool ZArith Arith Lia.
From FV Require Import Lib.Sym Model.C01 Model.C01Compile Proofs.C01Prim Proofs.C01Blocks Proofs.C01Inv.
Import ListNotations.

(* ---- traverse --------------------------------------------------------------------------------------------- *)
Lemma traverse_ok {A B} (f : A -> option B) : forall l, (forall x, In x l -> exists y, f x = Some y) ->
  exists r, traverse f l = Some r.
Proof.
  induction l as [|x l IH]; intros H; simpl; [eauto|].
  destruct (H x (or_introl eq_refl)) as [y Hy]. rewrite Hy. simpl.
  destruct (IH (fun z Hz => H z (or_intror Hz))) as [r Hr]. rewrite Hr. simpl. eauto.
Qed.

Lemma traverse_nth {A B} (f : A -> option B) : forall l r, traverse f l = Some r ->
  List.length r = List.length l /\ forall q x, nth_error l q = Some x -> exists y, f x = Some y /\ nth_error r q = Some y.
Proof.
  induction l as [|x l IH]; intros r H; simpl in H.
  - injection H as <-. split; [reflexivity|]. intros [|q] x H; discriminate.
  - destruct (f x) as [y|] eqn:Ey; simpl in H; [|discriminate]. destruct (traverse f l) as [ys|] eqn:Et; simpl in H; [|discriminate].
    injection H as <-. destruct (IH ys eq_refl) as [Hl Hn]. split; [simpl; lia|].
    intros [|q] z Hz; simpl in Hz.
    + injection Hz as <-. exists y. auto.
    + exact (Hn q z Hz).
Qed.

Lemma traverse_forall2 {A B} (f : A -> option B) : forall l r, traverse f l = Some r -> Forall2 (fun x y => f x = Some y) l r.
Proof.
  induction l as [|x l IH]; intros r H; simpl in H.
  - injection H as <-. constructor.
  - destruct (f x) as [y|] eqn:Ey; simpl in H; [|discriminate]. destruct (traverse f l) as [ys|] eqn:Et; simpl in H; [|discriminate].
    injection H as <-. constructor; [exact Ey|apply IH; reflexivity].
Qed.

Lemma traverse_app {A B} (f : A -> option B) : forall l1 l2 r, traverse f (l1 ++ l2) = Some r ->
  exists r1 r2, traverse f l1 = Some r1 /\ traverse f l2 = Some r2 /\ r = r1 ++ r2.
Proof.
  induction l1 as [|x l1 IH]; intros l2 r H; simpl in *.
  - exists [], r. auto.
  - destruct (f x) as [y|]; simpl in *; [|discriminate]. destruct (traverse f (l1 ++ l2)) as [ys|] eqn:Et; simpl in H; [|discriminate].
    injection H as <-. destruct (IH l2 ys Et) as [r1 [r2 [E1 [E2 ->]]]]. rewrite E1. simpl. exists (y :: r1), r2. auto.
Qed.

(* ---- positions ---------------------------------------------------------------------------------------------- *)
Definition sid (s : instr * list instr) : nat := iid (fst s).

Lemma position_some : forall (L : list (instr * list instr)) id q, position id L = Some q ->
  exists s, nth_error L q = Some s /\ sid s = id /\ forall q' s', q' < q -> nth_error L q' = Some s' -> sid s' <> id.
Proof.
  induction L as [|[I xs] L IH]; intros id q H; simpl in H; [discriminate|].
  destruct (Nat.eqb (iid I) id) eqn:E.
  - injection H as <-. apply Nat.eqb_eq in E. exists (I, xs). split; [reflexivity|]. split; [exact E|]. intros q' s' Hq. lia.
  - destruct (position id L) as [q0|] eqn:Ep; simpl in H; [|discriminate]. injection H as <-.
    destruct (IH id q0 Ep) as [s [Hs [Hi Hmin]]]. exists s. split; [exact Hs|]. split; [exact Hi|].
    intros [|q'] s' Hq Hn; simpl in Hn.
    + injection Hn as <-. unfold sid. simpl. apply Nat.eqb_neq. exact E.
    + apply (Hmin q' s'); [lia|exact Hn].
Qed.

Lemma position_in : forall (L : list (instr * list instr)) x xs, NoDup (map sid L) -> In (x, xs) L ->
  exists q, position (iid x) L = Some q /\ nth_error L q = Some (x, xs).
Proof.
  induction L as [|[I ys] L IH]; intros x xs Hd Hin; [destruct Hin|]. inversion Hd as [|? ? Hn Hr]; subst. simpl.
  destruct Hin as [E|Hin].
  - injection E as -> ->. rewrite Nat.eqb_refl. exists 0. auto.
  - destruct (Nat.eqb (iid I) (iid x)) eqn:E.
    + apply Nat.eqb_eq in E. exfalso. apply Hn. apply in_map_iff. exists (x, xs). split; [unfold sid; simpl; auto|exact Hin].
    + destruct (IH x xs Hr Hin) as [q [Hp Hq]]. rewrite Hp. simpl. exists (S q). auto.
Qed.

Lemma nodup_nth_sid (L : list (instr * list instr)) q q' s s' : NoDup (map sid L) ->
  nth_error L q = Some s -> nth_error L q' = Some s' -> sid s = sid s' -> q = q'.
Proof.
  intros Hd H1 H2 E. apply (proj1 (NoDup_nth_error (map sid L)) Hd).
  - rewrite map_length. apply nth_error_Some. rewrite H1. discriminate.
  - rewrite (map_nth_error sid q L H1), (map_nth_error sid q' L H2). rewrite E. reflexivity.
Qed.

Lemma find_pos_first (f : sym -> bool) : forall (t : list sym) q s, nth_error t q = Some s -> f s = true ->
  (forall q' s', q' < q -> nth_error t q' = Some s' -> f s' = false) -> find_pos f t = Some q.
Proof.
  induction t as [|y t IH]; intros q s Hn Hf Hmin; [destruct q; discriminate|].
  destruct q as [|q]; simpl in *.
  - injection Hn as ->. rewrite Hf. reflexivity.
  - rewrite (Hmin 0 y ltac:(lia) eq_refl). rewrite (IH q s Hn Hf); [reflexivity|].
    intros q' s' Hq Hn'. apply (Hmin (S q') s'); [lia|exact Hn'].
Qed.

Lemma find_pos_none (f : sym -> bool) : forall (t : list sym), (forall s, In s t -> f s = false) -> find_pos f t = None.
Proof.
  induction t as [|y t IH]; intros H; simpl; [reflexivity|]. rewrite (H y (or_introl eq_refl)).
  rewrite IH; [reflexivity|]. intros s Hs. apply H. right. exact Hs.
Qed.

Section Canon.
Variable a : assets.
Variable nodes : list node.
Hypothesis wf : WF a nodes.
Hypothesis trainer_first : forall i nd k ndk, nth_error nodes i = Some nd -> nth_error nodes k = Some ndk ->
  is_train nd = false -> nstateful nd = true -> is_train ndk = true -> ngid ndk = ngid nd -> k < i.

Notation fop := (fop a nodes).
Notation preset_of := (preset_of a nodes).

Definition isF (L : list (instr * list instr)) (j : nat) (x : instr) : Prop :=
  (exists args, In (x, args) L) /\ exists t p, iop x = OFunctor j t p.

Definition deliv (L : list (instr * list instr)) (x : instr) (jp : nat * nat) : Prop :=
  exists ndj Fj, nth_error nodes (fst jp) = Some ndj /\ isF L (fst jp) Fj
    /\ ((nszout ndj = 1 /\ x = Fj) \/ (nszout ndj <> 1 /\ iop x = OGetter (snd jp) /\ In (x, [Fj]) L)).

Definition state_ok (L : list (instr * list instr)) (i : nat) (nd : node) (x : instr) : Prop :=
  (exists k ndk, nth_error nodes k = Some ndk /\ is_train ndk = true /\ ngid ndk = ngid nd /\ k <> i /\ isF L k x)
  \/ ((forall k ndk, nth_error nodes k = Some ndk -> is_train ndk = true -> ngid ndk = ngid nd -> k = i)
      /\ pers a nd = true /\ iop x = OLoader (ngid nd) /\ In (x, []) L).

Definition dump_ok (L : list (instr * list instr)) (d : instr) (gt : nat * term) : Prop :=
  iop d = ODumper /\ exists k ndk Fk, In (d, [Fk]) L /\ nth_error nodes k = Some ndk /\ is_train ndk = true /\ ngid ndk = fst gt /\ isF L k Fk.

Definition commit_ok (L : list (instr * list instr)) : Prop :=
  match a with
  | None => forall I args, In (I, args) L -> (exists j t p, iop I = OFunctor j t p) \/ (exists p, iop I = OGetter p)
  | Some l =>
      ((forall I args, In (I, args) L -> iop I <> OCommitter)
       /\ forall i nd, nth_error nodes i = Some nd -> is_train nd && persistent a (ngid nd) = false)
      \/ (exists C dargs, In (C, dargs) L /\ iop C = OCommitter
            /\ (forall C' args', In (C', args') L -> iop C' = OCommitter -> C' = C)
            /\ Forall2 (dump_ok L) dargs l)
  end.

Record lfacts (L : list (instr * list instr)) : Prop := {
  l_nodup : NoDup (map sid L);
  l_closed : forall I args x, In (I, args) L -> In x args -> exists xs, In (x, xs) L;
  l_unique : forall j x y, isF L j x -> isF L j y -> x = y;
  l_node : forall i nd, nth_error nodes i = Some nd ->
    exists F sargs iargs, In (F, sargs ++ iargs) L /\ iop F = fop i nd
      /\ (if preset_of i nd then exists x, sargs = [x] /\ state_ok L i nd x else sargs = [])
      /\ Forall2 (deliv L) iargs (ports nd);
  l_commit : commit_ok L
}.

(* ---- the trainer function of the validator ----------------------------------------------------------------- *)
Lemma trainer_some g : forall i k, trainer nodes i g = Some k ->
  k < i /\ exists ndk, nth_error nodes k = Some ndk /\ ngid ndk = g /\ is_train ndk = true.
Proof.
  induction i as [|i IH]; intros k H; simpl in H; [discriminate|].
  destruct (nth_error nodes i) as [n|] eqn:Hn.
  - destruct (Nat.eqb (ngid n) g && is_train n) eqn:E.
    + injection H as <-. apply andb_prop in E. destruct E as [E1 E2]. apply Nat.eqb_eq in E1. split; [lia|]. exists n. auto.
    + destruct (IH k H) as [Hk X]. split; [lia|exact X].
  - destruct (IH k H) as [Hk X]. split; [lia|exact X].
Qed.

Lemma trainer_none g : forall i, trainer nodes i g = None ->
  forall k ndk, k < i -> nth_error nodes k = Some ndk -> ngid ndk = g -> is_train ndk = false.
Proof.
  induction i as [|i IH]; intros H k ndk Hk Hn Hg; [lia|]. simpl in H.
  destruct (nth_error nodes i) as [n|] eqn:Hni.
  - destruct (Nat.eqb (ngid n) g && is_train n) eqn:E; [discriminate|].
    destruct (Nat.eq_dec k i) as [->|Hne].
    + rewrite Hni in Hn. injection Hn as <-. rewrite Hg, Nat.eqb_refl in E. simpl in E. exact E.
    + apply (IH H k ndk); [lia|exact Hn|exact Hg].
  - destruct (Nat.eq_dec k i) as [->|Hne]; [congruence|]. apply (IH H k ndk); [lia|exact Hn|exact Hg].
Qed.

Lemma derived_spec i nd : nth_error nodes i = Some nd ->
  derived nodes i nd = true <->
  nstateful nd = true /\ exists k ndk, k <> i /\ nth_error nodes k = Some ndk /\ ngid ndk = ngid nd /\ is_train ndk = true.
Proof.
  intros Hn. unfold derived. rewrite andb_true_iff, existsb_exists. split.
  - intros [Hs [[k ndk] [Hin H]]]. split; [exact Hs|]. apply combine_seq_in in Hin. destruct Hin as [_ Hk]. rewrite Nat.sub_0_r in Hk.
    simpl in H. apply andb_prop in H. destruct H as [H Ht]. apply andb_prop in H. destruct H as [Hne Hg].
    apply negb_true_iff in Hne. apply Nat.eqb_neq in Hne. apply Nat.eqb_eq in Hg. exists k, ndk. auto.
  - intros [Hs [k [ndk [Hne [Hk [Hg Ht]]]]]]. split; [exact Hs|]. exists (k, ndk). split.
    + apply combine_seq_in. rewrite Nat.sub_0_r. split; [lia|exact Hk].
    + simpl. rewrite Ht, Hg, Nat.eqb_refl. apply Nat.eqb_neq in Hne. rewrite Hne. reflexivity.
Qed.

Lemma trainer_total k ndk : nth_error nodes k = Some ndk -> is_train ndk = true ->
  trainer nodes (List.length nodes) (ngid ndk) = Some k.
Proof.
  intros Hn Ht. assert (Hk : k < List.length nodes) by (apply nth_error_Some; rewrite Hn; discriminate).
  destruct (trainer nodes (List.length nodes) (ngid ndk)) as [k'|] eqn:E.
  - destruct (trainer_some (ngid ndk) _ k' E) as [_ [ndk' [Hn' [Hg Ht']]]].
    f_equal. apply (w_unique a nodes wf k' ndk' k ndk Hn' Hn Ht' Ht Hg).
  - rewrite (trainer_none (ngid ndk) _ E k ndk Hk Hn eq_refl) in Ht. discriminate.
Qed.

Section WithL.
Variable L : list (instr * list instr).
Hypothesis HL : lfacts L.

Definition posL (x : instr) : option nat := position (iid x) L.

Lemma canon_some : exists t, canon L = Some t.
Proof.
  unfold canon. apply traverse_ok. intros [I args] Hin. simpl.
  destruct (traverse_ok (fun x => position (iid x) L) args) as [qs Hqs].
  - intros x Hx. destruct (l_closed L HL I args x Hin Hx) as [xs Hxs].
    destruct (position_in L x xs (l_nodup L HL) Hxs) as [q [Hq _]]. exists q. exact Hq.
  - rewrite Hqs. simpl. eauto.
Qed.

Variable t : list sym.
Hypothesis Ht : canon L = Some t.

Lemma t_nth q I args : nth_error L q = Some (I, args) ->
  exists qs, nth_error t q = Some (iop I, qs) /\ traverse posL args = Some qs.
Proof.
  intros H. destruct (traverse_nth _ L t Ht) as [_ Hn]. destruct (Hn q (I, args) H) as [y [Hy Hq]]. simpl in Hy.
  destruct (traverse (fun x => position (iid x) L) args) as [qs|] eqn:E; simpl in Hy; [|discriminate].
  injection Hy as <-. exists qs. auto.
Qed.

Lemma t_nth_inv q o qs : nth_error t q = Some (o, qs) -> exists I args, nth_error L q = Some (I, args) /\ o = iop I.
Proof.
  intros H. destruct (traverse_nth _ L t Ht) as [Hl _].
  assert (Hq : q < List.length L) by (rewrite <- Hl; apply nth_error_Some; rewrite H; discriminate).
  destruct (nth_error L q) as [[I args]|] eqn:E; [|apply nth_error_None in E; lia].
  destruct (t_nth q I args E) as [qs' [H' _]]. rewrite H in H'. injection H' as -> _. exists I, args. auto.
Qed.

Lemma pos_fun j Fj : isF L j Fj ->
  exists q args qs, posL Fj = Some q /\ pos t j = Some q /\ nth_error L q = Some (Fj, args)
                    /\ nth_error t q = Some (iop Fj, qs) /\ traverse posL args = Some qs.
Proof.
  intros HF. destruct HF as [[args Hin] [tr [pr Ho]]].
  destruct (position_in L Fj args (l_nodup L HL) Hin) as [q [Hq Hn]].
  destruct (t_nth q Fj args Hn) as [qs [Htq Hqs]].
  exists q, args, qs. repeat split; auto.
  unfold pos. apply (find_pos_first _ t q (iop Fj, qs) Htq).
  - simpl. rewrite Ho. apply Nat.eqb_refl.
  - intros q' [o' qs'] Hlt Hn'. simpl. destruct o' as [j' t' p'| | | |]; try reflexivity.
    destruct (Nat.eqb j j') eqn:E; [|reflexivity]. apply Nat.eqb_eq in E. subst j'. exfalso.
    destruct (t_nth_inv q' _ qs' Hn') as [I' [args' [HL' Ho']]].
    assert (HF' : isF L j I') by (split; [exists args'; apply (nth_error_In _ _ HL')|exists t', p'; auto]).
    assert (I' = Fj) by (apply (l_unique L HL j); [exact HF'|split; [exists args; exact Hin|exists tr, pr; exact Ho]]). subst I'.
    destruct (position_some L (iid Fj) q Hq) as [s [_ [_ Hmin]]]. apply (Hmin q' (Fj, args') Hlt HL'). reflexivity.
Qed.

Lemma delivers_ok x jp q ndj : deliv L x jp -> nth_error nodes (fst jp) = Some ndj -> is_train ndj = false -> snd jp < nszout ndj ->
  posL x = Some q -> delivers nodes t q jp = true.
Proof.
  intros [ndj' [Fj [Hn' [HF Hx]]]] Hn Htr Hp Hq. rewrite Hn in Hn'. injection Hn' as <-.
  destruct (pos_fun (fst jp) Fj HF) as [pj [fargs [fqs [Hpj [Hpos [HLj [Htj _]]]]]]].
  unfold delivers. rewrite Hn, Hpos.
  destruct Hx as [[Hone ->]|[Hz [Ho Hin]]].
  - unfold posL in *. rewrite Hpj in Hq. injection Hq as <-. rewrite Htj, Htr, Hone. simpl.
    rewrite Nat.eqb_refl. simpl. apply Nat.eqb_eq. lia.
  - destruct (position_in L x [Fj] (l_nodup L HL) Hin) as [q0 [Hq0 Hn0]]. unfold posL in Hq. rewrite Hq0 in Hq. injection Hq as <-.
    destruct (t_nth q0 x [Fj] Hn0) as [qs [Htq Hqs]]. simpl in Hqs. unfold posL in Hqs, Hpj. rewrite Hpj in Hqs. simpl in Hqs. injection Hqs as <-.
    rewrite Htq, Htr, Ho. simpl.
    destruct (nszout ndj) as [|[|k]] eqn:Ek; [lia|exfalso; apply Hz; reflexivity|].
    rewrite !Nat.eqb_refl. simpl. apply Nat.ltb_lt. exact Hp.
Qed.

Lemma all2_ok j nd : nth_error nodes j = Some nd -> forall iargs ins qs, (forall q ip, nth_error ins q = Some ip -> exists q', nth_error (ports nd) q' = Some ip) ->
  Forall2 (deliv L) iargs ins -> traverse posL iargs = Some qs -> all2 (delivers nodes t) qs ins = true.
Proof.
  intros Hn. induction iargs as [|x iargs IH]; intros ins qs Hsub HF Hq; inversion HF as [|? ip ? ins' Hd HF']; subst; simpl in Hq.
  - injection Hq as <-. reflexivity.
  - destruct (posL x) as [q|] eqn:Ex; simpl in Hq; [|discriminate]. destruct (traverse posL iargs) as [qs'|] eqn:Et; simpl in Hq; [|discriminate].
    injection Hq as <-. simpl.
    destruct (Hsub 0 ip eq_refl) as [q' Hq'].
    destruct (w_ports a nodes wf j nd q' ip Hn Hq') as [_ [ndi [Hni [Hti Hpi]]]].
    rewrite (delivers_ok x ip q ndi Hd Hni Hti Hpi Ex). simpl.
    apply (IH ins' qs'); [intros k ip' Hk; apply (Hsub (S k) ip' Hk)|exact HF'|reflexivity].
Qed.

Lemma loader_ok x g q : In (x, []) L -> iop x = OLoader g -> posL x = Some q -> is_loader t q g = true.
Proof.
  intros Hin Ho Hq. destruct (position_in L x [] (l_nodup L HL) Hin) as [q0 [Hq0 Hn0]]. unfold posL in Hq. rewrite Hq0 in Hq. injection Hq as <-.
  destruct (t_nth q0 x [] Hn0) as [qs [Htq Hqs]]. simpl in Hqs. injection Hqs as <-. unfold is_loader. rewrite Htq, Ho. apply Nat.eqb_refl.
Qed.

Lemma valid_node_ok i nd : nth_error nodes i = Some nd -> valid_node a nodes t i nd = true.
Proof.
  intros Hn. destruct (l_node L HL i nd Hn) as [F [sargs [iargs [Hin [Ho [Hs Hd]]]]]].
  assert (HF : isF L i F) by (split; [eexists; exact Hin|unfold C01Inv.fop in Ho; eauto]).
  destruct (pos_fun i F HF) as [q [args [qs [Hq [Hpos [HLq [Htq Hqs]]]]]]].
  assert (args = sargs ++ iargs).
  { destruct (position_in L F (sargs ++ iargs) (l_nodup L HL) Hin) as [q0 [Hq0 Hn0]]. unfold posL in Hq. rewrite Hq0 in Hq. injection Hq as <-.
    rewrite HLq in Hn0. injection Hn0 as ->. reflexivity. } subst args.
  destruct (traverse_app posL sargs iargs qs Hqs) as [sq [iq [Hsq [Hiq ->]]]].
  assert (Hst : strain nd = is_train nd).
  { unfold strain. destruct (is_train nd) eqn:Et; [rewrite (w_train_stateful a nodes wf i nd Hn Et); reflexivity|apply andb_false_r]. }
  assert (Hlt : forallb (fun jp => Nat.ltb (fst jp) i) (ports nd) = true).
  { apply forallb_forall. intros ip Hip. apply In_nth_error in Hip. destruct Hip as [q' Hq'].
    apply Nat.ltb_lt. exact (proj1 (w_ports a nodes wf i nd q' ip Hn Hq')). }
  assert (Hall : all2 (delivers nodes t) iq (ports nd) = true).
  { apply (all2_ok i nd Hn iargs (ports nd) iq); [intros k ip Hk; exists k; exact Hk|exact Hd|exact Hiq]. }
  (* the state argument, once its kind is known *)
  assert (Hfun : forall k ndk x, sargs = [x] -> nth_error nodes k = Some ndk -> isF L k x -> exists pk, sq = [pk] /\ pos t k = Some pk).
  { intros k ndk x -> Hnk HFk. destruct (pos_fun k x HFk) as [pk [_ [_ [Hpk [Hposk _]]]]].
    simpl in Hsq. unfold posL in Hsq, Hpk. rewrite Hpk in Hsq. simpl in Hsq. injection Hsq as <-. exists pk. auto. }
  assert (Hload : forall x, sargs = [x] -> In (x, []) L -> iop x = OLoader (ngid nd) -> exists pq, sq = [pq] /\ is_loader t pq (ngid nd) = true).
  { intros x -> Hx Hox. destruct (position_in L x [] (l_nodup L HL) Hx) as [pq [Hpq _]].
    simpl in Hsq. unfold posL in Hsq. rewrite Hpq in Hsq. simpl in Hsq. injection Hsq as <-. exists pq. split; [reflexivity|].
    apply (loader_ok x (ngid nd) pq Hx Hox). exact Hpq. }
  unfold valid_node. rewrite Hpos, Htq, Ho. unfold C01Inv.fop. rewrite Hst. rewrite eqb_reflx. simpl.
  unfold ports in Hlt, Hall, Hd.
  destruct (nkind nd) as [inputs|tr lb] eqn:Ek.
  - (* applied *)
    assert (Et : is_train nd = false) by (unfold is_train; rewrite Ek; reflexivity). rewrite Et. rewrite Hlt. simpl.
    destruct (nstateful nd) eqn:Es.
    + destruct (trainer nodes i (ngid nd)) as [k|] eqn:Etr.
      * destruct (trainer_some (ngid nd) i k Etr) as [Hki [ndk [Hnk [Hg Htk]]]].
        assert (Hder : derived nodes i nd = true).
        { apply (derived_spec i nd Hn). split; [exact Es|]. exists k, ndk. repeat split; auto. lia. }
        assert (Hpre : preset_of i nd = true) by (unfold C01Inv.preset_of; rewrite Es, Hder; simpl; apply orb_true_r).
        rewrite Hpre in *. destruct Hs as [x [Hsx Hsok]].
        destruct Hsok as [[k' [ndk' [Hnk' [Htk' [Hg' [Hne HFk]]]]]]|[Hno _]].
        -- assert (k' = k) by (apply (w_unique a nodes wf k' ndk' k ndk Hnk' Hnk Htk' Htk); congruence). subst k'.
           destruct (Hfun k ndk x Hsx Hnk HFk) as [pk [-> Hposk]]. simpl. rewrite Hposk, Nat.eqb_refl. simpl. exact Hall.
        -- exfalso. pose proof (Hno k ndk Hnk Htk Hg). subst k. rewrite Hn in Hnk. injection Hnk as <-. congruence.
      * assert (Hder : derived nodes i nd = false).
        { destruct (derived nodes i nd) eqn:E; [|reflexivity]. apply (derived_spec i nd Hn) in E. destruct E as [_ [k [ndk [Hne [Hnk [Hg Htk]]]]]].
          pose proof (trainer_first i nd k ndk Hn Hnk Et Es Htk Hg) as Hlt'.
          rewrite (trainer_none (ngid nd) i Etr k ndk Hlt' Hnk Hg) in Htk. discriminate. }
        assert (Hpre : preset_of i nd = persistent a (ngid nd)) by (unfold C01Inv.preset_of, C01Inv.pers; rewrite Es, Hder; simpl; apply orb_false_r).
        rewrite Hpre in *. simpl. destruct (persistent a (ngid nd)) eqn:Epa.
        -- destruct Hs as [x [Hsx Hsok]]. destruct Hsok as [[k' [ndk' [Hnk' [Htk' [Hg' [Hne HFk]]]]]]|[_ [_ [Hox Hx]]]].
           ++ exfalso. pose proof (trainer_first i nd k' ndk' Hn Hnk' Et Es Htk' Hg') as Hlt'.
              rewrite (trainer_none (ngid nd) i Etr k' ndk' Hlt' Hnk' Hg') in Htk'. discriminate.
           ++ destruct (Hload x Hsx Hx Hox) as [pq [-> Hpq]]. simpl. rewrite Hpq. simpl. exact Hall.
        -- subst sargs. simpl in Hsq. injection Hsq as <-. simpl. exact Hall.
    + assert (Hpre : preset_of i nd = false) by (unfold C01Inv.preset_of; rewrite Es; reflexivity).
      rewrite Hpre in *. subst sargs. simpl in Hsq. injection Hsq as <-. simpl. exact Hall.
  - (* trained *)
    assert (Et : is_train nd = true) by (unfold is_train; rewrite Ek; reflexivity). rewrite Et.
    pose proof (w_train_stateful a nodes wf i nd Hn Et) as Es. rewrite Es. rewrite Hlt. simpl.
    assert (Hder : derived nodes i nd = false).
    { destruct (derived nodes i nd) eqn:E; [|reflexivity]. apply (derived_spec i nd Hn) in E. destruct E as [_ [k [ndk [Hne [Hnk [Hg Htk]]]]]].
      exfalso. apply Hne. apply (w_unique a nodes wf k ndk i nd Hnk Hn Htk Et Hg). }
    assert (Hpre : preset_of i nd = persistent a (ngid nd)) by (unfold C01Inv.preset_of, C01Inv.pers; rewrite Es, Hder; simpl; apply orb_false_r).
    rewrite Hpre in *. destruct (persistent a (ngid nd)) eqn:Epa.
    + destruct Hs as [x [Hsx Hsok]]. destruct Hsok as [[k' [ndk' [Hnk' [Htk' [Hg' [Hne HFk]]]]]]|[_ [_ [Hox Hx]]]].
      * exfalso. apply Hne. apply (w_unique a nodes wf k' ndk' i nd Hnk' Hn Htk' Et Hg').
      * destruct (Hload x Hsx Hx Hox) as [pq [-> Hpq]]. simpl. rewrite Hpq. simpl. exact Hall.
    + subst sargs. simpl in Hsq. injection Hsq as <-. simpl. exact Hall.
Qed.

Theorem lfacts_validate : validate a nodes t = true.
Proof.
  unfold validate. apply forallb_forall. intros [i nd] Hin. apply combine_seq_in in Hin. destruct Hin as [_ Hn].
  rewrite Nat.sub_0_r in Hn. simpl. exact (valid_node_ok i nd Hn).
Qed.

Lemma t_in s : In s t -> exists I args, In (I, args) L /\ fst s = iop I.
Proof.
  intros Hs. apply In_nth_error in Hs. destruct Hs as [q Hq]. destruct s as [o qs].
  destruct (t_nth_inv q o qs Hq) as [I [args [HLq ->]]]. exists I, args. split; [exact (nth_error_In _ _ HLq)|reflexivity].
Qed.

Lemma dumps_ok : forall dargs (l : list (nat * term)) qs, Forall2 (dump_ok L) dargs l -> traverse posL dargs = Some qs ->
  all2 (fun d gt => match nth_error t d, trainer nodes (List.length nodes) (fst gt) with
                    | Some (ODumper, [f]), Some k => match pos t k with Some pk => Nat.eqb f pk | None => false end
                    | _, _ => false
                    end) qs l = true.
Proof.
  induction dargs as [|d dargs IH]; intros l qs HF Hq; inversion HF as [|? gt ? l' Hd HF']; subst; simpl in Hq.
  - injection Hq as <-. reflexivity.
  - destruct (posL d) as [qd|] eqn:Ed; simpl in Hq; [|discriminate]. destruct (traverse posL dargs) as [qs'|] eqn:Et; simpl in Hq; [|discriminate].
    injection Hq as <-. simpl. rewrite (IH l' qs' HF' eq_refl), andb_true_r.
    destruct Hd as [Hod [k [ndk [Fk [Hin [Hnk [Htk [Hg HFk]]]]]]]].
    destruct (position_in L d [Fk] (l_nodup L HL) Hin) as [q0 [Hq0 Hn0]]. unfold posL in Ed. rewrite Hq0 in Ed. injection Ed as <-.
    destruct (t_nth q0 d [Fk] Hn0) as [qs [Htq Hqs]]. destruct (pos_fun k Fk HFk) as [pk [_ [_ [Hpk [Hposk _]]]]].
    simpl in Hqs. unfold posL in Hqs, Hpk. rewrite Hpk in Hqs. simpl in Hqs. injection Hqs as <-.
    rewrite Htq, Hod. rewrite <- Hg, (trainer_total k ndk Hnk Htk), Hposk. apply Nat.eqb_refl.
Qed.

Theorem lfacts_commit : valid_commit a nodes t = true.
Proof.
  pose proof (l_commit L HL) as Hc. unfold commit_ok in Hc. unfold valid_commit.
  assert (G : forall a0, a = a0 ->
    match a0 with
    | Some l =>
        match find_pos (fun s : sym => match fst s with OCommitter => true | _ => false end) t with
        | Some c =>
            match nth_error t c with
            | Some (_, args) =>
                all2 (fun d gt => match nth_error t d, trainer nodes (List.length nodes) (fst gt) with
                                  | Some (ODumper, [f]), Some k => match pos t k with Some pk => Nat.eqb f pk | None => false end
                                  | _, _ => false
                                  end) args l
            | None => false
            end
        | None => negb (existsb (fun n => is_train n && persistent a0 (ngid n)) nodes)
        end
    | None => negb (existsb (fun s : sym => match fst s with OCommitter | ODumper | OLoader _ => true | _ => false end) t)
    end = true).
  { intros a0 Ea. destruct a0 as [l|].
    - rewrite Ea in Hc. destruct Hc as [[Hno Hnp]|[C [dargs [Hin [Ho [Huniq HF]]]]]].
      + rewrite find_pos_none.
        * apply negb_true_iff. apply not_true_iff_false. intros X. apply existsb_exists in X. destruct X as [nd [Hin X]].
          apply In_nth_error in Hin. destruct Hin as [i Hn]. rewrite (Hnp i nd Hn) in X. discriminate.
        * intros s Hs. destruct (t_in s Hs) as [I [args [Hin E]]]. rewrite E. destruct (iop I) eqn:Eo; try reflexivity. exfalso. exact (Hno I args Hin Eo).
      + destruct (position_in L C dargs (l_nodup L HL) Hin) as [qc [Hqc Hnc]]. destruct (t_nth qc C dargs Hnc) as [qs [Htq Hqs]].
        rewrite (find_pos_first _ t qc (iop C, qs) Htq).
        * rewrite Htq. exact (dumps_ok dargs l qs HF Hqs).
        * simpl. rewrite Ho. reflexivity.
        * intros q' [o' qs'] Hlt Hn'. simpl. destruct o'; try reflexivity. exfalso.
          destruct (t_nth_inv q' _ qs' Hn') as [I' [args' [HL' Ho']]].
          assert (I' = C) by (apply (Huniq I' args' (nth_error_In _ _ HL')); symmetry; exact Ho'). subst I'.
          destruct (position_some L (iid C) qc Hqc) as [s [_ [_ Hmin]]]. apply (Hmin q' (C, args') Hlt HL'). reflexivity.
    - rewrite Ea in Hc. apply negb_true_iff. apply not_true_iff_false. intros X. apply existsb_exists in X. destruct X as [s [Hs X]].
      destruct (t_in s Hs) as [I [args [Hin E]]]. rewrite E in X. destruct (Hc I args Hin) as [[j [tr [pr Eo]]]|[p Eo]]; rewrite Eo in X; discriminate. }
  exact (G a eq_refl).
Qed.

End WithL.
End Canon.
