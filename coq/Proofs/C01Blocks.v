(* C01 - compiler correctness: the index as a list of blocks (one per instruction object, holding its alias keys) and
   itertools.groupby over it; the subscriber lists of Linkage.update. *)
Require Import List Bool ZArith Arith Lia.
From FV Require Import Lib.Sym Model.C01 Model.C01Compile Proofs.C01Prim.
Import ListNotations.

Definition blocks := list (instr * list key).
Definition expand (B : blocks) : list (key * instr) := flat_map (fun b => map (fun k => (k, fst b)) (snd b)) B.
Definition bid (b : instr * list key) : nat := iid (fst b).

Lemma expand_app B1 B2 : expand (B1 ++ B2) = expand B1 ++ expand B2.
Proof. unfold expand. apply flat_map_app. Qed.

Lemma expand_keys B k : In k (map fst (expand B)) <-> exists b, In b B /\ In k (snd b).
Proof.
  unfold expand. rewrite in_map_iff. split.
  - intros [[k' I] [E H]]. simpl in E. subst k'. apply in_flat_map in H. destruct H as [b [Hb H]].
    apply in_map_iff in H. destruct H as [k2 [E H]]. injection E as -> _. exists b. auto.
  - intros [b [Hb H]]. exists (k, fst b). split; [reflexivity|]. apply in_flat_map. exists b. split; [exact Hb|].
    apply in_map_iff. exists k. auto.
Qed.

Lemma expand_in B k I : In (k, I) (expand B) <-> exists ks, In (I, ks) B /\ In k ks.
Proof.
  unfold expand. rewrite in_flat_map. split.
  - intros [[J ks] [Hb H]]. simpl in H. apply in_map_iff in H. destruct H as [k2 [E H]]. injection E as -> ->. exists ks. auto.
  - intros [ks [Hb H]]. exists (I, ks). split; [exact Hb|]. simpl. apply in_map_iff. exists k. auto.
Qed.

(* ---- groupby over the expansion of a block list gives the block list back -------------------------------- *)
Lemma gb_block ks I : forall acc r,
  groupby (map (fun k => (k, I)) ks ++ r) (Some (I, acc)) = groupby r (Some (I, rev ks ++ acc)).
Proof.
  induction ks as [|k ks IH]; intros acc r; simpl; [reflexivity|].
  rewrite Nat.eqb_refl. rewrite IH. rewrite <- app_assoc. reflexivity.
Qed.

Lemma gb_blocks : forall (B : blocks) cur acc,
  ~ In (iid cur) (map bid B) -> NoDup (map bid B) -> (forall b, In b B -> snd b <> []) ->
  groupby (expand B) (Some (cur, acc)) = (cur, rev acc) :: B.
Proof.
  induction B as [|[I ks] B IH]; intros cur acc Hn Hd He; simpl; [reflexivity|].
  destruct ks as [|k ks]; [exfalso; apply (He (I, [])); [left; reflexivity|reflexivity]|].
  simpl. destruct (Nat.eqb (iid I) (iid cur)) eqn:E.
  - apply Nat.eqb_eq in E. exfalso. apply Hn. left. unfold bid. simpl. exact E.
  - f_equal. rewrite gb_block. inversion Hd as [|? ? Hx Hr]; subst.
    rewrite IH; [|exact Hx|exact Hr|intros b Hb; apply He; right; exact Hb].
    rewrite rev_app_distr, rev_involutive. reflexivity.
Qed.

Lemma groupby_expand (B : blocks) :
  NoDup (map bid B) -> (forall b, In b B -> snd b <> []) -> groupby (expand B) None = B.
Proof.
  destruct B as [|[I ks] B]; intros Hd He; [reflexivity|].
  destruct ks as [|k ks]; [exfalso; apply (He (I, [])); [left; reflexivity|reflexivity]|].
  simpl. rewrite gb_block. inversion Hd as [|? ? Hx Hr]; subst.
  rewrite gb_blocks; [|exact Hx|exact Hr|intros b Hb; apply He; right; exact Hb].
  rewrite rev_app_distr, rev_involutive. reflexivity.
Qed.

(* ---- the subscribers of an output port ------------------------------------------------------------------- *)
Definition ports (nd : node) : list (nat * nat) :=
  match nkind nd with KApply ins => ins | KTrain tr lb => [tr; lb] end.

Lemma combine_seq_in {A} (l : list A) : forall s j x, In (j, x) (combine (seq s (List.length l)) l) <-> (s <= j /\ nth_error l (j - s) = Some x).
Proof.
  induction l as [|y l IH]; intros s j x; simpl.
  - split; [intros []|intros [_ H]; destruct (j - s); discriminate].
  - rewrite IH. split.
    + intros [H|[H1 H2]].
      * injection H as E1 E2. subst. split; [lia|]. rewrite Nat.sub_diag. reflexivity.
      * split; [lia|]. replace (j - s) with (S (j - S s)) by lia. exact H2.
    + intros [H1 H2]. destruct (Nat.eq_dec j s) as [E|Hne].
      * subst j. left. rewrite Nat.sub_diag in H2. simpl in H2. injection H2 as E. subst. reflexivity.
      * right. split; [lia|]. replace (j - s) with (S (j - S s)) in H2 by lia. exact H2.
Qed.

Lemma subscribers_spec nodes i p j q :
  In (j, q) (subscribers nodes i p) <-> exists nd, nth_error nodes j = Some nd /\ nth_error (ports nd) q = Some (i, p).
Proof.
  unfold subscribers. rewrite in_flat_map. split.
  - intros [[j' nd] [Hin H]]. apply combine_seq_in in Hin. destruct Hin as [_ Hn]. rewrite Nat.sub_0_r in Hn. simpl in H.
    unfold ports. destruct (nkind nd) as [inputs|tr lb] eqn:Ek.
    + apply in_map_iff in H. destruct H as [[q' [i' p']] [E H]]. simpl in E. injection E as -> ->.
      apply filter_In in H. destruct H as [H Hb]. apply combine_seq_in in H. destruct H as [_ H]. rewrite Nat.sub_0_r in H.
      simpl in Hb. apply andb_prop in Hb. destruct Hb as [E1 E2]. apply Nat.eqb_eq in E1. apply Nat.eqb_eq in E2. subst.
      exists nd. split; [exact Hn|rewrite Ek; exact H].
    + apply in_app_or in H. destruct H as [H|H].
      * destruct (Nat.eqb (fst tr) i && Nat.eqb (snd tr) p) eqn:E; [|destruct H]. destruct H as [H|[]]. injection H as -> <-.
        apply andb_prop in E. destruct E as [E1 E2]. apply Nat.eqb_eq in E1. apply Nat.eqb_eq in E2.
        exists nd. split; [exact Hn|]. rewrite Ek. destruct tr. simpl in *. subst. reflexivity.
      * destruct (Nat.eqb (fst lb) i && Nat.eqb (snd lb) p) eqn:E; [|destruct H]. destruct H as [H|[]]. injection H as -> <-.
        apply andb_prop in E. destruct E as [E1 E2]. apply Nat.eqb_eq in E1. apply Nat.eqb_eq in E2.
        exists nd. split; [exact Hn|]. rewrite Ek. destruct lb. simpl in *. subst. reflexivity.
  - intros [nd [Hn H]]. exists (j, nd). split; [apply combine_seq_in; rewrite Nat.sub_0_r; split; [lia|exact Hn]|].
    simpl. unfold ports in H. destruct (nkind nd) as [inputs|tr lb].
    + apply in_map_iff. exists (q, (i, p)). split; [reflexivity|]. apply filter_In. split.
      * apply combine_seq_in. rewrite Nat.sub_0_r. split; [lia|exact H].
      * simpl. rewrite !Nat.eqb_refl. reflexivity.
    + apply in_or_app. destruct q as [|[|q]]; simpl in H.
      * left. injection H as ->. simpl. rewrite !Nat.eqb_refl. left. reflexivity.
      * right. injection H as ->. simpl. rewrite !Nat.eqb_refl. left. reflexivity.
      * destruct q; discriminate.
Qed.

Lemma NoDup_map_inj {A B} (f : A -> B) l : (forall x y, In x l -> In y l -> f x = f y -> x = y) -> NoDup l -> NoDup (map f l).
Proof.
  induction l as [|x l IH]; intros Hf Hd; simpl; [constructor|]. inversion Hd as [|? ? Hx Hr]; subst. constructor.
  - intros H. apply in_map_iff in H. destruct H as [y [E Hy]]. assert (y = x) by (apply Hf; [right; exact Hy|left; reflexivity|exact E]).
    subst. contradiction.
  - apply IH; [intros a b Ha Hb; apply Hf; right; assumption|exact Hr].
Qed.

Lemma NoDup_app_intro {A} (l1 l2 : list A) :
  NoDup l1 -> NoDup l2 -> (forall z, In z l1 -> In z l2 -> False) -> NoDup (l1 ++ l2).
Proof.
  induction l1 as [|x l1 IH]; intros H1 H2 Hd; simpl; [exact H2|]. inversion H1 as [|? ? Hx Hr]; subst. constructor.
  - intros H. apply in_app_or in H. destruct H as [H|H]; [contradiction|]. apply (Hd x); [left; reflexivity|exact H].
  - apply IH; [exact Hr|exact H2|intros z Hz Hz'; apply (Hd z); [right; exact Hz|exact Hz']].
Qed.

Lemma NoDup_flat_map {A B} (f : A -> list B) l :
  NoDup l -> (forall x, In x l -> NoDup (f x)) -> (forall x y z, In x l -> In y l -> In z (f x) -> In z (f y) -> x = y) ->
  NoDup (flat_map f l).
Proof.
  induction l as [|x l IH]; intros Hd Hn Hdisj; simpl; [constructor|]. inversion Hd as [|? ? Hx Hr]; subst.
  apply NoDup_app_intro.
  - apply Hn. left. reflexivity.
  - apply IH; [exact Hr|intros y Hy; apply Hn; right; exact Hy|intros a b z Ha Hb; apply Hdisj; right; assumption].
  - intros z Hz Hz'. apply in_flat_map in Hz'. destruct Hz' as [y [Hy Hzy]].
    assert (x = y) by (apply (Hdisj x y z); [left; reflexivity|right; exact Hy|exact Hz|exact Hzy]). subst. contradiction.
Qed.
