(* C04 meets C03/C01 on the TRAINING side: the training graph of an expression, evaluated with an accessor holding the states
   of a previous generation, trains every stateful apply-path actor from the state stored at its own position - i.e. it is
   the lifecycle model's train_run prev. *)
Require Import List Bool ZArith Arith Lia.
From FV Require Import Lib.Sym Model.C01 Model.C03 Model.C03Graph Model.C04 Proofs.C04 Proofs.C03GraphEval Proofs.C03GraphPers
                       Proofs.C03GraphCommit Proofs.C03GraphApply Proofs.C04Graph.
Import ListNotations.

Section Acc.
Variable l : list (nat * term).
Definition evl (ns : list node) : env := geval (Some l) ns.
Definition lk (g : nat) : term := look l g.

Lemma evl_snoc ns n : evl (ns ++ [n]) = eval_node (Some l) (evl ns) n.
Proof. apply geval_snoc. Qed.
Lemma evl_len ns : List.length (outputs (evl ns)) = List.length ns.
Proof. apply geval_len. Qed.
Lemma valuel_snoc ns n r : fst r < List.length ns -> value (evl (ns ++ [n])) r = value (evl ns) r.
Proof. apply gvalue_snoc. Qed.
Lemma valuel_app ns more r : fst r < List.length ns -> value (evl (ns ++ more)) r = value (evl ns) r.
Proof.
  intros H. induction more as [|m more IH] using rev_ind; [rewrite app_nil_r; reflexivity|].
  rewrite app_assoc, valuel_snoc; [exact IH|rewrite app_length; lia].
Qed.

Definition fitg (a : actor) (g : nat) (feats labels : term) : term :=
  if astateful a then TState (aname a) (ahp a) (lk g) feats labels else TNone.

Lemma apply_stateless' ns a g input : astateful a = false -> fst input < List.length ns ->
  value (evl (ns ++ [mknode a g (KApply [input])])) (List.length ns, 0) = act a TNone (value (evl ns) input)
  /\ trained (evl (ns ++ [mknode a g (KApply [input])])) = trained (evl ns).
Proof.
  intros Hs Hi. rewrite evl_snoc. unfold eval_node, mknode. simpl. rewrite Hs. simpl. split; [|reflexivity].
  unfold value. simpl. rewrite app_nth2 by (rewrite evl_len; lia). rewrite evl_len, Nat.sub_diag. reflexivity.
Qed.

Lemma group_stateful' ns a g input tf tl : astateful a = true -> fst input < List.length ns ->
  let ns' := ns ++ [mknode a g (KTrain tf tl); mknode a g (KApply [input])] in
  let st := TState (aname a) (ahp a) (lk g) (value (evl ns) tf) (value (evl ns) tl) in
  value (evl ns') (S (List.length ns), 0) = act a st (value (evl ns) input)
  /\ trained (evl ns') = (g, st) :: trained (evl ns).
Proof.
  intros Hs Hi ns' st. unfold ns'. replace (ns ++ [mknode a g (KTrain tf tl); mknode a g (KApply [input])])
    with ((ns ++ [mknode a g (KTrain tf tl)]) ++ [mknode a g (KApply [input])]) by (rewrite <- app_assoc; reflexivity).
  set (n1 := ns ++ [mknode a g (KTrain tf tl)]).
  assert (E1 : evl n1 = Env (outputs (evl ns) ++ [[st]]) ((g, st) :: trained (evl ns))).
  { unfold n1. rewrite evl_snoc. unfold eval_node, mknode. simpl. reflexivity. }
  rewrite evl_snoc. unfold eval_node. simpl. rewrite Hs, E1. simpl. rewrite Nat.eqb_refl. split; [|reflexivity].
  unfold value. simpl. assert (Hl : List.length (outputs (evl ns) ++ [[st]]) = S (List.length ns)) by (rewrite app_length, evl_len; simpl; lia).
  rewrite app_nth2 by lia. rewrite Hl, Nat.sub_diag. simpl.
  rewrite app_nth1 by (rewrite evl_len; exact Hi). reflexivity.
Qed.

Lemma fork_stateful' ns a g input st rest : astateful a = true -> fst input < List.length ns -> trained (evl ns) = (g, st) :: rest ->
  value (evl (ns ++ [mknode a g (KApply [input])])) (List.length ns, 0) = act a st (value (evl ns) input).
Proof.
  intros Hs Hi Ht. rewrite evl_snoc. unfold eval_node, mknode. simpl. rewrite Hs, Ht. simpl. rewrite Nat.eqb_refl.
  unfold value. simpl. rewrite app_nth2 by (rewrite evl_len; lia). rewrite evl_len, Nat.sub_diag. reflexivity.
Qed.

Lemma group_value' ns a g input tf tl : fst input < List.length ns -> fst tf < List.length ns -> fst tl < List.length ns ->
  let '(new, idx) := group_nodes a g (List.length ns) input tf tl in
  value (evl (ns ++ new)) (idx, 0) = act a (fitg a g (value (evl ns) tf) (value (evl ns) tl)) (value (evl ns) input)
  /\ idx < List.length (ns ++ new)
  /\ (astateful a = true -> trained (evl (ns ++ new)) = (g, fitg a g (value (evl ns) tf) (value (evl ns) tl)) :: trained (evl ns)).
Proof.
  intros Hi Hf Hl. unfold group_nodes, fitg. destruct (astateful a) eqn:Hs.
  - destruct (group_stateful' ns a g input tf tl Hs Hi) as [H1 H2]. split; [exact H1|]. split; [rewrite app_length; simpl; lia|intros _; exact H2].
  - destruct (apply_stateless' ns a g input Hs Hi) as [H1 H2]. split; [exact H1|]. split; [rewrite app_length; simpl; lia|discriminate].
Qed.

(* the denotation with the previous states looked up by group id *)
Definition deng_op (o : opspec) (s : flowst) (g0 : nat) : flowst :=
  let g1 := match olabel o with Some _ => S g0 | None => g0 end in
  let g2 := match oapply o with Some _ => S g1 | None => g1 end in
  let y' := match olabel o with Some lb => act lb (fitg lb g0 (xt s) (yl s)) (yl s) | None => yl s end in
  let sa := match oapply o with Some a => fitg a g1 (xt s) y' | None => TNone end in
  let xa' := match oapply o with Some a => act a sa (xa s) | None => xa s end in
  let xt' := match otrain o, oapply o with
             | TSame, Some a => act a sa (xt s)
             | TOwn t, _ => act t (fitg t g2 (xt s) y') (xt s)
             | _, _ => xt s
             end in
  let pers := match oapply o with Some a => if astateful a then [sa] else [] | None => [] end in
  FlowSt xa' xt' y' (persisted s ++ pers).

Fixpoint deng (e : expr) (s : flowst) (gs : gstate) : flowst :=
  match e with
  | EOp o => deng_op o s (gfresh gs)
  | ESeq e1 e2 => deng e2 (deng e1 s gs) (build e1 gs)
  end.

Definition agree' (s : flowst) (gs : gstate) : Prop :=
  let n := List.length (gnodes gs) in
  value (evl (gnodes gs)) (pa gs) = xa s /\ value (evl (gnodes gs)) (pt gs) = xt s /\ value (evl (gnodes gs)) (pl gs) = yl s
  /\ fst (pa gs) < n /\ fst (pt gs) < n /\ fst (pl gs) < n.

Lemma agree_source' a t sl : agree' (source a t sl) (gsource a t sl).
Proof. unfold agree', source, gsource. simpl. repeat split; try lia; reflexivity. Qed.

Theorem build_op_agree' o s gs : agree' s gs -> agree' (deng_op o s (gfresh gs)) (build_op o gs).
Proof.
  intros [Ha [Ht [Hl [La [Lt Ll]]]]]. unfold build_op, deng_op. set (ns := gnodes gs) in *.
  set (G1 := match olabel o with Some _ => S (gfresh gs) | None => gfresh gs end).
  set (G2 := match oapply o with Some _ => S G1 | None => G1 end).
  assert (H1 : exists nl pl1,
    match olabel o with
    | Some lb => let '(ns', idx) := group_nodes lb (gfresh gs) (List.length ns) (pl gs) (pt gs) (pl gs) in (ns', (idx, 0), S (gfresh gs))
    | None => ([], pl gs, gfresh gs)
    end = (nl, pl1, G1)
    /\ value (evl (ns ++ nl)) pl1 = match olabel o with Some lb => act lb (fitg lb (gfresh gs) (xt s) (yl s)) (yl s) | None => yl s end
    /\ fst pl1 < List.length (ns ++ nl)).
  { unfold G1. destruct (olabel o) as [lb|].
    - pose proof (group_value' ns lb (gfresh gs) (pl gs) (pt gs) (pl gs) Ll Lt Ll) as G.
      destruct (group_nodes lb (gfresh gs) (List.length ns) (pl gs) (pt gs) (pl gs)) as [nl idx]. destruct G as [Gv [Gb _]].
      exists nl, (idx, 0). split; [reflexivity|]. rewrite Gv, Ht, Hl. auto.
    - exists [], (pl gs). rewrite app_nil_r. auto. }
  destruct H1 as [nl [pl1 [E1 [V1 L1]]]]. rewrite E1.
  set (n1 := ns ++ nl) in *. set (y' := match olabel o with Some lb => act lb (fitg lb (gfresh gs) (xt s) (yl s)) (yl s) | None => yl s end) in *.
  assert (Lt1 : fst (pt gs) < List.length n1) by (unfold n1; rewrite app_length; lia).
  assert (La1 : fst (pa gs) < List.length n1) by (unfold n1; rewrite app_length; lia).
  assert (Vt1 : value (evl n1) (pt gs) = xt s) by (unfold n1; rewrite valuel_app by exact Lt; exact Ht).
  assert (Va1 : value (evl n1) (pa gs) = xa s) by (unfold n1; rewrite valuel_app by exact La; exact Ha).
  replace (List.length ns + List.length nl) with (List.length n1) by (unfold n1; rewrite app_length; reflexivity).
  assert (H2 : exists na pa2,
    match oapply o with
    | Some a => let '(ns', idx) := group_nodes a G1 (List.length n1) (pa gs) (pt gs) pl1 in (ns', (idx, 0), S G1)
    | None => ([], pa gs, G1)
    end = (na, pa2, G2)
    /\ value (evl (n1 ++ na)) pa2 = match oapply o with Some a => act a (fitg a G1 (xt s) y') (xa s) | None => xa s end
    /\ fst pa2 < List.length (n1 ++ na)
    /\ (forall a, oapply o = Some a -> astateful a = true -> exists rest, trained (evl (n1 ++ na)) = (G1, fitg a G1 (xt s) y') :: rest)).
  { unfold G2. destruct (oapply o) as [a|].
    - pose proof (group_value' n1 a G1 (pa gs) (pt gs) pl1 La1 Lt1 L1) as G.
      destruct (group_nodes a G1 (List.length n1) (pa gs) (pt gs) pl1) as [na idx]. destruct G as [Gv [Gb Gt]].
      exists na, (idx, 0). split; [reflexivity|]. rewrite Gv, Vt1, V1, Va1. split; [reflexivity|]. split; [exact Gb|].
      intros a' E Hs. injection E as <-. rewrite (Gt Hs), Vt1, V1. eauto.
    - exists [], (pa gs). rewrite app_nil_r. split; [reflexivity|]. split; [exact Va1|]. split; [exact La1|]. intros a E. discriminate. }
  destruct H2 as [na [pa2 [E2 [V2 [L2 T2]]]]]. rewrite E2.
  set (n2 := n1 ++ na) in *.
  assert (Lt2 : fst (pt gs) < List.length n2) by (unfold n2; rewrite app_length; lia).
  assert (Ll2 : fst pl1 < List.length n2) by (unfold n2; rewrite app_length; lia).
  assert (Vt2 : value (evl n2) (pt gs) = xt s) by (unfold n2; rewrite valuel_app by exact Lt1; exact Vt1).
  assert (Vl2 : value (evl n2) pl1 = y') by (unfold n2; rewrite valuel_app by exact L1; exact V1).
  replace (List.length n1 + List.length na) with (List.length n2) by (unfold n2; rewrite app_length; reflexivity).
  assert (H3 : exists nt pt3,
    match otrain o, oapply o with
    | TSame, Some a => ([mknode a G1 (KApply [pt gs])], (List.length n2, 0))
    | TOwn t, _ => let '(ns', idx) := group_nodes t G2 (List.length n2) (pt gs) (pt gs) pl1 in (ns', (idx, 0))
    | _, _ => ([], pt gs)
    end = (nt, pt3)
    /\ value (evl (n2 ++ nt)) pt3 = match otrain o, oapply o with
                                   | TSame, Some a => act a (fitg a G1 (xt s) y') (xt s)
                                   | TOwn t, _ => act t (fitg t G2 (xt s) y') (xt s)
                                   | _, _ => xt s
                                   end
    /\ fst pt3 < List.length (n2 ++ nt)).
  { destruct (otrain o) as [| |t].
    - exists [], (pt gs). rewrite app_nil_r. auto.
    - destruct (oapply o) as [a|] eqn:Ea.
      + exists [mknode a G1 (KApply [pt gs])], (List.length n2, 0). split; [reflexivity|]. split; [|rewrite app_length; simpl; lia].
        destruct (astateful a) eqn:Hs.
        * destruct (T2 a eq_refl Hs) as [rest Hr]. rewrite (fork_stateful' n2 a G1 (pt gs) _ rest Hs Lt2 Hr), Vt2. reflexivity.
        * destruct (apply_stateless' n2 a G1 (pt gs) Hs Lt2) as [G _]. rewrite G, Vt2. unfold fitg. rewrite Hs. reflexivity.
      + exists [], (pt gs). rewrite app_nil_r. auto.
    - pose proof (group_value' n2 t G2 (pt gs) (pt gs) pl1 Lt2 Lt2 Ll2) as G.
      destruct (group_nodes t G2 (List.length n2) (pt gs) (pt gs) pl1) as [nt idx]. destruct G as [Gv [Gb _]].
      exists nt, (idx, 0). split; [destruct (oapply o); reflexivity|]. rewrite Gv, Vt2, Vl2. split; [destruct (oapply o); reflexivity|exact Gb]. }
  destruct H3 as [nt [pt3 [E3 [V3 L3]]]]. rewrite E3.
  unfold agree'. simpl. replace (ns ++ nl ++ na ++ nt) with (n2 ++ nt) by (unfold n2, n1; rewrite <- !app_assoc; reflexivity).
  assert (Q2 : value (evl (n2 ++ nt)) pa2 = match oapply o with Some a => act a (fitg a G1 (xt s) y') (xa s) | None => xa s end)
    by (rewrite valuel_app by exact L2; exact V2).
  assert (Q3 : value (evl (n2 ++ nt)) pl1 = y') by (rewrite valuel_app by exact Ll2; exact Vl2).
  assert (Hlen : fst pa2 < List.length (n2 ++ nt) /\ fst pt3 < List.length (n2 ++ nt) /\ fst pl1 < List.length (n2 ++ nt))
    by (rewrite app_length in *; repeat split; lia).
  clear -Q2 V3 Q3 Hlen. destruct (oapply o) as [a0|]; destruct (otrain o) as [| |t0]; simpl in *; tauto.
Qed.

Theorem build_agree' : forall e s gs, agree' s gs -> agree' (deng e s gs) (build e gs).
Proof. induction e as [o|e1 IH1 e2 IH2]; intros s gs H; simpl; [apply build_op_agree'; exact H|apply IH2, IH1; exact H]. Qed.
End Acc.

(* ---- the group-id indexed denotation is the positional one ----------------------------------------------------- *)
Lemma gfresh_mono : forall e gs, gfresh gs <= gfresh (build e gs).
Proof.
  induction e as [o|e1 IH1 e2 IH2]; intros gs; simpl.
  - rewrite gfresh_build_op. destruct (olabel o); destruct (oapply o); simpl; lia.
  - specialize (IH1 gs). specialize (IH2 (build e1 gs)). lia.
Qed.

Lemma pers_range : forall e gs g, In g (pers_gids e gs) -> gfresh gs <= g < gfresh (build e gs).
Proof.
  induction e as [o|e1 IH1 e2 IH2]; intros gs g H; simpl in *.
  - rewrite gfresh_build_op. unfold pers_op in H. destruct (oapply o) as [a|]; [|destruct H].
    destruct (astateful a); [|destruct H]. destruct H as [<-|[]]. destruct (olabel o); simpl; lia.
  - apply in_app_or in H. destruct H as [H|H].
    + specialize (IH1 gs g H). pose proof (gfresh_mono e2 (build e1 gs)). lia.
    + specialize (IH2 (build e1 gs) g H). pose proof (gfresh_mono e1 gs). lia.
Qed.

Lemma train_run_app prev l1 l2 s : train_run prev (l1 ++ l2) s = train_run prev l2 (train_run prev l1 s).
Proof. unfold train_run. apply fold_left_app. Qed.

Lemma look_notin l g : ~ In g (map fst l) -> look l g = TNone.
Proof.
  unfold look. induction l as [|[g' t] l IH]; simpl; intros H; [reflexivity|].
  destruct (Nat.eqb g g') eqn:E; [apply Nat.eqb_eq in E; subst; exfalso; apply H; left; reflexivity|]. apply IH. intros X. apply H. right. exact X.
Qed.

Section Pos.
Variable l : list (nat * term).
Variable prev : list term.

Definition keyed (e : expr) (gs : gstate) (base : nat) : Prop :=
  (forall k g, nth_error (pers_gids e gs) k = Some g -> lk l g = nth (base + k) prev TNone)
  /\ (forall g, gfresh gs <= g < gfresh (build e gs) -> ~ In g (pers_gids e gs) -> lk l g = TNone).

Lemma fitg_prev a g p f lb : lk l g = p \/ astateful a = false -> fitg l a g f lb = fit_prev a p f lb.
Proof. unfold fitg, fit_prev. intros [<-|H]; [reflexivity|rewrite H; reflexivity]. Qed.

Lemma deng_op_pos o s gs : keyed (EOp o) gs (List.length (persisted s)) -> deng_op l o s (gfresh gs) = train_op prev o s.
Proof.
  intros [Ka Kb]. simpl in Ka, Kb. rewrite gfresh_build_op in Kb. unfold pers_op in Ka, Kb.
  unfold deng_op, train_op.
  set (g0 := gfresh gs) in *. set (g1 := match olabel o with Some _ => S g0 | None => g0 end) in *.
  set (g2 := match oapply o with Some _ => S g1 | None => g1 end) in *.
  assert (Ey : match olabel o with Some lb => act lb (fitg l lb g0 (xt s) (yl s)) (yl s) | None => yl s end
             = match olabel o with Some lb => act lb (fit_prev lb TNone (xt s) (yl s)) (yl s) | None => yl s end).
  { destruct (olabel o) as [lb|] eqn:El; [|reflexivity]. f_equal. apply fitg_prev. left. apply Kb.
    - unfold g1. destruct (oapply o); simpl; lia.
    - unfold g1. destruct (oapply o) as [a|]; [destruct (astateful a)|]; simpl; intros X; try destruct X as [X|[]]; try contradiction; lia. }
  rewrite Ey. set (y' := match olabel o with Some lb => act lb (fit_prev lb TNone (xt s) (yl s)) (yl s) | None => yl s end).
  assert (Es : match oapply o with Some a => fitg l a g1 (xt s) y' | None => TNone end
             = match oapply o with Some a => fit_prev a (nth (List.length (persisted s)) prev TNone) (xt s) y' | None => TNone end).
  { destruct (oapply o) as [a|] eqn:Ea; [|reflexivity]. apply fitg_prev. destruct (astateful a) eqn:Hs; [left|right; reflexivity].
    rewrite <- (Nat.add_0_r (List.length (persisted s))). apply Ka. reflexivity. }
  rewrite Es.
  assert (Eo : forall t, otrain o = TOwn t -> fitg l t g2 (xt s) y' = fit_prev t TNone (xt s) y').
  { intros t Et. apply fitg_prev. left. apply Kb.
    - unfold g2, g1. destruct (olabel o); destruct (oapply o); simpl; lia.
    - unfold g2. destruct (oapply o) as [a|]; [destruct (astateful a)|]; simpl; intros X; try destruct X as [X|[]]; try contradiction; lia. }
  destruct (otrain o) as [| |t] eqn:Et; try reflexivity. rewrite (Eo t eq_refl). reflexivity.
Qed.

Lemma deng_len : forall e s gs, List.length (persisted (deng l e s gs)) = List.length (persisted s) + List.length (pers_gids e gs).
Proof.
  induction e as [o|e1 IH1 e2 IH2]; intros s gs; simpl.
  - unfold deng_op, pers_op. simpl. rewrite app_length. destruct (oapply o) as [a|]; [destruct (astateful a)|]; reflexivity.
  - rewrite IH2, IH1, app_length. lia.
Qed.

Theorem deng_pos : forall e s gs, keyed e gs (List.length (persisted s)) -> deng l e s gs = train_run prev (flatten e) s.
Proof.
  induction e as [o|e1 IH1 e2 IH2]; intros s gs K.
  - simpl. apply deng_op_pos. exact K.
  - simpl flatten. rewrite train_run_app. simpl deng. destruct K as [Ka Kb]. simpl in Ka, Kb.
    assert (K1 : keyed e1 gs (List.length (persisted s))).
    { split.
      - intros k g Hk. apply Ka. rewrite nth_error_app1; [exact Hk|]. apply nth_error_Some. rewrite Hk. discriminate.
      - intros g Hr Hn. apply Kb; [pose proof (gfresh_mono e2 (build e1 gs)); lia|]. intros X. apply in_app_or in X. destruct X as [X|X]; [exact (Hn X)|].
        pose proof (pers_range e2 (build e1 gs) g X). lia. }
    rewrite <- (IH1 s gs K1). apply IH2. split.
    + intros k g Hk. rewrite deng_len, <- Nat.add_assoc. apply Ka. rewrite nth_error_app2 by lia.
      replace (List.length (pers_gids e1 gs) + k - List.length (pers_gids e1 gs)) with k by lia. exact Hk.
    + intros g Hr Hn. apply Kb; [pose proof (gfresh_mono e1 gs); lia|]. intros X. apply in_app_or in X. destruct X as [X|X]; [|exact (Hn X)].
      pose proof (pers_range e1 gs g X). lia.
Qed.
End Pos.

(* the training graph evaluated with the accessor that holds a previous generation, bound to the persistent groups by
   position, delivers at its three tails what the lifecycle model's training run continuing from that generation denotes *)
Theorem train_graph_generation e a t sl prev :
  let gs := build e (gsource a t sl) in
  let ev := geval (Some (combine (pers_gids e (gsource a t sl)) prev)) (gnodes gs) in
  let run := train_run prev (flatten e) (source a t sl) in
  value ev (pa gs) = xa run /\ value ev (pt gs) = xt run /\ value ev (pl gs) = yl run.
Proof.
  intros gs ev run. set (l := combine (pers_gids e (gsource a t sl)) prev).
  assert (Hnd : NoDup (pers_gids e (gsource a t sl))).
  { apply (pers_nodup e (source a t sl) (gsource a t sl) [] (agree_source a t sl)); [split; [reflexivity|intros g0 []]|constructor]. }
  assert (K : keyed l prev e (gsource a t sl) (List.length (persisted (source a t sl)))).
  { split.
    - intros k g Hk. simpl. unfold lk, l. apply look_combine; assumption.
    - intros g _ Hn. unfold lk, l. apply look_notin. intros X. apply Hn. apply in_map_iff in X. destruct X as [[g' t'] [E X]]. simpl in E. subst g'.
      exact (in_combine_l _ _ _ _ X). }
  destruct (build_agree' l e _ _ (agree_source' l a t sl)) as [H1 [H2 [H3 _]]].
  rewrite (deng_pos l prev e _ _ K) in H1, H2, H3. auto.
Qed.
