(* C01 - Traversal.each never hands a node to the compiler twice. *)
Require Import List Bool ZArith Arith Lia.
From FV Require Import Lib.Sym Model.C01 Model.C01Compile Proofs.C01Blocks Proofs.C01Main.
From FV Require Import Model.C01Each.
Import ListNotations.

Lemma existsb_eqb_in k l : existsb (Nat.eqb k) l = true <-> In k l.
Proof.
  rewrite existsb_exists. split.
  - intros [x [Hx E]]. apply Nat.eqb_eq in E. subst. exact Hx.
  - intros H. exists k. split; [exact H|apply Nat.eqb_refl].
Qed.

Lemma traverse_nodup nodes conn tail : forall fuel pivot acc, NoDup acc -> ~ In pivot acc ->
  NoDup (traverse_each fuel nodes conn tail pivot acc) /\ incl acc (traverse_each fuel nodes conn tail pivot acc).
Proof.
  induction fuel as [|f IH]; intros pivot acc Hd Hp; simpl; [split; [exact Hd|intros x Hx; exact Hx]|].
  assert (H0 : NoDup (acc ++ [pivot]) /\ incl acc (acc ++ [pivot])).
  { split; [|intros x Hx; apply in_or_app; left; exact Hx]. apply NoDup_app_intro; [exact Hd|constructor; [intros []|constructor]|].
    intros z Hz [<-|[]]. exact (Hp Hz). }
  revert H0. generalize (acc ++ [pivot]). induction (subs nodes conn pivot) as [|k ks IHk]; intros acc' [Hd' Hi']; simpl; [auto|].
  destruct (existsb (Nat.eqb k) acc') eqn:E; [apply IHk; auto|].
  destruct (Nat.eqb pivot tail && negb (trained_node nodes k)); [apply IHk; auto|].
  assert (Hk : ~ In k acc') by (intros X; apply existsb_eqb_in in X; congruence).
  destruct (IH k acc' Hd' Hk) as [G1 G2]. apply IHk. split; [exact G1|]. intros x Hx. apply G2, Hi'. exact Hx.
Qed.

Theorem each_nodup nodes conn tail : NoDup (each nodes conn tail).
Proof. unfold each. apply (traverse_nodup nodes conn tail). constructor. intros []. Qed.

(* every visited node other than the head was reached as a subscriber: it is a node of the list *)
Lemma subs_port_range nodes conn i p k : In k (subs_port nodes conn i p) -> k < List.length nodes.
Proof.
  unfold subs_port. intros H. apply in_flat_map in H. destruct H as [k' [_ H]].
  destruct (nth_error nodes k') as [nd|] eqn:E; [|destruct H].
  assert (Hk : k' < List.length nodes) by (apply nth_error_Some; rewrite E; discriminate).
  destruct (nkind nd) as [ins|tr lb].
  - apply in_map_iff in H. destruct H as [_ [<- _]]. exact Hk.
  - apply in_app_or in H. destruct H as [H|H].
    + destruct (Nat.eqb (fst tr) i && Nat.eqb (snd tr) p); [destruct H as [<-|[]]; exact Hk|destruct H].
    + destruct (Nat.eqb (fst lb) i && Nat.eqb (snd lb) p); [destruct H as [<-|[]]; exact Hk|destruct H].
Qed.

Lemma subs_range nodes conn i k : In k (subs nodes conn i) -> k < List.length nodes.
Proof.
  unfold subs. destruct (nth_error nodes i); [|intros []]. intros H. apply in_flat_map in H. destruct H as [p [_ H]].
  exact (subs_port_range nodes conn i p k H).
Qed.

Lemma traverse_range nodes conn tail : forall fuel pivot acc, pivot < List.length nodes -> (forall x, In x acc -> x < List.length nodes) ->
  forall x, In x (traverse_each fuel nodes conn tail pivot acc) -> x < List.length nodes.
Proof.
  induction fuel as [|f IH]; intros pivot acc Hp Ha; simpl; [exact Ha|].
  assert (H0 : forall x, In x (acc ++ [pivot]) -> x < List.length nodes).
  { intros x Hx. apply in_app_or in Hx. destruct Hx as [Hx|[<-|[]]]; [exact (Ha x Hx)|exact Hp]. }
  revert H0. generalize (acc ++ [pivot]).
  assert (Hs : forall k, In k (subs nodes conn pivot) -> k < List.length nodes) by (intros k; apply subs_range).
  revert Hs. induction (subs nodes conn pivot) as [|k ks IHk]; intros Hs acc' Ha'; simpl; [exact Ha'|].
  assert (Hs' : forall k0, In k0 ks -> k0 < List.length nodes) by (intros k0 H0; apply Hs; right; exact H0).
  destruct (existsb (Nat.eqb k) acc'); [apply IHk; auto|].
  destruct (Nat.eqb pivot tail && negb (trained_node nodes k)); [apply IHk; auto|].
  apply IHk; [exact Hs'|]. apply IH; [apply Hs; left; reflexivity|exact Ha'].
Qed.

Theorem each_range nodes conn tail : nodes <> [] -> forall x, In x (each nodes conn tail) -> x < List.length nodes.
Proof.
  intros Hne. unfold each. apply traverse_range; [destruct nodes; [contradiction|simpl; lia]|intros x []].
Qed.

Lemma nodupb_complete l : NoDup l -> nodupb l = true.
Proof.
  induction l as [|x l IH]; intros H; [reflexivity|]. inversion H as [|? ? Hn Hr]; subst. simpl. rewrite (IH Hr), andb_true_r.
  apply negb_true_iff. apply not_true_iff_false. intros X. apply existsb_eqb_in in X. contradiction.
Qed.

(* a well-formed graph all of whose nodes the traversal reaches compiles correctly in the traversal's own order *)
Theorem compile_traversal a nodes conn tail : wf_graph a nodes = true ->
  List.length (each nodes conn tail) = List.length nodes -> compile_ok a nodes (each nodes conn tail) = true.
Proof.
  intros Hw Hl. apply compile_correct. unfold wfb. unfold wf_graph in Hw. rewrite Hw. simpl.
  rewrite (nodupb_complete _ (each_nodup nodes conn tail)). simpl. rewrite Hl, Nat.eqb_refl, andb_true_r.
  apply forallb_forall. intros x Hx. apply Nat.ltb_lt. apply (each_range nodes conn tail); [|exact Hx].
  intros E. subst nodes. unfold each in Hx. simpl in Hx. destruct Hx as [<-|[]]. simpl in Hl. discriminate.
Qed.
