(* the graph-level correspondence check asks nothing the denotation-level one does not: whenever the observations agree with
   `den`, the executable graph models agree with them too (so the extra check can only fail if the theorems' premises do) *)
Require Import List Bool ZArith Arith Lia.
From FV Require Import Lib.Sym Model.C01 Model.C03 Model.C03Graph Proofs.C03GraphEval Proofs.C03GraphPers Proofs.C03GraphCommit Proofs.C03GraphApply.
From FV Require Import Proofs.SymEq.
Import ListNotations.

Theorem graph_check_implied c : C03.check_case c = true -> check_case_graph c = true.
Proof.
  intros H. unfold check_case_graph. rewrite H. simpl. destruct c as [a t sl e tr ap sts]. simpl in H.
  apply andb_prop in H. destruct H as [H H3]. apply andb_prop in H. destruct H as [H1 H2].
  apply term_eqb_sound in H1. apply term_eqb_sound in H2. apply terms_eqb_sound in H3. subst tr ap sts.
  destruct (pipeline_graph e a t sl) as [Va [Vt _]]. cbv zeta in Va, Vt. rewrite Va, Vt, !term_eqb_refl. simpl.
  pose proof (pipeline_persisted e a t sl) as HP. unfold state_of, ev in HP. rewrite HP, terms_eqb_refl. simpl.
  pose proof (apply_reloads e a t sl) as R. cbv zeta in R. rewrite R. apply term_eqb_refl.
Qed.
