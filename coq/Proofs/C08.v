(* C08 - the equality ALGORITHM of forml/io/dsl/_struct/series.py `identical` (same class, equal hashes, element-wise
   equal content - the elements compared by the same algorithm) over an ARBITRARY hash function. *)
Require Import List Bool ZArith.
From FV Require Import Lib.Tree.
Import ListNotations.

Section Alg.
Variable h : tree -> Z.          (* whatever hash() returns for an object of this structure *)

Fixpoint impl_eq (a b : tree) {struct a} : bool :=
  match a, b with
  | T x l, T y m =>
      Z.eqb x y && Z.eqb (h a) (h b)
      && (fix go (p q : list tree) : bool :=
            match p, q with
            | [], [] => true
            | s :: p', t :: q' => impl_eq s t && go p' q'
            | _, _ => false
            end) l m
  end.

Fixpoint impl_forest (p q : list tree) : bool :=
  match p, q with
  | [], [] => true
  | s :: p', t :: q' => impl_eq s t && impl_forest p' q'
  | _, _ => false
  end.

Lemma impl_eq_unfold x l y m : impl_eq (T x l) (T y m) = Z.eqb x y && Z.eqb (h (T x l)) (h (T y m)) && impl_forest l m.
Proof.
  change (impl_eq (T x l) (T y m)) with
    (Z.eqb x y && Z.eqb (h (T x l)) (h (T y m))
     && (fix go (p q : list tree) : bool :=
           match p, q with
           | [], [] => true
           | s :: p', t :: q' => impl_eq s t && go p' q'
           | _, _ => false
           end) l m).
  apply f_equal. revert m. induction l as [|s l IH]; intros [|t m]; reflexivity.
Qed.

Lemma impl_eq_spec : forall a b, impl_eq a b = true <-> a = b.
Proof.
  induction a as [x l IH] using tree_ind'. intros [y m]. rewrite impl_eq_unfold.
  assert (impl_forest l m = true <-> l = m) as Hf.
  { revert m. induction IH as [|s l Hs Hl IHl]; intros [|t m]; simpl; split; intros H; try discriminate; try reflexivity.
    - apply andb_true_iff in H. destruct H as [H1 H2]. apply Hs in H1. apply IHl in H2. subst. reflexivity.
    - injection H as -> ->. apply andb_true_iff. split; [apply Hs; reflexivity|apply IHl; reflexivity]. }
  split.
  - intros H. apply andb_true_iff in H. destruct H as [H H3]. apply andb_true_iff in H. destruct H as [H1 _].
    apply Z.eqb_eq in H1. apply Hf in H3. subst. reflexivity.
  - intros E. injection E as -> ->. rewrite !Z.eqb_refl. simpl. apply Hf. reflexivity.
Qed.
End Alg.

(* equality by hash alone (the code before the structural-equality fix) confuses objects as soon as two leaf values
   collide - Python's hash(-1) = hash(-2) = -2 *)
Definition pyhash_leaf (t : tree) : Z := match t with T x _ => if Z.eqb x (-1) then (-2)%Z else x end.
Lemma hash_only_refuted : exists a b, a <> b /\ Z.eqb (pyhash_leaf a) (pyhash_leaf b) = true.
Proof. exists (T (-1) []), (T (-2) []). split; [discriminate|reflexivity]. Qed.
