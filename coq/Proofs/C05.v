(* C05 - crash consistency and history facts of the release-directory machine. *)
Require Import List Bool ZArith Lia.
From FV Require Import Model.C05.
Import ListNotations.

Definition unlisted (g : nat) (r : reldir) : Prop :=
  match gen_get g (gens r) with Some gd => tag gd = None | None => True end.

Definition listing (l : list (nat * gendir)) : list (nat * (bytes * list (nat * bytes))) :=
  flat_map (fun gd => match tag (snd gd) with Some t => [(fst gd, (t, gstates (snd gd)))] | None => [] end) l.

Lemma listing_set_unlisted g p s l :
  (match gen_get g l with Some gd => tag gd = None | None => True end) ->
  listing (gen_set g (GenDir None p s) l) = listing l.
Proof.
  induction l as [|[g' d] r IH]; simpl; intros H; [reflexivity|].
  destruct (Nat.eqb g g') eqn:E.
  - simpl. rewrite H. reflexivity.
  - simpl. rewrite (IH H). reflexivity.
Qed.

Lemma gen_get_set g d l h : gen_get h (gen_set g d l) = if Nat.eqb h g then Some d else gen_get h l.
Proof.
  induction l as [|[g' d'] r IH]; simpl.
  - destruct (Nat.eqb h g); reflexivity.
  - destruct (Nat.eqb g g') eqn:E; simpl.
    + apply Nat.eqb_eq in E. subst. destruct (Nat.eqb h g'); reflexivity.
    + destruct (Nat.eqb h g') eqn:E2; [|exact IH].
      apply Nat.eqb_eq in E2. subst. rewrite Nat.eqb_sym, E. reflexivity.
Qed.

(* the primitives of a commit before the publishing rename, and all package-side writes, are invisible to a reader *)
Definition quiet (g : nat) (p : prim) : Prop :=
  match p with
  | PStage _ _ | PWritePkgPart _ => True
  | PMkGen h | PWriteTagPart h _ => h = g
  | PMoveState _ h => h = g
  | PPublishTag _ | PPublishPkg => False
  end.

Lemma exec_quiet g p r : quiet g p -> unlisted g r -> view (exec r p) = view r /\ unlisted g (exec r p).
Proof.
  unfold view, listed, unlisted. fold listing. destruct p as [s d|h|s h|h d|h|d|]; simpl; intros Hq Hu; try contradiction.
  - split; [reflexivity|exact Hu].
  - subst h. destruct (gen_get g (gens r)) as [gd|] eqn:E; simpl; [rewrite E; split; [reflexivity|exact Hu]|].
    split.
    + f_equal. change (flat_map _ (gen_set g empty_gen (gens r))) with (listing (gen_set g (GenDir None None []) (gens r))).
      rewrite listing_set_unlisted; [reflexivity|rewrite E; exact I].
    + rewrite gen_get_set, Nat.eqb_refl. reflexivity.
  - subst h. destruct (sid_get s (stage r)) as [d|]; [|split; [reflexivity|exact Hu]].
    destruct (gen_get g (gens r)) as [gd|] eqn:E; simpl; [|rewrite E; split; [reflexivity|exact I]].
    rewrite Hu. split.
    + f_equal. change (flat_map _ (gen_set g ?x (gens r))) with (listing (gen_set g (GenDir None (tag_part gd) ((s, d) :: sid_del s (gstates gd))) (gens r))).
      rewrite listing_set_unlisted; [reflexivity|rewrite E; exact Hu].
    + rewrite gen_get_set, Nat.eqb_refl. reflexivity.
  - subst h. destruct (gen_get g (gens r)) as [gd|] eqn:E; simpl; [|rewrite E; split; [reflexivity|exact I]].
    rewrite Hu. split.
    + f_equal. change (flat_map _ (gen_set g ?x (gens r))) with (listing (gen_set g (GenDir None (Some d) (gstates gd)) (gens r))).
      rewrite listing_set_unlisted; [reflexivity|rewrite E; exact Hu].
    + rewrite gen_get_set, Nat.eqb_refl. reflexivity.
  - split; [reflexivity|exact Hu].
Qed.

Lemma run_quiet g ps : forall r, Forall (quiet g) ps -> unlisted g r -> view (run r ps) = view r /\ unlisted g (run r ps).
Proof.
  induction ps as [|p ps IH]; intros r Hq Hu; [split; [reflexivity|exact Hu]|].
  inversion Hq; subst. destruct (exec_quiet g p r H1 Hu) as [Hv Hu']. destruct (IH (exec r p) H2 Hu') as [Hv2 Hu2].
  simpl. split; [rewrite Hv2; exact Hv|exact Hu2].
Qed.

Lemma firstn_incl {A} n (l : list A) x : In x (firstn n l) -> In x l.
Proof. revert l; induction n as [|n IH]; intros [|y l] H; simpl in *; try contradiction. destruct H as [->|H]; auto. Qed.

Lemma truncate_quiet g p k : quiet g p -> quiet g (truncate p k).
Proof. destruct p; simpl; auto. Qed.

Lemma close_prims_shape g sids tb :
  exists body, close_prims g sids tb = body ++ [PPublishTag g] /\ Forall (quiet g) body.
Proof.
  exists (PMkGen g :: map (fun s => PMoveState s g) sids ++ [PWriteTagPart g tb]). split.
  - unfold close_prims. simpl. rewrite <- app_assoc. reflexivity.
  - constructor; [reflexivity|]. apply Forall_app. split; [|repeat constructor].
    apply Forall_forall. intros p Hp. apply in_map_iff in Hp. destruct Hp as [s [<- _]]. reflexivity.
Qed.

(* crash consistency of a commit: whenever the process dies, a fresh reader sees the previous content or the complete new
   generation - never a listed generation with missing or partial metadata or states *)
Lemma commit_crash_consistent r g sids tb n k :
  unlisted g r ->
  view (crashed r (close_prims g sids tb) n k) = view r
  \/ view (crashed r (close_prims g sids tb) n k) = view (run r (close_prims g sids tb)).
Proof.
  intros Hu. destruct (close_prims_shape g sids tb) as [body [Hps Hq]]. rewrite Hps. unfold crashed.
  destruct (Nat.lt_ge_cases n (List.length body)) as [Hlt|Hge].
  - (* died before the publishing rename *)
    left. rewrite firstn_app. replace (n - List.length body) with 0 by lia. simpl. rewrite app_nil_r.
    assert (Forall (quiet g) (firstn n body)) as Hf.
    { apply Forall_forall. intros p Hp. rewrite Forall_forall in Hq. apply Hq. eapply firstn_incl. exact Hp. }
    destruct (run_quiet g (firstn n body) r Hf Hu) as [Hv Hu'].
    rewrite nth_error_app1 by exact Hlt. destruct (nth_error body n) as [p|] eqn:Ep; [|exact Hv].
    assert (quiet g p) as Hqp by (rewrite Forall_forall in Hq; apply Hq; eapply nth_error_In; exact Ep).
    destruct p; try exact Hv;
      (match goal with |- view (exec _ (truncate ?q k)) = _ =>
         destruct (exec_quiet g (truncate q k) _ (truncate_quiet g q k Hqp) Hu') as [Hx _]; rewrite Hx; exact Hv end).
  - destruct (Nat.eq_dec n (List.length body)) as [->|Hne].
    + (* died right before the rename: nothing visible yet *)
      left. rewrite firstn_app, Nat.sub_diag, firstn_all. simpl. rewrite app_nil_r.
      destruct (run_quiet g body r Hq Hu) as [Hv _]. rewrite nth_error_app2, Nat.sub_diag by lia. simpl. exact Hv.
    + (* the rename happened: the complete new view *)
      right. assert (firstn n (body ++ [PPublishTag g]) = body ++ [PPublishTag g]) as ->.
      { apply firstn_all2. rewrite app_length. simpl. lia. }
      assert (nth_error (body ++ [PPublishTag g]) n = None) as ->; [|reflexivity].
      apply nth_error_None. rewrite app_length. simpl. lia.
Qed.

(* the same for publishing a release package *)
Lemma push_crash_consistent r pb n k :
  view (crashed r (push_prims pb) n k) = view r \/ view (crashed r (push_prims pb) n k) = view (run r (push_prims pb)).
Proof.
  unfold crashed, push_prims. destruct n as [|[|n]]; simpl.
  - left. reflexivity.
  - left. reflexivity.
  - right. destruct n; reflexivity.
Qed.

(* a completed commit lists exactly one more generation, with the committed tag bytes; every other generation, its tag
   and its states stay as they were *)
Lemma listing_set_other g d l h : h <> g -> gen_get h (gen_set g d l) = gen_get h l.
Proof. intros H. rewrite gen_get_set. apply Nat.eqb_neq in H. rewrite H. reflexivity. Qed.

Lemma exec_other_generation g p r h : quiet g p \/ p = PPublishTag g -> h <> g -> gen_get h (gens (exec r p)) = gen_get h (gens r).
Proof.
  intros Hq Hne. destruct p as [s d|x|s x|x d|x|d|]; simpl in *; try reflexivity;
    try (destruct Hq as [Hq|Hq]; [|discriminate]; subst x).
  - destruct (gen_get g (gens r)); [reflexivity|]. simpl. apply listing_set_other. exact Hne.
  - destruct (sid_get s (stage r)); [|reflexivity]. destruct (gen_get g (gens r)); [|reflexivity]. simpl. apply listing_set_other. exact Hne.
  - destruct (gen_get g (gens r)); [|reflexivity]. simpl. apply listing_set_other. exact Hne.
  - destruct Hq as [Hq|Hq]; [contradiction|]. injection Hq as ->.
    destruct (gen_get g (gens r)) as [[t [d|] sts]|]; try reflexivity. simpl. apply listing_set_other. exact Hne.
  - destruct Hq as [[]|Hq]; discriminate.
Qed.

Lemma commit_frame r g sids tb h : h <> g -> gen_get h (gens (run r (close_prims g sids tb))) = gen_get h (gens r).
Proof.
  intros Hne. destruct (close_prims_shape g sids tb) as [body [-> Hq]]. unfold run. rewrite fold_left_app. cbn [fold_left].
  rewrite (exec_other_generation g) by (auto). clear - Hq Hne. revert r. induction body as [|p ps IH]; intros r; [reflexivity|].
  inversion Hq; subst. cbn [fold_left]. rewrite IH by assumption. apply (exec_other_generation g); auto.
Qed.

(* generation numbers: one above the highest listed one (1 for the first) *)
Lemma next_generation_above r : forall g x, In (g, x) (listed r) -> g < next_generation r.
Proof.
  unfold next_generation. intros g x H. assert (In g (map fst (listed r))) as Hin by (apply in_map_iff; exists (g, x); auto).
  clear H. induction (map fst (listed r)) as [|a l IH]; [destruct Hin|]. simpl. destruct Hin as [->|Hin]; [lia|specialize (IH Hin); lia].
Qed.

Lemma accepts_release_spec existing v : accepts_release existing v = true <-> forall e, In e existing -> (e < v)%Z.
Proof. unfold accepts_release. rewrite forallb_forall. split; intros H e He; specialize (H e He); [apply Z.ltb_lt|apply Z.ltb_lt]; exact H. Qed.
