(* C19 - proofs about the content negotiation model. *)
Require Import String Ascii List Bool ZArith Lia Permutation Sorted.
From FV Require Import Lib.Str Model.C19Base Generated.C19Codecs Model.C19.
Import ListNotations.

(* ---- ordering ------------------------------------------------------------------------------------ *)
Lemma insert_perm x l : Permutation (insert x l) (x :: l).
Proof.
  induction l as [|y r IH]; simpl; [apply Permutation_refl|].
  destruct (quality x <? quality y)%Z; [|apply Permutation_refl].
  eapply Permutation_trans; [apply perm_skip, IH|apply perm_swap].
Qed.

Lemma sort_perm l : Permutation (sort_ranges l) l.
Proof.
  induction l as [|x r IH]; simpl; [apply Permutation_refl|].
  eapply Permutation_trans; [apply insert_perm|apply perm_skip, IH].
Qed.

Definition desc (a b : range) : Prop := (quality b <= quality a)%Z.

Lemma insert_sorted x l : Sorted desc l -> Sorted desc (insert x l).
Proof.
  induction l as [|y r IH]; intros Hs; simpl.
  - repeat constructor.
  - destruct (quality x <? quality y)%Z eqn:Hq.
    + inversion Hs as [|? ? Hr Hhd]; subst. constructor; [apply IH; exact Hr|].
      destruct r as [|z r]; simpl.
      * constructor. unfold desc. lia.
      * destruct (quality x <? quality z)%Z eqn:Hz; constructor.
        -- inversion Hhd; subst. assumption.
        -- unfold desc. lia.
    + constructor; [exact Hs|]. constructor. unfold desc. lia.
Qed.

Lemma sort_sorted l : Sorted desc (sort_ranges l).
Proof. induction l as [|x r IH]; simpl; [constructor|apply insert_sorted, IH]. Qed.

(* stability: restricted to one quality value, the order is the header order *)
Definition has_q (q : Z) (r : range) : bool := (quality r =? q)%Z.

Lemma insert_stable q x l :
  Sorted desc l -> filter (has_q q) (insert x l) = filter (has_q q) (x :: l).
Proof.
  induction l as [|y r IH]; intros Hs; [reflexivity|].
  simpl. destruct (quality x <? quality y)%Z eqn:Hq; [|reflexivity].
  inversion Hs as [|? ? Hr Hhd]; subst.
  simpl. rewrite (IH Hr). simpl. unfold has_q.
  destruct (quality y =? q)%Z eqn:Hy, (quality x =? q)%Z eqn:Hx; try reflexivity. lia.
Qed.

Lemma sort_stable q l : filter (has_q q) (sort_ranges l) = filter (has_q q) l.
Proof.
  induction l as [|x r IH]; [reflexivity|]. simpl sort_ranges.
  rewrite insert_stable by apply sort_sorted. simpl. rewrite IH. reflexivity.
Qed.

(* ---- wildcard matching --------------------------------------------------------------------------- *)
Inductive wild : list ascii -> list ascii -> Prop :=
  | wild_nil : wild [] []
  | wild_star_skip p s : wild p s -> wild (star :: p) s
  | wild_star_eat p c s : wild (star :: p) s -> wild (star :: p) (c :: s)
  | wild_qmark p c s : wild p s -> wild (qmark :: p) (c :: s)
  | wild_char p c s : c <> star -> c <> qmark -> wild p s -> wild (c :: p) (c :: s).

Lemma glob_star p s : glob (star :: p) s = glob p s || match s with [] => false | _ :: s' => glob (star :: p) s' end.
Proof. destruct s; reflexivity. Qed.

Lemma glob_nonstar c p s : c <> star ->
  glob (c :: p) s = match s with [] => false | d :: s' => (ascii_eqb c qmark || ascii_eqb c d) && glob p s' end.
Proof.
  intros H. simpl. destruct (ascii_eqb c star) eqn:E; [apply ascii_eqb_spec in E; contradiction|reflexivity].
Qed.

Lemma glob_wild p : forall s, glob p s = true <-> wild p s.
Proof.
  induction p as [|c p IH].
  - intros [|d s]; simpl; split; intros H; try constructor; try discriminate; inversion H.
  - destruct (ascii_dec c star) as [->|Hc].
    + induction s as [|d s IHs].
      * rewrite glob_star, orb_false_r, IH. split; intros H; [constructor; exact H|].
        inversion H; subst; try assumption; try contradiction; congruence.
      * rewrite glob_star, orb_true_iff, IH, IHs. split.
        -- intros [H|H]; [apply wild_star_skip|apply wild_star_eat]; exact H.
        -- intros H. inversion H; subst; try (left; assumption); try (right; assumption); try contradiction; congruence.
    + intros [|d s]; rewrite glob_nonstar by exact Hc.
      * split; [discriminate|]. intros H; inversion H; subst; contradiction.
      * rewrite andb_true_iff, orb_true_iff, !ascii_eqb_spec, IH. split.
        -- intros [[ -> | -> ] H]; [apply wild_qmark; exact H|].
           destruct (ascii_dec d qmark) as [->|Hq]; [apply wild_qmark|apply wild_char]; assumption.
        -- intros H. inversion H; subst; try contradiction; split; auto.
Qed.

Lemma assoc_in k v l : assoc k l = Some v -> In (k, v) l.
Proof.
  induction l as [|[k' v'] r IH]; simpl; [discriminate|].
  destruct (String.eqb k k') eqn:E.
  - apply String.eqb_eq in E. subst. intros [= ->]. left; reflexivity.
  - intros H. right. apply IH. exact H.
Qed.

Lemma matches_spec pat other :
  matches pat other = true <->
  (has_star (kind other) = false
   /\ wild (chars (kind pat)) (chars (kind other))
   /\ forall k v, In (k, v) (options pat) -> assoc k (options other) = Some v).
Proof.
  unfold matches. rewrite !andb_true_iff, negb_true_iff, glob_wild, forallb_forall. split.
  - intros [[H1 H2] H3]. repeat split; try assumption. intros k v Hin. specialize (H3 _ Hin). simpl in H3.
    destruct (assoc k (options other)) as [x|]; [|discriminate]. simpl in H3. apply String.eqb_eq in H3. subst. reflexivity.
  - intros [H1 [H2 H3]]. repeat split; try assumption. intros [k v] Hin. simpl. rewrite (H3 _ _ Hin). simpl. apply String.eqb_refl.
Qed.

(* ---- choice -------------------------------------------------------------------------------------- *)
Lemma find_index_some {A} (f : A -> bool) l n i :
  find_index f l n = Some i ->
  exists x, n <= i /\ nth_error l (i - n) = Some x /\ f x = true
            /\ forall j y, j < i - n -> nth_error l j = Some y -> f y = false.
Proof.
  revert n; induction l as [|x r IH]; intros n; simpl; [discriminate|].
  destruct (f x) eqn:Hf.
  - intros [= <-]. exists x. rewrite Nat.sub_diag. repeat split; auto. intros j y Hj; lia.
  - intros H. destruct (IH _ H) as [y [Hle [Hn [Hy Hb]]]]. exists y.
    assert (i - n = S (i - S n)) as -> by lia. repeat split; auto; [lia|].
    intros [|j] z Hj Hz; simpl in Hz; [congruence|]. apply (Hb j); [lia|exact Hz].
Qed.

Lemma find_index_none {A} (f : A -> bool) l n : find_index f l n = None <-> forall x, In x l -> f x = false.
Proof.
  revert n; induction l as [|x r IH]; intros n; simpl; [split; [intros _ y []|reflexivity]|].
  destruct (f x) eqn:Hf.
  - split; [discriminate|]. intros H. specialize (H x (or_introl eq_refl)). congruence.
  - rewrite IH. split; intros H y; [intros [<-|Hy]; auto|intros Hy; apply H; right; exact Hy].
Qed.

(* the encoder returned is the first table entry matching the first satisfiable client preference *)
Lemma get_encoder_some table targets i :
  get_encoder_in table targets = Some i ->
  exists k p e, nth_error targets k = Some p /\ nth_error table i = Some e /\ matches p e = true
    /\ (forall j e', j < i -> nth_error table j = Some e' -> matches p e' = false)
    /\ (forall k' p' e', k' < k -> nth_error targets k' = Some p' -> In e' table -> matches p' e' = false).
Proof.
  induction targets as [|p r IH]; simpl; [discriminate|].
  destruct (find_index (matches p) table 0) as [i0|] eqn:Hf.
  - intros [= <-]. destruct (find_index_some _ _ _ _ Hf) as [e [_ [Hn [He Hb]]]]. rewrite Nat.sub_0_r in *.
    exists 0, p, e. repeat split; auto. intros k' p' e' Hk; lia.
  - intros H. destruct (IH H) as [k [p0 [e [Hk [Hi [Hm [Hfirst Hprev]]]]]]].
    exists (S k), p0, e. repeat split; auto.
    intros [|k'] p' e' Hlt Hn Hin; simpl in Hn.
    + injection Hn as <-. apply (proj1 (find_index_none _ _ _) Hf). exact Hin.
    + apply (Hprev k'); auto. lia.
Qed.

Lemma get_encoder_none table targets :
  get_encoder_in table targets = None <-> forall p e, In p targets -> In e table -> matches p e = false.
Proof.
  induction targets as [|p r IH]; simpl; [split; [intros _ ? ? []|reflexivity]|].
  destruct (find_index (matches p) table 0) as [i0|] eqn:Hf.
  - split; [discriminate|]. intros H. destruct (find_index_some _ _ _ _ Hf) as [e [_ [Hn [He _]]]].
    apply nth_error_In in Hn. rewrite (H p e (or_introl eq_refl) Hn) in He. discriminate.
  - rewrite IH. split.
    + intros H p' e [<-|Hp] He; [apply (proj1 (find_index_none _ _ _) Hf); exact He|apply H; assumption].
    + intros H p' e Hp He. apply H; [right; exact Hp|exact He].
Qed.

Lemma get_decoder_some table src i :
  get_decoder_in table src = Some i ->
  exists pat, nth_error table i = Some pat /\ matches pat src = true
    /\ forall j pat', j < i -> nth_error table j = Some pat' -> matches pat' src = false.
Proof.
  unfold get_decoder_in. intros H. destruct (find_index_some _ _ _ _ H) as [pat [_ [Hn [Hm Hb]]]].
  rewrite Nat.sub_0_r in *. exists pat. auto.
Qed.

Lemma get_decoder_none table src :
  get_decoder_in table src = None <-> forall pat, In pat table -> matches pat src = false.
Proof. unfold get_decoder_in. apply find_index_none. Qed.

(* ---- finite sweeps over the generated tables ---------------------------------------------------------- *)
Lemma indexed_forall_from {A} (P : nat -> A -> bool) l n :
  forallb (fun ie => P (fst ie) (snd ie)) (combine (seq n (List.length l)) l) = true ->
  forall i e, nth_error l i = Some e -> P (n + i) e = true.
Proof.
  revert n; induction l as [|x r IH]; intros n H i e Hn; [destruct i; discriminate|].
  simpl in H. apply andb_true_iff in H. destruct H as [Hx Hr].
  destruct i as [|i]; simpl in Hn.
  - injection Hn as <-. rewrite Nat.add_0_r. exact Hx.
  - replace (n + S i) with (S n + i) by lia. apply IH; assumption.
Qed.

Lemma indexed_forall {A} (P : nat -> A -> bool) l :
  forallb (fun ie => P (fst ie) (snd ie)) (combine (seq 0 (List.length l)) l) = true ->
  forall i e, nth_error l i = Some e -> P i e = true.
Proof. intros H i e Hn. apply (indexed_forall_from P l 0 H i e Hn). Qed.

Lemma onat_eqb_eq a b : onat_eqb a b = true -> a = b.
Proof. destruct a, b; simpl; try discriminate; try reflexivity. intros H. apply Nat.eqb_eq in H. subst. reflexivity. Qed.
