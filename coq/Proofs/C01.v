(* C01 - facts about the reference denotation of a segment. *)
Require Import List Bool ZArith Lia.
From FV Require Import Lib.Sym Model.C01.
Import ListNotations.

Lemma eval_node_length a e n : List.length (outputs (eval_node a e n)) = S (List.length (outputs e)).
Proof. unfold eval_node. destruct (nkind n); simpl; rewrite app_length; simpl; lia. Qed.

Lemma fold_length a nodes : forall e, List.length (outputs (fold_left (eval_node a) nodes e)) = (List.length (outputs e) + List.length nodes)%nat.
Proof.
  induction nodes as [|n r IH]; intros e; simpl; [lia|]. rewrite IH, eval_node_length. lia.
Qed.

(* every node is evaluated exactly once: one output row per node *)
Lemma geval_once a nodes : List.length (outputs (geval a nodes)) = List.length nodes.
Proof. unfold geval. rewrite fold_length. reflexivity. Qed.

Lemma eval_node_prefix a e n : exists row, outputs (eval_node a e n) = outputs e ++ [row].
Proof. unfold eval_node. destruct (nkind n); simpl; eexists; reflexivity. Qed.

(* later nodes never change what earlier nodes produced (dataflow is functional) *)
Lemma fold_prefix a nodes : forall e, exists rows, outputs (fold_left (eval_node a) nodes e) = outputs e ++ rows.
Proof.
  induction nodes as [|n r IH]; intros e; simpl; [exists []; rewrite app_nil_r; reflexivity|].
  destruct (IH (eval_node a e n)) as [rows Hr]. destruct (eval_node_prefix a e n) as [row Hrow].
  exists (row :: rows). rewrite Hr, Hrow, <- app_assoc. reflexivity.
Qed.

Lemma geval_app a pre post : exists rows, outputs (geval a (pre ++ post)) = outputs (geval a pre) ++ rows.
Proof. unfold geval. rewrite fold_left_app. apply fold_prefix. Qed.

(* state binding: an applied member of a group whose sibling was trained earlier in the same run is applied
   with exactly the state that sibling produced *)
Lemma derived_state a e n inputs s :
  nkind n = KApply inputs -> nstateful n = true -> lookup_gid (ngid n) (trained e) = Some s ->
  forall row, outputs (eval_node a e n) = outputs e ++ [row] ->
  row = match nszout n with
        | 1 => [TApp (nname n) (nhp n) s (map (value e) inputs)]
        | k => map (fun i => TProj i (TApp (nname n) (nhp n) s (map (value e) inputs))) (seq 0 k)
        end.
Proof.
  intros Hk Hs Hl row H. unfold eval_node in H. rewrite Hk, Hs, Hl in H. simpl in H.
  apply app_inv_head in H. injection H as <-. reflexivity.
Qed.

(* the trained member records its state for the group, built from the train and label ports and the
   previously persisted state *)
Lemma trained_state a e n tr lb :
  nkind n = KTrain tr lb ->
  lookup_gid (ngid n) (trained (eval_node a e n))
  = Some (TState (nname n) (nhp n) (match previous a (ngid n) with Some t => t | None => TNone end) (value e tr) (value e lb)).
Proof. intros Hk. unfold eval_node. rewrite Hk. simpl. rewrite Nat.eqb_refl. reflexivity. Qed.

(* commit: exactly one state per persistent group, at the group's list position *)
Lemma committed_positions l e states :
  committed (Some l) e = Some states ->
  List.length states = List.length l
  /\ forall i g t, nth_error l i = Some (g, t) ->
       nth_error states i = Some (match lookup_gid g (trained e) with Some s => s | None => TNone end).
Proof.
  unfold committed. destruct l as [|x l]; [discriminate|]. destruct (trained e) as [|y tr] eqn:E; [discriminate|].
  intros [= <-]. split; [simpl; rewrite map_length; reflexivity|].
  intros [|i] g t Hn; simpl in Hn.
  - injection Hn as ->. reflexivity.
  - simpl. rewrite (map_nth_error _ _ _ Hn). reflexivity.
Qed.
