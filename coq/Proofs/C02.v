(* C02 - facts about the reference evaluation of a table. *)
Require Import List Bool ZArith Arith Lia.
From FV Require Import Lib.Sym Model.C02.
Import ListNotations.

Fixpoint eval_args (ev : nat -> option term) (l : list nat) : option (list term) :=
  match l with
  | [] => Some []
  | a :: r => match ev a, eval_args ev r with Some v, Some vs => Some (v :: vs) | _, _ => None end
  end.

Lemma teval_unfold f t k :
  teval (S f) t k = match find_sym t k with
                    | None => None
                    | Some s => match eval_args (teval f t) (sargs s) with Some vs => exec (sinstr s) vs | None => None end
                    end.
Proof.
  simpl. destruct (find_sym t k) as [s|]; [|reflexivity].
  assert (forall l, (fix args (l : list nat) : option (list term) :=
                       match l with
                       | [] => Some []
                       | a :: r => match teval f t a, args r with Some v, Some vs => Some (v :: vs) | _, _ => None end
                       end) l = eval_args (teval f t) l) as H.
  { induction l as [|a r IH]; [reflexivity|]. simpl. rewrite IH. reflexivity. }
  rewrite H. reflexivity.
Qed.

(* the value of an instruction does not depend on the amount of fuel once it is defined: the reference
   evaluation is a function of the table alone *)
Lemma teval_mono t : forall f k v, teval f t k = Some v -> teval (S f) t k = Some v.
Proof.
  induction f as [|f IH]; intros k v H; [discriminate|].
  rewrite teval_unfold in H. rewrite teval_unfold.
  destruct (find_sym t k) as [s|]; [|discriminate].
  destruct (eval_args (teval f t) (sargs s)) as [vs|] eqn:E; [|discriminate].
  assert (eval_args (teval (S f) t) (sargs s) = Some vs) as ->; [|exact H].
  clear H. revert vs E. induction (sargs s) as [|a r IHr]; intros vs E; [exact E|].
  simpl in E. destruct (teval f t a) as [x|] eqn:Ea; [|discriminate].
  destruct (eval_args (teval f t) r) as [xs|] eqn:Er; [|discriminate]. injection E as <-.
  change (match teval (S f) t a, eval_args (teval (S f) t) r with Some v0, Some vs0 => Some (v0 :: vs0) | _, _ => None end = Some (x :: xs)).
  rewrite (IH a x Ea), (IHr xs eq_refl). reflexivity.
Qed.

Lemma teval_fuel_irrelevant t f g k v w : teval f t k = Some v -> teval g t k = Some w -> v = w.
Proof.
  assert (forall d f k v, teval f t k = Some v -> teval (d + f) t k = Some v) as Hadd.
  { induction d as [|d IH]; intros f0 k0 v0 H; [exact H|]. simpl. apply teval_mono. apply IH. exact H. }
  intros Hf Hg. pose proof (Hadd g f k v Hf) as H1. pose proof (Hadd f g k w Hg) as H2.
  rewrite Nat.add_comm in H2. congruence.
Qed.
