(* C16 proofs: the descriptor cache of Wrapper._get_descriptor under arbitrary thread interleavings. *)
Require Import List Bool ZArith Lia.
From FV Require Import Model.C16.
Import ListNotations.

Lemma mem_app x l1 l2 : mem x (l1 ++ l2) = mem x l1 || mem x l2.
Proof. unfold mem. apply existsb_app. Qed.

Lemma mem_filter x (p : nat -> bool) l : mem x (filter p l) = mem x l && p x.
Proof.
  unfold mem. induction l as [|y l IH]; cbn [filter existsb]; [reflexivity|].
  destruct (p y) eqn:Py; cbn [existsb]; rewrite IH.
  - destruct (Nat.eqb x y) eqn:E; cbn [orb]; [apply Nat.eqb_eq in E; subst; rewrite Py, andb_true_r; reflexivity|reflexivity].
  - destruct (Nat.eqb x y) eqn:E; cbn [orb]; [apply Nat.eqb_eq in E; subst; rewrite Py, andb_false_r; reflexivity|reflexivity].
Qed.

Section Desc.
  Variable inventory : list nat.

  (* what is true of a thread looking up an application that exists *)
  Definition good (known : list nat) (th : dthread) : Prop :=
    mem (d_app th) inventory = true ->
    match d_pc th with
    | DListed ups => mem (d_app th) ups || mem (d_app th) known = true
    | DUpdated => mem (d_app th) known = true
    | DFinished found => found = true
    | _ => True
    end.
  Definition DInv (st : dstate) : Prop := forall t, good (d_known st) (d_threads st t).

  Lemma good_mono known known' th : (forall a, mem a known = true -> mem a known' = true) -> good known th -> good known' th.
  Proof.
    intros M G Hin. specialize (G Hin). destruct (d_pc th); auto.
    apply orb_true_iff in G. apply orb_true_iff. destruct G as [G|G]; [left; exact G|right; exact (M _ G)].
  Qed.

  Lemma dstep_inv st t : DInv st -> DInv (dstep inventory st t).
  Proof.
    intros I x. unfold dstep. pose proof (I t) as Gt. unfold good in Gt.
    destruct (d_pc (d_threads st t)) as [| |ups| | |found] eqn:PC.
    - destruct (mem (d_app (d_threads st t)) (d_known st)) eqn:K; cbn [d_known d_threads];
        (destruct (Nat.eqb x t) eqn:E; [intros _; exact Logic.I|exact (I x)]).
    - cbn [d_known d_threads]. destruct (Nat.eqb x t) eqn:E; [|exact (I x)]. intros Hin. cbn [d_app d_pc] in *.
      rewrite mem_filter, Hin. destruct (mem (d_app (d_threads st t)) (d_known st)); reflexivity.
    - cbn [d_known d_threads]. destruct (Nat.eqb x t) eqn:E.
      + intros Hin. cbn [d_app d_pc] in *. rewrite mem_app. exact (Gt Hin).
      + apply (good_mono (d_known st)); [|exact (I x)]. intros a Ha. rewrite mem_app, Ha. apply orb_true_r.
    - destruct (mem (d_app (d_threads st t)) (d_known st)) eqn:K; cbn [d_known d_threads].
      + destruct (Nat.eqb x t) eqn:E; [intros _; exact Logic.I|exact (I x)].
      + destruct (Nat.eqb x t) eqn:E; [|exact (I x)]. intros Hin. cbn [d_app d_pc] in *. specialize (Gt Hin). congruence.
    - cbn [d_known d_threads]. destruct (Nat.eqb x t) eqn:E; [intros _; reflexivity|exact (I x)].
    - exact (I x).
  Qed.

  Lemma drun_inv : forall sched st, DInv st -> DInv (drun inventory st sched).
  Proof. induction sched as [|t r IH]; intros st I; cbn [drun]; [exact I|]. apply IH. apply dstep_inv. exact I. Qed.

  (* any number of threads, any interleaving: a lookup of an application present in the inventory is never refused *)
  Theorem existing_application_found : forall apps sched t found,
    let st0 := {| d_known := []; d_threads := fun x => {| d_app := apps x; d_pc := DStart |} |} in
    mem (d_app (d_threads (drun inventory st0 sched) t)) inventory = true ->
    d_pc (d_threads (drun inventory st0 sched) t) = DFinished found -> found = true.
  Proof.
    intros apps sched t found st0 Hin Hpc.
    assert (I0 : DInv st0) by (intros x _; exact Logic.I).
    pose proof (drun_inv sched st0 I0 t Hin) as G. rewrite Hpc in G. exact G.
  Qed.
End Desc.

(* the code before the fix: two threads asking for two existing applications, the second one is refused *)
Lemma old_code_refuses_existing :
  let st0 := {| d_known := []; d_threads := fun x => {| d_app := x; d_pc := DStart |} |} in
  let st := drun_old [0; 1] st0 [0; 1; 0; 0; 1; 1] in
  mem (d_app (d_threads st 1)) [0; 1] = true /\ d_pc (d_threads st 1) = DFinished false.
Proof. vm_compute. split; reflexivity. Qed.
