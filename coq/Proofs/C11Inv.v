(* C11: the remaining topology invariants for direct (worker to worker) wiring, after ANY sequence of subscribe / train
   calls, refused ones included: a node is subscribed on apply ports or on train/label ports, never both; a trained
   worker publishes nothing (and only existing output ports are ever published); at most one member of a worker group
   is trained. *)
Require Import List Bool Arith Lia.
From FV Require Import Model.C11 Proofs.C11 Proofs.C11Single.
Import ListNotations.

Section Inv.
  Variable u : list decl.

  Definition kinds_ok (st : state) : Prop :=
    forall n p q, In p (get_ports n (ports st)) -> In q (get_ports n (ports st)) -> is_apply p = is_apply q.
  Definition quiet_trained (st : state) : Prop :=
    forall n i, get_out (n, i) (outs st) <> [] -> i < szout_of u n /\ trained st n = false.
  Definition one_trained (st : state) : Prop :=
    forall n m g, n < List.length u -> m < List.length u -> gid_of u n = Some g -> gid_of u m = Some g ->
                  trained st n = true -> trained st m = true -> n = m.
  Definition topo (st : state) : Prop := kinds_ok st /\ quiet_trained st /\ one_trained st.

  Lemma topo_equiv a b : equiv a b -> topo a -> topo b.
  Proof.
    intros [Ho [Hp _]] [A [B C]]. split; [|split].
    - intros n p q. rewrite <- Hp. apply A.
    - intros n i H. rewrite <- Ho in H. unfold trained. rewrite <- Hp. apply (B n i H).
    - intros n m g Hn Hm Gn Gm Tn Tm. unfold trained in *. rewrite <- Hp in Tn, Tm. exact (C n m g Hn Hm Gn Gm Tn Tm).
  Qed.

  Lemma topo_empty : topo empty.
  Proof.
    split; [|split].
    - intros n p q [].
    - intros n i H. exfalso. apply H. reflexivity.
    - intros n m g _ _ _ _ T. discriminate T.
  Qed.

  Lemma node_publish_worker_ok fuel st n i s st' :
    is_future u n = false -> node_publish u fuel st n i s = (st', true) ->
    st' = add_sub st n i s /\ n <> fst s /\ trained st n = false /\ i < szout_of u n.
  Proof.
    intros Hw H. destruct fuel as [|fuel]; simpl in H; [discriminate|].
    rewrite Hw in H. simpl in H.
    destruct (trained st n) eqn:Ht; [discriminate|].
    destruct (Nat.ltb i (szout_of u n)) eqn:Hlt; simpl in H; [|discriminate].
    destruct (Nat.eqb n (fst s)) eqn:En; [discriminate|].
    injection H as <-. repeat split; auto. apply Nat.eqb_neq. exact En. apply Nat.ltb_lt. exact Hlt.
  Qed.

  (* what an accepted direct subscription did *)
  Lemma publish_ok_spec st pn pidx subscriber p st' :
    is_future u subscriber = false -> is_future u pn = false -> consistent st ->
    publish u st pn pidx subscriber p = (st', true) ->
    (get_ports subscriber (ports st) = [] \/ is_apply p = existsb is_apply (get_ports subscriber (ports st)))
    /\ (is_apply p = false -> any_output u st subscriber = false)
    /\ trained st pn = false /\ pidx < szout_of u pn /\ pn <> subscriber
    /\ (forall k, get_out k (outs st') = if key_eqb k (pn, pidx) then get_out k (outs st) ++ [(subscriber, p)] else get_out k (outs st))
    /\ (forall m, get_ports m (ports st') = if Nat.eqb m subscriber then get_ports subscriber (ports st) ++ [p] else get_ports m (ports st)).
  Proof.
    intros Hs Hp [C1 C2] H. unfold publish in H. rewrite Hs in H. cbn [andb] in H.
    destruct (new_subscription u st subscriber p) as [st1|] eqn:E; [|discriminate H].
    destruct (new_subscription_spec _ _ _ _ _ E) as [Hnot [Ho [Hf Hports]]].
    assert (Hheld : existsb (sub_eqb (subscriber, p)) (get_out (pn, pidx) (outs st1)) = false).
    { destruct (existsb _ _) eqn:X; [|reflexivity]. apply existsb_sub in X. rewrite Ho in X.
      assert (has_port st subscriber p = true) by (apply C1; exists (pn, pidx); exact X). congruence. }
    rewrite Hheld in H. cbn [negb orb] in H.
    destruct (node_publish u (fuel0 u) st1 pn pidx (subscriber, p)) as [st2 ok2] eqn:E2.
    destruct ok2; [|discriminate H]. injection H as <-.
    (* the checks of Subscription.__new__ *)
    unfold new_subscription in E.
    destruct (existsb (port_eqb p) (get_ports subscriber (ports st))); [discriminate|].
    destruct (get_ports subscriber (ports st)) as [|p0 ps] eqn:Eps.
    - (* first subscription of that node *)
      cbn [andb] in E. destruct (negb (is_apply p) && any_output u st subscriber) eqn:Eany; [discriminate|].
      clear E. destruct (node_publish_worker_ok _ _ _ _ _ _ Hp E2) as [-> [Hne [Ht Hlt]]]. cbn [fst] in Hne.
      repeat split.
      + left. reflexivity.
      + intros Hap. rewrite Hap in Eany. exact Eany.
      + unfold trained in *. rewrite Hports in Ht. destruct (Nat.eqb pn subscriber) eqn:X; [apply Nat.eqb_eq in X; congruence|exact Ht].
      + exact Hlt.
      + exact Hne.
      + intros k. unfold add_sub. rewrite Hheld. cbn [outs]. rewrite get_set_out, Ho. destruct (key_eqb k (pn, pidx)) eqn:Ek; [apply key_eqb_spec in Ek; subst k|]; reflexivity.
      + intros m. unfold add_sub. rewrite Hheld. cbn [ports]. rewrite Hports. try rewrite Eps. reflexivity.
    - cbn [andb] in E. destruct (xorb (is_apply p) (existsb is_apply (p0 :: ps))) eqn:Ex; [discriminate|].
      destruct (negb (is_apply p) && any_output u st subscriber) eqn:Eany; [discriminate|].
      clear E. destruct (node_publish_worker_ok _ _ _ _ _ _ Hp E2) as [-> [Hne [Ht Hlt]]]. cbn [fst] in Hne.
      repeat split.
      + right. apply xorb_eq. exact Ex.
      + intros Hap. rewrite Hap in Eany. exact Eany.
      + unfold trained in *. rewrite Hports in Ht. destruct (Nat.eqb pn subscriber) eqn:X; [apply Nat.eqb_eq in X; congruence|exact Ht].
      + exact Hlt.
      + exact Hne.
      + intros k. unfold add_sub. rewrite Hheld. cbn [outs]. rewrite get_set_out, Ho. destruct (key_eqb k (pn, pidx)) eqn:Ek; [apply key_eqb_spec in Ek; subst k|]; reflexivity.
      + intros m. unfold add_sub. rewrite Hheld. cbn [ports]. rewrite Hports. try rewrite Eps. reflexivity.
  Qed.

  Lemma any_output_false st n : any_output u st n = false -> forall i, i < szout_of u n -> get_out (n, i) (outs st) = [].
  Proof.
    unfold any_output. intros H i Hi. destruct (get_out (n, i) (outs st)) eqn:E; [reflexivity|].
    assert (X : existsb (fun i => match get_out (n, i) (outs st) with [] => false | _ => true end) (seq 0 (szout_of u n)) = true).
    { apply existsb_exists. exists i. split; [apply in_seq; lia|rewrite E; reflexivity]. }
    congruence.
  Qed.

  Lemma trained_spec st n : trained st n = true <-> exists p, In p (get_ports n (ports st)) /\ is_apply p = false.
  Proof.
    unfold trained. rewrite existsb_exists. split; intros [p [Hp Hk]]; exists p; split; auto.
    - destruct (is_apply p); [discriminate|reflexivity].
    - rewrite Hk. reflexivity.
  Qed.

  (* an accepted apply subscription preserves the three invariants; so does an accepted train/label subscription of a
     worker whose group has no OTHER trained member *)
  Lemma publish_topo st pn pidx subscriber p st' ok :
    is_future u subscriber = false -> is_future u pn = false -> consistent st -> topo st ->
    (is_apply p = false -> forall m g, m < List.length u -> gid_of u subscriber = Some g -> gid_of u m = Some g ->
                           trained st m = true -> m = subscriber) ->
    publish u st pn pidx subscriber p = (st', ok) -> topo st'.
  Proof.
    intros Hs Hp C T Hgrp H. destruct ok.
    2: { apply (topo_equiv st); [|exact T]. pose proof (failed_publish_unchanged u st pn pidx subscriber p st' Hs Hp H) as E.
         destruct E as [E1 [E2 E3]]. repeat split; intros; symmetry; auto. }
    destruct (publish_ok_spec st pn pidx subscriber p st' Hs Hp C H) as [Hkind [Hany [Htr [Hlt [Hne [Ho Hports]]]]]].
    destruct T as [A [B D]].
    assert (Htrained : forall m, trained st' m = true -> trained st m = true \/ (m = subscriber /\ is_apply p = false)).
    { intros m Hm. apply trained_spec in Hm. destruct Hm as [q [Hq Hk]]. rewrite Hports in Hq.
      destruct (Nat.eqb m subscriber) eqn:Em.
      - apply Nat.eqb_eq in Em. subst m. apply in_app_or in Hq. destruct Hq as [Hq|[<-|[]]].
        + left. apply trained_spec. exists q. auto.
        + right. auto.
      - left. apply trained_spec. exists q. auto. }
    split; [|split].
    - (* kinds *)
      intros n x y Hx Hy. rewrite Hports in Hx, Hy. destruct (Nat.eqb n subscriber) eqn:En; [|exact (A n x y Hx Hy)].
      assert (Hall : forall z, In z (get_ports subscriber (ports st) ++ [p]) -> is_apply z = is_apply p).
      { intros z Hz. apply in_app_or in Hz. destruct Hz as [Hz|[<-|[]]]; [|reflexivity].
        destruct Hkind as [Hk|Hk]; [rewrite Hk in Hz; destruct Hz|].
        rewrite Hk. destruct (existsb is_apply (get_ports subscriber (ports st))) eqn:Ee.
        - apply existsb_exists in Ee. destruct Ee as [w [Hw Hwa]]. rewrite <- Hwa. apply (A subscriber z w Hz Hw).
        - destruct (is_apply z) eqn:Ez; [|reflexivity].
          assert (X : existsb is_apply (get_ports subscriber (ports st)) = true) by (apply existsb_exists; exists z; auto).
          congruence. }
      rewrite (Hall x Hx), (Hall y Hy). reflexivity.
    - (* only existing output ports; trained workers publish nothing *)
      intros n i H0. rewrite Ho in H0. split.
      { destruct (key_eqb (n, i) (pn, pidx)) eqn:Ek.
        + apply key_eqb_spec in Ek. injection Ek as -> ->. exact Hlt.
        + apply (B n i H0). }
      destruct (trained st' n) eqn:Tn; [|reflexivity]. exfalso.
      destruct (Htrained n Tn) as [Told|[-> Hap]].
      + destruct (key_eqb (n, i) (pn, pidx)) eqn:Ek.
        * apply key_eqb_spec in Ek. injection Ek as -> ->. congruence.
        * destruct (B n i H0) as [_ X]. congruence.
      + destruct (key_eqb (subscriber, i) (pn, pidx)) eqn:Ek.
        * apply key_eqb_spec in Ek. injection Ek as X _. congruence.
        * destruct (B subscriber i H0) as [Hi _]. rewrite (any_output_false st subscriber (Hany Hap) i Hi) in H0. apply H0. reflexivity.
    - (* one trained member per group *)
      intros n m g Hn Hm Gn Gm Tn Tm.
      destruct (Htrained n Tn) as [Tn'|[-> Hap]], (Htrained m Tm) as [Tm'|[-> Hap']].
      + exact (D n m g Hn Hm Gn Gm Tn' Tm').
      + apply (Hgrp Hap' n g Hn Gm Gn Tn').
      + symmetry. apply (Hgrp Hap m g Hm Gn Gm Tm').
      + reflexivity.
  Qed.

  Lemma group_trained_false st w : group_trained u st w = false ->
    forall m g, m < List.length u -> gid_of u w = Some g -> gid_of u m = Some g -> trained st m = false.
  Proof.
    unfold group_trained. intros H m g Hm Gw Gm. destruct (trained st m) eqn:T; [|reflexivity].
    assert (X : existsb (fun n => match gid_of u n, gid_of u w with
                                  | Some g0, Some g' => Nat.eqb g0 g' && trained st n | _, _ => false end)
                        (seq 0 (List.length u)) = true).
    { apply existsb_exists. exists m. split; [apply in_seq; lia|]. rewrite Gm, Gw, Nat.eqb_refl, T. reflexivity. }
    congruence.
  Qed.

  Lemma step_topo st o st' ok :
    worker_only u -> in_range u o -> consistent st -> topo st -> step u st o = (st', ok) -> topo st'.
  Proof.
    intros Hw Hr C T H. destruct o as [s si p pi|w tp ti lp li]; simpl in H.
    - destruct Hr as [Hs Hp].
      eapply (publish_topo st p pi s (PApply si) st' ok); [apply Hw; exact Hs|apply Hw; exact Hp|exact C|exact T| |exact H].
      intros X. discriminate X.
    - destruct Hr as [Hwk [Htp Hlp]].
      destruct (negb (stateful_of u w)); [injection H as <- _; exact T|].
      destruct (group_trained u st w) eqn:Eg; [injection H as <- _; exact T|].
      destruct (publish u st tp ti w PTrain) as [st1 ok1] eqn:E1.
      assert (T1 : topo st1).
      { eapply (publish_topo st tp ti w PTrain st1 ok1); [apply Hw; exact Hwk|apply Hw; exact Htp|exact C|exact T| |exact E1].
        intros _ m g Hm Gw Gm Tm. rewrite (group_trained_false st w Eg m g Hm Gw Gm) in Tm. discriminate Tm. }
      destruct ok1; [|injection H as <- _; exact T1].
      assert (C1 : consistent st1) by (eapply publish_consistent; [apply Hw; exact Hwk|apply Hw; exact Htp|exact C|exact E1]).
      eapply (publish_topo st1 lp li w PLabel st' ok); [apply Hw; exact Hwk|apply Hw; exact Hlp|exact C1|exact T1| |exact H].
      (* after the Train subscription the only trained member of the group is w itself *)
      intros _ m g Hm Gw Gm Tm.
      destruct (publish_ok_spec st tp ti w PTrain st1 (Hw w Hwk) (Hw tp Htp) C E1) as [_ [_ [_ [_ [_ [_ Hports]]]]]].
      apply trained_spec in Tm. destruct Tm as [q [Hq Hk]]. rewrite Hports in Hq.
      destruct (Nat.eqb m w) eqn:Em; [apply Nat.eqb_eq in Em; exact Em|].
      assert (X : trained st m = true) by (apply trained_spec; exists q; auto).
      rewrite (group_trained_false st w Eg m g Hm Gw Gm) in X. discriminate X.
  Qed.

  Theorem run_topo : worker_only u -> forall ops st, Forall (in_range u) ops -> consistent st -> topo st ->
    forall st' ok, In (st', ok) (run u st ops) -> topo st'.
  Proof.
    intros Hw. induction ops as [|o ops IH]; intros st Hr C T st' ok Hin; [destruct Hin|].
    inversion Hr as [|? ? Ho Hrest]; subst. cbn [run] in Hin. destruct (step u st o) as [s1 ok1] eqn:E.
    pose proof (step_topo st o s1 ok1 Hw Ho C T E) as T1.
    pose proof (step_consistent u st o s1 ok1 Hw Ho C E) as C1.
    destruct Hin as [Hin|Hin]; [injection Hin as <- _; exact T1|exact (IH s1 Hrest C1 T1 st' ok Hin)].
  Qed.

  Corollary topology_invariants : worker_only u -> forall ops st' ok, Forall (in_range u) ops -> In (st', ok) (run u empty ops) ->
    kinds_ok st' /\ quiet_trained st' /\ one_trained st'.
  Proof. intros Hw ops st' ok Hr Hin. exact (run_topo Hw ops empty Hr (consistent_empty) topo_empty st' ok Hin). Qed.
End Inv.
