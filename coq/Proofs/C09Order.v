(* C09: the priority ordering of the pool - a permutation of the pool, descending by priority, ties in pool order. *)
Require Import List Bool ZArith Lia Permutation Sorted.
From FV Require Import Model.C09.
Import ListNotations.

Definition plt (a b : nat * feed) : bool := prio_lt (priority (snd a)) (priority (snd b)).

Lemma prio_lt_irrefl a : prio_lt a a = false.
Proof. destruct a as [x|]; cbn; [apply Z.ltb_irrefl|reflexivity]. Qed.

Lemma prio_ge_trans a b c : prio_lt a b = false -> prio_lt b c = false -> prio_lt a c = false.
Proof.
  destruct a as [x|], b as [y|], c as [z|]; cbn; intros H1 H2; try reflexivity; try discriminate.
  apply Z.ltb_ge in H1, H2. apply Z.ltb_ge. lia.
Qed.

Lemma prio_lt_ge_trans a b c : prio_lt a b = false -> prio_lt c b = true -> prio_lt c a = true.
Proof.
  destruct a as [x|], b as [y|], c as [z|]; cbn; intros H1 H2; try reflexivity; try discriminate.
  apply Z.ltb_ge in H1. apply Z.ltb_lt in H2. apply Z.ltb_lt. lia.
Qed.

(* earlier elements are never of lower priority than later ones, and of equal priority only with a smaller pool index *)
Definition before (a b : nat * feed) : Prop := plt a b = false /\ (plt b a = false -> fst a < fst b).

Lemma insert_perm x l : Permutation (insert_feed x l) (x :: l).
Proof.
  induction l as [|y r IH]; cbn [insert_feed]; [apply Permutation_refl|].
  destruct (prio_lt _ _); [|apply Permutation_refl].
  eapply perm_trans; [apply perm_skip; exact IH|apply perm_swap].
Qed.

Lemma ordered_perm pool : Permutation (ordered pool) (combine (seq 0 (List.length pool)) pool).
Proof.
  unfold ordered. induction (combine (seq 0 (List.length pool)) pool) as [|x l IH]; cbn [fold_right]; [constructor|].
  eapply perm_trans; [apply insert_perm|apply perm_skip; exact IH].
Qed.

Lemma insert_sorted x l :
  StronglySorted before l -> Forall (fun y => fst x < fst y) l -> StronglySorted before (insert_feed x l).
Proof.
  induction l as [|y r IH]; intros S F; cbn [insert_feed]; [constructor; constructor|].
  inversion S as [|? ? Sr Fy]; subst. inversion F as [|? ? Hxy Fr]; subst.
  destruct (prio_lt (priority (snd x)) (priority (snd y))) eqn:E.
  - constructor; [exact (IH Sr Fr)|].
    (* y stays in front: it is before x, and before everything that was behind it *)
    eapply Permutation_Forall; [apply Permutation_sym; apply insert_perm|]. constructor; [|exact Fy].
    split; [unfold plt|intros H; unfold plt in H; rewrite E in H; discriminate H].
    destruct (prio_lt (priority (snd y)) (priority (snd x))) eqn:E2; [|reflexivity].
    exfalso. destruct (priority (snd x)) as [a|], (priority (snd y)) as [b|]; cbn in E, E2; try discriminate.
    apply Z.ltb_lt in E, E2. lia.
  - constructor; [exact S|]. constructor.
    + split; [exact E|intros _; exact Hxy].
    + (* x is before everything y is before *)
      rewrite Forall_forall in *. intros z Hz. destruct (Fy z Hz) as [B1 B2]. split.
      * unfold plt in *. exact (prio_ge_trans _ _ _ E B1).
      * intros _. exact (Fr z Hz).
Qed.

Lemma ordered_sorted_aux : forall l, StronglySorted (fun a b => fst a < fst b) l ->
  StronglySorted before (fold_right insert_feed [] l) /\ (forall z, In z (fold_right insert_feed [] l) -> In z l).
Proof.
  induction l as [|x l IH]; intros S; cbn [fold_right]; [split; [constructor|intros z []]|].
  inversion S as [|? ? Sl Fx]; subst. destruct (IH Sl) as [S' In'].
  split.
  - apply insert_sorted; [exact S'|]. rewrite Forall_forall in *. intros y Hy. exact (Fx y (In' y Hy)).
  - intros z Hz. apply (Permutation_in _ (insert_perm x _)) in Hz. destruct Hz as [<-|Hz]; [left; reflexivity|right; exact (In' z Hz)].
Qed.

Lemma combine_seq_sorted {A} : forall (l : list A) n, StronglySorted (fun a b : nat * A => fst a < fst b) (combine (seq n (List.length l)) l).
Proof.
  induction l as [|x l IH]; intros n; cbn [List.length seq combine]; constructor; [apply IH|].
  rewrite Forall_forall. intros [i y] Hin. apply in_combine_l in Hin. apply in_seq in Hin. cbn [fst]. lia.
Qed.

Theorem ordered_descending_stable pool : StronglySorted before (ordered pool).
Proof. unfold ordered. exact (proj1 (ordered_sorted_aux _ (combine_seq_sorted pool 0))). Qed.
