(* C01 - compiler correctness: one Table.add call preserves the invariant (segments without persistent groups). *)
Require Import List Bool ZArith Arith Lia.
From FV Require Import Lib.Sym Model.C01 Model.C01Compile Proofs.C01Prim Proofs.C01Blocks Proofs.C01Inv.
Import ListNotations.

(* ---- folds ------------------------------------------------------------------------------------------------- *)
Lemma fold_opt_inv {A B} (f : A -> B -> option A) (P : nat -> A -> Prop) :
  forall l k0 x0, P k0 x0 ->
  (forall k y x, nth_error l k = Some y -> P (k0 + k) x -> exists x', f x y = Some x' /\ P (S (k0 + k)) x') ->
  exists x', fold_opt f l x0 = Some x' /\ P (k0 + List.length l) x'.
Proof.
  induction l as [|y l IH]; intros k0 x0 H0 Hs; simpl.
  - exists x0. rewrite Nat.add_0_r. auto.
  - destruct (Hs 0 y x0 eq_refl) as [x1 [E1 H1]]; [rewrite Nat.add_0_r; exact H0|]. rewrite E1. simpl.
    rewrite Nat.add_0_r in H1.
    destruct (IH (S k0) x1 H1) as [x' [E' H']].
    + intros k z x Hn Hp. destruct (Hs (S k) z x Hn) as [x2 [E2 H2]]; [replace (k0 + S k) with (S k0 + k) by lia; exact Hp|].
      exists x2. split; [exact E2|]. replace (S (S k0 + k)) with (S (k0 + S k)) by lia. exact H2.
    + exists x'. split; [exact E'|]. replace (k0 + S (List.length l)) with (S k0 + List.length l) by lia. exact H'.
Qed.

(* a batch of Linkage.insert calls on distinct free slots *)
Definition slot := (key * key * nat)%type.     (* (receiver, argument, position) *)
Definition s_ins (x : slot) : key := fst (fst x).
Definition s_arg (x : slot) : key := snd (fst x).
Definition s_idx (x : slot) : nat := snd x.
Definition tgt (x : slot) : key * nat := (s_ins x, s_idx x).

Definition ins_all (t : tbl) (l : list slot) : tbl := fold_left (fun t x => inserted t (s_ins x) (s_arg x) (s_idx x)) l t.

Lemma ins_all_fields t l :
  index (ins_all t l) = index t /\ pref (ins_all t l) = pref t /\ committer (ins_all t l) = committer t /\ next (ins_all t l) = next t.
Proof. revert t. induction l as [|x l IH]; intros t; simpl; [auto|]. destruct (IH (inserted t (s_ins x) (s_arg x) (s_idx x))) as [H1 [H2 [H3 H4]]]. simpl in *. auto. Qed.

Lemma ins_all_out t l k q : (forall x, In x l -> tgt x <> (k, q)) -> aget (ins_all t l) k q = aget t k q.
Proof.
  revert t. induction l as [|x l IH]; intros t H; simpl; [reflexivity|].
  rewrite IH by (intros y Hy; apply H; right; exact Hy). rewrite inserted_aget.
  destruct (key_eqb k (s_ins x) && Nat.eqb q (s_idx x)) eqn:E; [|reflexivity].
  apply andb_prop in E. destruct E as [E1 E2]. apply key_eqb_eq in E1. apply Nat.eqb_eq in E2.
  exfalso. apply (H x); [left; reflexivity|]. unfold tgt. subst. reflexivity.
Qed.

Lemma ins_all_in t l x : NoDup (map tgt l) -> In x l -> aget (ins_all t l) (s_ins x) (s_idx x) = Some (s_arg x).
Proof.
  revert t. induction l as [|y l IH]; intros t Hd Hin; simpl; [destruct Hin|].
  inversion Hd as [|? ? Hn Hr]; subst. destruct Hin as [->|Hin].
  - rewrite ins_all_out.
    + rewrite inserted_aget, key_eqb_refl, Nat.eqb_refl. reflexivity.
    + intros z Hz E. apply Hn. apply in_map_iff. exists z. split; [exact E|exact Hz].
  - apply IH; assumption.
Qed.

Lemma ins_all_arow_other t l k : (forall x, In x l -> s_ins x <> k) -> arow (ins_all t l) k = arow t k.
Proof.
  revert t. induction l as [|x l IH]; intros t H; simpl; [reflexivity|].
  rewrite IH by (intros y Hy; apply H; right; exact Hy). rewrite inserted_arow.
  destruct (key_eqb k (s_ins x)) eqn:E; [|reflexivity]. apply key_eqb_eq in E. exfalso. apply (H x); [left; reflexivity|auto].
Qed.

Lemma ins_all_len t l k m : List.length (arow t k) <= m -> (forall x, In x l -> s_ins x = k -> s_idx x < m) ->
  List.length (arow (ins_all t l) k) <= m.
Proof.
  revert t. induction l as [|x l IH]; intros t H0 H; simpl; [exact H0|].
  apply IH; [|intros y Hy; apply H; right; exact Hy]. rewrite inserted_alen.
  destruct (key_eqb k (s_ins x)) eqn:E; [|exact H0]. apply key_eqb_eq in E. subst k.
  assert (s_idx x < m) by (apply H; [left; reflexivity|reflexivity]). lia.
Qed.

Lemma ins_all_nonempty t l k : arow (ins_all t l) k <> [] -> arow t k <> [] \/ exists x, In x l /\ s_ins x = k.
Proof.
  revert t. induction l as [|x l IH]; intros t H; simpl in H; [left; exact H|].
  destruct (IH _ H) as [H1|[y [Hy E]]].
  - rewrite inserted_arow in H1. destruct (key_eqb k (s_ins x)) eqn:E; [|left; exact H1].
    apply key_eqb_eq in E. right. exists x. split; [left; reflexivity|auto].
  - right. exists y. split; [right; exact Hy|exact E].
Qed.

Lemma ins_all_len_ge t l k : List.length (arow t k) <= List.length (arow (ins_all t l) k).
Proof.
  revert t. induction l as [|x l IH]; intros t; simpl; [lia|].
  eapply Nat.le_trans; [|apply IH]. rewrite inserted_alen. destruct (key_eqb k (s_ins x)) eqn:E; [|lia].
  apply key_eqb_eq in E. subst k. lia.
Qed.

Lemma ins_all_keys t l k : In k (map fst (absl (ins_all t l))) -> In k (map fst (absl t)) \/ exists x, In x l /\ s_ins x = k.
Proof.
  revert t. induction l as [|x l IH]; intros t H; simpl in H; [left; exact H|].
  destruct (IH _ H) as [X|[y [Hy E]]].
  - apply inserted_keys in X. destruct X as [->|X]; [right; exists x; split; [left; reflexivity|reflexivity]|left; exact X].
  - right. exists y. split; [right; exact Hy|exact E].
Qed.

Lemma ins_all_nodup t l : NoDup (map fst (absl t)) -> NoDup (map fst (absl (ins_all t l))).
Proof.
  revert t. induction l as [|x l IH]; intros t H; simpl; [exact H|]. apply IH. unfold inserted. simpl. apply assoc_set_nodup. exact H.
Qed.

Lemma fold_insert_ok t (l : list slot) : NoDup (map tgt l) -> (forall x, In x l -> aget t (s_ins x) (s_idx x) = None) ->
  fold_opt (fun t x => insert t (s_ins x) (s_arg x) (Some (s_idx x))) l t = Some (ins_all t l).
Proof.
  revert t. induction l as [|x l IH]; intros t Hd H; simpl; [reflexivity|].
  inversion Hd as [|? ? Hn Hr]; subst. rewrite insert_some_ok by (apply H; left; reflexivity). simpl.
  apply IH; [exact Hr|]. intros y Hy. rewrite inserted_aget.
  destruct (key_eqb (s_ins y) (s_ins x) && Nat.eqb (s_idx y) (s_idx x)) eqn:E; [|apply H; right; exact Hy].
  apply andb_prop in E. destruct E as [E1 E2]. apply key_eqb_eq in E1. apply Nat.eqb_eq in E2.
  exfalso. apply Hn. apply in_map_iff. exists y. split; [unfold tgt; rewrite E1, E2; reflexivity|exact Hy].
Qed.

Lemma fold_opt_map {A B C} (f : A -> C -> option A) (g : B -> C) l x :
  fold_opt (fun t y => f t (g y)) l x = fold_opt f (map g l) x.
Proof. revert x. induction l as [|y l IH]; intros x; simpl; [reflexivity|]. destruct (f x (g y)); simpl; [apply IH|reflexivity]. Qed.

(* ---- the subscriber lists have no duplicates ------------------------------------------------------------- *)
Lemma seq_combine_nodup {A} (l : list A) s : NoDup (combine (seq s (List.length l)) l).
Proof.
  revert s. induction l as [|x l IH]; intros s; simpl; [constructor|]. constructor; [|apply IH].
  intros H. apply combine_seq_in in H. lia.
Qed.

Lemma subscribers_nodup nodes i p : NoDup (subscribers nodes i p).
Proof.
  unfold subscribers. apply NoDup_flat_map.
  - apply seq_combine_nodup.
  - intros [j nd] _. simpl. destruct (nkind nd) as [inputs|tr lb].
    + apply NoDup_map_inj.
      * intros [q1 x1] [q2 x2] H1 H2 E. simpl in E. injection E as ->.
        apply filter_In in H1. apply filter_In in H2. destruct H1 as [H1 _], H2 as [H2 _].
        apply combine_seq_in in H1. apply combine_seq_in in H2. destruct H1 as [_ H1], H2 as [_ H2]. rewrite H1 in H2. injection H2 as ->. reflexivity.
      * apply NoDup_filter. apply seq_combine_nodup.
    + destruct (Nat.eqb (fst tr) i && Nat.eqb (snd tr) p), (Nat.eqb (fst lb) i && Nat.eqb (snd lb) p); simpl; repeat constructor; simpl; intuition discriminate.
  - intros [j1 n1] [j2 n2] [j q] H1 H2 Hz1 Hz2. simpl in Hz1, Hz2.
    assert (E1 : j = j1).
    { destruct (nkind n1) as [inputs|tr lb].
      - apply in_map_iff in Hz1. destruct Hz1 as [x [E _]]. injection E as -> _. reflexivity.
      - apply in_app_or in Hz1. destruct Hz1 as [Hz|Hz].
        + destruct (Nat.eqb (fst tr) i && Nat.eqb (snd tr) p); [|destruct Hz]. destruct Hz as [E|[]]. injection E as -> _. reflexivity.
        + destruct (Nat.eqb (fst lb) i && Nat.eqb (snd lb) p); [|destruct Hz]. destruct Hz as [E|[]]. injection E as -> _. reflexivity. }
    assert (E2 : j = j2).
    { destruct (nkind n2) as [inputs|tr lb].
      - apply in_map_iff in Hz2. destruct Hz2 as [x [E _]]. injection E as -> _. reflexivity.
      - apply in_app_or in Hz2. destruct Hz2 as [Hz|Hz].
        + destruct (Nat.eqb (fst tr) i && Nat.eqb (snd tr) p); [|destruct Hz]. destruct Hz as [E|[]]. injection E as -> _. reflexivity.
        + destruct (Nat.eqb (fst lb) i && Nat.eqb (snd lb) p); [|destruct Hz]. destruct Hz as [E|[]]. injection E as -> _. reflexivity. }
    subst j1 j2. apply combine_seq_in in H1. apply combine_seq_in in H2. destruct H1 as [_ H1], H2 as [_ H2].
    rewrite H1 in H2. injection H2 as ->. reflexivity.
Qed.

Section Step.
Variable a : assets.
Variable nodes : list node.
Hypothesis wf : WF a nodes.

Notation Inv := (Inv a nodes).
Notation fop := (fop a nodes).
Notation preset_of := (preset_of a nodes).
Notation getter_of := (getter_of).
Notation srckey := (srckey nodes).

(* ---- monotonicity ---------------------------------------------------------------------------------------- *)
Lemma getter_mono T B T' B' i p k : incl B B' -> (forall c I, In (I, [KF c]) B -> arow T' (KF c) = arow T (KF c)) ->
  getter_of T B i p k -> getter_of T' B' i p k.
Proof. intros Hi Ha [c [I [E [Hin [Ho Hr]]]]]. exists c, I. repeat split; auto. rewrite (Ha c I Hin). exact Hr. Qed.

Lemma srckey_mono T B T' B' ip k : incl B B' -> (forall c I, In (I, [KF c]) B -> arow T' (KF c) = arow T (KF c)) ->
  srckey T B ip k -> srckey T' B' ip k.
Proof.
  intros Hi Ha [ndi [Hn H]]. exists ndi. split; [exact Hn|]. destruct H as [H|[Hz H]]; [left; exact H|right].
  split; [exact Hz|]. apply (getter_mono T B); assumption.
Qed.

Lemma bkind_mono Sf (Dn : nat -> nat -> Prop) T Sf' (Dn' : nat -> nat -> Prop) T' I ks : incl Sf Sf' ->
  (forall c, ks = [KF c] -> arow T' (KF c) = arow T (KF c)) -> bkind a nodes Sf Dn T I ks -> bkind a nodes Sf' Dn' T' I ks.
Proof.
  intros Hs Ha H. destruct H as [i nd I Hi Hn Ho|i nd p c I Hdn Hn Ht Hz Hp Ho Hr].
  - apply BFun; auto.
  - apply (BGet a nodes Sf' Dn' T' i nd p c I); auto. rewrite (Ha c eq_refl). exact Hr.
Qed.

(* ---- keys present in the index ------------------------------------------------------------------------------ *)
Lemma ku_absent Sf Dn T B i : Inv Sf Dn T B -> ~ In i Sf -> instr_at T (KU i) = None.
Proof.
  intros H Hi. unfold instr_at. rewrite (v_idx _ _ _ _ _ _ H). apply assoc_none. intros X.
  apply expand_keys in X. destruct X as [[I ks] [Hb Hk]]. simpl in Hk.
  destruct (v_kinds _ _ _ _ _ _ H I ks Hb) as [i' nd I0 Hi' Hn Ho|i' nd p c I0 Hd Hn Ht Hz Hp Ho Hr].
  - unfold fkeys in Hk. destruct Hk as [E|Hk]; [injection E as ->; contradiction|].
    destruct (strain nd); [destruct Hk as [E|[]]; discriminate|destruct Hk].
  - destruct Hk as [E|[]]. discriminate.
Qed.

Lemma kg_absent Sf Dn T B i nd : Inv Sf Dn T B -> ~ In i Sf -> nth_error nodes i = Some nd -> is_train nd = true ->
  instr_at T (KG (ngid nd)) = None.
Proof.
  intros H Hi Hn Ht. unfold instr_at. rewrite (v_idx _ _ _ _ _ _ H). apply assoc_none. intros X.
  apply expand_keys in X. destruct X as [[I ks] [Hb Hk]]. simpl in Hk.
  destruct (v_kinds _ _ _ _ _ _ H I ks Hb) as [i' nd' I0 Hi' Hn' Ho|i' nd' p c I0 Hd Hn' Ht' Hz Hp Ho Hr].
  - unfold fkeys in Hk. destruct Hk as [E|Hk]; [discriminate|].
    destruct (strain nd') eqn:Es; [|destruct Hk]. destruct Hk as [E|[]]. injection E as E.
    unfold strain in Es. apply andb_prop in Es. destruct Es as [_ Et'].
    assert (i' = i) by (apply (w_unique a nodes wf i' nd' i nd Hn' Hn Et' Ht E)). subst. contradiction.
  - destruct Hk as [E|[]]. discriminate.
Qed.

Lemma kf_fresh Sf Dn T B c : Inv Sf Dn T B -> next T <= c -> instr_at T (KF c) = None /\ arow T (KF c) = [] /\ prow T (KF c) = [].
Proof.
  intros H Hc. assert (Hk : ~ In (KF c) (map fst (expand B))).
  { intros X. apply (proj2 (v_next _ _ _ _ _ _ H)) in X. lia. }
  split; [|split].
  - unfold instr_at. rewrite (v_idx _ _ _ _ _ _ H). apply assoc_none. exact Hk.
  - destruct (arow T (KF c)) eqn:E; [reflexivity|]. exfalso.
    destruct (v_arows _ _ _ _ _ _ H (KF c)) as [[j [nd [X _]]]|X]; [rewrite E; discriminate|discriminate|contradiction].
  - destruct (prow T (KF c)) eqn:E; [reflexivity|]. exfalso.
    destruct (v_prows _ _ _ _ _ _ H (KF c)) as [j [_ X]]; [rewrite E; discriminate|discriminate].
Qed.

(* ---- phase 3: preset prefix and functor registration ------------------------------------------------------ *)
Definition reg_state (T : tbl) (i : nat) (nd : node) : tbl :=
  let T1 := if preset_of i nd then prepend T (KU i) (KG (ngid nd)) else T in
  let F := Instr (next T) (fop i nd) in
  Tbl (index T ++ (KU i, F) :: (if strain nd then [(KG (ngid nd), F)] else [])) (absl T) (pref T1) (committer T) (S (next T)).

Lemma preset_nopers i nd : nth_error nodes i = Some nd -> preset_of i nd = nstateful nd && derived nodes i nd.
Proof.
  intros Hn. pose proof (w_nopers a nodes wf i nd Hn) as Hp. unfold C01Inv.preset_of. rewrite Hp. simpl. reflexivity.
Qed.

Lemma add_unfold Sf Dn T B i nd : Inv Sf Dn T B -> ~ In i Sf -> nth_error nodes i = Some nd ->
  add a nodes T i = if is_train nd then Some (reg_state T i nd) else update nodes (reg_state T i nd) i nd.
Proof.
  intros H Hi Hn. unfold add. rewrite Hn. simpl.
  pose proof (ku_absent _ _ _ _ _ H Hi) as Hku. unfold instr_at in Hku. rewrite Hku.
  pose proof (w_nopers a nodes wf i nd Hn) as Hp. unfold pers in Hp. rewrite Hp. rewrite andb_false_r. simpl.
  unfold reg_state, C01Inv.fop. rewrite (preset_nopers i nd Hn). unfold strain.
  assert (Hkg : is_train nd = true -> assoc (KG (ngid nd)) (index T) = None).
  { intros Et. exact (kg_absent _ _ _ _ _ _ H Hi Hn Et). }
  assert (Hst : nstateful nd && is_train nd = is_train nd).
  { destruct (is_train nd) eqn:Et; [rewrite (w_train_stateful a nodes wf i nd Hn Et); reflexivity|apply andb_false_r]. }
  rewrite Hst.
  destruct (nstateful nd && derived nodes i nd) eqn:Epre; unfold index_set; simpl; rewrite Hku; simpl;
    destruct (is_train nd) eqn:Et; simpl.
  - rewrite assoc_app, (Hkg eq_refl). simpl. rewrite <- app_assoc. reflexivity.
  - reflexivity.
  - rewrite assoc_app, (Hkg eq_refl). simpl. rewrite <- app_assoc. reflexivity.
  - reflexivity.
Qed.

Lemma reg_arow T i nd k : arow (reg_state T i nd) k = arow T k.
Proof. reflexivity. Qed.

Lemma reg_prow T i nd k : prow (reg_state T i nd) k =
  if preset_of i nd && key_eqb k (KU i) then prow T (KU i) ++ [KG (ngid nd)] else prow T k.
Proof.
  unfold reg_state. destruct (preset_of i nd); simpl; [|reflexivity].
  change (prow (prepend T (KU i) (KG (ngid nd))) k = if key_eqb k (KU i) then prow T (KU i) ++ [KG (ngid nd)] else prow T k).
  apply prepend_prow.
Qed.

Lemma expand_snoc_fun B F i nd :
  expand (B ++ [(F, fkeys i nd)]) = expand B ++ (KU i, F) :: (if strain nd then [(KG (ngid nd), F)] else []).
Proof. rewrite expand_app. unfold expand at 2. simpl. rewrite app_nil_r. unfold fkeys. destruct (strain nd); reflexivity. Qed.

Lemma reg_inv Sf Dn T B i nd : Inv Sf Dn T B -> ~ In i Sf -> nth_error nodes i = Some nd ->
  Inv (i :: Sf) Dn (reg_state T i nd) (B ++ [(Instr (next T) (fop i nd), fkeys i nd)]).
Proof.
  intros H Hi Hn. set (F := Instr (next T) (fop i nd)).
  pose proof (ku_absent _ _ _ _ _ H Hi) as Hku.
  assert (Hkg : strain nd = true -> instr_at T (KG (ngid nd)) = None).
  { intros Es. unfold strain in Es. apply andb_prop in Es. exact (kg_absent _ _ _ _ _ _ H Hi Hn (proj2 Es)). }
  assert (Hinc : incl B (B ++ [(F, fkeys i nd)])) by (intros x Hx; apply in_or_app; left; exact Hx).
  assert (Hkeys : forall k, In k (map fst (expand (B ++ [(F, fkeys i nd)]))) <-> In k (map fst (expand B)) \/ In k (fkeys i nd)).
  { intros k. rewrite !expand_keys. split.
    - intros [b [Hb Hk]]. apply in_app_or in Hb. destruct Hb as [Hb|[<-|[]]]; [left; exists b; auto|right; exact Hk].
    - intros [[b [Hb Hk]]|Hk]; [exists b; split; [apply in_or_app; left; exact Hb|exact Hk]|].
      exists (F, fkeys i nd). split; [apply in_or_app; right; left; reflexivity|exact Hk]. }
  assert (Hnotin : forall k, In k (fkeys i nd) -> ~ In k (map fst (expand B))).
  { intros k Hk X. rewrite <- (v_idx _ _ _ _ _ _ H) in X. apply (proj1 (assoc_none k (index T))) in X; [exact X|].
    unfold fkeys in Hk. destruct Hk as [<-|Hk]; [exact Hku|]. destruct (strain nd) eqn:Es; [|destruct Hk].
    destruct Hk as [<-|[]]. exact (Hkg eq_refl). }
  constructor.
  - (* v_idx *) rewrite expand_snoc_fun. unfold reg_state. simpl. rewrite (v_idx _ _ _ _ _ _ H). reflexivity.
  - (* v_ids *) rewrite map_app. simpl. apply NoDup_app_intro; [exact (v_ids _ _ _ _ _ _ H)|constructor; [intros []|constructor]|].
    intros z Hz [<-|[]]. apply in_map_iff in Hz. destruct Hz as [b [E Hb]].
    pose proof (proj1 (v_next _ _ _ _ _ _ H) b Hb) as X. unfold bid in *. simpl in E. lia.
  - (* v_keys *) rewrite expand_snoc_fun, map_app. apply NoDup_app_intro; [exact (v_keys _ _ _ _ _ _ H)| |].
    + simpl. destruct (strain nd); simpl; repeat constructor; simpl; intuition discriminate.
    + intros z Hz Hz'. apply (Hnotin z); [|exact Hz]. unfold fkeys. simpl in Hz'.
      destruct Hz' as [<-|Hz']; [left; reflexivity|]. right. destruct (strain nd); [|destruct Hz']. simpl in Hz'. exact Hz'.
  - (* v_next *) split.
    + intros b Hb. apply in_app_or in Hb. simpl. destruct Hb as [Hb|[<-|[]]]; [pose proof (proj1 (v_next _ _ _ _ _ _ H) b Hb); lia|unfold bid; simpl; lia].
    + intros c Hc. apply Hkeys in Hc. simpl. destruct Hc as [Hc|Hc]; [pose proof (proj2 (v_next _ _ _ _ _ _ H) c Hc); lia|].
      unfold fkeys in Hc. destruct Hc as [E|Hc]; [discriminate|]. destruct (strain nd); [destruct Hc as [E|[]]; discriminate|destruct Hc].
  - (* v_arows *) intros k Hk. rewrite reg_arow in Hk. destruct (v_arows _ _ _ _ _ _ H k Hk) as [X|X]; [left; exact X|right; apply Hkeys; left; exact X].
  - (* v_prows *) intros k Hk. rewrite reg_prow in Hk. destruct (preset_of i nd && key_eqb k (KU i)) eqn:E.
    + apply andb_prop in E. destruct E as [_ E]. apply key_eqb_eq in E. exists i. split; [left; reflexivity|exact E].
    + destruct (v_prows _ _ _ _ _ _ H k Hk) as [j [Hj E']]. exists j. split; [right; exact Hj|exact E'].
  - (* v_anodup *) split; [exact (proj1 (v_anodup _ _ _ _ _ _ H))|]. unfold reg_state. simpl.
    destruct (preset_of i nd); [unfold prepend; simpl; apply assoc_set_nodup|]; exact (proj2 (v_anodup _ _ _ _ _ _ H)).
  - (* v_comm *) exact (v_comm _ _ _ _ _ _ H).
  - (* v_rowsne *) split; [exact (proj1 (v_rowsne _ _ _ _ _ _ H))|].
    intros k Hk. rewrite reg_prow. unfold reg_state in Hk. simpl in Hk. destruct (preset_of i nd) eqn:Ep; simpl.
    + unfold prepend in Hk. simpl in Hk. apply assoc_set_keys in Hk. destruct (key_eqb k (KU i)) eqn:E.
      * intros X. apply app_eq_nil in X. destruct X as [_ X]. discriminate.
      * destruct Hk as [->|Hk]; [rewrite key_eqb_refl in E; discriminate|]. exact (proj2 (v_rowsne _ _ _ _ _ _ H) k Hk).
    + exact (proj2 (v_rowsne _ _ _ _ _ _ H) k Hk).
  - (* v_kgrow *) exact (v_kgrow _ _ _ _ _ _ H).
  - (* v_kinds *) intros I ks Hin. apply in_app_or in Hin. destruct Hin as [Hin|[E|[]]].
    + apply (bkind_mono Sf Dn T); [intros x Hx; right; exact Hx|intros c _; reflexivity|exact (v_kinds _ _ _ _ _ _ H I ks Hin)].
    + injection E as <- <-. apply (BFun a nodes (i :: Sf) Dn (reg_state T i nd) i nd F); [left; reflexivity|exact Hn|reflexivity].
  - (* v_fun *) intros j [<-|Hj].
    + exists nd, F. split; [exact Hn|]. split; [apply in_or_app; right; left; reflexivity|reflexivity].
    + destruct (v_fun _ _ _ _ _ _ H j Hj) as [ndj [I [Hnj [Hin Ho]]]]. exists ndj, I. split; [exact Hnj|]. split; [apply Hinc; exact Hin|exact Ho].
  - (* v_get *) intros j ndj p Hd Hnj Ht Hz Hp. destruct (v_get _ _ _ _ _ _ H j ndj p Hd Hnj Ht Hz Hp) as [k Hk].
    exists k. apply (getter_mono T B); [exact Hinc|intros c I _; reflexivity|exact Hk].
  - (* v_rows *) intros j ndj Hnj. destruct (v_rows _ _ _ _ _ _ H j ndj Hnj) as [Hl Hq]. split; [exact Hl|].
    intros q ip Hip. destruct (Hq q ip Hip) as [H1 H2]. split; [|exact H2].
    intros Hd. destruct (H1 Hd) as [k [Hk Hs]]. exists k. split; [exact Hk|]. apply (srckey_mono T B); [exact Hinc|intros c I _; reflexivity|exact Hs].
  - (* v_pref *) intros j ndj Hnj. rewrite reg_prow. destruct (v_pref _ _ _ _ _ _ H j ndj Hnj) as [H1 H2].
    destruct (Nat.eq_dec j i) as [->|Hne].
    + rewrite Hn in Hnj. injection Hnj as <-. rewrite key_eqb_refl, andb_true_r. split.
      * intros _ Hp. rewrite Hp. rewrite (H2 (or_introl Hi)). reflexivity.
      * intros [X|X]; [exfalso; apply X; left; reflexivity|]. rewrite X. apply H2. left. exact Hi.
    + assert (E : key_eqb (KU j) (KU i) = false) by (apply key_eqb_neq; intros X; injection X as X; contradiction).
      rewrite E, andb_false_r. split.
      * intros [X|X]; [exfalso; apply Hne; symmetry; exact X|]. apply H1. exact X.
      * intros [X|X]; [apply H2; left; intros Y; apply X; right; exact Y|apply H2; right; exact X].
Qed.

(* ---- phase 4: Linkage.update, one output port ------------------------------------------------------------- *)
Definition port_slots (i p : nat) (src : key) : list slot :=
  map (fun s => ((KU (fst s), src), snd s)) (subscribers nodes i p).

Lemma port_slots_in i p src x : In x (port_slots i p src) <->
  exists j q ndj, x = ((KU j, src), q) /\ nth_error nodes j = Some ndj /\ nth_error (ports ndj) q = Some (i, p).
Proof.
  unfold port_slots. rewrite in_map_iff. split.
  - intros [[j q] [E H]]. apply subscribers_spec in H. destruct H as [ndj [Hn Hq]]. exists j, q, ndj. simpl in E. auto.
  - intros [j [q [ndj [E [Hn Hq]]]]]. exists (j, q). split; [simpl; auto|]. apply subscribers_spec. exists ndj. auto.
Qed.

Lemma port_slots_nodup i p src : NoDup (map tgt (port_slots i p src)).
Proof.
  unfold port_slots. rewrite map_map. apply NoDup_map_inj; [|apply subscribers_nodup].
  intros [j q] [j' q'] _ _ E. unfold tgt, s_ins, s_idx in E. simpl in E. injection E as -> ->. reflexivity.
Qed.

Lemma prow_same T T' k : pref T' = pref T -> prow T' k = prow T k.
Proof. unfold prow. intros ->. reflexivity. Qed.

Lemma port_inv Sf (D : nat -> nat -> Prop) T B i nd p src :
  Inv Sf D T B -> nth_error nodes i = Some nd -> ~ D i p ->
  (forall T', (forall c, arow T' (KF c) = arow T (KF c)) -> srckey T' B (i, p) src) ->
  fold_opt (fun t s => insert t (KU (fst s)) src (Some (snd s))) (subscribers nodes i p) T = Some (ins_all T (port_slots i p src))
  /\ Inv Sf (fun j p' => D j p' \/ (j = i /\ p' = p)) (ins_all T (port_slots i p src)) B.
Proof.
  intros H Hn Hnd Hsrc. set (L := port_slots i p src). set (T' := ins_all T L).
  destruct (ins_all_fields T L) as [Fi [Fp [Fc Fn]]]. fold T' in Fi, Fp, Fc, Fn.
  assert (Hkf : forall c, arow T' (KF c) = arow T (KF c)).
  { intros c. apply ins_all_arow_other. intros x Hx E. apply port_slots_in in Hx. destruct Hx as [j [q [ndj [-> _]]]]. discriminate E. }
  assert (Hfree : forall x, In x L -> aget T (s_ins x) (s_idx x) = None).
  { intros x Hx. apply port_slots_in in Hx. destruct Hx as [j [q [ndj [-> [Hnj Hq]]]]]. unfold s_ins, s_idx. simpl.
    destruct (v_rows _ _ _ _ _ _ H j ndj Hnj) as [_ Hr]. apply (proj2 (Hr q (i, p) Hq)). exact Hnd. }
  split.
  - rewrite (fold_opt_map (fun t x => insert t (s_ins x) (s_arg x) (Some (s_idx x))) (fun s => ((KU (fst s), src), snd s))).
    apply fold_insert_ok; [apply port_slots_nodup|exact Hfree].
  - constructor.
    + rewrite Fi. exact (v_idx _ _ _ _ _ _ H).
    + exact (v_ids _ _ _ _ _ _ H).
    + exact (v_keys _ _ _ _ _ _ H).
    + rewrite Fn. exact (v_next _ _ _ _ _ _ H).
    + intros k Hk. destruct (ins_all_nonempty T L k Hk) as [X|[x [Hx E]]]; [exact (v_arows _ _ _ _ _ _ H k X)|].
      apply port_slots_in in Hx. destruct Hx as [j [q [ndj [-> [Hnj _]]]]]. left. exists j, ndj. split; [symmetry; exact E|exact Hnj].
    + intros k Hk. rewrite (prow_same T T' k Fp) in Hk. exact (v_prows _ _ _ _ _ _ H k Hk).
    + split; [apply ins_all_nodup; exact (proj1 (v_anodup _ _ _ _ _ _ H))|rewrite Fp; exact (proj2 (v_anodup _ _ _ _ _ _ H))].
    + rewrite Fc. exact (v_comm _ _ _ _ _ _ H).
    + split.
      * intros k Hk. destruct (ins_all_keys T L k Hk) as [X|[x [Hx E]]].
        -- intros Y. unfold T' in Y. apply (proj1 (v_rowsne _ _ _ _ _ _ H) k X). pose proof (ins_all_len_ge T L k) as Z. rewrite Y in Z. simpl in Z.
           destruct (arow T k); [reflexivity|simpl in Z; lia].
        -- subst k. pose proof (ins_all_in T L x (port_slots_nodup i p src) Hx) as Z. unfold aget in Z.
           intros Y. unfold T' in Y. rewrite Y in Z. destruct (s_idx x); discriminate.
      * intros k Hk. rewrite Fp in Hk. rewrite (prow_same T T' k Fp). exact (proj2 (v_rowsne _ _ _ _ _ _ H) k Hk).
    + intros g. unfold T'. rewrite ins_all_arow_other; [exact (v_kgrow _ _ _ _ _ _ H g)|].
      intros x Hx E. apply port_slots_in in Hx. destruct Hx as [j [q [ndj [-> _]]]]. discriminate E.
    + intros I ks Hin. apply (bkind_mono Sf D T); [intros x Hx; exact Hx|intros c _; apply Hkf|exact (v_kinds _ _ _ _ _ _ H I ks Hin)].
    + exact (v_fun _ _ _ _ _ _ H).
    + intros j ndj q [Hd|[-> ->]] Hnj Ht Hz Hq.
      * destruct (v_get _ _ _ _ _ _ H j ndj q Hd Hnj Ht Hz Hq) as [k Hk]. exists k. apply (getter_mono T B); [intros x Hx; exact Hx|intros c I _; apply Hkf|exact Hk].
      * destruct (Hsrc T' Hkf) as [ndi [Hni [[Hone _]|[_ Hg]]]]; simpl in Hni; rewrite Hnj in Hni; injection Hni as <-; [contradiction|].
        exists src. exact Hg.
    + intros j ndj Hnj. destruct (v_rows _ _ _ _ _ _ H j ndj Hnj) as [Hl Hr]. split.
      * apply ins_all_len; [exact Hl|]. intros x Hx E. apply port_slots_in in Hx. destruct Hx as [j' [q [ndj' [-> [Hnj' Hq]]]]].
        unfold s_ins in E. simpl in E. injection E as ->. rewrite Hnj in Hnj'. injection Hnj' as <-.
        unfold s_idx. simpl. apply nth_error_Some. rewrite Hq. discriminate.
      * intros q ip Hip. destruct (Hr q ip Hip) as [H1 H2].
        assert (Hother : ip <> (i, p) -> aget T' (KU j) q = aget T (KU j) q).
        { intros Hne. apply ins_all_out. intros x Hx E. apply port_slots_in in Hx. destruct Hx as [j' [q' [ndj' [-> [Hnj' Hq']]]]].
          unfold tgt, s_ins, s_idx in E. simpl in E. injection E as -> ->. rewrite Hnj in Hnj'. injection Hnj' as <-.
          rewrite Hip in Hq'. injection Hq' as ->. apply Hne. reflexivity. }
        split.
        -- intros [Hd|[E1 E2]].
           ++ destruct (H1 Hd) as [k [Hk Hs]]. exists k. split.
              ** rewrite Hother; [exact Hk|]. intros ->. simpl in Hd. contradiction.
              ** apply (srckey_mono T B); [intros x Hx; exact Hx|intros c I _; apply Hkf|exact Hs].
           ++ assert (ip = (i, p)) by (destruct ip; simpl in *; subst; reflexivity). subst ip.
              exists src. split; [|exact (Hsrc T' Hkf)].
              assert (Hx : In ((KU j, src), q) L) by (apply port_slots_in; exists j, q, ndj; auto).
              exact (ins_all_in T L ((KU j, src), q) (port_slots_nodup i p src) Hx).
        -- intros Hd. rewrite Hother.
           ++ apply H2. intros X. apply Hd. left. exact X.
           ++ intros ->. apply Hd. right. auto.
    + intros j ndj Hnj. rewrite (prow_same T T' (KU j) Fp). exact (v_pref _ _ _ _ _ _ H j ndj Hnj).
Qed.

(* ---- phase 4, multi-output nodes: a Getter per output port --------------------------------------------- *)
Definition getter_state (T : tbl) (i p : nat) : tbl :=
  inserted (Tbl (index T ++ [(KF (S (next T)), Instr (next T) (OGetter p))]) (absl T) (pref T) (committer T) (S (S (next T))))
           (KF (S (next T))) (KU i) 0.

Lemma getter_reg_inv Sf (D : nat -> nat -> Prop) T B i nd p : Inv Sf D T B -> In i Sf -> nth_error nodes i = Some nd ->
  is_train nd = false -> nszout nd <> 1 -> p < nszout nd ->
  Inv Sf D (getter_state T i p) (B ++ [(Instr (next T) (OGetter p), [KF (S (next T))])])
  /\ arow (getter_state T i p) (KF (S (next T))) = [Some (KU i)].
Proof.
  intros H Hi Hn Ht Hz Hp. set (kf := KF (S (next T))). set (G := Instr (next T) (OGetter p)).
  destruct (kf_fresh _ _ _ _ (S (next T)) H ltac:(lia)) as [Hfi [Hfa Hfp]]. fold kf in Hfi, Hfa, Hfp.
  assert (Hrow : arow (getter_state T i p) kf = [Some (KU i)]).
  { unfold getter_state. rewrite inserted_arow, key_eqb_refl.
    match goal with |- context [padded ?r 0] => change r with (arow T kf) end.
    rewrite Hfa. reflexivity. }
  assert (Hold : forall k, k <> kf -> arow (getter_state T i p) k = arow T k).
  { intros k Hk. unfold getter_state. rewrite inserted_arow. fold kf. apply key_eqb_neq in Hk. rewrite Hk. reflexivity. }
  assert (Hinc : incl B (B ++ [(G, [kf])])) by (intros x Hx; apply in_or_app; left; exact Hx).
  assert (Hkin : forall c I, In (I, [KF c]) B -> KF c <> kf).
  { intros c I Hin E. assert (X : In (KF c) (map fst (expand B))) by (apply expand_keys; exists (I, [KF c]); split; [exact Hin|left; reflexivity]).
    apply (proj2 (v_next _ _ _ _ _ _ H)) in X. unfold kf in E. injection E as E. lia. }
  assert (Hkeys : forall k, In k (map fst (expand (B ++ [(G, [kf])]))) <-> In k (map fst (expand B)) \/ k = kf).
  { intros k. rewrite !expand_keys. split.
    - intros [b [Hb Hk]]. apply in_app_or in Hb. destruct Hb as [Hb|[<-|[]]]; [left; exists b; auto|right]. destruct Hk as [<-|[]]. reflexivity.
    - intros [[b [Hb Hk]]| ->]; [exists b; split; [apply in_or_app; left; exact Hb|exact Hk]|].
      exists (G, [kf]). split; [apply in_or_app; right; left; reflexivity|left; reflexivity]. }
  split; [|exact Hrow]. constructor.
  - rewrite expand_app. unfold getter_state, inserted. simpl. rewrite (v_idx _ _ _ _ _ _ H). reflexivity.
  - rewrite map_app. simpl. apply NoDup_app_intro; [exact (v_ids _ _ _ _ _ _ H)|constructor; [intros []|constructor]|].
    intros z Hzz [<-|[]]. apply in_map_iff in Hzz. destruct Hzz as [b [E Hb]].
    pose proof (proj1 (v_next _ _ _ _ _ _ H) b Hb) as X. unfold bid in *. simpl in E. lia.
  - rewrite expand_app, map_app. apply NoDup_app_intro; [exact (v_keys _ _ _ _ _ _ H)|simpl; constructor; [intros []|constructor]|].
    intros z Hzz [<-|[]]. apply (proj2 (v_next _ _ _ _ _ _ H)) in Hzz. lia.
  - split.
    + intros b Hb. apply in_app_or in Hb. unfold getter_state, inserted. simpl.
      destruct Hb as [Hb|[<-|[]]]; [pose proof (proj1 (v_next _ _ _ _ _ _ H) b Hb); lia|unfold bid; simpl; lia].
    + intros c Hc. apply Hkeys in Hc. unfold getter_state, inserted. simpl.
      destruct Hc as [Hc|Hc]; [pose proof (proj2 (v_next _ _ _ _ _ _ H) c Hc); lia|]. unfold kf in Hc. injection Hc as ->. lia.
  - intros k Hk. destruct (key_eq_dec k kf) as [->|Hne]; [right; apply Hkeys; right; reflexivity|].
    rewrite (Hold k Hne) in Hk. destruct (v_arows _ _ _ _ _ _ H k Hk) as [X|X]; [left; exact X|right; apply Hkeys; left; exact X].
  - intros k Hk. exact (v_prows _ _ _ _ _ _ H k Hk).
  - split; [unfold getter_state, inserted; simpl; apply assoc_set_nodup; exact (proj1 (v_anodup _ _ _ _ _ _ H))|exact (proj2 (v_anodup _ _ _ _ _ _ H))].
  - exact (v_comm _ _ _ _ _ _ H).
  - split; [|exact (proj2 (v_rowsne _ _ _ _ _ _ H))].
    intros k Hk. destruct (key_eq_dec k kf) as [->|Hne]; [rewrite Hrow; discriminate|]. rewrite (Hold k Hne).
    apply (proj1 (v_rowsne _ _ _ _ _ _ H)). unfold getter_state in Hk. apply inserted_keys in Hk. destruct Hk as [X|X]; [contradiction|exact X].
  - intros g. rewrite Hold by discriminate. exact (v_kgrow _ _ _ _ _ _ H g).
  - intros I ks Hin. apply in_app_or in Hin. destruct Hin as [Hin|[E|[]]].
    + apply (bkind_mono Sf D T); [intros x Hx; exact Hx| |exact (v_kinds _ _ _ _ _ _ H I ks Hin)].
      intros c ->. apply Hold. exact (Hkin c I Hin).
    + injection E as <- <-. apply (BGet a nodes Sf D (getter_state T i p) i nd p (S (next T)) G); auto.
  - intros j Hj. destruct (v_fun _ _ _ _ _ _ H j Hj) as [ndj [I [Hnj [Hin Ho]]]]. exists ndj, I. split; [exact Hnj|]. split; [apply Hinc; exact Hin|exact Ho].
  - intros j ndj q Hd Hnj Htj Hzj Hq. destruct (v_get _ _ _ _ _ _ H j ndj q Hd Hnj Htj Hzj Hq) as [k Hk].
    exists k. apply (getter_mono T B); [exact Hinc| |exact Hk]. intros c I Hin. apply Hold. exact (Hkin c I Hin).
  - intros j ndj Hnj. destruct (v_rows _ _ _ _ _ _ H j ndj Hnj) as [Hl Hr].
    assert (E : arow (getter_state T i p) (KU j) = arow T (KU j)) by (apply Hold; discriminate).
    split; [rewrite E; exact Hl|]. intros q ip Hip. destruct (Hr q ip Hip) as [H1 H2]. unfold aget. rewrite E. split; [|exact H2].
    intros Hd. destruct (H1 Hd) as [k [Hk Hs]]. exists k. split; [exact Hk|].
    apply (srckey_mono T B); [exact Hinc| |exact Hs]. intros c I Hin. apply Hold. exact (Hkin c I Hin).
  - intros j ndj Hnj. exact (v_pref _ _ _ _ _ _ H j ndj Hnj).
Qed.

Lemma nth_error_seq s n m y : nth_error (seq s n) m = Some y -> y = s + m /\ m < n.
Proof.
  revert s m. induction n as [|n IH]; intros s m H; simpl in H; [destruct m; discriminate|].
  destruct m as [|m]; simpl in H.
  - injection H as <-. split; lia.
  - destruct (IH (S s) m H) as [-> Hm]. split; lia.
Qed.

Definition Dnp (Dn : nat -> nat -> Prop) (i m : nat) : nat -> nat -> Prop := fun j p => Dn j p \/ (j = i /\ p < m).

Lemma getter_body_ok Sf Dn T B i nd m : Inv Sf (Dnp Dn i m) T B -> In i Sf -> nth_error nodes i = Some nd ->
  is_train nd = false -> nszout nd <> 1 -> m < nszout nd -> (forall p, ~ Dn i p) ->
  exists T' B',
    (let '(t1, g) := alloc T (OGetter m) in
     bind (index_fresh t1 g) (fun tk => let '(t2, source) := tk in
       bind (insert t2 source (KU i) None) (fun t3 =>
         fold_opt (fun t s => insert t (KU (fst s)) source (Some (snd s))) (subscribers nodes i m) t3))) = Some T'
    /\ Inv Sf (Dnp Dn i (S m)) T' B'.
Proof.
  intros H Hi Hn Ht Hz Hm Hfresh.
  destruct (kf_fresh _ _ _ _ (S (next T)) H ltac:(lia)) as [Hfi [Hfa Hfp]].
  destruct (getter_reg_inv Sf (Dnp Dn i m) T B i nd m H Hi Hn Ht Hz Hm) as [H1 Hrow].
  set (kf := KF (S (next T))) in *. set (G := Instr (next T) (OGetter m)) in *. set (B1 := B ++ [(G, [kf])]) in *.
  assert (Hnd : ~ Dnp Dn i m i m) by (intros [X|[_ X]]; [exact (Hfresh m X)|lia]).
  assert (Hsrc : forall T', (forall c, arow T' (KF c) = arow (getter_state T i m) (KF c)) -> srckey T' B1 (i, m) kf).
  { intros T' HT'. exists nd. split; [exact Hn|]. right. split; [exact Hz|]. exists (S (next T)), G.
    split; [reflexivity|]. split; [apply in_or_app; right; left; reflexivity|]. split; [reflexivity|]. rewrite HT'. exact Hrow. }
  destruct (port_inv Sf (Dnp Dn i m) (getter_state T i m) B1 i nd m kf H1 Hn Hnd Hsrc) as [Hfold Hinv].
  exists (ins_all (getter_state T i m) (port_slots i m kf)), B1. split.
  - unfold alloc. unfold index_fresh, index_set. simpl. unfold instr_at in Hfi. fold kf. rewrite Hfi. simpl.
    rewrite insert_none_ok by exact Hfa. simpl. exact Hfold.
  - apply (inv_ext a nodes wf Sf (fun j p' => Dnp Dn i m j p' \/ (j = i /\ p' = m))); [|exact Hinv].
    intros j ndj p' _ _ _. unfold Dnp. split.
    + intros [[X|[X1 X2]]|[X1 X2]]; [left; exact X|right; split; [exact X1|lia]|right; split; [exact X1|lia]].
    + intros [X|[X1 X2]]; [left; left; exact X|]. destruct (Nat.eq_dec p' m) as [->|Hne]; [right; auto|left; right; split; [exact X1|lia]].
Qed.

Lemma update_inv Sf Dn T B i nd : Inv Sf Dn T B -> In i Sf -> nth_error nodes i = Some nd -> is_train nd = false ->
  (forall p, ~ Dn i p) ->
  exists T' B', update nodes T i nd = Some T' /\ Inv Sf (Dnp Dn i (nszout nd)) T' B'.
Proof.
  intros H Hi Hn Ht Hfresh. unfold update.
  destruct (Nat.eq_dec (nszout nd) 1) as [E|Hz].
  - rewrite E.
    assert (Hsrc : forall T', (forall c, arow T' (KF c) = arow T (KF c)) -> srckey T' B (i, 0) (KU i)).
    { intros T' _. exists nd. split; [exact Hn|]. left. auto. }
    destruct (port_inv Sf Dn T B i nd 0 (KU i) H Hn (Hfresh 0) Hsrc) as [Hfold Hinv].
    exists (ins_all T (port_slots i 0 (KU i))), B. split; [exact Hfold|].
    apply (inv_ext a nodes wf Sf (fun j p' => Dn j p' \/ (j = i /\ p' = 0))); [|exact Hinv].
    intros j ndj p' _ _ _. unfold Dnp. split; (intros [X|[X1 X2]]; [left; exact X|right; split; [exact X1|lia]]).
  - assert (Hloop : exists T', fold_opt (fun t p =>
        let '(t1, g) := alloc t (OGetter p) in
        bind (index_fresh t1 g) (fun tk => let '(t2, source) := tk in
          bind (insert t2 source (KU i) None) (fun t3 =>
            fold_opt (fun t s => insert t (KU (fst s)) source (Some (snd s))) (subscribers nodes i p) t3)))
        (seq 0 (nszout nd)) T = Some T' /\ exists B', Inv Sf (Dnp Dn i (0 + List.length (seq 0 (nszout nd)))) T' B').
    { apply (fold_opt_inv _ (fun m t => exists B', Inv Sf (Dnp Dn i m) t B')).
      - exists B. apply (inv_ext a nodes wf Sf Dn); [|exact H]. intros j ndj p' _ _ _. unfold Dnp. split; [intros X; left; exact X|intros [X|[_ X]]; [exact X|lia]].
      - intros m y t Hy [Bt Ht']. simpl in Ht'. destruct (nth_error_seq _ _ _ _ Hy) as [-> Hm]. simpl.
        destruct (getter_body_ok Sf Dn t Bt i nd m Ht' Hi Hn Ht Hz Hm Hfresh) as [T' [B' [Hc Hi']]].
        exists T'. split; [exact Hc|exists B'; exact Hi']. }
    destruct Hloop as [T' [Hc [B' Hi']]]. rewrite seq_length in Hi'. simpl in Hi'.
    exists T', B'. split; [|exact Hi'].
    destruct (nszout nd) as [|[|k]] eqn:Ek; [exact Hc|exfalso; apply Hz; reflexivity|exact Hc].
Qed.

(* ---- one Table.add call, and the whole traversal ----------------------------------------------------------- *)
Definition allp (S : list nat) : nat -> nat -> Prop := fun j _ => In j S.

Lemma add_step S T B i nd : Inv S (allp S) T B -> ~ In i S -> nth_error nodes i = Some nd ->
  exists T' B', add a nodes T i = Some T' /\ Inv (i :: S) (allp (i :: S)) T' B'.
Proof.
  intros H Hi Hn. rewrite (add_unfold S (allp S) T B i nd H Hi Hn).
  pose proof (reg_inv S (allp S) T B i nd H Hi Hn) as H1.
  destruct (is_train nd) eqn:Et.
  - eexists. eexists. split; [reflexivity|].
    apply (inv_ext a nodes wf (i :: S) (allp S)); [|exact H1].
    intros j ndj p Hnj Htj _. unfold allp. split; [intros X; right; exact X|].
    intros [<-|X]; [|exact X]. rewrite Hn in Hnj. injection Hnj as <-. rewrite Et in Htj. discriminate.
  - destruct (update_inv (i :: S) (allp S) _ _ i nd H1 ltac:(left; reflexivity) Hn Et) as [T' [B' [Hc Hi']]].
    + intros p X. exact (Hi X).
    + exists T', B'. split; [exact Hc|].
      apply (inv_ext a nodes wf (i :: S) (Dnp (allp S) i (nszout nd))); [|exact Hi'].
      intros j ndj p Hnj _ Hp. unfold Dnp, allp. split.
      * intros [X|[-> _]]; [right; exact X|left; reflexivity].
      * intros [<-|X]; [|left; exact X]. right. rewrite Hn in Hnj. injection Hnj as <-. auto.
Qed.

Lemma fold_add : forall visit S T B, Inv S (allp S) T B -> NoDup visit -> (forall i, In i visit -> ~ In i S) ->
  (forall i, In i visit -> i < List.length nodes) ->
  exists T' B' S', fold_opt (add a nodes) visit T = Some T' /\ Inv S' (allp S') T' B' /\ (forall j, In j S' <-> In j visit \/ In j S).
Proof.
  induction visit as [|i visit IH]; intros S T B H Hd Hdis Hlt; simpl.
  - exists T, B, S. split; [reflexivity|]. split; [exact H|]. intros j. tauto.
  - inversion Hd as [|? ? Hni Hd']; subst.
    destruct (nth_error nodes i) as [nd|] eqn:Hn; [|apply nth_error_None in Hn; specialize (Hlt i (or_introl eq_refl)); lia].
    destruct (add_step S T B i nd H (Hdis i (or_introl eq_refl)) Hn) as [T1 [B1 [Hc H1]]]. rewrite Hc. simpl.
    destruct (IH (i :: S) T1 B1 H1 Hd') as [T' [B' [S' [Hc' [H' Hm]]]]].
    + intros j Hj [<-|X]; [contradiction|]. exact (Hdis j (or_intror Hj) X).
    + intros j Hj. apply Hlt. right. exact Hj.
    + exists T', B', S'. split; [exact Hc'|]. split; [exact H'|]. intros j. rewrite Hm. simpl. intuition.
Qed.

End Step.
