(* C01 - compiler correctness: one Table.add call preserves the invariant (segments without persistent groups). *)
Require Import List Bool ZArith Arith Lia.
From FV Require Import Lib.Sym Model.C01 Model.C01Compile Proofs.C01Prim Proofs.C01Blocks Proofs.C01Inv.
Import ListNotations.

(* ---- folds ------------------------------------------------------------------------------------------------- *)
Lemma fold_opt_inv {A B} (f : A -> B -> option A) (P : nat -> A -> Prop) :
  forall l k0 x0, P k0 x0 ->
  (forall k y x, nth_error l k = Some y -> P (k0 + k) x -> exists x', f x y = Some x' /\ P (S (k0 + k)) x') ->
  exists x', fold_opt f l x0 = Some x' /\ P (k0 + List.length l) x'.
Proof.
  induction l as [|y l IH]; intros k0 x0 H0 Hs; simpl.
  - exists x0. rewrite Nat.add_0_r. auto.
  - destruct (Hs 0 y x0 eq_refl) as [x1 [E1 H1]]; [rewrite Nat.add_0_r; exact H0|]. rewrite E1. simpl.
    rewrite Nat.add_0_r in H1.
    destruct (IH (S k0) x1 H1) as [x' [E' H']].
    + intros k z x Hn Hp. destruct (Hs (S k) z x Hn) as [x2 [E2 H2]]; [replace (k0 + S k) with (S k0 + k) by lia; exact Hp|].
      exists x2. split; [exact E2|]. replace (S (S k0 + k)) with (S (k0 + S k)) by lia. exact H2.
    + exists x'. split; [exact E'|]. replace (k0 + S (List.length l)) with (S k0 + List.length l) by lia. exact H'.
Qed.

(* a batch of Linkage.insert calls on distinct free slots *)
Definition slot := (key * key * nat)%type.     (* (receiver, argument, position) *)
Definition s_ins (x : slot) : key := fst (fst x).
Definition s_arg (x : slot) : key := snd (fst x).
Definition s_idx (x : slot) : nat := snd x.
Definition tgt (x : slot) : key * nat := (s_ins x, s_idx x).

Definition ins_all (t : tbl) (l : list slot) : tbl := fold_left (fun t x => inserted t (s_ins x) (s_arg x) (s_idx x)) l t.

Lemma ins_all_fields t l :
  index (ins_all t l) = index t /\ pref (ins_all t l) = pref t /\ committer (ins_all t l) = committer t /\ next (ins_all t l) = next t.
Proof. revert t. induction l as [|x l IH]; intros t; simpl; [auto|]. destruct (IH (inserted t (s_ins x) (s_arg x) (s_idx x))) as [H1 [H2 [H3 H4]]]. simpl in *. auto. Qed.

Lemma ins_all_out t l k q : (forall x, In x l -> tgt x <> (k, q)) -> aget (ins_all t l) k q = aget t k q.
Proof.
  revert t. induction l as [|x l IH]; intros t H; simpl; [reflexivity|].
  rewrite IH by (intros y Hy; apply H; right; exact Hy). rewrite inserted_aget.
  destruct (key_eqb k (s_ins x) && Nat.eqb q (s_idx x)) eqn:E; [|reflexivity].
  apply andb_prop in E. destruct E as [E1 E2]. apply key_eqb_eq in E1. apply Nat.eqb_eq in E2.
  exfalso. apply (H x); [left; reflexivity|]. unfold tgt. subst. reflexivity.
Qed.

Lemma ins_all_in t l x : NoDup (map tgt l) -> In x l -> aget (ins_all t l) (s_ins x) (s_idx x) = Some (s_arg x).
Proof.
  revert t. induction l as [|y l IH]; intros t Hd Hin; simpl; [destruct Hin|].
  inversion Hd as [|? ? Hn Hr]; subst. destruct Hin as [->|Hin].
  - rewrite ins_all_out.
    + rewrite inserted_aget, key_eqb_refl, Nat.eqb_refl. reflexivity.
    + intros z Hz E. apply Hn. apply in_map_iff. exists z. split; [exact E|exact Hz].
  - apply IH; assumption.
Qed.

Lemma ins_all_arow_other t l k : (forall x, In x l -> s_ins x <> k) -> arow (ins_all t l) k = arow t k.
Proof.
  revert t. induction l as [|x l IH]; intros t H; simpl; [reflexivity|].
  rewrite IH by (intros y Hy; apply H; right; exact Hy). rewrite inserted_arow.
  destruct (key_eqb k (s_ins x)) eqn:E; [|reflexivity]. apply key_eqb_eq in E. exfalso. apply (H x); [left; reflexivity|auto].
Qed.

Lemma ins_all_len t l k m : List.length (arow t k) <= m -> (forall x, In x l -> s_ins x = k -> s_idx x < m) ->
  List.length (arow (ins_all t l) k) <= m.
Proof.
  revert t. induction l as [|x l IH]; intros t H0 H; simpl; [exact H0|].
  apply IH; [|intros y Hy; apply H; right; exact Hy]. rewrite inserted_alen.
  destruct (key_eqb k (s_ins x)) eqn:E; [|exact H0]. apply key_eqb_eq in E. subst k.
  assert (s_idx x < m) by (apply H; [left; reflexivity|reflexivity]). lia.
Qed.

Lemma ins_all_nonempty t l k : arow (ins_all t l) k <> [] -> arow t k <> [] \/ exists x, In x l /\ s_ins x = k.
Proof.
  revert t. induction l as [|x l IH]; intros t H; simpl in H; [left; exact H|].
  destruct (IH _ H) as [H1|[y [Hy E]]].
  - rewrite inserted_arow in H1. destruct (key_eqb k (s_ins x)) eqn:E; [|left; exact H1].
    apply key_eqb_eq in E. right. exists x. split; [left; reflexivity|auto].
  - right. exists y. split; [right; exact Hy|exact E].
Qed.

Lemma ins_all_len_ge t l k : List.length (arow t k) <= List.length (arow (ins_all t l) k).
Proof.
  revert t. induction l as [|x l IH]; intros t; simpl; [lia|].
  eapply Nat.le_trans; [|apply IH]. rewrite inserted_alen. destruct (key_eqb k (s_ins x)) eqn:E; [|lia].
  apply key_eqb_eq in E. subst k. lia.
Qed.

Lemma ins_all_keys t l k : In k (map fst (absl (ins_all t l))) -> In k (map fst (absl t)) \/ exists x, In x l /\ s_ins x = k.
Proof.
  revert t. induction l as [|x l IH]; intros t H; simpl in H; [left; exact H|].
  destruct (IH _ H) as [X|[y [Hy E]]].
  - apply inserted_keys in X. destruct X as [->|X]; [right; exists x; split; [left; reflexivity|reflexivity]|left; exact X].
  - right. exists y. split; [right; exact Hy|exact E].
Qed.

Lemma ins_all_nodup t l : NoDup (map fst (absl t)) -> NoDup (map fst (absl (ins_all t l))).
Proof.
  revert t. induction l as [|x l IH]; intros t H; simpl; [exact H|]. apply IH. unfold inserted. simpl. apply assoc_set_nodup. exact H.
Qed.

Lemma fold_insert_ok t (l : list slot) : NoDup (map tgt l) -> (forall x, In x l -> aget t (s_ins x) (s_idx x) = None) ->
  fold_opt (fun t x => insert t (s_ins x) (s_arg x) (Some (s_idx x))) l t = Some (ins_all t l).
Proof.
  revert t. induction l as [|x l IH]; intros t Hd H; simpl; [reflexivity|].
  inversion Hd as [|? ? Hn Hr]; subst. rewrite insert_some_ok by (apply H; left; reflexivity). simpl.
  apply IH; [exact Hr|]. intros y Hy. rewrite inserted_aget.
  destruct (key_eqb (s_ins y) (s_ins x) && Nat.eqb (s_idx y) (s_idx x)) eqn:E; [|apply H; right; exact Hy].
  apply andb_prop in E. destruct E as [E1 E2]. apply key_eqb_eq in E1. apply Nat.eqb_eq in E2.
  exfalso. apply Hn. apply in_map_iff. exists y. split; [unfold tgt; rewrite E1, E2; reflexivity|exact Hy].
Qed.

Lemma fold_opt_map {A B C} (f : A -> C -> option A) (g : B -> C) l x :
  fold_opt (fun t y => f t (g y)) l x = fold_opt f (map g l) x.
Proof. revert x. induction l as [|y l IH]; intros x; simpl; [reflexivity|]. destruct (f x (g y)); simpl; [apply IH|reflexivity]. Qed.

(* ---- the subscriber lists have no duplicates ------------------------------------------------------------- *)
Lemma seq_combine_nodup {A} (l : list A) s : NoDup (combine (seq s (List.length l)) l).
Proof.
  revert s. induction l as [|x l IH]; intros s; simpl; [constructor|]. constructor; [|apply IH].
  intros H. apply combine_seq_in in H. lia.
Qed.

Lemma subscribers_nodup nodes i p : NoDup (subscribers nodes i p).
Proof.
  unfold subscribers. apply NoDup_flat_map.
  - apply seq_combine_nodup.
  - intros [j nd] _. simpl. destruct (nkind nd) as [inputs|tr lb].
    + apply NoDup_map_inj.
      * intros [q1 x1] [q2 x2] H1 H2 E. simpl in E. injection E as ->.
        apply filter_In in H1. apply filter_In in H2. destruct H1 as [H1 _], H2 as [H2 _].
        apply combine_seq_in in H1. apply combine_seq_in in H2. destruct H1 as [_ H1], H2 as [_ H2]. rewrite H1 in H2. injection H2 as ->. reflexivity.
      * apply NoDup_filter. apply seq_combine_nodup.
    + destruct (Nat.eqb (fst tr) i && Nat.eqb (snd tr) p), (Nat.eqb (fst lb) i && Nat.eqb (snd lb) p); simpl; repeat constructor; simpl; intuition discriminate.
  - intros [j1 n1] [j2 n2] [j q] H1 H2 Hz1 Hz2. simpl in Hz1, Hz2.
    assert (E1 : j = j1).
    { destruct (nkind n1) as [inputs|tr lb].
      - apply in_map_iff in Hz1. destruct Hz1 as [x [E _]]. injection E as -> _. reflexivity.
      - apply in_app_or in Hz1. destruct Hz1 as [Hz|Hz].
        + destruct (Nat.eqb (fst tr) i && Nat.eqb (snd tr) p); [|destruct Hz]. destruct Hz as [E|[]]. injection E as -> _. reflexivity.
        + destruct (Nat.eqb (fst lb) i && Nat.eqb (snd lb) p); [|destruct Hz]. destruct Hz as [E|[]]. injection E as -> _. reflexivity. }
    assert (E2 : j = j2).
    { destruct (nkind n2) as [inputs|tr lb].
      - apply in_map_iff in Hz2. destruct Hz2 as [x [E _]]. injection E as -> _. reflexivity.
      - apply in_app_or in Hz2. destruct Hz2 as [Hz|Hz].
        + destruct (Nat.eqb (fst tr) i && Nat.eqb (snd tr) p); [|destruct Hz]. destruct Hz as [E|[]]. injection E as -> _. reflexivity.
        + destruct (Nat.eqb (fst lb) i && Nat.eqb (snd lb) p); [|destruct Hz]. destruct Hz as [E|[]]. injection E as -> _. reflexivity. }
    subst j1 j2. apply combine_seq_in in H1. apply combine_seq_in in H2. destruct H1 as [_ H1], H2 as [_ H2].
    rewrite H1 in H2. injection H2 as ->. reflexivity.
Qed.

Section Step.
Variable a : assets.
Variable nodes : list node.
Hypothesis wf : WF a nodes.

Notation Inv := (Inv a nodes).
Notation PInv := (PInv a nodes).
Notation bkind := (bkind a nodes).
Notation fop := (fop a nodes).
Notation preset_of := (preset_of a nodes).
Notation pers := (pers a).
Notation srckey := (srckey nodes).
Notation statekey_ok := (statekey_ok a).
Notation trainer_in := (trainer_in nodes).

(* ---- monotonicity ---------------------------------------------------------------------------------------- *)
Definition same_kf (T T' : tbl) (B : blocks) : Prop :=
  forall c I, In (I, [KF c]) B -> iop I <> OCommitter -> arow T' (KF c) = arow T (KF c).

Lemma getter_mono T B T' B' i p k : incl B B' -> same_kf T T' B -> getter_of T B i p k -> getter_of T' B' i p k.
Proof. intros Hi Ha [c [I [E [Hin [Ho Hr]]]]]. exists c, I. repeat split; auto. rewrite (Ha c I Hin) by (rewrite Ho; discriminate). exact Hr. Qed.

Lemma srckey_mono T B T' B' ip k : incl B B' -> same_kf T T' B -> srckey T B ip k -> srckey T' B' ip k.
Proof.
  intros Hi Ha [ndi [Hn H]]. exists ndi. split; [exact Hn|]. destruct H as [H|[Hz H]]; [left; exact H|right].
  split; [exact Hz|]. apply (getter_mono T B); assumption.
Qed.

Lemma dumper_mono T B T' B' i k : incl B B' -> same_kf T T' B -> dumper_of T B i k -> dumper_of T' B' i k.
Proof. intros Hi Ha [c [I [E [Hin [Ho Hr]]]]]. exists c, I. repeat split; auto. rewrite (Ha c I Hin) by (rewrite Ho; discriminate). exact Hr. Qed.

Lemma loader_mono B B' g k : incl B B' -> loader_at B g k -> loader_at B' g k.
Proof. intros Hi [I [Hin Ho]]. exists I. auto. Qed.

Lemma statekey_mono B B' nd sk : incl B B' -> statekey_ok B nd sk -> statekey_ok B' nd sk.
Proof. unfold C01Inv.statekey_ok. intros Hi. destruct (strain nd && pers nd); [|auto]. intros [X Y]. split; [exact X|apply (loader_mono B); assumption]. Qed.

Lemma bkind_mono Sf T Sf' T' I ks : incl Sf Sf' ->
  (forall k, ks = [k] -> (forall j, k <> KU j) -> iop I <> OCommitter -> arow T' k = arow T k) -> committer T' = committer T ->
  bkind Sf T I ks -> bkind Sf' T' I ks.
Proof.
  intros Hs Ha Hc H. destruct H as [i nd I Hi Hn Ho|i nd p c I Hi Hn Ht Hz Hp Ho Hr|g k I Ho Hp Hr Hk|i nd c I Hn Hsp Ho Hr|c I Ho Hcm].
  - apply BFun; auto.
  - apply (BGet a nodes Sf' T' i nd p c I); auto. rewrite (Ha _ eq_refl); [exact Hr|intros j; discriminate|rewrite Ho; discriminate].
  - apply (BLoad a nodes Sf' T' g k I); auto. rewrite (Ha _ eq_refl); [exact Hr| |rewrite Ho; discriminate]. intros j E. subst k. destruct Hk as [X|[c X]]; discriminate.
  - apply (BDump a nodes Sf' T' i nd c I); auto. rewrite (Ha _ eq_refl); [exact Hr|intros j; discriminate|rewrite Ho; discriminate].
  - apply (BComm a nodes Sf' T' c I); auto. rewrite Hc. exact Hcm.
Qed.

Lemma pinv_mono Sl Sd T B T' B' : incl B B' -> same_kf T T' B -> committer T' = committer T ->
  (forall ck, committer T = Some ck -> arow T' ck = arow T ck) -> PInv Sl Sd T B -> PInv Sl Sd T' B'.
Proof.
  intros Hi Ha Hc Hck [P1 P2 P3 PC P4]. constructor.
  - intros j nd Hj Hn Hp Ht. apply (loader_mono B); [exact Hi|exact (P1 j nd Hj Hn Hp Ht)].
  - rewrite Hc. exact P2.
  - rewrite Hc. intros ck Hcm. destruct (P3 ck Hcm) as [c [I [E [Hin Ho]]]]. exists c, I. auto.
  - rewrite Hc. exact PC.
  - rewrite Hc. intros ck l Hcm Hl.
    destruct (P4 ck l Hcm Hl) as [Hlen Hoff]. unfold aget. rewrite (Hck ck Hcm). split; [exact Hlen|].
    intros off. destruct (Hoff off) as [H1 H2]. split; [|exact H2].
    intros i nd Hid Hn Hsp Ho. destruct (H1 i nd Hid Hn Hsp Ho) as [k [Hk Hdk]]. exists k. split; [exact Hk|].
    apply (dumper_mono T B); assumption.
Qed.

(* ---- keys present in the index ------------------------------------------------------------------------------ *)
Lemma ku_absent Sl Sd Sf Dn T B i : Inv Sl Sd Sf Dn T B -> ~ In i Sf -> instr_at T (KU i) = None.
Proof.
  intros H Hi. unfold instr_at. rewrite (v_idx _ _ _ _ _ _ _ _ H). apply assoc_none. intros X.
  apply expand_keys in X. destruct X as [[I ks] [Hb Hk]]. simpl in Hk.
  destruct (v_kinds _ _ _ _ _ _ _ _ H I ks Hb) as [i' nd I0 Hi' Hn Ho|i' nd p c I0 Hd Hn Ht Hz Hp Ho Hr|g k I0 Ho Hp Hr Hkk|i' nd c I0 Hn Hsp Ho Hr|c I0 Ho Hcm].
  - unfold fkeys in Hk. destruct Hk as [E|Hk]; [injection E as ->; contradiction|].
    destruct (strain nd); [destruct Hk as [E|[]]; discriminate|destruct Hk].
  - destruct Hk as [E|[]]. discriminate.
  - destruct Hk as [E|[]]. subst k. destruct Hkk as [X|[c X]]; discriminate.
  - destruct Hk as [E|[]]. discriminate.
  - destruct Hk as [E|[]]. discriminate.
Qed.

Lemma kg_entry Sl Sd Sf Dn T B g I : Inv Sl Sd Sf Dn T B -> instr_at T (KG g) = Some I ->
  (exists i nd, In i Sf /\ nth_error nodes i = Some nd /\ strain nd = true /\ ngid nd = g /\ In (I, fkeys i nd) B)
  \/ (iop I = OLoader g /\ In (I, [KG g]) B /\ persistent a g = true).
Proof.
  intros H X. unfold instr_at in X. rewrite (v_idx _ _ _ _ _ _ _ _ H) in X. apply assoc_in in X. apply expand_in in X.
  destruct X as [ks [Hb Hk]].
  destruct (v_kinds _ _ _ _ _ _ _ _ H I ks Hb) as [i' nd I0 Hi' Hn Ho|i' nd p c I0 Hd Hn Ht Hz Hp Ho Hr|g' k I0 Ho Hp Hr Hkk|i' nd c I0 Hn Hsp Ho Hr|c I0 Ho Hcm].
  - left. unfold fkeys in Hk. destruct Hk as [E|Hk]; [discriminate|]. destruct (strain nd) eqn:Es; [|destruct Hk].
    destruct Hk as [E|[]]. injection E as E. exists i', nd. repeat split; auto.
  - destruct Hk as [E|[]]. discriminate.
  - right. destruct Hk as [E|[]]. subst k. destruct Hkk as [X|[c X]]; [|discriminate]. injection X as <-. auto.
  - destruct Hk as [E|[]]. discriminate.
  - destruct Hk as [E|[]]. discriminate.
Qed.

Lemma kg_absent_nopers Sl Sd Sf Dn T B i nd : Inv Sl Sd Sf Dn T B -> ~ In i Sf -> nth_error nodes i = Some nd ->
  is_train nd = true -> pers nd = false -> instr_at T (KG (ngid nd)) = None.
Proof.
  intros H Hi Hn Ht Hp. destruct (instr_at T (KG (ngid nd))) as [I|] eqn:E; [|reflexivity]. exfalso.
  destruct (kg_entry _ _ _ _ _ _ _ _ H E) as [[i' [nd' [Hi' [Hn' [Hs [Hg _]]]]]]|[_ [_ Hpe]]].
  - unfold strain in Hs. apply andb_prop in Hs. destruct Hs as [_ Ht'].
    assert (i' = i) by (apply (w_unique a nodes wf i' nd' i nd Hn' Hn Ht' Ht Hg)). subst. contradiction.
  - unfold C01Inv.pers in Hp. rewrite (w_train_stateful a nodes wf i nd Hn Ht), Hpe in Hp. discriminate.
Qed.

Lemma kf_fresh Sl Sd Sf Dn T B c : Inv Sl Sd Sf Dn T B -> next T <= c -> instr_at T (KF c) = None /\ arow T (KF c) = [] /\ prow T (KF c) = [].
Proof.
  intros H Hc. assert (Hk : ~ In (KF c) (map fst (expand B))).
  { intros X. apply (proj2 (v_next _ _ _ _ _ _ _ _ H)) in X. lia. }
  split; [|split].
  - unfold instr_at. rewrite (v_idx _ _ _ _ _ _ _ _ H). apply assoc_none. exact Hk.
  - destruct (arow T (KF c)) eqn:E; [reflexivity|]. exfalso.
    destruct (v_arows _ _ _ _ _ _ _ _ H (KF c)) as [[j [nd [X _]]]|X]; [rewrite E; discriminate|discriminate|contradiction].
  - destruct (prow T (KF c)) eqn:E; [reflexivity|]. exfalso.
    destruct (v_prows _ _ _ _ _ _ _ _ H (KF c)) as [j [_ X]]; [rewrite E; discriminate|discriminate].
Qed.

(* ---- phase 3: preset prefix and functor registration ------------------------------------------------------ *)
Definition reg_state (T : tbl) (i : nat) (nd : node) (sk : key) : tbl :=
  let T1 := if preset_of i nd then prepend T (KU i) sk else T in
  let F := Instr (next T) (fop i nd) in
  Tbl (index T ++ (KU i, F) :: (if strain nd then [(KG (ngid nd), F)] else [])) (absl T) (pref T1) (committer T) (S (next T)).

Definition finish (t : tbl) (i : nat) (n : node) (state : key) : option tbl :=
  let pers := nstateful n && persistent a (ngid n) in
  let preset := nstateful n && (pers || derived nodes i n) in
  let t := if preset then prepend t (KU i) state else t in
  let '(t, f) := alloc t (OFunctor i (nstateful n && is_train n) preset) in
  bind (index_set t f (KU i)) (fun t =>
  bind (if nstateful n && is_train n then index_set t f (KG (ngid n)) else Some t) (fun t =>
  if is_train n then Some t else update nodes t i n)).

Lemma finish_ok T i nd sk : nth_error nodes i = Some nd -> instr_at T (KU i) = None ->
  (is_train nd = true -> instr_at T (KG (ngid nd)) = None) ->
  finish T i nd sk = if is_train nd then Some (reg_state T i nd sk) else update nodes (reg_state T i nd sk) i nd.
Proof.
  intros Hn Hku Hkg. unfold finish, reg_state, C01Inv.fop, C01Inv.preset_of, C01Inv.pers, strain. unfold instr_at in *.
  assert (Hst : nstateful nd && is_train nd = is_train nd).
  { destruct (is_train nd) eqn:Et; [rewrite (w_train_stateful a nodes wf i nd Hn Et); reflexivity|apply andb_false_r]. }
  rewrite Hst.
  destruct (nstateful nd && (nstateful nd && persistent a (ngid nd) || derived nodes i nd)) eqn:Epre; unfold index_set; simpl; rewrite Hku; simpl;
    destruct (is_train nd) eqn:Et; simpl.
  - rewrite assoc_app, (Hkg eq_refl). simpl. rewrite <- app_assoc. reflexivity.
  - reflexivity.
  - rewrite assoc_app, (Hkg eq_refl). simpl. rewrite <- app_assoc. reflexivity.
  - reflexivity.
Qed.

Lemma reg_arow T i nd sk k : arow (reg_state T i nd sk) k = arow T k.
Proof. reflexivity. Qed.

Lemma reg_prow T i nd sk k : prow (reg_state T i nd sk) k =
  if preset_of i nd && key_eqb k (KU i) then prow T (KU i) ++ [sk] else prow T k.
Proof.
  unfold reg_state. destruct (preset_of i nd); simpl; [|reflexivity].
  change (prow (prepend T (KU i) sk) k = if key_eqb k (KU i) then prow T (KU i) ++ [sk] else prow T k).
  apply prepend_prow.
Qed.

Lemma expand_snoc_fun B F i nd :
  expand (B ++ [(F, fkeys i nd)]) = expand B ++ (KU i, F) :: (if strain nd then [(KG (ngid nd), F)] else []).
Proof. rewrite expand_app. unfold expand at 2. simpl. rewrite app_nil_r. unfold fkeys. destruct (strain nd); reflexivity. Qed.

Lemma reg_inv Sl Sd Sf Dn T B i nd sk : Inv Sl Sd Sf Dn T B -> ~ In i Sf -> nth_error nodes i = Some nd ->
  (is_train nd = true -> instr_at T (KG (ngid nd)) = None) -> (preset_of i nd = true -> statekey_ok B nd sk) ->
  Inv Sl Sd (i :: Sf) Dn (reg_state T i nd sk) (B ++ [(Instr (next T) (fop i nd), fkeys i nd)]).
Proof.
  intros H Hi Hn Hkg0 Hsk. set (F := Instr (next T) (fop i nd)).
  pose proof (ku_absent _ _ _ _ _ _ _ H Hi) as Hku.
  assert (Hkg : strain nd = true -> instr_at T (KG (ngid nd)) = None).
  { intros Es. unfold strain in Es. apply andb_prop in Es. exact (Hkg0 (proj2 Es)). }
  assert (Hinc : incl B (B ++ [(F, fkeys i nd)])) by (intros x Hx; apply in_or_app; left; exact Hx).
  assert (Hsame : same_kf T (reg_state T i nd sk) B) by (intros c I _ _; reflexivity).
  assert (Hkeys : forall k, In k (map fst (expand (B ++ [(F, fkeys i nd)]))) <-> In k (map fst (expand B)) \/ In k (fkeys i nd)).
  { intros k. rewrite !expand_keys. split.
    - intros [b [Hb Hk]]. apply in_app_or in Hb. destruct Hb as [Hb|[<-|[]]]; [left; exists b; auto|right; exact Hk].
    - intros [[b [Hb Hk]]|Hk]; [exists b; split; [apply in_or_app; left; exact Hb|exact Hk]|].
      exists (F, fkeys i nd). split; [apply in_or_app; right; left; reflexivity|exact Hk]. }
  assert (Hnotin : forall k, In k (fkeys i nd) -> ~ In k (map fst (expand B))).
  { intros k Hk X. rewrite <- (v_idx _ _ _ _ _ _ _ _ H) in X. apply (proj1 (assoc_none k (index T))) in X; [exact X|].
    unfold fkeys in Hk. destruct Hk as [<-|Hk]; [exact Hku|]. destruct (strain nd) eqn:Es; [|destruct Hk].
    destruct Hk as [<-|[]]. exact (Hkg eq_refl). }
  constructor.
  - (* v_idx *) rewrite expand_snoc_fun. unfold reg_state. simpl. rewrite (v_idx _ _ _ _ _ _ _ _ H). reflexivity.
  - (* v_ids *) rewrite map_app. simpl. apply NoDup_app_intro; [exact (v_ids _ _ _ _ _ _ _ _ H)|constructor; [intros []|constructor]|].
    intros z Hz [<-|[]]. apply in_map_iff in Hz. destruct Hz as [b [E Hb]].
    pose proof (proj1 (v_next _ _ _ _ _ _ _ _ H) b Hb) as X. unfold bid in *. simpl in E. lia.
  - (* v_keys *) rewrite expand_snoc_fun, map_app. apply NoDup_app_intro; [exact (v_keys _ _ _ _ _ _ _ _ H)| |].
    + simpl. destruct (strain nd); simpl; repeat constructor; simpl; intuition discriminate.
    + intros z Hz Hz'. apply (Hnotin z); [|exact Hz]. unfold fkeys. simpl in Hz'.
      destruct Hz' as [<-|Hz']; [left; reflexivity|]. right. destruct (strain nd); [|destruct Hz']. simpl in Hz'. exact Hz'.
  - (* v_next *) split.
    + intros b Hb. apply in_app_or in Hb. simpl. destruct Hb as [Hb|[<-|[]]]; [pose proof (proj1 (v_next _ _ _ _ _ _ _ _ H) b Hb); lia|unfold bid; simpl; lia].
    + intros c Hc. apply Hkeys in Hc. simpl. destruct Hc as [Hc|Hc]; [pose proof (proj2 (v_next _ _ _ _ _ _ _ _ H) c Hc); lia|].
      unfold fkeys in Hc. destruct Hc as [E|Hc]; [discriminate|]. destruct (strain nd); [destruct Hc as [E|[]]; discriminate|destruct Hc].
  - (* v_arows *) intros k Hk. rewrite reg_arow in Hk. destruct (v_arows _ _ _ _ _ _ _ _ H k Hk) as [X|X]; [left; exact X|right; apply Hkeys; left; exact X].
  - (* v_prows *) intros k Hk. rewrite reg_prow in Hk. destruct (preset_of i nd && key_eqb k (KU i)) eqn:E.
    + apply andb_prop in E. destruct E as [_ E]. apply key_eqb_eq in E. exists i. split; [left; reflexivity|exact E].
    + destruct (v_prows _ _ _ _ _ _ _ _ H k Hk) as [j [Hj E']]. exists j. split; [right; exact Hj|exact E'].
  - (* v_anodup *) split; [exact (proj1 (v_anodup _ _ _ _ _ _ _ _ H))|]. unfold reg_state. simpl.
    destruct (preset_of i nd); [unfold prepend; simpl; apply assoc_set_nodup|]; exact (proj2 (v_anodup _ _ _ _ _ _ _ _ H)).
  - (* v_pers *) apply (pinv_mono Sl Sd T B); [exact Hinc|exact Hsame|reflexivity|intros ck _; reflexivity|exact (v_pers _ _ _ _ _ _ _ _ H)].
  - (* v_rowsne *) split; [exact (proj1 (v_rowsne _ _ _ _ _ _ _ _ H))|].
    intros k Hk. rewrite reg_prow. unfold reg_state in Hk. simpl in Hk. destruct (preset_of i nd) eqn:Ep; simpl.
    + unfold prepend in Hk. simpl in Hk. apply assoc_set_keys in Hk. destruct (key_eqb k (KU i)) eqn:E.
      * intros X. apply app_eq_nil in X. destruct X as [_ X]. discriminate.
      * destruct Hk as [->|Hk]; [rewrite key_eqb_refl in E; discriminate|]. exact (proj2 (v_rowsne _ _ _ _ _ _ _ _ H) k Hk).
    + exact (proj2 (v_rowsne _ _ _ _ _ _ _ _ H) k Hk).
  - (* v_kgrow *) exact (v_kgrow _ _ _ _ _ _ _ _ H).
  - (* v_kinds *) intros I ks Hin. apply in_app_or in Hin. destruct Hin as [Hin|[E|[]]].
    + apply (bkind_mono Sf T); [intros x Hx; right; exact Hx|intros k _ _ _; reflexivity|reflexivity|exact (v_kinds _ _ _ _ _ _ _ _ H I ks Hin)].
    + injection E as <- <-. apply (BFun a nodes (i :: Sf) (reg_state T i nd sk) i nd F); [left; reflexivity|exact Hn|reflexivity].
  - (* v_fun *) intros j [<-|Hj].
    + exists nd, F. split; [exact Hn|]. split; [apply in_or_app; right; left; reflexivity|reflexivity].
    + destruct (v_fun _ _ _ _ _ _ _ _ H j Hj) as [ndj [I [Hnj [Hin Ho]]]]. exists ndj, I. split; [exact Hnj|]. split; [apply Hinc; exact Hin|exact Ho].
  - (* v_get *) intros j ndj p Hd Hnj Ht Hz Hp. destruct (v_get _ _ _ _ _ _ _ _ H j ndj p Hd Hnj Ht Hz Hp) as [k Hk].
    exists k. apply (getter_mono T B); [exact Hinc|exact Hsame|exact Hk].
  - (* v_rows *) intros j ndj Hnj. destruct (v_rows _ _ _ _ _ _ _ _ H j ndj Hnj) as [Hl Hq]. split; [exact Hl|].
    intros q ip Hip. destruct (Hq q ip Hip) as [H1 H2]. split; [|exact H2].
    intros Hd. destruct (H1 Hd) as [k [Hk Hs]]. exists k. split; [exact Hk|]. apply (srckey_mono T B); [exact Hinc|exact Hsame|exact Hs].
  - (* v_pref *) intros j ndj Hnj. rewrite reg_prow. destruct (v_pref _ _ _ _ _ _ _ _ H j ndj Hnj) as [H1 H2].
    destruct (Nat.eq_dec j i) as [->|Hne].
    + rewrite Hn in Hnj. injection Hnj as <-. rewrite key_eqb_refl, andb_true_r. split.
      * intros _ Hp. rewrite Hp. rewrite (H2 (or_introl Hi)). exists sk. split; [reflexivity|]. apply (statekey_mono B); [exact Hinc|exact (Hsk Hp)].
      * intros [X|X]; [exfalso; apply X; left; reflexivity|]. rewrite X. apply H2. left. exact Hi.
    + assert (E : key_eqb (KU j) (KU i) = false) by (apply key_eqb_neq; intros X; injection X as X; contradiction).
      rewrite E, andb_false_r. split.
      * intros [X|X]; [exfalso; apply Hne; symmetry; exact X|]. intros Hp. destruct (H1 X Hp) as [sk' [E1 E2]]. exists sk'. split; [exact E1|apply (statekey_mono B); assumption].
      * intros [X|X]; [apply H2; left; intros Y; apply X; right; exact Y|apply H2; right; exact X].
Qed.

(* ---- phase 4: Linkage.update, one output port ------------------------------------------------------------- *)
Definition port_slots (i p : nat) (src : key) : list slot :=
  map (fun s => ((KU (fst s), src), snd s)) (subscribers nodes i p).

Lemma port_slots_in i p src x : In x (port_slots i p src) <->
  exists j q ndj, x = ((KU j, src), q) /\ nth_error nodes j = Some ndj /\ nth_error (ports ndj) q = Some (i, p).
Proof.
  unfold port_slots. rewrite in_map_iff. split.
  - intros [[j q] [E H]]. apply subscribers_spec in H. destruct H as [ndj [Hn Hq]]. exists j, q, ndj. simpl in E. auto.
  - intros [j [q [ndj [E [Hn Hq]]]]]. exists (j, q). split; [simpl; auto|]. apply subscribers_spec. exists ndj. auto.
Qed.

Lemma port_slots_nodup i p src : NoDup (map tgt (port_slots i p src)).
Proof.
  unfold port_slots. rewrite map_map. apply NoDup_map_inj; [|apply subscribers_nodup].
  intros [j q] [j' q'] _ _ E. unfold tgt, s_ins, s_idx in E. simpl in E. injection E as -> ->. reflexivity.
Qed.

Lemma prow_same T T' k : pref T' = pref T -> prow T' k = prow T k.
Proof. unfold prow. intros ->. reflexivity. Qed.

Lemma port_inv Sl Sd Sf (D : nat -> nat -> Prop) T B i nd p src :
  Inv Sl Sd Sf D T B -> nth_error nodes i = Some nd -> ~ D i p ->
  (forall T', (forall c, arow T' (KF c) = arow T (KF c)) -> srckey T' B (i, p) src) ->
  fold_opt (fun t s => insert t (KU (fst s)) src (Some (snd s))) (subscribers nodes i p) T = Some (ins_all T (port_slots i p src))
  /\ Inv Sl Sd Sf (fun j p' => D j p' \/ (j = i /\ p' = p)) (ins_all T (port_slots i p src)) B.
Proof.
  intros H Hn Hnd Hsrc. set (L := port_slots i p src). set (T' := ins_all T L).
  destruct (ins_all_fields T L) as [Fi [Fp [Fc Fn]]]. fold T' in Fi, Fp, Fc, Fn.
  assert (Hkf : forall c, arow T' (KF c) = arow T (KF c)).
  { intros c. apply ins_all_arow_other. intros x Hx E. apply port_slots_in in Hx. destruct Hx as [j [q [ndj [-> _]]]]. discriminate E. }
  assert (Hrowk : forall k, (forall j, k <> KU j) -> arow T' k = arow T k).
  { intros k Hk. apply ins_all_arow_other. intros x Hx E. apply port_slots_in in Hx. destruct Hx as [j [q [ndj [-> _]]]]. exact (Hk j (eq_sym E)). }
  assert (Hfree : forall x, In x L -> aget T (s_ins x) (s_idx x) = None).
  { intros x Hx. apply port_slots_in in Hx. destruct Hx as [j [q [ndj [-> [Hnj Hq]]]]]. unfold s_ins, s_idx. simpl.
    destruct (v_rows _ _ _ _ _ _ _ _ H j ndj Hnj) as [_ Hr]. apply (proj2 (Hr q (i, p) Hq)). exact Hnd. }
  split.
  - rewrite (fold_opt_map (fun t x => insert t (s_ins x) (s_arg x) (Some (s_idx x))) (fun s => ((KU (fst s), src), snd s))).
    apply fold_insert_ok; [apply port_slots_nodup|exact Hfree].
  - constructor.
    + rewrite Fi. exact (v_idx _ _ _ _ _ _ _ _ H).
    + exact (v_ids _ _ _ _ _ _ _ _ H).
    + exact (v_keys _ _ _ _ _ _ _ _ H).
    + rewrite Fn. exact (v_next _ _ _ _ _ _ _ _ H).
    + intros k Hk. destruct (ins_all_nonempty T L k Hk) as [X|[x [Hx E]]]; [exact (v_arows _ _ _ _ _ _ _ _ H k X)|].
      apply port_slots_in in Hx. destruct Hx as [j [q [ndj [-> [Hnj _]]]]]. left. exists j, ndj. split; [symmetry; exact E|exact Hnj].
    + intros k Hk. rewrite (prow_same T T' k Fp) in Hk. exact (v_prows _ _ _ _ _ _ _ _ H k Hk).
    + split; [apply ins_all_nodup; exact (proj1 (v_anodup _ _ _ _ _ _ _ _ H))|rewrite Fp; exact (proj2 (v_anodup _ _ _ _ _ _ _ _ H))].
    + apply (pinv_mono Sl Sd T B); [intros x Hx; exact Hx|intros c I _ _; apply Hkf|exact Fc|intros ck Hck; destruct (p_some _ _ _ _ _ _ (v_pers _ _ _ _ _ _ _ _ H) ck Hck) as [c [_ [-> _]]]; apply Hkf|exact (v_pers _ _ _ _ _ _ _ _ H)].
    + split.
      * intros k Hk. destruct (ins_all_keys T L k Hk) as [X|[x [Hx E]]].
        -- intros Y. unfold T' in Y. apply (proj1 (v_rowsne _ _ _ _ _ _ _ _ H) k X). pose proof (ins_all_len_ge T L k) as Z. rewrite Y in Z. simpl in Z.
           destruct (arow T k); [reflexivity|simpl in Z; lia].
        -- subst k. pose proof (ins_all_in T L x (port_slots_nodup i p src) Hx) as Z. unfold aget in Z.
           intros Y. unfold T' in Y. rewrite Y in Z. destruct (s_idx x); discriminate.
      * intros k Hk. rewrite Fp in Hk. rewrite (prow_same T T' k Fp). exact (proj2 (v_rowsne _ _ _ _ _ _ _ _ H) k Hk).
    + intros g. unfold T'. rewrite ins_all_arow_other; [exact (v_kgrow _ _ _ _ _ _ _ _ H g)|].
      intros x Hx E. apply port_slots_in in Hx. destruct Hx as [j [q [ndj [-> _]]]]. discriminate E.
    + intros I ks Hin. apply (bkind_mono Sf T); [intros x Hx; exact Hx| |exact Fc|exact (v_kinds _ _ _ _ _ _ _ _ H I ks Hin)].
      intros k _ Hk _. apply Hrowk. exact Hk.
    + exact (v_fun _ _ _ _ _ _ _ _ H).
    + intros j ndj q [Hd|[-> ->]] Hnj Ht Hz Hq.
      * destruct (v_get _ _ _ _ _ _ _ _ H j ndj q Hd Hnj Ht Hz Hq) as [k Hk]. exists k. apply (getter_mono T B); [intros x Hx; exact Hx|intros c I _ _; apply Hkf|exact Hk].
      * destruct (Hsrc T' Hkf) as [ndi [Hni [[Hone _]|[_ Hg]]]]; simpl in Hni; rewrite Hnj in Hni; injection Hni as <-; [contradiction|].
        exists src. exact Hg.
    + intros j ndj Hnj. destruct (v_rows _ _ _ _ _ _ _ _ H j ndj Hnj) as [Hl Hr]. split.
      * apply ins_all_len; [exact Hl|]. intros x Hx E. apply port_slots_in in Hx. destruct Hx as [j' [q [ndj' [-> [Hnj' Hq]]]]].
        unfold s_ins in E. simpl in E. injection E as ->. rewrite Hnj in Hnj'. injection Hnj' as <-.
        unfold s_idx. simpl. apply nth_error_Some. rewrite Hq. discriminate.
      * intros q ip Hip. destruct (Hr q ip Hip) as [H1 H2].
        assert (Hother : ip <> (i, p) -> aget T' (KU j) q = aget T (KU j) q).
        { intros Hne. apply ins_all_out. intros x Hx E. apply port_slots_in in Hx. destruct Hx as [j' [q' [ndj' [-> [Hnj' Hq']]]]].
          unfold tgt, s_ins, s_idx in E. simpl in E. injection E as -> ->. rewrite Hnj in Hnj'. injection Hnj' as <-.
          rewrite Hip in Hq'. injection Hq' as ->. apply Hne. reflexivity. }
        split.
        -- intros [Hd|[E1 E2]].
           ++ destruct (H1 Hd) as [k [Hk Hs]]. exists k. split.
              ** rewrite Hother; [exact Hk|]. intros ->. simpl in Hd. contradiction.
              ** apply (srckey_mono T B); [intros x Hx; exact Hx|intros c I _ _; apply Hkf|exact Hs].
           ++ assert (ip = (i, p)) by (destruct ip; simpl in *; subst; reflexivity). subst ip.
              exists src. split; [|exact (Hsrc T' Hkf)].
              assert (Hx : In ((KU j, src), q) L) by (apply port_slots_in; exists j, q, ndj; auto).
              exact (ins_all_in T L ((KU j, src), q) (port_slots_nodup i p src) Hx).
        -- intros Hd. rewrite Hother.
           ++ apply H2. intros X. apply Hd. left. exact X.
           ++ intros ->. apply Hd. right. auto.
    + intros j ndj Hnj. rewrite (prow_same T T' (KU j) Fp). exact (v_pref _ _ _ _ _ _ _ _ H j ndj Hnj).
Qed.

(* ---- phase 4, multi-output nodes: a Getter per output port --------------------------------------------- *)
Definition unary_state (T : tbl) (i : nat) (o : op) : tbl :=
  inserted (Tbl (index T ++ [(KF (S (next T)), Instr (next T) o)]) (absl T) (pref T) (committer T) (S (S (next T))))
           (KF (S (next T))) (KU i) 0.
Definition getter_state (T : tbl) (i p : nat) : tbl := unary_state T i (OGetter p).

Lemma unary_reg_inv Sl Sd Sf (D : nat -> nat -> Prop) T B i o : Inv Sl Sd Sf D T B ->
  (arow (unary_state T i o) (KF (S (next T))) = [Some (KU i)] -> bkind Sf (unary_state T i o) (Instr (next T) o) [KF (S (next T))]) ->
  Inv Sl Sd Sf D (unary_state T i o) (B ++ [(Instr (next T) o, [KF (S (next T))])])
  /\ arow (unary_state T i o) (KF (S (next T))) = [Some (KU i)].
Proof.
  intros H Hkind. set (kf := KF (S (next T))). set (G := Instr (next T) o).
  destruct (kf_fresh _ _ _ _ _ _ (S (next T)) H ltac:(lia)) as [Hfi [Hfa Hfp]]. fold kf in Hfi, Hfa, Hfp.
  assert (Hrow : arow (unary_state T i o) kf = [Some (KU i)]).
  { unfold unary_state. rewrite inserted_arow, key_eqb_refl.
    match goal with |- context [padded ?r 0] => change r with (arow T kf) end.
    rewrite Hfa. reflexivity. }
  assert (Hold : forall k, k <> kf -> arow (unary_state T i o) k = arow T k).
  { intros k Hk. unfold unary_state. rewrite inserted_arow. fold kf. apply key_eqb_neq in Hk. rewrite Hk. reflexivity. }
  assert (Hinc : incl B (B ++ [(G, [kf])])) by (intros x Hx; apply in_or_app; left; exact Hx).
  assert (Hkin : forall c I, In (I, [KF c]) B -> KF c <> kf).
  { intros c I Hin E. assert (X : In (KF c) (map fst (expand B))) by (apply expand_keys; exists (I, [KF c]); split; [exact Hin|left; reflexivity]).
    apply (proj2 (v_next _ _ _ _ _ _ _ _ H)) in X. unfold kf in E. injection E as E. lia. }
  assert (Hkeys : forall k, In k (map fst (expand (B ++ [(G, [kf])]))) <-> In k (map fst (expand B)) \/ k = kf).
  { intros k. rewrite !expand_keys. split.
    - intros [b [Hb Hk]]. apply in_app_or in Hb. destruct Hb as [Hb|[<-|[]]]; [left; exists b; auto|right]. destruct Hk as [<-|[]]. reflexivity.
    - intros [[b [Hb Hk]]| ->]; [exists b; split; [apply in_or_app; left; exact Hb|exact Hk]|].
      exists (G, [kf]). split; [apply in_or_app; right; left; reflexivity|left; reflexivity]. }
  split; [|exact Hrow]. constructor.
  - rewrite expand_app. unfold unary_state, inserted. simpl. rewrite (v_idx _ _ _ _ _ _ _ _ H). reflexivity.
  - rewrite map_app. simpl. apply NoDup_app_intro; [exact (v_ids _ _ _ _ _ _ _ _ H)|constructor; [intros []|constructor]|].
    intros z Hzz [<-|[]]. apply in_map_iff in Hzz. destruct Hzz as [b [E Hb]].
    pose proof (proj1 (v_next _ _ _ _ _ _ _ _ H) b Hb) as X. unfold bid in *. simpl in E. lia.
  - rewrite expand_app, map_app. apply NoDup_app_intro; [exact (v_keys _ _ _ _ _ _ _ _ H)|simpl; constructor; [intros []|constructor]|].
    intros z Hzz [<-|[]]. apply (proj2 (v_next _ _ _ _ _ _ _ _ H)) in Hzz. lia.
  - split.
    + intros b Hb. apply in_app_or in Hb. unfold unary_state, inserted. simpl.
      destruct Hb as [Hb|[<-|[]]]; [pose proof (proj1 (v_next _ _ _ _ _ _ _ _ H) b Hb); lia|unfold bid; simpl; lia].
    + intros c Hc. apply Hkeys in Hc. unfold unary_state, inserted. simpl.
      destruct Hc as [Hc|Hc]; [pose proof (proj2 (v_next _ _ _ _ _ _ _ _ H) c Hc); lia|]. unfold kf in Hc. injection Hc as ->. lia.
  - intros k Hk. destruct (key_eq_dec k kf) as [->|Hne]; [right; apply Hkeys; right; reflexivity|].
    rewrite (Hold k Hne) in Hk. destruct (v_arows _ _ _ _ _ _ _ _ H k Hk) as [X|X]; [left; exact X|right; apply Hkeys; left; exact X].
  - intros k Hk. exact (v_prows _ _ _ _ _ _ _ _ H k Hk).
  - split; [unfold unary_state, inserted; simpl; apply assoc_set_nodup; exact (proj1 (v_anodup _ _ _ _ _ _ _ _ H))|exact (proj2 (v_anodup _ _ _ _ _ _ _ _ H))].
  - apply (pinv_mono Sl Sd T B); [exact Hinc|intros c I Hin _; apply Hold; exact (Hkin c I Hin)|reflexivity| |exact (v_pers _ _ _ _ _ _ _ _ H)].
    intros ck Hck. destruct (p_some _ _ _ _ _ _ (v_pers _ _ _ _ _ _ _ _ H) ck Hck) as [c [I [-> [Hin _]]]]. apply Hold. exact (Hkin c I Hin).
  - split; [|exact (proj2 (v_rowsne _ _ _ _ _ _ _ _ H))].
    intros k Hk. destruct (key_eq_dec k kf) as [->|Hne]; [rewrite Hrow; discriminate|]. rewrite (Hold k Hne).
    apply (proj1 (v_rowsne _ _ _ _ _ _ _ _ H)). unfold unary_state in Hk. apply inserted_keys in Hk. destruct Hk as [X|X]; [contradiction|exact X].
  - intros g. rewrite Hold by discriminate. exact (v_kgrow _ _ _ _ _ _ _ _ H g).
  - intros I ks Hin. apply in_app_or in Hin. destruct Hin as [Hin|[E|[]]].
    + apply (bkind_mono Sf T); [intros x Hx; exact Hx| |reflexivity|exact (v_kinds _ _ _ _ _ _ _ _ H I ks Hin)].
      intros k -> _ _. apply Hold. intros E. subst k.
      assert (X : In kf (map fst (expand B))) by (apply expand_keys; exists (I, [kf]); split; [exact Hin|left; reflexivity]).
      apply (proj2 (v_next _ _ _ _ _ _ _ _ H)) in X. lia.
    + injection E as <- <-. exact (Hkind Hrow).
  - intros j Hj. destruct (v_fun _ _ _ _ _ _ _ _ H j Hj) as [ndj [I [Hnj [Hin Ho]]]]. exists ndj, I. split; [exact Hnj|]. split; [apply Hinc; exact Hin|exact Ho].
  - intros j ndj q Hd Hnj Htj Hzj Hq. destruct (v_get _ _ _ _ _ _ _ _ H j ndj q Hd Hnj Htj Hzj Hq) as [k Hk].
    exists k. apply (getter_mono T B); [exact Hinc| |exact Hk]. intros c I Hin _. apply Hold. exact (Hkin c I Hin).
  - intros j ndj Hnj. destruct (v_rows _ _ _ _ _ _ _ _ H j ndj Hnj) as [Hl Hr].
    assert (E : arow (unary_state T i o) (KU j) = arow T (KU j)) by (apply Hold; discriminate).
    split; [rewrite E; exact Hl|]. intros q ip Hip. destruct (Hr q ip Hip) as [H1 H2]. unfold aget. rewrite E. split; [|exact H2].
    intros Hd. destruct (H1 Hd) as [k [Hk Hs]]. exists k. split; [exact Hk|].
    apply (srckey_mono T B); [exact Hinc| |exact Hs]. intros c I Hin _. apply Hold. exact (Hkin c I Hin).
  - intros j ndj Hnj. destruct (v_pref _ _ _ _ _ _ _ _ H j ndj Hnj) as [P1 P2]. split; [|exact P2].
    intros X Y. destruct (P1 X Y) as [sk [E1 E2]]. exists sk. split; [exact E1|apply (statekey_mono B); [exact Hinc|exact E2]].
Qed.

Lemma nth_error_seq s n m y : nth_error (seq s n) m = Some y -> y = s + m /\ m < n.
Proof.
  revert s m. induction n as [|n IH]; intros s m H; simpl in H; [destruct m; discriminate|].
  destruct m as [|m]; simpl in H.
  - injection H as <-. split; lia.
  - destruct (IH (S s) m H) as [-> Hm]. split; lia.
Qed.

Definition Dnp (Dn : nat -> nat -> Prop) (i m : nat) : nat -> nat -> Prop := fun j p => Dn j p \/ (j = i /\ p < m).

Lemma getter_body_ok Sl Sd Sf Dn T B i nd m : Inv Sl Sd Sf (Dnp Dn i m) T B -> In i Sf -> nth_error nodes i = Some nd ->
  is_train nd = false -> nszout nd <> 1 -> m < nszout nd -> (forall p, ~ Dn i p) ->
  exists T' B',
    (let '(t1, g) := alloc T (OGetter m) in
     bind (index_fresh t1 g) (fun tk => let '(t2, source) := tk in
       bind (insert t2 source (KU i) None) (fun t3 =>
         fold_opt (fun t s => insert t (KU (fst s)) source (Some (snd s))) (subscribers nodes i m) t3))) = Some T'
    /\ Inv Sl Sd Sf (Dnp Dn i (S m)) T' B'.
Proof.
  intros H Hi Hn Ht Hz Hm Hfresh.
  destruct (kf_fresh _ _ _ _ _ _ (S (next T)) H ltac:(lia)) as [Hfi [Hfa Hfp]].
  destruct (unary_reg_inv Sl Sd Sf (Dnp Dn i m) T B i (OGetter m) H) as [H1 Hrow].
  { intros Hr. apply (BGet a nodes Sf (unary_state T i (OGetter m)) i nd m (S (next T))); auto. }
  change (unary_state T i (OGetter m)) with (getter_state T i m) in H1, Hrow.
  set (kf := KF (S (next T))) in *. set (G := Instr (next T) (OGetter m)) in *. set (B1 := B ++ [(G, [kf])]) in *.
  assert (Hnd : ~ Dnp Dn i m i m) by (intros [X|[_ X]]; [exact (Hfresh m X)|lia]).
  assert (Hsrc : forall T', (forall c, arow T' (KF c) = arow (getter_state T i m) (KF c)) -> srckey T' B1 (i, m) kf).
  { intros T' HT'. exists nd. split; [exact Hn|]. right. split; [exact Hz|]. exists (S (next T)), G.
    split; [reflexivity|]. split; [apply in_or_app; right; left; reflexivity|]. split; [reflexivity|]. rewrite HT'. exact Hrow. }
  destruct (port_inv Sl Sd Sf (Dnp Dn i m) (getter_state T i m) B1 i nd m kf H1 Hn Hnd Hsrc) as [Hfold Hinv].
  exists (ins_all (getter_state T i m) (port_slots i m kf)), B1. split.
  - unfold alloc. unfold index_fresh, index_set. simpl. unfold instr_at in Hfi. fold kf. rewrite Hfi. simpl.
    rewrite insert_none_ok by exact Hfa. simpl. exact Hfold.
  - apply (inv_ext a nodes wf Sl Sd Sf (fun j p' => Dnp Dn i m j p' \/ (j = i /\ p' = m))); [|exact Hinv].
    intros j ndj p' _ _ _. unfold Dnp. split.
    + intros [[X|[X1 X2]]|[X1 X2]]; [left; exact X|right; split; [exact X1|lia]|right; split; [exact X1|lia]].
    + intros [X|[X1 X2]]; [left; left; exact X|]. destruct (Nat.eq_dec p' m) as [->|Hne]; [right; auto|left; right; split; [exact X1|lia]].
Qed.

Lemma update_inv Sl Sd Sf Dn T B i nd : Inv Sl Sd Sf Dn T B -> In i Sf -> nth_error nodes i = Some nd -> is_train nd = false ->
  (forall p, ~ Dn i p) ->
  exists T' B', update nodes T i nd = Some T' /\ Inv Sl Sd Sf (Dnp Dn i (nszout nd)) T' B'.
Proof.
  intros H Hi Hn Ht Hfresh. unfold update.
  destruct (Nat.eq_dec (nszout nd) 1) as [E|Hz].
  - rewrite E.
    assert (Hsrc : forall T', (forall c, arow T' (KF c) = arow T (KF c)) -> srckey T' B (i, 0) (KU i)).
    { intros T' _. exists nd. split; [exact Hn|]. left. auto. }
    destruct (port_inv Sl Sd Sf Dn T B i nd 0 (KU i) H Hn (Hfresh 0) Hsrc) as [Hfold Hinv].
    exists (ins_all T (port_slots i 0 (KU i))), B. split; [exact Hfold|].
    apply (inv_ext a nodes wf Sl Sd Sf (fun j p' => Dn j p' \/ (j = i /\ p' = 0))); [|exact Hinv].
    intros j ndj p' _ _ _. unfold Dnp. split; (intros [X|[X1 X2]]; [left; exact X|right; split; [exact X1|lia]]).
  - assert (Hloop : exists T', fold_opt (fun t p =>
        let '(t1, g) := alloc t (OGetter p) in
        bind (index_fresh t1 g) (fun tk => let '(t2, source) := tk in
          bind (insert t2 source (KU i) None) (fun t3 =>
            fold_opt (fun t s => insert t (KU (fst s)) source (Some (snd s))) (subscribers nodes i p) t3)))
        (seq 0 (nszout nd)) T = Some T' /\ exists B', Inv Sl Sd Sf (Dnp Dn i (0 + List.length (seq 0 (nszout nd)))) T' B').
    { apply (fold_opt_inv _ (fun m t => exists B', Inv Sl Sd Sf (Dnp Dn i m) t B')).
      - exists B. apply (inv_ext a nodes wf Sl Sd Sf Dn); [|exact H]. intros j ndj p' _ _ _. unfold Dnp. split; [intros X; left; exact X|intros [X|[_ X]]; [exact X|lia]].
      - intros m y t Hy [Bt Ht']. simpl in Ht'. destruct (nth_error_seq _ _ _ _ Hy) as [-> Hm]. simpl.
        destruct (getter_body_ok Sl Sd Sf Dn t Bt i nd m Ht' Hi Hn Ht Hz Hm Hfresh) as [T' [B' [Hc Hi']]].
        exists T'. split; [exact Hc|exists B'; exact Hi']. }
    destruct Hloop as [T' [Hc [B' Hi']]]. rewrite seq_length in Hi'. simpl in Hi'.
    exists T', B'. split; [|exact Hi'].
    destruct (nszout nd) as [|[|k]] eqn:Ek; [exact Hc|exfalso; apply Hz; reflexivity|exact Hc].
Qed.

(* ---- registering one more single-key block (loader, re-keyed loader) -------------------------------------- *)
Lemma inv_snoc1 Sl Sd Sf Dn T B I k n' : Inv Sl Sd Sf Dn T B -> ~ In (iid I) (map bid B) -> iid I < n' -> next T <= n' ->
  instr_at T k = None -> (forall c, k = KF c -> c < n') -> bkind Sf T I [k] ->
  Inv Sl Sd Sf Dn (Tbl (index T ++ [(k, I)]) (absl T) (pref T) (committer T) n') (B ++ [(I, [k])]).
Proof.
  intros H Hid Hlt Hn Hk Hkf Hkind.
  set (T' := Tbl (index T ++ [(k, I)]) (absl T) (pref T) (committer T) n').
  assert (Hinc : incl B (B ++ [(I, [k])])) by (intros x Hx; apply in_or_app; left; exact Hx).
  assert (Hsame : same_kf T T' B) by (intros c J _ _; reflexivity).
  assert (Hkeys : forall x, In x (map fst (expand (B ++ [(I, [k])]))) <-> In x (map fst (expand B)) \/ x = k).
  { intros x. rewrite !expand_keys. split.
    - intros [b [Hb Hx]]. apply in_app_or in Hb. destruct Hb as [Hb|[<-|[]]]; [left; exists b; auto|right]. destruct Hx as [<-|[]]. reflexivity.
    - intros [[b [Hb Hx]]| ->]; [exists b; split; [apply in_or_app; left; exact Hb|exact Hx]|].
      exists (I, [k]). split; [apply in_or_app; right; left; reflexivity|left; reflexivity]. }
  assert (Hknew : ~ In k (map fst (expand B))).
  { rewrite <- (v_idx _ _ _ _ _ _ _ _ H). apply assoc_none. exact Hk. }
  constructor.
  - unfold T'. simpl. rewrite expand_app, (v_idx _ _ _ _ _ _ _ _ H). reflexivity.
  - rewrite map_app. simpl. apply NoDup_app_intro; [exact (v_ids _ _ _ _ _ _ _ _ H)|constructor; [intros []|constructor]|].
    intros z Hz [<-|[]]. exact (Hid Hz).
  - rewrite expand_app, map_app. apply NoDup_app_intro; [exact (v_keys _ _ _ _ _ _ _ _ H)|simpl; constructor; [intros []|constructor]|].
    intros z Hz [<-|[]]. exact (Hknew Hz).
  - split.
    + intros b Hb. apply in_app_or in Hb. simpl. destruct Hb as [Hb|[<-|[]]]; [pose proof (proj1 (v_next _ _ _ _ _ _ _ _ H) b Hb); lia|unfold bid; simpl; lia].
    + intros c Hc. apply Hkeys in Hc. simpl. destruct Hc as [Hc|Hc]; [pose proof (proj2 (v_next _ _ _ _ _ _ _ _ H) c Hc); lia|exact (Hkf c (eq_sym Hc))].
  - intros x Hx. destruct (v_arows _ _ _ _ _ _ _ _ H x Hx) as [X|X]; [left; exact X|right; apply Hkeys; left; exact X].
  - exact (v_prows _ _ _ _ _ _ _ _ H).
  - exact (v_anodup _ _ _ _ _ _ _ _ H).
  - apply (pinv_mono Sl Sd T B); [exact Hinc|exact Hsame|reflexivity|intros ck _; reflexivity|exact (v_pers _ _ _ _ _ _ _ _ H)].
  - exact (v_rowsne _ _ _ _ _ _ _ _ H).
  - exact (v_kgrow _ _ _ _ _ _ _ _ H).
  - intros J ks Hin. apply in_app_or in Hin. destruct Hin as [Hin|[E|[]]].
    + apply (bkind_mono Sf T); [intros x Hx; exact Hx|intros x _ _ _; reflexivity|reflexivity|exact (v_kinds _ _ _ _ _ _ _ _ H J ks Hin)].
    + injection E as <- <-. apply (bkind_mono Sf T); [intros x Hx; exact Hx|intros x _ _ _; reflexivity|reflexivity|exact Hkind].
  - intros j Hj. destruct (v_fun _ _ _ _ _ _ _ _ H j Hj) as [ndj [J [Hnj [Hin Ho]]]]. exists ndj, J. split; [exact Hnj|]. split; [apply Hinc; exact Hin|exact Ho].
  - intros j ndj p Hd Hnj Ht Hz Hp. destruct (v_get _ _ _ _ _ _ _ _ H j ndj p Hd Hnj Ht Hz Hp) as [x Hx].
    exists x. apply (getter_mono T B); [exact Hinc|exact Hsame|exact Hx].
  - intros j ndj Hnj. destruct (v_rows _ _ _ _ _ _ _ _ H j ndj Hnj) as [Hl Hq]. split; [exact Hl|].
    intros q ip Hip. destruct (Hq q ip Hip) as [H1 H2]. split; [|exact H2].
    intros Hd. destruct (H1 Hd) as [x [Hx Hs]]. exists x. split; [exact Hx|]. apply (srckey_mono T B); [exact Hinc|exact Hsame|exact Hs].
  - intros j ndj Hnj. destruct (v_pref _ _ _ _ _ _ _ _ H j ndj Hnj) as [P1 P2]. split; [|exact P2].
    intros X Y. destruct (P1 X Y) as [sk [E1 E2]]. exists sk. split; [exact E1|apply (statekey_mono B); [exact Hinc|exact E2]].
Qed.

(* the loader phase for one more node only concerns the loader clause *)
Lemma inv_sl Sl Sd Sf Dn T B i : Inv Sl Sd Sf Dn T B ->
  (forall nd, nth_error nodes i = Some nd -> pers nd = true -> ~ trainer_in Sd (ngid nd) -> loader_at B (ngid nd) (KG (ngid nd))) ->
  Inv (i :: Sl) Sd Sf Dn T B.
Proof.
  intros H Hl. destruct H as [V1 V2 V3 V4 V5 V6 V7 VP V9 V10 V11 V12 V13 V14 V15]. constructor; auto.
  destruct VP as [P1 P2 P3 PC P4]. constructor; auto.
  - intros j nd [<-|Hj] Hn Hp Ht; [exact (Hl nd Hn Hp Ht)|exact (P1 j nd Hj Hn Hp Ht)].
  - intros ck Hck. destruct (PC ck Hck) as [j [nd [Hj X]]]. exists j, nd. split; [right; exact Hj|exact X].
Qed.

(* ---- phase 1: the loader ------------------------------------------------------------------------------------- *)
Definition p1 (t : tbl) (n : node) : option tbl :=
  if nstateful n && persistent a (ngid n) then
    match assoc (KG (ngid n)) (index t) with
    | Some _ => Some t
    | None => let '(t1, l) := alloc t (OLoader (ngid n)) in index_set t1 l (KG (ngid n))
    end
  else Some t.

Lemma p1_inv S0 Dn T B i nd : Inv S0 S0 S0 Dn T B -> ~ In i S0 -> nth_error nodes i = Some nd ->
  exists T1 B1, p1 T nd = Some T1 /\ Inv (i :: S0) S0 S0 Dn T1 B1.
Proof.
  intros H Hi Hn. unfold p1. fold (C01Inv.pers a nd). destruct (pers nd) eqn:Ep.
  - destruct (assoc (KG (ngid nd)) (index T)) as [I|] eqn:E.
    + exists T, B. split; [reflexivity|]. apply inv_sl; [exact H|]. intros nd' Hn' _ Htr. rewrite Hn in Hn'. injection Hn' as <-.
      destruct (kg_entry _ _ _ _ _ _ _ _ H E) as [[i' [nd' [Hi' [Hn' [Hs [Hg _]]]]]]|[Ho [Hin _]]].
      * exfalso. apply Htr. exists i', nd'. unfold strain in Hs. apply andb_prop in Hs. tauto.
      * exists I. auto.
    + assert (Hpa : persistent a (ngid nd) = true) by (unfold C01Inv.pers in Ep; apply andb_prop in Ep; tauto).
      set (L := Instr (next T) (OLoader (ngid nd))).
      exists (Tbl (index T ++ [(KG (ngid nd), L)]) (absl T) (pref T) (committer T) (S (next T))), (B ++ [(L, [KG (ngid nd)])]).
      split; [unfold alloc, index_set; simpl; rewrite E; reflexivity|].
      apply inv_sl.
      * apply inv_snoc1; [exact H| |simpl; lia|lia|exact E|intros c X; discriminate|].
        -- intros X. apply in_map_iff in X. destruct X as [b [Eb Hb]]. pose proof (proj1 (v_next _ _ _ _ _ _ _ _ H) b Hb). simpl in Eb. lia.
        -- apply (BLoad a nodes S0 T (ngid nd) (KG (ngid nd)) L); [reflexivity|exact Hpa|exact (v_kgrow _ _ _ _ _ _ _ _ H _)|left; reflexivity].
      * intros nd' Hn' _ _. rewrite Hn in Hn'. injection Hn' as <-. exists L. split; [apply in_or_app; right; left; reflexivity|reflexivity].
  - exists T, B. split; [reflexivity|]. apply inv_sl; [exact H|]. intros nd' Hn' Hp _. rewrite Hn in Hn'. injection Hn' as <-. congruence.
Qed.

(* ---- phase 2: committer, dumper, loader re-keying -------------------------------------------------------- *)
Lemma key_block_unique Sl Sd Sf Dn T B I ks I' ks' k : Inv Sl Sd Sf Dn T B -> In (I, ks) B -> In (I', ks') B -> In k ks -> In k ks' -> I = I'.
Proof.
  intros H H1 H2 K1 K2.
  assert (E1 : assoc k (expand B) = Some I) by (apply in_assoc; [exact (v_keys _ _ _ _ _ _ _ _ H)|apply expand_in; exists ks; auto]).
  assert (E2 : assoc k (expand B) = Some I') by (apply in_assoc; [exact (v_keys _ _ _ _ _ _ _ _ H)|apply expand_in; exists ks'; auto]).
  congruence.
Qed.

Lemma offset_of_inj l : forall g1 g2 off, offset_of g1 l = Some off -> offset_of g2 l = Some off -> g1 = g2.
Proof.
  induction l as [|[g x] l IH]; intros g1 g2 off H1 H2; simpl in *; [discriminate|].
  destruct (Nat.eqb g1 g) eqn:E1, (Nat.eqb g2 g) eqn:E2.
  - apply Nat.eqb_eq in E1. apply Nat.eqb_eq in E2. congruence.
  - injection H1 as <-. destruct (offset_of g2 l); simpl in H2; discriminate.
  - injection H2 as <-. destruct (offset_of g1 l); simpl in H1; discriminate.
  - destruct (offset_of g1 l) as [o1|] eqn:O1; simpl in H1; [|discriminate]. destruct (offset_of g2 l) as [o2|] eqn:O2; simpl in H2; [|discriminate].
    injection H1 as <-. injection H2 as E. apply (IH g1 g2 o1 O1). rewrite O2. f_equal. lia.
Qed.

Lemma offset_of_lt l : forall g off, offset_of g l = Some off -> off < List.length l.
Proof.
  induction l as [|[g' x] l IH]; intros g off H; simpl in *; [discriminate|].
  destruct (Nat.eqb g g'); [injection H as <-; lia|]. destruct (offset_of g l) as [o|] eqn:O; simpl in H; [|discriminate].
  injection H as <-. specialize (IH g o O). lia.
Qed.

Definition comm_state (T : tbl) : tbl :=
  Tbl (index T ++ [(KF (S (next T)), Instr (next T) OCommitter)]) (absl T) (pref T) (Some (KF (S (next T)))) (S (S (next T))).

Lemma comm_new_inv Sl Sd Sf Dn T B : Inv Sl Sd Sf Dn T B -> committer T = None ->
  (exists i nd, In i Sl /\ nth_error nodes i = Some nd /\ strain nd && pers nd = true) ->
  Inv Sl Sd Sf Dn (comm_state T) (B ++ [(Instr (next T) OCommitter, [KF (S (next T))])]).
Proof.
  intros H Hc Hwit. set (kc := KF (S (next T))). set (C := Instr (next T) OCommitter). set (T' := comm_state T).
  destruct (kf_fresh _ _ _ _ _ _ (S (next T)) H ltac:(lia)) as [Hfi [Hfa Hfp]]. fold kc in Hfi, Hfa, Hfp.
  assert (Hinc : incl B (B ++ [(C, [kc])])) by (intros x Hx; apply in_or_app; left; exact Hx).
  assert (Hsame : same_kf T T' B) by (intros c J _ _; reflexivity).
  assert (Hkeys : forall x, In x (map fst (expand (B ++ [(C, [kc])]))) <-> In x (map fst (expand B)) \/ x = kc).
  { intros x. rewrite !expand_keys. split.
    - intros [b [Hb Hx]]. apply in_app_or in Hb. destruct Hb as [Hb|[<-|[]]]; [left; exists b; auto|right]. destruct Hx as [<-|[]]. reflexivity.
    - intros [[b [Hb Hx]]| ->]; [exists b; split; [apply in_or_app; left; exact Hb|exact Hx]|].
      exists (C, [kc]). split; [apply in_or_app; right; left; reflexivity|left; reflexivity]. }
  destruct (v_pers _ _ _ _ _ _ _ _ H) as [P1 P2 P3 PC P4].
  constructor.
  - unfold T', comm_state. simpl. rewrite expand_app, (v_idx _ _ _ _ _ _ _ _ H). reflexivity.
  - rewrite map_app. simpl. apply NoDup_app_intro; [exact (v_ids _ _ _ _ _ _ _ _ H)|constructor; [intros []|constructor]|].
    intros z Hz [<-|[]]. apply in_map_iff in Hz. destruct Hz as [b [E Hb]].
    pose proof (proj1 (v_next _ _ _ _ _ _ _ _ H) b Hb) as X. unfold bid in *. simpl in E. lia.
  - rewrite expand_app, map_app. apply NoDup_app_intro; [exact (v_keys _ _ _ _ _ _ _ _ H)|simpl; constructor; [intros []|constructor]|].
    intros z Hz [<-|[]]. apply (proj2 (v_next _ _ _ _ _ _ _ _ H)) in Hz. lia.
  - split.
    + intros b Hb. apply in_app_or in Hb. simpl. destruct Hb as [Hb|[<-|[]]]; [pose proof (proj1 (v_next _ _ _ _ _ _ _ _ H) b Hb); lia|unfold bid; simpl; lia].
    + intros c Hcc. apply Hkeys in Hcc. simpl. destruct Hcc as [Hcc|Hcc]; [pose proof (proj2 (v_next _ _ _ _ _ _ _ _ H) c Hcc); lia|]. unfold kc in Hcc. injection Hcc as ->. lia.
  - intros x Hx. destruct (v_arows _ _ _ _ _ _ _ _ H x Hx) as [X|X]; [left; exact X|right; apply Hkeys; left; exact X].
  - exact (v_prows _ _ _ _ _ _ _ _ H).
  - exact (v_anodup _ _ _ _ _ _ _ _ H).
  - constructor.
    + intros j nd Hj Hn Hp Ht. apply (loader_mono B); [exact Hinc|exact (P1 j nd Hj Hn Hp Ht)].
    + intros X. discriminate X.
    + intros ck Hck. injection Hck as <-. exists (S (next T)), C. split; [reflexivity|]. split; [apply in_or_app; right; left; reflexivity|reflexivity].
    + intros ck _. exact Hwit.
    + intros ck l Hck Hl. injection Hck as <-. assert (Er : arow T' (KF (S (next T))) = []) by exact Hfa. unfold aget. rewrite Er. split; [simpl; lia|].
      intros off. split.
      * intros i nd Hi Hn Hsp _. rewrite (P2 Hc i nd Hi Hn) in Hsp. discriminate.
      * intros _. destruct off; reflexivity.
  - exact (v_rowsne _ _ _ _ _ _ _ _ H).
  - exact (v_kgrow _ _ _ _ _ _ _ _ H).
  - intros J ks Hin. apply in_app_or in Hin. destruct Hin as [Hin|[E|[]]].
    + destruct (v_kinds _ _ _ _ _ _ _ _ H J ks Hin) as [i nd I Hi Hn Ho|i nd p c I Hi Hn Ht Hz Hp Ho Hr|g k I Ho Hp Hr Hk|i nd c I Hn Hsp Ho Hr|c I Ho Hcm].
      * apply BFun; auto.
      * apply (BGet a nodes Sf T' i nd p c I); auto.
      * apply (BLoad a nodes Sf T' g k I); auto.
      * apply (BDump a nodes Sf T' i nd c I); auto.
      * rewrite Hc in Hcm. discriminate.
    + injection E as <- <-. apply (BComm a nodes Sf T' (S (next T)) C); reflexivity.
  - intros j Hj. destruct (v_fun _ _ _ _ _ _ _ _ H j Hj) as [ndj [J [Hnj [Hin Ho]]]]. exists ndj, J. split; [exact Hnj|]. split; [apply Hinc; exact Hin|exact Ho].
  - intros j ndj p Hd Hnj Ht Hz Hp. destruct (v_get _ _ _ _ _ _ _ _ H j ndj p Hd Hnj Ht Hz Hp) as [x Hx].
    exists x. apply (getter_mono T B); [exact Hinc|exact Hsame|exact Hx].
  - intros j ndj Hnj. destruct (v_rows _ _ _ _ _ _ _ _ H j ndj Hnj) as [Hl Hq]. split; [exact Hl|].
    intros q ip Hip. destruct (Hq q ip Hip) as [H1 H2]. split; [|exact H2].
    intros Hd. destruct (H1 Hd) as [x [Hx Hs]]. exists x. split; [exact Hx|]. apply (srckey_mono T B); [exact Hinc|exact Hsame|exact Hs].
  - intros j ndj Hnj. destruct (v_pref _ _ _ _ _ _ _ _ H j ndj Hnj) as [Q1 Q2]. split; [|exact Q2].
    intros X Y. destruct (Q1 X Y) as [sk [E1 E2]]. exists sk. split; [exact E1|apply (statekey_mono B); [exact Hinc|exact E2]].
Qed.

Lemma trainer_in_mono Sd i g : trainer_in Sd g -> trainer_in (i :: Sd) g.
Proof. intros [k [ndk [Hk X]]]. exists k, ndk. split; [right; exact Hk|exact X]. Qed.

Lemma strain_train nd : strain nd = true -> is_train nd = true.
Proof. unfold strain. intros X. apply andb_prop in X. tauto. Qed.

Lemma crow_inv Sl Sd Sf Dn T B ck i nd off kd l : Inv Sl Sd Sf Dn T B -> committer T = Some ck -> a = Some l -> ~ In i Sd ->
  nth_error nodes i = Some nd -> strain nd && pers nd = true -> offset a (ngid nd) = Some off -> dumper_of T B i kd ->
  insert T ck kd (Some off) = Some (inserted T ck kd off) /\ Inv Sl (i :: Sd) Sf Dn (inserted T ck kd off) B.
Proof.
  intros H Hck Hl Hi Hn Hsp Hoff Hdump. set (T' := inserted T ck kd off).
  destruct (v_pers _ _ _ _ _ _ _ _ H) as [P1 P2 P3 PC P4].
  destruct (P3 ck Hck) as [cc [C [-> [HC HCo]]]]. destruct (P4 (KF cc) l Hck Hl) as [Hlen Hrow].
  assert (Hst : is_train nd = true) by (apply andb_prop in Hsp; apply strain_train; tauto).
  assert (Hother : forall i' nd', In i' Sd -> nth_error nodes i' = Some nd' -> strain nd' && pers nd' = true -> offset a (ngid nd') <> Some off).
  { intros i' nd' Hi' Hn' Hsp' E. rewrite Hl in E, Hoff. simpl in E, Hoff.
    pose proof (offset_of_inj l _ _ off E Hoff) as Eg.
    assert (i' = i) by (apply (w_unique a nodes wf i' nd' i nd Hn' Hn); [apply andb_prop in Hsp'; apply strain_train; tauto|exact Hst|exact Eg]).
    subst. contradiction. }
  assert (Hfree : aget T (KF cc) off = None) by (apply (proj2 (Hrow off)); exact Hother).
  assert (Hofflt : off < List.length l) by (rewrite Hl in Hoff; simpl in Hoff; exact (offset_of_lt l _ off Hoff)).
  assert (Hold : forall k, k <> KF cc -> arow T' k = arow T k).
  { intros k Hk. unfold T'. rewrite inserted_arow. apply key_eqb_neq in Hk. rewrite Hk. reflexivity. }
  assert (Hkf : same_kf T T' B).
  { intros c I Hin Hop. apply Hold. intros E. injection E as ->. apply Hop.
    rewrite (key_block_unique _ _ _ _ _ _ I [KF cc] C [KF cc] (KF cc) H Hin HC (or_introl eq_refl) (or_introl eq_refl)). exact HCo. }
  destruct Hdump as [cd [D [-> [HD [HDo HDr]]]]].
  assert (Hcd : KF cd <> KF cc).
  { intros E. injection E as ->. pose proof (key_block_unique _ _ _ _ _ _ D [KF cc] C [KF cc] (KF cc) H HD HC (or_introl eq_refl) (or_introl eq_refl)) as X.
    subst D. rewrite HCo in HDo. discriminate. }
  split; [apply insert_some_ok; exact Hfree|].
  constructor.
  - exact (v_idx _ _ _ _ _ _ _ _ H).
  - exact (v_ids _ _ _ _ _ _ _ _ H).
  - exact (v_keys _ _ _ _ _ _ _ _ H).
  - exact (v_next _ _ _ _ _ _ _ _ H).
  - intros k Hk. destruct (key_eq_dec k (KF cc)) as [->|Hne].
    + right. apply expand_keys. exists (C, [KF cc]). split; [exact HC|left; reflexivity].
    + rewrite (Hold k Hne) in Hk. exact (v_arows _ _ _ _ _ _ _ _ H k Hk).
  - exact (v_prows _ _ _ _ _ _ _ _ H).
  - split; [unfold T', inserted; simpl; apply assoc_set_nodup; exact (proj1 (v_anodup _ _ _ _ _ _ _ _ H))|exact (proj2 (v_anodup _ _ _ _ _ _ _ _ H))].
  - constructor.
    + intros j ndj Hj Hnj Hp Ht. apply (P1 j ndj Hj Hnj Hp). intros X. apply Ht. apply trainer_in_mono. exact X.
    + intros X. unfold T', inserted in X. simpl in X. congruence.
    + intros ck' Hck'. unfold T', inserted in Hck'. simpl in Hck'. exact (P3 ck' Hck').
    + intros ck' Hck'. unfold T', inserted in Hck'. simpl in Hck'. exact (PC ck' Hck').
    + intros ck' l' Hck' Hl'. unfold T', inserted in Hck'. simpl in Hck'. rewrite Hck in Hck'. injection Hck' as <-.
      assert (l' = l) by congruence. subst l'. split.
      * unfold T'. rewrite inserted_alen, key_eqb_refl. lia.
      * intros off'. unfold T'. rewrite inserted_aget, key_eqb_refl. simpl. destruct (Nat.eqb off' off) eqn:Eo.
        -- apply Nat.eqb_eq in Eo. subst off'. split.
           ++ intros i' nd' [<-|Hi'] Hn' Hsp' Ho'; [|exfalso; exact (Hother i' nd' Hi' Hn' Hsp' Ho')].
              exists (KF cd). split; [reflexivity|]. exists cd, D. split; [reflexivity|]. split; [exact HD|]. split; [exact HDo|].
              fold T'. rewrite (Hold _ Hcd). exact HDr.
           ++ intros X. exfalso. apply (X i nd (or_introl eq_refl) Hn Hsp). exact Hoff.
        -- apply Nat.eqb_neq in Eo. destruct (Hrow off') as [R1 R2]. split.
           ++ intros i' nd' [<-|Hi'] Hn' Hsp' Ho'.
              ** rewrite Hn in Hn'. injection Hn' as <-. rewrite Hoff in Ho'. injection Ho' as E. exfalso. apply Eo. auto.
              ** destruct (R1 i' nd' Hi' Hn' Hsp' Ho') as [k [Hk Hdk]]. exists k. split; [exact Hk|]. apply (dumper_mono T B); [intros x Hx; exact Hx|exact Hkf|exact Hdk].
           ++ intros X. apply R2. intros i' nd' Hi' Hn' Hsp'. apply (X i' nd' (or_intror Hi') Hn' Hsp').
  - split; [|exact (proj2 (v_rowsne _ _ _ _ _ _ _ _ H))].
    intros k Hk. destruct (key_eq_dec k (KF cc)) as [->|Hne].
    + intros Y. pose proof (inserted_alen T (KF cc) (KF cd) off (KF cc)) as Z. fold T' in Z. rewrite Y, key_eqb_refl in Z. simpl in Z. lia.
    + rewrite (Hold k Hne). apply (proj1 (v_rowsne _ _ _ _ _ _ _ _ H)). unfold T' in Hk. apply inserted_keys in Hk. destruct Hk as [X|X]; [contradiction|exact X].
  - intros g. rewrite Hold by discriminate. exact (v_kgrow _ _ _ _ _ _ _ _ H g).
  - intros I ks Hin. apply (bkind_mono Sf T); [intros x Hx; exact Hx| |reflexivity|exact (v_kinds _ _ _ _ _ _ _ _ H I ks Hin)].
    intros k -> _ Hop. apply Hold. intros E. subst k. apply Hop.
    rewrite (key_block_unique _ _ _ _ _ _ I [KF cc] C [KF cc] (KF cc) H Hin HC (or_introl eq_refl) (or_introl eq_refl)). exact HCo.
  - exact (v_fun _ _ _ _ _ _ _ _ H).
  - intros j ndj p Hd Hnj Ht Hz Hp. destruct (v_get _ _ _ _ _ _ _ _ H j ndj p Hd Hnj Ht Hz Hp) as [x Hx].
    exists x. apply (getter_mono T B); [intros y Hy; exact Hy|exact Hkf|exact Hx].
  - intros j ndj Hnj. destruct (v_rows _ _ _ _ _ _ _ _ H j ndj Hnj) as [Hll Hq].
    assert (E : arow T' (KU j) = arow T (KU j)) by (apply Hold; discriminate).
    split; [rewrite E; exact Hll|]. intros q ip Hip. destruct (Hq q ip Hip) as [H1 H2]. unfold aget. rewrite E. split; [|exact H2].
    intros Hd. destruct (H1 Hd) as [x [Hx Hs]]. exists x. split; [exact Hx|]. apply (srckey_mono T B); [intros y Hy; exact Hy|exact Hkf|exact Hs].
  - exact (v_pref _ _ _ _ _ _ _ _ H).
Qed.

Lemma inv_sd Sl Sd Sf Dn T B i : Inv Sl Sd Sf Dn T B -> (forall nd, nth_error nodes i = Some nd -> strain nd && pers nd = false) ->
  Inv Sl (i :: Sd) Sf Dn T B.
Proof.
  intros H Hno. destruct H as [V1 V2 V3 V4 V5 V6 V7 VP V9 V10 V11 V12 V13 V14 V15]. constructor; auto.
  destruct VP as [P1 P2 P3 PC P4]. constructor; auto.
  - intros j nd Hj Hn Hp Ht. apply (P1 j nd Hj Hn Hp). intros X. apply Ht. apply trainer_in_mono. exact X.
  - intros Hc i' nd' [<-|Hi'] Hn'; [exact (Hno nd' Hn')|exact (P2 Hc i' nd' Hi' Hn')].
  - intros ck l Hck Hl. destruct (P4 ck l Hck Hl) as [Hlen Hrow]. split; [exact Hlen|]. intros off. destruct (Hrow off) as [R1 R2]. split.
    + intros i' nd' [<-|Hi'] Hn' Hsp Ho; [rewrite (Hno nd' Hn') in Hsp; discriminate|exact (R1 i' nd' Hi' Hn' Hsp Ho)].
    + intros X. apply R2. intros i' nd' Hi'. apply (X i' nd' (or_intror Hi')).
Qed.

(* Index.reset of the loader registered under the group id *)
Definition reset_state (T : tbl) (g : nat) (L : instr) : tbl :=
  Tbl (assoc_del (KG g) (index T) ++ [(KF (next T), L)]) (absl T) (pref T) (committer T) (S (next T)).

Lemma reset_inv Sl Sd Sf Dn T B g L : Inv Sl Sd Sf Dn T B -> In (L, [KG g]) B -> iop L = OLoader g -> trainer_in Sd g ->
  exists B', index_reset T (KG g) = Some (reset_state T g L, KF (next T))
    /\ Inv Sl Sd Sf Dn (reset_state T g L) B' /\ loader_at B' g (KF (next T)) /\ instr_at (reset_state T g L) (KG g) = None.
Proof.
  intros H HL HLo Htr. destruct (in_split _ _ HL) as [B1 [B2 EB]].
  set (Bd := B1 ++ B2). set (Td := Tbl (assoc_del (KG g) (index T)) (absl T) (pref T) (committer T) (next T)).
  assert (Hexp : expand B = expand B1 ++ (KG g, L) :: expand B2) by (rewrite EB, expand_app; reflexivity).
  pose proof (v_keys _ _ _ _ _ _ _ _ H) as Hk. rewrite Hexp, map_app in Hk. simpl in Hk.
  assert (Hk1 : ~ In (KG g) (map fst (expand B1))).
  { intros X. apply NoDup_remove_2 in Hk. apply Hk. apply in_or_app. left. exact X. }
  assert (Hk2 : ~ In (KG g) (map fst (expand B2))).
  { intros X. apply NoDup_remove_2 in Hk. apply Hk. apply in_or_app. right. exact X. }
  assert (Hidx : index Td = expand Bd).
  { unfold Td, Bd. simpl. rewrite (v_idx _ _ _ _ _ _ _ _ H), Hexp, expand_app. apply assoc_del_split. exact Hk1. }
  assert (Hsub : forall x, In x Bd -> In x B) by (intros x Hx; rewrite EB; apply in_app_or in Hx; apply in_or_app; destruct Hx; [left|right; right]; assumption).
  assert (Hkeep : forall x, In x B -> x <> (L, [KG g]) -> In x Bd).
  { intros x Hx Hne. rewrite EB in Hx. apply in_app_or in Hx. apply in_or_app. destruct Hx as [Hx|[Hx|Hx]]; [left; exact Hx|congruence|right; exact Hx]. }
  assert (Hkeysd : forall k, In k (map fst (expand Bd)) <-> In k (map fst (expand B)) /\ k <> KG g).
  { intros k. unfold Bd. rewrite expand_app, map_app, Hexp, map_app. simpl. rewrite !in_app_iff. simpl. split.
    - intros [X|X]; (split; [tauto|intros ->; contradiction]).
    - intros [[X|[X|X]] Hne]; [left; exact X|congruence|right; exact X]. }
  assert (Hpa : persistent a g = true).
  { destruct (v_kinds _ _ _ _ _ _ _ _ H L [KG g] HL) as [i nd I Hi Hn Ho|i nd p c I Hi Hn Ht Hz Hp Ho Hr|g' k I Ho Hp Hr Hkk|i nd c I Hn Hsp Ho Hr|c I Ho Hcm].
    - unfold C01Inv.fop in Ho. rewrite HLo in Ho. discriminate.
    - rewrite HLo in Ho. discriminate.
    - rewrite HLo in Ho. injection Ho as ->. exact Hp.
    - rewrite HLo in Ho. discriminate.
    - rewrite HLo in Ho. discriminate. }
  (* the table without the block *)
  assert (Hd : Inv Sl Sd Sf Dn Td Bd).
  { destruct (v_pers _ _ _ _ _ _ _ _ H) as [P1 P2 P3 PC P4]. constructor.
    - exact Hidx.
    - pose proof (v_ids _ _ _ _ _ _ _ _ H) as X. rewrite EB, map_app in X. simpl in X. apply NoDup_remove_1 in X. unfold Bd. rewrite map_app. exact X.
    - unfold Bd. rewrite expand_app, map_app. apply NoDup_remove_1 in Hk. exact Hk.
    - split; [intros b0 Hb; exact (proj1 (v_next _ _ _ _ _ _ _ _ H) b0 (Hsub b0 Hb))|intros c Hc; apply Hkeysd in Hc; exact (proj2 (v_next _ _ _ _ _ _ _ _ H) c (proj1 Hc))].
    - intros k Hkk. destruct (v_arows _ _ _ _ _ _ _ _ H k Hkk) as [X|X]; [left; exact X|right]. apply Hkeysd. split; [exact X|].
      intros ->. apply Hkk. exact (v_kgrow _ _ _ _ _ _ _ _ H g).
    - exact (v_prows _ _ _ _ _ _ _ _ H).
    - exact (v_anodup _ _ _ _ _ _ _ _ H).
    - constructor.
      + intros j nd Hj Hn Hp Ht. destruct (P1 j nd Hj Hn Hp Ht) as [I [Hin Ho]]. exists I. split; [|exact Ho].
        apply Hkeep; [exact Hin|]. intros E. injection E as _ E. apply Ht. rewrite E. exact Htr.
      + exact P2.
      + intros ck Hck. destruct (P3 ck Hck) as [c [I [E [Hin Ho]]]]. exists c, I. split; [exact E|]. split; [|exact Ho]. apply Hkeep; [exact Hin|]. intros X. injection X as _ X. discriminate.
      + exact PC.
      + intros ck l Hck Hl. destruct (P4 ck l Hck Hl) as [Hlen Hrow]. split; [exact Hlen|]. intros off. destruct (Hrow off) as [R1 R2]. split; [|exact R2].
        intros i nd Hi Hn Hsp Ho. destruct (R1 i nd Hi Hn Hsp Ho) as [k [Hkk [c [I [-> [Hin [Hop Hr]]]]]]]. exists (KF c). split; [exact Hkk|].
        exists c, I. repeat split; auto. apply Hkeep; [exact Hin|]. intros X. injection X as _ X. discriminate.
    - exact (v_rowsne _ _ _ _ _ _ _ _ H).
    - exact (v_kgrow _ _ _ _ _ _ _ _ H).
    - intros I ks Hin. apply (bkind_mono Sf T); [intros x Hx; exact Hx|intros k _ _ _; reflexivity|reflexivity|exact (v_kinds _ _ _ _ _ _ _ _ H I ks (Hsub _ Hin))].
    - intros j Hj. destruct (v_fun _ _ _ _ _ _ _ _ H j Hj) as [ndj [I [Hnj [Hin Ho]]]]. exists ndj, I. split; [exact Hnj|]. split; [|exact Ho].
      apply Hkeep; [exact Hin|]. intros X. injection X as _ X. unfold fkeys in X. discriminate.
    - intros j ndj p Hdn Hnj Ht Hz Hp. destruct (v_get _ _ _ _ _ _ _ _ H j ndj p Hdn Hnj Ht Hz Hp) as [x [c [I [-> [Hin [Ho Hr]]]]]].
      exists (KF c), c, I. repeat split; auto. apply Hkeep; [exact Hin|]. intros X. injection X as _ X. discriminate.
    - intros j ndj Hnj. destruct (v_rows _ _ _ _ _ _ _ _ H j ndj Hnj) as [Hl Hq]. split; [exact Hl|].
      intros q ip Hip. destruct (Hq q ip Hip) as [H1 H2]. split; [|exact H2].
      intros Hdn. destruct (H1 Hdn) as [x [Hx [ndi [Hni Hs]]]]. exists x. split; [exact Hx|]. exists ndi. split; [exact Hni|].
      destruct Hs as [Hs|[Hz [c [I [-> [Hin [Ho Hr]]]]]]]; [left; exact Hs|right]. split; [exact Hz|]. exists c, I. repeat split; auto.
      apply Hkeep; [exact Hin|]. intros X. injection X as _ X. discriminate.
    - intros j ndj Hnj. destruct (v_pref _ _ _ _ _ _ _ _ H j ndj Hnj) as [Q1 Q2]. split; [|exact Q2].
      intros X Y. destruct (Q1 X Y) as [sk [E1 E2]]. exists sk. split; [exact E1|]. unfold C01Inv.statekey_ok in *.
      destruct (strain ndj && pers ndj); [|exact E2]. destruct E2 as [[c ->] [I [Hin Ho]]]. split; [eauto|]. exists I. split; [|exact Ho].
      apply Hkeep; [exact Hin|]. intros Z. injection Z as _ Z. discriminate. }
  assert (HLat : assoc (KG g) (index T) = Some L).
  { rewrite (v_idx _ _ _ _ _ _ _ _ H). apply in_assoc; [exact (v_keys _ _ _ _ _ _ _ _ H)|]. apply expand_in. exists [KG g]. split; [exact HL|left; reflexivity]. }
  destruct (kf_fresh _ _ _ _ _ _ (next T) Hd (le_n _)) as [Hfi [Hfa _]].
  exists (Bd ++ [(L, [KF (next T)])]). split; [|split; [|split]].
  - unfold index_reset. rewrite HLat. simpl. unfold index_fresh, index_set. simpl. unfold instr_at in Hfi. simpl in Hfi. rewrite Hfi. reflexivity.
  - apply (inv_snoc1 Sl Sd Sf Dn Td Bd L (KF (next T)) (S (next T)) Hd); [|pose proof (proj1 (v_next _ _ _ _ _ _ _ _ H) _ HL) as X; unfold bid in X; simpl in X; simpl; lia|simpl; lia|exact Hfi|intros c E; injection E as <-; lia|].
    + intros X. pose proof (v_ids _ _ _ _ _ _ _ _ H) as Y. rewrite EB, map_app in Y. simpl in Y. apply NoDup_remove_2 in Y. apply Y. unfold Bd in X. rewrite map_app in X. exact X.
    + apply (BLoad a nodes Sf Td g (KF (next T)) L); [exact HLo|exact Hpa|exact Hfa|right; eauto].
  - exists L. split; [apply in_or_app; right; left; reflexivity|exact HLo].
  - unfold instr_at, reset_state. simpl. rewrite assoc_app. change (assoc_del (KG g) (index T)) with (index Td). rewrite Hidx.
    assert (X : assoc (KG g) (expand Bd) = None) by (apply assoc_none; intros Y; apply Hkeysd in Y; destruct Y as [_ Y]; apply Y; reflexivity).
    rewrite X. simpl. reflexivity.
Qed.

Definition p2 (t : tbl) (i : nat) (n : node) : option (tbl * key) :=
  if nstateful n && is_train n && (nstateful n && persistent a (ngid n)) then
    bind (match committer t with
          | Some c => Some (t, c)
          | None => let '(t1, ci) := alloc t OCommitter in
                    bind (index_fresh t1 ci) (fun tk => let '(t2, c) := tk in
                      Some (Tbl (index t2) (absl t2) (pref t2) (Some c) (next t2), c))
          end) (fun tc =>
    let '(t, c) := tc in
    let '(t1, di) := alloc t ODumper in
    bind (index_fresh t1 di) (fun tk => let '(t2, d) := tk in
    bind (insert t2 d (KU i) None) (fun t3 =>
    bind (offset a (ngid n)) (fun off =>
    bind (insert t3 c d (Some off)) (fun t4 => index_reset t4 (KG (ngid n)))))))
  else Some (t, KG (ngid n)).

Lemma add_split T i nd : nth_error nodes i = Some nd -> instr_at T (KU i) = None ->
  add a nodes T i = bind (p1 T nd) (fun t1 => bind (p2 t1 i nd) (fun ts => finish (fst ts) i nd (snd ts))).
Proof.
  intros Hn Hku. unfold add. rewrite Hn. simpl. unfold instr_at in Hku. rewrite Hku. unfold p1, p2, finish.
  destruct (nstateful nd && persistent a (ngid nd)); simpl.
  - destruct (assoc (KG (ngid nd)) (index T)); simpl.
    + destruct (nstateful nd && is_train nd); simpl; [|reflexivity].
      destruct (committer T); simpl.
      * destruct (index_fresh _ _) as [[t2 d]|]; simpl; [|reflexivity]. destruct (insert t2 d (KU i) None); simpl; [|reflexivity].
        destruct (offset a (ngid nd)); simpl; [|reflexivity]. destruct (insert _ _ d _); simpl; [|reflexivity]. destruct (index_reset _ _) as [[t5 k5]|]; reflexivity.
      * destruct (index_fresh _ _) as [[t2 c]|]; simpl; [|reflexivity].
        destruct (index_fresh _ _) as [[t3 d]|]; simpl; [|reflexivity]. destruct (insert t3 d (KU i) None); simpl; [|reflexivity].
        destruct (offset a (ngid nd)); simpl; [|reflexivity]. destruct (insert _ _ d _); simpl; [|reflexivity]. destruct (index_reset _ _) as [[t5 k5]|]; reflexivity.
    + destruct (index_set _ _ _) as [t1|]; simpl; [|reflexivity].
      destruct (nstateful nd && is_train nd); simpl; [|reflexivity].
      destruct (committer t1); simpl.
      * destruct (index_fresh _ _) as [[t2 d]|]; simpl; [|reflexivity]. destruct (insert t2 d (KU i) None); simpl; [|reflexivity].
        destruct (offset a (ngid nd)); simpl; [|reflexivity]. destruct (insert _ _ d _); simpl; [|reflexivity]. destruct (index_reset _ _) as [[t5 k5]|]; reflexivity.
      * destruct (index_fresh _ _) as [[t2 c]|]; simpl; [|reflexivity].
        destruct (index_fresh _ _) as [[t3 d]|]; simpl; [|reflexivity]. destruct (insert t3 d (KU i) None); simpl; [|reflexivity].
        destruct (offset a (ngid nd)); simpl; [|reflexivity]. destruct (insert _ _ d _); simpl; [|reflexivity]. destruct (index_reset _ _) as [[t5 k5]|]; reflexivity.
  - rewrite andb_false_r. reflexivity.
Qed.

Lemma persistent_offset g : persistent a g = true -> exists l off, a = Some l /\ offset a g = Some off.
Proof.
  unfold persistent, offset. destruct a as [l|]; [|discriminate]. destruct (offset_of g l) as [off|]; [|discriminate].
  intros _. exists l, off. auto.
Qed.

Lemma p2_inv S0 Dn T B i nd : Inv (i :: S0) S0 S0 Dn T B -> ~ In i S0 -> nth_error nodes i = Some nd ->
  exists T2 B2 sk, p2 T i nd = Some (T2, sk) /\ Inv (i :: S0) (i :: S0) S0 Dn T2 B2
    /\ (preset_of i nd = true -> statekey_ok B2 nd sk) /\ (is_train nd = true -> instr_at T2 (KG (ngid nd)) = None).
Proof.
  intros H Hi Hn. unfold p2. fold (strain nd). fold (C01Inv.pers a nd). destruct (strain nd && pers nd) eqn:Esp.
  - (* the trained member of a persistent group *)
    apply andb_prop in Esp. destruct Esp as [Es Ep]. pose proof (strain_train nd Es) as Et.
    assert (Hpa : persistent a (ngid nd) = true) by (unfold C01Inv.pers in Ep; apply andb_prop in Ep; tauto).
    destruct (persistent_offset _ Hpa) as [l [off [Hl Hoff]]].
    assert (Hnt : ~ trainer_in S0 (ngid nd)).
    { intros [k [ndk [Hk [Hnk [Htk Hg]]]]]. assert (k = i) by (apply (w_unique a nodes wf k ndk i nd Hnk Hn Htk Et Hg)). subst. contradiction. }
    destruct (p_load _ _ _ _ _ _ (v_pers _ _ _ _ _ _ _ _ H) i nd (or_introl eq_refl) Hn Ep Hnt) as [L [HL HLo]].
    (* committer *)
    assert (Hcomm : exists T1 B1 ck, (match committer T with
                      | Some c => Some (T, c)
                      | None => let '(t1, ci) := alloc T OCommitter in
                                bind (index_fresh t1 ci) (fun tk => let '(t2, c) := tk in Some (Tbl (index t2) (absl t2) (pref t2) (Some c) (next t2), c))
                      end) = Some (T1, ck) /\ Inv (i :: S0) S0 S0 Dn T1 B1 /\ committer T1 = Some ck /\ incl B B1).
    { destruct (committer T) as [ck|] eqn:Ec.
      - exists T, B, ck. split; [reflexivity|]. split; [exact H|]. split; [exact Ec|intros x Hx; exact Hx].
      - destruct (kf_fresh _ _ _ _ _ _ (S (next T)) H ltac:(lia)) as [Hfi _].
        exists (comm_state T), (B ++ [(Instr (next T) OCommitter, [KF (S (next T))])]), (KF (S (next T))).
        split; [unfold alloc, index_fresh, index_set; simpl; unfold instr_at in Hfi; rewrite Hfi; reflexivity|].
        split; [apply comm_new_inv; [exact H|exact Ec|exists i, nd; split; [left; reflexivity|split; [exact Hn|rewrite Es, Ep; reflexivity]]]|]. split; [reflexivity|intros x Hx; apply in_or_app; left; exact Hx]. }
    destruct Hcomm as [T1 [B1 [ck [Ecomm [H1 [Hck1 Hinc1]]]]]]. rewrite Ecomm. simpl.
    (* dumper *)
    destruct (kf_fresh _ _ _ _ _ _ (S (next T1)) H1 ltac:(lia)) as [Hfi [Hfa _]].
    destruct (unary_reg_inv (i :: S0) S0 S0 Dn T1 B1 i ODumper H1) as [H2 Hrow].
    { intros Hr. apply (BDump a nodes S0 (unary_state T1 i ODumper) i nd (S (next T1))); auto. rewrite Es, Ep. reflexivity. }
    set (T2 := unary_state T1 i ODumper) in *. set (kd := KF (S (next T1))) in *. set (B2 := B1 ++ [(Instr (next T1) ODumper, [kd])]) in *.
    assert (Hdump : dumper_of T2 B2 i kd).
    { exists (S (next T1)), (Instr (next T1) ODumper). split; [reflexivity|]. split; [apply in_or_app; right; left; reflexivity|]. split; [reflexivity|exact Hrow]. }
    assert (Hck2 : committer T2 = Some ck) by exact Hck1.
    destruct (crow_inv (i :: S0) S0 S0 Dn T2 B2 ck i nd off kd l H2 Hck2 Hl Hi Hn) as [Eins H3]; [rewrite Es, Ep; reflexivity|exact Hoff|exact Hdump|].
    set (T3 := inserted T2 ck kd off) in *.
    (* re-keying of the loader *)
    assert (HL3 : In (L, [KG (ngid nd)]) B2) by (apply in_or_app; left; apply Hinc1; exact HL).
    destruct (reset_inv (i :: S0) (i :: S0) S0 Dn T3 B2 (ngid nd) L H3 HL3 HLo) as [B4 [Ereset [H4 [Hlat Hkg]]]].
    { exists i, nd. split; [left; reflexivity|auto]. }
    exists (reset_state T3 (ngid nd) L), B4, (KF (next T3)). split.
    + unfold alloc, index_fresh, index_set. simpl. unfold instr_at in Hfi. fold kd. rewrite Hfi. simpl.
      change (insert _ kd (KU i) None) with (insert (Tbl (index T1 ++ [(kd, Instr (next T1) ODumper)]) (absl T1) (pref T1) (committer T1) (S (S (next T1)))) kd (KU i) None).
      rewrite insert_none_ok by exact Hfa. simpl. rewrite Hoff. simpl.
      change (inserted _ kd (KU i) 0) with T2. rewrite Eins. simpl. exact Ereset.
    + split; [exact H4|]. split; [|intros _; exact Hkg].
      intros _. unfold C01Inv.statekey_ok. rewrite Es, Ep. simpl. split; [eauto|exact Hlat].
  - exists T, B, (KG (ngid nd)). split; [reflexivity|]. split; [apply inv_sd; [exact H|]; intros nd' Hn'; rewrite Hn in Hn'; injection Hn' as <-; exact Esp|]. split.
    + intros _. unfold C01Inv.statekey_ok. rewrite Esp. reflexivity.
    + intros Et. apply (kg_absent_nopers _ _ _ _ _ _ i nd H Hi Hn Et).
      unfold strain in Esp. rewrite Et, (w_train_stateful a nodes wf i nd Hn Et) in Esp. simpl in Esp. exact Esp.
Qed.

(* ---- one Table.add call, and the whole traversal ----------------------------------------------------------- *)
Definition allp (S0 : list nat) : nat -> nat -> Prop := fun j _ => In j S0.

Lemma add_step S0 T B i nd : Inv S0 S0 S0 (allp S0) T B -> ~ In i S0 -> nth_error nodes i = Some nd ->
  exists T' B', add a nodes T i = Some T' /\ Inv (i :: S0) (i :: S0) (i :: S0) (allp (i :: S0)) T' B'.
Proof.
  intros H Hi Hn. pose proof (ku_absent _ _ _ _ _ _ _ H Hi) as Hku. rewrite (add_split T i nd Hn Hku).
  destruct (p1_inv S0 (allp S0) T B i nd H Hi Hn) as [T1 [B1 [E1 H1]]]. rewrite E1. simpl.
  destruct (p2_inv S0 (allp S0) T1 B1 i nd H1 Hi Hn) as [T2 [B2 [sk [E2 [H2 [Hsk Hkg]]]]]]. rewrite E2. simpl.
  pose proof (ku_absent _ _ _ _ _ _ _ H2 Hi) as Hku2.
  rewrite (finish_ok T2 i nd sk Hn Hku2 Hkg).
  pose proof (reg_inv (i :: S0) (i :: S0) S0 (allp S0) T2 B2 i nd sk H2 Hi Hn Hkg Hsk) as H3.
  destruct (is_train nd) eqn:Et.
  - eexists. eexists. split; [reflexivity|].
    apply (inv_ext a nodes wf (i :: S0) (i :: S0) (i :: S0) (allp S0)); [|exact H3].
    intros j ndj p Hnj Htj _. unfold allp. split; [intros X; right; exact X|].
    intros [<-|X]; [|exact X]. rewrite Hn in Hnj. injection Hnj as <-. rewrite Et in Htj. discriminate.
  - destruct (update_inv (i :: S0) (i :: S0) (i :: S0) (allp S0) _ _ i nd H3 ltac:(left; reflexivity) Hn Et) as [T' [B' [Hc Hi']]].
    + intros p X. exact (Hi X).
    + exists T', B'. split; [exact Hc|].
      apply (inv_ext a nodes wf (i :: S0) (i :: S0) (i :: S0) (Dnp (allp S0) i (nszout nd))); [|exact Hi'].
      intros j ndj p Hnj _ Hp. unfold Dnp, allp. split.
      * intros [X|[-> _]]; [right; exact X|left; reflexivity].
      * intros [<-|X]; [|left; exact X]. right. rewrite Hn in Hnj. injection Hnj as <-. auto.
Qed.

Lemma fold_add : forall visit S0 T B, Inv S0 S0 S0 (allp S0) T B -> NoDup visit -> (forall i, In i visit -> ~ In i S0) ->
  (forall i, In i visit -> i < List.length nodes) ->
  exists T' B' S', fold_opt (add a nodes) visit T = Some T' /\ Inv S' S' S' (allp S') T' B' /\ (forall j, In j S' <-> In j visit \/ In j S0).
Proof.
  induction visit as [|i visit IH]; intros S0 T B H Hd Hdis Hlt; simpl.
  - exists T, B, S0. split; [reflexivity|]. split; [exact H|]. intros j. tauto.
  - inversion Hd as [|? ? Hni Hd']; subst.
    destruct (nth_error nodes i) as [nd|] eqn:Hn; [|apply nth_error_None in Hn; specialize (Hlt i (or_introl eq_refl)); lia].
    destruct (add_step S0 T B i nd H (Hdis i (or_introl eq_refl)) Hn) as [T1 [B1 [Hc H1]]]. rewrite Hc. simpl.
    destruct (IH (i :: S0) T1 B1 H1 Hd') as [T' [B' [S' [Hc' [H' Hm]]]]].
    + intros j Hj [<-|X]; [contradiction|]. exact (Hdis j (or_intror Hj) X).
    + intros j Hj. apply Hlt. right. exact Hj.
    + exists T', B', S'. split; [exact Hc'|]. split; [exact H'|]. intros j. rewrite Hm. simpl. intuition.
Qed.

End Step.
