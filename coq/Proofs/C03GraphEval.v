(* C03 - the graph an expression denotes evaluates (Model/C01.v geval) to the expression denotation (Model/C03.v den). *)
Require Import List Bool ZArith Arith Lia.
From FV Require Import Lib.Sym Model.C01 Proofs.C01 Model.C03.
From FV Require Import Model.C03Graph.
Import ListNotations.

Definition ev (ns : list node) : env := geval None ns.

Lemma ev_snoc ns n : ev (ns ++ [n]) = eval_node None (ev ns) n.
Proof. unfold ev, geval. rewrite fold_left_app. reflexivity. Qed.

Lemma ev_len ns : List.length (outputs (ev ns)) = List.length ns.
Proof. apply geval_once. Qed.

Lemma value_snoc ns n r : fst r < List.length ns -> value (ev (ns ++ [n])) r = value (ev ns) r.
Proof.
  intros H. rewrite ev_snoc. destruct (eval_node_prefix None (ev ns) n) as [row Hrow]. unfold value. rewrite Hrow.
  rewrite app_nth1 by (rewrite ev_len; exact H). reflexivity.
Qed.

Lemma value_app ns more r : fst r < List.length ns -> value (ev (ns ++ more)) r = value (ev ns) r.
Proof.
  revert ns. induction more as [|n more IH]; intros ns H; [rewrite app_nil_r; reflexivity|].
  replace (ns ++ n :: more) with ((ns ++ [n]) ++ more) by (rewrite <- app_assoc; reflexivity).
  rewrite IH by (rewrite app_length; simpl; lia). apply value_snoc. exact H.
Qed.

Lemma value_new ns n : value (ev (ns ++ [n])) (List.length ns, 0) = nth 0 (nth (List.length ns) (outputs (eval_node None (ev ns) n)) []) TNone.
Proof. rewrite ev_snoc. reflexivity. Qed.

(* a stateless member *)
Lemma apply_stateless ns a g input : astateful a = false -> fst input < List.length ns ->
  value (ev (ns ++ [mknode a g (KApply [input])])) (List.length ns, 0) = act a TNone (value (ev ns) input)
  /\ trained (ev (ns ++ [mknode a g (KApply [input])])) = trained (ev ns).
Proof.
  intros Hs Hi. rewrite ev_snoc. unfold eval_node, mknode. simpl. rewrite Hs. simpl. split; [|reflexivity].
  unfold value. simpl. rewrite app_nth2 by (rewrite ev_len; lia). rewrite ev_len, Nat.sub_diag. reflexivity.
Qed.

(* a trained fork followed by the applied member of the same group *)
Lemma group_stateful ns a g input tf tl : astateful a = true -> fst input < List.length ns ->
  let ns' := ns ++ [mknode a g (KTrain tf tl); mknode a g (KApply [input])] in
  let st := TState (aname a) (ahp a) TNone (value (ev ns) tf) (value (ev ns) tl) in
  value (ev ns') (S (List.length ns), 0) = act a st (value (ev ns) input)
  /\ trained (ev ns') = (g, st) :: trained (ev ns).
Proof.
  intros Hs Hi ns' st. unfold ns'. replace (ns ++ [mknode a g (KTrain tf tl); mknode a g (KApply [input])])
    with ((ns ++ [mknode a g (KTrain tf tl)]) ++ [mknode a g (KApply [input])]) by (rewrite <- app_assoc; reflexivity).
  set (n1 := ns ++ [mknode a g (KTrain tf tl)]).
  assert (E1 : ev n1 = Env (outputs (ev ns) ++ [[st]]) ((g, st) :: trained (ev ns))).
  { unfold n1. rewrite ev_snoc. unfold eval_node, mknode. simpl. reflexivity. }
  rewrite ev_snoc. unfold eval_node. simpl. rewrite Hs, E1. simpl. rewrite Nat.eqb_refl. split; [|reflexivity].
  unfold value. simpl. assert (Hl : List.length (outputs (ev ns) ++ [[st]]) = S (List.length ns)) by (rewrite app_length, ev_len; simpl; lia).
  rewrite app_nth2 by lia. rewrite Hl, Nat.sub_diag. simpl.
  rewrite app_nth1 by (rewrite ev_len; exact Hi). reflexivity.
Qed.

(* an applied fork of a group trained earlier in the list (the mapper's train-path fork) *)
Lemma fork_stateful ns a g input st rest : astateful a = true -> fst input < List.length ns -> trained (ev ns) = (g, st) :: rest ->
  value (ev (ns ++ [mknode a g (KApply [input])])) (List.length ns, 0) = act a st (value (ev ns) input).
Proof.
  intros Hs Hi Ht. rewrite ev_snoc. unfold eval_node, mknode. simpl. rewrite Hs, Ht. simpl. rewrite Nat.eqb_refl.
  unfold value. simpl. rewrite app_nth2 by (rewrite ev_len; lia). rewrite ev_len, Nat.sub_diag. reflexivity.
Qed.

(* one worker group on a path, whatever the flavour *)
Lemma group_value ns a g input tf tl : fst input < List.length ns -> fst tf < List.length ns -> fst tl < List.length ns ->
  let '(new, idx) := group_nodes a g (List.length ns) input tf tl in
  value (ev (ns ++ new)) (idx, 0) = act a (fit a (value (ev ns) tf) (value (ev ns) tl)) (value (ev ns) input)
  /\ idx < List.length (ns ++ new)
  /\ (astateful a = true -> trained (ev (ns ++ new)) = (g, fit a (value (ev ns) tf) (value (ev ns) tl)) :: trained (ev ns)).
Proof.
  intros Hi Hf Hl. unfold group_nodes, fit. destruct (astateful a) eqn:Hs.
  - destruct (group_stateful ns a g input tf tl Hs Hi) as [H1 H2]. split; [exact H1|]. split; [rewrite app_length; simpl; lia|intros _; exact H2].
  - destruct (apply_stateless ns a g input Hs Hi) as [H1 H2]. split; [exact H1|]. split; [rewrite app_length; simpl; lia|discriminate].
Qed.

(* the expression state and the graph agree at the three tails *)
Definition agree (s : flowst) (gs : gstate) : Prop :=
  let n := List.length (gnodes gs) in
  value (ev (gnodes gs)) (pa gs) = xa s /\ value (ev (gnodes gs)) (pt gs) = xt s /\ value (ev (gnodes gs)) (pl gs) = yl s
  /\ fst (pa gs) < n /\ fst (pt gs) < n /\ fst (pl gs) < n.

Lemma agree_source a t sl : agree (source a t sl) (gsource a t sl).
Proof. unfold agree, source, gsource. simpl. repeat split; try lia; reflexivity. Qed.

Theorem build_op_agree o s gs : agree s gs -> agree (den_op o s) (build_op o gs).
Proof.
  intros [Ha [Ht [Hl [La [Lt Ll]]]]]. unfold build_op, den_op. set (ns := gnodes gs) in *.
  (* label group *)
  assert (H1 : exists nl pl1 g1,
    match olabel o with
    | Some l => let '(ns', idx) := group_nodes l (gfresh gs) (List.length ns) (pl gs) (pt gs) (pl gs) in (ns', (idx, 0), S (gfresh gs))
    | None => ([], pl gs, gfresh gs)
    end = (nl, pl1, g1)
    /\ value (ev (ns ++ nl)) pl1 = match olabel o with Some l => act l (fit l (xt s) (yl s)) (yl s) | None => yl s end
    /\ fst pl1 < List.length (ns ++ nl)).
  { destruct (olabel o) as [l|].
    - pose proof (group_value ns l (gfresh gs) (pl gs) (pt gs) (pl gs) Ll Lt Ll) as G.
      destruct (group_nodes l (gfresh gs) (List.length ns) (pl gs) (pt gs) (pl gs)) as [nl idx]. destruct G as [G1 [G2 _]].
      exists nl, (idx, 0), (S (gfresh gs)). split; [reflexivity|]. rewrite G1, Ht, Hl. auto.
    - exists [], (pl gs), (gfresh gs). rewrite app_nil_r. auto. }
  destruct H1 as [nl [pl1 [g1 [E1 [V1 L1]]]]]. rewrite E1.
  set (n1 := ns ++ nl) in *. set (y' := match olabel o with Some l => act l (fit l (xt s) (yl s)) (yl s) | None => yl s end) in *.
  assert (Lt1 : fst (pt gs) < List.length n1) by (unfold n1; rewrite app_length; lia).
  assert (La1 : fst (pa gs) < List.length n1) by (unfold n1; rewrite app_length; lia).
  assert (Vt1 : value (ev n1) (pt gs) = xt s) by (unfold n1; rewrite value_app by exact Lt; exact Ht).
  assert (Va1 : value (ev n1) (pa gs) = xa s) by (unfold n1; rewrite value_app by exact La; exact Ha).
  replace (List.length ns + List.length nl) with (List.length n1) by (unfold n1; rewrite app_length; reflexivity).
  (* apply group *)
  assert (H2 : exists na pa2 g2,
    match oapply o with
    | Some a => let '(ns', idx) := group_nodes a g1 (List.length n1) (pa gs) (pt gs) pl1 in (ns', (idx, 0), S g1)
    | None => ([], pa gs, g1)
    end = (na, pa2, g2)
    /\ value (ev (n1 ++ na)) pa2 = match oapply o with Some a => act a (fit a (xt s) y') (xa s) | None => xa s end
    /\ fst pa2 < List.length (n1 ++ na)
    /\ (forall a, oapply o = Some a -> astateful a = true -> exists rest, trained (ev (n1 ++ na)) = (g1, fit a (xt s) y') :: rest)).
  { destruct (oapply o) as [a|].
    - pose proof (group_value n1 a g1 (pa gs) (pt gs) pl1 La1 Lt1 L1) as G.
      destruct (group_nodes a g1 (List.length n1) (pa gs) (pt gs) pl1) as [na idx]. destruct G as [G1 [G2 G3]].
      exists na, (idx, 0), (S g1). split; [reflexivity|]. rewrite G1, Vt1, V1, Va1. split; [reflexivity|]. split; [exact G2|].
      intros a' E Hs. injection E as <-. rewrite (G3 Hs), Vt1, V1. eauto.
    - exists [], (pa gs), g1. rewrite app_nil_r. split; [reflexivity|]. split; [exact Va1|]. split; [exact La1|]. intros a E. discriminate. }
  destruct H2 as [na [pa2 [g2 [E2 [V2 [L2 T2]]]]]]. rewrite E2.
  set (n2 := n1 ++ na) in *.
  assert (Lt2 : fst (pt gs) < List.length n2) by (unfold n2; rewrite app_length; lia).
  assert (Ll2 : fst pl1 < List.length n2) by (unfold n2; rewrite app_length; lia).
  assert (Vt2 : value (ev n2) (pt gs) = xt s) by (unfold n2; rewrite value_app by exact Lt1; exact Vt1).
  assert (Vl2 : value (ev n2) pl1 = y') by (unfold n2; rewrite value_app by exact L1; exact V1).
  replace (List.length n1 + List.length na) with (List.length n2) by (unfold n2; rewrite app_length; reflexivity).
  (* train path *)
  assert (H3 : exists nt pt3,
    match otrain o, oapply o with
    | TSame, Some a => ([mknode a g1 (KApply [pt gs])], (List.length n2, 0))
    | TOwn t, _ => let '(ns', idx) := group_nodes t g2 (List.length n2) (pt gs) (pt gs) pl1 in (ns', (idx, 0))
    | _, _ => ([], pt gs)
    end = (nt, pt3)
    /\ value (ev (n2 ++ nt)) pt3 = match otrain o, oapply o with
                                   | TSame, Some a => act a (fit a (xt s) y') (xt s)
                                   | TOwn t, _ => act t (fit t (xt s) y') (xt s)
                                   | _, _ => xt s
                                   end
    /\ fst pt3 < List.length (n2 ++ nt)).
  { destruct (otrain o) as [| |t].
    - exists [], (pt gs). rewrite app_nil_r. auto.
    - destruct (oapply o) as [a|] eqn:Ea.
      + exists [mknode a g1 (KApply [pt gs])], (List.length n2, 0). split; [reflexivity|]. split; [|rewrite app_length; simpl; lia].
        destruct (astateful a) eqn:Hs.
        * destruct (T2 a eq_refl Hs) as [rest Hr]. rewrite (fork_stateful n2 a g1 (pt gs) _ rest Hs Lt2 Hr), Vt2. reflexivity.
        * destruct (apply_stateless n2 a g1 (pt gs) Hs Lt2) as [G _]. rewrite G, Vt2. unfold fit. rewrite Hs. reflexivity.
      + exists [], (pt gs). rewrite app_nil_r. auto.
    - pose proof (group_value n2 t g2 (pt gs) (pt gs) pl1 Lt2 Lt2 Ll2) as G.
      destruct (group_nodes t g2 (List.length n2) (pt gs) (pt gs) pl1) as [nt idx]. destruct G as [G1 [G2 _]].
      exists nt, (idx, 0). split; [destruct (oapply o); reflexivity|]. rewrite G1, Vt2, Vl2. split; [destruct (oapply o); reflexivity|exact G2]. }
  destruct H3 as [nt [pt3 [E3 [V3 L3]]]]. rewrite E3.
  unfold agree. simpl. replace (ns ++ nl ++ na ++ nt) with (n2 ++ nt) by (unfold n2, n1; rewrite <- !app_assoc; reflexivity).
  assert (G2 : value (ev (n2 ++ nt)) pa2 = match oapply o with Some a => act a (fit a (xt s) y') (xa s) | None => xa s end)
    by (rewrite value_app by exact L2; exact V2).
  assert (G3 : value (ev (n2 ++ nt)) pl1 = y') by (rewrite value_app by exact Ll2; exact Vl2).
  assert (Hlen : fst pa2 < List.length (n2 ++ nt) /\ fst pt3 < List.length (n2 ++ nt) /\ fst pl1 < List.length (n2 ++ nt))
    by (rewrite app_length in *; repeat split; lia).
  clear -G2 V3 G3 Hlen. destruct (oapply o) as [a0|]; destruct (otrain o) as [| |t0]; simpl in *; tauto.
Qed.

Theorem build_agree : forall e s gs, agree s gs -> agree (den e s) (build e gs).
Proof. induction e as [o|l IHl r IHr]; intros s gs H; simpl; [apply build_op_agree; exact H|apply IHr, IHl; exact H]. Qed.

(* the graph of a whole pipeline evaluates, at the train and apply tails, to what the expression denotes *)
Corollary pipeline_graph e a t sl :
  let gs := build e (gsource a t sl) in let s := den e (source a t sl) in
  value (geval None (gnodes gs)) (pa gs) = xa s /\ value (geval None (gnodes gs)) (pt gs) = xt s /\ value (geval None (gnodes gs)) (pl gs) = yl s.
Proof. intros gs s. destruct (build_agree e _ _ (agree_source a t sl)) as [H1 [H2 [H3 _]]]. auto. Qed.
