(* the graph-level correspondence check of C04 asks nothing the lifecycle-level one does not *)
Require Import List Bool ZArith Arith Lia.
From FV Require Import Lib.Sym Model.C01 Model.C03 Model.C03Graph Model.C04 Model.C04Seg Proofs.C04 Proofs.C04Graph Proofs.C04GraphTrain
                       Proofs.C04GraphTrainPers Proofs.SymEq.
Import ListNotations.

Lemma lists_eqb_sound : forall x y, lists_eqb x y = true -> x = y.
Proof.
  induction x as [|p x IH]; intros [|q y] H; simpl in H; try discriminate; [reflexivity|].
  apply andb_prop in H. destruct H as [H1 H2]. rewrite (terms_eqb_sound _ _ H1), (IH _ H2). reflexivity.
Qed.

Lemma last_nth (r : list (list term)) : last r [] = match List.length r with 0 => [] | S j => nth j r [] end.
Proof.
  induction r as [|x r IH]; [reflexivity|]. destruct r as [|y r]; [reflexivity|].
  change (last (x :: y :: r) []) with (last (y :: r) []). rewrite IH. simpl. reflexivity.
Qed.

Section Seg.
Variable e : expr.
Variables a t sl : nat.
Let ops := flatten e.
Let s0 := source a t sl.

Lemma lifecycle_graph : forall h r rf outs, lifecycle ops s0 r h = (rf, outs) ->
  (exists suf, rf = r ++ suf)
  /\ applied_graph e a t sl rf (List.length r) h = outs
  /\ trained_graph e a t sl rf (List.length r) h = true.
Proof.
  induction h as [|[|g] h IH]; intros r rf outs H; simpl in H.
  - injection H as <- <-. split; [exists []; rewrite app_nil_r; reflexivity|]. split; reflexivity.
  - destruct (IH _ _ _ H) as [[suf Es] [A T]]. rewrite app_length in A, T. simpl in A, T. rewrite Nat.add_1_r in A, T.
    split; [exists ([persisted (train_run (last_gen r) ops s0)] ++ suf); rewrite Es, <- app_assoc; reflexivity|].
    split; [exact A|]. simpl. rewrite T, andb_true_r.
    assert (Eprev : match List.length r with 0 => [] | S j => nth j rf [] end = last_gen r).
    { unfold last_gen. rewrite last_nth. destruct (List.length r) as [|j] eqn:El; [reflexivity|].
      rewrite Es, <- app_assoc, app_nth1 by lia. reflexivity. }
    rewrite Eprev.
    assert (Enew : nth (List.length r) rf [] = persisted (train_run (last_gen r) ops s0)).
    { rewrite Es, <- app_assoc, app_nth2 by lia. rewrite Nat.sub_diag. reflexivity. }
    rewrite Enew. pose proof (train_graph_persisted e a t sl (last_gen r)) as P. cbv zeta in P. unfold state_of', evl in P.
    fold ops in P. fold s0 in P. rewrite P. apply terms_eqb_refl.
  - destruct (lifecycle ops s0 r h) as [r' outs'] eqn:El. injection H as <- <-.
    destruct (IH _ _ _ El) as [[suf Es] [A T]]. split; [exists suf; exact Es|]. split; [|exact T].
    simpl. rewrite A. f_equal.
    pose proof (apply_segment e a t sl (if Nat.ltb g (List.length r) then nth g r' [] else [])) as S. cbv zeta in S. rewrite S.
    fold ops. fold s0. f_equal.
    destruct (Nat.ltb g (List.length r)) eqn:Eg.
    + apply Nat.ltb_lt in Eg. rewrite Es, app_nth1 by exact Eg. reflexivity.
    + apply Nat.ltb_ge in Eg. rewrite nth_overflow by exact Eg. reflexivity.
Qed.
End Seg.

Theorem seg_check_implied c : C04.check_case c = true -> check_case_graph c = true.
Proof.
  intros H. unfold check_case_graph. rewrite H. simpl. destruct c as [a t sl e h gens applied]. simpl in H.
  destruct (lifecycle (flatten e) (source a t sl) [] h) as [r outs] eqn:El.
  apply andb_prop in H. destruct H as [H1 H2]. apply lists_eqb_sound in H1. apply terms_eqb_sound in H2. subst gens applied.
  destruct (lifecycle_graph e a t sl h [] r outs El) as [_ [A T]]. simpl in A, T. rewrite A, T, terms_eqb_refl. reflexivity.
Qed.
