(* C04 meets C03/C01: the apply segment of an expression (Model/C03Graph.v build_a), evaluated with the accessor that binds
   ANY stored state list to the persistent groups by position, computes what the lifecycle model's apply_run computes. *)
Require Import List Bool ZArith Arith Lia.
From FV Require Import Lib.Sym Model.C01 Model.C03 Model.C03Graph Model.C04 Proofs.C04 Proofs.C03GraphEval Proofs.C03GraphPers
                       Proofs.C03GraphCommit Proofs.C03GraphApply.
Import ListNotations.

Definition stateful_apply (o : opspec) : bool := match oapply o with Some a => astateful a | None => false end.
Definition cnt_ops (ops : list opspec) : nat := List.length (filter stateful_apply ops).

Lemma apply_run_app sts : forall l1 l2 i x,
  apply_run (l1 ++ l2) sts i x = apply_run l2 sts (i + cnt_ops l1) (apply_run l1 sts i x).
Proof.
  induction l1 as [|o l1 IH]; intros l2 i x; simpl; [rewrite Nat.add_0_r; reflexivity|].
  unfold cnt_ops. simpl. unfold stateful_apply at 1. destruct (oapply o) as [a|]; [destruct (astateful a)|]; simpl; rewrite IH; unfold cnt_ops; f_equal; lia.
Qed.

Lemma pers_len : forall e gs, List.length (pers_gids e gs) = cnt_ops (flatten e).
Proof.
  induction e as [o|l IHl r IHr]; intros gs; simpl.
  - unfold pers_op, cnt_ops, stateful_apply. simpl. destruct (oapply o) as [a|]; [destruct (astateful a)|]; reflexivity.
  - rewrite app_length, IHl, IHr. unfold cnt_ops. rewrite filter_app, app_length. reflexivity.
Qed.

Definition look (l : list (nat * term)) (g : nat) : term := match lookup_gid g l with Some t => t | None => TNone end.

Lemma look_combine gs : forall ts k g, NoDup gs -> nth_error gs k = Some g -> look (combine gs ts) g = nth k ts TNone.
Proof.
  unfold look. induction gs as [|g0 gs IH]; intros ts k g Hnd Hk; [destruct k; discriminate|].
  inversion Hnd as [|? ? Hni Hnd']; subst. destruct ts as [|t0 ts]; [simpl; destruct k; reflexivity|]. destruct k as [|k]; simpl in *.
  - injection Hk as ->. rewrite Nat.eqb_refl. reflexivity.
  - destruct (Nat.eqb g g0) eqn:E; [|exact (IH ts k g Hnd' Hk)]. apply Nat.eqb_eq in E. subst. exfalso. apply Hni. exact (nth_error_In _ _ Hk).
Qed.

Section Seg.
Variable l : list (nat * term).
Variable sts : list term.

Record sinv (x : term) (gs : gstate) (sa : astate) : Prop := {
  s_fresh : afresh sa = gfresh gs;
  s_bound : fst (apa sa) < List.length (anodes sa);
  s_value : value (geval (Some l) (anodes sa)) (apa sa) = x;
  s_untrained : trained (geval (Some l) (anodes sa)) = []
}.

Lemma seg_op o x gs sa i : sinv x gs sa ->
  (forall g, pers_op o gs = [g] -> look l g = nth i sts TNone) ->
  sinv (apply_run [o] sts i x) (build_op o gs) (build_a_op o sa).
Proof.
  intros [Hf Hb Hv Hu] Hl. unfold pers_op in Hl.
  set (g1 := match olabel o with Some _ => S (gfresh gs) | None => gfresh gs end) in *.
  assert (Eg : match olabel o with Some _ => S (afresh sa) | None => afresh sa end = g1) by (rewrite Hf; reflexivity).
  simpl. destruct (oapply o) as [a|] eqn:Ea.
  - assert (Hst : (if astateful a then look l g1 else TNone) = (if astateful a then nth i sts TNone else TNone)).
    { destruct (astateful a); [|reflexivity]. apply Hl. reflexivity. }
    constructor.
    + rewrite gfresh_build_op. unfold build_a_op. rewrite Ea, Eg. simpl. reflexivity.
    + unfold build_a_op. rewrite Ea. simpl. rewrite app_length. simpl. lia.
    + unfold build_a_op. rewrite Ea, Eg. cbn [anodes apa]. rewrite geval_snoc. unfold eval_node, mknode. cbn [nkind nstateful ngid nname nhp nszout].
      rewrite Hu. cbn [lookup_gid previous]. unfold value at 1. cbn [outputs fst snd].
      rewrite app_nth2 by (rewrite geval_len; lia). rewrite geval_len, Nat.sub_diag. cbn [nth map].
      fold (look l g1). rewrite Hst, Hv. unfold act. destruct (astateful a); reflexivity.
    + unfold build_a_op. rewrite Ea. cbn [anodes]. rewrite geval_snoc. unfold eval_node, mknode. cbn [nkind trained]. exact Hu.
  - constructor.
    + rewrite gfresh_build_op. unfold build_a_op. rewrite Ea, Eg. simpl. reflexivity.
    + unfold build_a_op. rewrite Ea. exact Hb.
    + unfold build_a_op. rewrite Ea. exact Hv.
    + unfold build_a_op. rewrite Ea. exact Hu.
Qed.

Theorem seg_inv : forall e x gs sa i, sinv x gs sa ->
  (forall k g, nth_error (pers_gids e gs) k = Some g -> look l g = nth (i + k) sts TNone) ->
  sinv (apply_run (flatten e) sts i x) (build e gs) (build_a e sa).
Proof.
  induction e as [o|e1 IH1 e2 IH2]; intros x gs sa i Hi Hl; simpl flatten; simpl build; simpl build_a.
  - apply seg_op; [exact Hi|]. intros g Hg. simpl in Hl. rewrite <- (Nat.add_0_r i). apply Hl. rewrite Hg. reflexivity.
  - rewrite apply_run_app. rewrite <- pers_len with (gs := gs). simpl in Hl. apply IH2.
    + apply IH1; [exact Hi|]. intros k g Hk. apply Hl. rewrite nth_error_app1; [exact Hk|]. apply nth_error_Some. rewrite Hk. discriminate.
    + intros k g Hk. rewrite <- Nat.add_assoc. apply Hl. rewrite nth_error_app2 by lia.
      replace (List.length (pers_gids e1 gs) + k - List.length (pers_gids e1 gs)) with k by lia. exact Hk.
Qed.
End Seg.

Theorem apply_segment e a t sl sts :
  let ga := build_a e (asource a) in
  value (geval (Some (combine (pers_gids e (gsource a t sl)) sts)) (anodes ga)) (apa ga)
  = apply_run (flatten e) sts 0 (xa (source a t sl)).
Proof.
  intros ga. set (l := combine (pers_gids e (gsource a t sl)) sts).
  assert (Hi : sinv l (xa (source a t sl)) (gsource a t sl) (asource a)) by (constructor; simpl; [reflexivity|lia|reflexivity|reflexivity]).
  refine (s_value l _ _ _ (seg_inv l sts e _ _ _ 0 Hi _)). intros k g Hk. simpl. apply look_combine; [|exact Hk].
  apply (pers_nodup e (source a t sl) (gsource a t sl) [] (agree_source a t sl)); [split; [reflexivity|intros g0 []]|constructor].
Qed.

(* with C04_positional_binding: the apply segment loaded with what ANY training generation committed (continuing from any
   previous generation) reproduces that training run's own apply path *)
Corollary apply_segment_generation e a t sl prev :
  let run := train_run prev (flatten e) (source a t sl) in
  let ga := build_a e (asource a) in
  value (geval (Some (combine (pers_gids e (gsource a t sl)) (persisted run))) (anodes ga)) (apa ga) = xa run.
Proof.
  intros run ga. unfold ga. rewrite apply_segment. apply positional_binding. reflexivity.
Qed.
