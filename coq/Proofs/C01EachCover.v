(* C01 - Traversal.each reaches every node of a connected segment. *)
Require Import List Bool ZArith Arith Lia.
From FV Require Import Lib.Sym Model.C01 Model.C01Compile Proofs.C01Blocks Proofs.C01Main Model.C01Each Proofs.C01Each.
Import ListNotations.

Section Cover.
Variable nodes : list node.
Variable conn : list nat.
Variable tail : nat.
Let N := List.length nodes.

Definition masked (v k : nat) : Prop := v = tail /\ trained_node nodes k = false.

Lemma range_length (l : list nat) k : NoDup l -> (forall x, In x l -> x < N) -> k < N -> ~ In k l -> List.length l < N.
Proof.
  intros Hd Hr Hk Hn. assert (H : List.length (k :: l) <= List.length (seq 0 N)).
  { apply NoDup_incl_length; [constructor; assumption|]. intros x [<-|Hx]; apply in_seq; [lia|specialize (Hr x Hx); lia]. }
  rewrite seq_length in H. simpl in H. lia.
Qed.

Definition good (acc : list nat) : Prop := NoDup acc /\ forall x, In x acc -> x < N.

Lemma traverse_closed : forall fuel pivot acc, good acc -> pivot < N -> ~ In pivot acc -> N - List.length acc <= fuel ->
  let R := traverse_each fuel nodes conn tail pivot acc in
  good R /\ incl acc R /\ In pivot R
  /\ forall v, In v R -> ~ In v acc -> forall k, In k (subs nodes conn v) -> masked v k \/ In k R.
Proof.
  induction fuel as [|f IH]; intros pivot acc [Hd Hr] Hp Hn Hf.
  - exfalso. pose proof (range_length acc pivot Hd Hr Hp Hn). lia.
  - simpl. set (acc1 := acc ++ [pivot]).
    assert (G1 : good acc1).
    { split; [apply NoDup_app_intro; [exact Hd|constructor; [intros []|constructor]|intros z Hz [<-|[]]; exact (Hn Hz)]|].
      intros x Hx. apply in_app_or in Hx. destruct Hx as [Hx|[<-|[]]]; [exact (Hr x Hx)|exact Hp]. }
    assert (L1 : List.length acc1 = S (List.length acc)) by (unfold acc1; rewrite app_length; simpl; lia).
    (* the fold over the subscribers of the pivot *)
    assert (F : forall ks acc', good acc' -> incl acc1 acc' -> (forall k, In k ks -> k < N) ->
              (forall v, In v acc' -> ~ In v acc1 -> forall k, In k (subs nodes conn v) -> masked v k \/ In k acc') ->
              let R := fold_left (fun acc'' k => if existsb (Nat.eqb k) acc'' then acc''
                                                 else if Nat.eqb pivot tail && negb (trained_node nodes k) then acc''
                                                 else traverse_each f nodes conn tail k acc'') ks acc' in
              good R /\ incl acc' R /\ (forall k, In k ks -> masked pivot k \/ In k R)
              /\ forall v, In v R -> ~ In v acc1 -> forall k, In k (subs nodes conn v) -> masked v k \/ In k R).
    { induction ks as [|k ks IHk]; intros acc' G' Hi' Hks Hc'; simpl.
      - split; [exact G'|]. split; [intros x Hx; exact Hx|]. split; [intros k []|exact Hc'].
      - assert (Hks' : forall k0, In k0 ks -> k0 < N) by (intros k0 H0; apply Hks; right; exact H0).
        destruct (existsb (Nat.eqb k) acc') eqn:E.
        + apply existsb_eqb_in in E. destruct (IHk acc' G' Hi' Hks' Hc') as [A1 [A2 [A3 A4]]].
          split; [exact A1|]. split; [exact A2|]. split; [|exact A4]. intros k0 [<-|H0]; [right; apply A2; exact E|exact (A3 k0 H0)].
        + assert (Hk : ~ In k acc') by (intros X; apply existsb_eqb_in in X; congruence).
          destruct (Nat.eqb pivot tail && negb (trained_node nodes k)) eqn:Em.
          * apply andb_prop in Em. destruct Em as [E1 E2]. apply Nat.eqb_eq in E1. apply negb_true_iff in E2.
            destruct (IHk acc' G' Hi' Hks' Hc') as [A1 [A2 [A3 A4]]].
            split; [exact A1|]. split; [exact A2|]. split; [|exact A4]. intros k0 [<-|H0]; [left; split; assumption|exact (A3 k0 H0)].
          * destruct G' as [Hd' Hr'].
            assert (Hlen : N - List.length acc' <= f).
            { assert (List.length acc1 <= List.length acc') by (apply NoDup_incl_length; [exact (proj1 G1)|exact Hi']). lia. }
            destruct (IH k acc' (conj Hd' Hr') (Hks k (or_introl eq_refl)) Hk Hlen) as [B1 [B2 [B3 B4]]].
            set (R1 := traverse_each f nodes conn tail k acc') in *.
            destruct (IHk R1 B1) as [A1 [A2 [A3 A4]]].
            -- intros x Hx. apply B2, Hi'. exact Hx.
            -- exact Hks'.
            -- intros v Hv Hv1 k0 Hk0. destruct (in_dec Nat.eq_dec v acc') as [Hin|Hnin].
               ++ destruct (Hc' v Hin Hv1 k0 Hk0) as [X|X]; [left; exact X|right; apply B2; exact X].
               ++ exact (B4 v Hv Hnin k0 Hk0).
            -- split; [exact A1|]. split; [intros x Hx; apply A2, B2; exact Hx|]. split; [|exact A4].
               intros k0 [<-|H0]; [right; apply A2; exact B3|exact (A3 k0 H0)]. }
    destruct (F (subs nodes conn pivot) acc1 G1 (fun x Hx => Hx)) as [A1 [A2 [A3 A4]]].
    + intros k Hk. exact (subs_range nodes conn pivot k Hk).
    + intros v Hv Hv1. contradiction.
    + split; [exact A1|]. split; [intros x Hx; apply A2; unfold acc1; apply in_or_app; left; exact Hx|].
      split; [apply A2; unfold acc1; apply in_or_app; right; left; reflexivity|].
      intros v Hv Hva k Hk. destruct (Nat.eq_dec v pivot) as [->|Hne].
      * exact (A3 k Hk).
      * apply (A4 v Hv); [|exact Hk]. intros X. unfold acc1 in X. apply in_app_or in X. destruct X as [X|[X|[]]]; [contradiction|congruence].
Qed.

Lemma in_subs i nd q j p ndj : nth_error nodes i = Some nd -> nth_error (ports nd) q = Some (j, p) -> In i conn ->
  nth_error nodes j = Some ndj -> p < nszout ndj -> In i (subs nodes conn j).
Proof.
  intros Hn Hq Hc Hj Hp. unfold subs. rewrite Hj. apply in_flat_map. exists p. split; [apply in_seq; lia|].
  unfold subs_port. apply in_flat_map. exists i. split; [exact Hc|]. rewrite Hn. unfold ports in Hq.
  destruct (nkind nd) as [ins|tr lb].
  - apply in_map_iff. exists (j, p). split; [reflexivity|]. apply filter_In. split; [exact (nth_error_In _ _ Hq)|]. simpl. rewrite !Nat.eqb_refl. reflexivity.
  - apply in_or_app. destruct q as [|[|q]]; simpl in Hq.
    + injection Hq as ->. left. simpl. rewrite !Nat.eqb_refl. left. reflexivity.
    + injection Hq as ->. right. simpl. rewrite !Nat.eqb_refl. left. reflexivity.
    + destruct q; discriminate.
Qed.

Hypothesis Hne : nodes <> [].
Hypothesis Hport : forall i nd, nth_error nodes i = Some nd -> 0 < i ->
  exists ip ndj, nth_error (ports nd) 0 = Some ip /\ fst ip < i /\ nth_error nodes (fst ip) = Some ndj /\ snd ip < nszout ndj.
Hypothesis Hconn : forall i, 0 < i -> i < N -> In i conn.
Hypothesis Htail : forall i nd q ip, nth_error nodes i = Some nd -> nth_error (ports nd) q = Some ip -> fst ip = tail -> is_train nd = true.

Theorem each_covers : forall i, i < N -> In i (each nodes conn tail).
Proof.
  assert (HN : 0 < N) by (unfold N; destruct nodes; [contradiction|simpl; lia]).
  destruct (traverse_closed (S N) 0 [] (conj (NoDup_nil _) (fun x (H : In x []) => match H with end)) HN (fun H => H)) as [_ [_ [H0 Hcl]]]; [simpl; lia|].
  fold (each nodes conn tail) in H0, Hcl.
  induction i as [i IH] using (well_founded_induction lt_wf). intros Hi.
  destruct (Nat.eq_dec i 0) as [->|Hnz]; [exact H0|].
  destruct (nth_error nodes i) as [nd|] eqn:Hn; [|apply nth_error_None in Hn; unfold N in Hi; lia].
  destruct (Hport i nd Hn ltac:(lia)) as [[j p] [ndj [Hq [Hlt [Hj Hp]]]]]. simpl in Hlt, Hj, Hp.
  assert (Hjv : In j (each nodes conn tail)) by (apply IH; [exact Hlt|unfold N in *; lia]).
  pose proof (in_subs i nd 0 j p ndj Hn Hq (Hconn i ltac:(lia) Hi) Hj Hp) as Hs.
  destruct (Hcl j Hjv (fun H => H) i Hs) as [[Et Hu]|Hin]; [|exact Hin].
  exfalso. unfold trained_node in Hu. rewrite Hn in Hu. rewrite (Htail i nd 0 (j, p) Hn Hq Et) in Hu. discriminate.
Qed.

Theorem each_length : List.length (each nodes conn tail) = N.
Proof.
  apply Nat.le_antisymm.
  - assert (H : List.length (each nodes conn tail) <= List.length (seq 0 N)).
    { apply NoDup_incl_length; [apply each_nodup|]. intros x Hx. apply in_seq. pose proof (each_range nodes conn tail Hne x Hx). unfold N. lia. }
    rewrite seq_length in H. exact H.
  - assert (H : List.length (seq 0 N) <= List.length (each nodes conn tail)).
    { apply NoDup_incl_length; [apply seq_NoDup|]. intros x Hx. apply in_seq in Hx. apply each_covers. lia. }
    rewrite seq_length in H. exact H.
Qed.
End Cover.

(* the boolean form, and the segment-level compiler theorem without any hypothesis on the visiting order *)
Lemma connected_spec nodes conn tail : connected_b nodes conn tail = true ->
  nodes <> []
  /\ (forall i nd, nth_error nodes i = Some nd -> 0 < i ->
        exists ip ndj, nth_error (ports nd) 0 = Some ip /\ fst ip < i /\ nth_error nodes (fst ip) = Some ndj /\ snd ip < nszout ndj)
  /\ (forall i, 0 < i -> i < List.length nodes -> In i conn)
  /\ (forall i nd q ip, nth_error nodes i = Some nd -> nth_error (ports nd) q = Some ip -> fst ip = tail -> is_train nd = true).
Proof.
  unfold connected_b. intros H. apply andb_prop in H. destruct H as [H H3]. apply andb_prop in H. destruct H as [H1 H2].
  rewrite forallb_forall in H2, H3. split; [|split; [|split]].
  - intros E. subst nodes. discriminate H1.
  - intros i nd Hn Hi. specialize (H2 (i, nd)). simpl in H2.
    assert (Hin : In (i, nd) (combine (seq 0 (List.length nodes)) nodes)) by (apply combine_seq_in; rewrite Nat.sub_0_r; split; [lia|exact Hn]).
    specialize (H2 Hin). apply andb_prop in H2. destruct H2 as [H2 _].
    destruct (Nat.eqb i 0) eqn:E0; [apply Nat.eqb_eq in E0; lia|]. simpl in H2.
    change (node_ports nd) with (ports nd) in H2. destruct (ports nd) as [|ip r] eqn:Ep; [discriminate|].
    apply andb_prop in H2. destruct H2 as [Hlt Hx]. apply Nat.ltb_lt in Hlt.
    destruct (nth_error nodes (fst ip)) as [ndj|] eqn:Ej; [|discriminate]. apply Nat.ltb_lt in Hx.
    exists ip, ndj. simpl. auto.
  - intros i Hi HiN. specialize (H3 i). assert (Hin : In i (seq 1 (List.length nodes - 1))) by (apply in_seq; lia).
    specialize (H3 Hin). apply existsb_eqb_in in H3. exact H3.
  - intros i nd q ip Hn Hq Et. specialize (H2 (i, nd)). simpl in H2.
    assert (Hin : In (i, nd) (combine (seq 0 (List.length nodes)) nodes)) by (apply combine_seq_in; rewrite Nat.sub_0_r; split; [lia|exact Hn]).
    specialize (H2 Hin). apply andb_prop in H2. destruct H2 as [_ H2]. rewrite forallb_forall in H2.
    change (node_ports nd) with (ports nd) in H2. specialize (H2 ip (nth_error_In _ _ Hq)).
    rewrite Et, Nat.eqb_refl in H2. simpl in H2. exact H2.
Qed.

Theorem compile_segment a nodes conn tail : wf_graph a nodes = true -> connected_b nodes conn tail = true ->
  compile_ok a nodes (each nodes conn tail) = true.
Proof.
  intros Hw Hc. destruct (connected_spec nodes conn tail Hc) as [Hne [Hp [Hcn Ht]]].
  apply compile_traversal; [exact Hw|]. exact (each_length nodes conn tail Hne Hp Hcn Ht).
Qed.
