(* decidable equality of symbolic terms: term_eqb is sound and reflexive (nested induction over the argument lists) *)
Require Import List Bool ZArith Arith Lia.
From FV Require Import Lib.Sym.
Import ListNotations.

Section Ind.
Variable P : term -> Prop.
Hypothesis HNone : P TNone.
Hypothesis HApp : forall n h s l, P s -> Forall P l -> P (TApp n h s l).
Hypothesis HProj : forall i t, P t -> P (TProj i t).
Hypothesis HState : forall n h p f l, P p -> P f -> P l -> P (TState n h p f l).
Hypothesis HTup : forall l, Forall P l -> P (TTup l).

Fixpoint term_rect' (t : term) : P t :=
  match t with
  | TNone => HNone
  | TApp n h s l => HApp n h s l (term_rect' s)
      ((fix go (l : list term) : Forall P l := match l with [] => Forall_nil P | x :: r => Forall_cons x (term_rect' x) (go r) end) l)
  | TProj i t => HProj i t (term_rect' t)
  | TState n h p f l => HState n h p f l (term_rect' p) (term_rect' f) (term_rect' l)
  | TTup l => HTup l
      ((fix go (l : list term) : Forall P l := match l with [] => Forall_nil P | x :: r => Forall_cons x (term_rect' x) (go r) end) l)
  end.
End Ind.

Definition go_eqb := fix go (x y : list term) : bool :=
  match x, y with [], [] => true | p :: x', q :: y' => term_eqb p q && go x' y' | _, _ => false end.

Lemma go_sound l : Forall (fun a => forall b, term_eqb a b = true -> a = b) l -> forall l', go_eqb l l' = true -> l = l'.
Proof.
  induction 1 as [|x l Hx _ IH]; intros [|y l'] H; simpl in H; try discriminate; [reflexivity|].
  apply andb_prop in H. destruct H as [H1 H2]. rewrite (Hx y H1), (IH l' H2). reflexivity.
Qed.

Lemma go_refl l : Forall (fun a => term_eqb a a = true) l -> go_eqb l l = true.
Proof. induction 1 as [|x l Hx _ IH]; simpl; [reflexivity|]. rewrite Hx, IH. reflexivity. Qed.

Theorem term_eqb_sound : forall a b, term_eqb a b = true -> a = b.
Proof.
  induction a as [|n h s l IHs IHl|i t IHt|n h p f lb IHp IHf IHlb|l IHl] using term_rect'; intros b H; destruct b; simpl in H; try discriminate.
  - reflexivity.
  - fold go_eqb in H. repeat (apply andb_prop in H; destruct H as [H ?]).
    apply Nat.eqb_eq in H. match goal with X : Z.eqb _ _ = true |- _ => apply Z.eqb_eq in X; subst end. subst.
    match goal with X : term_eqb s _ = true |- _ => rewrite (IHs _ X) end.
    match goal with X : go_eqb l _ = true |- _ => rewrite (go_sound l IHl _ X) end. reflexivity.
  - apply andb_prop in H. destruct H as [H1 H2]. apply Nat.eqb_eq in H1. subst. rewrite (IHt _ H2). reflexivity.
  - repeat (apply andb_prop in H; destruct H as [H ?]).
    apply Nat.eqb_eq in H. match goal with X : Z.eqb _ _ = true |- _ => apply Z.eqb_eq in X; subst end. subst.
    repeat match goal with X : term_eqb ?x _ = true |- _ =>
      first [rewrite (IHp _ X) | rewrite (IHf _ X) | rewrite (IHlb _ X)]; clear X end. reflexivity.
  - fold go_eqb in H. rewrite (go_sound l IHl _ H). reflexivity.
Qed.

Theorem term_eqb_refl : forall a, term_eqb a a = true.
Proof.
  induction a as [|n h s l IHs IHl|i t IHt|n h p f lb IHp IHf IHlb|l IHl] using term_rect'; simpl.
  - reflexivity.
  - fold go_eqb. rewrite Nat.eqb_refl, Z.eqb_refl, IHs, (go_refl l IHl). reflexivity.
  - rewrite Nat.eqb_refl, IHt. reflexivity.
  - rewrite Nat.eqb_refl, Z.eqb_refl, IHp, IHf, IHlb. reflexivity.
  - fold go_eqb. exact (go_refl l IHl).
Qed.

Lemma terms_eqb_sound : forall x y, terms_eqb x y = true -> x = y.
Proof.
  induction x as [|p x IH]; intros [|q y] H; simpl in H; try discriminate; [reflexivity|].
  apply andb_prop in H. destruct H as [H1 H2]. rewrite (term_eqb_sound _ _ H1), (IH _ H2). reflexivity.
Qed.

Lemma terms_eqb_refl : forall x, terms_eqb x x = true.
Proof. induction x as [|p x IH]; simpl; [reflexivity|]. rewrite term_eqb_refl, IH. reflexivity. Qed.
