(* C04: the states the training graph trains when it continues from a previous generation are, in pipeline order, the
   persisted list of the lifecycle model's training run - copy of Proofs/C03GraphPers.v generalised to an accessor. *)
Require Import List Bool ZArith Arith Lia.
From FV Require Import Lib.Sym Model.C01 Model.C01Compile Proofs.C01 Model.C03 Model.C03Graph Model.C04 Proofs.C04 Proofs.C03GraphEval Proofs.C03GraphPers
                       Proofs.C03GraphCommit Proofs.C03GraphApply Proofs.C04Graph.
From FV Require Import Proofs.C04GraphTrain.
Import ListNotations.

Section AccP.
Variable L : list (nat * term).
Definition state_of' (ns : list node) (g : nat) : term :=
  match lookup_gid g (trained (evl L ns)) with Some s => s | None => TNone end.

Lemma trained_snoc' ns n : trained (evl L (ns ++ [n])) =
  match nkind n with
  | KTrain tr lb => (ngid n, TState (nname n) (nhp n) (lk L (ngid n)) (value (evl L ns) tr) (value (evl L ns) lb)) :: trained (evl L ns)
  | KApply _ => trained (evl L ns)
  end.
Proof. rewrite evl_snoc. unfold eval_node. destruct (nkind n); reflexivity. Qed.

Lemma lookup_stable' g : forall more ns, (forall n, In n more -> is_train n = true -> ngid n <> g) ->
  lookup_gid g (trained (evl L (ns ++ more))) = lookup_gid g (trained (evl L ns)).
Proof.
  induction more as [|n more IH]; intros ns H; [rewrite app_nil_r; reflexivity|].
  replace (ns ++ n :: more) with ((ns ++ [n]) ++ more) by (rewrite <- app_assoc; reflexivity).
  rewrite IH by (intros m Hm; apply H; right; exact Hm). rewrite trained_snoc'.
  destruct (nkind n) as [ins|tr lb] eqn:Ek; [reflexivity|]. simpl.
  assert (Hne : ngid n <> g) by (apply H; [left; reflexivity|unfold is_train; rewrite Ek; reflexivity]).
  destruct (Nat.eqb g (ngid n)) eqn:E; [apply Nat.eqb_eq in E; congruence|reflexivity].
Qed.

Definition pinv' (s : flowst) (gs : gstate) (ps : list nat) : Prop :=
  map (state_of' (gnodes gs)) ps = persisted s /\ forall g, In g ps -> g < gfresh gs.

Theorem build_op_pers' o s gs ps : agree' L s gs -> pinv' s gs ps -> pinv' (deng_op L o s (gfresh gs)) (build_op o gs) (ps ++ pers_op o gs).
Proof.
  intros [Ha [Ht [Hl [La [Lt Ll]]]]] [Hp Hb]. unfold build_op, deng_op, pers_op. set (ns := gnodes gs) in *.
  assert (H1 : exists nl pl1 g1,
    match olabel o with
    | Some l => let '(ns', idx) := group_nodes l (gfresh gs) (List.length ns) (pl gs) (pt gs) (pl gs) in (ns', (idx, 0), S (gfresh gs))
    | None => ([], pl gs, gfresh gs)
    end = (nl, pl1, g1)
    /\ value (evl L (ns ++ nl)) pl1 = match olabel o with Some l => act l (fitg L l (gfresh gs) (xt s) (yl s)) (yl s) | None => yl s end
    /\ fst pl1 < List.length (ns ++ nl)
    /\ g1 = match olabel o with Some _ => S (gfresh gs) | None => gfresh gs end
    /\ forall n, In n nl -> ngid n = gfresh gs).
  { destruct (olabel o) as [l|].
    - pose proof (group_value' L ns l (gfresh gs) (pl gs) (pt gs) (pl gs) Ll Lt Ll) as G.
      pose proof (group_nodes_gid l (gfresh gs) (List.length ns) (pl gs) (pt gs) (pl gs)) as Gg.
      destruct (group_nodes l (gfresh gs) (List.length ns) (pl gs) (pt gs) (pl gs)) as [nl idx]. destruct G as [G1 [G2 _]].
      exists nl, (idx, 0), (S (gfresh gs)). split; [reflexivity|]. rewrite G1, Ht, Hl. auto.
    - exists [], (pl gs), (gfresh gs). rewrite app_nil_r. split; [reflexivity|]. split; [exact Hl|]. split; [exact Ll|]. split; [reflexivity|intros n []]. }
  destruct H1 as [nl [pl1 [g1 [E1 [V1 [L1 [Eg1 Gl]]]]]]]. rewrite E1.
  set (n1 := ns ++ nl) in *. set (y' := match olabel o with Some l => act l (fitg L l (gfresh gs) (xt s) (yl s)) (yl s) | None => yl s end) in *.
  assert (Lt1 : fst (pt gs) < List.length n1) by (unfold n1; rewrite app_length; lia).
  assert (La1 : fst (pa gs) < List.length n1) by (unfold n1; rewrite app_length; lia).
  assert (Vt1 : value (evl L n1) (pt gs) = xt s) by (unfold n1; rewrite (valuel_app L) by exact Lt; exact Ht).
  replace (List.length ns + List.length nl) with (List.length n1) by (unfold n1; rewrite app_length; reflexivity).
  assert (Hg1 : gfresh gs <= g1) by (rewrite Eg1; destruct (olabel o); lia).
  assert (H2 : exists na pa2 g2,
    match oapply o with
    | Some a => let '(ns', idx) := group_nodes a g1 (List.length n1) (pa gs) (pt gs) pl1 in (ns', (idx, 0), S g1)
    | None => ([], pa gs, g1)
    end = (na, pa2, g2)
    /\ g1 <= g2 /\ (forall n, In n na -> ngid n = g1)
    /\ (forall a, oapply o = Some a -> astateful a = true -> exists rest, trained (evl L (n1 ++ na)) = (g1, fitg L a g1 (xt s) y') :: rest)).
  { destruct (oapply o) as [a|].
    - pose proof (group_value' L n1 a g1 (pa gs) (pt gs) pl1 La1 Lt1 L1) as G.
      pose proof (group_nodes_gid a g1 (List.length n1) (pa gs) (pt gs) pl1) as Gg.
      destruct (group_nodes a g1 (List.length n1) (pa gs) (pt gs) pl1) as [na idx]. destruct G as [_ [_ G3]].
      exists na, (idx, 0), (S g1). split; [reflexivity|]. split; [lia|]. split; [exact Gg|].
      intros a' E Hs. injection E as <-. rewrite (G3 Hs), Vt1, V1. eauto.
    - exists [], (pa gs), g1. split; [reflexivity|]. split; [lia|]. split; [intros n []|]. intros a E. discriminate. }
  destruct H2 as [na [pa2 [g2 [E2 [Hg2 [Ga T2]]]]]]. rewrite E2. set (n2 := n1 ++ na) in *.
  replace (List.length n1 + List.length na) with (List.length n2) by (unfold n2; rewrite app_length; reflexivity).
  assert (H3 : exists nt pt3,
    match otrain o, oapply o with
    | TSame, Some a => ([mknode a g1 (KApply [pt gs])], (List.length n2, 0))
    | TOwn t, _ => let '(ns', idx) := group_nodes t g2 (List.length n2) (pt gs) (pt gs) pl1 in (ns', (idx, 0))
    | _, _ => ([], pt gs)
    end = (nt, pt3)
    /\ forall n, In n nt -> (ngid n = g2 /\ oapply o = None) \/ is_train n = false \/ (ngid n = g2 /\ g2 <> g1)).
  { destruct (otrain o) as [| |t].
    - exists [], (pt gs). split; [reflexivity|intros n []].
    - destruct (oapply o) as [a|] eqn:Ea.
      + exists [mknode a g1 (KApply [pt gs])], (List.length n2, 0). split; [reflexivity|]. intros n [<-|[]]. right. left. reflexivity.
      + exists [], (pt gs). split; [reflexivity|intros n []].
    - pose proof (group_nodes_gid t g2 (List.length n2) (pt gs) (pt gs) pl1) as Gg.
      destruct (group_nodes t g2 (List.length n2) (pt gs) (pt gs) pl1) as [nt idx].
      exists nt, (idx, 0). split; [destruct (oapply o); reflexivity|]. intros n Hn. specialize (Gg n Hn).
      destruct (oapply o) as [a|] eqn:Ea; [right; right|left; auto]. split; [exact Gg|].
      (* with an apply actor the group counter has moved on *)
      revert E2. destruct (group_nodes a g1 (List.length n1) (pa gs) (pt gs) pl1) as [xx yy]. intros E2. injection E2 as _ _ <-. lia. }
  destruct H3 as [nt [pt3 [E3 Gt]]]. rewrite E3. simpl.
  replace (ns ++ nl ++ na ++ nt) with (ns ++ (nl ++ na ++ nt)) by reflexivity.
  assert (Hold : forall g, g < gfresh gs -> state_of' (ns ++ nl ++ na ++ nt) g = state_of' ns g).
  { intros g Hg. unfold state_of'. rewrite lookup_stable'; [reflexivity|]. intros n Hn _.
    apply in_app_or in Hn. destruct Hn as [Hn|Hn]; [rewrite (Gl n Hn); lia|]. apply in_app_or in Hn. destruct Hn as [Hn|Hn]; [rewrite (Ga n Hn); lia|].
    (* the train-path nodes: a fork of the apply group or the group g2 *)
    destruct (otrain o) as [| |t] eqn:Et.
    - revert E3. intros E3. injection E3 as <- _. destruct Hn.
    - destruct (oapply o) as [a|]; injection E3 as <- _; [destruct Hn as [<-|[]]; simpl; lia|destruct Hn].
    - pose proof (group_nodes_gid t g2 (List.length n2) (pt gs) (pt gs) pl1) as Gg.
      destruct (group_nodes t g2 (List.length n2) (pt gs) (pt gs) pl1) as [nt' idx]. assert (nt' = nt) by (destruct (oapply o); injection E3 as -> _; reflexivity).
      subst nt'. rewrite (Gg n Hn). lia. }
  split.
  - rewrite map_app. rewrite (map_ext_in _ (state_of' ns)) by (intros g Hg; apply Hold; exact (Hb g Hg)). rewrite Hp. f_equal.
    destruct (oapply o) as [a|] eqn:Ea; [|reflexivity]. destruct (astateful a) eqn:Hs; [|reflexivity]. simpl. f_equal.
    destruct (T2 a eq_refl Hs) as [rest Hr]. unfold state_of'.
    replace (ns ++ nl ++ na ++ nt) with (n2 ++ nt) by (unfold n2, n1; rewrite <- !app_assoc; reflexivity).
    rewrite <- Eg1. rewrite lookup_stable'.
    + rewrite Hr. simpl. rewrite Nat.eqb_refl. reflexivity.
    + intros n Hn Htn. destruct (otrain o) as [| |t] eqn:Et.
      * injection E3 as <- _. destruct Hn.
      * injection E3 as <- _. destruct Hn as [<-|[]]. discriminate Htn.
      * pose proof (group_nodes_gid t g2 (List.length n2) (pt gs) (pt gs) pl1) as Gg.
        destruct (group_nodes t g2 (List.length n2) (pt gs) (pt gs) pl1) as [nt' idx]. injection E3 as -> _. rewrite (Gg n Hn).
        revert E2. destruct (group_nodes a g1 (List.length n1) (pa gs) (pt gs) pl1) as [xx yy]. intros E2. injection E2 as _ _ <-. lia.
  - simpl. intros g Hg. apply in_app_or in Hg. destruct Hg as [Hg|Hg]; [specialize (Hb g Hg); lia|].
    destruct (oapply o) as [a|]; [|destruct Hg]. destruct (astateful a); [|destruct Hg]. destruct Hg as [<-|[]]. rewrite <- Eg1. lia.
Qed.

Theorem build_pers' : forall e s gs ps, agree' L s gs -> pinv' s gs ps -> pinv' (deng L e s gs) (build e gs) (ps ++ pers_gids e gs).
Proof.
  induction e as [o|l IHl r IHr]; intros s gs ps Ha Hp; simpl.
  - apply build_op_pers'; assumption.
  - rewrite app_assoc. apply IHr; [apply build_agree'; exact Ha|apply IHl; assumption].
Qed.

End AccP.

(* re-training: evaluated with the accessor that holds the previous generation by position, the training graph trains for
   its stateful apply-path groups - in pipeline order - exactly the persisted list of the lifecycle model's training run
   continuing from that generation (each actor from the state stored at its own position) *)
Theorem train_graph_persisted e a t sl prev :
  let gs := build e (gsource a t sl) in
  let L := combine (pers_gids e (gsource a t sl)) prev in
  map (state_of' L (gnodes gs)) (pers_gids e (gsource a t sl)) = persisted (train_run prev (flatten e) (source a t sl)).
Proof.
  intros gs L.
  assert (Hnd : NoDup (pers_gids e (gsource a t sl))).
  { apply (pers_nodup e (source a t sl) (gsource a t sl) [] (agree_source a t sl)); [split; [reflexivity|intros g0 []]|constructor]. }
  assert (K : keyed L prev e (gsource a t sl) (List.length (persisted (source a t sl)))).
  { split.
    - intros k g Hk. simpl. unfold lk, L. apply look_combine; assumption.
    - intros g _ Hn. unfold lk, L. apply look_notin. intros X. apply Hn. apply in_map_iff in X. destruct X as [[g' t'] [E X]]. simpl in E. subst g'.
      exact (in_combine_l _ _ _ _ X). }
  destruct (build_pers' L e (source a t sl) (gsource a t sl) [] (agree_source' L a t sl)) as [H _]; [split; [reflexivity|intros g []]|].
  simpl in H. rewrite (deng_pos L prev e _ _ K) in H. exact H.
Qed.
