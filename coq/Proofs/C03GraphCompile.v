(* C03 + C01 end to end: the graph of a pipeline expression is a well-formed compiler input; compiled under any visiting
   order, the symbol table evaluates at the apply and train tails to what the expression denotes. *)
Require Import List Bool ZArith Arith Lia.
From FV Require Import Lib.Sym Model.C01 Model.C01Compile Proofs.C01Compile Proofs.C01Blocks Proofs.C01Inv Proofs.C01Main Model.C03.
From FV Require Import Model.C03Graph Proofs.C03GraphEval Proofs.C03GraphWf.
Import ListNotations.

Lemma gwf_WF ns : gwf ns -> WF None ns.
Proof.
  intros [P1 P2 P3 P4]. constructor.
  - intros j nd q ip Hn Hq. destruct (P1 j nd q ip Hn Hq) as [X [ndi Y]]. split; [exact X|exists ndi; exact Y].
  - exact P2.
  - exact P3.
  - intros l X. discriminate X.
Qed.

Definition delivered (tb : list sym) (ns : list node) (r : nat * nat) (v : term) : Prop :=
  exists n p0 nt, nth_error ns (fst r) = Some n /\ pos tb (fst r) = Some p0
    /\ (forall fuel, 2 * fst r + 2 <= fuel -> eval fuel None ns tb p0 = Some nt)
    /\ v = match nszout n with 1 => nt | _ => TProj (snd r) nt end.

Theorem pipeline_compiles e a t sl visit :
  let gs := build e (gsource a t sl) in let s := den e (source a t sl) in
  NoDup visit -> (forall i, In i visit -> i < List.length (gnodes gs)) -> List.length visit = List.length (gnodes gs) ->
  exists tb, bind (compile None (gnodes gs) visit) canon = Some tb
    /\ delivered tb (gnodes gs) (pa gs) (xa s) /\ delivered tb (gnodes gs) (pt gs) (xt s).
Proof.
  intros gs s Hnd Hlt Hlen.
  destruct (build_ginv e _ (ginv_source a t sl)) as [Hw [_ [Ra [Rt _]]]]. fold gs in Hw, Ra, Rt.
  pose proof (gwf_WF _ Hw) as wf.
  assert (Hc : compile_ok None (gnodes gs) visit = true).
  { apply compile_correct_prop; [exact wf| | |exact Hnd|exact Hlt|exact Hlen].
    - intros i nd k ndk Hn Hk Htr _ Htk Hg. exact (g_first _ Hw i nd k ndk Hn Hk Htr Htk Hg).
    - intros l X. discriminate X. }
  unfold compile_ok in Hc. destruct (bind (compile None (gnodes gs) visit) canon) as [tb|]; [|discriminate].
  apply andb_prop in Hc. destruct Hc as [Hv _]. exists tb. split; [reflexivity|].
  destruct (pipeline_graph e a t sl) as [Va [Vt _]]. fold gs in Va, Vt. fold s in Va, Vt.
  assert (G : forall r v, ref_good (gnodes gs) r -> value (geval None (gnodes gs)) r = v -> delivered tb (gnodes gs) r v).
  { intros [i p] v [n [Hn [Htr Hp]]] Hval. simpl in Hn, Hp.
    destruct (validate_sound None (gnodes gs) tb Hv i n Hn) as [p0 [Hpos Hev]].
    exists n, p0, (node_term None (gnodes gs) i). split; [exact Hn|]. split; [exact Hpos|]. split; [exact Hev|].
    rewrite <- Hval. exact (port_value None (gnodes gs) i n p Hn Htr Hp). }
  split; [exact (G _ _ Ra Va)|exact (G _ _ Rt Vt)].
Qed.
