(* C01 - compiler correctness, assembled: for every well-formed segment, every asset accessor and EVERY visiting
   order, the compiler model succeeds and its output is accepted by the (sound) validator. *)
Require Import List Bool ZArith Arith Lia.
From FV Require Import Lib.Sym Model.C01 Model.C01Compile Proofs.C01Prim Proofs.C01Blocks Proofs.C01Inv Proofs.C01Step
                       Proofs.C01Canon Proofs.C01Emit.
Import ListNotations.

Lemma nodupb_spec l : nodupb l = true -> NoDup l.
Proof.
  induction l as [|x l IH]; simpl; intros H; [constructor|]. apply andb_prop in H. destruct H as [H1 H2].
  constructor; [|apply IH; exact H2]. intros X. apply negb_true_iff in H1.
  assert (Y : existsb (Nat.eqb x) l = true) by (apply existsb_exists; exists x; split; [exact X|apply Nat.eqb_refl]). congruence.
Qed.

(* the same from propositional hypotheses (used by the graphs that pipeline expressions denote, Proofs/C03Graph.v) *)
Theorem compile_correct_prop a nodes visit : WF a nodes ->
  (forall i nd k ndk, nth_error nodes i = Some nd -> nth_error nodes k = Some ndk ->
     is_train nd = false -> nstateful nd = true -> is_train ndk = true -> ngid ndk = ngid nd -> k < i) ->
  (forall l, a = Some l ->
     (forall gt, In gt l -> exists k ndk, nth_error nodes k = Some ndk /\ is_train ndk = true /\ ngid ndk = fst gt)
     \/ (forall gt k ndk, In gt l -> nth_error nodes k = Some ndk -> is_train ndk = true -> ngid ndk = fst gt -> False)) ->
  NoDup visit -> (forall i, In i visit -> i < List.length nodes) -> List.length visit = List.length nodes ->
  compile_ok a nodes visit = true.
Proof.
  intros wf Htf Hcm Hnd Hlt Hlen.
  destruct (fold_add a nodes wf visit [] empty [] (inv_empty a nodes) Hnd (fun i _ X => X) Hlt) as [T [B [S0 [Hfold [Hinv Hmem]]]]].
  assert (Hall : forall i nd, nth_error nodes i = Some nd -> In i S0).
  { intros i nd Hn. apply Hmem. left.
    assert (Hinc : incl (seq 0 (List.length nodes)) visit).
    { apply NoDup_length_incl; [exact Hnd|rewrite seq_length; lia|]. intros j Hj. apply in_seq. specialize (Hlt j Hj). lia. }
    apply Hinc. apply in_seq. split; [lia|]. simpl. apply nth_error_Some. rewrite Hn. discriminate. }
  destruct (symbols_lfacts a nodes wf S0 T B Hinv Hall Hcm) as [L [Hsym HL]].
  destruct (canon_some a nodes L HL) as [t Ht].
  unfold compile_ok, compile. rewrite Hfold. simpl. rewrite Hsym. simpl. rewrite Ht.
  rewrite (lfacts_validate a nodes wf Htf L HL t Ht).
  rewrite (lfacts_commit a nodes wf L HL t Ht). reflexivity.
Qed.

Section Main.
Variable a : assets.
Variable nodes : list node.
Variable visit : list nat.
Hypothesis Hwf : wfb a nodes visit = true.

Lemma node_ok_nth i nd : nth_error nodes i = Some nd -> node_ok nodes i nd = true.
Proof.
  intros Hn. pose proof Hwf as W. unfold wfb in W. repeat (apply andb_prop in W; destruct W as [W ?]).
  rewrite forallb_forall in W. apply (W (i, nd)). apply combine_seq_in. rewrite Nat.sub_0_r. split; [lia|exact Hn].
Qed.

Lemma ref_ok_spec i ip : ref_ok nodes i ip = true ->
  fst ip < i /\ exists ndi, nth_error nodes (fst ip) = Some ndi /\ is_train ndi = false /\ snd ip < nszout ndi.
Proof.
  unfold ref_ok. intros H. apply andb_prop in H. destruct H as [H1 H2]. apply Nat.ltb_lt in H1. split; [exact H1|].
  destruct (nth_error nodes (fst ip)) as [m|]; [|discriminate]. apply andb_prop in H2. destruct H2 as [H2 H3].
  exists m. split; [reflexivity|]. split; [apply negb_true_iff; exact H2|apply Nat.ltb_lt; exact H3].
Qed.

Lemma total_trainer i nd : nth_error nodes i = Some nd -> is_train nd = true -> trainer nodes (List.length nodes) (ngid nd) = Some i.
Proof.
  intros Hn Ht. pose proof (node_ok_nth i nd Hn) as H. unfold node_ok in H. unfold is_train in Ht.
  destruct (nkind nd) as [|tr lb]; [discriminate|]. apply andb_prop in H. destruct H as [_ H].
  destruct (trainer nodes (List.length nodes) (ngid nd)) as [k|]; [|discriminate].
  destruct (trainer nodes i (ngid nd)); [discriminate|]. apply Nat.eqb_eq in H. subst. reflexivity.
Qed.

Lemma main_wf : WF a nodes.
Proof.
  constructor.
  - intros j nd q ip Hn Hq. pose proof (node_ok_nth j nd Hn) as H. unfold node_ok in H. unfold ports in Hq.
    destruct (nkind nd) as [inputs|tr lb].
    + apply andb_prop in H. destruct H as [H _]. rewrite forallb_forall in H. apply ref_ok_spec. apply H. exact (nth_error_In _ _ Hq).
    + apply andb_prop in H. destruct H as [H _]. apply andb_prop in H. destruct H as [H _]. apply andb_prop in H. destruct H as [R1 R2].
      destruct q as [|[|q]]; simpl in Hq.
      * injection Hq as <-. apply ref_ok_spec. exact R1.
      * injection Hq as <-. apply ref_ok_spec. exact R2.
      * destruct q; discriminate.
  - intros i nd Hn Ht. pose proof (node_ok_nth i nd Hn) as H. unfold node_ok in H. unfold is_train in Ht.
    destruct (nkind nd) as [|tr lb]; [discriminate|]. apply andb_prop in H. destruct H as [H _]. apply andb_prop in H. exact (proj2 H).
  - intros i nd i' nd' Hn Hn' Ht Ht' Hg. pose proof (total_trainer i nd Hn Ht) as E1. pose proof (total_trainer i' nd' Hn' Ht') as E2.
    rewrite Hg in E1. congruence.
  - intros l Hl. pose proof Hwf as W. unfold wfb in W. repeat (apply andb_prop in W; destruct W as [W ?]).
    assert (HA : assets_ok a nodes = true) by assumption. unfold assets_ok in HA. rewrite Hl in HA. apply andb_prop in HA. exact (nodupb_spec _ (proj1 HA)).
Qed.

Lemma main_commit : forall l, a = Some l ->
  (forall gt, In gt l -> exists k ndk, nth_error nodes k = Some ndk /\ is_train ndk = true /\ ngid ndk = fst gt)
  \/ (forall gt k ndk, In gt l -> nth_error nodes k = Some ndk -> is_train ndk = true -> ngid ndk = fst gt -> False).
Proof.
  intros l Hl. pose proof Hwf as W. unfold wfb in W. repeat (apply andb_prop in W; destruct W as [W ?]).
  assert (HA : assets_ok a nodes = true) by assumption. unfold assets_ok in HA. rewrite Hl in HA. apply andb_prop in HA. destruct HA as [_ X].
  apply orb_prop in X. destruct X as [X|X].
  - left. intros gt Hgt. rewrite forallb_forall in X. specialize (X gt Hgt).
    destruct (trainer nodes (List.length nodes) (fst gt)) as [k|] eqn:E; [|discriminate].
    destruct (trainer_some nodes (fst gt) _ k E) as [_ [ndk [Hnk [Hg Htk]]]]. exists k, ndk. auto.
  - right. intros gt k ndk Hgt Hnk Htk Hg. rewrite forallb_forall in X. specialize (X gt Hgt).
    destruct (trainer nodes (List.length nodes) (fst gt)) as [k'|] eqn:E; [discriminate|].
    assert (Hk : k < List.length nodes) by (apply nth_error_Some; rewrite Hnk; discriminate).
    rewrite (trainer_none nodes (fst gt) _ E k ndk Hk Hnk Hg) in Htk. discriminate.
Qed.

Lemma main_trainer_first : forall i nd k ndk, nth_error nodes i = Some nd -> nth_error nodes k = Some ndk ->
  is_train nd = false -> nstateful nd = true -> is_train ndk = true -> ngid ndk = ngid nd -> k < i.
Proof.
  intros i nd k ndk Hn Hnk Ht Hs Htk Hg. pose proof (total_trainer k ndk Hnk Htk) as E. rewrite Hg in E.
  pose proof (node_ok_nth i nd Hn) as H. unfold node_ok in H. unfold is_train in Ht.
  destruct (nkind nd) as [inputs|]; [|discriminate]. apply andb_prop in H. destruct H as [_ H]. rewrite Hs, E in H.
  destruct (trainer nodes i (ngid nd)) as [k'|] eqn:E'; [|discriminate]. apply Nat.eqb_eq in H. subst k'.
  exact (proj1 (trainer_some nodes (ngid nd) i k E')).
Qed.

Theorem compile_correct : compile_ok a nodes visit = true.
Proof.
  pose proof main_wf as wf.
  assert (Hv : NoDup visit /\ (forall i, In i visit -> i < List.length nodes) /\ List.length visit = List.length nodes).
  { pose proof Hwf as W. unfold wfb in W. repeat (apply andb_prop in W; destruct W as [W ?]). split; [apply nodupb_spec; assumption|]. split.
    - intros i Hi. match goal with X : forallb _ visit = true |- _ => rewrite forallb_forall in X; apply Nat.ltb_lt; exact (X i Hi) end.
    - apply Nat.eqb_eq. assumption. }
  destruct Hv as [Hnd [Hlt Hlen]].
  exact (compile_correct_prop a nodes visit wf main_trainer_first main_commit Hnd Hlt Hlen).
Qed.

End Main.
