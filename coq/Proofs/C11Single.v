(* C11: with direct (worker to worker) wiring every input port has at most one publisher, exactly when it is registered -
   after ANY sequence of subscribe / train calls, refused ones included. *)
Require Import List Bool Arith.
From FV Require Import Model.C11 Proofs.C11.
Import ListNotations.

Lemma sub_eqb_spec a b : sub_eqb a b = true <-> a = b.
Proof.
  destruct a as [n p], b as [m q]. unfold sub_eqb. cbn [fst snd]. rewrite andb_true_iff, Nat.eqb_eq, port_eqb_spec.
  split; [intros [-> ->]; reflexivity|intros H; injection H as -> ->; auto].
Qed.

Lemma existsb_sub s l : existsb (sub_eqb s) l = true <-> In s l.
Proof.
  rewrite existsb_exists. split; [intros [x [Hx E]]; apply sub_eqb_spec in E; subst; exact Hx|intros H; exists s; split; [exact H|apply sub_eqb_spec; reflexivity]].
Qed.

Lemma existsb_port p l : existsb (port_eqb p) l = true <-> In p l.
Proof.
  rewrite existsb_exists. split; [intros [x [Hx E]]; apply port_eqb_spec in E; subst; exact Hx|intros H; exists p; split; [exact H|apply port_eqb_spec; reflexivity]].
Qed.

Section Single.
  Variable u : list decl.

  (* a port is registered exactly when some output holds the subscription, and no two outputs hold the same one *)
  Definition consistent (st : state) : Prop :=
    (forall n p, has_port st n p = true <-> exists k, In (n, p) (get_out k (outs st)))
    /\ (forall k k' s, In s (get_out k (outs st)) -> In s (get_out k' (outs st)) -> k = k').

  Lemma consistent_equiv a b : equiv a b -> consistent a -> consistent b.
  Proof.
    intros [Ho [Hp _]] [C1 C2]. split.
    - intros n p. unfold has_port in *. rewrite <- Hp. rewrite C1. split; intros [k H]; exists k; [rewrite <- Ho|rewrite Ho]; exact H.
    - intros k k' s H H'. rewrite <- Ho in H, H'. exact (C2 k k' s H H').
  Qed.

  Lemma consistent_empty : consistent empty.
  Proof. split; [intros n p; cbn; split; [discriminate|intros [k []]]|intros k k' s []]. Qed.

  Lemma publish_consistent st pn pidx subscriber p st' ok :
    is_future u subscriber = false -> is_future u pn = false -> consistent st ->
    publish u st pn pidx subscriber p = (st', ok) -> consistent st'.
  Proof.
    intros Hs Hp C H. destruct ok.
    2: { apply (consistent_equiv st); [|exact C]. pose proof (failed_publish_unchanged u st pn pidx subscriber p st' Hs Hp H) as E.
         destruct E as [E1 [E2 E3]]. repeat split; intros; symmetry; auto. }
    destruct C as [C1 C2]. unfold publish in H. rewrite Hs in H. cbn [andb] in H.
    destruct (new_subscription u st subscriber p) as [st1|] eqn:E; [|discriminate H].
    destruct (new_subscription_spec _ _ _ _ _ E) as [Hnot [Ho [Hf Hports]]].
    assert (Hheld : existsb (sub_eqb (subscriber, p)) (get_out (pn, pidx) (outs st1)) = false).
    { destruct (existsb _ _) eqn:X; [|reflexivity]. apply existsb_sub in X. rewrite Ho in X.
      assert (has_port st subscriber p = true) by (apply C1; exists (pn, pidx); exact X). congruence. }
    rewrite Hheld in H. cbn [negb orb] in H.
    destruct (node_publish u (fuel0 u) st1 pn pidx (subscriber, p)) as [st2 ok2] eqn:E2.
    destruct ok2; [|discriminate H]. injection H as <-.
    destruct (node_publish_worker _ _ _ _ _ _ _ _ Hp E2) as [[X _]|[_ [-> _]]]; [discriminate X|].
    assert (Hhas : forall n q, has_port (add_sub st1 pn pidx (subscriber, p)) n q = true <-> (has_port st n q = true \/ (n, q) = (subscriber, p))).
    { intros n q. unfold has_port, add_sub. rewrite Hheld. cbn [ports]. rewrite Hports.
      destruct (Nat.eqb n subscriber) eqn:En.
      - apply Nat.eqb_eq in En. subst n. rewrite existsb_app. cbn [existsb]. rewrite orb_false_r, orb_true_iff.
        split; (intros [X|X]; [left; exact X|right]).
        + apply port_eqb_spec in X. subst. reflexivity.
        + injection X as ->. apply port_eqb_spec. reflexivity.
      - split; [intros X; left; exact X|intros [X|X]; [exact X|]]. injection X as -> _. rewrite Nat.eqb_refl in En. discriminate En. }
    split.
    - intros n q. rewrite Hhas. split.
      + intros [X|X].
        * apply C1 in X. destruct X as [k X]. exists k. unfold add_sub. rewrite Hheld. cbn [outs]. rewrite get_set_out, Ho.
          destruct (key_eqb k (pn, pidx)) eqn:Ek; [apply key_eqb_spec in Ek; subst k; apply in_or_app; left; exact X|exact X].
        * exists (pn, pidx). rewrite X. unfold add_sub. rewrite Hheld. cbn [outs]. rewrite get_set_out.
          rewrite (proj2 (key_eqb_spec _ _) eq_refl). apply in_or_app. right. left. reflexivity.
      + intros [k X]. apply add_sub_in in X. destruct X as [X|[_ X]]; [left; apply C1; exists k; rewrite <- Ho; exact X|right; exact X].
    - intros k k' s X X'. apply add_sub_in in X. apply add_sub_in in X'. rewrite Ho in X, X'.
      destruct X as [X|[Xk Xs]], X' as [X'|[Xk' Xs']].
      + exact (C2 k k' s X X').
      + subst s. exfalso. assert (has_port st subscriber p = true) by (apply C1; exists k; exact X). congruence.
      + subst s. exfalso. assert (has_port st subscriber p = true) by (apply C1; exists k'; exact X'). congruence.
      + congruence.
  Qed.

  Lemma step_consistent st o st' ok :
    worker_only u ->
    (match o with Subscribe s _ p _ => s < List.length u /\ p < List.length u
                | Train w tp _ lp _ => w < List.length u /\ tp < List.length u /\ lp < List.length u end) ->
    consistent st -> step u st o = (st', ok) -> consistent st'.
  Proof.
    intros Hw Hr C H. destruct o as [s si p pi|w tp ti lp li]; simpl in H.
    - destruct Hr as [Hs Hp]. eapply publish_consistent; [apply Hw; exact Hs|apply Hw; exact Hp|exact C|exact H].
    - destruct Hr as [Hwk [Htp Hlp]].
      destruct (negb (stateful_of u w)); [injection H as <- _; exact C|].
      destruct (group_trained u st w); [injection H as <- _; exact C|].
      destruct (publish u st tp ti w PTrain) as [st1 ok1] eqn:E1.
      assert (C1 : consistent st1) by (eapply publish_consistent; [apply Hw; exact Hwk|apply Hw; exact Htp|exact C|exact E1]).
      destruct ok1; [|injection H as <- _; exact C1].
      eapply publish_consistent; [apply Hw; exact Hwk|apply Hw; exact Hlp|exact C1|exact H].
  Qed.

  Definition in_range (o : op) : Prop :=
    match o with Subscribe s _ p _ => s < List.length u /\ p < List.length u
               | Train w tp _ lp _ => w < List.length u /\ tp < List.length u /\ lp < List.length u end.

  (* every state reached by any call sequence - refused calls included - is consistent *)
  Theorem run_consistent : worker_only u -> forall ops st, Forall in_range ops -> consistent st ->
    forall st' ok, In (st', ok) (run u st ops) -> consistent st'.
  Proof.
    intros Hw. induction ops as [|o ops IH]; intros st Hr C st' ok Hin; [destruct Hin|].
    inversion Hr as [|? ? Ho Hrest]; subst. cbn [run] in Hin. destruct (step u st o) as [s1 ok1] eqn:E.
    pose proof (step_consistent st o s1 ok1 Hw Ho C E) as C1.
    destruct Hin as [Hin|Hin]; [injection Hin as <- _; exact C1|exact (IH s1 Hrest C1 st' ok Hin)].
  Qed.

  (* at most one publisher per input port, and one exactly when the port is registered *)
  Corollary single_publisher : worker_only u -> forall ops st' ok, Forall in_range ops -> In (st', ok) (run u empty ops) ->
    (forall n p m i m' i', In (n, p) (get_out (m, i) (outs st')) -> In (n, p) (get_out (m', i') (outs st')) -> (m, i) = (m', i'))
    /\ (forall n p, has_port st' n p = true <-> exists k, In (n, p) (get_out k (outs st'))).
  Proof.
    intros Hw ops st' ok Hr Hin. destruct (run_consistent Hw ops empty Hr consistent_empty st' ok Hin) as [C1 C2].
    split; [intros n p m i m' i' X X'; exact (C2 _ _ _ X X')|exact C1].
  Qed.
End Single.
