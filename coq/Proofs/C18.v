(* C18 - proofs about the tag codec, the keys and the listings. *)
Require Import List Bool ZArith Lia.
From FV Require Import Model.C18.
Import ListNotations.
Open Scope Z_scope.

(* ---- tag codec ---------------------------------------------------------------------------------------- *)
Lemma norm_mode_idem ts attr : let '(a, b) := norm_mode ts attr in norm_mode a b = (a, b).
Proof. destruct ts; reflexivity. Qed.

Lemma tag_roundtrip a b c d s : loads_doc (dumps_doc (mk_tag a b c d s)) = mk_tag a b c d s.
Proof. unfold loads_doc, dumps_doc, mk_tag. destruct a, c; reflexivity. Qed.

Definition normal (t : tag) : Prop := (tr_ts t = None -> tr_ord t = None) /\ (tu_ts t = None -> tu_score t = None).

Lemma mk_tag_normal a b c d s : normal (mk_tag a b c d s).
Proof. unfold mk_tag, normal. destruct a, c; simpl; split; intros; try discriminate; reflexivity. Qed.

Lemma tag_roundtrip_normal t : normal t -> loads_doc (dumps_doc t) = t.
Proof.
  destruct t as [a b c d s]. unfold normal. simpl. intros [H1 H2]. unfold loads_doc, dumps_doc, mk_tag. simpl.
  destruct a, c; simpl; try rewrite (H1 eq_refl); try rewrite (H2 eq_refl); reflexivity.
Qed.

(* ---- generation keys -------------------------------------------------------------------------------------- *)
Lemma gen_key_spec z k : gen_key z = Some k <-> (k = z /\ 1 <= z).
Proof. unfold gen_key. destruct (1 <=? z) eqn:E; split; intros H; try discriminate; [injection H as <-; lia|destruct H; subst; reflexivity|lia]. Qed.

Lemma gen_key_invalid z : gen_key z = None <-> z < 1.
Proof. unfold gen_key. destruct (1 <=? z) eqn:E; split; intros H; try discriminate; try reflexivity; lia. Qed.

Lemma fold_max_ge r : forall x, x <= fold_left Z.max r x /\ (forall y, In y r -> y <= fold_left Z.max r x).
Proof.
  induction r as [|a r IH]; intros x; simpl; [split; [lia|intros y []]|].
  destruct (IH (Z.max x a)) as [H1 H2]. split; [lia|]. intros y [<-|Hy]; [lia|apply H2; exact Hy].
Qed.

Lemma next_generation_fresh existing :
  Forall (fun k => 1 <= k) existing ->
  1 <= next_generation existing /\ (forall k, In k existing -> k < next_generation existing)
  /\ (existing = [] -> next_generation existing = 1).
Proof.
  intros H. unfold next_generation, gen_next. destruct existing as [|x r]; simpl; [repeat split; try lia; intros k []|].
  destruct (fold_max_ge r x) as [H1 H2]. inversion H; subst. repeat split; [lia| |discriminate].
  intros k [<-|Hk]; [lia|specialize (H2 k Hk); lia].
Qed.

(* ---- lexicographic order -------------------------------------------------------------------------------- *)
Lemma lex_eq a : forall b, lex a b = Eq <-> a = b.
Proof.
  induction a as [|x a IH]; intros [|y b]; simpl; split; intros H; try discriminate; try reflexivity.
  - destruct (x ?= y) eqn:E; try discriminate. apply Z.compare_eq in E. subst. f_equal. apply IH. exact H.
  - injection H as -> ->. rewrite Z.compare_refl. apply IH. reflexivity.
Qed.

Lemma lex_opp a : forall b, lex b a = CompOpp (lex a b).
Proof.
  induction a as [|x a IH]; intros [|y b]; simpl; try reflexivity.
  rewrite (Z.compare_antisym x y). destruct (x ?= y); simpl; [apply IH|reflexivity|reflexivity].
Qed.

Lemma lex_trans a : forall b c, lex a b = Lt -> lex b c = Lt -> lex a c = Lt.
Proof.
  induction a as [|x a IH]; intros [|y b] [|z c]; simpl; intros H1 H2; try discriminate; try reflexivity.
  destruct (x ?= y) eqn:E1; try discriminate; destruct (y ?= z) eqn:E2; try discriminate.
  - apply Z.compare_eq in E1, E2. subst. rewrite Z.compare_refl. eapply IH; eassumption.
  - apply Z.compare_eq in E1. subst. rewrite E2. reflexivity.
  - apply Z.compare_eq in E2. subst. rewrite E1. reflexivity.
  - assert (x ?= z = Lt) as -> by (rewrite Z.compare_lt_iff in *; lia). reflexivity.
Qed.

(* ---- release keys ------------------------------------------------------------------------------------------ *)
Definition key3 (v : version) : list Z * list Z * list Z := vkey v.

Lemma vcmp_eq a b : vcmp a b = Eq <-> vkey a = vkey b.
Proof.
  unfold vcmp, vkey. split.
  - destruct (epoch a ?= epoch b) eqn:E; try discriminate. apply Z.compare_eq in E.
    destruct (lex (trim (release a)) (trim (release b))) eqn:L; try discriminate. apply lex_eq in L.
    intros S. apply lex_eq in S. rewrite E, L, S. reflexivity.
  - intros H. injection H as -> -> ->. rewrite Z.compare_refl.
    rewrite (proj2 (lex_eq _ _) eq_refl), (proj2 (lex_eq _ _) eq_refl). reflexivity.
Qed.

Lemma vcmp_opp a b : vcmp b a = CompOpp (vcmp a b).
Proof.
  unfold vcmp. rewrite (Z.compare_antisym (epoch a) (epoch b)). destruct (epoch a ?= epoch b); simpl; try reflexivity.
  rewrite (lex_opp (trim (release a)) (trim (release b))). destruct (lex (trim (release a)) (trim (release b))); simpl; try reflexivity.
  apply lex_opp.
Qed.

Lemma vcmp_trans a b c : vcmp a b = Lt -> vcmp b c = Lt -> vcmp a c = Lt.
Proof.
  unfold vcmp. intros H1 H2.
  destruct (epoch a ?= epoch b) eqn:E1; try discriminate; destruct (epoch b ?= epoch c) eqn:E2; try discriminate.
  - apply Z.compare_eq in E1, E2. rewrite E1, E2, Z.compare_refl.
    destruct (lex (trim (release a)) (trim (release b))) eqn:L1; try discriminate;
      destruct (lex (trim (release b)) (trim (release c))) eqn:L2; try discriminate.
    + apply lex_eq in L1, L2. rewrite L1, L2, (proj2 (lex_eq _ _) eq_refl). eapply lex_trans; eassumption.
    + apply lex_eq in L1. rewrite L1, L2. reflexivity.
    + apply lex_eq in L2. rewrite <- L2, L1. reflexivity.
    + rewrite (lex_trans _ _ _ L1 L2). reflexivity.
  - apply Z.compare_eq in E1. rewrite E1, E2. reflexivity.
  - apply Z.compare_eq in E2. rewrite <- E2, E1. reflexivity.
  - assert (epoch a ?= epoch c = Lt) as -> by (rewrite Z.compare_lt_iff in *; lia). reflexivity.
Qed.

Lemma vcmp_eq_l a b c : vcmp a b = Eq -> vcmp a c = vcmp b c.
Proof. intros H. apply vcmp_eq in H. unfold vcmp, vkey in *. injection H as H1 H2 H3. rewrite H1, H2, H3. reflexivity. Qed.

(* the order extends the order of the (zero-trimmed) release tuples *)
Lemma vcmp_release a b : epoch a = epoch b -> lex (trim (release a)) (trim (release b)) = Lt -> vcmp a b = Lt.
Proof. intros He Hl. unfold vcmp. rewrite He, Z.compare_refl, Hl. reflexivity. Qed.

(* ---- listings ------------------------------------------------------------------------------------------------ *)
Section ListingProofs.
  Variable A : Type.
  Variable cmp : A -> A -> comparison.
  Hypothesis Hopp : forall x y, cmp y x = CompOpp (cmp x y).
  Hypothesis Htrans : forall x y z, cmp x y = Lt -> cmp y z = Lt -> cmp x z = Lt.
  Hypothesis Heq_l : forall x y z, cmp x y = Eq -> cmp x z = cmp y z.

  Fixpoint asc (l : list A) : Prop :=
    match l with a :: ((b :: _) as r) => cmp a b = Lt /\ asc r | _ => True end.

  Lemma asc_tail a l : asc (a :: l) -> asc l.
  Proof. destruct l; simpl; tauto. Qed.

  Lemma asc_app_r l1 l2 : asc (l1 ++ l2) -> asc l2.
  Proof.
    induction l1 as [|h t IH]; intros H; [exact H|]. apply IH. simpl in H.
    destruct (t ++ l2) eqn:E; [destruct t; [simpl in E; subst; exact I|discriminate]|]. rewrite <- E in *. tauto.
  Qed.

  Lemma linsert_in x l y : In y (linsert cmp x l) -> y = x \/ In y l.
  Proof.
    induction l as [|a r IH]; simpl; [intuition|]. destruct (cmp x a); simpl; intuition.
  Qed.

  Lemma linsert_keeps x l y : In y l -> In y (linsert cmp x l).
  Proof. induction l as [|a r IH]; simpl; [tauto|]. destruct (cmp x a); simpl; intuition. Qed.

  Lemma linsert_has x l : exists y, In y (linsert cmp x l) /\ cmp x y = Eq.
  Proof.
    induction l as [|a r IH]; simpl.
    - exists x. split; [left; reflexivity|]. specialize (Hopp x x). destruct (cmp x x); simpl in Hopp; congruence.
    - destruct (cmp x a) eqn:E.
      + exists a. split; [left; reflexivity|exact E].
      + exists x. split; [left; reflexivity|]. specialize (Hopp x x). destruct (cmp x x); simpl in Hopp; congruence.
      + destruct IH as [y [Hy Hc]]. exists y. split; [right; exact Hy|exact Hc].
  Qed.

  Lemma linsert_asc x l : asc l -> asc (linsert cmp x l).
  Proof.
    induction l as [|a r IH]; intros H; simpl; [exact I|].
    destruct (cmp x a) eqn:E; [exact H|simpl; split; [exact E|exact H]|].
    specialize (IH (asc_tail _ _ H)). destruct r as [|b r]; simpl in *.
    - split; [|exact I]. rewrite Hopp, E. reflexivity.
    - destruct (cmp x b) eqn:E2.
      + exact H.
      + split; [rewrite Hopp, E; reflexivity|]. split; [exact E2|tauto].
      + split; [tauto|exact IH].
  Qed.

  Lemma listing_asc l : asc (listing cmp l).
  Proof. induction l as [|a r IH]; simpl; [exact I|apply linsert_asc; exact IH]. Qed.

  Lemma listing_sound l y : In y (listing cmp l) -> In y l.
  Proof.
    revert y; induction l as [|a r IH]; intros y H; simpl in *; [exact H|].
    apply linsert_in in H. destruct H as [->|H]; [left; reflexivity|right; apply IH; exact H].
  Qed.

  Lemma listing_complete l x : In x l -> exists y, In y (listing cmp l) /\ cmp x y = Eq.
  Proof.
    induction l as [|a r IH]; intros H; [destruct H|]. simpl. destruct H as [->|H].
    - apply linsert_has.
    - destruct (IH H) as [y [Hy Hc]]. exists y. split; [apply linsert_keeps; exact Hy|exact Hc].
  Qed.

  Lemma asc_head_lt l : forall a, asc (a :: l) -> forall y, In y l -> cmp a y = Lt.
  Proof.
    induction l as [|b r IH]; intros a H y Hy; [destruct Hy|]. destruct H as [Hab Hr].
    destruct Hy as [<-|Hy]; [exact Hab|]. eapply Htrans; [exact Hab|]. apply IH; assumption.
  Qed.

  (* the last listed key is a maximum of the input *)
  Lemma last_is_max l m : last_key cmp l = Some m -> In m l /\ forall x, In x l -> cmp x m <> Gt.
  Proof.
    unfold last_key. intros H. pose proof (listing_asc l) as Hasc.
    destruct (rev (listing cmp l)) as [|z rest] eqn:Er; [discriminate|]. injection H as ->.
    assert (listing cmp l = rev rest ++ [m]) as El by (rewrite <- (rev_involutive (listing cmp l)), Er; reflexivity).
    split; [apply listing_sound; rewrite El; apply in_or_app; right; left; reflexivity|].
    intros x Hx. destruct (listing_complete l x Hx) as [y [Hy Hc]]. rewrite (Heq_l x y m Hc).
    rewrite El in Hy. apply in_app_or in Hy. destruct Hy as [Hy|[<-|[]]].
    - (* y precedes m in an ascending list *)
      apply in_split in Hy. destruct Hy as [l1 [l2 Hs]].
      assert (cmp y m = Lt) as ->; [|discriminate].
      assert (asc (y :: l2 ++ [m])) as Hsub.
      { rewrite El, Hs, <- app_assoc in Hasc. simpl in Hasc. apply (asc_app_r l1). exact Hasc. }
      eapply asc_head_lt; [exact Hsub|]. apply in_or_app. right. left. reflexivity.
    - specialize (Hopp m m). destruct (cmp m m); simpl in Hopp; congruence.
  Qed.
End ListingProofs.

Lemma Zcmp_opp x y : (y ?= x) = CompOpp (x ?= y).
Proof. apply Z.compare_antisym. Qed.
Lemma Zcmp_trans x y z : (x ?= y) = Lt -> (y ?= z) = Lt -> (x ?= z) = Lt.
Proof. rewrite !Z.compare_lt_iff. lia. Qed.
Lemma Zcmp_eq_l x y z : (x ?= y) = Eq -> (x ?= z) = (y ?= z).
Proof. intros H. apply Z.compare_eq in H. subst. reflexivity. Qed.
