(* C14 - soundness of the offered row filters: every factor is a necessary condition of the predicate. *)
Require Import List Bool ZArith Lia.
From FV Require Import Model.Dsl Model.DslSem Model.C14.
Import ListNotations.

Lemma kind_eqb_true a b : kind_eqb a b = true -> a = b.
Proof. destruct a, b; simpl; intros; try discriminate; reflexivity. Qed.
Lemma lit_eqb_true a b : lit_eqb a b = true -> a = b.
Proof.
  destruct a, b; simpl; intros H; try discriminate;
    [apply Z.eqb_eq in H|apply Nat.eqb_eq in H|apply eqb_prop in H|apply Nat.eqb_eq in H]; subst; reflexivity.
Qed.
Lemma binop_eqb_true a b : binop_eqb a b = true -> a = b.
Proof. destruct a, b; simpl; intros; try discriminate; reflexivity. Qed.
Lemma aggfn_eqb_true a b : aggfn_eqb a b = true -> a = b.
Proof. destruct a, b; simpl; intros; try discriminate; reflexivity. Qed.

Lemma feature_eqb_true : forall a b, feature_eqb a b = true -> a = b.
Proof.
  induction a as [t c k|r c k|v|f IH n|o x IHx y IHy|x IH|g x IH]; intros [t' c' k'|r' c' k'|v'|f' n'|o' x' y'|x'|g' x'];
    simpl; intros H; try discriminate; rewrite ?andb_true_iff in H.
  - destruct H as [[H1 H2] H3]. apply Nat.eqb_eq in H1, H2. apply kind_eqb_true in H3. subst. reflexivity.
  - destruct H as [[H1 H2] H3]. apply Nat.eqb_eq in H1, H2. apply kind_eqb_true in H3. subst. reflexivity.
  - apply lit_eqb_true in H. subst. reflexivity.
  - destruct H as [H1 H2]. apply IH in H1. apply Nat.eqb_eq in H2. subst. reflexivity.
  - destruct H as [[H1 H2] H3]. apply binop_eqb_true in H1. apply IHx in H2. apply IHy in H3. subst. reflexivity.
  - apply IH in H. subst. reflexivity.
  - destruct H as [H1 H2]. apply aggfn_eqb_true in H1. apply IH in H2. subst. reflexivity.
Qed.

Lemma holds_and e a b : holds e (FBin OAnd a b) = true <-> holds e a = true /\ holds e b = true.
Proof.
  unfold holds. cbn [feval is_arith is_cmp]. destruct (feval e a) as [|?|?|[|]], (feval e b) as [|?|?|[|]]; simpl; split; intros H; try discriminate; try tauto; destruct H; discriminate.
Qed.

Lemma holds_or e a b : holds e (FBin OOr a b) = true <-> holds e a = true \/ holds e b = true.
Proof.
  unfold holds. cbn [feval is_arith is_cmp]. destruct (feval e a) as [|?|?|[|]], (feval e b) as [|?|?|[|]]; simpl; split; intros H; try discriminate; try tauto; destruct H; discriminate.
Qed.

Lemma fac_get_app t a b : fac_get t (a ++ b) = match fac_get t a with Some f => Some f | None => fac_get t b end.
Proof. induction a as [|[t' f] a IH]; simpl; [reflexivity|]. destruct (Nat.eqb t t'); [reflexivity|exact IH]. Qed.

Lemma fac_get_map t (g : nat * feature -> feature) l :
  fac_get t (map (fun tf => (fst tf, g tf)) l) = match fac_get t l with Some f => Some (g (t, f)) | None => None end.
Proof.
  induction l as [|[t' f] l IH]; simpl; [reflexivity|]. destruct (Nat.eqb t t') eqn:E; [|exact IH].
  apply Nat.eqb_eq in E. subst. reflexivity.
Qed.

Lemma fac_get_filter t (keep : nat -> bool) r :
  fac_get t (filter (fun tf => keep (fst tf)) r) = if keep t then fac_get t r else None.
Proof.
  induction r as [|[t' f] r IH]; simpl; [destruct (keep t); reflexivity|].
  destruct (keep t') eqn:K; simpl.
  - destruct (Nat.eqb t t') eqn:E; [apply Nat.eqb_eq in E; subst; rewrite K; reflexivity|exact IH].
  - destruct (Nat.eqb t t') eqn:E; [apply Nat.eqb_eq in E; subst; rewrite K in IH; rewrite K; exact IH|exact IH].
Qed.

Lemma fac_get_merge_and t l r :
  fac_get t (merge_and l r)
  = match fac_get t l, fac_get t r with
    | Some a, Some b => Some (if feature_eqb a b then a else FBin OAnd a b)
    | Some a, None => Some a
    | None, x => x
    end.
Proof.
  unfold merge_and. rewrite fac_get_app.
  rewrite (fac_get_map t (fun tf => match fac_get (fst tf) r with
                                    | Some g => if feature_eqb (snd tf) g then snd tf else FBin OAnd (snd tf) g
                                    | None => snd tf end) l).
  - rewrite (fac_get_filter t (fun k => match fac_get k l with Some _ => false | None => true end) r).
    destruct (fac_get t l) as [a|]; simpl; [destruct (fac_get t r); reflexivity|reflexivity].
Qed.

Lemma fac_get_merge_or t l r :
  fac_get t (merge_or l r)
  = match fac_get t l, fac_get t r with
    | Some a, Some b => Some (if feature_eqb a b then a else FBin OOr a b)
    | _, _ => None
    end.
Proof.
  unfold merge_or. induction l as [|[t' f] l IH]; cbn [flat_map fac_get fst snd]; [reflexivity|].
  destruct (Nat.eqb t t') eqn:E.
  - apply Nat.eqb_eq in E. subst t'. destruct (fac_get t r) as [g|] eqn:G; cbn [app fac_get fst snd].
    + rewrite Nat.eqb_refl. reflexivity.
    + rewrite IH. destruct (fac_get t l); [|reflexivity]. try rewrite G. reflexivity.
  - destruct (fac_get t' r); cbn [app fac_get fst snd]; [rewrite E|]; exact IH.
Qed.

(* every offered factor is a necessary condition of the predicate it was derived from: any row combination satisfying the
   predicate satisfies each table's factor *)
Theorem factor_sound : forall p e t f, fac_get t (factors p) = Some f -> holds e p = true -> holds e f = true.
Proof.
  induction p as [t0 c k|r c k|v|g IH n|o a IHa b IHb|a IH|fn a IH]; intros e t f Hf Hp; simpl in Hf; try discriminate.
  - destruct o; try (destruct (single_table (FBin _ a b)) as [t1|]; simpl in Hf; [destruct (Nat.eqb t t1); [injection Hf as <-; exact Hp|discriminate]|discriminate]).
    + (* and *)
      rewrite fac_get_merge_and in Hf. apply holds_and in Hp. destruct Hp as [Ha Hb].
      destruct (fac_get t (factors a)) as [fa|] eqn:Ea, (fac_get t (factors b)) as [fb|] eqn:Eb; try discriminate.
      * injection Hf as <-. destruct (feature_eqb fa fb); [eapply IHa; eauto|]. apply holds_and. split; [eapply IHa|eapply IHb]; eauto.
      * injection Hf as <-. eapply IHa; eauto.
      * injection Hf as <-. eapply IHb; eauto.
    + (* or *)
      rewrite fac_get_merge_or in Hf. apply holds_or in Hp.
      destruct (fac_get t (factors a)) as [fa|] eqn:Ea, (fac_get t (factors b)) as [fb|] eqn:Eb; try discriminate.
      injection Hf as <-. destruct (feature_eqb fa fb) eqn:E.
      * apply feature_eqb_true in E. subst fb. destruct Hp as [Hp|Hp]; [eapply IHa|eapply IHb]; eauto.
      * apply holds_or. destruct Hp as [Hp|Hp]; [left; eapply IHa|right; eapply IHb]; eauto.
  - destruct (single_table (FNot a)) as [t1|]; simpl in Hf; [destruct (Nat.eqb t t1); [injection Hf as <-; exact Hp|discriminate]|discriminate].
Qed.

(* a factor offered for table t mentions columns of t only (so a back-end can evaluate it on t's rows alone) *)
Lemma single_table_only p t : single_table p = Some t -> forall x, In x (tables_in p) -> x = t.
Proof.
  unfold single_table. intros H x Hx. destruct (elem_free p); [|discriminate H]. apply (nodup_In Nat.eq_dec) in Hx.
  destruct (nodup Nat.eq_dec (tables_in p)) as [|y [|z l]]; try discriminate. injection H as <-. destruct Hx as [<-|[]]. reflexivity.
Qed.

Theorem factor_single_table : forall p t f, fac_get t (factors p) = Some f -> forall x, In x (tables_in f) -> x = t.
Proof.
  induction p as [t0 c k|r c k|v|g IH n|o a IHa b IHb|a IH|fn a IH]; intros t f Hf x Hx; simpl in Hf; try discriminate.
  - destruct o; try (destruct (single_table (FBin _ a b)) as [t1|] eqn:S; simpl in Hf;
                     [destruct (Nat.eqb t t1) eqn:E; [injection Hf as <-; apply Nat.eqb_eq in E; subst; eapply single_table_only; eauto|discriminate]|discriminate]).
    + rewrite fac_get_merge_and in Hf.
      destruct (fac_get t (factors a)) as [fa|] eqn:Ea, (fac_get t (factors b)) as [fb|] eqn:Eb; try discriminate; injection Hf as <-.
      * destruct (feature_eqb fa fb); [eapply IHa; eauto|]. simpl in Hx. apply in_app_or in Hx. destruct Hx; [eapply IHa|eapply IHb]; eauto.
      * eapply IHa; eauto.
      * eapply IHb; eauto.
    + rewrite fac_get_merge_or in Hf.
      destruct (fac_get t (factors a)) as [fa|] eqn:Ea, (fac_get t (factors b)) as [fb|] eqn:Eb; try discriminate; injection Hf as <-.
      destruct (feature_eqb fa fb); [eapply IHa; eauto|]. simpl in Hx. apply in_app_or in Hx. destruct Hx; [eapply IHa|eapply IHb]; eauto.
  - destruct (single_table (FNot a)) as [t1|] eqn:S; simpl in Hf; [|discriminate].
    destruct (Nat.eqb t t1) eqn:E; [|discriminate]. injection Hf as <-. apply Nat.eqb_eq in E. subst. eapply single_table_only; eauto.
Qed.

(* column safety of a query's own clauses: every column of table t used by the projection, the filters, the grouping or the
   ordering is in the offered column set *)
Lemma offered_columns_cover t src sel pre grp post ord c f :
  In f (out_features src sel ++ match pre with Some p => [p] | None => [] end ++ grp
        ++ match post with Some p => [p] | None => [] end ++ map fst ord) ->
  In c (columns_in t f) -> In c (offered_columns t src sel pre grp post ord).
Proof.
  intros Hf Hc. unfold offered_columns. apply in_flat_map. exists f. split; [|exact Hc].
  rewrite !app_assoc in *. apply in_or_app. left. exact Hf.
Qed.

(* ---- from factors to the offered filter ------------------------------------------------------------------- *)
Lemma env_get_single t r : env_get (false, t) [((false, t), r)] = r.
Proof. cbn [env_get fst snd]. rewrite Nat.eqb_refl. reflexivity. Qed.

(* a reference-free feature over table t alone evaluates the same on t's row alone *)
Lemma feval_local t e f :
  elem_free f = true -> (forall x, In x (tables_in f) -> x = t) ->
  feval e f = feval [((false, t), env_get (false, t) e)] f.
Proof.
  induction f as [t0 c k|r c k|v|g IH n|o a IHa b IHb|a IH|fn a IH]; intros Hf Ht; cbn [elem_free tables_in] in *.
  - rewrite (Ht t0 (or_introl eq_refl)). cbn [feval]. rewrite env_get_single. reflexivity.
  - discriminate Hf.
  - reflexivity.
  - cbn [feval]. apply IH; assumption.
  - apply andb_true_iff in Hf. destruct Hf as [Ha Hb]. cbn [feval].
    rewrite <- IHa, <- IHb; auto; intros x Hx; apply Ht; apply in_or_app; auto.
  - cbn [feval]. rewrite <- IH; auto.
  - reflexivity.
Qed.

Lemma factors_elem_free : forall p t f, elem_free p = true -> fac_get t (factors p) = Some f -> elem_free f = true.
Proof.
  induction p as [t0 c k|r c k|v|g IH n|o a IHa b IHb|a IH|fn a IH]; intros t f Hp Hf; simpl in Hf; try discriminate.
  - pose proof Hp as Hp'. cbn [elem_free] in Hp'. apply andb_true_iff in Hp'. destruct Hp' as [Ha Hb].
    destruct o; try (destruct (single_table (FBin _ a b)) as [t1|]; simpl in Hf; [destruct (Nat.eqb t t1); [injection Hf as <-; exact Hp|discriminate]|discriminate]).
    + rewrite fac_get_merge_and in Hf.
      destruct (fac_get t (factors a)) as [fa|] eqn:Ea, (fac_get t (factors b)) as [fb|] eqn:Eb; try discriminate; injection Hf as <-.
      * destruct (feature_eqb fa fb); [eapply IHa; eauto|]. cbn [elem_free]. apply andb_true_iff. split; [eapply IHa|eapply IHb]; eauto.
      * eapply IHa; eauto.
      * eapply IHb; eauto.
    + rewrite fac_get_merge_or in Hf.
      destruct (fac_get t (factors a)) as [fa|] eqn:Ea, (fac_get t (factors b)) as [fb|] eqn:Eb; try discriminate; injection Hf as <-.
      destruct (feature_eqb fa fb); [eapply IHa; eauto|]. cbn [elem_free]. apply andb_true_iff. split; [eapply IHa|eapply IHb]; eauto.
  - destruct (single_table (FNot a)) as [t1|]; simpl in Hf; [destruct (Nat.eqb t t1); [injection Hf as <-; exact Hp|discriminate]|discriminate].
Qed.

(* every factor offered for table t holds on t's own row of any row combination satisfying all filter clauses *)
Lemma offered_factor_holds src pre t e f :
  (forall p, In p (filter_clauses src pre) -> elem_free p = true /\ holds e p = true) ->
  In f (offered_factors t src pre) -> holds [((false, t), env_get (false, t) e)] f = true.
Proof.
  intros Hc Hf. unfold offered_factors in Hf. apply in_flat_map in Hf. destruct Hf as [p [Hp Hf]].
  destruct (Hc p Hp) as [He Hh]. destruct (fac_get t (factors p)) as [g|] eqn:G; [|destruct Hf].
  destruct Hf as [<-|[]]. unfold holds. rewrite <- feval_local.
  - exact (factor_sound p e t g G Hh).
  - exact (factors_elem_free p t g He G).
  - exact (factor_single_table p t g G).
Qed.

(* the offered row filter (disjunction of the factors) admits the row of table t in every row combination that satisfies
   the where-clause and the registered join conditions *)
Theorem offered_filter_safe src pre t e :
  (forall p, In p (filter_clauses src pre) -> elem_free p = true /\ holds e p = true) ->
  offered_factors t src pre <> [] -> admits (offered_factors t src pre) t (env_get (false, t) e) = true.
Proof.
  intros Hc Hne. unfold admits. destruct (offered_factors t src pre) as [|f fs] eqn:E; [congruence|].
  cbn [existsb]. rewrite (offered_factor_holds src pre t e f Hc); [reflexivity|]. rewrite E. left. reflexivity.
Qed.

(* refutations on the faithful model: the two remaining hint defects of the implementation *)
Definition eqjoin : source :=
  SJoin JInner (STable 0 [(0, KInt); (1, KInt)]) (STable 1 [(0, KInt); (1, KInt)]) (Some (FBin OEq (FCol 0 0 KInt) (FCol 1 0 KInt))).
Lemma join_column_not_offered :
  In 0 (columns_in 0 (FBin OEq (FCol 0 0 KInt) (FCol 1 0 KInt)))
  /\ ~ In 0 (offered_columns 0 eqjoin [FCol 0 1 KInt] None [] None []).
Proof. split; [left; reflexivity|]. vm_compute. intros [H|[]]. discriminate H. Qed.

Definition leftjoin : source :=
  SJoin JLeft (STable 0 [(0, KInt); (1, KInt)]) (STable 1 [(0, KInt); (1, KInt)])
        (Some (FBin OAnd (FBin OLe (FCol 0 0 KInt) (FCol 1 0 KInt)) (FBin OGt (FCol 0 1 KInt) (FLit (LInt 2))))).
Lemma preserved_row_rejected :
  preserved 0 leftjoin = true
  /\ admits (offered_factors 0 leftjoin None) 0 [(0, VInt 1); (1, VInt 0)] = false.
Proof. split; vm_compute; reflexivity. Qed.

(* ---- with Predicate.Factors.primitive every factor is reference-free by construction ----------------------- *)
Lemma single_table_elem_free p t : single_table p = Some t -> elem_free p = true.
Proof. unfold single_table. destruct (elem_free p); [reflexivity|discriminate]. Qed.

Lemma factors_elem_free_always : forall p t f, fac_get t (factors p) = Some f -> elem_free f = true.
Proof.
  induction p as [t0 c k|r c k|v|g IH n|o a IHa b IHb|a IH|fn a IH]; intros t f Hf; simpl in Hf; try discriminate.
  - destruct o; try (destruct (single_table (FBin _ a b)) as [t1|] eqn:S; simpl in Hf;
                     [destruct (Nat.eqb t t1); [injection Hf as <-; exact (single_table_elem_free _ _ S)|discriminate]|discriminate]).
    + rewrite fac_get_merge_and in Hf.
      destruct (fac_get t (factors a)) as [fa|] eqn:Ea, (fac_get t (factors b)) as [fb|] eqn:Eb; try discriminate; injection Hf as <-.
      * destruct (feature_eqb fa fb); [eapply IHa; eauto|]. cbn [elem_free]. apply andb_true_iff. split; [eapply IHa|eapply IHb]; eauto.
      * eapply IHa; eauto.
      * eapply IHb; eauto.
    + rewrite fac_get_merge_or in Hf.
      destruct (fac_get t (factors a)) as [fa|] eqn:Ea, (fac_get t (factors b)) as [fb|] eqn:Eb; try discriminate; injection Hf as <-.
      destruct (feature_eqb fa fb); [eapply IHa; eauto|]. cbn [elem_free]. apply andb_true_iff. split; [eapply IHa|eapply IHb]; eauto.
  - destruct (single_table (FNot a)) as [t1|] eqn:S; simpl in Hf; [|discriminate].
    destruct (Nat.eqb t t1); [injection Hf as <-; exact (single_table_elem_free _ _ S)|discriminate].
Qed.

Theorem offered_filter_safe_refs src pre t e :
  (forall p, In p (filter_clauses src pre) -> holds e p = true) ->
  offered_factors t src pre <> [] -> admits (offered_factors t src pre) t (env_get (false, t) e) = true.
Proof.
  intros Hc Hne. unfold admits. destruct (offered_factors t src pre) as [|f fs] eqn:E; [congruence|].
  cbn [existsb]. assert (Hf : In f (offered_factors t src pre)) by (rewrite E; left; reflexivity).
  unfold offered_factors in Hf. apply in_flat_map in Hf. destruct Hf as [p [Hp Hf]].
  destruct (fac_get t (factors p)) as [g|] eqn:G; [|destruct Hf]. destruct Hf as [<-|[]].
  unfold holds. rewrite <- feval_local.
  - fold (holds e g). rewrite (factor_sound p e t g G (Hc p Hp)). reflexivity.
  - exact (factors_elem_free_always p t g G).
  - exact (factor_single_table p t g G).
Qed.
