(* C17 - proofs about the rational model of the A/B selector and about Latest._pick. *)
Require Import List Bool ZArith QArith Qreduction Lia Lqa.
From FV Require Import Model.C17.
Import ListNotations.

Definition qn (n : nat) : Q := inject_Z (Z.of_nat n).

Lemma qn_S n : qn (S n) == qn n + 1.
Proof. unfold qn. rewrite Nat2Z.inj_succ. unfold Z.succ. rewrite inject_Z_plus. reflexivity. Qed.

Lemma qn_0 : qn 0 == 0.
Proof. reflexivity. Qed.

Lemma qn_pos n : (0 < n)%nat -> 0 < qn n.
Proof. intros H. unfold qn. change 0 with (inject_Z 0). rewrite <- Zlt_Qlt. lia. Qed.

Lemma qn_nonneg n : 0 <= qn n.
Proof. unfold qn. change 0 with (inject_Z 0). rewrite <- Zle_Qle. lia. Qed.

Lemma qn_plus a b : qn (a + b) == qn a + qn b.
Proof. unfold qn. rewrite Nat2Z.inj_add, inject_Z_plus. reflexivity. Qed.

Definition tsum (l : list slot) : Q := qsum (map target l).
Fixpoint csum (l : list slot) : nat := match l with [] => 0%nat | s :: r => (count s + csum r)%nat end.

Lemma eligible_spec T s : (0 < T)%nat ->
  (eligible T s = true <-> qn (count s) < target s * qn T).
Proof.
  intros HT. unfold eligible. fold (qn (count s)) (qn T). pose proof (qn_pos T HT) as Hp.
  assert (~ qn T == 0) as Hnz by (intros E; rewrite E in Hp; apply (Qlt_irrefl 0 Hp)).
  assert (qn (count s) == (qn (count s) / qn T) * qn T) as Hdiv by (field; exact Hnz).
  destruct (Qlt_le_dec (qn (count s) / qn T) (target s)) as [H|H]; split; intros H'; try reflexivity; try discriminate.
  - rewrite Hdiv. apply Qmult_lt_compat_r; assumption.
  - exfalso. apply (Qlt_irrefl (qn (count s))). eapply Qlt_le_trans; [exact H'|].
    eapply Qle_trans; [apply Qmult_le_compat_r; [exact H|apply Qlt_le_weak; exact Hp]|].
    rewrite <- Hdiv. apply Qle_refl.
Qed.

(* ---- one request ------------------------------------------------------------------------------------ *)
Lemma hit_first_shape T l v l' :
  hit_first T l = Some (v, l') ->
  csum l' = S (csum l) /\ map target l' = map target l /\ map variant l' = map variant l.
Proof.
  revert l'; induction l as [|s r IH]; intros l' H; [discriminate|]. simpl in H.
  destruct (eligible T s).
  - injection H as <- <-. simpl. auto.
  - destruct (hit_first T r) as [[v' r']|]; [|discriminate]. injection H as <- <-.
    destruct (IH r' eq_refl) as [Hc [Ht Hv]]. simpl. rewrite Hc, Ht, Hv. repeat split; lia.
Qed.

Lemma tsum_cons s r : tsum (s :: r) == target s + tsum r.
Proof. reflexivity. Qed.

(* nobody eligible: every slot already holds at least its share *)
Lemma hit_first_none T l : (0 < T)%nat -> hit_first T l = None -> tsum l * qn T <= qn (csum l).
Proof.
  intros HT. induction l as [|s r IH]; intros H.
  - unfold tsum. simpl. rewrite Qmult_0_l. apply Qle_refl.
  - simpl in H. destruct (eligible T s) eqn:E; [discriminate|].
    destruct (hit_first T r) as [[v' r']|]; [discriminate|]. specialize (IH eq_refl).
    assert (~ qn (count s) < target s * qn T) as Hn by (intros Hlt; apply (eligible_spec T s HT) in Hlt; congruence).
    apply Qnot_lt_le in Hn. rewrite tsum_cons. simpl csum. rewrite qn_plus. lra.
Qed.

(* selection never fails *)
Lemma never_fails total l : tsum l == 1 -> csum l = total -> hit_first (S total) l <> None.
Proof.
  intros Ht Hc Hn. apply hit_first_none in Hn; [|lia]. rewrite Ht, Hc, qn_S in Hn. lra.
Qed.

(* upper share bound as an invariant: count < target * total + 1 *)
Definition upper (total : nat) (s : slot) : Prop := qn (count s) < target s * qn total + 1.

Lemma upper_step total l v l' :
  Forall (fun s => 0 <= target s) l -> Forall (upper total) l ->
  hit_first (S total) l = Some (v, l') -> Forall (upper (S total)) l'.
Proof.
  revert l'; induction l as [|s r IH]; intros l' Hpos Hu H; [discriminate|].
  inversion Hpos as [|? ? Hs Hr]; subst. inversion Hu as [|? ? Hus Hur]; subst.
  assert (forall x, 0 <= target x -> upper total x -> upper (S total) x) as Hmono.
  { intros x Hx Hux. unfold upper in *. rewrite qn_S. nra. }
  simpl in H. destruct (eligible (S total) s) eqn:E.
  - injection H as <- <-. constructor.
    + apply (eligible_spec (S total) s) in E; [|lia]. unfold upper. simpl. rewrite (qn_S (count s)). lra.
    + rewrite Forall_forall in *. intros x Hx. apply Hmono; [apply Hr|apply Hur]; exact Hx.
  - destruct (hit_first (S total) r) as [[v' r']|]; [|discriminate]. injection H as <- <-.
    constructor; [apply Hmono; assumption|apply IH; auto].
Qed.

(* ---- request histories ------------------------------------------------------------------------------- *)
Record inv (st : abstate) : Prop := {
  inv_sum : tsum (slots st) == 1;
  inv_pos : Forall (fun s => 0 <= target s) (slots st);
  inv_count : csum (slots st) = total st;
  inv_upper : Forall (upper (total st)) (slots st) }.

Lemma tsum_targets l l' : map target l' = map target l -> tsum l' = tsum l.
Proof. unfold tsum. intros ->. reflexivity. Qed.

Lemma pos_targets l l' : map target l' = map target l ->
  Forall (fun s => 0 <= target s) l -> Forall (fun s => 0 <= target s) l'.
Proof.
  revert l'; induction l as [|s r IH]; intros [|s' r'] H Hp; try discriminate; [constructor|].
  simpl in H. injection H as Hs Hr. inversion Hp; subst. constructor; [rewrite Hs; assumption|apply IH; assumption].
Qed.

Lemma select_inv st : inv st -> exists v st', select st = Some (v, st') /\ inv st' /\ total st' = S (total st)
  /\ map variant (slots st') = map variant (slots st).
Proof.
  intros [Hs Hp Hc Hu]. unfold select.
  destruct (hit_first (S (total st)) (slots st)) as [[v sl]|] eqn:E.
  - exists v, (AB sl (S (total st))). destruct (hit_first_shape _ _ _ _ E) as [Hc' [Ht' Hv']].
    split; [reflexivity|]. split; [|split; [reflexivity|exact Hv']].
    constructor; simpl.
    + rewrite (tsum_targets _ _ Ht'). exact Hs.
    + apply (pos_targets _ _ Ht'). exact Hp.
    + rewrite Hc', Hc. reflexivity.
    + eapply upper_step; eassumption.
  - exfalso. eapply never_fails; eassumption.
Qed.

Lemma run_inv n : forall st, inv st ->
  let '(vs, fin) := run n st in
  List.length vs = n /\ inv fin /\ total fin = (total st + n)%nat /\ map variant (slots fin) = map variant (slots st).
Proof.
  induction n as [|n IH]; intros st Hi; simpl.
  - split; [reflexivity|]. split; [exact Hi|]. split; [lia|reflexivity].
  - destruct (select_inv st Hi) as [v [st' [Hsel [Hi' [Ht' Hv']]]]]. rewrite Hsel.
    specialize (IH st' Hi'). destruct (run n st') as [vs fin]. destruct IH as [Hl [Hf [Htot Hvar]]].
    split; [simpl; rewrite Hl; reflexivity|]. split; [exact Hf|]. split; [rewrite Htot, Ht'; lia|congruence].
Qed.

(* sums of the per-slot upper bounds *)
Lemma upper_sum_le total l : Forall (upper total) l -> qn (csum l) <= tsum l * qn total + qn (List.length l).
Proof.
  induction l as [|s r IH]; intros H.
  - unfold tsum. simpl. rewrite Qmult_0_l. apply Qle_refl.
  - inversion H; subst. specialize (IH H3). unfold upper in H2.
    rewrite tsum_cons. simpl csum. simpl List.length. rewrite qn_plus, qn_S. nra.
Qed.

(* lower share bound: a slot is never more than (number of variants - 1) requests behind its share *)
Lemma lower_bound st l1 s l2 : inv st -> slots st = l1 ++ s :: l2 ->
  target s * qn (total st) - qn (List.length l1 + List.length l2) <= qn (count s).
Proof.
  intros [Hs Hp Hc Hu] Hsl. rewrite Hsl in *.
  apply Forall_app in Hu. destruct Hu as [Hu1 Hu]. inversion Hu as [|? ? _ Hu2]; subst.
  pose proof (upper_sum_le _ _ Hu1) as B1. pose proof (upper_sum_le _ _ Hu2) as B2.
  assert (tsum (l1 ++ s :: l2) == tsum l1 + target s + tsum l2) as Hts.
  { unfold tsum. rewrite map_app. simpl. clear. induction (map target l1) as [|x l IH]; simpl; [ring|rewrite IH; ring]. }
  assert (csum (l1 ++ s :: l2) = (csum l1 + count s + csum l2)%nat) as Hcs.
  { clear. induction l1 as [|x l IH]; simpl; [lia|rewrite IH; lia]. }
  rewrite Hts in Hs. rewrite Hcs in Hc.
  assert (qn (total st) == qn (csum l1) + qn (count s) + qn (csum l2)) as Htot by (rewrite <- Hc, !qn_plus; reflexivity).
  rewrite qn_plus. nra.
Qed.

(* with two variants the deviation from the share is strictly below one request *)
Lemma two_variants st a b : inv st -> slots st = [a; b] ->
  (qn (count a) - target a * qn (total st) < 1 /\ target a * qn (total st) - qn (count a) < 1)
  /\ (qn (count b) - target b * qn (total st) < 1 /\ target b * qn (total st) - qn (count b) < 1).
Proof.
  intros [Hs Hp Hc Hu] Hsl. rewrite Hsl in *.
  inversion Hu as [|? ? Ha Hu']; subst. inversion Hu' as [|? ? Hb _]; subst. unfold upper in *.
  unfold tsum in Hs. simpl in Hs. simpl in Hc.
  assert (qn (total st) == qn (count a) + qn (count b)) as Htot by (rewrite <- Hc, Nat.add_0_r, qn_plus; reflexivity).
  repeat split; nra.
Qed.

(* ---- the initial state built from any positive weights is valid ----------------------------------------- *)
Definition valid (ts : list (option Q)) : Prop :=
  ts <> [] /\ Forall (fun t => match t with Some q => 0 < q | None => True end) ts.

Definition given_of (ts : list (option Q)) : list Q := flat_map (fun t => match t with Some q => [q] | None => [] end) ts.

Lemma qsum_pos l : Forall (fun q => 0 < q) l -> l <> [] -> 0 < qsum l.
Proof.
  induction l as [|x r IH]; intros H Hne; [congruence|]. inversion H; subst. simpl.
  destruct r as [|y r]; [simpl; lra|]. assert (0 < qsum (y :: r)) by (apply IH; [assumption|congruence]). lra.
Qed.

Lemma qsum_nonneg l : Forall (fun q => 0 < q) l -> 0 <= qsum l.
Proof. induction l as [|x r IH]; intros H; simpl; [lra|]. inversion H; subst. specialize (IH H3). lra. Qed.

Lemma given_pos ts : Forall (fun t => match t with Some q => 0 < q | None => True end) ts -> Forall (fun q => 0 < q) (given_of ts).
Proof.
  induction ts as [|[q|] r IH]; intros H; inversion H; subst; simpl; [constructor|constructor; auto|auto].
Qed.

Lemma given_length ts : (List.length (given_of ts) <= List.length ts)%nat.
Proof. induction ts as [|[q|] r IH]; simpl; lia. Qed.

Lemma given_missing ts : In None ts -> (List.length (given_of ts) < List.length ts)%nat.
Proof.
  induction ts as [|t r IH]; intros Hin; [destruct Hin|].
  pose proof (given_length r) as Hr. destruct t as [q|].
  - destruct Hin as [H|H]; [discriminate|]. specialize (IH H). change (given_of (Some q :: r)) with (q :: given_of r). simpl. lia.
  - change (given_of (None :: r)) with (given_of r). simpl. lia.
Qed.

Lemma qsum_scale c l : ~ c == 0 -> qsum (map (fun t => Qred (t / c)) l) == qsum l / c.
Proof.
  intros Hc. induction l as [|x r IH]; simpl; [field; exact Hc|]. rewrite IH, (Qred_correct (x / c)). field. exact Hc.
Qed.

Lemma normalise_ok ts : valid ts ->
  qsum (normalise ts) == 1 /\ Forall (fun q => 0 <= q) (normalise ts) /\ List.length (normalise ts) = List.length ts.
Proof.
  intros [Hne Hpos]. unfold normalise. fold (given_of ts).
  set (given := given_of ts). set (missing := (List.length ts - List.length given)%nat).
  set (explicit := qsum given).
  set (implicit := if Qlt_le_dec explicit 1 then (1 - explicit) / inject_Z (Z.of_nat missing)
                   else explicit / inject_Z (Z.of_nat (List.length given))).
  set (full := map (fun t => match t with Some q => q | None => implicit end) ts).
  pose proof (given_pos ts Hpos) as Hg. fold given in Hg.
  assert (In None ts -> 0 < implicit) as Himp.
  { intros Hin. assert (0 < missing)%nat as Hm.
    { unfold missing, given. pose proof (given_missing ts Hin). lia. }
    unfold implicit. destruct (Qlt_le_dec explicit 1) as [Hlt|Hge].
    - apply Qlt_shift_div_l; [apply (qn_pos missing Hm)|]. lra.
    - assert (given <> []) as Hgne by (intros E; unfold explicit in Hge; rewrite E in Hge; simpl in Hge; lra).
      apply Qlt_shift_div_l; [apply (qn_pos (List.length given)); destruct given; [congruence|simpl; lia]|]. lra. }
  assert (Forall (fun q => 0 < q) full) as Hfull.
  { unfold full. apply Forall_forall. intros q Hq. apply in_map_iff in Hq. destruct Hq as [[t|] [<- Hin]].
    - rewrite Forall_forall in Hpos. apply (Hpos (Some t) Hin).
    - apply Himp. exact Hin. }
  assert (full <> []) as Hfne by (unfold full; destruct ts; [congruence|simpl; congruence]).
  pose proof (qsum_pos full Hfull Hfne) as Hcomb.
  assert (~ qsum full == 0) as Hnz by (intros E; rewrite E in Hcomb; apply (Qlt_irrefl 0 Hcomb)).
  split; [|split].
  - rewrite qsum_scale by exact Hnz. field. exact Hnz.
  - apply Forall_forall. intros q Hq. apply in_map_iff in Hq. destruct Hq as [t [<- Hin]].
    rewrite Qred_correct. rewrite Forall_forall in Hfull. specialize (Hfull t Hin).
    apply Qle_shift_div_l; [exact Hcomb|]. lra.
  - rewrite map_length. unfold full. rewrite map_length. reflexivity.
Qed.

Lemma insert_slot_tsum x l : tsum (insert_slot x l) == target x + tsum l.
Proof.
  induction l as [|y r IH]; simpl; [reflexivity|]. destruct (Qlt_le_dec (target x) (target y)); [|reflexivity].
  rewrite !tsum_cons, IH. ring.
Qed.

Lemma insert_slot_forall (P : slot -> Prop) x l : P x -> Forall P l -> Forall P (insert_slot x l).
Proof.
  intros Hx. induction l as [|y r IH]; intros H; simpl; [constructor; auto|].
  inversion H; subst. destruct (Qlt_le_dec (target x) (target y)); constructor; auto.
Qed.

Lemma insert_slot_csum x l : csum (insert_slot x l) = (count x + csum l)%nat.
Proof. induction l as [|y r IH]; simpl; [reflexivity|]. destruct (Qlt_le_dec (target x) (target y)); simpl; [rewrite IH|]; lia. Qed.

Lemma init_inv ts : valid ts -> inv (AB (init_slots ts) 0).
Proof.
  intros Hv. destruct (normalise_ok ts Hv) as [Hsum [Hpos Hlen]]. unfold init_slots.
  set (raw := map (fun it => Slot (fst it) (snd it) 0) (combine (seq 0 (List.length ts)) (normalise ts))).
  assert (map target raw = normalise ts) as Hraw.
  { unfold raw. rewrite map_map. simpl. rewrite <- Hlen. clear.
    generalize 0%nat. induction (normalise ts) as [|x l IH]; intros n; simpl; [reflexivity|]. rewrite IH. reflexivity. }
  assert (Forall (fun s => count s = 0%nat) raw) as Hzero.
  { unfold raw. apply Forall_forall. intros s Hs. apply in_map_iff in Hs. destruct Hs as [it [<- _]]. reflexivity. }
  assert (tsum (fold_right insert_slot [] raw) == tsum raw
          /\ Forall (fun s => 0 <= target s) (fold_right insert_slot [] raw)
          /\ csum (fold_right insert_slot [] raw) = 0%nat
          /\ Forall (upper 0) (fold_right insert_slot [] raw)) as [H1 [H2 [H3 H4]]].
  { assert (Forall (fun s => 0 <= target s) raw) as Hp.
    { apply Forall_forall. intros s Hs. rewrite Forall_forall in Hpos. apply Hpos. rewrite <- Hraw. apply in_map. exact Hs. }
    clear Hraw. induction raw as [|s r IH]; simpl.
    - repeat split; try constructor; reflexivity.
    - inversion Hzero; subst. inversion Hp; subst. destruct (IH H2 H4) as [A [B [C D]]].
      repeat split.
      + rewrite insert_slot_tsum, A. reflexivity.
      + apply insert_slot_forall; assumption.
      + rewrite insert_slot_csum, C, H1. reflexivity.
      + apply insert_slot_forall; [|assumption]. unfold upper. rewrite H1. simpl. rewrite Qmult_0_r. reflexivity. }
  constructor; simpl; auto.
  rewrite H1. unfold tsum. rewrite Hraw. exact Hsum.
Qed.

(* ---- Latest._pick ---------------------------------------------------------------------------------- *)
Lemma fold_max_spec r x : (x <= fold_left Z.max r x)%Z /\ (forall y, In y r -> (y <= fold_left Z.max r x)%Z)
  /\ (fold_left Z.max r x = x \/ In (fold_left Z.max r x) r).
Proof.
  revert x; induction r as [|a r IH]; intros x; simpl.
  - split; [lia|]. split; [intros y []|left; reflexivity].
  - destruct (IH (Z.max x a)) as [H1 [H2 H3]]. split; [lia|]. split.
    + intros y [<-|Hy]; [lia|apply H2; exact Hy].
    + destruct H3 as [H3|H3]; [|right; right; exact H3].
      rewrite H3. destruct (Z.max_spec x a) as [[_ ->]|[_ ->]]; [right; left; reflexivity|left; reflexivity].
Qed.

Lemma zmax_spec l g : zmax l = Some g -> In g l /\ forall y, In y l -> (y <= g)%Z.
Proof.
  destruct l as [|x r]; [discriminate|]. simpl. intros [= <-].
  destruct (fold_max_spec r x) as [H1 [H2 H3]]. split.
  - destruct H3 as [->|H3]; [left; reflexivity|right; exact H3].
  - intros y [<-|Hy]; [exact H1|apply H2; exact Hy].
Qed.

Lemma zmax_none l : zmax l = None <-> l = [].
Proof. destruct l; simpl; split; intros; try reflexivity; try discriminate. Qed.

Lemma zinsert_in x y l : In y (zinsert x l) <-> y = x \/ In y l.
Proof.
  induction l as [|a r IH]; simpl; [intuition|].
  destruct (x <? a)%Z eqn:E1; [simpl; intuition|]. destruct (x =? a)%Z eqn:E2.
  - apply Z.eqb_eq in E2. subst. simpl. intuition.
  - simpl. rewrite IH. intuition.
Qed.

Lemma listing_in y l : In y (listing l) <-> In y l.
Proof. induction l as [|a r IH]; simpl; [tauto|]. rewrite zinsert_in, IH. intuition. Qed.

Fixpoint ascending (l : list Z) : Prop :=
  match l with a :: ((b :: _) as r) => (a < b)%Z /\ ascending r | _ => True end.

Lemma zinsert_asc x l : ascending l -> ascending (zinsert x l).
Proof.
  induction l as [|a r IH]; intros H; simpl; [exact I|].
  destruct (x <? a)%Z eqn:E1; [simpl; split; [lia|exact H]|]. destruct (x =? a)%Z eqn:E2; [exact H|].
  assert (ascending r) as Hr by (destruct r; simpl in *; tauto). specialize (IH Hr).
  destruct r as [|b r]; simpl in *; [split; [lia|exact I]|].
  destruct (x <? b)%Z eqn:E3; [split; [lia|]; split; [lia|tauto]|].
  destruct (x =? b)%Z eqn:E4; [exact H|]. split; [tauto|exact IH].
Qed.

Lemma listing_asc l : ascending (listing l).
Proof. induction l as [|a r IH]; simpl; [exact I|apply zinsert_asc; exact IH]. Qed.

Lemma ascending_tail h t : ascending (h :: t) -> ascending t.
Proof. destruct t; simpl; tauto. Qed.

Lemma ascending_head_lt b : forall x, ascending (x :: b) -> forall y, In y b -> (x < y)%Z.
Proof.
  induction b as [|b0 b IHb]; intros x Hs y Hy; [destruct Hy|].
  destruct Hs as [Hlt Hs]. destruct Hy as [<-|Hy]; [exact Hlt|].
  specialize (IHb b0 Hs y Hy). lia.
Qed.

Lemma ascending_app_lt l : ascending l -> forall a x b, l = a ++ x :: b -> forall y, In y b -> (x < y)%Z.
Proof.
  induction l as [|h t IH]; intros Hs a x b E y Hy; [destruct a; discriminate|].
  destruct a as [|a0 a]; simpl in E; injection E as -> ->.
  - eapply ascending_head_lt; eassumption.
  - eapply IH; [eapply ascending_tail; exact Hs|reflexivity|exact Hy].
Qed.

Lemma pick_from_spec reg ds r g :
  pick_from reg ds = Some (r, g) ->
  exists a b, ds = a ++ r :: b /\ (forall x, In x a -> gens_of reg x = []) /\ zmax (gens_of reg r) = Some g.
Proof.
  induction ds as [|d ds IH]; simpl; [discriminate|].
  destruct (zmax (gens_of reg d)) as [g'|] eqn:E.
  - intros [= <- <-]. exists [], ds. repeat split; auto. intros x [].
  - intros H. destruct (IH H) as [a [b [-> [Ha Hg]]]]. exists (d :: a), b. repeat split; auto.
    intros x [<-|Hx]; [apply zmax_none; exact E|apply Ha; exact Hx].
Qed.

Lemma pick_from_none reg ds : pick_from reg ds = None -> forall x, In x ds -> gens_of reg x = [].
Proof.
  induction ds as [|d ds IH]; simpl; [intros _ x []|].
  destruct (zmax (gens_of reg d)) eqn:E; [discriminate|]. intros H x [<-|Hx]; [apply zmax_none; exact E|apply IH; assumption].
Qed.

(* without a configured release: the newest generation of the highest release having any generation *)
Lemma pick_latest reg r g :
  pick reg None = Some (r, g) ->
  In r (map fst reg) /\ In g (gens_of reg r) /\ (forall g', In g' (gens_of reg r) -> (g' <= g)%Z)
  /\ (forall r', In r' (map fst reg) -> gens_of reg r' <> [] -> (r' <= r)%Z).
Proof.
  unfold pick. intros H. destruct (pick_from_spec _ _ _ _ H) as [a [b [Hds [Ha Hg]]]].
  destruct (zmax_spec _ _ Hg) as [Hin Hmax].
  assert (In r (listing (map fst reg))) as Hr by (apply in_rev; rewrite Hds; apply in_or_app; right; left; reflexivity).
  split; [apply listing_in; exact Hr|]. split; [exact Hin|]. split; [exact Hmax|].
  intros r' Hr' Hne. apply listing_in, in_rev in Hr'. rewrite Hds in Hr'.
  apply in_app_or in Hr'. destruct Hr' as [Hr'|[<-|Hr']]; [exfalso; apply Hne, Ha; exact Hr'|lia|].
  (* r' occurs after r in the descending order, i.e. before r in the ascending listing *)
  assert (listing (map fst reg) = rev b ++ r :: rev a) as Hl.
  { rewrite <- (rev_involutive (listing (map fst reg))), Hds, rev_app_distr. simpl. rewrite <- app_assoc. reflexivity. }
  pose proof (listing_asc (map fst reg)) as Hasc.
  assert (In r' (rev b)) as Hb by (apply in_rev in Hr'; exact Hr').
  apply in_split in Hb. destruct Hb as [b1 [b2 Hb]].
  assert (r' < r)%Z; [|lia].
  eapply (ascending_app_lt _ Hasc b1 r' (b2 ++ r :: rev a)); [rewrite Hl, Hb, <- app_assoc; reflexivity|].
  apply in_or_app. right. left. reflexivity.
Qed.

Lemma pick_latest_none reg : pick reg None = None -> forall r, In r (map fst reg) -> gens_of reg r = [].
Proof.
  unfold pick. intros H r Hr. apply (pick_from_none _ _ H). apply in_rev. rewrite rev_involutive. apply listing_in. exact Hr.
Qed.

Lemma pick_configured reg r : 
  (forall g, pick reg (Some r) = Some (r, g) <-> zmax (gens_of reg r) = Some g)
  /\ (pick reg (Some r) = None <-> gens_of reg r = []).
Proof.
  unfold pick. destruct (zmax (gens_of reg r)) as [g0|] eqn:E; split.
  - intros g. split; intros [= ->]; reflexivity.
  - split; [discriminate|]. intros H. rewrite H in E. discriminate.
  - intros g. split; discriminate.
  - split; intros _; [apply zmax_none; exact E|reflexivity].
Qed.

(* ---- statements about whole request histories from any valid variant set -------------------------------- *)
Definition final (ts : list (option Q)) (n : nat) : abstate := snd (run n (AB (init_slots ts) 0)).

Lemma history ts n : valid ts ->
  List.length (abtest ts n) = n /\ inv (final ts n) /\ total (final ts n) = n.
Proof.
  intros Hv. pose proof (run_inv n _ (init_inv ts Hv)) as H. unfold abtest, final.
  destruct (run n (AB (init_slots ts) 0)) as [vs fin]. destruct H as [Hl [Hi [Ht _]]]. simpl in *. auto.
Qed.

Lemma history_upper ts n : valid ts -> Forall (fun s => qn (count s) < target s * qn n + 1) (slots (final ts n)).
Proof. intros Hv. destruct (history ts n Hv) as [_ [[_ _ _ Hu] Ht]]. rewrite Ht in Hu. exact Hu. Qed.

Lemma history_lower ts n l1 s l2 : valid ts -> slots (final ts n) = l1 ++ s :: l2 ->
  target s * qn n - qn (List.length l1 + List.length l2) <= qn (count s).
Proof. intros Hv Hs. destruct (history ts n Hv) as [_ [Hi Ht]]. rewrite <- Ht. apply lower_bound; assumption. Qed.

Lemma history_two ts n a b : valid ts -> slots (final ts n) = [a; b] ->
  (qn (count a) - target a * qn n < 1 /\ target a * qn n - qn (count a) < 1)
  /\ (qn (count b) - target b * qn n < 1 /\ target b * qn n - qn (count b) < 1).
Proof. intros Hv Hs. destruct (history ts n Hv) as [_ [Hi Ht]]. rewrite <- Ht. apply two_variants; assumption. Qed.
