(* Proofs for C06: the join the parser emits vs the join kind's meaning; the emitted operator tables; the result cache. *)
Require Import List Bool ZArith Permutation Lia.
From FV Require Import Model.Dsl Model.DslSem Model.C06 Generated.C06Join Model.C06Impl.
Import ListNotations.

(* ---- inner / left / full: the emitted join is the join kind's meaning, list for list ------------------------------ *)
Lemma impl_join_exact k c l r :
  match k with JInner | JLeft | JFull => true | _ => false end = true -> impl_join k c l r = join k c l r.
Proof.
  unfold impl_join, sql_join. destruct k; intros H; try discriminate H; cbn [flags jf_full jf_outer jf_swap orb join].
  - rewrite !app_nil_r. reflexivity.
  - rewrite app_nil_r. reflexivity.
  - reflexivity.
Qed.

Fixpoint plain_joins (s : source) : bool :=
  match s with
  | STable _ _ => true
  | SRef s' _ => plain_joins s'
  | SJoin k l r _ => match k with JInner | JLeft | JFull => true | _ => false end && plain_joins l && plain_joins r
  | SSet _ l r => plain_joins l && plain_joins r
  | SQuery s' _ _ _ _ _ _ => plain_joins s'
  end.

Theorem impl_eq_spec : forall d s, plain_joins s = true -> den_impl d s = den d s.
Proof.
  intros d. unfold den_impl, den.
  induction s as [t cols|s' IH r|k l IHl r IHr c|sk l IHl r IHr|s' IH sel pre grp post ord rows]; intros H; cbn [den_gen plain_joins] in *.
  - reflexivity.
  - rewrite IH; auto.
  - apply andb_true_iff in H. destruct H as [H Hr]. apply andb_true_iff in H. destruct H as [Hk Hl].
    rewrite IHl, IHr; auto. apply impl_join_exact. exact Hk.
  - apply andb_true_iff in H. destruct H as [Hl Hr]. rewrite IHl, IHr; auto.
  - rewrite IH; auto.
Qed.

(* ---- right join: emitted as a left join of the swapped operands ------------------------------------------------------ *)
Definition keys (e : env) : list (bool * nat) := map fst e.
Definition disjoint (a b : env) : Prop := forall k, In k (keys a) -> ~ In k (keys b).

Lemma key_eqb_true k k' : Bool.eqb (fst k) (fst k') && Nat.eqb (snd k) (snd k') = true <-> k = k'.
Proof.
  destruct k as [b n], k' as [b' n']. cbn [fst snd]. rewrite andb_true_iff, Bool.eqb_true_iff, Nat.eqb_eq.
  split; [intros [-> ->]; reflexivity|intros H; injection H as -> ->; split; reflexivity].
Qed.

Lemma env_get_app_l k a b : In k (keys a) -> env_get k (a ++ b) = env_get k a.
Proof.
  induction a as [|[k' r] a IH]; intros H; [destruct H|]. cbn [app env_get fst snd].
  destruct (Bool.eqb (fst k) (fst k') && Nat.eqb (snd k) (snd k')) eqn:E; [reflexivity|].
  apply IH. destruct H as [H|H]; [|exact H]. cbn [fst] in H. subst k'.
  assert (X : Bool.eqb (fst k) (fst k) && Nat.eqb (snd k) (snd k) = true) by (apply key_eqb_true; reflexivity).
  rewrite X in E. discriminate E.
Qed.

Lemma env_get_app_r k a b : ~ In k (keys a) -> env_get k (a ++ b) = env_get k b.
Proof.
  induction a as [|[k' r] a IH]; intros H; [reflexivity|]. cbn [app env_get fst snd].
  destruct (Bool.eqb (fst k) (fst k') && Nat.eqb (snd k) (snd k')) eqn:E.
  - exfalso. apply H. left. cbn [fst]. symmetry. apply key_eqb_true. exact E.
  - apply IH. intros X. apply H. right. exact X.
Qed.

Lemma in_keys_dec k (a : env) : {In k (keys a)} + {~ In k (keys a)}.
Proof.
  apply in_dec. intros [b n] [b' n']. destruct (Bool.bool_dec b b'), (Nat.eq_dec n n'); subst; auto; right; congruence.
Qed.

Lemma env_get_comm k a b : disjoint a b -> env_get k (a ++ b) = env_get k (b ++ a).
Proof.
  intros D. destruct (in_keys_dec k a) as [Ha|Ha].
  - rewrite (env_get_app_l k a b Ha). rewrite env_get_app_r; [reflexivity|]. intros Hb. exact (D k Ha Hb).
  - rewrite (env_get_app_r k a b Ha). destruct (in_keys_dec k b) as [Hb|Hb].
    + rewrite (env_get_app_l k b a Hb). reflexivity.
    + rewrite (env_get_app_r k b a Hb).
      assert (N : forall e, ~ In k (keys e) -> env_get k e = []).
      { induction e as [|[k' r] e IHe]; intros He; [reflexivity|]. cbn [env_get fst snd].
        destruct (Bool.eqb (fst k) (fst k') && Nat.eqb (snd k) (snd k')) eqn:E.
        - exfalso. apply He. left. cbn [fst]. symmetry. apply key_eqb_true. exact E.
        - apply IHe. intros X. apply He. right. exact X. }
      rewrite (N a Ha), (N b Hb). reflexivity.
Qed.

Lemma feval_comm a b f : disjoint a b -> feval (a ++ b) f = feval (b ++ a) f.
Proof.
  intros D. induction f as [t c k|r c k|v|g IH n|o x IHx y IHy|x IH|fn x IH]; cbn [feval].
  - rewrite (env_get_comm (false, t) a b D). reflexivity.
  - rewrite (env_get_comm (true, r) a b D). reflexivity.
  - reflexivity.
  - exact IH.
  - rewrite IHx, IHy. reflexivity.
  - rewrite IH. reflexivity.
  - reflexivity.
Qed.

Lemma cond_comm c a b : disjoint a b -> cond_holds c (a ++ b) = cond_holds c (b ++ a).
Proof. intros D. destruct c as [p|]; [|reflexivity]. unfold cond_holds, holds. rewrite (feval_comm a b p D). reflexivity. Qed.

Lemma project_comm feats a b : disjoint a b -> project feats (a ++ b) = project feats (b ++ a).
Proof. intros D. unfold project. apply map_ext. intros f. apply feval_comm. exact D. Qed.

Lemma flat_map_app_perm {A B : Type} (f h : A -> list B) (l : list A) :
  Permutation (flat_map (fun y => f y ++ h y) l) (flat_map f l ++ flat_map h l).
Proof.
  induction l as [|y l IH]; cbn [flat_map]; [constructor|].
  rewrite <- !app_assoc. apply Permutation_app_head.
  eapply perm_trans; [apply Permutation_app_head; exact IH|].
  rewrite !app_assoc. apply Permutation_app_tail. apply Permutation_app_comm.
Qed.

Lemma flat_map_swap {A B C : Type} (g : A -> B -> list C) (l : list A) (r : list B) :
  Permutation (flat_map (fun x => flat_map (fun y => g x y) r) l) (flat_map (fun y => flat_map (fun x => g x y) l) r).
Proof.
  induction l as [|x l IH]; cbn [flat_map].
  - induction r as [|y r IHr]; cbn [flat_map]; [constructor|exact IHr].
  - eapply perm_trans; [apply Permutation_app_head; exact IH|].
    apply Permutation_sym. exact (flat_map_app_perm (fun y => g x y) (fun y => flat_map (fun x' => g x' y) l) r).
Qed.

Definition all_disjoint (l r : list env) : Prop := forall a b, In a l -> In b r -> disjoint a b.

Lemma disjoint_sym a b : disjoint a b -> disjoint b a.
Proof. intros D k Hb Ha. exact (D k Ha Hb). Qed.

Lemma map_flat_map {A B C : Type} (f : B -> C) (g : A -> list B) (l : list A) :
  map f (flat_map g l) = flat_map (fun x => map f (g x)) l.
Proof. induction l as [|x l IH]; cbn [flat_map map]; [reflexivity|]. rewrite map_app, IH. reflexivity. Qed.

Lemma flat_map_ext_in {A B : Type} (f g : A -> list B) (l : list A) :
  (forall x, In x l -> f x = g x) -> flat_map f l = flat_map g l.
Proof.
  induction l as [|x l IH]; intros H; cbn [flat_map]; [reflexivity|].
  rewrite (H x (or_introl eq_refl)), IH; [reflexivity|]. intros y Hy. apply H. right. exact Hy.
Qed.

Lemma filter_ext_in' {A : Type} (f g : A -> bool) (l : list A) :
  (forall x, In x l -> f x = g x) -> filter f l = filter g l.
Proof.
  induction l as [|x l IH]; intros H; cbn [filter]; [reflexivity|].
  rewrite (H x (or_introl eq_refl)), IH; [reflexivity|]. intros y Hy. apply H. right. exact Hy.
Qed.

Lemma existsb_ext_in {A : Type} (f g : A -> bool) (l : list A) :
  (forall x, In x l -> f x = g x) -> existsb f l = existsb g l.
Proof.
  induction l as [|x l IH]; intros H; cbn [existsb]; [reflexivity|].
  rewrite (H x (or_introl eq_refl)), IH; [reflexivity|]. intros y Hy. apply H. right. exact Hy.
Qed.

Lemma pairs_swap_projected feats c l r :
  all_disjoint l r ->
  Permutation (map (project feats) (pairs_on c r l)) (map (project feats) (pairs_on c l r)).
Proof.
  intros D. unfold pairs_on. rewrite !map_flat_map.
  eapply perm_trans.
  2: { apply Permutation_sym.
       erewrite flat_map_ext_in; [|intros el Hel; rewrite map_flat_map; reflexivity].
       apply flat_map_swap. }
  erewrite flat_map_ext_in; [apply Permutation_refl|].
  intros er Her. cbn beta. rewrite map_flat_map. apply flat_map_ext_in. intros el Hel.
  pose proof (D el er Hel Her) as Dis.
  rewrite (cond_comm c er el (disjoint_sym _ _ Dis)).
  destruct (cond_holds c (el ++ er)); cbn [map]; [|reflexivity].
  rewrite (project_comm feats er el (disjoint_sym _ _ Dis)). reflexivity.
Qed.

Lemma unmatched_swap c l r : all_disjoint l r -> unmatched_l c r l = unmatched_r c l r.
Proof.
  intros D. unfold unmatched_l, unmatched_r. apply filter_ext_in'. intros er Her. f_equal.
  apply existsb_ext_in. intros el Hel. apply cond_comm. apply disjoint_sym. exact (D el er Hel Her).
Qed.

(* whatever a query projects, the emitted (swapped left) join yields the rows of the right join, up to their order *)
Theorem right_join_emitted feats c l r :
  all_disjoint l r ->
  Permutation (map (project feats) (impl_join JRight c l r)) (map (project feats) (join JRight c l r)).
Proof.
  intros D. unfold impl_join, sql_join. cbn [flags jf_full jf_outer jf_swap orb join].
  rewrite app_nil_r, !map_app. rewrite (unmatched_swap c l r D).
  apply Permutation_app_tail. apply pairs_swap_projected. exact D.
Qed.

(* ---- cross join: emitted as FULL OUTER JOIN ON true ------------------------------------------------------------------- *)
Lemma existsb_true_nonempty {A : Type} (l : list A) : l <> [] -> existsb (fun _ => true) l = true.
Proof. destruct l; [congruence|reflexivity]. Qed.
Lemma filter_false {A : Type} (l : list A) : filter (fun _ => false) l = [].
Proof. induction l; cbn [filter]; auto. Qed.

Lemma unmatched_l_none l r : r <> [] -> unmatched_l None l r = [].
Proof.
  intros Hr. unfold unmatched_l. rewrite (filter_ext_in' _ (fun _ => false)); [apply filter_false|].
  intros el _. unfold cond_holds. destruct r; [congruence|reflexivity].
Qed.
Lemma unmatched_r_none l r : l <> [] -> unmatched_r None l r = [].
Proof.
  intros Hl. unfold unmatched_r. rewrite (filter_ext_in' _ (fun _ => false)); [apply filter_false|].
  intros er _. unfold cond_holds. destruct l; [congruence|reflexivity].
Qed.

Theorem cross_join_emitted_nonempty l r : l <> [] -> r <> [] -> impl_join JCross None l r = join JCross None l r.
Proof.
  intros Hl Hr. unfold impl_join, sql_join. cbn [flags jf_full jf_outer jf_swap orb join].
  rewrite (unmatched_l_none l r Hr), (unmatched_r_none l r Hl), !app_nil_r. reflexivity.
Qed.

Lemma cross_join_emitted_wrong :
  impl_join JCross None [[((false, 0), [(0, VInt 1)])]] [] <> join JCross None [[((false, 0), [(0, VInt 1)])]] [].
Proof. vm_compute. intros H. discriminate H. Qed.

(* ---- emitted operators -------------------------------------------------------------------------------------------------- *)
Lemma emitted_tables_faithful :
  (forall o, emitted_op o = o) /\ (forall a, emitted_agg a = a) /\ (forall k, emitted_set k = k)
  /\ (forall b, emitted_direction b = b) /\ emitted_not_is_sql_not = true.
Proof.
  repeat split.
  - intros o; destruct o; reflexivity.
  - intros a; destruct a; reflexivity.
  - intros k; destruct k as [|[|[|k]]]; reflexivity.
  - intros b; destruct b; reflexivity.
Qed.

(* ---- result cache ------------------------------------------------------------------------------------------------------- *)
Section CacheProofs.
  Variable stmt content answer : Type.
  Variable stmt_eqb : stmt -> stmt -> bool.
  Variable exec : content -> stmt -> answer.
  Hypothesis stmt_eqb_eq : forall a b, stmt_eqb a b = true -> a = b.
  Variable default : content.

  Notation step := (step stmt stmt_eqb content answer exec default).
  Notation run := (run stmt stmt_eqb content answer exec default).

  (* a cached text is answered without consulting any storage - whichever connection asks *)
  Lemma hit_ignores_storage st conn conn' s a :
    cache_get stmt stmt_eqb answer s (st_cache stmt content answer st) = Some a ->
    snd (step st (Read stmt content conn s)) = Some a /\ snd (step st (Read stmt content conn' s)) = Some a.
  Proof. intros H. cbn [C06.step]. rewrite H. split; reflexivity. Qed.

  Definition only_reads_of (conn : nat) (ops : list (op stmt content)) : Prop :=
    forall o, In o ops -> exists s, o = Read stmt content conn s.
  Definition cache_fresh (conn : nat) (st : state stmt content answer) : Prop :=
    forall s a, cache_get stmt stmt_eqb answer s (st_cache stmt content answer st) = Some a ->
                a = exec (st_get content conn default (st_storages stmt content answer st)) s.

  Lemma cache_get_cons s k a m :
    cache_get stmt stmt_eqb answer s ((k, a) :: m) = if stmt_eqb s k then Some a else cache_get stmt stmt_eqb answer s m.
  Proof. reflexivity. Qed.

  (* without mutations and with a single connection every read returns what the statement denotes over the storage *)
  Lemma reads_correct_when_nothing_changes conn :
    forall ops st, only_reads_of conn ops -> cache_fresh conn st ->
      forall a, In a (snd (run st ops)) ->
        exists s, a = Some (exec (st_get content conn default (st_storages stmt content answer st)) s).
  Proof.
    induction ops as [|o ops IH]; intros st Hops Hinv a Ha; cbn [C06.run] in Ha; [destruct Ha|].
    destruct (Hops o (or_introl eq_refl)) as [s ->].
    destruct (step st (Read stmt content conn s)) as [st' a0] eqn:E.
    destruct (run st' ops) as [st'' l] eqn:R. cbn [snd] in Ha.
    cbn [C06.step] in E.
    destruct (cache_get stmt stmt_eqb answer s (st_cache stmt content answer st)) as [c|] eqn:G.
    - injection E as <- <-. destruct Ha as [<-|Ha].
      + exists s. rewrite (Hinv s c G). reflexivity.
      + apply (IH st); [intros o Ho; apply Hops; right; exact Ho|exact Hinv|]. rewrite R. exact Ha.
    - injection E as <- <-. destruct Ha as [<-|Ha].
      + exists s. reflexivity.
      + match type of R with C06.run _ _ _ _ _ _ ?S _ = _ => assert (Hinv' : cache_fresh conn S) end.
        { intros s' a' H'. cbn [st_cache st_storages] in *. rewrite cache_get_cons in H'.
          destruct (stmt_eqb s' s) eqn:Eq; [injection H' as <-; rewrite (stmt_eqb_eq _ _ Eq); reflexivity|exact (Hinv s' a' H')]. }
        match type of R with C06.run _ _ _ _ _ _ ?S _ = _ =>
          destruct (IH S (fun o Ho => Hops o (or_intror Ho)) Hinv' a) as [s' Hs'] end.
        * rewrite R. exact Ha.
        * exists s'. exact Hs'.
  Qed.
End CacheProofs.

(* FALSE in general: after the storage changed (or through another connection) a read returns the remembered answer *)
Definition toy_exec (c s : nat) : nat := c + s.
Lemma stale_after_mutation :
  let ops := [Read nat nat 0 5; Mutate nat nat 0 100; Read nat nat 0 5] in
  snd (run nat Nat.eqb nat nat toy_exec 1 {| st_storages := []; st_cache := [] |} ops) = [Some 6; None; Some 6]
  /\ toy_exec 100 5 <> 6.
Proof. split; [vm_compute; reflexivity|vm_compute; lia]. Qed.
Lemma foreign_connection :
  let ops := [Mutate nat nat 0 10; Mutate nat nat 1 20; Read nat nat 0 5; Read nat nat 1 5] in
  snd (run nat Nat.eqb nat nat toy_exec 1 {| st_storages := []; st_cache := [] |} ops) = [None; None; Some 15; Some 15]
  /\ toy_exec 20 5 <> 15.
Proof. split; [vm_compute; reflexivity|vm_compute; lia]. Qed.
