(* C04 + C03 + C01: re-training through the compiler - compiled with the accessor that holds a full previous generation, for
   every expression and visiting order the table's committer evaluates to the list the lifecycle model's re-training persists. *)
Require Import List Bool ZArith Arith Lia.
From FV Require Import Lib.Sym Model.C01 Model.C01Compile Proofs.C01 Proofs.C01Compile Proofs.C01Blocks Proofs.C01Inv Proofs.C01Canon Proofs.C01Main
                       Model.C03 Model.C03Graph Model.C04 Proofs.C03GraphEval Proofs.C03GraphWf Proofs.C03GraphPers Proofs.C03GraphCommit
                       Proofs.C03GraphApply Proofs.C04Graph Proofs.C04GraphTrain Proofs.C04GraphTrainPers.
Import ListNotations.

Section Retrain.
Variable e : expr.
Variables sa st sl : nat.
Variable prev : list term.
Let gs := build e (gsource sa st sl).
Let nodes := gnodes gs.
Let gids := pers_gids e (gsource sa st sl).
Let L := combine gids prev.
Hypothesis Hfull : List.length prev = List.length gids.      (* a complete previous generation *)

Lemma L_keys : map fst L = gids.
Proof. unfold L. apply map_fst_combine. symmetry. exact Hfull. Qed.

Lemma gids_nodup : NoDup gids.
Proof. apply (pers_nodup e (source sa st sl) (gsource sa st sl) [] (agree_source sa st sl)); [split; [reflexivity|intros g []]|constructor]. Qed.

Lemma retrain_wf : WF (Some L) nodes.
Proof.
  destruct (build_ginv e _ (ginv_source sa st sl)) as [[P1 P2 P3 P4] _]. constructor.
  - intros j nd q ip Hn Hq. destruct (P1 j nd q ip Hn Hq) as [X [ndi Y]]. split; [exact X|exists ndi; exact Y].
  - exact P2.
  - exact P3.
  - intros l' E. injection E as <-. rewrite L_keys. exact gids_nodup.
Qed.

Theorem retrain_commits visit : NoDup visit -> (forall i, In i visit -> i < List.length nodes) -> List.length visit = List.length nodes ->
  exists tb, bind (compile (Some L) nodes visit) canon = Some tb
    /\ (gids <> [] -> exists c, find_pos (fun sy => match fst sy with OCommitter => true | _ => false end) tb = Some c
          /\ forall fuel, 2 * List.length nodes + 4 <= fuel ->
               eval fuel (Some L) nodes tb c = Some (TTup (persisted (train_run prev (flatten e) (source sa st sl))))).
Proof.
  intros Hnd Hlt Hlen. pose proof retrain_wf as wf.
  destruct (build_ginv e _ (ginv_source sa st sl)) as [Hw _]. fold gs in Hw. fold nodes in Hw.
  assert (Hc : compile_ok (Some L) nodes visit = true).
  { apply compile_correct_prop; [exact wf| | |exact Hnd|exact Hlt|exact Hlen].
    - intros i nd k ndk Hn Hk Htr _ Htk Hg. exact (g_first _ Hw i nd k ndk Hn Hk Htr Htk Hg).
    - intros l' E. injection E as <-. left. intros gt Hgt. apply (gids_trained e sa st sl). fold gids. rewrite <- L_keys. apply in_map. exact Hgt. }
  unfold compile_ok in Hc. destruct (bind (compile (Some L) nodes visit) canon) as [tb|]; [|discriminate].
  apply andb_prop in Hc. destruct Hc as [Hv Hcm]. exists tb. split; [reflexivity|]. intros Hne.
  assert (Hcs : commit_states (Some L) nodes L = persisted (train_run prev (flatten e) (source sa st sl))).
  { transitivity (map (state_of' L nodes) (map fst L)).
    - unfold commit_states. rewrite map_map. reflexivity.
    - rewrite L_keys. exact (train_graph_persisted e sa st sl prev). }
  destruct (find_pos (fun sy => match fst sy with OCommitter => true | _ => false end) tb) as [c|] eqn:Ef.
  - exists c. split; [reflexivity|]. intros fuel Hf. rewrite <- Hcs. exact (commit_sound (Some L) nodes tb L c eq_refl Hv Hcm Ef fuel Hf).
  - exfalso. unfold valid_commit in Hcm. rewrite Ef in Hcm. apply negb_true_iff in Hcm.
    assert (Hex : exists g, In g gids) by (destruct gids as [|g gr]; [contradiction|exists g; left; reflexivity]).
    destruct Hex as [g Hg]. destruct (gids_trained e sa st sl g Hg) as [k [ndk [Hnk [Htk Hgk]]]].
    assert (X : existsb (fun n => is_train n && persistent (Some L) (ngid n)) nodes = true).
    { apply existsb_exists. exists ndk. split; [exact (nth_error_In _ _ Hnk)|]. rewrite Htk, Hgk. simpl.
      apply persistent_in. rewrite L_keys. exact Hg. }
    congruence.
Qed.
End Retrain.
