(* C12 - fold wiring facts for any number of folds. *)
Require Import List Bool ZArith Lia.
From FV Require Import Lib.Sym Model.C03 Model.C12.
Import ListNotations.

Lemma nth_error_seq0 n : forall s i, i < n -> nth_error (seq s n) i = Some (s + i).
Proof.
  induction n as [|n IH]; intros s i H; [lia|]. destruct i as [|i]; simpl; [f_equal; lia|].
  rewrite IH by lia. f_equal. lia.
Qed.

Lemma nth_error_seq_map {A} (f : nat -> A) n i : i < n -> nth_error (map f (seq 0 n)) i = Some (f i).
Proof. intros H. apply (map_nth_error f i (seq 0 n)). rewrite nth_error_seq0 by exact H. reflexivity. Qed.

Section FoldFacts.
  Variable nm : names.
  Variable X Y : term.

  Lemma outcomes_length e n : List.length (outcomes nm X Y e n) = n.
  Proof. unfold outcomes. rewrite map_length, seq_length. reflexivity. Qed.

  (* fold i contributes exactly one pair, at position i: the true outcomes of ITS held-out part paired with the
     prediction of a pipeline instance trained only on ITS training part and applied to ITS held-out features *)
  Lemma outcomes_nth e n i : i < n ->
    nth_error (outcomes nm X Y e n) i
    = Some (TProj (2 * i + 1) (lsplit nm X Y),
            xa (den e (FlowSt (TProj (2 * i + 1) (fsplit nm X Y)) (TProj (2 * i) (fsplit nm X Y)) (TProj (2 * i) (lsplit nm X Y)) []))).
  Proof.
    intros Hi. unfold outcomes. rewrite nth_error_seq_map by exact Hi. reflexivity.
  Qed.

  (* features and labels are split by the same fitted splitter state *)
  Lemma same_split_state : exists st, fsplit nm X Y = TApp (nsplit nm) 0 st [X] /\ lsplit nm X Y = TApp (nsplit nm) 0 st [Y].
  Proof. exists (split_state nm X Y). split; reflexivity. Qed.

  (* train and test parts of a fold are different output ports of the splitter; parts of different folds never coincide *)
  Lemma parts_distinct i j : (2 * i <> 2 * j + 1) /\ (i <> j -> 2 * i <> 2 * j /\ 2 * i + 1 <> 2 * j + 1).
  Proof. lia. Qed.
End FoldFacts.

(* stacking: per base model, the fold-ordered stack of base instances trained on fold i's train part and applied to fold
   i's held-out part; in apply mode all fold instances of each base are combined on the same input *)
Lemma stack_train_shape nm X Y scope bases n :
  stack_train nm X Y scope bases n
  = TApp (nappend nm) 0 TNone
      (map (fun b => TApp (nstack nm) 0 TNone (map (fun i => base_on nm X Y scope b i (TProj (2 * i + 1) (fsplit nm X Y))) (seq 0 n))) bases).
Proof. reflexivity. Qed.

Lemma stack_apply_same_input nm X Y XA scope bases n b i :
  In b bases -> i < n ->
  nth_error (map (fun i => base_on nm X Y scope b i XA) (seq 0 n)) i = Some (base_on nm X Y scope b i XA).
Proof. intros _ Hi. apply (nth_error_seq_map (fun i0 => base_on nm X Y scope b i0 XA) n i Hi). Qed.

Lemma stack_labels_order nm X Y n i : i < n ->
  nth_error (map (test_labels nm X Y) (seq 0 n)) i = Some (TProj (2 * i + 1) (lsplit nm X Y)).
Proof. intros Hi. apply (nth_error_seq_map (test_labels nm X Y) n i Hi). Qed.
