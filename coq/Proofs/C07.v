(* C07 - the acceptance condition of each statement form, rule by rule. *)
Require Import List Bool ZArith.
From FV Require Import Model.Dsl Model.C07.
Import ListNotations.

Lemma query_rules src sel pre grp post ord rows :
  ok_source (SQuery src sel pre grp post ord rows) = true <->
  ( ok_source src = true
    /\ (forall f, In f sel -> constructible f = true /\ uses_only (source_elements src) f = true)
    /\ (forall p, pre = Some p -> is_predicate p = true /\ uses_only (source_elements src) p = true /\ has_agg p = false)
    /\ (forall g, In g grp -> constructible g = true /\ has_agg g = false /\ uses_only (source_elements src) g = true)
    /\ grouping_rule (match sel with [] => features_of src | _ => sel end) grp = true
    /\ (forall p, post = Some p -> is_predicate p = true /\ uses_only (source_elements src) p = true)
    /\ (forall o, In o ord -> constructible (fst o) = true /\ uses_only (source_elements src) (fst o) = true) ).
Proof.
  cbn [ok_source]. rewrite !andb_true_iff, !forallb_forall. split.
  - intros [[[[[[H1 H2] H3] H4] H5] H6] H7]. repeat split; auto.
    + apply H2 in H. apply andb_true_iff in H. tauto.
    + apply H2 in H. apply andb_true_iff in H. tauto.
    + subst. apply andb_true_iff in H3. destruct H3 as [H3 _]. apply andb_true_iff in H3. tauto.
    + subst. apply andb_true_iff in H3. destruct H3 as [H3 _]. apply andb_true_iff in H3. tauto.
    + subst. apply andb_true_iff in H3. destruct H3 as [_ H3]. apply negb_true_iff in H3. exact H3.
    + apply H4 in H. rewrite !andb_true_iff in H. tauto.
    + apply H4 in H. rewrite !andb_true_iff, negb_true_iff in H. tauto.
    + apply H4 in H. rewrite !andb_true_iff in H. tauto.
    + subst. apply andb_true_iff in H6. tauto.
    + subst. apply andb_true_iff in H6. tauto.
    + apply H7 in H. apply andb_true_iff in H. tauto.
    + apply H7 in H. apply andb_true_iff in H. tauto.
  - intros [H1 [H2 [H3 [H4 [H5 [H6 H7]]]]]]. repeat split; auto.
    + intros f Hf. destruct (H2 f Hf) as [A B]. rewrite A, B. reflexivity.
    + destruct pre as [p|]; [|reflexivity]. destruct (H3 p eq_refl) as [A [B C]]. rewrite A, B, C. reflexivity.
    + intros g Hg. destruct (H4 g Hg) as [A [B C]]. rewrite A, B, C. reflexivity.
    + destruct post as [p|]; [|reflexivity]. destruct (H6 p eq_refl) as [A B]. rewrite A, B. reflexivity.
    + intros o Ho. destruct (H7 o Ho) as [A B]. rewrite A, B. reflexivity.
Qed.

Lemma join_rules k l r cond :
  ok_source (SJoin k l r cond) = true <->
  ( ok_source l = true /\ ok_source r = true
    /\ match k, cond with
       | JCross, None => True
       | JCross, Some _ => False
       | _, None => False
       | _, Some c => is_predicate c = true /\ has_agg c = false
                      /\ uses_only (flat_map elements (features_of l ++ features_of r)) c = true
       end ).
Proof.
  cbn [ok_source]. rewrite !andb_true_iff. split.
  - intros [[H1 H2] H3]. repeat split; auto. destruct k, cond as [c|]; try exact I; try discriminate;
      rewrite !andb_true_iff, negb_true_iff in H3; tauto.
  - intros [H1 [H2 H3]]. repeat split; auto. destruct k, cond as [c|]; try reflexivity; try contradiction;
      destruct H3 as [A [B C]]; rewrite A, B, C; reflexivity.
Qed.

Lemma set_rules sk l r :
  ok_source (SSet sk l r) = true <-> (ok_source l = true /\ ok_source r = true /\ schema_eqb (schema_of l) (schema_of r) = true).
Proof. cbn [ok_source]. rewrite !andb_true_iff. tauto. Qed.

(* the grouping rule: with grouping, every selected feature outside the grouping contains an aggregate *)
Lemma grouping_rule_spec selected grp : grp <> [] ->
  (grouping_rule selected grp = true <->
   forall f, In f selected -> fmem (operable f) (map operable grp) = true \/ has_agg f = true).
Proof.
  intros H. unfold grouping_rule. destruct grp as [|g r]; [congruence|]. rewrite forallb_forall.
  split; intros A f Hf; specialize (A f Hf); [apply orb_true_iff in A|apply orb_true_iff]; exact A.
Qed.

(* operand kinds: what makes a comparison / arithmetic / logical expression constructible *)
Lemma bin_constructible o a b :
  constructible (FBin o a b) = true <->
  exists ka kb, fkind a = Some ka /\ fkind b = Some kb
    /\ (if is_arith o then is_numeric ka = true /\ is_numeric kb = true
        else if is_cmp o then (is_numeric ka = true /\ is_numeric kb = true) \/ kind_eqb ka kb = true
        else ka = KBool /\ kb = KBool).
Proof.
  unfold constructible. cbn [fkind]. destruct (fkind a) as [ka|], (fkind b) as [kb|]; try (split; [discriminate|intros [? [? [? [? _]]]]; discriminate]).
  split.
  - intros H. exists ka, kb. repeat split; auto.
    destruct (is_arith o).
    + destruct (is_numeric ka && is_numeric kb) eqn:E; [apply andb_true_iff in E; exact E|discriminate].
    + destruct (is_cmp o).
      * destruct ((is_numeric ka && is_numeric kb) || kind_eqb ka kb) eqn:E; [|discriminate].
        apply orb_true_iff in E. destruct E as [E|E]; [left; apply andb_true_iff in E; exact E|right; exact E].
      * destruct ka, kb; simpl in H; try discriminate; split; reflexivity.
  - intros [ka' [kb' [Ha [Hb H]]]]. injection Ha as <-. injection Hb as <-.
    destruct (is_arith o); [destruct H as [A B]; rewrite A, B; reflexivity|].
    destruct (is_cmp o).
    + destruct H as [[A B]|A]; [rewrite A, B; reflexivity|rewrite A, orb_true_r; reflexivity].
    + destruct H as [-> ->]. reflexivity.
Qed.
