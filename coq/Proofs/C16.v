(* C16 proofs: for every schedule, whatever a caller receives is what the specification says (no crossing, no duplicate). *)
Require Import List Bool ZArith Lia Permutation.
From FV Require Import Model.C16.
Import ListNotations.

Section Proofs.
  Variable reqs : nat -> request.
  Variable inst_of : nat -> option nat.
  Variable F : nat -> Z -> Z.
  Variable workers : nat.

  Notation step := (step reqs inst_of F workers).
  Notation run := (run reqs inst_of F workers).
  Notation expected := (expected reqs inst_of F).
  Notation entry_of := (entry_of reqs).
  Notation compute := (compute F).

  Definition tokens (e : exec) : list nat := map fst (tasks e) ++ map fst (inwork e) ++ map fst (results e).

  Record Inv (st : state) : Prop := {
    inv_ext : forall r i, phases st r = Extracted i -> inst_of (r_app (reqs r)) = Some i /\ r_badenc (reqs r) = false;
    inv_wait : forall r i id, phases st r = Waiting i id -> inst_of (r_app (reqs r)) = Some i /\ r_badenc (reqs r) = false;
    inv_comp : forall r i v, phases st r = Computed i v -> expected r = (if r_badaccept (reqs r) then Err EEncoding else Ok i v);
    inv_done : forall r a, phases st r = Done a -> a = expected r;
    inv_pend : forall i id r, In (id, r) (pending (execs st i)) -> id < next (execs st i) /\ phases st r = Waiting i id;
    inv_task : forall i id e, In (id, e) (tasks (execs st i) ++ inwork (execs st i)) ->
                 exists r, lookup id (pending (execs st i)) = Some r /\ e = entry_of r;
    inv_res : forall i id o, In (id, o) (results (execs st i)) ->
                 exists r, lookup id (pending (execs st i)) = Some r /\ o = compute i (entry_of r);
    inv_nodup : forall i, NoDup (tokens (execs st i))
  }.

  (* ---- small facts ---- *)
  Lemma upd_same {A} (f : nat -> A) k v : upd f k v k = v.
  Proof. unfold upd. rewrite Nat.eqb_refl. reflexivity. Qed.
  Lemma upd_other {A} (f : nat -> A) k v x : x <> k -> upd f k v x = f x.
  Proof. intros H. unfold upd. destruct (Nat.eqb x k) eqn:E; [apply Nat.eqb_eq in E; contradiction|reflexivity]. Qed.

  Lemma lookup_In id p r : lookup id p = Some r -> In (id, r) p.
  Proof.
    induction p as [|[k x] p IH]; cbn [lookup]; intros H; [discriminate|].
    destruct (Nat.eqb id k) eqn:E; [apply Nat.eqb_eq in E; injection H as <-; subst; left; reflexivity|right; auto].
  Qed.
  Lemma lookup_drop_other id id' p : id' <> id -> lookup id' (drop id p) = lookup id' p.
  Proof.
    intros H. induction p as [|[k x] p IH]; [reflexivity|]. cbn [drop filter fst lookup].
    destruct (Nat.eqb id k) eqn:E; cbn [negb lookup].
    - apply Nat.eqb_eq in E. subst k. destruct (Nat.eqb id' id) eqn:E'; [apply Nat.eqb_eq in E'; contradiction|exact IH].
    - destruct (Nat.eqb id' k); [reflexivity|exact IH].
  Qed.
  Lemma In_drop id id' r p : In (id', r) (drop id p) -> In (id', r) p /\ id' <> id.
  Proof.
    unfold drop. intros H. apply filter_In in H. destruct H as [H E]. split; [exact H|].
    cbn [fst] in E. intros ->. rewrite Nat.eqb_refl in E. discriminate E.
  Qed.
  Lemma In_remove_nth {A} n (l : list A) x : In x (remove_nth n l) -> In x l.
  Proof.
    revert n. induction l as [|y l IH]; intros n H; [destruct n; exact H|].
    destruct n; cbn [remove_nth] in H; [right; exact H|]. destruct H as [<-|H]; [left; reflexivity|right; eauto].
  Qed.
  Lemma nth_error_perm {A} n (l : list A) x : nth_error l n = Some x -> Permutation l (x :: remove_nth n l).
  Proof.
    revert n. induction l as [|y l IH]; intros n H; [destruct n; discriminate H|].
    destruct n; cbn [nth_error remove_nth] in *; [injection H as <-; apply Permutation_refl|].
    eapply perm_trans; [apply perm_skip; exact (IH n H)|apply perm_swap].
  Qed.
  Lemma in_map_fst {B} (id : nat) (l : list (nat * B)) : In id (map fst l) -> exists b, In (id, b) l.
  Proof. intros H. apply in_map_iff in H. destruct H as [[k b] [E H]]. cbn [fst] in E. subst. eauto. Qed.

  (* every token id is below the executor's counter *)
  Lemma token_lt st i id : Inv st -> In id (tokens (execs st i)) -> id < next (execs st i).
  Proof.
    intros I H. unfold tokens in H. rewrite app_assoc, <- map_app in H. apply in_app_or in H. destruct H as [H|H].
    - apply in_map_fst in H. destruct H as [e H]. destruct (inv_task st I i id e H) as [r [L _]].
      exact (proj1 (inv_pend st I i id r (lookup_In _ _ _ L))).
    - apply in_map_fst in H. destruct H as [o H]. destruct (inv_res st I i id o H) as [r [L _]].
      exact (proj1 (inv_pend st I i id r (lookup_In _ _ _ L))).
  Qed.

  Lemma inv_init : Inv (init).
  Proof.
    constructor; cbn [init phases execs exec0 pending tasks inwork results tokens map app]; intros; try discriminate; try contradiction.
    constructor.
  Qed.

  Ltac phase_cases st r x :=
    destruct (Nat.eq_dec x r) as [->|?]; [rewrite ?upd_same in *|rewrite ?upd_other in * by assumption].

  (* ---- preservation ---- *)
  Lemma step_extract st r st' : Inv st -> step st (AExtract r) = Some st' -> Inv st'.
  Proof.
    intros I H. cbn [C16.step] in H. destruct (phases st r) eqn:P; try discriminate H. injection H as <-.
    constructor; cbn [phases execs].
    - intros x i Hx. phase_cases st r x; [|exact (inv_ext st I x i Hx)].
      destruct (inst_of (r_app (reqs r))) as [j|]; [|discriminate Hx]. destruct (r_badenc (reqs r)) eqn:B; [discriminate Hx|].
      injection Hx as <-. split; reflexivity.
    - intros x i id Hx. phase_cases st r x; [|exact (inv_wait st I x i id Hx)].
      destruct (inst_of (r_app (reqs r))); [destruct (r_badenc (reqs r))|]; discriminate Hx.
    - intros x i v Hx. phase_cases st r x; [|exact (inv_comp st I x i v Hx)].
      destruct (inst_of (r_app (reqs r))); [destruct (r_badenc (reqs r))|]; discriminate Hx.
    - intros x a Hx. phase_cases st r x; [|exact (inv_done st I x a Hx)].
      unfold C16.expected. destruct (inst_of (r_app (reqs r))); [destruct (r_badenc (reqs r))|]; try discriminate Hx; injection Hx as <-; reflexivity.
    - intros i id x Hx. destruct (inv_pend st I i id x Hx) as [L W]. split; [exact L|].
      phase_cases st r x; [rewrite P in W; discriminate W|exact W].
    - exact (inv_task st I).
    - exact (inv_res st I).
    - exact (inv_nodup st I).
  Qed.

  Lemma step_respond st r st' : Inv st -> step st (ARespond r) = Some st' -> Inv st'.
  Proof.
    intros I H. cbn [C16.step] in H. destruct (phases st r) as [| | |i0 v0|] eqn:P; try discriminate H. injection H as <-.
    constructor; cbn [phases execs].
    - intros x i Hx. phase_cases st r x; [discriminate Hx|exact (inv_ext st I x i Hx)].
    - intros x i id Hx. phase_cases st r x; [discriminate Hx|exact (inv_wait st I x i id Hx)].
    - intros x i v Hx. phase_cases st r x; [discriminate Hx|exact (inv_comp st I x i v Hx)].
    - intros x a Hx. phase_cases st r x; [|exact (inv_done st I x a Hx)]. injection Hx as <-. symmetry. exact (inv_comp st I r i0 v0 P).
    - intros i id x Hx. destruct (inv_pend st I i id x Hx) as [L W]. split; [exact L|].
      phase_cases st r x; [rewrite P in W; discriminate W|exact W].
    - exact (inv_task st I).
    - exact (inv_res st I).
    - exact (inv_nodup st I).
  Qed.

  Lemma step_submit st r st' : Inv st -> step st (ASubmit r) = Some st' -> Inv st'.
  Proof.
    intros I H. cbn [C16.step] in H. destruct (phases st r) as [|i0| | |] eqn:P; try discriminate H. injection H as <-.
    set (e := execs st i0).
    constructor; cbn [phases execs].
    - intros x i Hx. phase_cases st r x; [discriminate Hx|exact (inv_ext st I x i Hx)].
    - intros x i id Hx. phase_cases st r x; [|exact (inv_wait st I x i id Hx)]. injection Hx as <- <-. exact (inv_ext st I r i0 P).
    - intros x i v Hx. phase_cases st r x; [discriminate Hx|exact (inv_comp st I x i v Hx)].
    - intros x a Hx. phase_cases st r x; [discriminate Hx|exact (inv_done st I x a Hx)].
    - intros i id x Hx. destruct (Nat.eq_dec i i0) as [->|Ni].
      + rewrite upd_same in *. cbn [pending next] in *. destruct Hx as [Hx|Hx].
        * injection Hx as <- <-. split; [lia|]. rewrite upd_same. reflexivity.
        * destruct (inv_pend st I i0 id x Hx) as [L W]. split; [fold e in L; lia|].
          phase_cases st r x; [rewrite P in W; discriminate W|exact W].
      + rewrite upd_other in * by assumption. destruct (inv_pend st I i id x Hx) as [L W]. split; [exact L|].
        phase_cases st r x; [rewrite P in W; discriminate W|exact W].
    - intros i id en Hx. destruct (Nat.eq_dec i i0) as [->|Ni]; [|rewrite upd_other in * by assumption; exact (inv_task st I i id en Hx)].
      rewrite upd_same in *. cbn [tasks inwork pending lookup] in *.
      rewrite <- app_assoc in Hx. apply in_app_or in Hx. destruct Hx as [Hx|Hx]; [|cbn [app] in Hx; destruct Hx as [Hx|Hx]].
      * destruct (inv_task st I i0 id en (in_or_app _ _ _ (or_introl Hx))) as [x [L E]]. exists x. split; [|exact E].
        pose proof (proj1 (inv_pend st I i0 id x (lookup_In _ _ _ L))) as Lt. fold e in Lt.
        destruct (Nat.eqb id (next e)) eqn:Eq; [apply Nat.eqb_eq in Eq; lia|exact L].
      * injection Hx as <- <-. exists r. rewrite Nat.eqb_refl. split; reflexivity.
      * destruct (inv_task st I i0 id en (in_or_app _ _ _ (or_intror Hx))) as [x [L E]]. exists x. split; [|exact E].
        pose proof (proj1 (inv_pend st I i0 id x (lookup_In _ _ _ L))) as Lt. fold e in Lt.
        destruct (Nat.eqb id (next e)) eqn:Eq; [apply Nat.eqb_eq in Eq; lia|exact L].
    - intros i id o Hx. destruct (Nat.eq_dec i i0) as [->|Ni]; [|rewrite upd_other in * by assumption; exact (inv_res st I i id o Hx)].
      rewrite upd_same in *. cbn [results pending lookup] in *.
      destruct (inv_res st I i0 id o Hx) as [x [L E]]. exists x. split; [|exact E].
      pose proof (proj1 (inv_pend st I i0 id x (lookup_In _ _ _ L))) as Lt. fold e in Lt.
      destruct (Nat.eqb id (next e)) eqn:Eq; [apply Nat.eqb_eq in Eq; lia|exact L].
    - intros i. destruct (Nat.eq_dec i i0) as [->|Ni]; [|rewrite upd_other by assumption; exact (inv_nodup st I i)].
      rewrite upd_same. unfold tokens. cbn [tasks inwork results]. rewrite map_app. cbn [map fst].
      apply (Permutation_NoDup (l := next e :: tokens e)).
      + unfold tokens. rewrite <- app_assoc. cbn [app]. apply Permutation_middle.
      + constructor; [|exact (inv_nodup st I i0)]. intros Hin. pose proof (token_lt st i0 (next e) I Hin). fold e in H. lia.
  Qed.

  Lemma step_take st i st' : Inv st -> step st (ATake i) = Some st' -> Inv st'.
  Proof.
    intros I H. cbn [C16.step] in H. destruct (tasks (execs st i)) as [|t rest] eqn:T; [discriminate H|].
    destruct (Nat.ltb _ _); [|discriminate H]. injection H as <-.
    constructor; cbn [phases execs]; try exact (inv_ext st I); try exact (inv_wait st I); try exact (inv_comp st I); try exact (inv_done st I).
    - intros j id x Hx. destruct (Nat.eq_dec j i) as [->|Nj]; [rewrite upd_same in *|rewrite upd_other in * by assumption]; exact (inv_pend st I _ id x Hx).
    - intros j id en Hx. destruct (Nat.eq_dec j i) as [->|Nj]; [|rewrite upd_other in * by assumption; exact (inv_task st I j id en Hx)].
      rewrite upd_same in *. cbn [tasks inwork pending] in *. apply (inv_task st I i id en). rewrite T.
      apply in_app_or in Hx. destruct Hx as [Hx|[Hx|Hx]]; [right; apply in_or_app; left; exact Hx|left; exact Hx|right; apply in_or_app; right; exact Hx].
    - intros j id o Hx. destruct (Nat.eq_dec j i) as [->|Nj]; [rewrite upd_same in *|rewrite upd_other in * by assumption]; exact (inv_res st I _ id o Hx).
    - intros j. destruct (Nat.eq_dec j i) as [->|Nj]; [|rewrite upd_other by assumption; exact (inv_nodup st I j)].
      rewrite upd_same. pose proof (inv_nodup st I i) as N. unfold tokens in *. rewrite T in N. cbn [tasks inwork results map fst] in *.
      eapply Permutation_NoDup; [|exact N]. cbn [app]. apply Permutation_middle.
  Qed.

  Lemma step_finish st i n st' : Inv st -> step st (AFinish i n) = Some st' -> Inv st'.
  Proof.
    intros I H. cbn [C16.step] in H. destruct (nth_error (inwork (execs st i)) n) as [[id0 en0]|] eqn:T; [|discriminate H]. injection H as <-.
    pose proof (nth_error_In _ _ T) as Hin0.
    constructor; cbn [phases execs]; try exact (inv_ext st I); try exact (inv_wait st I); try exact (inv_comp st I); try exact (inv_done st I).
    - intros j id x Hx. destruct (Nat.eq_dec j i) as [->|Nj]; [rewrite upd_same in *|rewrite upd_other in * by assumption]; exact (inv_pend st I _ id x Hx).
    - intros j id en Hx. destruct (Nat.eq_dec j i) as [->|Nj]; [|rewrite upd_other in * by assumption; exact (inv_task st I j id en Hx)].
      rewrite upd_same in *. cbn [tasks inwork pending] in *. apply (inv_task st I i id en).
      apply in_app_or in Hx. apply in_or_app. destruct Hx as [Hx|Hx]; [left; exact Hx|right; exact (In_remove_nth _ _ _ Hx)].
    - intros j id o Hx. destruct (Nat.eq_dec j i) as [->|Nj]; [|rewrite upd_other in * by assumption; exact (inv_res st I j id o Hx)].
      rewrite upd_same in *. cbn [results pending] in *. apply in_app_or in Hx. destruct Hx as [Hx|[Hx|[]]]; [exact (inv_res st I i id o Hx)|].
      injection Hx as <- <-. destruct (inv_task st I i id0 en0 (in_or_app _ _ _ (or_intror Hin0))) as [x [L E]].
      exists x. split; [exact L|rewrite E; reflexivity].
    - intros j. destruct (Nat.eq_dec j i) as [->|Nj]; [|rewrite upd_other by assumption; exact (inv_nodup st I j)].
      rewrite upd_same. pose proof (inv_nodup st I i) as N. unfold tokens in *. cbn [tasks inwork results] in *.
      eapply Permutation_NoDup; [|exact N]. apply Permutation_app_head.
      pose proof (nth_error_perm n _ _ T) as Pm. apply (Permutation_map fst) in Pm. cbn [map fst] in Pm.
      rewrite map_app. cbn [map fst].
      eapply perm_trans; [apply Permutation_app_tail; exact Pm|]. cbn [app].
      eapply perm_trans; [apply Permutation_cons_append|]. rewrite <- app_assoc. apply Permutation_refl.
  Qed.

  Lemma step_deliver st i n st' : Inv st -> step st (ADeliver i n) = Some st' -> Inv st'.
  Proof.
    intros I H. cbn [C16.step] in H. destruct (nth_error (results (execs st i)) n) as [[id0 o0]|] eqn:T; [|discriminate H].
    destruct (lookup id0 (pending (execs st i))) as [r|] eqn:L; [|discriminate H]. injection H as <-.
    set (rest := remove_nth n (results (execs st i))).
    assert (Hres : In (id0, o0) (results (execs st i))) by exact (nth_error_In _ _ T).
    destruct (inv_res st I i id0 o0 Hres) as [r' [L' Eo]]. rewrite L in L'. injection L' as <-.
    destruct (inv_pend st I i id0 r (lookup_In _ _ _ L)) as [Lt W]. destruct (inv_wait st I r i id0 W) as [Hi Hb].
    assert (Hexp : match o0 with Success v => expected r = (if r_badaccept (reqs r) then Err EEncoding else Ok i v) | Failure k => expected r = Err k end).
    { rewrite Eo. unfold C16.compute, C16.expected, C16.entry_of. cbn [fst snd]. rewrite Hi, Hb.
      destruct (r_missing (reqs r)); [reflexivity|]. destruct (r_badaccept (reqs r)); reflexivity. }
    pose proof (nth_error_perm n _ _ T) as Pm. apply (Permutation_map fst) in Pm. cbn [map fst] in Pm. fold rest in Pm.
    assert (N : NoDup (map fst (tasks (execs st i)) ++ map fst (inwork (execs st i)) ++ id0 :: map fst rest)).
    { eapply Permutation_NoDup; [|exact (inv_nodup st I i)]. unfold tokens. do 2 apply Permutation_app_head. exact Pm. }
    assert (Nother : forall id, In id (map fst (tasks (execs st i)) ++ map fst (inwork (execs st i)) ++ map fst rest) -> id <> id0).
    { intros id Hin ->. rewrite app_assoc in N. apply NoDup_remove_2 in N. apply N. rewrite <- app_assoc. exact Hin. }
    constructor; cbn [phases execs].
    - intros x j Hx. phase_cases st r x; [destruct o0; discriminate Hx|exact (inv_ext st I x j Hx)].
    - intros x j id Hx. phase_cases st r x; [destruct o0; discriminate Hx|exact (inv_wait st I x j id Hx)].
    - intros x j v Hx. phase_cases st r x; [|exact (inv_comp st I x j v Hx)]. destruct o0; [injection Hx as <- <-; exact Hexp|discriminate Hx].
    - intros x a Hx. phase_cases st r x; [|exact (inv_done st I x a Hx)]. destruct o0; [discriminate Hx|injection Hx as <-; symmetry; exact Hexp].
    - intros j id x Hx. destruct (Nat.eq_dec j i) as [->|Nj].
      + rewrite upd_same in *. cbn [pending next] in *. apply In_drop in Hx. destruct Hx as [Hx Nid].
        destruct (inv_pend st I i id x Hx) as [L2 W2]. split; [exact L2|].
        phase_cases st r x; [rewrite W in W2; injection W2 as E; symmetry in E; contradiction|exact W2].
      + rewrite upd_other in * by assumption. destruct (inv_pend st I j id x Hx) as [L2 W2]. split; [exact L2|].
        phase_cases st r x; [rewrite W in W2; injection W2 as E _; symmetry in E; contradiction|exact W2].
    - intros j id en Hx. destruct (Nat.eq_dec j i) as [->|Nj]; [|rewrite upd_other in * by assumption; exact (inv_task st I j id en Hx)].
      rewrite upd_same in *. cbn [tasks inwork pending] in *. destruct (inv_task st I i id en Hx) as [x [L2 E2]]. exists x. split; [|exact E2].
      rewrite lookup_drop_other; [exact L2|]. apply Nother. rewrite app_assoc. apply in_or_app. left. rewrite <- map_app.
      apply in_map_iff. exists (id, en). split; [reflexivity|exact Hx].
    - intros j id o Hx. destruct (Nat.eq_dec j i) as [->|Nj]; [|rewrite upd_other in * by assumption; exact (inv_res st I j id o Hx)].
      rewrite upd_same in *. cbn [results pending] in *.
      assert (Hx' : In (id, o) (results (execs st i))) by exact (In_remove_nth _ _ _ Hx).
      destruct (inv_res st I i id o Hx') as [x [L2 E2]]. exists x. split; [|exact E2].
      rewrite lookup_drop_other; [exact L2|]. apply Nother. apply in_or_app. right. apply in_or_app. right.
      apply in_map_iff. exists (id, o). split; [reflexivity|exact Hx].
    - intros j. destruct (Nat.eq_dec j i) as [->|Nj]; [|rewrite upd_other by assumption; exact (inv_nodup st I j)].
      rewrite upd_same. unfold tokens. cbn [tasks inwork results]. rewrite app_assoc in N. apply NoDup_remove_1 in N.
      rewrite <- app_assoc in N. exact N.
  Qed.

  Lemma step_inv st a st' : Inv st -> step st a = Some st' -> Inv st'.
  Proof.
    destruct a; intros I H; eauto using step_extract, step_submit, step_take, step_finish, step_deliver, step_respond.
  Qed.

  Lemma run_inv : forall acts st, Inv st -> Inv (run st acts).
  Proof.
    induction acts as [|a acts IH]; intros st I; cbn [C16.run]; [exact I|]. apply IH.
    destruct (step st a) as [st'|] eqn:E; [exact (step_inv st a st' I E)|exact I].
  Qed.

  (* whatever a caller has received, under any schedule, is what its own request denotes on the model its application selects *)
  Theorem served_right : forall acts r a, answered (run init acts) r = Some a -> a = expected r.
  Proof.
    intros acts r a H. unfold answered in H. destruct (phases (run init acts) r) eqn:P; try discriminate H. injection H as <-.
    exact (inv_done _ (run_inv acts init inv_init) r _ P).
  Qed.

  (* an answer is final: no later step of any agent changes or repeats it *)
  Lemma done_final st a st' r ans : Inv st -> phases st r = Done ans -> step st a = Some st' -> phases st' r = Done ans.
  Proof.
    intros I P H. destruct a as [x|x|i|i n|i n|x]; cbn [C16.step] in H.
    - destruct (phases st x) eqn:Px; try discriminate H. injection H as <-. cbn [phases].
      destruct (Nat.eq_dec r x) as [->|N]; [rewrite P in Px; discriminate Px|rewrite upd_other by assumption; exact P].
    - destruct (phases st x) eqn:Px; try discriminate H. injection H as <-. cbn [phases].
      destruct (Nat.eq_dec r x) as [->|N]; [rewrite P in Px; discriminate Px|rewrite upd_other by assumption; exact P].
    - destruct (tasks (execs st i)); [discriminate H|]. destruct (Nat.ltb _ _); [|discriminate H]. injection H as <-. exact P.
    - destruct (nth_error (inwork (execs st i)) n) as [[id en]|]; [|discriminate H]. injection H as <-. exact P.
    - destruct (nth_error (results (execs st i)) n) as [[id o]|]; [|discriminate H].
      destruct (lookup id (pending (execs st i))) as [x|] eqn:L; [|discriminate H]. injection H as <-. cbn [phases].
      destruct (Nat.eq_dec r x) as [->|N]; [|rewrite upd_other by assumption; exact P].
      pose proof (proj2 (inv_pend st I i id x (lookup_In _ _ _ L))) as W. rewrite P in W. discriminate W.
    - destruct (phases st x) eqn:Px; try discriminate H. injection H as <-. cbn [phases].
      destruct (Nat.eq_dec r x) as [->|N]; [rewrite P in Px; discriminate Px|rewrite upd_other by assumption; exact P].
  Qed.

  Theorem answered_once : forall acts more r a,
    answered (run init acts) r = Some a -> answered (run init (acts ++ more)) r = Some a.
  Proof.
    intros acts more r a H.
    assert (G : forall more st, Inv st -> answered st r = Some a -> answered (run st more) r = Some a).
    { induction more0 as [|x more0 IH]; intros st I Ha; cbn [C16.run]; [exact Ha|].
      destruct (step st x) as [st'|] eqn:E; [|exact (IH st I Ha)].
      apply IH; [exact (step_inv st x st' I E)|]. unfold answered in *. destruct (phases st r) eqn:P; try discriminate Ha.
      rewrite (done_final st x st' r a0 I P E). exact Ha. }
    assert (R : forall l1 l2 st, run st (l1 ++ l2) = run (run st l1) l2).
    { induction l1 as [|x l1 IH]; intros l2 st; cbn [app C16.run]; [reflexivity|apply IH]. }
    rewrite R. apply G; [apply run_inv; exact inv_init|exact H].
  Qed.
End Proofs.
