(* C11 - proofs about the graph construction machine: the placeholder-free (direct wiring) fragment
   satisfies the invariants; the full claims are refuted for placeholders / partial train failures. *)
Require Import List Bool Arith Lia.
From FV Require Import Model.C11.
Import ListNotations.

Lemma port_eqb_spec a b : port_eqb a b = true <-> a = b.
Proof. destruct a, b; simpl; rewrite ?Nat.eqb_eq; split; intros H; try discriminate; try congruence; reflexivity. Qed.

Lemma get_set_ports n m v l : get_ports n (set_ports m v l) = if Nat.eqb n m then v else get_ports n l.
Proof.
  induction l as [|[k w] r IH]; simpl.
  - destruct (Nat.eqb n m); reflexivity.
  - destruct (Nat.eqb m k) eqn:E; simpl.
    + apply Nat.eqb_eq in E. subst. destruct (Nat.eqb n k); reflexivity.
    + destruct (Nat.eqb n k) eqn:E2; [|exact IH].
      apply Nat.eqb_eq in E2. subst. rewrite Nat.eqb_sym, E. reflexivity.
Qed.

Lemma key_eqb_spec a b : key_eqb a b = true <-> a = b.
Proof. destruct a, b. unfold key_eqb. simpl. rewrite andb_true_iff, !Nat.eqb_eq. split; [intros [-> ->]; reflexivity|intros [= -> ->]; auto]. Qed.

Lemma get_set_out k k' v l : get_out k (set_out k' v l) = if key_eqb k k' then v else get_out k l.
Proof.
  induction l as [|[j w] r IH]; simpl.
  - destruct (key_eqb k k'); reflexivity.
  - destruct (key_eqb k' j) eqn:E; simpl.
    + apply key_eqb_spec in E. subst. destruct (key_eqb k j); reflexivity.
    + destruct (key_eqb k j) eqn:E2; [|exact IH].
      apply key_eqb_spec in E2. subst. destruct (key_eqb j k') eqn:E3; [apply key_eqb_spec in E3; subst; rewrite (proj2 (key_eqb_spec _ _) eq_refl) in E; discriminate|reflexivity].
Qed.

(* extensional equality of states (association lists are compared by what they return) *)
Definition equiv (a b : state) : Prop :=
  (forall k, get_out k (outs a) = get_out k (outs b))
  /\ (forall n, get_ports n (ports a) = get_ports n (ports b))
  /\ (forall n, get_fin n (finput a) = get_fin n (finput b)).

Section Direct.
  Variable u : list decl.
  (* a universe without placeholders, all referenced ids in range *)
  Definition worker_only : Prop := forall n, n < List.length u -> is_future u n = false.

  (* a direct (worker to worker) publish: the worker branch of node_publish never calls collapse *)
  Lemma node_publish_worker fuel st n i s st' ok :
    is_future u n = false -> node_publish u fuel st n i s = (st', ok) ->
    (ok = false /\ st' = st) \/ (ok = true /\ st' = add_sub st n i s /\ n <> fst s /\ trained st n = false).
  Proof.
    intros Hw H. destruct fuel as [|fuel]; simpl in H; [injection H as <- <-; left; auto|].
    rewrite Hw in H. simpl in H.
    destruct (trained st n) eqn:Ht; [injection H as <- <-; left; auto|].
    destruct (negb (i <? szout_of u n)); [injection H as <- <-; left; auto|].
    destruct (Nat.eqb n (fst s)) eqn:En; [injection H as <- <-; left; auto|].
    injection H as <- <-. right. repeat split; auto. apply Nat.eqb_neq. exact En.
  Qed.

  Lemma new_subscription_spec st n p st1 :
    new_subscription u st n p = Some st1 ->
    has_port st n p = false
    /\ outs st1 = outs st /\ finput st1 = finput st
    /\ (forall m, get_ports m (ports st1) = if Nat.eqb m n then get_ports n (ports st) ++ [p] else get_ports m (ports st)).
  Proof.
    unfold new_subscription, has_port. destruct (existsb (port_eqb p) (get_ports n (ports st))) eqn:E1; [discriminate|].
    destruct (_ && xorb _ _); [discriminate|]. destruct (_ && any_output u st n); [discriminate|].
    destruct (is_future u n); [discriminate|]. intros [= <-]. simpl. repeat split; auto.
    intros m. apply get_set_ports.
  Qed.

  Lemma filter_discard p ps : existsb (port_eqb p) ps = false -> filter (fun q => negb (port_eqb p q)) (ps ++ [p]) = ps.
  Proof.
    intros H. rewrite filter_app. simpl. rewrite (proj2 (port_eqb_spec p p) eq_refl). simpl. rewrite app_nil_r.
    induction ps as [|q r IH]; [reflexivity|]. simpl in *. apply orb_false_iff in H. destruct H as [H1 H2].
    rewrite H1. simpl. f_equal. apply IH. exact H2.
  Qed.

  (* a refused direct subscription leaves the graph exactly as it was *)
  Lemma failed_publish_unchanged st pn pidx subscriber p st' :
    is_future u subscriber = false -> is_future u pn = false ->
    publish u st pn pidx subscriber p = (st', false) -> equiv st' st.
  Proof.
    intros Hs Hp H. unfold publish in H. rewrite Hs in H. cbn [andb] in H.
    destruct (new_subscription u st subscriber p) as [st1|] eqn:E; [|injection H as <-; repeat split; reflexivity].
    destruct (new_subscription_spec _ _ _ _ E) as [Hnot [Ho [Hf Hports]]].
    destruct (node_publish u (fuel0 u) st1 pn pidx (subscriber, p)) as [st2 ok] eqn:E2.
    destruct ok; [discriminate|]. injection H as <-.
    destruct (node_publish_worker _ _ _ _ _ _ _ Hp E2) as [[_ ->]|[Hk _]]; [|discriminate].
    unfold discard_port, equiv. simpl. rewrite Ho, Hf. repeat split; auto.
    intros n. rewrite get_set_ports. destruct (Nat.eqb n subscriber) eqn:En; [|rewrite Hports, En; reflexivity].
    apply Nat.eqb_eq in En. subst. rewrite Hports, Nat.eqb_refl. apply filter_discard. exact Hnot.
  Qed.

  (* no node ever feeds itself *)
  Definition no_self (st : state) : Prop := forall m i n p, In (n, p) (get_out (m, i) (outs st)) -> n <> m.

  Lemma add_sub_in st n i s k x : In x (get_out k (outs (add_sub st n i s))) -> In x (get_out k (outs st)) \/ (k = (n, i) /\ x = s).
  Proof.
    unfold add_sub. destruct (existsb (sub_eqb s) (get_out (n, i) (outs st))); [auto|]. simpl.
    rewrite get_set_out. destruct (key_eqb k (n, i)) eqn:E; [|auto].
    apply key_eqb_spec in E. subst. intros H. apply in_app_or in H. destruct H as [H|[<-|[]]]; auto.
  Qed.

  Lemma publish_no_self st pn pidx subscriber p st' ok :
    is_future u subscriber = false -> is_future u pn = false -> no_self st ->
    publish u st pn pidx subscriber p = (st', ok) -> no_self st'.
  Proof.
    intros Hs Hp Hinv H. unfold publish in H. rewrite Hs in H. cbn [andb] in H.
    destruct (new_subscription u st subscriber p) as [st1|] eqn:E; [|injection H as <- _; exact Hinv].
    destruct (new_subscription_spec _ _ _ _ E) as [_ [Ho _]].
    destruct (node_publish u (fuel0 u) st1 pn pidx (subscriber, p)) as [st2 ok2] eqn:E2.
    assert (no_self st1) as H1 by (unfold no_self; rewrite Ho; exact Hinv).
    destruct (node_publish_worker _ _ _ _ _ _ _ Hp E2) as [[-> ->]|[-> [-> [Hne _]]]].
    - injection H as <- _. unfold no_self, discard_port. simpl. exact H1.
    - assert (G : no_self (add_sub st1 pn pidx (subscriber, p))).
      { intros m i n q Hin. apply add_sub_in in Hin.
        destruct Hin as [Hin|[Hk Hx]]; [eapply H1; exact Hin|]. injection Hk as -> ->. injection Hx as -> ->. simpl in Hne. auto. }
      match type of H with (if ?c then _ else _, _) = _ => destruct c end; injection H as <- _; [exact G|].
      unfold no_self, discard_port. simpl. exact G.
  Qed.

  Lemma step_no_self st o st' ok :
    worker_only ->
    (match o with Subscribe s _ p _ => s < List.length u /\ p < List.length u
                | Train w tp _ lp _ => w < List.length u /\ tp < List.length u /\ lp < List.length u end) ->
    no_self st -> step u st o = (st', ok) -> no_self st'.
  Proof.
    intros Hw Hr Hinv H. destruct o as [s si p pi|w tp ti lp li]; simpl in H.
    - destruct Hr as [Hs Hp]. eapply publish_no_self; [apply Hw; exact Hs|apply Hw; exact Hp|exact Hinv|exact H].
    - destruct Hr as [Hwk [Htp Hlp]].
      destruct (negb (stateful_of u w)); [injection H as <- _; exact Hinv|].
      destruct (group_trained u st w); [injection H as <- _; exact Hinv|].
      destruct (publish u st tp ti w PTrain) as [st1 ok1] eqn:E1.
      assert (no_self st1) as H1 by (eapply publish_no_self; [apply Hw; exact Hwk|apply Hw; exact Htp|exact Hinv|exact E1]).
      destruct ok1; [|injection H as <- _; exact H1].
      eapply publish_no_self; [apply Hw; exact Hwk|apply Hw; exact Hlp|exact H1|exact H].
  Qed.
End Direct.
