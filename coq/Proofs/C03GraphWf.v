(* C03 - the graphs that pipeline expressions denote are well-formed compiler inputs. *)
Require Import List Bool ZArith Arith Lia.
From FV Require Import Lib.Sym Model.C01 Model.C01Compile Proofs.C01Blocks Model.C03.
From FV Require Import Model.C03Graph.
Import ListNotations.

Definition ref_good (ns : list node) (ip : nat * nat) : Prop :=
  exists ndi, nth_error ns (fst ip) = Some ndi /\ is_train ndi = false /\ snd ip < nszout ndi.

Record gwf (ns : list node) : Prop := {
  g_ports : forall i nd q ip, nth_error ns i = Some nd -> nth_error (ports nd) q = Some ip -> fst ip < i /\ ref_good ns ip;
  g_tstate : forall i nd, nth_error ns i = Some nd -> is_train nd = true -> nstateful nd = true;
  g_unique : forall i nd i' nd', nth_error ns i = Some nd -> nth_error ns i' = Some nd' ->
               is_train nd = true -> is_train nd' = true -> ngid nd = ngid nd' -> i = i';
  g_first : forall i nd k ndk, nth_error ns i = Some nd -> nth_error ns k = Some ndk ->
               is_train nd = false -> is_train ndk = true -> ngid ndk = ngid nd -> k < i
}.

Definition gb (ns : list node) (b : nat) : Prop := forall nd, In nd ns -> ngid nd < b.

Lemma ref_good_app ns more ip : ref_good ns ip -> ref_good (ns ++ more) ip.
Proof. intros [ndi [H1 H2]]. exists ndi. split; [|exact H2]. rewrite nth_error_app1; [exact H1|]. apply nth_error_Some. rewrite H1. discriminate. Qed.

Lemma ref_good_lt ns ip : ref_good ns ip -> fst ip < List.length ns.
Proof. intros [ndi [H1 _]]. apply nth_error_Some. rewrite H1. discriminate. Qed.

Lemma nth_snoc {A} (l : list A) x i y : nth_error (l ++ [x]) i = Some y -> (i < List.length l /\ nth_error l i = Some y) \/ (i = List.length l /\ y = x).
Proof.
  intros H. destruct (Nat.lt_ge_cases i (List.length l)) as [Hl|Hl].
  - left. rewrite nth_error_app1 in H by exact Hl. auto.
  - right. rewrite nth_error_app2 in H by exact Hl. destruct (i - List.length l) as [|k] eqn:E; simpl in H.
    + injection H as <-. split; [lia|reflexivity].
    + destruct k; discriminate.
Qed.

Lemma gwf_snoc ns n : gwf ns -> (forall q ip, nth_error (ports n) q = Some ip -> ref_good ns ip) ->
  (is_train n = true -> nstateful n = true /\ forall nd, In nd ns -> ngid nd <> ngid n) -> gwf (ns ++ [n]).
Proof.
  intros [P1 P2 P3 P4] Hp Ht. constructor.
  - intros i nd q ip Hn Hq. destruct (nth_snoc _ _ _ _ Hn) as [[Hi Hn']|[-> ->]].
    + destruct (P1 i nd q ip Hn' Hq) as [X Y]. split; [exact X|apply ref_good_app; exact Y].
    + pose proof (Hp q ip Hq) as G. split; [exact (ref_good_lt _ _ G)|apply ref_good_app; exact G].
  - intros i nd Hn Htr. destruct (nth_snoc _ _ _ _ Hn) as [[Hi Hn']|[-> ->]]; [exact (P2 i nd Hn' Htr)|exact (proj1 (Ht Htr))].
  - intros i nd i' nd' Hn Hn' Htr Htr' Hg.
    destruct (nth_snoc _ _ _ _ Hn) as [[Hi Hn1]|[-> ->]], (nth_snoc _ _ _ _ Hn') as [[Hi' Hn1']|[-> ->]].
    + exact (P3 i nd i' nd' Hn1 Hn1' Htr Htr' Hg).
    + exfalso. apply (proj2 (Ht Htr') nd (nth_error_In _ _ Hn1)). exact Hg.
    + exfalso. apply (proj2 (Ht Htr) nd' (nth_error_In _ _ Hn1')). symmetry. exact Hg.
    + reflexivity.
  - intros i nd k ndk Hn Hk Htr Htk Hg.
    destruct (nth_snoc _ _ _ _ Hn) as [[Hi Hn1]|[-> ->]], (nth_snoc _ _ _ _ Hk) as [[Hk' Hk1]|[-> ->]].
    + exact (P4 i nd k ndk Hn1 Hk1 Htr Htk Hg).
    + exfalso. apply (proj2 (Ht Htk) nd (nth_error_In _ _ Hn1)). symmetry. exact Hg.
    + exact Hk'.
    + congruence.
Qed.

Lemma gb_snoc ns n b : gb ns b -> ngid n < b -> gb (ns ++ [n]) b.
Proof. intros H Hn nd Hin. apply in_app_or in Hin. destruct Hin as [Hin|[<-|[]]]; [exact (H nd Hin)|exact Hn]. Qed.

Lemma gb_mono ns b b' : gb ns b -> b <= b' -> gb ns b'.
Proof. intros H Hl nd Hin. specialize (H nd Hin). lia. Qed.

Lemma ref_new ns n : is_train n = false -> nszout n = 1 -> ref_good (ns ++ [n]) (List.length ns, 0).
Proof. intros Ht Hz. exists n. simpl. rewrite nth_error_app2 by lia. rewrite Nat.sub_diag. simpl. split; [reflexivity|]. split; [exact Ht|lia]. Qed.

(* one worker group with a fresh group id *)
Lemma group_wf ns a g input tf tl : gwf ns -> gb ns g -> ref_good ns input -> ref_good ns tf -> ref_good ns tl ->
  let '(new, idx) := group_nodes a g (List.length ns) input tf tl in
  gwf (ns ++ new) /\ gb (ns ++ new) (S g) /\ ref_good (ns ++ new) (idx, 0).
Proof.
  intros Hw Hb Hi Hf Hl. unfold group_nodes. destruct (astateful a) eqn:Hs.
  - set (t := mknode a g (KTrain tf tl)). set (m := mknode a g (KApply [input])).
    assert (W1 : gwf (ns ++ [t])).
    { apply gwf_snoc; [exact Hw| |].
      - intros q ip Hq. unfold ports, t, mknode in Hq. simpl in Hq. destruct q as [|[|q]]; simpl in Hq; [injection Hq as <-; exact Hf|injection Hq as <-; exact Hl|destruct q; discriminate].
      - intros _. split; [exact Hs|]. intros nd Hin E. specialize (Hb nd Hin). unfold t, mknode in E. simpl in E. lia. }
    replace (ns ++ [t; m]) with ((ns ++ [t]) ++ [m]) by (rewrite <- app_assoc; reflexivity). split; [|split].
    + apply gwf_snoc; [exact W1| |intros X; discriminate X].
      intros q ip Hq. unfold ports, m, mknode in Hq. simpl in Hq. destruct q as [|q]; simpl in Hq; [injection Hq as <-; apply ref_good_app; exact Hi|destruct q; discriminate].
    + apply gb_snoc; [apply gb_snoc; [apply (gb_mono ns g); [exact Hb|lia]|simpl; lia]|simpl; lia].
    + replace (S (List.length ns)) with (List.length (ns ++ [t])) by (rewrite app_length; simpl; lia). apply ref_new; reflexivity.
  - set (m := mknode a g (KApply [input])). split; [|split].
    + apply gwf_snoc; [exact Hw| |intros X; discriminate X].
      intros q ip Hq. unfold ports, m, mknode in Hq. simpl in Hq. destruct q as [|q]; simpl in Hq; [injection Hq as <-; exact Hi|destruct q; discriminate].
    + apply gb_snoc; [apply (gb_mono ns g); [exact Hb|lia]|simpl; lia].
    + apply ref_new; reflexivity.
Qed.

Definition ginv (gs : gstate) : Prop :=
  gwf (gnodes gs) /\ gb (gnodes gs) (gfresh gs) /\ ref_good (gnodes gs) (pa gs) /\ ref_good (gnodes gs) (pt gs) /\ ref_good (gnodes gs) (pl gs).

Lemma ginv_source a t sl : ginv (gsource a t sl).
Proof.
  unfold ginv, gsource. simpl. split; [|split; [|split; [|split]]].
  - constructor.
    + intros i nd q ip Hn Hq. destruct i as [|[|[|i]]]; simpl in Hn; try (injection Hn as <-; unfold ports in Hq; simpl in Hq; destruct q; discriminate); [|destruct i; discriminate].
      injection Hn as <-. unfold ports in Hq. simpl in Hq. destruct q as [|q]; [|destruct q; discriminate]. injection Hq as <-. simpl. split; [lia|].
      exists (Node t 0 1 false 1 (KApply [])). simpl. auto.
    + intros i nd Hn Ht. destruct i as [|[|[|i]]]; simpl in Hn; try (injection Hn as <-; discriminate Ht). destruct i; discriminate.
    + intros i nd i' nd' Hn _ Ht. destruct i as [|[|[|i]]]; simpl in Hn; try (injection Hn as <-; discriminate Ht). destruct i; discriminate.
    + intros i nd k ndk _ Hk _ Ht. destruct k as [|[|[|k]]]; simpl in Hk; try (injection Hk as <-; discriminate Ht). destruct k; discriminate.
  - intros nd [<-|[<-|[<-|[]]]]; simpl; lia.
  - exists (Node a 0 0 false 1 (KApply [])). simpl. auto.
  - exists (Node sl 0 2 false 2 (KApply [(1, 0)])). simpl. auto.
  - exists (Node sl 0 2 false 2 (KApply [(1, 0)])). simpl. auto.
Qed.

Lemma build_op_ginv o gs : ginv gs -> ginv (build_op o gs).
Proof.
  intros [Hw [Hb [Ra [Rt Rl]]]]. unfold build_op. set (ns := gnodes gs) in *.
  assert (H1 : exists nl pl1 g1,
    match olabel o with
    | Some l => let '(ns', idx) := group_nodes l (gfresh gs) (List.length ns) (pl gs) (pt gs) (pl gs) in (ns', (idx, 0), S (gfresh gs))
    | None => ([], pl gs, gfresh gs)
    end = (nl, pl1, g1)
    /\ gwf (ns ++ nl) /\ gb (ns ++ nl) g1 /\ ref_good (ns ++ nl) pl1 /\ gfresh gs <= g1).
  { destruct (olabel o) as [l|].
    - pose proof (group_wf ns l (gfresh gs) (pl gs) (pt gs) (pl gs) Hw Hb Rl Rt Rl) as G.
      destruct (group_nodes l (gfresh gs) (List.length ns) (pl gs) (pt gs) (pl gs)) as [nl idx]. destruct G as [G1 [G2 G3]].
      exists nl, (idx, 0), (S (gfresh gs)). split; [reflexivity|]. split; [exact G1|]. split; [exact G2|]. split; [exact G3|lia].
    - exists [], (pl gs), (gfresh gs). rewrite app_nil_r. split; [reflexivity|]. split; [exact Hw|]. split; [exact Hb|]. split; [exact Rl|lia]. }
  destruct H1 as [nl [pl1 [g1 [E1 [W1 [B1 [R1 Hg1]]]]]]]. rewrite E1. set (n1 := ns ++ nl) in *.
  assert (Ra1 : ref_good n1 (pa gs)) by (apply ref_good_app; exact Ra).
  assert (Rt1 : ref_good n1 (pt gs)) by (apply ref_good_app; exact Rt).
  replace (List.length ns + List.length nl) with (List.length n1) by (unfold n1; rewrite app_length; reflexivity).
  assert (H2 : exists na pa2 g2,
    match oapply o with
    | Some a => let '(ns', idx) := group_nodes a g1 (List.length n1) (pa gs) (pt gs) pl1 in (ns', (idx, 0), S g1)
    | None => ([], pa gs, g1)
    end = (na, pa2, g2)
    /\ gwf (n1 ++ na) /\ gb (n1 ++ na) g2 /\ ref_good (n1 ++ na) pa2 /\ g1 <= g2 /\ (oapply o <> None -> g2 = S g1)).
  { destruct (oapply o) as [a|].
    - pose proof (group_wf n1 a g1 (pa gs) (pt gs) pl1 W1 B1 Ra1 Rt1 R1) as G.
      destruct (group_nodes a g1 (List.length n1) (pa gs) (pt gs) pl1) as [na idx]. destruct G as [G1 [G2 G3]].
      exists na, (idx, 0), (S g1). split; [reflexivity|]. split; [exact G1|]. split; [exact G2|]. split; [exact G3|]. split; [lia|reflexivity].
    - exists [], (pa gs), g1. rewrite app_nil_r. split; [reflexivity|]. split; [exact W1|]. split; [exact B1|]. split; [exact Ra1|]. split; [lia|]. intros X. contradiction. }
  destruct H2 as [na [pa2 [g2 [E2 [W2 [B2 [R2 [Hg2 Hg2']]]]]]]]. rewrite E2. set (n2 := n1 ++ na) in *.
  assert (Rt2 : ref_good n2 (pt gs)) by (apply ref_good_app; exact Rt1).
  assert (Rl2 : ref_good n2 pl1) by (apply ref_good_app; exact R1).
  replace (List.length n1 + List.length na) with (List.length n2) by (unfold n2; rewrite app_length; reflexivity).
  assert (H3 : exists nt pt3,
    match otrain o, oapply o with
    | TSame, Some a => ([mknode a g1 (KApply [pt gs])], (List.length n2, 0))
    | TOwn t, _ => let '(ns', idx) := group_nodes t g2 (List.length n2) (pt gs) (pt gs) pl1 in (ns', (idx, 0))
    | _, _ => ([], pt gs)
    end = (nt, pt3)
    /\ gwf (n2 ++ nt) /\ gb (n2 ++ nt) (S g2) /\ ref_good (n2 ++ nt) pt3).
  { destruct (otrain o) as [| |t].
    - exists [], (pt gs). rewrite app_nil_r. split; [reflexivity|]. split; [exact W2|]. split; [apply (gb_mono n2 g2); [exact B2|lia]|exact Rt2].
    - destruct (oapply o) as [a|] eqn:Ea.
      + exists [mknode a g1 (KApply [pt gs])], (List.length n2, 0). split; [reflexivity|]. split; [|split].
        * apply gwf_snoc; [exact W2| |intros X; discriminate X].
          intros q ip Hq. unfold ports, mknode in Hq. simpl in Hq. destruct q as [|q]; simpl in Hq; [injection Hq as <-; exact Rt2|destruct q; discriminate].
        * apply gb_snoc; [apply (gb_mono n2 g2); [exact B2|lia]|]. simpl. rewrite (Hg2' ltac:(discriminate)). lia.
        * apply ref_new; reflexivity.
      + exists [], (pt gs). rewrite app_nil_r. split; [reflexivity|]. split; [exact W2|]. split; [apply (gb_mono n2 g2); [exact B2|lia]|exact Rt2].
    - pose proof (group_wf n2 t g2 (pt gs) (pt gs) pl1 W2 B2 Rt2 Rt2 Rl2) as G.
      destruct (group_nodes t g2 (List.length n2) (pt gs) (pt gs) pl1) as [nt idx]. destruct G as [G1 [G2 G3]].
      exists nt, (idx, 0). split; [destruct (oapply o); reflexivity|]. auto. }
  destruct H3 as [nt [pt3 [E3 [W3 [B3 R3]]]]]. rewrite E3.
  unfold ginv. simpl. replace (ns ++ nl ++ na ++ nt) with (n2 ++ nt) by (unfold n2, n1; rewrite <- !app_assoc; reflexivity).
  split; [exact W3|]. split; [exact B3|]. split; [apply ref_good_app; exact R2|]. split; [exact R3|apply ref_good_app; exact Rl2].
Qed.

Theorem build_ginv : forall e gs, ginv gs -> ginv (build e gs).
Proof. induction e as [o|l IHl r IHr]; intros gs H; simpl; [apply build_op_ginv; exact H|apply IHr, IHl; exact H]. Qed.
