(* C01 - soundness of the symbol-table validator: a table accepted by `validate` evaluates, at the functor symbol
   of every node, to what direct evaluation of the task graph gives for that node. Holds for every graph, every
   asset accessor and every table (in particular for the table the real compiler emitted, which the correspondence
   run feeds to `validate` on every generated segment). *)
Require Import List Bool ZArith Arith Lia.
From FV Require Import Lib.Sym Model.C01 Proofs.C01 Model.C01Compile.
Import ListNotations.

Section Sound.
Variable a : assets.
Variable nodes : list node.
Variable t : list sym.

(* ---- the denotation, node by node ---------------------------------------------------------------------- *)
Definition node_row (i : nat) : list term :=
  match nth_error nodes i with
  | None => []
  | Some n =>
      match nkind n with
      | KTrain _ _ => [node_term a nodes i]
      | KApply _ => match nszout n with 1 => [node_term a nodes i] | k => map (fun p => TProj p (node_term a nodes i)) (seq 0 k) end
      end
  end.

Lemma firstn_S_nth {A} (l : list A) : forall i x, nth_error l i = Some x -> firstn (S i) l = firstn i l ++ [x].
Proof.
  induction l as [|y l IH]; intros [|i] x H; simpl in H; try discriminate.
  - injection H as ->. reflexivity.
  - simpl. f_equal. apply IH. exact H.
Qed.

Lemma geval_step i n : nth_error nodes i = Some n ->
  geval a (firstn (S i) nodes) = eval_node a (geval a (firstn i nodes)) n.
Proof. intros H. rewrite (firstn_S_nth _ _ _ H). unfold geval. rewrite fold_left_app. reflexivity. Qed.

Lemma geval_len i : i <= List.length nodes -> List.length (outputs (geval a (firstn i nodes))) = i.
Proof. intros H. rewrite geval_once, firstn_length. lia. Qed.

Lemma outputs_step i n : nth_error nodes i = Some n ->
  outputs (geval a (firstn (S i) nodes)) = outputs (geval a (firstn i nodes)) ++ [node_row i].
Proof.
  intros H. rewrite (geval_step _ _ H). unfold node_row, node_term, eval_node. rewrite H.
  destruct (nkind n) as [inputs|tr lb]; simpl; reflexivity.
Qed.

Lemma nth_error_lt {A} (l : list A) i : i < List.length l -> exists x, nth_error l i = Some x.
Proof. intros H. destruct (nth_error l i) eqn:E; [eauto|]. apply nth_error_None in E. lia. Qed.

Lemma outputs_nth : forall i j, j < i -> i <= List.length nodes ->
  nth j (outputs (geval a (firstn i nodes))) [] = node_row j.
Proof.
  induction i as [|i IH]; intros j Hj Hi; [lia|].
  destruct (nth_error_lt nodes i ltac:(lia)) as [n Hn].
  rewrite (outputs_step _ _ Hn).
  assert (Hl := geval_len i ltac:(lia)).
  destruct (Nat.eq_dec j i) as [->|Hne].
  - rewrite app_nth2 by lia. rewrite Hl, Nat.sub_diag. reflexivity.
  - rewrite app_nth1 by lia. apply IH; lia.
Qed.

Lemma trained_lookup g : forall i, i <= List.length nodes ->
  lookup_gid g (trained (geval a (firstn i nodes))) = option_map (node_term a nodes) (trainer nodes i g).
Proof.
  induction i as [|i IH]; intros Hi; [reflexivity|].
  destruct (nth_error_lt nodes i ltac:(lia)) as [n Hn].
  rewrite (geval_step _ _ Hn). simpl trainer. rewrite Hn.
  unfold eval_node, is_train. destruct (nkind n) as [inputs|tr lb] eqn:Ek; simpl.
  - rewrite andb_false_r. apply IH. lia.
  - rewrite andb_true_r, (Nat.eqb_sym (ngid n) g). destruct (Nat.eqb g (ngid n)) eqn:Eg.
    + simpl. unfold node_term. rewrite Hn, Ek. reflexivity.
    + apply IH. lia.
Qed.

Lemma trainer_lt g : forall i k, trainer nodes i g = Some k -> k < i /\ exists n, nth_error nodes k = Some n.
Proof.
  induction i as [|i IH]; intros k H; simpl in H; [discriminate|].
  destruct (nth_error nodes i) as [n|] eqn:Hn.
  - destruct (Nat.eqb (ngid n) g && is_train n).
    + injection H as <-. split; [lia|eauto].
    + destruct (IH _ H) as [Hk Hx]. split; [lia|exact Hx].
  - destruct (IH _ H) as [Hk Hx]. split; [lia|exact Hx].
Qed.

Lemma not_persistent_previous g : persistent a g = false -> previous a g = None.
Proof.
  unfold persistent, previous. destruct a as [l|]; [|reflexivity].
  induction l as [|[g' x] l IH]; simpl; [reflexivity|].
  destruct (Nat.eqb g g'); [discriminate|].
  destruct (offset_of g l); simpl; [discriminate|]. intros _. apply IH. reflexivity.
Qed.

(* ---- the validator ------------------------------------------------------------------------------------- *)
Lemma find_pos_spec f : forall (l : list sym) p, find_pos f l = Some p -> exists s, nth_error l p = Some s /\ f s = true.
Proof.
  induction l as [|s l IH]; intros p H; simpl in H; [discriminate|].
  destruct (f s) eqn:Ef.
  - injection H as <-. exists s. split; [reflexivity|exact Ef].
  - destruct (find_pos f l) as [q|] eqn:Eq; simpl in H; [|discriminate]. injection H as <-.
    destruct (IH _ eq_refl) as [s' [Hs Hf]]. exists s'. split; assumption.
Qed.

Lemma combine_seq_nth {A} (l : list A) : forall s i x, nth_error l i = Some x ->
  nth_error (combine (seq s (List.length l)) l) i = Some (s + i, x).
Proof.
  induction l as [|y l IH]; intros s [|i] x H; simpl in H; try discriminate.
  - injection H as ->. simpl. rewrite Nat.add_0_r. reflexivity.
  - simpl. rewrite (IH (S s) i x H). f_equal. f_equal. lia.
Qed.

Lemma validate_nth i n : validate a nodes t = true -> nth_error nodes i = Some n -> valid_node a nodes t i n = true.
Proof.
  unfold validate. intros H Hn. rewrite forallb_forall in H.
  apply (H (i, n)). apply nth_error_In with i. rewrite (combine_seq_nth nodes 0 i n Hn). reflexivity.
Qed.

Definition sound_upto (i : nat) : Prop :=
  forall j n, j < i -> nth_error nodes j = Some n ->
    exists p, pos t j = Some p /\ forall fuel, 2 * j + 2 <= fuel -> eval fuel a nodes t p = Some (node_term a nodes j).

Lemma nth_map_seq (f : nat -> term) k p : p < k -> nth p (map f (seq 0 k)) TNone = f p.
Proof.
  intros H. rewrite (nth_indep _ TNone (f 0)) by (rewrite map_length, seq_length; exact H).
  rewrite map_nth. rewrite seq_nth by exact H. reflexivity.
Qed.

Lemma delivers_sound i q jp fuel : sound_upto i -> i <= List.length nodes -> fst jp < i -> 2 * fst jp + 3 <= fuel ->
  delivers nodes t q jp = true ->
  eval fuel a nodes t q = Some (value (geval a (firstn i nodes)) jp).
Proof.
  intros IH Hi Hj Hf H. destruct jp as [j pt]. simpl in Hj, Hf. unfold delivers in H. simpl in H.
  destruct (nth_error nodes j) as [n|] eqn:Hn; [|discriminate].
  destruct (pos t j) as [pj|] eqn:Hp; [|discriminate].
  destruct (nth_error t q) as [s|] eqn:Hs; [|discriminate].
  apply andb_prop in H. destruct H as [Htr H].
  destruct (IH j n Hj Hn) as [p' [Hp' Hev]]. rewrite Hp in Hp'. injection Hp' as <-.
  unfold value. simpl. rewrite (outputs_nth i j Hj Hi). unfold node_row. rewrite Hn.
  unfold is_train in Htr. destruct (nkind n) as [inputs|tr lb]; [|discriminate].
  destruct (nszout n) as [|[|k]] eqn:Ek.
  - destruct s as [[ | | | |p] [|x [|y r]]]; try discriminate.
    apply andb_prop in H. destruct H as [_ H]. apply Nat.ltb_lt in H. lia.
  - apply andb_prop in H. destruct H as [Hq H0]. apply Nat.eqb_eq in Hq. apply Nat.eqb_eq in H0. subst q pt.
    simpl. apply Hev. lia.
  - destruct s as [[ | | | |p] [|x [|y r]]]; try discriminate.
    apply andb_prop in H. destruct H as [H Hlt]. apply andb_prop in H. destruct H as [Hpe Hx].
    apply Nat.eqb_eq in Hpe. apply Nat.eqb_eq in Hx. apply Nat.ltb_lt in Hlt. subst p x.
    rewrite nth_map_seq by exact Hlt.
    destruct fuel as [|f]; [lia|]. simpl. rewrite Hs. simpl.
    rewrite (Hev f) by lia. reflexivity.
Qed.

Lemma all2_sound i fuel : sound_upto i -> i <= List.length nodes -> 2 * i + 1 <= fuel ->
  forall args ins, forallb (fun jp => Nat.ltb (fst jp) i) ins = true -> all2 (delivers nodes t) args ins = true ->
  traverse (eval fuel a nodes t) args = Some (map (value (geval a (firstn i nodes))) ins).
Proof.
  intros IH Hi Hf. induction args as [|q args IHa]; intros [|jp ins] Hlt H; simpl in H; try discriminate; [reflexivity|].
  simpl in Hlt. apply andb_prop in Hlt. destruct Hlt as [Hj Hlt]. apply Nat.ltb_lt in Hj.
  apply andb_prop in H. destruct H as [Hd H].
  simpl. rewrite (delivers_sound i q jp fuel IH Hi Hj ltac:(lia) Hd). simpl.
  rewrite (IHa ins Hlt H). reflexivity.
Qed.

Lemma loader_sound q g fuel : 1 <= fuel -> is_loader t q g = true ->
  eval fuel a nodes t q = Some (match previous a g with Some x => x | None => TNone end).
Proof.
  intros Hf H. unfold is_loader in H. destruct (nth_error t q) as [[[ | h | | | ] [|x r]]|] eqn:Hs; try discriminate.
  apply Nat.eqb_eq in H. subst h. destruct fuel as [|f]; [lia|]. simpl. rewrite Hs. reflexivity.
Qed.

Lemma node_sound i n : validate a nodes t = true -> sound_upto i -> nth_error nodes i = Some n ->
  exists p, pos t i = Some p /\ forall fuel, 2 * i + 2 <= fuel -> eval fuel a nodes t p = Some (node_term a nodes i).
Proof.
  intros Hv IH Hn. assert (Hvn := validate_nth i n Hv Hn). unfold valid_node in Hvn.
  assert (Hi : i <= List.length nodes) by (apply Nat.lt_le_incl, nth_error_Some; rewrite Hn; discriminate).
  destruct (pos t i) as [p|] eqn:Hp; [|discriminate]. exists p. split; [reflexivity|].
  destruct (find_pos_spec _ _ _ Hp) as [s [Hs Hfs]]. rewrite Hs in Hvn.
  destruct s as [[j train preset| | | | ] args]; try discriminate. simpl in Hfs. apply Nat.eqb_eq in Hfs. subst j.
  intros fuel Hf. destruct fuel as [|f]; [lia|]. simpl. rewrite Hs. simpl.
  apply andb_prop in Hvn. destruct Hvn as [Hvn Hk]. apply andb_prop in Hvn. destruct Hvn as [Hvn Hst].
  apply andb_prop in Hvn. destruct Hvn as [Htr Hlt]. apply eqb_prop in Htr. subst train.
  unfold node_term. rewrite Hn. unfold is_train in *.
  destruct (nkind n) as [inputs|tr lb] eqn:Ek.
  - (* applied *)
    destruct (nstateful n) eqn:Es.
    + rewrite (trained_lookup (ngid n) i Hi).
      destruct (trainer nodes i (ngid n)) as [k|] eqn:Et.
      * destruct (trainer_lt _ _ _ Et) as [Hki [nk Hnk]].
        destruct preset; [|discriminate]. simpl in Hk.
        destruct args as [|sa rest]; [discriminate|]. destruct (pos t k) as [pk|] eqn:Hpk; [|discriminate].
        apply andb_prop in Hk. destruct Hk as [Hsa Hrest]. apply Nat.eqb_eq in Hsa. subst sa.
        destruct (IH k nk Hki Hnk) as [pk' [Hpk' Hev]]. rewrite Hpk in Hpk'. injection Hpk' as <-.
        simpl. rewrite (Hev f) by lia. simpl.
        rewrite (all2_sound i f IH Hi ltac:(lia) rest inputs Hlt Hrest). simpl. reflexivity.
      * simpl in Hk. destruct (persistent a (ngid n)) eqn:Ep.
        -- destruct preset; [|discriminate]. simpl in Hk. destruct args as [|sa rest]; [discriminate|].
           apply andb_prop in Hk. destruct Hk as [Hl Hrest].
           simpl. rewrite (loader_sound sa (ngid n) f ltac:(lia) Hl). simpl.
           rewrite (all2_sound i f IH Hi ltac:(lia) rest inputs Hlt Hrest). simpl. reflexivity.
        -- destruct preset; [discriminate|]. simpl in Hk.
           rewrite (all2_sound i f IH Hi ltac:(lia) args inputs Hlt Hk). simpl.
           rewrite (not_persistent_previous _ Ep). reflexivity.
    + simpl in Hk. destruct preset; [discriminate|]. simpl in Hk.
      rewrite (all2_sound i f IH Hi ltac:(lia) args inputs Hlt Hk). simpl. reflexivity.
  - (* trained *)
    destruct (persistent a (ngid n)) eqn:Ep.
    + destruct preset; [|discriminate]. simpl in Hk. destruct args as [|sa rest]; [discriminate|].
      apply andb_prop in Hk. destruct Hk as [Hl Hrest].
      simpl. rewrite (loader_sound sa (ngid n) f ltac:(lia) Hl). simpl.
      rewrite (all2_sound i f IH Hi ltac:(lia) rest [tr; lb] Hlt Hrest). simpl. reflexivity.
    + destruct preset; [discriminate|]. simpl in Hk.
      rewrite (all2_sound i f IH Hi ltac:(lia) args [tr; lb] Hlt Hk). simpl.
      rewrite (not_persistent_previous _ Ep). reflexivity.
Qed.

Theorem validate_sound : validate a nodes t = true ->
  forall i n, nth_error nodes i = Some n ->
    exists p, pos t i = Some p /\ forall fuel, 2 * i + 2 <= fuel -> eval fuel a nodes t p = Some (node_term a nodes i).
Proof.
  intros Hv. assert (H : forall i, sound_upto i).
  { induction i as [|i IH]; intros j n Hj Hn; [lia|].
    destruct (Nat.eq_dec j i) as [->|Hne].
    - apply (node_sound i n Hv IH Hn).
    - apply (IH j n ltac:(lia) Hn). }
  intros i n Hn. apply (node_sound i n Hv (H i) Hn).
Qed.

(* what a consumer of output port p of node i receives is the graph value of that port *)
Theorem port_value : forall i n p, nth_error nodes i = Some n -> is_train n = false -> p < nszout n ->
  value (geval a nodes) (i, p) = match nszout n with 1 => node_term a nodes i | _ => TProj p (node_term a nodes i) end.
Proof.
  intros i n p Hn Htr Hp. assert (Hi : i < List.length nodes) by (apply nth_error_Some; rewrite Hn; discriminate).
  unfold value. simpl. rewrite <- (firstn_all nodes) at 1. rewrite (outputs_nth (List.length nodes) i Hi (le_n _)).
  unfold node_row. rewrite Hn. unfold is_train in Htr. destruct (nkind n); [|discriminate].
  destruct (nszout n) as [|[|k]] eqn:Ek; [lia| |].
  - assert (p = 0) by lia. subst p. reflexivity.
  - apply nth_map_seq. exact Hp.
Qed.

(* the commit: the committer symbol receives, per persistent group at its list position, the state its trained
   member produced in this run *)
Definition commit_states (l : list (nat * term)) : list term :=
  map (fun gt => match lookup_gid (fst gt) (trained (geval a nodes)) with Some s => s | None => TNone end) l.

Lemma dumpers_sound fuel : validate a nodes t = true -> 2 * List.length nodes + 3 <= fuel ->
  forall args (l : list (nat * term)),
  all2 (fun d gt =>
          match nth_error t d, trainer nodes (List.length nodes) (fst gt) with
          | Some (ODumper, [f]), Some k => match pos t k with Some pk => Nat.eqb f pk | None => false end
          | _, _ => false
          end) args l = true ->
  traverse (eval fuel a nodes t) args = Some (commit_states l).
Proof.
  intros Hv Hf. induction args as [|d args IHa]; intros [|gt l] H; simpl in H; try discriminate; [reflexivity|].
  apply andb_prop in H. destruct H as [Hd H].
  destruct (nth_error t d) as [[[ | | | | ] [|x [|y r]]]|] eqn:Hs; try discriminate.
  destruct (trainer nodes (List.length nodes) (fst gt)) as [k|] eqn:Et; [|discriminate].
  destruct (pos t k) as [pk|] eqn:Hpk; [|discriminate]. apply Nat.eqb_eq in Hd. subst x.
  destruct (trainer_lt _ _ _ Et) as [Hk [nk Hnk]].
  destruct (validate_sound Hv k nk Hnk) as [pk' [Hpk' Hev]]. rewrite Hpk in Hpk'. injection Hpk' as <-.
  unfold commit_states. simpl. rewrite <- (firstn_all nodes) at 2.
  rewrite (trained_lookup (fst gt) (List.length nodes) (le_n _)), Et. simpl.
  destruct fuel as [|f]; [lia|]. simpl. rewrite Hs. simpl. rewrite (Hev f) by lia. simpl.
  change (traverse (eval (S f) a nodes t) args) with (traverse (eval (S f) a nodes t) args).
  specialize (IHa l H). unfold commit_states in IHa. simpl in IHa. rewrite IHa. reflexivity.
Qed.

Theorem commit_sound l c : a = Some l -> validate a nodes t = true -> valid_commit a nodes t = true ->
  find_pos (fun s => match fst s with OCommitter => true | _ => false end) t = Some c ->
  forall fuel, 2 * List.length nodes + 4 <= fuel -> eval fuel a nodes t c = Some (TTup (commit_states l)).
Proof.
  intros Ha Hv Hc Hf fuel Hfuel. unfold valid_commit in Hc. rewrite Ha in Hc. rewrite Hf in Hc.
  destruct (find_pos_spec _ _ _ Hf) as [s [Hs Hop]]. rewrite Hs in Hc. destruct s as [o args]. simpl in Hop.
  destruct o; try discriminate.
  destruct fuel as [|f]; [lia|]. simpl. rewrite Hs. simpl.
  rewrite (dumpers_sound f Hv ltac:(lia) args l Hc). reflexivity.
Qed.

End Sound.
