(* C04 - positional binding is correct: states bound by position reach the actors that produced them. *)
Require Import List Bool ZArith Lia.
From FV Require Import Lib.Sym Model.C03 Model.C04.
Import ListNotations.

Lemma train_op_persisted prev o s : exists extra, persisted (train_op prev o s) = persisted s ++ extra.
Proof. unfold train_op. simpl. eexists. reflexivity. Qed.

Lemma train_run_persisted prev ops : forall s, exists extra, persisted (train_run prev ops s) = persisted s ++ extra.
Proof.
  induction ops as [|o r IH]; intros s; simpl; [exists []; rewrite app_nil_r; reflexivity|].
  destruct (IH (train_op prev o s)) as [e1 H1]. destruct (train_op_persisted prev o s) as [e2 H2].
  exists (e2 ++ e1). unfold train_run in *. rewrite H1, H2, app_assoc. reflexivity.
Qed.

Lemma train_op_stateful prev o s a : oapply o = Some a -> astateful a = true ->
  exists sa, persisted (train_op prev o s) = persisted s ++ [sa] /\ xa (train_op prev o s) = act a sa (xa s).
Proof. intros Ha Hs. unfold train_op. rewrite Ha, Hs. simpl. eexists. split; reflexivity. Qed.

Lemma train_op_stateless prev o s a : oapply o = Some a -> astateful a = false ->
  persisted (train_op prev o s) = persisted s /\ xa (train_op prev o s) = act a TNone (xa s).
Proof. intros Ha Hs. unfold train_op, fit_prev. rewrite Ha, Hs. simpl. rewrite app_nil_r. split; reflexivity. Qed.

Lemma train_op_noapply prev o s : oapply o = None ->
  persisted (train_op prev o s) = persisted s /\ xa (train_op prev o s) = xa s.
Proof. intros Ha. unfold train_op. rewrite Ha. simpl. rewrite app_nil_r. split; reflexivity. Qed.

(* the apply chain of a re-expanded pipeline, fed the committed list of a training run by position, computes exactly
   what the training run's own apply path denotes: every stateful actor receives the state its counterpart produced *)
Lemma binding_general prev ops : forall s,
  apply_run ops (persisted (train_run prev ops s)) (List.length (persisted s)) (xa s) = xa (train_run prev ops s).
Proof.
  induction ops as [|o r IH]; intros s; [reflexivity|].
  change (train_run prev (o :: r) s) with (train_run prev r (train_op prev o s)).
  specialize (IH (train_op prev o s)).
  destruct (train_run_persisted prev r (train_op prev o s)) as [extra Hx].
  simpl apply_run. destruct (oapply o) as [a|] eqn:Ha.
  - destruct (astateful a) eqn:Hs.
    + destruct (train_op_stateful prev o s a Ha Hs) as [sa [Hp Hxa]].
      rewrite Hxa, Hp, app_length in IH. cbn [List.length] in IH. rewrite Nat.add_1_r in IH.
      assert (nth (List.length (persisted s)) (persisted (train_run prev r (train_op prev o s))) TNone = sa) as ->; [|exact IH].
      rewrite Hx, Hp, <- app_assoc, app_nth2 by lia. rewrite Nat.sub_diag. reflexivity.
    + destruct (train_op_stateless prev o s a Ha Hs) as [Hp Hxa]. rewrite Hxa, Hp in IH. exact IH.
  - destruct (train_op_noapply prev o s Ha) as [Hp Hxa]. rewrite Hxa, Hp in IH. exact IH.
Qed.

Lemma positional_binding prev ops s : persisted s = [] ->
  apply_run ops (persisted (train_run prev ops s)) 0 (xa s) = xa (train_run prev ops s).
Proof. intros H. pose proof (binding_general prev ops s) as G. rewrite H in G. exact G. Qed.

(* a retraining run continues, actor by actor, from the state stored at the actor's own position *)
Lemma retrain_slot prev o s a :
  oapply o = Some a -> astateful a = true ->
  exists feats labels, persisted (train_op prev o s)
    = persisted s ++ [TState (aname a) (ahp a) (nth (List.length (persisted s)) prev TNone) feats labels].
Proof.
  intros Ha Hs. unfold train_op. rewrite Ha, Hs. unfold fit_prev. rewrite Hs. simpl. eexists. eexists. reflexivity.
Qed.
