(* C03 + C01 + C04: training a pipeline commits exactly the states the expression semantics trains for its stateful
   apply-path actors, in pipeline order - whatever order the traversal visits the graph in. *)
Require Import List Bool ZArith Arith Lia.
From FV Require Import Lib.Sym Model.C01 Model.C01Compile Proofs.C01 Proofs.C01Compile Proofs.C01Blocks Proofs.C01Inv Proofs.C01Canon Proofs.C01Main
                       Model.C03 Model.C03Graph Proofs.C03GraphEval Proofs.C03GraphWf Proofs.C03GraphPers.
Import ListNotations.

(* an accessor whose stored states are all empty does not change what the graph computes *)
Lemma geval_prev_none l nodes : (forall gt, In gt l -> snd gt = TNone) -> geval (Some l) nodes = geval None nodes.
Proof.
  intros Hl. unfold geval. generalize (Env [] []). induction nodes as [|n ns IH]; intros e; simpl; [reflexivity|].
  assert (P : forall g, match lookup_gid g l with Some t => t | None => TNone end = TNone).
  { intros g. destruct (lookup_gid g l) as [t|] eqn:E; [|reflexivity].
    assert (In (g, t) l).
    { clear -E. induction l as [|[g' x] l IH]; simpl in E; [discriminate|]. destruct (Nat.eqb g g') eqn:Eg; [apply Nat.eqb_eq in Eg; injection E as ->; subst; left; reflexivity|right; apply IH; exact E]. }
    exact (Hl _ H). }
  assert (E : eval_node (Some l) e n = eval_node None e n).
  { unfold eval_node, previous. destruct (nkind n) as [ins|tr lb]; simpl; rewrite P; reflexivity. }
  rewrite E. apply IH.
Qed.

Lemma pers_op_lower o gs g : In g (pers_op o gs) -> gfresh gs <= g.
Proof.
  unfold pers_op. destruct (oapply o) as [a|]; [|intros []]. destruct (astateful a); [|intros []].
  intros [<-|[]]. destruct (olabel o); lia.
Qed.

Lemma pers_nodup : forall e s gs ps, agree s gs -> pinv s gs ps -> NoDup ps -> NoDup (ps ++ pers_gids e gs).
Proof.
  induction e as [o|l IHl r IHr]; intros s gs ps Ha Hp Hd; simpl.
  - apply NoDup_app_intro; [exact Hd| |].
    + unfold pers_op. destruct (oapply o) as [a|]; [|constructor]. destruct (astateful a); [|constructor]. constructor; [intros []|constructor].
    + intros z Hz Hz'. pose proof (proj2 Hp z Hz). pose proof (pers_op_lower o gs z Hz'). lia.
  - rewrite app_assoc. apply (IHr (den l s) (build l gs)); [apply build_agree; exact Ha|apply build_pers; assumption|apply (IHl s gs); assumption].
Qed.

Definition is_state (t : term) : Prop := exists n h f l, t = TState n h TNone f l.

Lemma den_persisted_states : forall e s, Forall is_state (persisted s) -> Forall is_state (persisted (den e s)).
Proof.
  induction e as [o|l IHl r IHr]; intros s H; simpl; [|apply IHr, IHl; exact H].
  unfold den_op. simpl. apply Forall_app. split; [exact H|].
  destruct (oapply o) as [a|]; [|constructor]. destruct (astateful a) eqn:Hs; [|constructor]. constructor; [|constructor].
  unfold fit. rewrite Hs. unfold is_state. eauto.
Qed.

Lemma persistent_in l g : In g (map fst l) -> persistent (Some l) g = true.
Proof.
  unfold persistent. induction l as [|[g' x] l IH]; simpl; [intros []|]. intros [<-|H]; [rewrite Nat.eqb_refl; reflexivity|].
  destruct (Nat.eqb g g'); [reflexivity|]. specialize (IH H). destruct (offset_of g l); [reflexivity|discriminate].
Qed.

Section Commit.
Variable e : expr.
Variables sa st sl : nat.
Let gs := build e (gsource sa st sl).
Let s := den e (source sa st sl).
Let nodes := gnodes gs.
Let gids := pers_gids e (gsource sa st sl).
Let l := map (fun g => (g, TNone)) gids.

Lemma gids_trained g : In g gids -> exists k ndk, nth_error nodes k = Some ndk /\ is_train ndk = true /\ ngid ndk = g.
Proof.
  intros Hg. pose proof (pipeline_persisted e sa st sl) as HP. fold gs in HP. fold nodes in HP. fold gids in HP. fold s in HP.
  assert (HS : Forall is_state (persisted s)) by (apply den_persisted_states; constructor).
  assert (Hst : is_state (state_of nodes g)).
  { rewrite <- HP in HS. rewrite Forall_forall in HS. apply HS. apply in_map. exact Hg. }
  unfold state_of, ev in Hst. pose proof (trained_lookup None nodes g (List.length nodes) (le_n _)) as TL. rewrite firstn_all in TL.
  destruct (trainer nodes (List.length nodes) g) as [k|] eqn:Et.
  - destruct (trainer_some nodes g _ k Et) as [_ [ndk [Hnk [Hgk Htk]]]]. exists k, ndk. auto.
  - rewrite TL in Hst. simpl in Hst. destruct Hst as [n [h [f [x X]]]]. discriminate X.
Qed.

Lemma commit_wf : WF (Some l) nodes.
Proof.
  destruct (build_ginv e _ (ginv_source sa st sl)) as [[P1 P2 P3 P4] _]. constructor.
  - intros j nd q ip Hn Hq. destruct (P1 j nd q ip Hn Hq) as [X [ndi Y]]. split; [exact X|exists ndi; exact Y].
  - exact P2.
  - exact P3.
  - intros l' E. injection E as <-. unfold l. rewrite map_map. simpl. rewrite map_id.
    apply (pers_nodup e (source sa st sl) (gsource sa st sl) [] (agree_source sa st sl)); [split; [reflexivity|intros g []]|constructor].
Qed.

Theorem pipeline_commits visit : NoDup visit -> (forall i, In i visit -> i < List.length nodes) -> List.length visit = List.length nodes ->
  exists tb, bind (compile (Some l) nodes visit) canon = Some tb
    /\ (gids <> [] -> exists c, find_pos (fun sy => match fst sy with OCommitter => true | _ => false end) tb = Some c
          /\ forall fuel, 2 * List.length nodes + 4 <= fuel -> eval fuel (Some l) nodes tb c = Some (TTup (persisted s))).
Proof.
  intros Hnd Hlt Hlen. pose proof commit_wf as wf.
  destruct (build_ginv e _ (ginv_source sa st sl)) as [Hw _]. fold gs in Hw. fold nodes in Hw.
  assert (Hc : compile_ok (Some l) nodes visit = true).
  { apply compile_correct_prop; [exact wf| | |exact Hnd|exact Hlt|exact Hlen].
    - intros i nd k ndk Hn Hk Htr _ Htk Hg. exact (g_first _ Hw i nd k ndk Hn Hk Htr Htk Hg).
    - intros l' E. injection E as <-. left. intros gt Hgt. unfold l in Hgt. apply in_map_iff in Hgt. destruct Hgt as [g [<- Hg]]. simpl. exact (gids_trained g Hg). }
  unfold compile_ok in Hc. destruct (bind (compile (Some l) nodes visit) canon) as [tb|]; [|discriminate].
  apply andb_prop in Hc. destruct Hc as [Hv Hcm]. exists tb. split; [reflexivity|]. intros Hne.
  assert (Hcs : commit_states (Some l) nodes l = persisted s).
  { unfold commit_states. rewrite geval_prev_none by (intros gt Hgt; unfold l in Hgt; apply in_map_iff in Hgt; destruct Hgt as [g [<- _]]; reflexivity).
    unfold l. rewrite map_map. simpl. pose proof (pipeline_persisted e sa st sl) as HP. fold gs in HP. fold nodes in HP. fold gids in HP. fold s in HP.
    rewrite <- HP. reflexivity. }
  destruct (find_pos (fun sy => match fst sy with OCommitter => true | _ => false end) tb) as [c|] eqn:Ef.
  - exists c. split; [reflexivity|]. intros fuel Hf. rewrite <- Hcs. exact (commit_sound (Some l) nodes tb l c eq_refl Hv Hcm Ef fuel Hf).
  - exfalso. unfold valid_commit in Hcm. rewrite Ef in Hcm. apply negb_true_iff in Hcm.
    assert (Hex : exists g, In g gids) by (destruct gids as [|g gr]; [contradiction|exists g; left; reflexivity]).
    destruct Hex as [g Hg]. destruct (gids_trained g Hg) as [k [ndk [Hnk [Htk Hgk]]]].
    assert (X : existsb (fun n => is_train n && persistent (Some l) (ngid n)) nodes = true).
    { apply existsb_exists. exists ndk. split; [exact (nth_error_In _ _ Hnk)|]. rewrite Htk, Hgk. simpl.
      apply persistent_in. unfold l. rewrite map_map. simpl. rewrite map_id. exact Hg. }
    congruence.
Qed.
End Commit.
