(* C10 - proofs about the ordinal-window model. *)
Require Import ZArith List Bool Lia ZifyBool.
From FV Require Import Model.C10Base Generated.C10Once Model.C10.
Import ListNotations.
Open Scope Z_scope.

Fixpoint increasing (bs : list Z) : Prop :=
  match bs with
  | a :: ((b :: _) as r) => a < b /\ increasing r
  | _ => True
  end.

Definition b2n (b : bool) : nat := if b then 1%nat else 0%nat.

Lemma increasing_tail a r : increasing (a :: r) -> increasing r.
Proof. destruct r as [|b r]; simpl; tauto. Qed.

Lemma increasing_above a r : increasing (a :: r) -> forall x, In x r -> a < x.
Proof.
  revert a; induction r as [|b r IH]; intros a H x Hx; [destruct Hx|].
  destruct H as [Hab Hr]. destruct Hx as [->|Hx]; [exact Hab|].
  specialize (IH b Hr x Hx). lia.
Qed.

Lemma last_indep (a b c : Z) l : last (c :: l) a = last (c :: l) b.
Proof. revert c; induction l as [|d l IH]; intros c; [reflexivity|]. change (last (d :: l) a = last (d :: l) b). apply IH. Qed.

Lemma last_cons_ne (a b c : Z) r : last (b :: c :: r) a = last (c :: r) b.
Proof. change (last (c :: r) a = last (c :: r) b). apply last_indep. Qed.

Lemma last_shift (a b : Z) r : last (b :: r) a = last r b.
Proof. destruct r as [|c r]; [reflexivity|apply last_cons_ne]. Qed.

Lemma last_ge a r : increasing (a :: r) -> a <= last r a.
Proof.
  revert a; induction r as [|b r IH]; intros a H; [simpl; lia|].
  rewrite last_shift. destruct H as [Hab Hr]. specialize (IH b Hr). lia.
Qed.

Lemma le_last b l : increasing (b :: l) -> forall x, In x l -> x <= last l b.
Proof.
  revert b; induction l as [|y l IH]; intros b H x Hx; [destruct Hx|].
  rewrite last_shift. pose proof (increasing_tail _ _ H) as Hy.
  destruct Hx as [<-|Hx]; [apply last_ge; exact Hy|apply IH; assumption].
Qed.

Lemma last_in (a : Z) r : r <> [] -> In (last r a) r.
Proof.
  induction r as [|b r IH]; intros H; [congruence|].
  destruct r as [|c r]; [left; reflexivity|]. right. apply IH. congruence.
Qed.

Lemma delivered_cons s a b r v :
  delivered s (a :: b :: r) v = Nat.add (b2n (in_window s (Some a) (Some b) v)) (delivered s (b :: r) v).
Proof. unfold delivered, hits. cbn [windows filter fst snd]. destruct (in_window _ _ _ _); reflexivity. Qed.

(* ---- EXACTLY ------------------------------------------------------------------------------- *)
Lemma exactly_formula a r v :
  increasing (a :: r) -> delivered Exactly (a :: r) v = b2n ((a <=? v) && (v <? last r a)).
Proof.
  revert a; induction r as [|b r IH]; intros a H.
  - cbn. destruct (a <=? v) eqn:?, (v <? a) eqn:?; simpl; try reflexivity; lia.
  - rewrite delivered_cons, (IH b (increasing_tail _ _ H)).
    pose proof (last_ge b r (increasing_tail _ _ H)) as Hl. destruct H as [Hab _].
    rewrite (last_shift a b r).
    unfold in_window, once_lower, once_upper, cmp_eval.
    destruct (a <=? v) eqn:?, (v <? b) eqn:?, (b <=? v) eqn:?, (v <? last r b) eqn:?; simpl; try reflexivity; lia.
Qed.

(* ---- ATMOST -------------------------------------------------------------------------------- *)
Lemma atmost_formula a r v :
  increasing (a :: r) -> delivered Atmost (a :: r) v = b2n ((a <? v) && (v <=? last r a)).
Proof.
  revert a; induction r as [|b r IH]; intros a H.
  - cbn. destruct (a <? v) eqn:?, (v <=? a) eqn:?; simpl; try reflexivity; lia.
  - rewrite delivered_cons, (IH b (increasing_tail _ _ H)).
    pose proof (last_ge b r (increasing_tail _ _ H)) as Hl. destruct H as [Hab _].
    rewrite (last_shift a b r).
    unfold in_window, once_lower, once_upper, cmp_eval.
    destruct (a <? v) eqn:?, (v <=? b) eqn:?, (b <? v) eqn:?, (v <=? last r b) eqn:?; simpl; try reflexivity; lia.
Qed.

(* ---- ATLEAST ------------------------------------------------------------------------------- *)
Definition nonempty {A} (l : list A) : bool := match l with [] => false | _ => true end.

Lemma existsb_false_above v l b : (forall x, In x l -> b < x) -> v <= b -> existsb (Z.eqb v) l = false.
Proof.
  intros H Hv. induction l as [|x l IH]; [reflexivity|]. simpl.
  assert (b < x) by (apply H; left; reflexivity).
  rewrite IH by (intros y Hy; apply H; right; exact Hy).
  destruct (v =? x) eqn:?; [lia|reflexivity].
Qed.

Lemma in_removelast {A} (x : A) l : In x (removelast l) -> In x l.
Proof.
  induction l as [|y l IH]; [intros []|]. simpl. destruct l as [|z l]; [intros []|].
  intros [->|H]; [left; reflexivity|right; apply IH; exact H].
Qed.

Lemma atleast_formula a r v :
  increasing (a :: r) ->
  delivered Atleast (a :: r) v
  = Nat.add (b2n ((a <=? v) && (v <=? last r a) && nonempty r)) (b2n (existsb (Z.eqb v) (removelast r))).
Proof.
  revert a; induction r as [|b r IH]; intros a H.
  - cbn. rewrite andb_false_r. reflexivity.
  - rewrite delivered_cons, (IH b (increasing_tail _ _ H)).
    pose proof (last_ge b r (increasing_tail _ _ H)) as Hl.
    pose proof (increasing_above b r (increasing_tail _ _ H)) as Habove.
    pose proof (increasing_tail _ _ H) as Hinc.
    destruct H as [Hab _].
    rewrite (last_shift a b r).
    destruct r as [|c r].
    + cbn. unfold in_window, once_lower, once_upper, cmp_eval.
      destruct (a <=? v) eqn:?, (v <=? b) eqn:?, (b <=? v) eqn:?; simpl; try reflexivity; lia.
    + change (removelast (b :: c :: r)) with (b :: removelast (c :: r)).
      cbn [existsb nonempty]. rewrite !andb_true_r.
      unfold in_window, once_lower, once_upper, cmp_eval.
      destruct (v =? b) eqn:Hvb.
      * rewrite (existsb_false_above v (removelast (c :: r)) b) by
          (try (intros x Hx; apply Habove, in_removelast; exact Hx); lia).
        destruct (a <=? v) eqn:?, (v <=? b) eqn:?, (b <=? v) eqn:?, (v <=? last (c :: r) b) eqn:?; simpl; try reflexivity; lia.
      * destruct (existsb (Z.eqb v) (removelast (c :: r))) eqn:Hex.
        -- apply existsb_exists in Hex. destruct Hex as [x [Hx Hvx]].
           pose proof (Habove x (in_removelast _ _ Hx)).
           pose proof (le_last b (c :: r) Hinc x (in_removelast _ _ Hx)).
           destruct (a <=? v) eqn:?, (v <=? b) eqn:?, (b <=? v) eqn:?, (v <=? last (c :: r) b) eqn:?; simpl; try reflexivity; lia.
        -- destruct (a <=? v) eqn:?, (v <=? b) eqn:?, (b <=? v) eqn:?, (v <=? last (c :: r) b) eqn:?; simpl; try reflexivity; lia.
Qed.

(* ---- property-shaped corollaries -------------------------------------------------------------- *)
Definition first_bound (bs : list Z) : Z := hd 0 bs.
Definition last_bound (bs : list Z) : Z := last bs 0.

Lemma bounds_cons a r : first_bound (a :: r) = a /\ last_bound (a :: r) = last r a.
Proof. split; [reflexivity|apply last_shift]. Qed.

Lemma exactly_once bs v :
  increasing bs ->
  (first_bound bs <= v < last_bound bs -> delivered Exactly bs v = 1%nat)
  /\ (~ (first_bound bs <= v < last_bound bs) -> delivered Exactly bs v = 0%nat).
Proof.
  destruct bs as [|a r]; intros H.
  - cbn. split; [lia|reflexivity].
  - destruct (bounds_cons a r) as [-> ->]. rewrite (exactly_formula a r v H).
    destruct (a <=? v) eqn:?, (v <? last r a) eqn:?; simpl; split; intros; try reflexivity; lia.
Qed.

Lemma atmost_once bs v :
  increasing bs ->
  (first_bound bs < v <= last_bound bs -> delivered Atmost bs v = 1%nat)
  /\ (~ (first_bound bs < v <= last_bound bs) -> delivered Atmost bs v = 0%nat).
Proof.
  destruct bs as [|a r]; intros H.
  - cbn. split; [lia|reflexivity].
  - destruct (bounds_cons a r) as [-> ->]. rewrite (atmost_formula a r v H).
    destruct (a <? v) eqn:?, (v <=? last r a) eqn:?; simpl; split; intros; try reflexivity; lia.
Qed.

Definition interior (bs : list Z) : list Z := removelast (tl bs).

Lemma atleast_once bs v :
  increasing bs -> (2 <= List.length bs)%nat ->
  (first_bound bs <= v <= last_bound bs ->
     delivered Atleast bs v = (if existsb (Z.eqb v) (interior bs) then 2%nat else 1%nat))
  /\ (~ (first_bound bs <= v <= last_bound bs) -> delivered Atleast bs v = 0%nat).
Proof.
  destruct bs as [|a r]; intros H Hlen; [simpl in Hlen; lia|].
  destruct (bounds_cons a r) as [-> ->]. rewrite (atleast_formula a r v H).
  unfold interior. cbn [tl].
  assert (nonempty r = true) as -> by (destruct r; [simpl in Hlen; lia|reflexivity]).
  rewrite andb_true_r.
  split; intros Hv.
  - assert ((a <=? v) && (v <=? last r a) = true) as -> by lia.
    destruct (existsb _ _); reflexivity.
  - assert ((a <=? v) && (v <=? last r a) = false) as -> by lia.
    destruct (existsb (Z.eqb v) (removelast r)) eqn:Hex; [|reflexivity].
    exfalso. apply existsb_exists in Hex. destruct Hex as [x [Hx Hvx]].
    pose proof (increasing_above a r H x (in_removelast _ _ Hx)).
    pose proof (le_last a r H x (in_removelast _ _ Hx)). lia.
Qed.

Lemma interior_in v bs : existsb (Z.eqb v) (interior bs) = true -> In v bs.
Proof.
  intros Hex. apply existsb_exists in Hex. destruct Hex as [x [Hx Hvx]].
  assert (v = x) as -> by lia. destruct bs as [|a r]; [destruct Hx|]. right. apply in_removelast. exact Hx.
Qed.

Lemma last_bound_in bs : bs <> [] -> In (last_bound bs) bs.
Proof. intros H. unfold last_bound. apply last_in. exact H. Qed.

(* a record inside [b0, bn] that is not delivered exactly once sits on a bound *)
Lemma only_bounds_affected s bs v :
  increasing bs -> (2 <= List.length bs)%nat ->
  first_bound bs <= v <= last_bound bs -> delivered s bs v <> 1%nat -> In v bs.
Proof.
  intros H Hlen Hv Hd.
  assert (bs <> []) as Hne by (destruct bs; [simpl in Hlen; lia|congruence]).
  destruct s.
  - destruct (exactly_once bs v H) as [H1 _].
    assert (v = last_bound bs) as -> by (destruct (Z.eq_dec v (last_bound bs)); [assumption|exfalso; apply Hd, H1; lia]).
    apply last_bound_in; exact Hne.
  - destruct (atmost_once bs v H) as [H1 _].
    assert (v = first_bound bs) as -> by (destruct (Z.eq_dec v (first_bound bs)); [assumption|exfalso; apply Hd, H1; lia]).
    destruct bs; [congruence|left; reflexivity].
  - destruct (atleast_once bs v H Hlen) as [H1 _]. specialize (H1 Hv).
    destruct (existsb (Z.eqb v) (interior bs)) eqn:Hex; [apply interior_in; exact Hex|congruence].
Qed.

(* ---- open ends -------------------------------------------------------------------------------- *)
Lemma odelivered_unfold s a r v :
  odelivered s (a :: r) v
  = Nat.add (b2n (in_window s None (Some a) v))
      (Nat.add (delivered s (a :: r) v) (b2n (in_window s (Some (last r a)) None v))).
Proof.
  unfold odelivered, owindows. rewrite last_shift.
  cbn [filter fst snd]. rewrite filter_app. cbn [filter fst snd].
  assert (forall ws, List.length (filter (fun w : option Z * option Z => in_window s (fst w) (snd w) v)
                        (map (fun w : Z * Z => (Some (fst w), Some (snd w))) ws)) = hits s ws v) as Hm.
  { induction ws as [|w ws IHw]; [reflexivity|]. unfold hits in *. cbn [map filter fst snd].
    destruct (in_window s (Some (fst w)) (Some (snd w)) v); cbn [List.length]; rewrite IHw; reflexivity. }
  destruct (in_window s None (Some a) v), (in_window s (Some (last r a)) None v);
    cbn [List.length b2n]; rewrite ?app_length, Hm; unfold delivered; cbn [List.length]; lia.
Qed.

Lemma open_ends_exactly bs v : increasing bs -> odelivered Exactly bs v = 1%nat.
Proof.
  destruct bs as [|a r]; intros H; [reflexivity|].
  rewrite odelivered_unfold, (exactly_formula a r v H).
  pose proof (last_ge a r H).
  unfold in_window, once_lower, once_upper, cmp_eval.
  destruct (a <=? v) eqn:?, (v <? last r a) eqn:?, (v <? a) eqn:?, (last r a <=? v) eqn:?; simpl; try reflexivity; lia.
Qed.

Lemma open_ends_atmost bs v : increasing bs -> odelivered Atmost bs v = 1%nat.
Proof.
  destruct bs as [|a r]; intros H; [reflexivity|].
  rewrite odelivered_unfold, (atmost_formula a r v H).
  pose proof (last_ge a r H).
  unfold in_window, once_lower, once_upper, cmp_eval.
  destruct (a <? v) eqn:?, (v <=? last r a) eqn:?, (v <=? a) eqn:?, (last r a <? v) eqn:?; simpl; try reflexivity; lia.
Qed.

Lemma open_ends_atleast bs v : increasing bs -> (1 <= odelivered Atleast bs v)%nat.
Proof.
  destruct bs as [|a r]; intros H; [cbn; lia|].
  rewrite odelivered_unfold.
  unfold in_window at 1 2, once_lower, once_upper, cmp_eval.
  destruct (v <=? a) eqn:?; [simpl; lia|].
  destruct (last r a <=? v) eqn:?; [simpl; lia|].
  rewrite (atleast_formula a r v H).
  assert (nonempty r = true) as -> by (destruct r; [simpl in *; lia|reflexivity]).
  assert ((a <=? v) && (v <=? last r a) = true) as -> by lia. simpl. lia.
Qed.

Lemma open_window s v : in_window s None None v = true.
Proof. reflexivity. Qed.

(* ---- refusal / training continuation ---------------------------------------------------------- *)
Lemma refuse_iff lo hi : prepared_call false lo hi = Refused <-> (lo <> None \/ hi <> None).
Proof. destruct lo, hi; simpl; split; intros; try discriminate; try reflexivity; try (left; discriminate); try (right; discriminate). destruct H; congruence. Qed.

Lemma ordinal_never_refused lo hi : prepared_call true lo hi <> Refused.
Proof. destruct lo, hi; simpl; discriminate. Qed.

Lemma ordinal_filter lo hi : (lo <> None \/ hi <> None) -> prepared_call true lo hi = Filtered lo hi.
Proof. destruct lo, hi; simpl; intros [H|H]; try reflexivity; congruence. Qed.

Lemma train_lower_explicit l tag : train_lower (Some l) tag = Some l.
Proof. reflexivity. Qed.

Lemma train_lower_default tag : train_lower None tag = tag.
Proof. reflexivity. Qed.
