(* C03 - facts about the operator-expression denotation. *)
Require Import List Bool ZArith Lia.
From FV Require Import Lib.Sym Model.C03.
Import ListNotations.

Lemma den_flatten e : forall s, den e s = fold_left (fun st o => den_op o st) (flatten e) s.
Proof.
  induction e as [o|l IHl r IHr]; intros s; simpl; [reflexivity|].
  rewrite fold_left_app, <- IHl, <- IHr. reflexivity.
Qed.

(* scoping (parenthesisation) of decorated operators never changes the result *)
Lemma den_assoc a b c s : den (ESeq a (ESeq b c)) s = den (ESeq (ESeq a b) c) s.
Proof. reflexivity. Qed.

Lemma den_same_flatten e1 e2 s : flatten e1 = flatten e2 -> den e1 s = den e2 s.
Proof. intros H. rewrite !den_flatten, H. reflexivity. Qed.

(* train/apply coherence of one operator: the apply path uses exactly the state fitted on the incoming train
   features and the operator's own (new) labels, and the train path passes on the output of that freshly fitted actor *)
Lemma op_coherence o s a :
  oapply o = Some a ->
  let y' := match olabel o with Some l => act l (fit l (xt s) (yl s)) (yl s) | None => yl s end in
  xa (den_op o s) = act a (fit a (xt s) y') (xa s)
  /\ (otrain o = TSame -> xt (den_op o s) = act a (fit a (xt s) y') (xt s))
  /\ yl (den_op o s) = y'.
Proof.
  intros Ha. unfold den_op. rewrite Ha. simpl. repeat split. intros ->. reflexivity.
Qed.

Lemma persisted_grows o s : exists extra, persisted (den_op o s) = persisted s ++ extra
  /\ List.length extra = match oapply o with Some a => if astateful a then 1 else 0 | None => 0 end.
Proof.
  unfold den_op. simpl. eexists. split; [reflexivity|]. destruct (oapply o) as [a|]; [destruct (astateful a)|]; reflexivity.
Qed.

(* the number of persisted states is the number of stateful apply-path actors, whatever the scoping *)
Definition stateful_applies (l : list opspec) : nat :=
  List.length (filter (fun o => match oapply o with Some a => astateful a | None => false end) l).

Lemma persisted_count l : forall s,
  List.length (persisted (fold_left (fun st o => den_op o st) l s)) = List.length (persisted s) + stateful_applies l.
Proof.
  induction l as [|o r IH]; intros s; simpl; [unfold stateful_applies; simpl; apply plus_n_O|].
  rewrite IH. destruct (persisted_grows o s) as [extra [-> Hlen]]. rewrite app_length, Hlen.
  unfold stateful_applies. simpl. destruct (oapply o) as [a|]; [destruct (astateful a)|]; simpl; lia.
Qed.
