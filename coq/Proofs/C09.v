(* C09 - proofs about feed selection. *)
Require Import List Bool ZArith Lia.
From FV Require Import Model.C09.
Import ListNotations.

(* a feed passed over by the matcher could not have parsed the statement *)
Lemma resolves_matcher S s : resolves S s = true -> matcher S s = true.
Proof.
  induction s as [t|i IH tag|l IHl r IHr tag|l IHl r IHr tag|i IH tag]; simpl; intros H.
  - exact H.
  - rewrite (IH H). apply orb_true_r.
  - apply andb_true_iff in H. destruct H as [H1 H2]. rewrite (IHl H1), (IHr H2). apply orb_true_r.
  - apply andb_true_iff in H. destruct H as [H1 H2]. rewrite (IHl H1), (IHr H2). apply orb_true_r.
  - rewrite (IH H). apply orb_true_r.
Qed.

Definition is_table (s : src) : bool := match s with STable _ => true | _ => false end.

Lemma src_eqb_table s x : src_eqb s x = true -> is_table x = true -> is_table s = true.
Proof. destruct s, x; simpl; intros; try discriminate; reflexivity. Qed.

Lemma advertised_tables_only S s : forallb is_table S = true -> is_table s = false -> advertised S s = false.
Proof.
  intros HS Hs. unfold advertised. apply not_true_is_false. intros H. apply existsb_exists in H.
  destruct H as [x [Hin Heq]]. rewrite forallb_forall in HS. specialize (HS x Hin).
  rewrite (src_eqb_table s x Heq HS) in Hs. discriminate.
Qed.

(* for feeds advertising tables only, selection and parser resolution coincide *)
Lemma tables_only_agree S s : forallb is_table S = true -> matcher S s = resolves S s.
Proof.
  intros HS. induction s as [t|i IH tag|l IHl r IHr tag|l IHl r IHr tag|i IH tag]; simpl; try reflexivity.
  - rewrite (advertised_tables_only S (SRef i tag) HS eq_refl). simpl. exact IH.
  - rewrite (advertised_tables_only S (SJoin l r tag) HS eq_refl). simpl. rewrite IHl, IHr. reflexivity.
  - rewrite (advertised_tables_only S (SSet l r tag) HS eq_refl). simpl. rewrite IHl, IHr. reflexivity.
  - rewrite (advertised_tables_only S (SQuery i tag) HS eq_refl). simpl. exact IH.
Qed.

(* ---- priority order -------------------------------------------------------------------------------------- *)
Lemma insert_feed_in x l y : In y (insert_feed x l) <-> y = x \/ In y l.
Proof.
  induction l as [|z r IH]; simpl; [intuition|]. destruct (prio_lt (priority (snd x)) (priority (snd z))); simpl; [rewrite IH|]; intuition.
Qed.

Lemma ordered_in pool y : In y (ordered pool) <-> In y (combine (seq 0 (List.length pool)) pool).
Proof.
  unfold ordered. induction (combine (seq 0 (List.length pool)) pool) as [|x l IH]; simpl; [tauto|].
  rewrite insert_feed_in, IH. intuition.
Qed.

Definition desc (l : list (nat * feed)) : Prop :=
  forall a b l1 l2 l3, l = l1 ++ a :: l2 ++ b :: l3 -> prio_lt (priority (snd a)) (priority (snd b)) = false.

Lemma prio_lt_trans a b c : prio_lt a b = false -> prio_lt b c = false -> prio_lt a c = false.
Proof. destruct a, b, c; simpl; intros; try reflexivity; try discriminate; rewrite Z.ltb_ge in *; lia. Qed.

(* selected = some matching feed, and every feed ordered before it does not match *)
Lemma select_first pool s i :
  select pool s = Some i ->
  exists f, In (i, f) (combine (seq 0 (List.length pool)) pool) /\ matcher (sources f) s = true
    /\ exists before after, ordered pool = before ++ (i, f) :: after
         /\ forall nf, In nf before -> matcher (sources (snd nf)) s = false.
Proof.
  unfold select. destruct (find (fun nf => matcher (sources (snd nf)) s) (ordered pool)) as [[j f]|] eqn:E; [|discriminate].
  intros [= <-]. exists f. destruct (find_some _ _ E) as [Hin Hm]. split; [apply ordered_in; exact Hin|]. split; [exact Hm|].
  clear Hin Hm. induction (ordered pool) as [|x l IH]; [discriminate|]. simpl in E.
  destruct (matcher (sources (snd x)) s) eqn:Ex.
  - injection E as ->. exists [], l. split; [reflexivity|intros nf []].
  - destruct (IH E) as [b [a [Hl Hb]]]. exists (x :: b), a. split; [rewrite Hl; reflexivity|].
    intros nf [<-|Hn]; [exact Ex|apply Hb; exact Hn].
Qed.

Lemma select_none pool s : select pool s = None <-> forall f, In f pool -> matcher (sources f) s = false.
Proof.
  unfold select. destruct (find (fun nf => matcher (sources (snd nf)) s) (ordered pool)) as [[j f]|] eqn:E.
  - split; [discriminate|]. intros H. destruct (find_some _ _ E) as [Hin Hm]. apply ordered_in in Hin.
    apply in_combine_r in Hin. simpl in Hm. rewrite (H f Hin) in Hm. discriminate.
  - split; [|reflexivity]. intros _ f Hf.
    assert (exists k', In (k', f) (ordered pool)) as [k' Hk'].
    { clear - Hf. unfold ordered. apply In_nth_error in Hf. destruct Hf as [k Hk].
      assert (exists k', In (k', f) (combine (seq 0 (List.length pool)) pool)) as [k' H].
      { revert k Hk. generalize 0 as st. induction pool as [|x r IH]; intros st k Hk; [destruct k; discriminate|].
        destruct k; simpl in *; [injection Hk as ->; eexists; left; reflexivity|]. destruct (IH (S st) k Hk) as [k' H]. exists k'. right. exact H. }
      exists k'. apply ordered_in. exact H. }
    exact (find_none _ _ E (k', f) Hk').
Qed.
