(* Correspondence support: indices of the cases on which a boolean check fails. *)
Require Import List.
Import ListNotations.

Fixpoint mismatches_from {A : Type} (chk : A -> bool) (n : nat) (l : list A) : list nat :=
  match l with
  | [] => []
  | x :: r => if chk x then mismatches_from chk (S n) r else n :: mismatches_from chk (S n) r
  end.

Definition mismatches {A : Type} (chk : A -> bool) (l : list A) : list nat := mismatches_from chk 0 l.
