(* String utilities shared by the models. *)
Require Import String Ascii List Bool Arith.
Import ListNotations.

(* str.lower() on ASCII *)
Definition lower_ascii (c : ascii) : ascii :=
  let n := nat_of_ascii c in
  if andb (Nat.leb 65 n) (Nat.leb n 90) then ascii_of_nat (n + 32) else c.

Fixpoint lower (s : string) : string :=
  match s with
  | EmptyString => EmptyString
  | String c r => String (lower_ascii c) (lower r)
  end.

Fixpoint chars (s : string) : list ascii :=
  match s with
  | EmptyString => []
  | String c r => c :: chars r
  end.

Definition ascii_eqb (a b : ascii) : bool := Nat.eqb (nat_of_ascii a) (nat_of_ascii b).

Lemma ascii_eqb_spec a b : ascii_eqb a b = true <-> a = b.
Proof.
  unfold ascii_eqb. rewrite Nat.eqb_eq. split; [|intros ->; reflexivity].
  intros H. rewrite <- (ascii_nat_embedding a), <- (ascii_nat_embedding b), H. reflexivity.
Qed.
