(* Symbolic payloads: the free term algebra mirrored by harness/flowsym.py. Equality of free terms implies
   equality under every interpretation of the actor symbols. *)
Require Import List Bool ZArith.
Import ListNotations.

Inductive term :=
  | TNone
  | TApp (name : nat) (hp : Z) (st : term) (args : list term)      (* actor `name` applied with state st *)
  | TProj (i : nat) (t : term)                                     (* i-th output of a multi-output actor *)
  | TState (name : nat) (hp : Z) (prev feats labels : term)        (* state after training on (feats, labels) *)
  | TTup (l : list term).

Fixpoint term_eqb (a b : term) {struct a} : bool :=
  match a, b with
  | TNone, TNone => true
  | TApp n h s l, TApp n' h' s' l' =>
      Nat.eqb n n' && Z.eqb h h' && term_eqb s s'
      && (fix go (x y : list term) : bool :=
            match x, y with [], [] => true | p :: x', q :: y' => term_eqb p q && go x' y' | _, _ => false end) l l'
  | TProj i t, TProj j u => Nat.eqb i j && term_eqb t u
  | TState n h p f l, TState n' h' p' f' l' =>
      Nat.eqb n n' && Z.eqb h h' && term_eqb p p' && term_eqb f f' && term_eqb l l'
  | TTup l, TTup l' =>
      (fix go (x y : list term) : bool :=
         match x, y with [], [] => true | p :: x', q :: y' => term_eqb p q && go x' y' | _, _ => false end) l l'
  | _, _ => false
  end.

Fixpoint terms_eqb (x y : list term) : bool :=
  match x, y with [], [] => true | p :: x', q :: y' => term_eqb p q && terms_eqb x' y' | _, _ => false end.
