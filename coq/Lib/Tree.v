(* Rose trees with integer labels: the structural skeleton of DSL objects (class tag / leaf value codes + children). *)
Require Import List Bool ZArith.
Import ListNotations.

Inductive tree := T (label : Z) (children : list tree).

Fixpoint tree_eqb (a b : tree) {struct a} : bool :=
  match a, b with
  | T x l, T y m =>
      Z.eqb x y
      && (fix go (p q : list tree) : bool :=
            match p, q with
            | [], [] => true
            | s :: p', t :: q' => tree_eqb s t && go p' q'
            | _, _ => false
            end) l m
  end.

Fixpoint forest_eqb (p q : list tree) : bool :=
  match p, q with
  | [], [] => true
  | s :: p', t :: q' => tree_eqb s t && forest_eqb p' q'
  | _, _ => false
  end.

Lemma tree_eqb_unfold x l y m : tree_eqb (T x l) (T y m) = Z.eqb x y && forest_eqb l m.
Proof.
  change (tree_eqb (T x l) (T y m)) with
    (Z.eqb x y && (fix go (p q : list tree) : bool :=
                     match p, q with
                     | [], [] => true
                     | s :: p', t :: q' => tree_eqb s t && go p' q'
                     | _, _ => false
                     end) l m).
  apply f_equal. revert m. induction l as [|s l IH]; intros [|t m]; reflexivity.
Qed.

(* induction principle that reaches through the children lists *)
Fixpoint tree_ind' (P : tree -> Prop) (H : forall x l, Forall P l -> P (T x l)) (t : tree) : P t :=
  match t with
  | T x l => H x l ((fix go (l : list tree) : Forall P l :=
                       match l with [] => Forall_nil P | s :: r => Forall_cons s (tree_ind' P H s) (go r) end) l)
  end.

Lemma tree_eqb_spec : forall a b, tree_eqb a b = true <-> a = b.
Proof.
  induction a as [x l IH] using tree_ind'. intros [y m]. rewrite tree_eqb_unfold, andb_true_iff, Z.eqb_eq.
  assert (forest_eqb l m = true <-> l = m) as Hf.
  { revert m. induction IH as [|s l Hs Hl IHl]; intros [|t m]; simpl; split; intros H; try discriminate; try reflexivity.
    - apply andb_true_iff in H. destruct H as [H1 H2]. apply Hs in H1. apply IHl in H2. subst. reflexivity.
    - injection H as -> ->. apply andb_true_iff. split; [apply Hs; reflexivity|apply IHl; reflexivity]. }
  rewrite Hf. split; [intros [-> ->]; reflexivity|intros [= -> ->]; auto].
Qed.

(* a structural hash: any function of the structure (here a simple polynomial mix) *)
Fixpoint tree_hash (t : tree) : Z :=
  match t with
  | T x l => fold_left (fun h c => (h * 1000003 + tree_hash c) mod 2305843009213693951)%Z l (x mod 2305843009213693951)%Z
  end.
