(* C10 - Ordinal windows deliver each record as the delivery semantic promises.
   Statements only; proofs live in Proofs/C10.v, the model in Model/C10.v, the per-semantic bound
   operators and the spelling table in Generated/C10Once.v (regenerated from /repo on every run). *)
Require Import ZArith List String Lia.
From FV Require Import Model.C10Base Generated.C10Once Model.C10 Proofs.C10.
Import ListNotations.
Open Scope Z_scope.

(* exactly-once: every record of [b0, bn) is delivered by exactly one of the consecutive windows,
   anything else by none - for every increasing bound sequence of any length *)
Theorem C10_exactly_once : forall bs v, increasing bs ->
  (first_bound bs <= v < last_bound bs -> delivered Exactly bs v = 1%nat)
  /\ (~ (first_bound bs <= v < last_bound bs) -> delivered Exactly bs v = 0%nat).
Proof. exact exactly_once. Qed.
Print Assumptions C10_exactly_once.

(* at-most-once: never twice; once exactly on (b0, bn] *)
Theorem C10_atmost_once : forall bs v, increasing bs ->
  (first_bound bs < v <= last_bound bs -> delivered Atmost bs v = 1%nat)
  /\ (~ (first_bound bs < v <= last_bound bs) -> delivered Atmost bs v = 0%nat).
Proof. exact atmost_once. Qed.
Print Assumptions C10_atmost_once.

(* at-least-once: never zero on [b0, bn]; twice exactly on the interior bounds *)
Theorem C10_atleast_once : forall bs v, increasing bs -> (2 <= List.length bs)%nat ->
  (first_bound bs <= v <= last_bound bs ->
     delivered Atleast bs v = (if existsb (Z.eqb v) (interior bs) then 2%nat else 1%nat))
  /\ (~ (first_bound bs <= v <= last_bound bs) -> delivered Atleast bs v = 0%nat).
Proof. exact atleast_once. Qed.
Print Assumptions C10_atleast_once.

(* only records whose ordinal equals a bound may be duplicated or dropped *)
Theorem C10_only_bounds_affected : forall s bs v, increasing bs -> (2 <= List.length bs)%nat ->
  first_bound bs <= v <= last_bound bs -> delivered s bs v <> 1%nat -> In v bs.
Proof. exact only_bounds_affected. Qed.
Print Assumptions C10_only_bounds_affected.

(* a missing bound leaves that side open: with both ends open every record is delivered *)
Theorem C10_open_ends : forall bs v, increasing bs ->
  odelivered Exactly bs v = 1%nat /\ odelivered Atmost bs v = 1%nat /\ (1 <= odelivered Atleast bs v)%nat
  /\ forall s, in_window s None None v = true.
Proof.
  intros bs v H. split; [apply open_ends_exactly; exact H|]. split; [apply open_ends_atmost; exact H|].
  split; [apply open_ends_atleast; exact H|intros; apply open_window].
Qed.
Print Assumptions C10_open_ends.

(* bounds given to a source without an ordinal are refused - whatever their value (0 included);
   a source with an ordinal filters by exactly the given bounds and never refuses *)
Theorem C10_refuse : forall lo hi,
  (prepared_call false lo hi = Refused <-> (lo <> None \/ hi <> None))
  /\ prepared_call true lo hi <> Refused
  /\ ((lo <> None \/ hi <> None) -> prepared_call true lo hi = Filtered lo hi).
Proof. intros lo hi. split; [apply refuse_iff|]. split; [apply ordinal_never_refused|apply ordinal_filter]. Qed.
Print Assumptions C10_refuse.

(* incremental training: an explicit lower bound is used as given, an absent one continues from the tag *)
Theorem C10_train_lower : forall l tag, train_lower (Some l) tag = Some l /\ train_lower None tag = tag.
Proof. intros; split; reflexivity. Qed.
Print Assumptions C10_train_lower.

(* every documented spelling denotes its semantic (finite table, checked against the generated one) *)
Definition documented : list (string * sem) :=
  [ ("exactly", Exactly); ("exact", Exactly); ("exactlyonce", Exactly); ("exactly-once", Exactly)
  ; ("atmost", Atmost); ("most", Atmost); ("at-most", Atmost); ("atmostonce", Atmost); ("at-most-once", Atmost)
  ; ("atleast", Atleast); ("least", Atleast); ("at-least", Atleast); ("atleastonce", Atleast); ("at-least-once", Atleast) ]%string.

Theorem C10_aliases : forall sp s, In (sp, s) documented -> alias_lookup sp = Some s.
Proof.
  assert (forallb (fun p => match alias_lookup (fst p) with Some s => sem_eqb s (snd p) | None => false end) documented = true) as H
    by (vm_compute; reflexivity).
  rewrite forallb_forall in H. intros sp s Hin. specialize (H _ Hin). cbn [fst snd] in H.
  destruct (alias_lookup sp) as [s'|]; [|discriminate]. destruct s', s; try discriminate; reflexivity.
Qed.
Print Assumptions C10_aliases.

(* non-vacuity: a concrete non-trivial bound sequence meets the hypotheses *)
Example C10_witness : increasing [1; 4; 9] /\ (2 <= List.length [1; 4; 9])%nat
  /\ delivered Atleast [1; 4; 9] 4 = 2%nat /\ delivered Exactly [1; 4; 9] 4 = 1%nat /\ delivered Atmost [1; 4; 9] 1 = 0%nat.
Proof. cbn. repeat split; lia. Qed.
