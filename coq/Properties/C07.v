(* C07 - A query statement is constructible exactly when it obeys the DSL grammar. Statements only.
   `ok_source` (Model/C07.v) mirrors the validation executed by Query.__new__, Join.__new__, Set.__new__ and the operand
   checks of the expression constructors; the theorems characterise it, form by form, as the conjunction of the documented
   rules. The model's verdict and schema are compared with the real constructors on conforming statements and on
   single-rule mutants, together with an independent oracle. *)
Require Import List Bool ZArith.
From FV Require Import Model.Dsl Model.C07 Proofs.C07.
Import ListNotations.

(* queries: features use only elements of the queried source; filters are boolean predicates; no aggregates in the
   where-condition nor in the grouping; with grouping every selected feature outside the grouping contains an aggregate *)
Theorem C07_query_accept_iff : forall src sel pre grp post ord rows,
  ok_source (SQuery src sel pre grp post ord rows) = true <->
  ( ok_source src = true
    /\ (forall f, In f sel -> constructible f = true /\ uses_only (source_elements src) f = true)
    /\ (forall p, pre = Some p -> is_predicate p = true /\ uses_only (source_elements src) p = true /\ has_agg p = false)
    /\ (forall g, In g grp -> constructible g = true /\ has_agg g = false /\ uses_only (source_elements src) g = true)
    /\ grouping_rule (match sel with [] => features_of src | _ => sel end) grp = true
    /\ (forall p, post = Some p -> is_predicate p = true /\ uses_only (source_elements src) p = true)
    /\ (forall o, In o ord -> constructible (fst o) = true /\ uses_only (source_elements src) (fst o) = true) ).
Proof. exact query_rules. Qed.
Print Assumptions C07_query_accept_iff.

Theorem C07_grouping_rule : forall selected grp, grp <> [] ->
  (grouping_rule selected grp = true <->
   forall f, In f selected -> fmem (operable f) (map operable grp) = true \/ has_agg f = true).
Proof. exact grouping_rule_spec. Qed.
Print Assumptions C07_grouping_rule.

(* joins: a cross join has no condition and every other join has one, a boolean predicate without aggregates over the
   elements of both sides *)
Theorem C07_join_accept_iff : forall k l r cond,
  ok_source (SJoin k l r cond) = true <->
  ( ok_source l = true /\ ok_source r = true
    /\ match k, cond with
       | JCross, None => True
       | JCross, Some _ => False
       | _, None => False
       | _, Some c => is_predicate c = true /\ has_agg c = false
                      /\ uses_only (flat_map elements (features_of l ++ features_of r)) c = true
       end ).
Proof. exact join_rules. Qed.
Print Assumptions C07_join_accept_iff.

(* set operands have equal schemas *)
Theorem C07_set_accept_iff : forall sk l r,
  ok_source (SSet sk l r) = true <-> (ok_source l = true /\ ok_source r = true /\ schema_eqb (schema_of l) (schema_of r) = true).
Proof. exact set_rules. Qed.
Print Assumptions C07_set_accept_iff.

(* comparison and arithmetic operands have compatible kinds, logical operands are boolean *)
Theorem C07_operand_kinds : forall o a b,
  constructible (FBin o a b) = true <->
  exists ka kb, fkind a = Some ka /\ fkind b = Some kb
    /\ (if is_arith o then is_numeric ka = true /\ is_numeric kb = true
        else if is_cmp o then (is_numeric ka = true /\ is_numeric kb = true) \/ kind_eqb ka kb = true
        else ka = KBool /\ kb = KBool).
Proof. exact bin_constructible. Qed.
Print Assumptions C07_operand_kinds.

Example C07_witness :
  let a := STable 0 [(1, KInt); (2, KStr)] in
  ok_source (SQuery a [FCol 0 1 KInt; FAlias (FAgg ACount (FCol 0 2 KStr)) 9] None [FCol 0 1 KInt] None [] None) = true
  /\ ok_source (SQuery a [] (Some (FBin OGt (FAgg ACount (FCol 0 1 KInt)) (FLit (LInt 1)))) [] None [] None) = false
  /\ schema_of (SQuery a [FCol 0 1 KInt; FBin OAdd (FCol 0 1 KInt) (FLit (LInt 1))] None [] None [] None)
     = [(Some 1, Some KInt); (None, Some KInt)].
Proof. vm_compute. repeat split. Qed.
