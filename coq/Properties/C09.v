(* C09 - A feed is selected exactly when it can resolve the statement. Statements only.
   PARTIAL: the full agreement between the importer's matcher and the parser's resolution is refuted (known finding);
   what is proved is the direction the property needs for passed-over feeds, agreement for table-only feeds, and the
   first-match discipline of the selection over the priority-ordered pool, and that this order is a permutation of the
   pool, descending by priority, with ties in pool order. *)
Require Import List Bool ZArith Permutation Sorted.
From FV Require Import Model.C09 Proofs.C09 Proofs.C09Order.
Import ListNotations.

(* the selected feed matches, every feed ranked before it does not; missing-source exactly when no feed matches *)
Theorem C09_priority : forall pool s,
  (forall i, select pool s = Some i ->
     exists f, In (i, f) (combine (seq 0 (List.length pool)) pool) /\ matcher (sources f) s = true
       /\ exists before after, ordered pool = before ++ (i, f) :: after
            /\ forall nf, In nf before -> matcher (sources (snd nf)) s = false)
  /\ (select pool s = None <-> forall f, In f pool -> matcher (sources f) s = false).
Proof. intros pool s. split; [intros i; apply select_first|apply select_none]. Qed.
Print Assumptions C09_priority.

(* the order the importer walks the pool in: every feed exactly once, never a lower priority before a higher one, equal
   priorities in pool order (explicit instances, priority None, first) *)
Theorem C09_priority_order : forall pool,
  Permutation (ordered pool) (combine (seq 0 (List.length pool)) pool) /\ StronglySorted before (ordered pool).
Proof. intros pool. split; [apply ordered_perm|apply ordered_descending_stable]. Qed.
Print Assumptions C09_priority_order.

(* a feed passed over for lacking a source could not have parsed the statement *)
Theorem C09_passed_over_cannot_parse : forall S s, matcher S s = false -> resolves S s = false.
Proof.
  intros S s H. destruct (resolves S s) eqn:E; [|reflexivity]. rewrite (resolves_matcher S s E) in H. discriminate.
Qed.
Print Assumptions C09_passed_over_cannot_parse.

(* feeds advertising tables only: selected exactly when the parser resolves the statement *)
Theorem C09_agree_tables_partial : forall S s, forallb is_table S = true -> matcher S s = resolves S s.
Proof. exact tables_only_agree. Qed.
Print Assumptions C09_agree_tables_partial.

(* the full claim is FALSE: a feed advertising only a denormalised join (or only a reference / a sub-query) is selected
   although its parser cannot resolve the tables underneath *)
Theorem C09_agree_refuted : exists S s, matcher S s = true /\ resolves S s = false.
Proof.
  exists [SJoin (STable 0) (STable 1) 7], (SJoin (STable 0) (STable 1) 7). split; reflexivity.
Qed.
Print Assumptions C09_agree_refuted.

Example C09_witness :
  select [Feed (Some 1%Z) [STable 0]; Feed (Some 5%Z) [STable 0; STable 1]; Feed (Some 5%Z) [STable 0]] (STable 0) = Some 1
  /\ select [Feed (Some 1%Z) [STable 0]] (STable 1) = None.
Proof. vm_compute. split; reflexivity. Qed.
