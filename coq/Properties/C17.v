(* C17 - Model-selection strategies honour their contract on every request history. Statements only.
   The A/B theorems are about the exact-rational model (Model/C17.v); the implementation computes in
   binary64 - its bit-exact twin Model/C17F.v is checked against the code by the correspondence and the
   rational/float gap is measured per run, not proved. *)
Require Import List Bool ZArith QArith Lqa.
From FV Require Import Model.C17 Proofs.C17.
Import ListNotations.

(* selection never fails: for every valid variant set and every number of requests *)
Theorem C17_never_fails : forall ts n, valid ts -> List.length (abtest ts n) = n.
Proof. intros ts n Hv. destruct (history ts n Hv) as [H _]. exact H. Qed.
Print Assumptions C17_never_fails.

(* no variant is ever a whole request ahead of its normalised share *)
Theorem C17_upper : forall ts n, valid ts ->
  Forall (fun s => qn (count s) < target s * qn n + 1) (slots (final ts n)).
Proof. exact history_upper. Qed.
Print Assumptions C17_upper.

(* with two variants each is within one request of its share *)
Theorem C17_two_variants : forall ts n a b, valid ts -> slots (final ts n) = [a; b] ->
  (qn (count a) - target a * qn n < 1 /\ target a * qn n - qn (count a) < 1)
  /\ (qn (count b) - target b * qn n < 1 /\ target b * qn n - qn (count b) < 1).
Proof. exact history_two. Qed.
Print Assumptions C17_two_variants.

(* the full claim - every variant within one request of its share - is FALSE for >= 3 variants:
   integer weights 7,10,11,12,7,9 after 47 requests leave the last-ranked variant 2.875 requests behind *)
Definition C17_share_full : Prop := forall ts n, valid ts ->
  Forall (fun s => target s * qn n - qn (count s) < 1) (slots (final ts n)).

Theorem C17_share_refuted : ~ C17_share_full.
Proof.
  intros H.
  pose (ts := [Some (7#1); Some (10#1); Some (11#1); Some (12#1); Some (7#1); Some (9#1)]).
  assert (valid ts) as Hv by (split; [discriminate|repeat constructor]).
  specialize (H ts 47%nat Hv). rewrite Forall_forall in H.
  assert (In (Slot 4 (1#8) 3) (slots (final ts 47))) as Hin by (vm_compute; tauto).
  specialize (H _ Hin). vm_compute in H. discriminate H.
Qed.
Print Assumptions C17_share_refuted.

(* what does hold for any number k of variants: never more than k-1 requests behind the share *)
Theorem C17_lower_partial : forall ts n l1 s l2, valid ts -> slots (final ts n) = l1 ++ s :: l2 ->
  target s * qn n - qn (List.length l1 + List.length l2) <= qn (count s).
Proof. exact history_lower. Qed.
Print Assumptions C17_lower_partial.

(* Latest: newest generation of the highest release that has any generation ... *)
Theorem C17_latest : forall reg,
  (forall r g, pick reg None = Some (r, g) ->
     In r (map fst reg) /\ In g (gens_of reg r) /\ (forall g', In g' (gens_of reg r) -> (g' <= g)%Z)
     /\ (forall r', In r' (map fst reg) -> gens_of reg r' <> [] -> (r' <= r)%Z))
  /\ (pick reg None = None -> forall r, In r (map fst reg) -> gens_of reg r = []).
Proof. intros reg. split; [intros r g; apply pick_latest|apply pick_latest_none]. Qed.
Print Assumptions C17_latest.

(* ... or of the configured release *)
Theorem C17_latest_configured : forall reg r,
  (forall g, pick reg (Some r) = Some (r, g) <-> zmax (gens_of reg r) = Some g)
  /\ (pick reg (Some r) = None <-> gens_of reg r = []).
Proof. exact pick_configured. Qed.
Print Assumptions C17_latest_configured.

(* non-vacuity *)
Example C17_witness : valid [Some (9#10); None] /\ abtest [Some (9#10); None] 10 = [0; 0; 0; 0; 0; 0; 0; 0; 0; 1]%nat
  /\ pick [(1, [1; 2]); (3, []); (2, [4; 1])]%Z None = Some (2, 4)%Z.
Proof. split; [split; [discriminate|repeat constructor]|]. vm_compute. split; reflexivity. Qed.
