(* C18 - Persisted metadata and keys read back exactly as written. Statements only. *)
Require Import List Bool ZArith Lia.
From FV Require Import Model.C18 Proofs.C18.
Import ListNotations.
Open Scope Z_scope.

(* every tag the constructor can build (timestamps / ordinal / score present or absent, any states)
   reads back from its own document equal to itself *)
Theorem C18_tag_roundtrip : forall trts trord tuts tuscore sts,
  loads_doc (dumps_doc (mk_tag trts trord tuts tuscore sts)) = mk_tag trts trord tuts tuscore sts.
Proof. exact tag_roundtrip. Qed.
Print Assumptions C18_tag_roundtrip.

Theorem C18_tag_roundtrip_normal : forall t, normal t -> loads_doc (dumps_doc t) = t.
Proof. exact tag_roundtrip_normal. Qed.
Print Assumptions C18_tag_roundtrip_normal.

(* generation keys are the naturals from one, next is the successor; a new generation is numbered one
   above every existing one (1 for the first) *)
Theorem C18_generation_keys : forall z,
  (forall k, gen_key z = Some k <-> (k = z /\ 1 <= z)) /\ (gen_key z = None <-> z < 1) /\ gen_next z = z + 1.
Proof. intros z. split; [intros k; apply gen_key_spec|]. split; [apply gen_key_invalid|reflexivity]. Qed.
Print Assumptions C18_generation_keys.

Theorem C18_next_generation : forall existing, Forall (fun k => 1 <= k) existing ->
  1 <= next_generation existing /\ (forall k, In k existing -> k < next_generation existing)
  /\ (existing = [] -> next_generation existing = 1).
Proof. exact next_generation_fresh. Qed.
Print Assumptions C18_next_generation.

(* release keys: a strict total order on the PEP 440 comparison keys, extending the order of the
   zero-trimmed release tuples (versions without local segment) *)
Theorem C18_release_order : forall a b c,
  (vcmp a b = Eq <-> vkey a = vkey b)
  /\ vcmp b a = CompOpp (vcmp a b)
  /\ (vcmp a b = Lt -> vcmp b c = Lt -> vcmp a c = Lt)
  /\ (epoch a = epoch b -> lex (trim (release a)) (trim (release b)) = Lt -> vcmp a b = Lt).
Proof.
  intros a b c. split; [apply vcmp_eq|]. split; [apply vcmp_opp|]. split; [apply vcmp_trans|apply vcmp_release].
Qed.
Print Assumptions C18_release_order.

(* listings are sorted, duplicate-free, contain exactly the distinct input keys, and "latest" is the maximum *)
Theorem C18_listing_generations : forall keys,
  asc Z Z.compare (listing Z.compare keys)
  /\ (forall y, In y (listing Z.compare keys) <-> In y keys)
  /\ (forall m, last_key Z.compare keys = Some m -> In m keys /\ forall x, In x keys -> x <= m).
Proof.
  intros keys. split; [apply listing_asc; apply Zcmp_opp|]. split.
    + intros y. split; [apply listing_sound|]. intros H.
      destruct (listing_complete Z Z.compare Zcmp_opp keys y H) as [z [Hz Hc]]. apply Z.compare_eq in Hc. subst. exact Hz.
    + intros m H. destruct (last_is_max Z Z.compare Zcmp_opp Zcmp_trans Zcmp_eq_l keys m H) as [Hin Hmax].
      split; [exact Hin|]. intros x Hx. specialize (Hmax x Hx). rewrite Z.compare_gt_iff in Hmax. lia.
Qed.
Print Assumptions C18_listing_generations.

Theorem C18_listing_releases : forall keys,
  asc version vcmp (listing vcmp keys)
  /\ (forall y, In y (listing vcmp keys) -> In y keys)
  /\ (forall x, In x keys -> exists y, In y (listing vcmp keys) /\ vcmp x y = Eq)
  /\ (forall m, last_key vcmp keys = Some m -> In m keys /\ forall x, In x keys -> vcmp x m <> Gt).
Proof.
  intros keys. split; [apply listing_asc; apply vcmp_opp|]. split; [intros y; apply listing_sound|].
  split; [intros x; apply listing_complete; intros; apply vcmp_opp|].
  intros m. apply last_is_max; [intros; apply vcmp_opp|apply vcmp_trans|apply vcmp_eq_l].
Qed.
Print Assumptions C18_listing_releases.

Example C18_witness :
  vcmp (Version 0 [1; 0; 0] None None None) (Version 0 [1] None None None) = Eq
  /\ vcmp (Version 0 [1; 0] None None (Some 1)) (Version 0 [1] (Some (0, 1)) None None) = Lt
  /\ vcmp (Version 0 [1; 2] None None None) (Version 0 [1; 10] None None None) = Lt
  /\ listing Z.compare [3; 1; 3; 2] = [1; 2; 3] /\ next_generation [1; 2; 3] = 4.
Proof. vm_compute. repeat split. Qed.
