(* C19 - Content negotiation picks the client's most preferred supported encoding.
   Statements only. Model: Model/C19.v; codec tables: Generated/C19Codecs.v (from the live module). *)
Require Import String Ascii List Bool ZArith Permutation Sorted.
From FV Require Import Lib.Str Model.C19Base Generated.C19Codecs Model.C19 Proofs.C19.
Import ListNotations.

(* parsed encodings: a permutation of the header's media ranges, by descending quality, ties in header order *)
Theorem C19_order : forall ranges,
  parse ranges = map to_encoding (sort_ranges ranges)
  /\ Permutation (sort_ranges ranges) ranges
  /\ Sorted desc (sort_ranges ranges)
  /\ forall q, filter (has_q q) (sort_ranges ranges) = filter (has_q q) ranges.
Proof. intros. split; [reflexivity|]. split; [apply sort_perm|]. split; [apply sort_sorted|intros; apply sort_stable]. Qed.
Print Assumptions C19_order.

(* a pattern matches a concrete encoding exactly when its kind matches as a wildcard pattern and all of
   its options are present with equal values (patterns with bracket classes are outside the model) *)
Theorem C19_match : forall pat other,
  matches pat other = true <->
  (has_star (kind other) = false
   /\ wild (chars (kind pat)) (chars (kind other))
   /\ forall k v, In (k, v) (options pat) -> assoc k (options other) = Some v).
Proof. exact matches_spec. Qed.
Print Assumptions C19_match.

(* the chosen encoder is the first supported one in the client's preference order ... *)
Theorem C19_encoder_choice : forall targets i,
  get_encoder targets = Some i ->
  exists k p e, nth_error targets k = Some p /\ nth_error ENCODERS i = Some e /\ matches p e = true
    /\ (forall j e', j < i -> nth_error ENCODERS j = Some e' -> matches p e' = false)
    /\ (forall k' p' e', k' < k -> nth_error targets k' = Some p' -> In e' ENCODERS -> matches p' e' = false).
Proof. intros targets i. apply get_encoder_some. Qed.
Print Assumptions C19_encoder_choice.

(* ... and the unsupported-encoding outcome arises exactly when no accepted pattern matches any encoder *)
Theorem C19_encoder_unsupported : forall targets,
  get_encoder targets = None <-> forall p e, In p targets -> In e ENCODERS -> matches p e = false.
Proof. intros. apply get_encoder_none. Qed.
Print Assumptions C19_encoder_unsupported.

(* the chosen decoder matches the declared content type, otherwise unsupported *)
Theorem C19_decoder_choice : forall src,
  (forall i, get_decoder src = Some i ->
     exists pat, nth_error DECODERS i = Some pat /\ matches pat src = true
       /\ forall j pat', j < i -> nth_error DECODERS j = Some pat' -> matches pat' src = false)
  /\ (get_decoder src = None <-> forall pat, In pat DECODERS -> matches pat src = false).
Proof. intros src. split; [intros i; apply get_decoder_some|apply get_decoder_none]. Qed.
Print Assumptions C19_decoder_choice.

(* over the tables of the current source tree: asking exactly for an encoder's own encoding selects that
   encoder, and a payload declared with a decoder's own encoding is decoded by that decoder (no entry is
   shadowed by an earlier, more general one) *)
Theorem C19_tables_unshadowed :
  (forall i e, nth_error ENCODERS i = Some e -> get_encoder [e] = Some i)
  /\ (forall i e, nth_error DECODERS i = Some e -> get_decoder e = Some i).
Proof.
  split; intros i e H; apply onat_eqb_eq.
  - apply (indexed_forall (fun i e => onat_eqb (get_encoder [e]) (Some i)) ENCODERS); [vm_compute; reflexivity|exact H].
  - apply (indexed_forall (fun i e => onat_eqb (get_decoder e) (Some i)) DECODERS); [vm_compute; reflexivity|exact H].
Qed.
Print Assumptions C19_tables_unshadowed.

(* non-vacuity *)
Example C19_witness :
  let rs := [Range "text/csv" [] (Some 500%Z); Range "Application/JSON" [("Format", "pandas-split")] None; Range "*/*" [] (Some 500%Z)]%string in
  map kind (parse rs) = ["application/json"; "text/csv"; "*/*"]%string
  /\ matches (Enc "application/*" []) (Enc "application/json" [("format", "pandas-split")])%string = true.
Proof. vm_compute. split; reflexivity. Qed.
