(* C05 - Registry history is append-only, gap-free and crash-consistent. Statements only.
   Model/C05.v: one release directory of the posix registry as a machine of file-system primitives (after the atomic
   publish fix); every primitive atomic and durable in program order, a write possibly stopping after any byte prefix. *)
Require Import List Bool ZArith.
From FV Require Import Model.C05 Proofs.C05.
Import ListNotations.

(* crash consistency of a commit: for every state of the release directory, every generation number not yet listed, every
   state list and tag, and EVERY crash point (any number of completed primitives, any byte prefix of the interrupted write)
   a fresh reader sees the previous content or the complete new generation *)
Theorem C05_commit_crash_consistent : forall r g sids tagbytes n k,
  unlisted g r ->
  view (crashed r (close_prims g sids tagbytes) n k) = view r
  \/ view (crashed r (close_prims g sids tagbytes) n k) = view (run r (close_prims g sids tagbytes)).
Proof. exact commit_crash_consistent. Qed.
Print Assumptions C05_commit_crash_consistent.

(* the same for publishing a release package *)
Theorem C05_publish_crash_consistent : forall r pkgbytes n k,
  view (crashed r (push_prims pkgbytes) n k) = view r
  \/ view (crashed r (push_prims pkgbytes) n k) = view (run r (push_prims pkgbytes)).
Proof. exact push_crash_consistent. Qed.
Print Assumptions C05_publish_crash_consistent.

(* append-only: a commit never touches another generation (its tag, its states) *)
Theorem C05_append_only : forall r g sids tagbytes h,
  h <> g -> gen_get h (gens (run r (close_prims g sids tagbytes))) = gen_get h (gens r).
Proof. exact commit_frame. Qed.
Print Assumptions C05_append_only.

(* gap-free numbering above every listed generation; a release is accepted only above every existing version *)
Theorem C05_numbering : forall r,
  (forall g x, In (g, x) (listed r) -> g < next_generation r)
  /\ (listed r = [] -> next_generation r = 1)
  /\ forall existing v, accepts_release existing v = true <-> forall e, In e existing -> (e < v)%Z.
Proof.
  intros r. split; [apply next_generation_above|]. split; [intros H; unfold next_generation; rewrite H; reflexivity|].
  intros; apply accepts_release_spec.
Qed.
Print Assumptions C05_numbering.

Example C05_witness :
  let r := fold_left apply_action [ADump 7; ADump 8; ACommit [7; 8]; ADump 9; ACommit [9]] (RelDir None None [] []) in
  sort_summary (summary r) = [(1, [7; 8]); (2, [9])] /\ unlisted 3 r.
Proof. vm_compute. split; reflexivity. Qed.
