(* C16 - Concurrent serving never crosses, loses or duplicates responses.
   Proved on the transition system of the serving core (Model/C16.v) for EVERY schedule of its agents - event loop, extract
   threads, any number of workers per executor, executor result threads, respond pool - and every batch, with failing
   requests (unknown application, unsupported encoding, missing features) at arbitrary positions:
     - whatever a caller has received is the outcome of its own payload on the model instance its application selects, or its
       own platform error (never crossed);
     - an answer, once given, is never changed or repeated by any later step (never duplicated);
     - as long as a request is unanswered some agent has an enabled step, every step strictly decreases a measure bounded by
       8 N: every schedule that keeps moving ends, after at most 8 N steps, with every caller answered (never lost);
     - the descriptor cache never refuses an application present in the inventory, for any number of threads and any
       interleaving of their dictionary operations (the pre-fix code did: witness kept).
   PARTIAL in what the model covers: process start-up/shutdown, queue time-outs, a worker dying on a non-forml exception
   (which stops its whole executor) and the interior of the pyfunc runner are outside the model; the real engine is tied to the
   model by replaying its instrumented scheduling trace as a run of the model on every check. *)
Require Import List Bool ZArith.
From FV Require Import Model.C16 Proofs.C16 Proofs.C16Live Proofs.C16Desc.
Import ListNotations.

Theorem C16_never_crossed : forall reqs inst_of F workers acts r a,
  answered (run reqs inst_of F workers init acts) r = Some a -> a = expected reqs inst_of F r.
Proof. exact served_right. Qed.
Print Assumptions C16_never_crossed.

Theorem C16_never_duplicated : forall reqs inst_of F workers acts more r a,
  answered (run reqs inst_of F workers init acts) r = Some a ->
  answered (run reqs inst_of F workers init (acts ++ more)) r = Some a.
Proof. exact answered_once. Qed.
Print Assumptions C16_never_duplicated.

Theorem C16_never_lost : forall reqs inst_of F workers, 0 < workers -> forall acts r,
  (forall a, In a (acts_for (run reqs inst_of F workers init acts) r) -> step reqs inst_of F workers (run reqs inst_of F workers init acts) a = None) ->
  answered (run reqs inst_of F workers init acts) r = Some (expected reqs inst_of F r).
Proof. exact quiescent_all_answered. Qed.
Print Assumptions C16_never_lost.

Theorem C16_every_step_progresses : forall reqs inst_of F workers, 0 < workers -> forall N NI,
  (forall a i, inst_of a = Some i -> i < NI) ->
  forall st a st', Inv reqs inst_of F st -> bounded N NI a -> step reqs inst_of F workers st a = Some st' ->
    weight N NI st' < weight N NI st.
Proof. intros reqs inst_of F workers Hw N NI H. exact (step_decreases reqs inst_of F workers Hw N NI H). Qed.
Print Assumptions C16_every_step_progresses.

Theorem C16_descriptor_lookup : forall inventory apps sched t found,
  let st0 := {| d_known := []; d_threads := fun x => {| d_app := apps x; d_pc := DStart |} |} in
  mem (d_app (d_threads (drun inventory st0 sched) t)) inventory = true ->
  d_pc (d_threads (drun inventory st0 sched) t) = DFinished found -> found = true.
Proof. exact existing_application_found. Qed.
Print Assumptions C16_descriptor_lookup.

(* the defect that was repaired: with the old check two concurrent first lookups could refuse an existing application *)
Theorem C16_old_descriptor_lookup_refuted :
  exists inventory sched t,
    let st := drun_old inventory {| d_known := []; d_threads := fun x => {| d_app := x; d_pc := DStart |} |} sched in
    mem (d_app (d_threads st t)) inventory = true /\ d_pc (d_threads st t) = DFinished false.
Proof. exists [0; 1], [0; 1; 0; 0; 1; 1], 1. exact old_code_refuses_existing. Qed.
Print Assumptions C16_old_descriptor_lookup_refuted.

(* non-vacuity: two applications on two models, two workers, one failing request, an interleaved schedule *)
Example C16_witness :
  let reqs := nth_req [{| r_app := 0; r_payload := 7; r_badenc := false; r_missing := false; r_badaccept := false |};
                       {| r_app := 1; r_payload := 5; r_badenc := false; r_missing := true; r_badaccept := false |};
                       {| r_app := 0; r_payload := 2; r_badenc := false; r_missing := false; r_badaccept := false |}] in
  let inst_of := assoc [(0, 1); (1, 2)] in
  let F := fun i v => (Z.of_nat i * 10 * v)%Z in
  let st := run reqs inst_of F 2 init
              [AExtract 0; AExtract 2; AExtract 1; ASubmit 2; ASubmit 0; ASubmit 1; ATake 1; ATake 1; ATake 2; AFinish 1 0;
               AFinish 2 0; AFinish 1 0; ADeliver 1 1; ADeliver 2 0; ADeliver 1 0; ARespond 0; ARespond 2] in
  answered st 0 = Some (Ok 1 70) /\ answered st 1 = Some (Err EMissing) /\ answered st 2 = Some (Ok 1 20).
Proof. vm_compute. repeat split; reflexivity. Qed.
