(* C13 - Actor state and hyper-parameter contract for every actor flavour. Statements only. *)
Require Import List Bool ZArith.
From FV Require Import Model.C13.
Import ListNotations.
Open Scope Z_scope.

(* state transfer: an actor rebuilt from the same builder and given the state exported by a trained twin behaves
   identically to that twin - for every flavour, every training history, through the actor's own set_state or the preset *)
Theorem C13_transfer : forall (a : actor) (x : Z) (preset : bool),
  let twin := build (fl a) (par a) in
  apply (if preset then preset_state twin (get_state a) else set_state_raw twin (get_state a)) x = apply a x.
Proof.
  intros [f p v] x preset. destruct preset, f, v as [z|]; reflexivity.
Qed.
Print Assumptions C13_transfer.

(* hyper-parameters supplied by the builder always take precedence over those stored inside a state when the state is
   applied through the preset of the compiled code, whatever the state contains and whatever codec the actor has *)
Theorem C13_params_precedence : forall a s, par (preset_state a s) = par a.
Proof. intros a s. destruct s; reflexivity. Qed.
Print Assumptions C13_params_precedence.

(* with the default codecs the actor's own set_state keeps the receiving parameters as well *)
Theorem C13_params_precedence_default : forall a s, fl a <> NativeCodec -> par (set_state_raw a s) = par a.
Proof. intros [f p v] s H. destruct s, f; try reflexivity. contradiction. Qed.
Print Assumptions C13_params_precedence_default.

(* an empty state leaves the actor as it was (untrained stays untrained); an untrained decorated actor exports the empty
   state, and a trained one never does - even when its learned state is a falsy value such as 0 *)
Theorem C13_empty_state : forall a,
  set_state_raw a Empty = a /\ preset_state a Empty = a
  /\ (fl a = Decorated -> (get_state a = Empty <-> acc a = None)).
Proof.
  intros [f p v]. repeat split; try reflexivity; simpl in *; subst; destruct v; simpl; intros; try discriminate; reflexivity.
Qed.
Print Assumptions C13_empty_state.

(* exported states survive re-import into the same flavour: training histories continue identically *)
Theorem C13_incremental : forall a x y z,
  apply (train (set_state_raw (build (fl a) (par a)) (get_state a)) x y) z = apply (train a x y) z.
Proof. intros [f p v] x y z. destruct f, v; reflexivity. Qed.
Print Assumptions C13_incremental.

Example C13_witness :
  run (build Decorated (Params 2 5)) [OApply 1; OTrain 3 (-6); OApply 1; OTransfer 2 7 true 1; OSetParams 2 7; OApply 1]
  = [Untrained; Silent; Val 1; Val 1; Silent; Val 1].
Proof. vm_compute. reflexivity. Qed.
