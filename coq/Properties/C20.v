(* C20 - Configuration layering and provider lookup are deterministic. Statements only. *)
Require Import String List Bool ZArith Permutation.
From FV Require Import Model.C20 Proofs.C20.
Import ListNotations.

(* one merge step, key by key at any table: both tables -> merged recursively, otherwise the later
   value wins, keys of only one side survive *)
Theorem C20_merge_keywise : forall k tl tr,
  get [k] (merge (Tbl tl) (Tbl tr))
  = match lookup k tl, lookup k tr with
    | Some a, Some b => Some (merge a b)
    | Some a, None => Some a
    | None, r => r
    end.
Proof. intros. rewrite merge_tables. cbn [get]. rewrite lookup_merge. destruct (lookup k tl), (lookup k tr); reflexivity. Qed.
Print Assumptions C20_merge_keywise.

(* any stack, any nesting depth: the last source that sets a path to a scalar wins, provided the
   later sources leave the path untouched (absent, or shadowed only through tables) *)
Theorem C20_override : forall earlier c later p x,
  get p c = Some (Scalar x) -> forallb (untouched p) later = true ->
  get p (stack (earlier ++ c :: later)) = Some (Scalar x).
Proof. exact stack_override. Qed.
Print Assumptions C20_override.

(* unrelated keys survive a later source *)
Theorem C20_survive : forall p l r, untouched p r = true -> get p (merge l r) = get p l.
Proof. intros. apply get_merge_untouched. assumption. Qed.
Print Assumptions C20_survive.

(* list values: new-first, same members, duplicate-free when the inputs are *)
Theorem C20_lists : forall a b,
  merge (Lst a) (Lst b) = Lst (merge_lists a b)
  /\ (exists rest, merge_lists a b = b ++ rest /\ forall x, In x rest -> In x a /\ ~ In x b)
  /\ (forall x, In x (merge_lists a b) <-> In x a \/ In x b)
  /\ (NoDup a -> NoDup b -> NoDup (merge_lists a b)).
Proof.
  intros a b. split; [reflexivity|]. split; [apply merge_lists_new_first|].
  split; [apply merge_lists_members|apply merge_lists_nodup].
Qed.
Print Assumptions C20_lists.

(* provider bank: whatever the import (registration) order of a collision-free class set, registration
   succeeds and every reference resolves to the same class *)
Theorem C20_bank_order : forall cs cs',
  Permutation cs cs' -> collision_free cs ->
  exists b b', bank_add_all cs [] = Some b /\ bank_add_all cs' [] = Some b'
    /\ forall r, bank_get r b = bank_get r b' /\ bank_get r b = spec_get r cs.
Proof. exact bank_order_independent. Qed.
Print Assumptions C20_bank_order.

(* alias and qualified name denote the same single class, abstract providers are never returned,
   an unknown reference is missing rather than some other provider *)
Theorem C20_bank_resolution : forall cs b,
  collision_free cs -> bank_add_all cs [] = Some b ->
  (forall c, In c cs -> cabstract c = false ->
     bank_get (RQ (cid c)) b = Some c /\ forall a, calias c = Some a -> bank_get (RA a) b = Some c)
  /\ (forall r c, bank_get r b = Some c -> In c cs /\ cabstract c = false /\ In r (refs_of c))
  /\ (forall r, (forall c, In c cs -> cabstract c = false -> ~ In r (refs_of c)) -> bank_get r b = None).
Proof. exact bank_resolution. Qed.
Print Assumptions C20_bank_resolution.

(* colliding references are rejected at registration *)
Theorem C20_bank_collision : forall c c' r b,
  In r (refs_of c) -> bank_get r b = Some c' -> cid c' <> cid c -> bank_add c b = None.
Proof. exact bank_collision_rejected. Qed.
Print Assumptions C20_bank_collision.

(* non-vacuity *)
Example C20_witness :
  let a := Tbl [("x", Scalar 1); ("t", Tbl [("y", Scalar 2); ("l", Lst [1; 2])])]%string%Z in
  let b := Tbl [("t", Tbl [("y", Scalar 5); ("l", Lst [2; 3])])]%string%Z in
  get ["t"; "y"]%string (stack [a; b]) = Some (Scalar 5%Z)
  /\ get ["x"]%string (stack [a; b]) = Some (Scalar 1%Z)
  /\ get ["t"; "l"]%string (stack [a; b]) = Some (Lst [2; 3; 1]%Z)
  /\ untouched ["x"]%string b = true
  /\ collision_free [Cls "m:A" (Some "a") false; Cls "m:B" None true; Cls "m:C" (Some "c") false]%string.
Proof.
  cbn. repeat split. unfold collision_free. cbn. repeat constructor; cbn; intuition discriminate.
Qed.
