(* C03 - Operator composition realises train/apply coherence for every expression. Statements only.
   PARTIAL: the theorems are about the denotation of expressions over the decorated (wrap) operators
   (Model/C03.v); the graphs the real composition API builds (Compound, Trunk.extend, Operator.compose, placeholder
   collapse) are compiled and executed on every generated expression, under every scoping, and compared with this
   denotation. MapReduce and the debug operators are not modelled; stacking is covered under C12. *)
Require Import List Bool ZArith.
From FV Require Import Lib.Sym Model.C01 Model.C01Compile Model.C03 Proofs.C03 Model.C03Graph Proofs.C03GraphEval Proofs.C03GraphWf Proofs.C03GraphCompile Proofs.C03GraphPers Proofs.C03GraphCommit Proofs.C03GraphApply Proofs.C03GraphCheck.
Import ListNotations.

(* any nesting / explicit scoping of the same operator sequence denotes the same train and apply chains *)
Theorem C03_scoping_irrelevant : forall e1 e2 s, flatten e1 = flatten e2 -> den e1 s = den e2 s.
Proof. exact den_same_flatten. Qed.
Print Assumptions C03_scoping_irrelevant.

(* coherence of each operator inside any expression: the apply path applies the actor with exactly the state fitted on
   the train features and labels produced by the path preceding it (labels after the operator's own label actor), and
   the train path passes downstream the output of that freshly fitted actor *)
Theorem C03_coherence : forall o s a,
  oapply o = Some a ->
  let y' := match olabel o with Some l => act l (fit l (xt s) (yl s)) (yl s) | None => yl s end in
  xa (den_op o s) = act a (fit a (xt s) y') (xa s)
  /\ (otrain o = TSame -> xt (den_op o s) = act a (fit a (xt s) y') (xt s))
  /\ yl (den_op o s) = y'.
Proof. exact op_coherence. Qed.
Print Assumptions C03_coherence.

(* expressions are evaluated operator by operator, left to right, each seeing the segments produced by all operators
   before it; exactly the stateful apply-path actors contribute a persistent state *)
Theorem C03_sequential : forall e s,
  den e s = fold_left (fun st o => den_op o st) (flatten e) s
  /\ List.length (persisted (den e s)) = List.length (persisted s) + stateful_applies (flatten e).
Proof. intros e s. split; [apply den_flatten|rewrite den_flatten; apply persisted_count]. Qed.
Print Assumptions C03_sequential.

(* the task graph an expression denotes (Model/C03Graph.v: per operator a worker group on the label, apply and train
   path - trained fork first, then the applied member; the mapper's train-path member another fork of the apply group)
   evaluates, node by node as C01 evaluates graphs, to the expression denotation at the three tails *)
Theorem C03_graph_denotation : forall e a t sl,
  let gs := build e (gsource a t sl) in let s := den e (source a t sl) in
  value (geval None (gnodes gs)) (pa gs) = xa s /\ value (geval None (gnodes gs)) (pt gs) = xt s
  /\ value (geval None (gnodes gs)) (pl gs) = yl s.
Proof. exact pipeline_graph. Qed.
Print Assumptions C03_graph_denotation.

(* end to end with the compiler theorem of C01: for every expression and every order in which the traversal may visit the
   nodes of its graph, compilation succeeds and the compiled symbol table delivers, at the apply and the train tail,
   exactly what the expression denotes *)
Theorem C03_pipeline_compiles : forall e a t sl visit,
  let gs := build e (gsource a t sl) in let s := den e (source a t sl) in
  NoDup visit -> (forall i, In i visit -> i < List.length (gnodes gs)) -> List.length visit = List.length (gnodes gs) ->
  exists tb, bind (compile None (gnodes gs) visit) canon = Some tb
    /\ delivered tb (gnodes gs) (pa gs) (xa s) /\ delivered tb (gnodes gs) (pt gs) (xt s).
Proof. exact pipeline_compiles. Qed.
Print Assumptions C03_pipeline_compiles.

(* the states the graph trains for the stateful apply-path groups are, in pipeline order, the `persisted` list of the
   expression denotation: what Composition.persistent enumerates and the committer stores by position (C04) *)
Theorem C03_graph_persisted : forall e a t sl,
  map (state_of (gnodes (build e (gsource a t sl)))) (pers_gids e (gsource a t sl)) = persisted (den e (source a t sl)).
Proof. exact pipeline_persisted. Qed.
Print Assumptions C03_graph_persisted.

(* C03 + C01 + C04, end to end: compiled with an accessor that persists the stateful apply-path groups in pipeline order,
   for every expression and every visiting order compilation succeeds, and - whenever there is anything to persist - the
   table holds a committer whose evaluation is exactly the `persisted` list the expression denotes, state by state *)
Theorem C03_pipeline_commits : forall e a t sl visit,
  let gs := build e (gsource a t sl) in let s := den e (source a t sl) in
  let gids := pers_gids e (gsource a t sl) in let l := map (fun g => (g, TNone)) gids in
  NoDup visit -> (forall i, In i visit -> i < List.length (gnodes gs)) -> List.length visit = List.length (gnodes gs) ->
  exists tb, bind (compile (Some l) (gnodes gs) visit) canon = Some tb
    /\ (gids <> [] -> exists c, find_pos (fun sy => match fst sy with OCommitter => true | _ => false end) tb = Some c
          /\ forall fuel, 2 * List.length (gnodes gs) + 4 <= fuel ->
               eval fuel (Some l) (gnodes gs) tb c = Some (TTup (persisted s))).
Proof. exact pipeline_commits. Qed.
Print Assumptions C03_pipeline_commits.

(* the lifecycle round trip (C03 + C04): the apply segment of the expression - the apply-path worker of every operator, in
   the group it shares with the training graph - evaluated with the accessor that holds the list the training run committed,
   bound to the groups by position, gives the apply output the expression denotes, for every expression *)
Theorem C03_apply_reloads : forall e a t sl,
  let s := den e (source a t sl) in
  let l := combine (pers_gids e (gsource a t sl)) (persisted s) in
  let ga := build_a e (asource a) in
  value (geval (Some l) (anodes ga)) (apa ga) = xa s.
Proof. exact apply_reloads. Qed.
Print Assumptions C03_apply_reloads.

(* ... and through the compiler (C01): for every expression and every visiting order the apply segment compiles with that
   accessor (loaders keyed by group, no dumper, no committer) and the table delivers the same value at the apply tail *)
Theorem C03_apply_compiles : forall e a t sl visit,
  let s := den e (source a t sl) in
  let l := combine (pers_gids e (gsource a t sl)) (persisted s) in
  let ga := build_a e (asource a) in
  NoDup visit -> (forall i, In i visit -> i < List.length (anodes ga)) -> List.length visit = List.length (anodes ga) ->
  exists tb, bind (compile (Some l) (anodes ga) visit) canon = Some tb /\ delivered_with (Some l) tb (anodes ga) (apa ga) (xa s).
Proof. exact apply_compiles. Qed.
Print Assumptions C03_apply_compiles.

(* the graph-level correspondence check (C03Graph.check_case_graph: the executable graph models run against the real
   observations) asks nothing the denotation-level one does not: whenever the observations agree with `den`, the graph
   models agree with them as well - it cannot raise an alarm of its own on code that meets the denotation *)
Theorem C03_graph_check_implied : forall c, C03.check_case c = true -> check_case_graph c = true.
Proof. exact graph_check_implied. Qed.
Print Assumptions C03_graph_check_implied.

Example C03_graph_witness :
  let a := OpSpec (Some (Actor 5 0 true)) TSame None in
  let b := OpSpec (Some (Actor 6 1 true)) TNo (Some (Actor 7 0 false)) in
  let gs := build (ESeq (EOp a) (EOp b)) (gsource 0 1 2) in
  List.length (gnodes gs) = 9 /\ compile_ok None (gnodes gs) [8; 0; 7; 1; 6; 2; 5; 3; 4] = true.
Proof. vm_compute. split; reflexivity. Qed.

Example C03_witness :
  let a := OpSpec (Some (Actor 5 0 true)) TSame None in
  let b := OpSpec (Some (Actor 6 1 true)) TNo (Some (Actor 7 0 false)) in
  den (ESeq (EOp a) (EOp b)) (source 0 1 2) = den (EOp b) (den (EOp a) (source 0 1 2))
  /\ List.length (persisted (den (ESeq (EOp a) (EOp b)) (source 0 1 2))) = 2.
Proof. vm_compute. split; reflexivity. Qed.

(* the hypothesis `gids <> []` of C03_pipeline_commits is met: two stateful apply-path actors, two committed states *)
Example C03_commits_witness :
  let a := OpSpec (Some (Actor 5 0 true)) TSame None in
  let b := OpSpec (Some (Actor 6 1 true)) TNo (Some (Actor 7 0 false)) in
  List.length (pers_gids (ESeq (EOp a) (EOp b)) (gsource 0 1 2)) = 2.
Proof. vm_compute. reflexivity. Qed.

(* the loaded states matter: without the accessor the same apply segment evaluates to something else *)
Example C03_apply_witness :
  let a := OpSpec (Some (Actor 5 0 true)) TSame None in
  let b := OpSpec (Some (Actor 6 1 true)) TNo (Some (Actor 7 0 false)) in
  let e := ESeq (EOp a) (EOp b) in
  let ga := build_a e (asource 0) in
  List.length (anodes ga) = 3
  /\ term_eqb (value (geval None (anodes ga)) (apa ga)) (xa (den e (source 0 1 2))) = false
  /\ compile_ok (Some (combine (pers_gids e (gsource 0 1 2)) (persisted (den e (source 0 1 2))))) (anodes ga) [2; 0; 1] = true.
Proof. vm_compute. repeat split; reflexivity. Qed.
