(* C06 - Feed reads return exactly what the statement denotes over its own storage.
   PARTIAL.  The denotation (Model/C06.v) is the reference the engines' rows are compared with on every run; proved here:
   (a) the Visitor's push-down automaton assembles exactly the direct translation of the statement - operands in order,
       nothing left on the stack, contexts restored - and cannot fail on a statement whose columns are in scope;
   (b) the join the alchemy parser emits (flags generated from the source) means the join kind: list-for-list for
       inner / left / full - so the implementation model equals the denotation on every statement built from them -,
       up to row order for right (emitted as a swapped left join), and for cross only when both operands are non-empty;
   (c) the emitted operator / aggregate / set / direction tables are the identity;
   (d) reads through the result cache are right as long as nothing changes.
   REFUTED (known findings): cross join with an empty operand; history independence of the cached reader.
   Not proved: agreement of SQLAlchemy + sqlite/duckdb with the denotation (tested differentially, not a theorem). *)
Require Import List Bool ZArith Permutation.
From FV Require Import Model.Dsl Model.DslSem Model.C06 Generated.C06Join Model.C06Impl Model.C06Parser Proofs.C06 Proofs.C06Parser.
Import ListNotations.

Theorem C06_automaton_is_translation : forall s p,
  visit_src s p = match tr_src (orig (cur p)) s with Some (t, o') => Some (pushed t o' p) | None => None end.
Proof. exact visit_src_tr. Qed.
Print Assumptions C06_automaton_is_translation.

Theorem C06_parsing_never_fails : forall s, scoped [] s = true -> exists t, parse s = Some t.
Proof. exact scoped_parses. Qed.
Print Assumptions C06_parsing_never_fails.

Theorem C06_inner_left_full_joins_exact : forall d s, plain_joins s = true -> result_impl d s = result d s.
Proof. intros d s H. unfold result_impl, result. rewrite (impl_eq_spec d s H). reflexivity. Qed.
Print Assumptions C06_inner_left_full_joins_exact.

Theorem C06_right_join_up_to_order : forall feats c l r,
  all_disjoint l r ->
  Permutation (map (project feats) (impl_join JRight c l r)) (map (project feats) (join JRight c l r)).
Proof. exact right_join_emitted. Qed.
Print Assumptions C06_right_join_up_to_order.

Theorem C06_cross_join_partial : forall l r, l <> [] -> r <> [] -> impl_join JCross None l r = join JCross None l r.
Proof. exact cross_join_emitted_nonempty. Qed.
Print Assumptions C06_cross_join_partial.

(* FALSE on the faithful model: CROSS is emitted as FULL OUTER JOIN ON true *)
Theorem C06_cross_join_refuted : exists l r, impl_join JCross None l r <> join JCross None l r.
Proof. exists [[((false, 0), [(0, VInt 1%Z)])]], []. exact cross_join_emitted_wrong. Qed.
Print Assumptions C06_cross_join_refuted.

Theorem C06_emitted_tables : 
  (forall o, emitted_op o = o) /\ (forall a, emitted_agg a = a) /\ (forall k, emitted_set k = k)
  /\ (forall b, emitted_direction b = b) /\ emitted_not_is_sql_not = true.
Proof. exact emitted_tables_faithful. Qed.
Print Assumptions C06_emitted_tables.

Theorem C06_cached_reads_partial :
  forall (stmt content answer : Type) (stmt_eqb : stmt -> stmt -> bool) (exec : content -> stmt -> answer),
    (forall a b, stmt_eqb a b = true -> a = b) ->
    forall default conn ops st,
      only_reads_of stmt content conn ops -> cache_fresh stmt content answer stmt_eqb exec default conn st ->
      forall a, In a (snd (run stmt stmt_eqb content answer exec default st ops)) ->
        exists s, a = Some (exec (st_get content conn default (st_storages stmt content answer st)) s).
Proof. exact reads_correct_when_nothing_changes. Qed.
Print Assumptions C06_cached_reads_partial.

(* FALSE: the answer remembered for a statement text is returned after the storage changed and to any other connection *)
Theorem C06_history_independence_refuted :
  (exists ops, snd (run nat Nat.eqb nat nat toy_exec 1 {| st_storages := []; st_cache := [] |} ops) = [Some 6; None; Some 6]
               /\ ops = [Read nat nat 0 5; Mutate nat nat 0 100; Read nat nat 0 5] /\ toy_exec 100 5 <> 6)
  /\ (exists ops, snd (run nat Nat.eqb nat nat toy_exec 1 {| st_storages := []; st_cache := [] |} ops) = [None; None; Some 15; Some 15]
               /\ ops = [Mutate nat nat 0 10; Mutate nat nat 1 20; Read nat nat 0 5; Read nat nat 1 5] /\ toy_exec 20 5 <> 15).
Proof.
  split; eexists; (split; [|split; [reflexivity|]]).
  - exact (proj1 stale_after_mutation).
  - exact (proj2 stale_after_mutation).
  - exact (proj1 foreign_connection).
  - exact (proj2 foreign_connection).
Qed.
Print Assumptions C06_history_independence_refuted.

(* non-vacuity: a scoped self-join through a reference parses to the expected term and denotes the expected rows *)
Example C06_witness :
  let a := STable 0 [(0, KInt); (1, KInt)] in
  let s := SQuery (SJoin JLeft a (SRef a 7) (Some (FBin OLt (FCol 0 0 KInt) (FElem 7 0 KInt)))) [FCol 0 0 KInt; FElem 7 1 KInt]
                  None [] None [] None in
  scoped [] s = true /\ plain_joins s = true
  /\ result [(0, [[(0, VInt 1%Z); (1, VInt 10%Z)]; [(0, VInt 2%Z); (1, VInt 20%Z)]])] s = [[VInt 1%Z; VInt 20%Z]; [VInt 2%Z; VNull]]
  /\ exists t, parse s = Some t.
Proof. vm_compute. repeat split; try reflexivity. eexists; reflexivity. Qed.
