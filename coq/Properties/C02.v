(* C02 - Every runner executes a compiled workflow with identical results. Statements only.
   PARTIAL: the reference semantics of a table (= what dask's memoised linking denotes) and a faithful model of the
   pyfunc transcoder (Expression._order/_build/__init__, Push/Pop queues) are executable in Model/C02.v; the pyfunc model
   must predict value-or-crash of two consecutive calls of the real Expression on every generated table. The full claim
   "pyfunc = reference on every apply-mode table" is refuted (two witnesses = known findings); dask schedulers,
   tokenisation and pickling are runtime behaviour covered by the correspondence only. *)
Require Import List Bool ZArith Arith.
From FV Require Import Lib.Sym Model.C02 Proofs.C02.
Import ListNotations.

(* the reference result of an instruction is a function of the table alone *)
Theorem C02_reference_deterministic : forall t f g k v w,
  teval f t k = Some v -> teval g t k = Some w -> v = w.
Proof. exact teval_fuel_irrelevant. Qed.
Print Assumptions C02_reference_deterministic.

Definition C02_pyfunc_full : Prop := forall t v, reference t = Value v -> pyfunc t = (Value v, Value v).

(* refuted: fan-out directly at the head - the expression cannot even be constructed *)
Theorem C02_pyfunc_refuted_head_fanout : ~ C02_pyfunc_full.
Proof.
  intros H.
  pose (t := [Sym 0 (IFun 0 0 1 false) []; Sym 1 (IFun 1 0 1 false) [0]; Sym 2 (IFun 2 0 1 false) [0];
              Sym 3 (IFun 3 0 1 false) [1; 2]]%nat%Z).
  assert (exists v, reference t = Value v) as [v Hv] by (eexists; vm_compute; reflexivity).
  specialize (H t v Hv). vm_compute in H. discriminate H.
Qed.
Print Assumptions C02_pyfunc_refuted_head_fanout.

(* refuted: shorter branch evaluated first - Pop is reached before the Push that feeds it *)
Theorem C02_pyfunc_refuted_pop_before_push : ~ C02_pyfunc_full.
Proof.
  intros H.
  pose (t := [Sym 0 (IFun 0 0 1 false) []; Sym 1 (IFun 1 0 1 false) [0]; Sym 2 (IFun 2 0 1 false) [1];
              Sym 3 (IFun 3 0 1 false) [1]; Sym 4 (IFun 4 0 1 false) [3]; Sym 5 (IFun 5 0 1 false) [2; 4]]%nat%Z).
  assert (exists v, reference t = Value v) as [v Hv] by (eexists; vm_compute; reflexivity).
  specialize (H t v Hv). vm_compute in H. discriminate H.
Qed.
Print Assumptions C02_pyfunc_refuted_pop_before_push.

(* non-vacuity / positive instance: with the longer branch first the same diamond runs, twice, with empty queues *)
Example C02_witness :
  let t := [Sym 0 (IFun 0 0 1 false) []; Sym 1 (IFun 1 0 1 false) [0]; Sym 2 (IFun 2 0 1 false) [1];
            Sym 3 (IFun 3 0 1 false) [1]; Sym 4 (IFun 4 0 1 false) [3]; Sym 5 (IFun 5 0 1 false) [4; 2]]%nat%Z in
  exists v, reference t = Value v /\ pyfunc t = (Value v, Value v).
Proof. eexists. vm_compute. split; reflexivity. Qed.
