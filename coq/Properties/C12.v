(* C12 - Cross-validated evaluation and stacking never leak held-out data. Statements only.
   The theorems are about the wiring model (Model/C12.v, over the operator denotation of C03) for ANY pipeline,
   ANY number of folds and any (symbolic) splitter; the real CrossVal / HoldOut / TrainTestScore / Function.score /
   FullStack graphs are compiled and executed on generated cases and compared with it. *)
Require Import List Bool ZArith.
From FV Require Import Lib.Sym Model.C03 Model.C12 Proofs.C12.
Import ListNotations.

(* every fold contributes exactly once, in fold order; the i-th scored pair is (true outcomes of fold i's held-out part,
   prediction of a pipeline instance trained ONLY on fold i's training part and applied to fold i's held-out features) *)
Theorem C12_no_leak_eval : forall nm X Y e n,
  List.length (outcomes nm X Y e n) = n
  /\ forall i, i < n ->
     nth_error (outcomes nm X Y e n) i
     = Some (TProj (2 * i + 1) (lsplit nm X Y),
             xa (den e (FlowSt (TProj (2 * i + 1) (fsplit nm X Y)) (TProj (2 * i) (fsplit nm X Y)) (TProj (2 * i) (lsplit nm X Y)) []))).
Proof. intros. split; [apply outcomes_length|intros i Hi; apply outcomes_nth; exact Hi]. Qed.
Print Assumptions C12_no_leak_eval.

(* features and labels are split by the same fold indices (one fitted splitter state), and the train / held-out
   parts of all folds are pairwise different splitter outputs *)
Theorem C12_same_indices : forall nm X Y,
  (exists st, fsplit nm X Y = TApp (nsplit nm) 0 st [X] /\ lsplit nm X Y = TApp (nsplit nm) 0 st [Y])
  /\ forall i j, (2 * i <> 2 * j + 1) /\ (i <> j -> 2 * i <> 2 * j /\ 2 * i + 1 <> 2 * j + 1).
Proof. intros. split; [apply same_split_state|intros; apply parts_distinct]. Qed.
Print Assumptions C12_same_indices.

(* stacking: the stacked train features are, per base model, the fold-ordered stack of the base instance trained on fold
   i's training part applied to fold i's held-out part; stacked labels are the held-out label parts in the same order;
   in apply mode every fold instance of every base model is applied to the same input *)
Theorem C12_no_leak_stack : forall nm X Y XA scope bases n,
  stack_train nm X Y scope bases n
  = TApp (nappend nm) 0 TNone
      (map (fun b => TApp (nstack nm) 0 TNone (map (fun i => base_on nm X Y scope b i (TProj (2 * i + 1) (fsplit nm X Y))) (seq 0 n))) bases)
  /\ (forall i, i < n -> nth_error (map (test_labels nm X Y) (seq 0 n)) i = Some (TProj (2 * i + 1) (lsplit nm X Y)))
  /\ (forall b i, In b bases -> i < n ->
        nth_error (map (fun i => base_on nm X Y scope b i XA) (seq 0 n)) i = Some (base_on nm X Y scope b i XA)).
Proof.
  intros. split; [apply stack_train_shape|]. split; [intros i Hi; apply stack_labels_order; exact Hi|].
  intros b i Hb Hi. apply (stack_apply_same_input nm X Y XA scope bases n b i Hb Hi).
Qed.
Print Assumptions C12_no_leak_stack.

Example C12_witness :
  let nm := Names 10 11 12 13 14 15 in
  let e := EOp (OpSpec (Some (Actor 5 0 true)) TSame None) in
  List.length (outcomes nm (TProj 0 TNone) (TProj 1 TNone) e 3) = 3.
Proof. reflexivity. Qed.
