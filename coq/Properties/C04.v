(* C04 - Persisted states are bound to the actors that produced them in every mode. Statements only.
   PARTIAL: theorems about the lifecycle model over the decorated operators (Model/C04.v); the real re-expansion,
   Composition.persistent, asset.State offsets and compilation are exercised by histories whose every action runs in a
   fresh interpreter. The production performance-tracking evaluation is NOT covered by a theorem: on the real code its
   composition loses persistent groups (known finding), which depends on reference-count driven registry edits that
   the model does not express. *)
Require Import List Bool ZArith.
From FV Require Import Lib.Sym Model.C01 Model.C01Compile Model.C03 Model.C03Graph Model.C04 Proofs.C04 Proofs.C04Graph Proofs.C04GraphTrain Proofs.C04GraphTrainPers Proofs.C04GraphCommit Model.C04Seg Proofs.C04SegCheck.
Import ListNotations.

(* positional binding is correct: a freshly expanded pipeline whose i-th stateful apply-path actor receives the i-th
   committed state computes exactly what the training run's own apply path denotes - every actor gets the state its own
   counterpart produced, for every pipeline and every previous generation *)
Theorem C04_positional_binding : forall prev ops s, persisted s = [] ->
  apply_run ops (persisted (train_run prev ops s)) 0 (xa s) = xa (train_run prev ops s).
Proof. exact positional_binding. Qed.
Print Assumptions C04_positional_binding.

(* incremental re-training continues, actor by actor, from the state stored at the actor's own position *)
Theorem C04_retrain_continues : forall prev o s a,
  oapply o = Some a -> astateful a = true ->
  exists feats labels, persisted (train_op prev o s)
    = persisted s ++ [TState (aname a) (ahp a) (nth (List.length (persisted s)) prev TNone) feats labels].
Proof. exact retrain_slot. Qed.
Print Assumptions C04_retrain_continues.

(* stateful actors used only in train mode (train-only, label) are never persistent and never loaded *)
Theorem C04_train_only_not_persistent : forall prev o s,
  oapply o = None -> persisted (train_op prev o s) = persisted s.
Proof. intros prev o s H. apply (train_op_noapply prev o s H). Qed.
Print Assumptions C04_train_only_not_persistent.

(* C04 meets C03 and C01: the apply segment of the expression as a task graph (Model/C03Graph.v build_a: the apply-path worker
   of every operator in the group it shares with the training graph), evaluated by the graph semantics of C01 with the
   accessor that binds ANY stored list to the persistent groups by position, computes what apply_run computes - so the
   lifecycle model's positional binding IS the loader semantics of the compiler model (no hypothesis on the stored list:
   shorter lists leave the remaining actors without state, longer ones are ignored) *)
Theorem C04_apply_segment : forall e a t sl sts,
  let ga := build_a e (asource a) in
  value (geval (Some (combine (pers_gids e (gsource a t sl)) sts)) (anodes ga)) (apa ga)
  = apply_run (flatten e) sts 0 (xa (source a t sl)).
Proof. exact apply_segment. Qed.
Print Assumptions C04_apply_segment.

(* hence, with C04_positional_binding: loaded with what ANY training generation committed - continuing from any previous
   generation - the apply segment reproduces that training run's own apply path *)
Theorem C04_apply_segment_generation : forall e a t sl prev,
  let run := train_run prev (flatten e) (source a t sl) in
  let ga := build_a e (asource a) in
  value (geval (Some (combine (pers_gids e (gsource a t sl)) (persisted run))) (anodes ga)) (apa ga) = xa run.
Proof. exact apply_segment_generation. Qed.
Print Assumptions C04_apply_segment_generation.

(* ... and on the TRAINING side: the training graph of the expression (Model/C03Graph.v build), evaluated by the graph
   semantics of C01 with the accessor that holds a previous generation bound to the persistent groups by position, delivers at
   its apply, train and label tails what the lifecycle model's training run continuing from that generation denotes (every
   stateful apply-path actor continues from the state stored at its own position, train-only and label actors start afresh) *)
Theorem C04_train_graph_generation : forall e a t sl prev,
  let gs := build e (gsource a t sl) in
  let ev := geval (Some (combine (pers_gids e (gsource a t sl)) prev)) (gnodes gs) in
  let run := train_run prev (flatten e) (source a t sl) in
  value ev (pa gs) = xa run /\ value ev (pt gs) = xt run /\ value ev (pl gs) = yl run.
Proof. exact train_graph_generation. Qed.
Print Assumptions C04_train_graph_generation.

(* ... and the states it trains for the persistent groups are, in pipeline order, the list that run persists *)
Theorem C04_train_graph_persisted : forall e a t sl prev,
  let gs := build e (gsource a t sl) in
  let L := combine (pers_gids e (gsource a t sl)) prev in
  map (fun g => match lookup_gid g (trained (geval (Some L) (gnodes gs))) with Some s => s | None => TNone end)
      (pers_gids e (gsource a t sl))
  = persisted (train_run prev (flatten e) (source a t sl)).
Proof. exact train_graph_persisted. Qed.
Print Assumptions C04_train_graph_persisted.

(* ... and through the compiler (C01): compiled with the accessor that holds a complete previous generation, for every
   expression and every visiting order the compiler model succeeds and - whenever there is anything to persist - the table's
   committer evaluates to exactly the list the re-training run persists, state by state *)
Theorem C04_retrain_commits : forall e a t sl prev visit,
  let gs := build e (gsource a t sl) in let gids := pers_gids e (gsource a t sl) in let L := combine gids prev in
  List.length prev = List.length gids ->
  NoDup visit -> (forall i, In i visit -> i < List.length (gnodes gs)) -> List.length visit = List.length (gnodes gs) ->
  exists tb, bind (compile (Some L) (gnodes gs) visit) canon = Some tb
    /\ (gids <> [] -> exists c, find_pos (fun sy => match fst sy with OCommitter => true | _ => false end) tb = Some c
          /\ forall fuel, 2 * List.length (gnodes gs) + 4 <= fuel ->
               eval fuel (Some L) (gnodes gs) tb c = Some (TTup (persisted (train_run prev (flatten e) (source a t sl))))).
Proof. intros e a t sl prev visit gs gids L H. exact (retrain_commits e a t sl prev H visit). Qed.
Print Assumptions C04_retrain_commits.

(* the graph-level correspondence check (C04Seg.check_case_graph: every training and every later action replayed on the
   executable graph models, with the observed generations in the accessor) asks nothing the lifecycle-level one does not *)
Theorem C04_graph_check_implied : forall c, C04.check_case c = true -> check_case_graph c = true.
Proof. exact seg_check_implied. Qed.
Print Assumptions C04_graph_check_implied.

Example C04_witness :
  let a := OpSpec (Some (Actor 5 0 true)) TSame None in
  let b := OpSpec (Some (Actor 6 1 true)) TNo (Some (Actor 7 0 true)) in
  let '(r, outs) := lifecycle [a; b] (source 0 1 2) [] [DoTrain; DoTrain; DoApply 1] in
  List.length r = 2 /\ List.length (nth 1 r []) = 2 /\ List.length outs = 1.
Proof. vm_compute. repeat split. Qed.

(* re-training really continues: with a previous generation in the accessor the training graph trains other states *)
Example C04_retrain_witness :
  let a := OpSpec (Some (Actor 5 0 true)) TSame None in
  let b := OpSpec (Some (Actor 6 1 true)) TNo (Some (Actor 7 0 true)) in
  let e := ESeq (EOp a) (EOp b) in
  let prev := persisted (train_run [] (flatten e) (source 0 1 2)) in
  List.length prev = List.length (pers_gids e (gsource 0 1 2))
  /\ terms_eqb (persisted (train_run prev (flatten e) (source 0 1 2))) prev = false.
Proof. vm_compute. split; reflexivity. Qed.
