(* C08 - DSL objects are equal exactly when they are structurally identical. Statements only. *)
Require Import List Bool ZArith.
From FV Require Import Lib.Tree Model.C08 Proofs.C08.
Import ListNotations.

(* equality is structural identity: for all objects of any size and nesting *)
Theorem C08_eq_structural : forall a b, heq a b = true <-> a = b.
Proof. exact tree_eqb_spec. Qed.
Print Assumptions C08_eq_structural.

(* the implementation's ALGORITHM (series.py `identical`: same class, equal hashes, element-wise equal content, the
   elements compared by the same algorithm) is structural identity whatever hash() returns for an object *)
Theorem C08_algorithm : forall (h : tree -> Z) a b, impl_eq h a b = true <-> a = b.
Proof. exact impl_eq_spec. Qed.
Print Assumptions C08_algorithm.

(* ... whereas equality by hash alone - the code before the fix - confuses distinct objects: hash(-1) = hash(-2) *)
Theorem C08_hash_only_refuted : exists a b, a <> b /\ Z.eqb (pyhash_leaf a) (pyhash_leaf b) = true.
Proof. exact hash_only_refuted. Qed.
Print Assumptions C08_hash_only_refuted.

(* equal objects hash equal, so they are interchangeable as mapping keys *)
Theorem C08_hash_consistent : forall a b, heq a b = true -> hhash a = hhash b.
Proof. intros a b H. apply tree_eqb_spec in H. subst. reflexivity. Qed.
Print Assumptions C08_hash_consistent.

(* lookups never confuse two different objects and always find an equal one; a set of two objects has one element
   exactly when they are identical *)
Theorem C08_lookups : forall a b,
  (dict_hit a b = true <-> a = b) /\ (set_size a b = 1 <-> a = b).
Proof.
  intros a b. unfold dict_hit, set_size. split; [apply tree_eqb_spec|].
  destruct (heq a b) eqn:E; split; intros H; try reflexivity; try discriminate.
  - apply tree_eqb_spec. exact E.
  - exfalso. apply tree_eqb_spec in H. unfold heq in E. rewrite H in E. discriminate.
Qed.
Print Assumptions C08_lookups.

(* identity survives pickling *)
Theorem C08_pickle : forall a, heq (pickle_roundtrip a) a = true.
Proof. intros a. apply tree_eqb_spec. reflexivity. Qed.
Print Assumptions C08_pickle.

Example C08_witness :
  heq (T 1 [T 5 []; T (-1) []]) (T 1 [T 5 []; T (-2) []]) = false /\ heq (T 1 [T 5 []]) (T 1 [T 5 []]) = true.
Proof. vm_compute. split; reflexivity. Qed.
