(* C14 - Push-down hints offered to storage back-ends never lose required data.
   PARTIAL: proved are (a) the factorisation rules - every factor offered for a table is a necessary condition of the
   predicate it was derived from and mentions that table only, (b) the offered row filter admits the table's row of every
   row combination that satisfies the where-clause and the registered join conditions (exactly the contributing rows of
   inner-join statements), (c) the column set covers every column used by the statement's own clauses.  The full claim is
   REFUTED for join conditions (two known findings): columns of an equality ON-condition are not offered, and factors of an
   outer join's ON-condition are offered for the preserved side. *)
Require Import List Bool ZArith.
From FV Require Import Model.Dsl Model.DslSem Model.C14 Proofs.C14.
Import ListNotations.

Theorem C14_factor_necessary : forall p e t f, fac_get t (factors p) = Some f -> holds e p = true -> holds e f = true.
Proof. exact factor_sound. Qed.
Print Assumptions C14_factor_necessary.

Theorem C14_factor_single_table : forall p t f, fac_get t (factors p) = Some f -> forall x, In x (tables_in f) -> x = t.
Proof. exact factor_single_table. Qed.
Print Assumptions C14_factor_single_table.

Theorem C14_filter_safe_partial : forall src pre t e,
  (forall p, In p (filter_clauses src pre) -> holds e p = true) ->
  offered_factors t src pre <> [] -> admits (offered_factors t src pre) t (env_get (false, t) e) = true.
Proof. exact offered_filter_safe_refs. Qed.
Print Assumptions C14_filter_safe_partial.

Theorem C14_columns_cover_partial : forall t src sel pre grp post ord c f,
  In f (out_features src sel ++ match pre with Some p => [p] | None => [] end ++ grp
        ++ match post with Some p => [p] | None => [] end ++ map fst ord) ->
  In c (columns_in t f) -> In c (offered_columns t src sel pre grp post ord).
Proof. exact offered_columns_cover. Qed.
Print Assumptions C14_columns_cover_partial.

(* FALSE on the faithful model: a column used by an equality join condition is not in the offered column set *)
Theorem C14_join_columns_refuted : exists src sel t c cond,
  In cond (join_conditions src) /\ In c (columns_in t cond) /\ ~ In c (offered_columns t src sel None [] None []).
Proof.
  exists eqjoin, [FCol 0 1 KInt], 0, 0, (FBin OEq (FCol 0 0 KInt) (FCol 1 0 KInt)).
  split; [left; reflexivity|exact join_column_not_offered].
Qed.
Print Assumptions C14_join_columns_refuted.

(* FALSE on the faithful model: a row of the preserved side of an outer join is rejected by the offered filter *)
Theorem C14_outer_join_filter_refuted : exists src t row,
  preserved t src = true /\ admits (offered_factors t src None) t row = false /\ offered_factors t src None <> [].
Proof.
  exists leftjoin, 0, [(0, VInt 1); (1, VInt 0)]. destruct preserved_row_rejected as [H1 H2].
  split; [exact H1|split; [exact H2|]]. vm_compute. intros H. discriminate H.
Qed.
Print Assumptions C14_outer_join_filter_refuted.

(* non-vacuity: a disjunction over two tables offers nothing, a conjunction offers each side, a negation stays negated *)
Example C14_witness :
  factors (FBin OOr (FBin OGt (FCol 0 0 KInt) (FLit (LInt 1))) (FBin OLt (FCol 1 0 KInt) (FLit (LInt 3)))) = []
  /\ factors (FBin OAnd (FBin OGt (FCol 0 0 KInt) (FLit (LInt 1))) (FBin OLt (FCol 1 0 KInt) (FLit (LInt 3))))
     = [(0, FBin OGt (FCol 0 0 KInt) (FLit (LInt 1))); (1, FBin OLt (FCol 1 0 KInt) (FLit (LInt 3)))]
  /\ factors (FNot (FBin OGt (FCol 0 0 KInt) (FLit (LInt 1)))) = [(0, FNot (FBin OGt (FCol 0 0 KInt) (FLit (LInt 1))))].
Proof. vm_compute. repeat split; reflexivity. Qed.
