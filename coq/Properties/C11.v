(* C11 - Graph construction keeps topology invariants under any call sequence. Statements only.
   Model: Model/C11.v (mirrors Subscription.__new__, publish/republish, Node/Worker/Future._publish,
   Future register/_collapse, Worker.train, including the state a failing call leaves behind).
   PARTIAL: proved for direct worker-to-worker wiring (a refused subscription changes nothing, no self edge, at most
   one publisher per input port and one exactly when the port is registered - after any call sequence); the full
   claims are refuted (witnesses below) for placeholders and for the two-step train call; the remaining invariants
   (apply-xor-train, one trained member per group, trained workers publish nothing, only existing output ports are
   published) are proved for direct wiring too (C11_topology_direct_partial) and checked on every generated sequence,
   placeholders included, by the correspondence oracle. *)
Require Import List Bool Arith.
From FV Require Import Model.C11 Proofs.C11 Proofs.C11Single Proofs.C11Inv.
Import ListNotations.

(* direct wiring: a refused subscription leaves the graph exactly as it was (extensionally) *)
Theorem C11_failed_subscribe_unchanged_partial : forall u st pn pidx subscriber p st',
  is_future u subscriber = false -> is_future u pn = false ->
  publish u st pn pidx subscriber p = (st', false) -> equiv st' st.
Proof. exact failed_publish_unchanged. Qed.
Print Assumptions C11_failed_subscribe_unchanged_partial.

(* direct wiring: no node ever feeds itself, after any call (subscribe or train), successful or not *)
Theorem C11_no_self_edge_partial : forall u st o st' ok,
  worker_only u ->
  (match o with Subscribe s _ p _ => s < List.length u /\ p < List.length u
              | Train w tp _ lp _ => w < List.length u /\ tp < List.length u /\ lp < List.length u end) ->
  no_self st -> step u st o = (st', ok) -> no_self st'.
Proof. exact step_no_self. Qed.
Print Assumptions C11_no_self_edge_partial.

(* direct wiring: after any sequence of subscribe / train calls (refused ones included) every input port is fed by at most
   one output, and by one exactly when it is registered *)
Theorem C11_single_publisher_direct_partial : forall u, worker_only u -> forall ops st' ok,
  Forall (in_range u) ops -> In (st', ok) (run u empty ops) ->
  (forall n p m i m' i', In (n, p) (get_out (m, i) (outs st')) -> In (n, p) (get_out (m', i') (outs st')) -> (m, i) = (m', i'))
  /\ (forall n p, has_port st' n p = true <-> exists k, In (n, p) (get_out k (outs st'))).
Proof. exact single_publisher. Qed.
Print Assumptions C11_single_publisher_direct_partial.

(* direct wiring: after any sequence of subscribe / train calls (refused ones included) every node is subscribed on apply
   ports or on train/label ports but never both; a published output port exists and belongs to an untrained node (a
   trained worker publishes nothing); at most one member of a worker group is trained *)
Theorem C11_topology_direct_partial : forall u, worker_only u -> forall ops st' ok,
  Forall (in_range u) ops -> In (st', ok) (run u empty ops) ->
  (forall n p q, In p (get_ports n (ports st')) -> In q (get_ports n (ports st')) -> is_apply p = is_apply q)
  /\ (forall n i, get_out (n, i) (outs st') <> [] -> i < szout_of u n /\ trained st' n = false)
  /\ (forall n m g, n < List.length u -> m < List.length u -> gid_of u n = Some g -> gid_of u m = Some g ->
                    trained st' n = true -> trained st' m = true -> n = m).
Proof. exact topology_invariants. Qed.
Print Assumptions C11_topology_direct_partial.

(* the full claim "at most one publisher per input port" is FALSE with placeholders:
   f[0].subscribe(a[0]); f[0].subscribe(b[0]); w[0].subscribe(f[0]) - all three calls succeed and w@Apply[0]
   ends up on the outputs of both a and b *)
Theorem C11_single_publisher_refuted :
  exists u ops st, map snd (run u empty ops) = [true; true; true] /\ last (map fst (run u empty ops)) empty = st
    /\ In (3, PApply 0) (get_out (0, 0) (outs st)) /\ In (3, PApply 0) (get_out (1, 0) (outs st)).
Proof.
  exists [DWorker 0 false 1 1; DWorker 1 false 1 1; DFuture 1 1; DWorker 2 false 1 1],
         [Subscribe 2 0 0 0; Subscribe 2 0 1 0; Subscribe 3 0 2 0].
  eexists. vm_compute. repeat split; auto.
Qed.
Print Assumptions C11_single_publisher_refuted.

(* the full claim "a failing call leaves the graph as it was" is FALSE for train: the Train subscription
   survives a refused Label publish (here: the label publisher is the trained worker's own fork... a trained sibling) *)
Theorem C11_failed_call_unchanged_refuted :
  exists u o st', step u empty o = (st', false) /\ get_ports 1 (ports st') = [PTrain].
Proof.
  exists [DWorker 0 false 1 1; DWorker 1 true 1 1], (Train 1 0 0 1 0). eexists. vm_compute. split; reflexivity.
Qed.
Print Assumptions C11_failed_call_unchanged_refuted.

(* non-vacuity: a legal direct wiring reaches a state satisfying the invariant hypotheses *)
Example C11_witness :
  let u := [DWorker 0 false 1 1; DWorker 1 true 1 1; DWorker 2 false 2 1] in
  worker_only u /\ map snd (run u empty [Subscribe 2 0 0 0; Train 1 0 0 0 0; Subscribe 2 0 1 0]) = [true; true; false].
Proof.
  split; [|vm_compute; reflexivity].
  intros n Hn. simpl in Hn. destruct n as [|[|[|n]]]; try reflexivity. exfalso. apply (Nat.lt_irrefl 3). 
  apply (Nat.le_lt_trans _ (S (S (S n)))); [repeat apply le_n_S; apply Nat.le_0_l|exact Hn].
Qed.
