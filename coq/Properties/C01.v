(* C01 - Compiled instruction table preserves the task-graph dataflow. Statements only.
   Three layers: (1) the reference denotation of a segment (Model/C01.v) and its properties; (2) the symbol-table
   validator of Model/C01Compile.v, proved sound for EVERY graph, asset accessor and table: an accepted table
   evaluates (instruction semantics of target/user.py and target/system.py over free terms) at every node's functor
   to the graph value, and at the committer to the states of the persistent groups at their list positions - the
   correspondence run feeds it the table the real flow.compile emitted for every generated segment; (3) the
   executable model of the compiler algorithm itself (Table.add / Linkage / Index / __iter__), which must emit
   symbol for symbol the table the real compiler emits (correspondence).
   (4) Compiler correctness of the model (Proofs/C01Prim, C01Blocks, C01Inv, C01Step, C01Emit, C01Canon, C01Main): for
   every well-formed segment, every asset accessor (any subset / order of persistent groups whose trained members are
   all inside or all outside the segment) and EVERY order in which Traversal.each may hand the nodes to Table.add,
   compilation succeeds and the emitted table is accepted by the validator - hence (with (2)) it evaluates at every
   node to the graph value and at the committer to the trained states at their list positions.
   (5) The traversal feeding the compiler (Model/C01Each.v, span.py Traversal.each) is modelled too and must reproduce the
   recorded order of Table.add calls exactly on every generated segment; it is proved duplicate-free, in range and, for
   connected segments, exhaustive - so C01_compile_segment needs no hypothesis about the visiting order at all.
   What remains outside the theorems: the tie between these models and the code (symbol-for-symbol comparison of the
   table and element-for-element comparison of the traversal on every generated segment) and the runners that execute
   the table (C02). *)
Require Import List Bool ZArith.
From FV Require Import Lib.Sym Model.C01 Proofs.C01 Model.C01Compile Proofs.C01Compile Proofs.C01Main Model.C01Each Proofs.C01Each Proofs.C01EachCover.
Import ListNotations.

(* every task is evaluated exactly once, and later tasks never change what earlier ones produced *)
Theorem C01_once : forall a nodes,
  List.length (outputs (geval a nodes)) = List.length nodes
  /\ forall pre post, nodes = pre ++ post -> exists rows, outputs (geval a nodes) = outputs (geval a pre) ++ rows.
Proof. intros a nodes. split; [apply geval_once|intros pre post ->; apply geval_app]. Qed.
Print Assumptions C01_once.

(* an actor with a trained sibling is applied with precisely the state that sibling produced in the same run *)
Theorem C01_state_binding : forall a e n inputs s,
  nkind n = KApply inputs -> nstateful n = true -> lookup_gid (ngid n) (trained e) = Some s ->
  forall row, outputs (eval_node a e n) = outputs e ++ [row] ->
  row = match nszout n with
        | 1 => [TApp (nname n) (nhp n) s (map (value e) inputs)]
        | k => map (fun i => TProj i (TApp (nname n) (nhp n) s (map (value e) inputs))) (seq 0 k)
        end.
Proof. exact derived_state. Qed.
Print Assumptions C01_state_binding.

Theorem C01_trained_state : forall a e n tr lb,
  nkind n = KTrain tr lb ->
  lookup_gid (ngid n) (trained (eval_node a e n))
  = Some (TState (nname n) (nhp n) (match previous a (ngid n) with Some t => t | None => TNone end) (value e tr) (value e lb)).
Proof. exact trained_state. Qed.
Print Assumptions C01_trained_state.

(* new states are committed from exactly the persistent groups, at their list positions *)
Theorem C01_commit_positions : forall l e states,
  committed (Some l) e = Some states ->
  List.length states = List.length l
  /\ forall i g t, nth_error l i = Some (g, t) ->
       nth_error states i = Some (match lookup_gid g (trained e) with Some s => s | None => TNone end).
Proof. exact committed_positions. Qed.
Print Assumptions C01_commit_positions.

(* translation validation: an accepted symbol table computes, at the functor symbol of every node, exactly what
   direct evaluation of the task graph computes for that node (state of the sibling trained in the same run, else the
   stored state, else none; inputs in port order; multi-output nodes split by getters) - for all graphs and tables *)
Theorem C01_table_sound : forall a nodes t, validate a nodes t = true ->
  forall i n, nth_error nodes i = Some n ->
    exists p, pos t i = Some p
      /\ forall fuel, 2 * i + 2 <= fuel -> eval fuel a nodes t p = Some (node_term a nodes i).
Proof. exact validate_sound. Qed.
Print Assumptions C01_table_sound.

(* ... and node_term is what the consumers of that node see in the graph, port by port *)
Theorem C01_port_value : forall a nodes i n p, nth_error nodes i = Some n -> is_train n = false -> p < nszout n ->
  value (geval a nodes) (i, p) = match nszout n with 1 => node_term a nodes i | _ => TProj p (node_term a nodes i) end.
Proof. exact port_value. Qed.
Print Assumptions C01_port_value.

(* the committer of an accepted table receives exactly the states trained in this run, one per persistent group at
   its list position *)
Theorem C01_commit_sound : forall a nodes t l c, a = Some l -> validate a nodes t = true -> valid_commit a nodes t = true ->
  find_pos (fun s => match fst s with OCommitter => true | _ => false end) t = Some c ->
  forall fuel, 2 * List.length nodes + 4 <= fuel -> eval fuel a nodes t c = Some (TTup (commit_states a nodes l)).
Proof. exact commit_sound. Qed.
Print Assumptions C01_commit_sound.

(* compiler correctness: every well-formed segment (wfb: every port fed by an earlier non-trained node's existing output
   port; a trained member is stateful, unique in its group and listed before its applied members; the accessor lists
   every group once and either all or none of the listed groups are trained in the segment; the visiting order is a
   permutation of the nodes): the compiler model succeeds - no assertion of Table.add, Linkage.insert, Index.set or
   Linkage.leaves fires, every argument resolves - and the validator accepts what it emits *)
Theorem C01_compile_correct : forall a nodes visit, wfb a nodes visit = true -> compile_ok a nodes visit = true.
Proof. exact compile_correct. Qed.
Print Assumptions C01_compile_correct.

(* ... hence executing the compiled table yields at every node exactly the value of direct graph evaluation, and at
   the committer the states trained in this run, one per persistent group at its list position *)
Theorem C01_compile_dataflow : forall a nodes visit, wfb a nodes visit = true ->
  exists t, bind (compile a nodes visit) canon = Some t
    /\ (forall i n, nth_error nodes i = Some n ->
          exists p, pos t i = Some p /\ forall fuel, 2 * i + 2 <= fuel -> eval fuel a nodes t p = Some (node_term a nodes i))
    /\ (forall l c, a = Some l -> find_pos (fun s => match fst s with OCommitter => true | _ => false end) t = Some c ->
          forall fuel, 2 * List.length nodes + 4 <= fuel -> eval fuel a nodes t c = Some (TTup (commit_states a nodes l))).
Proof.
  intros a nodes visit Hw. pose proof (compile_correct a nodes visit Hw) as H. unfold compile_ok in H.
  destruct (bind (compile a nodes visit) canon) as [t|]; [|discriminate]. exists t. split; [reflexivity|].
  apply andb_prop in H. destruct H as [Hv Hc]. split; [exact (validate_sound a nodes t Hv)|].
  intros l c Ha Hf. exact (commit_sound a nodes t l c Ha Hv Hc Hf).
Qed.
Print Assumptions C01_compile_dataflow.

(* the segment traversal (Model/C01Each.v: Traversal.each - depth-first over the subscriptions, output ports in index order,
   each port's subscriptions in the order they were made, only trained subscribers followed at the tail) hands no node to
   the compiler twice, only nodes of the segment, and - in a connected segment (connected_b: every node but the head has a
   first port fed by an earlier node, has made its subscriptions, and only trained nodes subscribe to the tail) - every
   node *)
Theorem C01_traversal : forall nodes conn tail,
  NoDup (each nodes conn tail)
  /\ (nodes <> [] -> forall x, In x (each nodes conn tail) -> x < List.length nodes)
  /\ (connected_b nodes conn tail = true -> forall i, i < List.length nodes -> In i (each nodes conn tail)).
Proof.
  intros nodes conn tail. split; [apply each_nodup|]. split; [apply each_range|].
  intros Hc. destruct (connected_spec nodes conn tail Hc) as [Hne [Hp [Hcn Ht]]]. exact (each_covers nodes conn tail Hne Hp Hcn Ht).
Qed.
Print Assumptions C01_traversal.

(* segment-level compiler correctness, with the traversal the code uses: a well-formed, connected segment compiles - in the
   order Traversal.each visits it - to a table the validator accepts *)
Theorem C01_compile_segment : forall a nodes conn tail,
  wf_graph a nodes = true -> connected_b nodes conn tail = true -> compile_ok a nodes (each nodes conn tail) = true.
Proof. exact compile_segment. Qed.
Print Assumptions C01_compile_segment.

Example C01_compile_correct_witness :
  let nodes := [Node 0 0 0 false 2 (KApply []); Node 1 0 1 true 1 (KTrain (0, 0) (0, 1));
                Node 1 0 1 true 1 (KApply [(0, 0)]); Node 2 0 2 false 1 (KApply [(2, 0); (0, 1)])]%nat%Z in
  wfb None nodes [3; 0; 2; 1]%nat = true /\ wfb (Some [(1%nat, TNone)]) nodes [0; 2; 3; 1]%nat = true
  /\ wfb (Some [(7%nat, TNone)]) nodes [0; 1; 2; 3]%nat = true.
Proof. vm_compute. repeat split. Qed.

(* non-vacuity: the compiler model's table for a fork group with a multi-output source under a persistent accessor,
   visited fork-first, is accepted *)
Example C01_compile_witness :
  let nodes := [Node 0 0 0 false 2 (KApply []); Node 1 0 1 true 1 (KTrain (0, 0) (0, 1));
                Node 1 0 1 true 1 (KApply [(0, 0)]); Node 2 0 2 false 1 (KApply [(2, 0); (0, 1)])]%nat%Z in
  let a := Some [(1%nat, TNone)] in
  match bind (compile a nodes [0; 2; 3; 1]%nat) canon with
  | Some t => validate a nodes t && valid_commit a nodes t && Nat.eqb (List.length t) 9
  | None => false
  end = true.
Proof. vm_compute. reflexivity. Qed.

Example C01_witness :
  let nodes := [Node 0 0 0 false 2 (KApply []); Node 1 0 1 true 1 (KTrain (0, 0) (0, 1));
                Node 1 0 1 true 1 (KApply [(0, 0)]); Node 2 0 2 false 1 (KApply [(2, 0); (0, 1)])]%nat%Z in
  let e := geval (Some [(1%nat, TNone)]) nodes in
  List.length (outputs e) = 4%nat /\ committed (Some [(1%nat, TNone)]) e <> None.
Proof. vm_compute. split; [reflexivity|discriminate]. Qed.
