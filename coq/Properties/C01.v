(* C01 - Compiled instruction table preserves the task-graph dataflow. Statements only.
   PARTIAL: the theorems are about the reference denotation (Model/C01.v) - what executing the compiled table
   must yield. The compiler's algorithm itself (Table.add, Linkage, alias merge, stub pruning) is not modelled;
   flow.compile's real output is executed by an independent interpreter on every generated segment and compared
   with this denotation (sink value, committed states, loaded offsets, every task run once). *)
Require Import List Bool ZArith.
From FV Require Import Lib.Sym Model.C01 Proofs.C01.
Import ListNotations.

(* every task is evaluated exactly once, and later tasks never change what earlier ones produced *)
Theorem C01_once : forall a nodes,
  List.length (outputs (geval a nodes)) = List.length nodes
  /\ forall pre post, nodes = pre ++ post -> exists rows, outputs (geval a nodes) = outputs (geval a pre) ++ rows.
Proof. intros a nodes. split; [apply geval_once|intros pre post ->; apply geval_app]. Qed.
Print Assumptions C01_once.

(* an actor with a trained sibling is applied with precisely the state that sibling produced in the same run *)
Theorem C01_state_binding : forall a e n inputs s,
  nkind n = KApply inputs -> nstateful n = true -> lookup_gid (ngid n) (trained e) = Some s ->
  forall row, outputs (eval_node a e n) = outputs e ++ [row] ->
  row = match nszout n with
        | 1 => [TApp (nname n) (nhp n) s (map (value e) inputs)]
        | k => map (fun i => TProj i (TApp (nname n) (nhp n) s (map (value e) inputs))) (seq 0 k)
        end.
Proof. exact derived_state. Qed.
Print Assumptions C01_state_binding.

Theorem C01_trained_state : forall a e n tr lb,
  nkind n = KTrain tr lb ->
  lookup_gid (ngid n) (trained (eval_node a e n))
  = Some (TState (nname n) (nhp n) (match previous a (ngid n) with Some t => t | None => TNone end) (value e tr) (value e lb)).
Proof. exact trained_state. Qed.
Print Assumptions C01_trained_state.

(* new states are committed from exactly the persistent groups, at their list positions *)
Theorem C01_commit_positions : forall l e states,
  committed (Some l) e = Some states ->
  List.length states = List.length l
  /\ forall i g t, nth_error l i = Some (g, t) ->
       nth_error states i = Some (match lookup_gid g (trained e) with Some s => s | None => TNone end).
Proof. exact committed_positions. Qed.
Print Assumptions C01_commit_positions.

Example C01_witness :
  let nodes := [Node 0 0 0 false 2 (KApply []); Node 1 0 1 true 1 (KTrain (0, 0) (0, 1));
                Node 1 0 1 true 1 (KApply [(0, 0)]); Node 2 0 2 false 1 (KApply [(2, 0); (0, 1)])]%nat%Z in
  let e := geval (Some [(1%nat, TNone)]) nodes in
  List.length (outputs e) = 4%nat /\ committed (Some [(1%nat, TNone)]) e <> None.
Proof. vm_compute. split; [reflexivity|discriminate]. Qed.
