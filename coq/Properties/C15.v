(* C15 - Served entries reach the pipeline in the query's schema. Statements only.
   Model: Model/C15.v (Reader._match_entry / _cast after the fix of the cast alignment, kind.cast on the
   primitive kinds used, Dense/Frame operations as plain matrices). *)
Require Import String List Bool ZArith.
From FV Require Import Model.C15 Proofs.C15.
Import ListNotations.

(* alignment: whenever an entry is accepted with a re-ordering, the indices select exactly the query's
   columns in the query's order; the no-reordering shortcut is taken only for identical name sequences *)
Theorem C15_alignment : forall q e,
  (forall idx, match_entry q e = (true, Some idx) -> map (nth_error e) idx = map Some q)
  /\ (match_entry q e = (true, None) -> q = e).
Proof. intros q e. split; [intros idx; apply match_entry_indices|apply match_entry_identical]. Qed.
Print Assumptions C15_alignment.

(* refusal: an entry lacking a required column is refused rather than padded or misaligned;
   an entry carrying every required column (permutation or superset, any arrangement) is never refused *)
Theorem C15_refusal : forall q e,
  (forall x, In x q -> ~ In x e -> match_entry q e = (false, None))
  /\ (incl q e -> nonempty_names e -> fst (match_entry q e) = true)
  /\ (forall idx, match_entry q e = (true, idx) -> incl q e).
Proof.
  intros q e. split; [intros x; apply match_entry_refuses|]. split; [apply match_entry_complete|intros idx; apply match_entry_accepts].
Qed.
Print Assumptions C15_refusal.

(* the same at the level of the whole entry path *)
Theorem C15_deliver_refusal : forall query entry data,
  (forall x, In x (map fst query) -> ~ In x (map fst entry) -> deliver query entry data = Refused)
  /\ (incl (map fst query) (map fst entry) -> nonempty_names (map fst entry) -> deliver query entry data <> Refused).
Proof. intros. split; [intros x; apply deliver_refused|apply deliver_not_refused]. Qed.
Print Assumptions C15_deliver_refusal.

(* casting: per declared field, the delivered column is the aligned column itself when the entry's field
   of the SAME NAME already has the declared kind, and its value-wise cast otherwise *)
Theorem C15_cast : forall expected actual cols out,
  List.length cols = List.length expected ->
  cast_columns expected actual cols = Some out ->
  forall i n k c, nth_error expected i = Some (n, k) -> nth_error cols i = Some c ->
    exists ak c', kind_named n actual = Some ak /\ nth_error out i = Some c'
      /\ (if kind_eqb k ak then c' = c else cast_all k c = Some c').
Proof. exact cast_columns_spec. Qed.
Print Assumptions C15_cast.

(* plain matrix semantics of the tabular payload operations (one model for both implementations) *)
Theorem C15_matrix : forall m,
  (forall idx i j, i < List.length idx -> cell (take_rows idx m) i j = cell m (nth i idx 0) j)
  /\ (forall idx i j, i < List.length m -> j < List.length idx -> cell (take_columns idx m) i j = cell m i (nth j idx 0))
  /\ (forall w i j, j < w -> i < List.length m -> cell (to_columns_w w m) j i = cell (to_rows m) i j)
  /\ (forall idx, List.length (take_rows idx m) = List.length idx)
  /\ (forall idx, List.length (take_columns idx m) = List.length m
                  /\ Forall (fun r => List.length r = List.length idx) (take_columns idx m)).
Proof.
  intros m. split; [intros; apply take_rows_cell; assumption|]. split; [intros; apply take_columns_cell; assumption|].
  split; [intros; apply to_columns_cell; assumption|]. split; [intros; apply take_rows_shape|intros; apply take_columns_shape].
Qed.
Print Assumptions C15_matrix.

(* non-vacuity *)
Example C15_witness :
  match_entry ["a"; "b"]%string ["x"; "b"; "a"]%string = (true, Some [2; 1])
  /\ match_entry ["a"; "b"]%string ["x"; "b"]%string = (false, None)
  /\ deliver [("a", KInt); ("b", KStr)]%string [("b", KInt); ("a", KStr)]%string [[VInt 7; VStr 1]]
     = Delivered [[VInt 1]; [VStr 7]].
Proof. vm_compute. split; [reflexivity|split; reflexivity]. Qed.
