(* Abstract syntax of the query DSL shared by the DSL-level models (C07, C14, C06). *)
Require Import List Bool ZArith.
Import ListNotations.

Inductive kind := KInt | KFloat | KStr | KBool | KDate | KTs.
Inductive lit := LInt (z : Z) | LStr (s : nat) | LBool (b : bool) | LFloat (f : nat).
Inductive binop := OAdd | OSub | OMul | OEq | ONe | OLt | OLe | OGt | OGe | OAnd | OOr.
Inductive aggfn := ACount | ASum | AMin | AMax | AAvg.

Inductive feature :=
  | FCol (t c : nat) (k : kind)                (* column c of table t *)
  | FElem (r c : nat) (k : kind)               (* element c of reference r *)
  | FLit (v : lit)
  | FAlias (f : feature) (n : nat)
  | FBin (op : binop) (a b : feature)
  | FNot (a : feature)
  | FAgg (fn : aggfn) (a : feature).

Inductive jkind := JInner | JLeft | JRight | JFull | JCross.

Inductive source :=
  | STable (t : nat) (cols : list (nat * kind))
  | SRef (s : source) (r : nat)
  | SJoin (k : jkind) (l r : source) (cond : option feature)
  | SSet (sk : nat) (l r : source)
  | SQuery (s : source) (sel : list feature) (pre : option feature) (grp : list feature) (post : option feature)
           (ord : list (feature * bool)) (rows : option (nat * nat)).

Definition kind_eqb (a b : kind) : bool :=
  match a, b with KInt, KInt | KFloat, KFloat | KStr, KStr | KBool, KBool | KDate, KDate | KTs, KTs => true | _, _ => false end.
Definition lit_eqb (a b : lit) : bool :=
  match a, b with
  | LInt x, LInt y => Z.eqb x y | LStr x, LStr y => Nat.eqb x y | LBool x, LBool y => Bool.eqb x y | LFloat x, LFloat y => Nat.eqb x y
  | _, _ => false
  end.
Definition binop_eqb (a b : binop) : bool :=
  match a, b with
  | OAdd, OAdd | OSub, OSub | OMul, OMul | OEq, OEq | ONe, ONe | OLt, OLt | OLe, OLe | OGt, OGt | OGe, OGe | OAnd, OAnd | OOr, OOr => true
  | _, _ => false
  end.
Definition aggfn_eqb (a b : aggfn) : bool :=
  match a, b with ACount, ACount | ASum, ASum | AMin, AMin | AMax, AMax | AAvg, AAvg => true | _, _ => false end.

Fixpoint feature_eqb (a b : feature) : bool :=
  match a, b with
  | FCol t c k, FCol t' c' k' => Nat.eqb t t' && Nat.eqb c c' && kind_eqb k k'
  | FElem r c k, FElem r' c' k' => Nat.eqb r r' && Nat.eqb c c' && kind_eqb k k'
  | FLit v, FLit w => lit_eqb v w
  | FAlias f n, FAlias g m => feature_eqb f g && Nat.eqb n m
  | FBin o x y, FBin o' x' y' => binop_eqb o o' && feature_eqb x x' && feature_eqb y y'
  | FNot x, FNot y => feature_eqb x y
  | FAgg f x, FAgg g y => aggfn_eqb f g && feature_eqb x y
  | _, _ => false
  end.

Definition is_numeric (k : kind) : bool := match k with KInt | KFloat => true | _ => false end.
Definition is_arith (o : binop) : bool := match o with OAdd | OSub | OMul => true | _ => false end.
Definition is_cmp (o : binop) : bool := match o with OEq | ONe | OLt | OLe | OGt | OGe => true | _ => false end.

Definition lit_kind (v : lit) : kind :=
  match v with LInt _ => KInt | LStr _ => KStr | LBool _ => KBool | LFloat _ => KFloat end.

(* kind of a feature; None = the constructor raises the grammar error (operand kind rules of
   Arithmetic / Comparison / Logical.__init__ and of the aggregate functions) *)
Fixpoint fkind (f : feature) : option kind :=
  match f with
  | FCol _ _ k | FElem _ _ k => Some k
  | FLit v => Some (lit_kind v)
  | FAlias g _ => fkind g
  | FBin o a b =>
      match fkind a, fkind b with
      | Some ka, Some kb =>
          if is_arith o then
            if is_numeric ka && is_numeric kb then Some (match ka, kb with KInt, KInt => KInt | _, _ => KFloat end) else None
          else if is_cmp o then
            if (is_numeric ka && is_numeric kb) || kind_eqb ka kb then Some KBool else None
          else if kind_eqb ka KBool && kind_eqb kb KBool then Some KBool else None
      | _, _ => None
      end
  | FNot a => match fkind a with Some KBool => Some KBool | _ => None end
  | FAgg fn a =>
      match fkind a with
      | Some k =>
          match fn with
          | ACount => Some KInt
          | _ => if is_numeric k then Some k else None
          end
      | None => None
      end
  end.

(* Element.dissect: the column / element leaves of a feature *)
Fixpoint elements (f : feature) : list feature :=
  match f with
  | FCol _ _ _ | FElem _ _ _ => [f]
  | FLit _ => []
  | FAlias g _ => elements g
  | FBin _ a b => elements a ++ elements b
  | FNot a => elements a
  | FAgg _ a => elements a
  end.

Fixpoint has_agg (f : feature) : bool :=
  match f with
  | FAgg _ _ => true
  | FAlias g _ => has_agg g
  | FBin _ a b => has_agg a || has_agg b
  | FNot a => has_agg a
  | _ => false
  end.

Fixpoint operable (f : feature) : feature := match f with FAlias g _ => operable g | _ => f end.

Definition fmem (f : feature) (l : list feature) : bool := existsb (feature_eqb f) l.

Definition fname (f : feature) : option nat :=
  match f with FCol _ c _ => Some c | FElem _ c _ => Some c | FAlias _ n => Some n | _ => None end.
