(* C03 - the task graph an operator expression denotes (what Operator.compose / Trunk.extend / the placeholder collapse
   build for the decorated operators, as a node list of Model/C01.v), linking the expression denotation of Model/C03.v
   with the graph denotation and the compiler of C01. *)
Require Import List Bool ZArith Arith.
From FV Require Import Lib.Sym Model.C01 Model.C03.
Import ListNotations.

Record gstate := GState {
  gnodes : list node;        (* in dependency order *)
  pa : nat * nat;            (* publisher of the apply segment's tail *)
  pt : nat * nat;            (* ... of the train segment *)
  pl : nat * nat;            (* ... of the label segment *)
  gfresh : nat               (* next worker group id *)
}.

Definition mknode (a : actor) (g : nat) (k : kind) : node := Node (aname a) (ahp a) g (astateful a) 1 k.

(* one worker group hooked on a path: the trained fork first (stateful actors only), then the applied member; `base` is the
   index the first new node gets; returns the new nodes and the index of the applied member *)
Definition group_nodes (a : actor) (g base : nat) (input tfeat tlab : nat * nat) : list node * nat :=
  if astateful a then ([mknode a g (KTrain tfeat tlab); mknode a g (KApply [input])], S base)
  else ([mknode a g (KApply [input])], base).

Definition build_op (o : opspec) (gs : gstate) : gstate :=
  let n0 := List.length (gnodes gs) in
  (* label actor: trained on the incoming train features and the OLD labels, applied to the old labels *)
  let '(nl, pl', g1) :=
    match olabel o with
    | Some l => let '(ns, idx) := group_nodes l (gfresh gs) n0 (pl gs) (pt gs) (pl gs) in (ns, (idx, 0), S (gfresh gs))
    | None => ([], pl gs, gfresh gs)
    end in
  let n1 := n0 + List.length nl in
  (* apply-path actor: trained on the incoming train features and the NEW labels *)
  let '(na, pa', g2) :=
    match oapply o with
    | Some a => let '(ns, idx) := group_nodes a g1 n1 (pa gs) (pt gs) pl' in (ns, (idx, 0), S g1)
    | None => ([], pa gs, g1)
    end in
  let n2 := n1 + List.length na in
  (* train path: another fork of the apply actor's group (mapper), or an actor of its own *)
  let '(nt, pt') :=
    match otrain o, oapply o with
    | TSame, Some a => ([mknode a g1 (KApply [pt gs])], (n2, 0))
    | TOwn t, _ => let '(ns, idx) := group_nodes t g2 n2 (pt gs) (pt gs) pl' in (ns, (idx, 0))
    | _, _ => ([], pt gs)
    end in
  GState (gnodes gs ++ nl ++ na ++ nt) pa' pt' pl' (S g2).

Fixpoint build (e : expr) (gs : gstate) : gstate :=
  match e with
  | EOp o => build_op o gs
  | ESeq l r => build r (build l gs)
  end.

(* the symbolic source: apply driver, train driver and the 1:2 slicer *)
Definition gsource (srcA srcT slice : nat) : gstate :=
  GState [Node srcA 0 0 false 1 (KApply []); Node srcT 0 1 false 1 (KApply []); Node slice 0 2 false 2 (KApply [(1, 0)])]
         (0, 0) (2, 0) (2, 1) 3.

(* the group ids of the stateful apply-path actors, in pipeline order *)
Definition pers_op (o : opspec) (gs : gstate) : list nat :=
  let g1 := match olabel o with Some _ => S (gfresh gs) | None => gfresh gs end in
  match oapply o with Some a => if astateful a then [g1] else [] | None => [] end.

Fixpoint pers_gids (e : expr) (gs : gstate) : list nat :=
  match e with
  | EOp o => pers_op o gs
  | ESeq l r => pers_gids l gs ++ pers_gids r (build l gs)
  end.

(* ---- the apply segment alone (what an apply-mode launch compiles): the apply-path worker of every operator, in the
        worker group it shares with the training graph (group ids are handed out as in build_op) ------------------- *)
Record astate := AState { anodes : list node; apa : nat * nat; afresh : nat }.

Definition build_a_op (o : opspec) (s : astate) : astate :=
  let g1 := match olabel o with Some _ => S (afresh s) | None => afresh s end in
  match oapply o with
  | Some a => AState (anodes s ++ [mknode a g1 (KApply [apa s])]) (List.length (anodes s), 0) (S (S g1))
  | None => AState (anodes s) (apa s) (S g1)
  end.

Fixpoint build_a (e : expr) (s : astate) : astate :=
  match e with EOp o => build_a_op o s | ESeq l r => build_a r (build_a l s) end.

Definition asource (srcA : nat) : astate := AState [Node srcA 0 0 false 1 (KApply [])] (0, 0) 3.

(* ---- correspondence at the graph level: on the cases of Model/C03.v the executable graph models themselves are run
        against what the real composition produced - the training graph at its train and apply tails and for the states it
        trains, and the apply segment loaded with the OBSERVED states at its tail -------------------------------------- *)
Definition check_case_graph (c : C03.case) : bool :=
  C03.check_case c &&
  match c with
  | CExpr a t sl e tr ap sts =>
      let gs := build e (gsource a t sl) in
      let ev := geval None (gnodes gs) in
      let gids := pers_gids e (gsource a t sl) in
      let ga := build_a e (asource a) in
      term_eqb (value ev (pt gs)) tr && term_eqb (value ev (pa gs)) ap
      && terms_eqb (map (fun g => match lookup_gid g (trained ev) with Some s => s | None => TNone end) gids) sts
      && term_eqb (value (geval (Some (combine gids sts)) (anodes ga)) (apa ga)) ap
  end.
