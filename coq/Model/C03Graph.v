(* C03 - the task graph an operator expression denotes (what Operator.compose / Trunk.extend / the placeholder collapse
   build for the decorated operators, as a node list of Model/C01.v), linking the expression denotation of Model/C03.v
   with the graph denotation and the compiler of C01. *)
Require Import List Bool ZArith Arith.
From FV Require Import Lib.Sym Model.C01 Model.C03.
Import ListNotations.

Record gstate := GState {
  gnodes : list node;        (* in dependency order *)
  pa : nat * nat;            (* publisher of the apply segment's tail *)
  pt : nat * nat;            (* ... of the train segment *)
  pl : nat * nat;            (* ... of the label segment *)
  gfresh : nat               (* next worker group id *)
}.

Definition mknode (a : actor) (g : nat) (k : kind) : node := Node (aname a) (ahp a) g (astateful a) 1 k.

(* one worker group hooked on a path: the trained fork first (stateful actors only), then the applied member; `base` is the
   index the first new node gets; returns the new nodes and the index of the applied member *)
Definition group_nodes (a : actor) (g base : nat) (input tfeat tlab : nat * nat) : list node * nat :=
  if astateful a then ([mknode a g (KTrain tfeat tlab); mknode a g (KApply [input])], S base)
  else ([mknode a g (KApply [input])], base).

Definition build_op (o : opspec) (gs : gstate) : gstate :=
  let n0 := List.length (gnodes gs) in
  (* label actor: trained on the incoming train features and the OLD labels, applied to the old labels *)
  let '(nl, pl', g1) :=
    match olabel o with
    | Some l => let '(ns, idx) := group_nodes l (gfresh gs) n0 (pl gs) (pt gs) (pl gs) in (ns, (idx, 0), S (gfresh gs))
    | None => ([], pl gs, gfresh gs)
    end in
  let n1 := n0 + List.length nl in
  (* apply-path actor: trained on the incoming train features and the NEW labels *)
  let '(na, pa', g2) :=
    match oapply o with
    | Some a => let '(ns, idx) := group_nodes a g1 n1 (pa gs) (pt gs) pl' in (ns, (idx, 0), S g1)
    | None => ([], pa gs, g1)
    end in
  let n2 := n1 + List.length na in
  (* train path: another fork of the apply actor's group (mapper), or an actor of its own *)
  let '(nt, pt') :=
    match otrain o, oapply o with
    | TSame, Some a => ([mknode a g1 (KApply [pt gs])], (n2, 0))
    | TOwn t, _ => let '(ns, idx) := group_nodes t g2 n2 (pt gs) (pt gs) pl' in (ns, (idx, 0))
    | _, _ => ([], pt gs)
    end in
  GState (gnodes gs ++ nl ++ na ++ nt) pa' pt' pl' (S g2).

Fixpoint build (e : expr) (gs : gstate) : gstate :=
  match e with
  | EOp o => build_op o gs
  | ESeq l r => build r (build l gs)
  end.

(* the symbolic source: apply driver, train driver and the 1:2 slicer *)
Definition gsource (srcA srcT slice : nat) : gstate :=
  GState [Node srcA 0 0 false 1 (KApply []); Node srcT 0 1 false 1 (KApply []); Node slice 0 2 false 2 (KApply [(1, 0)])]
         (0, 0) (2, 0) (2, 1) 3.
