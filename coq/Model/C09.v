(* C09 - feed selection: forml/io/_input/__init__.py Importer (Slot ordering, Matcher visitor, match) versus what the
   selected feed's parser can resolve (forml/io/dsl/parser.py: visit_table needs the table itself; visit_join / visit_set /
   visit_query visit their children BEFORE consulting the override; visit_reference has no override).
   `tag` stands for everything of a node besides its sub-sources (condition, kind, clauses): equal tags <=> equal content. *)
Require Import List Bool ZArith.
Import ListNotations.

Inductive src :=
  | STable (t : nat)
  | SRef (instance : src) (tag : nat)
  | SJoin (l r : src) (tag : nat)
  | SSet (l r : src) (tag : nat)
  | SQuery (s : src) (tag : nat).

Fixpoint src_eqb (a b : src) : bool :=
  match a, b with
  | STable x, STable y => Nat.eqb x y
  | SRef i t, SRef j u => src_eqb i j && Nat.eqb t u
  | SJoin l r t, SJoin l' r' u => src_eqb l l' && src_eqb r r' && Nat.eqb t u
  | SSet l r t, SSet l' r' u => src_eqb l l' && src_eqb r r' && Nat.eqb t u
  | SQuery s t, SQuery s' u => src_eqb s s' && Nat.eqb t u
  | _, _ => false
  end.

Definition advertised (S : list src) (s : src) : bool := existsb (src_eqb s) S.

(* Importer.Matcher: an advertised reference/join/set/query short-circuits; a table must be advertised itself *)
Fixpoint matcher (S : list src) (s : src) : bool :=
  match s with
  | STable _ => advertised S s
  | SRef i _ => advertised S s || matcher S i
  | SJoin l r _ => advertised S s || (matcher S l && matcher S r)
  | SSet l r _ => advertised S s || (matcher S l && matcher S r)
  | SQuery i _ => advertised S s || matcher S i
  end.

(* the parser: every table leaf must be provisioned, whatever else is advertised *)
Fixpoint resolves (S : list src) (s : src) : bool :=
  match s with
  | STable _ => advertised S s
  | SRef i _ => resolves S i
  | SJoin l r _ => resolves S l && resolves S r
  | SSet l r _ => resolves S l && resolves S r
  | SQuery i _ => resolves S i
  end.

(* pool: feeds in pool order with priority (None = explicit instance = highest) and advertised sources *)
Record feed := Feed { priority : option Z; sources : list src }.

Definition prio_lt (a b : option Z) : bool :=          (* Slot.__lt__ on float priorities, inf for instances *)
  match a, b with
  | Some x, Some y => Z.ltb x y
  | Some _, None => true
  | None, _ => false
  end.

(* sorted(slots, reverse=True): stable, descending *)
Fixpoint insert_feed (x : nat * feed) (l : list (nat * feed)) : list (nat * feed) :=
  match l with
  | [] => [x]
  | y :: r => if prio_lt (priority (snd x)) (priority (snd y)) then y :: insert_feed x r else x :: l
  end.
Definition ordered (pool : list feed) : list (nat * feed) :=
  fold_right insert_feed [] (combine (seq 0 (List.length pool)) pool).

Definition select (pool : list feed) (s : src) : option nat :=
  match find (fun nf => matcher (sources (snd nf)) s) (ordered pool) with
  | Some (i, _) => Some i
  | None => None
  end.

(* ---- correspondence cases ------------------------------------------------------------------------------- *)
Definition onat_eqb (a b : option nat) : bool :=
  match a, b with None, None => true | Some x, Some y => Nat.eqb x y | _, _ => false end.

Inductive case := CSelect (pool : list feed) (s : src) (selected : option nat) (parses : option bool).

Definition check_case (c : case) : bool :=
  match c with
  | CSelect pool s sel parses =>
      onat_eqb (select pool s) sel
      && match sel, parses with
         | Some i, Some p => Bool.eqb (resolves (sources (nth i pool (Feed None []))) s) p
         | _, _ => true
         end
  end.
