(* C17 - bit-exact twin of the A/B selector over IEEE-754 binary64 (Coq primitive floats), used ONLY by
   the correspondence check: Python evaluates targets, sums and count/total in binary64, so this model
   must agree with the implementation on every request; the theorems are about the rational model. *)
Require Import List Bool ZArith.
From Coq Require Import PrimFloat Uint63.
Import ListNotations.

Definition fnat (n : nat) : float := of_uint63 (Uint63.of_Z (Z.of_nat n)).

(* a weight as the user wrote it: Python int (flag true) or Python float *)
Definition fitem := (bool * float)%type.

(* builtin sum() of CPython 3.12: exact integer arithmetic while the items are ints; from the first float on
   Neumaier compensated summation (cs_add / cs_to_double in Python/bltinmodule.c), int items being added to
   the running high part without compensation. All values here are finite. *)
Definition cs_add (acc : float * float) (x : float) : float * float :=
  let '(hi, lo) := acc in
  let t := PrimFloat.add hi x in
  if PrimFloat.leb (PrimFloat.abs x) (PrimFloat.abs hi)
  then (t, PrimFloat.add lo (PrimFloat.add (PrimFloat.sub hi t) x))
  else (t, PrimFloat.add lo (PrimFloat.add (PrimFloat.sub x t) hi)).

Definition cs_to_double (acc : float * float) : float :=
  let '(hi, lo) := acc in if PrimFloat.eqb lo 0%float then hi else PrimFloat.add hi lo.

Fixpoint fsum_float (l : list fitem) (acc : float * float) : float :=
  match l with
  | [] => cs_to_double acc
  | (true, v) :: r => fsum_float r (PrimFloat.add (fst acc) v, snd acc)
  | (false, v) :: r => fsum_float r (cs_add acc v)
  end.

(* integer phase: small integers are exact in binary64, so the running integer is carried as a float *)
Fixpoint fsum_int (l : list fitem) (i : float) : float :=
  match l with
  | [] => i
  | (true, v) :: r => fsum_int r (PrimFloat.add i v)
  | (false, _) :: _ => fsum_float l (i, 0%float)
  end.

Definition fsum (l : list fitem) : float := fsum_int l 0%float.

Definition fnormalise (ts : list (option fitem)) : list float :=
  let given := flat_map (fun t => match t with Some q => [q] | None => [] end) ts in
  let missing := (List.length ts - List.length given)%nat in
  let explicit := fsum given in
  let implicit :=
    if PrimFloat.ltb explicit 1%float then PrimFloat.div (PrimFloat.sub 1%float explicit) (fnat missing)
    else PrimFloat.div explicit (fnat (List.length given)) in
  let full := map (fun t => match t with Some q => q | None => (false, implicit) end) ts in
  let combined := fsum full in
  map (fun t => PrimFloat.div (snd t) combined) full.

Record fslot := FSlot { fvariant : nat; ftarget : float; fcount : nat }.

Fixpoint finsert (x : fslot) (l : list fslot) : list fslot :=
  match l with
  | [] => [x]
  | y :: r => if PrimFloat.ltb (ftarget x) (ftarget y) then y :: finsert x r else x :: l
  end.

Definition finit (ts : list (option fitem)) : list fslot :=
  fold_right finsert [] (map (fun it => FSlot (fst it) (snd it) 0) (combine (seq 0 (List.length ts)) (fnormalise ts))).

Definition feligible (total : nat) (s : fslot) : bool :=
  PrimFloat.ltb (PrimFloat.div (fnat (fcount s)) (fnat total)) (ftarget s).

Fixpoint fhit (total : nat) (l : list fslot) : option (nat * list fslot) :=
  match l with
  | [] => None
  | s :: r =>
      if feligible total s then Some (fvariant s, FSlot (fvariant s) (ftarget s) (S (fcount s)) :: r)
      else match fhit total r with
           | Some (v, r') => Some (v, s :: r')
           | None => None
           end
  end.

Fixpoint frun (n : nat) (total : nat) (sl : list fslot) : list nat :=
  match n with
  | O => []
  | S m => match fhit (S total) sl with
           | Some (v, sl') => v :: frun m (S total) sl'
           | None => []
           end
  end.

Definition fabtest (ts : list (option fitem)) (n : nat) : list nat := frun n 0 (finit ts).

Fixpoint natlist_eqb (a b : list nat) : bool :=
  match a, b with [] , [] => true | x :: a', y :: b' => Nat.eqb x y && natlist_eqb a' b' | _, _ => false end.

Inductive case := CABF (targets : list (option fitem)) (n : nat) (obs : list nat).

Definition check_case (c : case) : bool :=
  match c with CABF ts n obs => natlist_eqb (fabtest ts n) obs end.
