(* C13 - abstract actor contract and its three implementations' state/parameter handling:
   native classes (forml/flow/_task.py Actor.get_state/set_state over __dict__), function-decorated actors
   (forml/pipeline/wrap/_actor.py Stateful.Actor: state only, None <-> empty bytes), class-wrapped actors
   (Class.Actor delegating to the origin object), and the state preset of the compiled code
   (forml/flow/_code/target/user.py SetState.set = get_params; set_state; set_params).
   The user functions are fixed arithmetic ones (so results are exact): train: acc' = acc + k*x + y ; apply: acc*m + x. *)
Require Import List Bool ZArith.
Import ListNotations.
Open Scope Z_scope.

Inductive flavour := Native | NativeCodec | Decorated | Wrapped.

Record params := Params { pk : Z; pm : Z }.
Record actor := Actor { fl : flavour; par : params; acc : option Z }.

(* exported state: native flavours carry the whole object (parameters included), the decorated one only the user state,
   and an untrained decorated actor exports the empty state *)
Inductive state := Empty | Full (p : params) (a : option Z) | Bare (a : Z).

Definition build (f : flavour) (p : params) : actor := Actor f p None.

Definition train (a : actor) (x y : Z) : actor :=
  Actor (fl a) (par a) (Some (match acc a with Some v => v | None => 0 end + pk (par a) * x + y)).

Definition apply (a : actor) (x : Z) : option Z :=
  match acc a with Some v => Some (v * pm (par a) + x) | None => None end.

Definition get_state (a : actor) : state :=
  match fl a with
  | Decorated => match acc a with Some v => Bare v | None => Empty end
  | _ => Full (par a) (acc a)
  end.

(* the actor's own set_state *)
Definition set_state_raw (a : actor) (s : state) : actor :=
  match s with
  | Empty => a
  | Bare v => Actor (fl a) (par a) (Some v)
  | Full p v =>
      match fl a with
      | NativeCodec => Actor (fl a) p v            (* a user codec restoring everything it stored *)
      | _ => Actor (fl a) (par a) v                (* default codec: keeps the receiving actor's parameters *)
      end
  end.

(* SetState.set: parameters saved before and restored after the actor's set_state *)
Definition preset_state (a : actor) (s : state) : actor :=
  match s with
  | Empty => a                                                      (* Preset.reduce: a falsy value sets nothing *)
  | _ => let b := set_state_raw a s in Actor (fl b) (par a) (acc b)
  end.

Definition set_params (a : actor) (p : params) : actor := Actor (fl a) p (acc a).

(* ---- operation sequences for the correspondence ------------------------------------------------------------- *)
Inductive op :=
  | OTrain (x y : Z)
  | OApply (x : Z)
  | OSetParams (k m : Z)
  | OTransfer (k m : Z) (preset : bool) (x : Z).   (* rebuild with params (k, m), give it our exported state, apply x *)

Inductive out := Val (v : Z) | Untrained | Silent.

Definition step (a : actor) (o : op) : actor * out :=
  match o with
  | OTrain x y => (train a x y, Silent)
  | OApply x => (a, match apply a x with Some v => Val v | None => Untrained end)
  | OSetParams k m => (set_params a (Params k m), Silent)
  | OTransfer k m preset x =>
      let twin := build (fl a) (Params k m) in
      let twin' := if preset then preset_state twin (get_state a) else set_state_raw twin (get_state a) in
      (a, match apply twin' x with Some v => Val v | None => Untrained end)
  end.

Fixpoint run (a : actor) (ops : list op) : list out :=
  match ops with
  | [] => []
  | o :: r => let '(a', res) := step a o in res :: run a' r
  end.

Definition out_eqb (a b : out) : bool :=
  match a, b with Val x, Val y => Z.eqb x y | Untrained, Untrained | Silent, Silent => true | _, _ => false end.
Fixpoint outs_eqb (a b : list out) : bool :=
  match a, b with [], [] => true | x :: a', y :: b' => out_eqb x y && outs_eqb a' b' | _, _ => false end.

Inductive case := CActor (f : flavour) (k m : Z) (ops : list op) (obs : list out).

Definition check_case (c : case) : bool :=
  match c with CActor f k m ops obs => outs_eqb (run (build f (Params k m)) ops) obs end.
