(* C17 - case type combining the rational model (theorems) and the binary64 twin (bit-exact tie). *)
Require Import List.
From FV Require Model.C17 Model.C17F.

Inductive case :=
  | QCase (c : C17.case)
  | FCase (c : C17F.case).

Definition check_case (c : case) : bool :=
  match c with
  | QCase c => C17.check_case c
  | FCase c => C17F.check_case c
  end.
