(* C11 - executable model of the graph construction state machine
   (forml/flow/_graph/port.py Subscription.__new__ / Publishable.publish / republish,
    forml/flow/_graph/atomic.py Node._publish, Worker._publish / train, Future.__getitem__.register /
    _collapse / _publish). Nodes are numbered; a failing call returns the state the CODE leaves behind. *)
Require Import List Bool Arith.
Import ListNotations.

Inductive port := PApply (i : nat) | PTrain | PLabel.

Definition port_eqb (a b : port) : bool :=
  match a, b with
  | PApply i, PApply j => Nat.eqb i j
  | PTrain, PTrain | PLabel, PLabel => true
  | _, _ => false
  end.
Definition is_apply (p : port) : bool := match p with PApply _ => true | _ => false end.

Inductive decl :=
  | DWorker (gid : nat) (stateful : bool) (szin szout : nat)
  | DFuture (szin szout : nat).

Definition sub := (nat * port)%type.          (* Subscription(node, port) *)
Definition sub_eqb (a b : sub) : bool := Nat.eqb (fst a) (fst b) && port_eqb (snd a) (snd b).

Record state := State {
  outs : list ((nat * nat) * list sub);       (* (publisher node, output index) -> ordered subscriptions *)
  ports : list (nat * list port);             (* Subscription._PORTS *)
  finput : list (nat * list ((nat * nat) * nat))  (* Future._input: (publisher node, index) -> input index, in order *)
}.
Definition empty : state := State [] [] [].

Definition key_eqb (a b : nat * nat) : bool := Nat.eqb (fst a) (fst b) && Nat.eqb (snd a) (snd b).

Fixpoint get_out (k : nat * nat) (l : list ((nat * nat) * list sub)) : list sub :=
  match l with [] => [] | (k', v) :: r => if key_eqb k k' then v else get_out k r end.
Fixpoint set_out (k : nat * nat) (v : list sub) (l : list ((nat * nat) * list sub)) : list ((nat * nat) * list sub) :=
  match l with
  | [] => [(k, v)]
  | (k', v') :: r => if key_eqb k k' then (k, v) :: r else (k', v') :: set_out k v r
  end.
Fixpoint get_ports (n : nat) (l : list (nat * list port)) : list port :=
  match l with [] => [] | (n', v) :: r => if Nat.eqb n n' then v else get_ports n r end.
Fixpoint set_ports (n : nat) (v : list port) (l : list (nat * list port)) : list (nat * list port) :=
  match l with
  | [] => [(n, v)]
  | (n', v') :: r => if Nat.eqb n n' then (n, v) :: r else (n', v') :: set_ports n v r
  end.
Fixpoint get_fin (n : nat) (l : list (nat * list ((nat * nat) * nat))) : list ((nat * nat) * nat) :=
  match l with [] => [] | (n', v) :: r => if Nat.eqb n n' then v else get_fin n r end.
Fixpoint set_fin (n : nat) (v : list ((nat * nat) * nat)) (l : list (nat * list ((nat * nat) * nat))) :=
  match l with
  | [] => [(n, v)]
  | (n', v') :: r => if Nat.eqb n n' then (n, v) :: r else (n', v') :: set_fin n v r
  end.

Section Machine.
  Variable universe : list decl.

  Definition decl_of (n : nat) : decl := nth n universe (DFuture 0 0).
  Definition is_future (n : nat) : bool := match decl_of n with DFuture _ _ => true | _ => false end.
  Definition szout_of (n : nat) : nat := match decl_of n with DWorker _ _ _ o => o | DFuture _ o => o end.
  Definition gid_of (n : nat) : option nat := match decl_of n with DWorker g _ _ _ => Some g | _ => None end.
  Definition stateful_of (n : nat) : bool := match decl_of n with DWorker _ s _ _ => s | _ => false end.

  Definition has_port (st : state) (n : nat) (p : port) : bool := existsb (port_eqb p) (get_ports n (ports st)).
  Definition trained (st : state) (n : nat) : bool :=
    existsb (fun p => negb (is_apply p)) (get_ports n (ports st)).
  Definition any_output (st : state) (n : nat) : bool :=
    existsb (fun i => match get_out (n, i) (outs st) with [] => false | _ => true end) (seq 0 (szout_of n)).

  (* Subscription.__new__: the four checks in code order, then registration *)
  Definition new_subscription (st : state) (subscriber : nat) (p : port) : option state :=
    let ps := get_ports subscriber (ports st) in
    if existsb (port_eqb p) ps then None
    else if (match ps with [] => false | _ => true end) && xorb (is_apply p) (existsb is_apply ps) then None
    else if negb (is_apply p) && any_output st subscriber then None
    else if is_future subscriber then None
    else Some (State (outs st) (set_ports subscriber (ps ++ [p]) (ports st)) (finput st)).

  Definition discard_port (st : state) (n : nat) (p : port) : state :=
    State (outs st) (set_ports n (filter (fun q => negb (port_eqb p q)) (get_ports n (ports st))) (ports st)) (finput st).

  (* Port.add: ordered, idempotent on an equal subscription *)
  Definition add_sub (st : state) (n i : nat) (s : sub) : state :=
    let cur := get_out (n, i) (outs st) in
    if existsb (sub_eqb s) cur then st else State (set_out (n, i) (cur ++ [s]) (outs st)) (ports st) (finput st).

  (* Node._publish / Worker._publish / Future._publish with _collapse; fuel bounds the placeholder chain.
     Result: (state left behind, success?) *)
  Fixpoint node_publish (fuel : nat) (st : state) (n i : nat) (s : sub) : state * bool :=
    match fuel with
    | O => (st, false)
    | S fuel' =>
        if negb (is_future n) && trained st n then (st, false)           (* Trained node publishing *)
        else if negb (Nat.ltb i (szout_of n)) then (st, false)           (* assert 0 <= index < szout *)
        else if Nat.eqb n (fst s) then (st, false)                        (* Self subscription *)
        else
          let st1 := add_sub st n i s in
          if is_future n then collapse fuel' st1 n else (st1, true)
    end
  (* Future._collapse: every registered publisher republishes every subscription of its input's port *)
  with collapse (fuel : nat) (st : state) (f : nat) : state * bool :=
    match fuel with
    | O => (st, false)
    | S fuel' =>
        (fix over_inputs (inputs : list ((nat * nat) * nat)) (st : state) : state * bool :=
           match inputs with
           | [] => (st, true)
           | ((pn, pidx), idx) :: rest =>
               let '(st', ok) :=
                 (fix over_subs (subs : list sub) (st : state) : state * bool :=
                    match subs with
                    | [] => (st, true)
                    | s :: more =>
                        let '(st', ok) := node_publish fuel' st pn pidx s in
                        if ok then over_subs more st' else (st', false)
                    end) (get_out (f, idx) (outs st)) st in
               if ok then over_inputs rest st' else (st', false)
           end) (get_fin f (finput st)) st
    end.

  Definition fuel0 : nat := S (S (List.length universe + List.length universe)).

  (* Publishable.publish *)
  Definition publish (st : state) (pn pidx : nat) (subscriber : nat) (p : port) : state * bool :=
    if is_future subscriber && negb (Nat.eqb subscriber pn) then
      match p with
      | PApply idx =>
          (* Future.__getitem__(idx).subscribe(publisher): register (a fresh Publishable never collides), collapse *)
          let st1 := State (outs st) (ports st)
                           (set_fin subscriber (get_fin subscriber (finput st) ++ [((pn, pidx), idx)]) (finput st)) in
          collapse fuel0 st1 subscriber
      | _ => (st, false)
      end
    else
      match new_subscription st subscriber p with
      | None => (st, false)
      | Some st1 =>
          (* the fresh Subscription object survives only if some output set stores it: a set that already holds an equal
             one (left behind by an earlier refused call) drops the new object, whose __del__ then unregisters the port *)
          let s := (subscriber, p) in
          let held := fun k => existsb (sub_eqb s) (get_out k (outs st1)) in
          let stored :=
            negb (held (pn, pidx))
            || (is_future pn && existsb (fun inp => negb (held (fst inp)) && Nat.eqb (snd inp) pidx) (get_fin pn (finput st1))) in
          let '(st2, ok) := node_publish fuel0 st1 pn pidx s in
          if ok then ((if stored then st2 else discard_port st2 subscriber p), true) else (discard_port st2 subscriber p, false)
      end.

  Inductive op :=
    | Subscribe (subscriber sidx pub pidx : nat)                 (* subscriber[sidx].subscribe(pub[pidx]) *)
    | Train (worker tpub tidx lpub lidx : nat).                  (* worker.train(tpub[tidx], lpub[lidx]) *)

  Definition group_trained (st : state) (w : nat) : bool :=
    existsb (fun n => match gid_of n, gid_of w with
                      | Some g, Some g' => Nat.eqb g g' && trained st n
                      | _, _ => false end) (seq 0 (List.length universe)).

  Definition step (st : state) (o : op) : state * bool :=
    match o with
    | Subscribe s si p pi => publish st p pi s (PApply si)
    | Train w tp ti lp li =>
        if negb (stateful_of w) then (st, false)
        else if group_trained st w then (st, false)
        else
          let '(st1, ok) := publish st tp ti w PTrain in
          if ok then publish st1 lp li w PLabel else (st1, false)
    end.

  Fixpoint run (st : state) (ops : list op) : list (state * bool) :=
    match ops with
    | [] => []
    | o :: r => let '(st', ok) := step st o in (st', ok) :: run st' r
    end.
End Machine.

(* ---- correspondence cases ---------------------------------------------------------------------------- *)
(* observation after each call: success flag, and per node its outputs (per index) and registered ports *)
Definition node_obs := (list (list sub) * list port)%type.

Fixpoint list_eqb {A} (f : A -> A -> bool) (a b : list A) : bool :=
  match a, b with [], [] => true | x :: a', y :: b' => f x y && list_eqb f a' b' | _, _ => false end.

(* registered ports form a set: compare as sets *)
Definition ports_eqb (a b : list port) : bool :=
  forallb (fun p => existsb (port_eqb p) b) a && forallb (fun p => existsb (port_eqb p) a) b.

Definition observe (universe : list decl) (st : state) : list node_obs :=
  map (fun n => (map (fun i => get_out (n, i) (outs st)) (seq 0 (szout_of universe n)), get_ports n (ports st)))
      (seq 0 (List.length universe)).

Definition node_obs_eqb (a b : node_obs) : bool :=
  list_eqb (list_eqb sub_eqb) (fst a) (fst b) && ports_eqb (snd a) (snd b).

Fixpoint forall2b {A B} (f : A -> B -> bool) (a : list A) (b : list B) : bool :=
  match a, b with [], [] => true | x :: a', y :: b' => f x y && forall2b f a' b' | _, _ => false end.

Inductive case := CRun (universe : list decl) (ops : list op) (obs : list (bool * list node_obs)).

Definition check_case (c : case) : bool :=
  match c with
  | CRun u ops obs =>
      forall2b (fun (m : state * bool) (o : bool * list node_obs) =>
                  Bool.eqb (snd m) (fst o) && list_eqb node_obs_eqb (observe u (fst m)) (snd o))
               (run u empty ops) obs
  end.
