(* C08 - identity of DSL objects. After the structural-equality fix (forml/io/dsl/_struct/series.py `identical`,
   Equal.__bool__ / Pythonic.__bool__) two features are equal iff they have the same class, equal hashes and
   element-wise equal content; sources are tuples compared element-wise. The structural skeleton of an object is a
   labelled rose tree (class tag, leaf value codes; children in field order), built by the harness from the same
   description the object is constructed from. *)
Require Import List Bool ZArith.
From FV Require Import Lib.Tree.
Import ListNotations.

(* the implementation's equality on skeletons *)
Definition heq (a b : tree) : bool := tree_eqb a b.
Definition hhash (a : tree) : Z := tree_hash a.

(* containers keyed by DSL objects: a set built from two objects, a one-entry mapping looked up by another object,
   an lru_cache keyed by (object, name) *)
Definition set_size (a b : tree) : nat := if heq a b then 1 else 2.
Definition dict_hit (key probe : tree) : bool := heq key probe.

(* the pickle protocol re-creates the object from its constructor arguments: same skeleton *)
Definition pickle_roundtrip (a : tree) : tree := a.

Inductive case :=
  | CPair (a b : tree) (eq hash_eq : bool) (size : nat) (hit : bool) (pickled_eq : bool).

Definition check_case (c : case) : bool :=
  match c with
  | CPair a b e h n hit p =>
      Bool.eqb (heq a b) e
      && (implb e h)                              (* equal objects hash equal; unequal ones may collide *)
      && Nat.eqb (set_size a b) n && Bool.eqb (dict_hit a b) hit
      && Bool.eqb (heq (pickle_roundtrip a) a) p
  end.
