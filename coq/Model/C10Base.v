(* C10: vocabulary shared by the generated Once table and the hand-written model. *)
Inductive cmp := CGe | CGt | CLt | CLe | CUnknown.
Inductive sem := Exactly | Atmost | Atleast.
