(* C06 - feed reads return what the statement denotes over its storage.
   Part 1: denotational semantics of DSL statements over table contents (bags of row environments, SQL three-valued logic,
           every join kind, references incl. self-joins, nested statements, set operations, grouping/aggregates, ordering,
           limit/offset).  It is the reference the rows returned by sqlite/duckdb for the real parser output are compared with.
   Part 2: the SQL-level join the alchemy parser emits (forml/provider/feed/reader/alchemy.py generate_join: flags
           full / isouter / swapped operands, generated from the source on every run into Generated/C06Join.v).
   Part 3: the push-down automaton of forml/io/dsl/parser.py Visitor (symbol stack, origins, nested contexts, reference
           memo) next to the direct recursive translation into target-code terms.
   Part 4: the reader's result cache of forml/provider/feed/alchemy.py Results (keyed by SQL text only). *)
Require Import List Bool ZArith.
From FV Require Import Model.Dsl Model.DslSem.
Import ListNotations.

(* ================================================ Part 1: denotation ============================================ *)
Definition row := list (nat * value).
Definition db := list (nat * list row).
Fixpoint db_get (t : nat) (d : db) : list row :=
  match d with [] => [] | (t', rs) :: r => if Nat.eqb t t' then rs else db_get t r end.

(* key of the anonymous output of a query / set operation *)
Definition ANON : bool * nat := (false, 99).

Definition value_eqb (a b : value) : bool :=
  match a, b with
  | VNull, VNull => true | VInt x, VInt y => Z.eqb x y | VStr x, VStr y => Nat.eqb x y | VBool x, VBool y => Bool.eqb x y
  | _, _ => false
  end.
(* engines return booleans as integers *)
Definition canon (v : value) : value := match v with VBool b => VInt (if b then 1 else 0) | _ => v end.
Fixpoint values_eqb (a b : list value) : bool :=
  match a, b with [], [] => true | x :: a', y :: b' => value_eqb x y && values_eqb a' b' | _, _ => false end.

(* ---- joins ---- *)
Definition cond_holds (c : option feature) (e : env) : bool := match c with Some p => holds e p | None => true end.
Definition pairs_on (c : option feature) (l r : list env) : list env :=
  flat_map (fun el => flat_map (fun er => if cond_holds c (el ++ er) then [el ++ er] else []) r) l.
(* rows without a partner stay alone: columns of the missing side then read as NULL *)
Definition unmatched_l (c : option feature) (l r : list env) : list env :=
  filter (fun el => negb (existsb (fun er => cond_holds c (el ++ er)) r)) l.
Definition unmatched_r (c : option feature) (l r : list env) : list env :=
  filter (fun er => negb (existsb (fun el => cond_holds c (el ++ er)) l)) r.
Definition join (k : jkind) (c : option feature) (l r : list env) : list env :=
  match k with
  | JInner => pairs_on c l r
  | JLeft => pairs_on c l r ++ unmatched_l c l r
  | JRight => pairs_on c l r ++ unmatched_r c l r
  | JFull => pairs_on c l r ++ unmatched_l c l r ++ unmatched_r c l r
  | JCross => pairs_on None l r
  end.

(* ---- aggregates ---- *)
Definition ints (vs : list value) : list Z :=
  flat_map (fun v => match v with VInt z => [z] | VBool b => [if b then 1 else 0]%Z | _ => [] end) vs.
Definition nonnull (vs : list value) : list value := filter (fun v => negb (value_eqb v VNull)) vs.
Definition agg (fn : aggfn) (vs : list value) : value :=
  match fn with
  | ACount => VInt (Z.of_nat (List.length (nonnull vs)))
  | ASum => match ints vs with [] => VNull | z :: r => VInt (fold_left Z.add r z) end
  | AMin => match ints vs with [] => VNull | z :: r => VInt (fold_left Z.min r z) end
  | AMax => match ints vs with [] => VNull | z :: r => VInt (fold_left Z.max r z) end
  | AAvg => VNull
  end.

Definition binval (o : binop) (x y : value) : value :=
  if is_arith o then match x, y with VInt p, VInt q => VInt (arith o p q) | _, _ => VNull end
  else if is_cmp o then cmp_values o x y
  else match o with OAnd => and3 x y | _ => or3 x y end.

(* value of a feature over a group of rows: aggregates range over the group, anything else reads the group's first row *)
Fixpoint geval (g : list env) (f : feature) : value :=
  match f with
  | FAgg fn a => agg fn (map (fun e => feval e a) g)
  | FAlias h _ => geval g h
  | FBin o a b => binval o (geval g a) (geval g b)
  | FNot a => not3 (geval g a)
  | _ => feval (hd [] g) f
  end.
Definition truth (v : value) : bool := match v with VBool true => true | _ => false end.

Fixpoint has_agg (f : feature) : bool :=
  match f with
  | FAgg _ _ => true
  | FAlias g _ | FNot g => has_agg g
  | FBin _ a b => has_agg a || has_agg b
  | _ => false
  end.

(* ---- grouping (groups in order of first occurrence, NULL keys group together) ---- *)
Fixpoint insert_group (k : list value) (e : env) (gs : list (list value * list env)) : list (list value * list env) :=
  match gs with
  | [] => [(k, [e])]
  | (k', es) :: r => if values_eqb k k' then (k', es ++ [e]) :: r else (k', es) :: insert_group k e r
  end.
Definition group_by (grp : list feature) (es : list env) : list (list env) :=
  map snd (fold_left (fun gs e => insert_group (map (feval e) grp) e gs) es []).

(* ---- ordering: stable insertion sort on lexicographic keys (bool = ascending) ---- *)
Definition vkey (v : value) : Z :=
  match v with VInt z => z | VBool true => 1 | VStr s => Z.of_nat s | _ => 0 end%Z.
Fixpoint key_le (a b : list (Z * bool)) : bool :=
  match a, b with
  | (x, asc) :: a', (y, _) :: b' => if Z.eqb x y then key_le a' b' else if asc then Z.ltb x y else Z.ltb y x
  | _, _ => true
  end.
Fixpoint insert_sorted {A : Type} (k : A -> list (Z * bool)) (x : A) (l : list A) : list A :=
  match l with [] => [x] | y :: r => if key_le (k x) (k y) then x :: y :: r else y :: insert_sorted k x r end.
Definition sort_by {A : Type} (k : A -> list (Z * bool)) (l : list A) : list A := fold_right (insert_sorted k) [] l.

Definition limit {A : Type} (rows : option (nat * nat)) (l : list A) : list A :=
  match rows with Some (count, offset) => firstn count (skipn offset l) | None => l end.

(* ---- query ---- *)
Definition out_name (i : nat) (f : feature) : nat :=
  match f with FCol _ c _ | FElem _ c _ => c | FAlias _ n => n | _ => 1000 + i end.
Fixpoint mapi {A B : Type} (f : nat -> A -> B) (i : nat) (l : list A) : list B :=
  match l with [] => [] | x :: r => f i x :: mapi f (S i) r end.
Definition opt_agg (p : option feature) : bool := match p with Some f => has_agg f | None => false end.
Definition is_grouped (feats grp : list feature) (post : option feature) : bool :=
  negb (match grp with [] => true | _ => false end) || existsb has_agg feats || opt_agg post
  || match post with Some _ => true | None => false end.

Definition qrows (src : list env) (feats : list feature) (pre : option feature) (grp : list feature) (post : option feature)
           (ord : list (feature * bool)) (rows : option (nat * nat)) : list row :=
  let filtered := filter (cond_holds pre) src in
  if is_grouped feats grp post then
    let groups := match grp with [] => [filtered] | _ => group_by grp filtered end in
    let kept := filter (fun g => match post with Some p => truth (geval g p) | None => true end) groups in
    let sorted := sort_by (fun g => map (fun fb => (vkey (geval g (fst fb)), snd fb)) ord) kept in
    limit rows (map (fun g => mapi (fun i f => (out_name i f, geval g f)) 0 feats) sorted)
  else
    let sorted := sort_by (fun e => map (fun fb => (vkey (feval e (fst fb)), snd fb)) ord) filtered in
    limit rows (map (fun e => mapi (fun i f => (out_name i f, feval e f)) 0 feats) sorted).

(* features of a source (Source.features): what a query without an explicit selection projects *)
Fixpoint src_features (s : source) : list feature :=
  match s with
  | STable t cols => map (fun ck => FCol t (fst ck) (snd ck)) cols
  | SJoin _ l r _ => src_features l ++ src_features r
  | SRef s' r => mapi (fun i f => FElem r (out_name i f) KInt) 0 (src_features s')
  | SQuery s' sel _ _ _ _ _ => match sel with [] => src_features s' | _ => sel end
  | SSet _ l _ => src_features l
  end.

(* ---- set operations (distinct rows, compared by value) ---- *)
Definition vals (e : env) : list value := match e with [(_, rw)] => map (fun cv => canon (snd cv)) rw | _ => [] end.
Definition row_in (e : env) (l : list env) : bool := existsb (fun e' => values_eqb (vals e) (vals e')) l.
Fixpoint dedup (l : list env) : list env :=
  match l with [] => [] | e :: r => if row_in e r then dedup r else e :: dedup r end.
Definition setop (k : nat) (l r : list env) : list env :=
  match k with
  | 0 => dedup (l ++ r)
  | 1 => dedup (filter (fun e => row_in e r) l)
  | _ => dedup (filter (fun e => negb (row_in e r)) l)
  end.

(* a reference renames the single origin underneath *)
Definition rekey (r : nat) (e : env) : env := match e with [(_, rw)] => [((true, r), rw)] | _ => e end.

Section Den.
  (* the meaning of a join kind is a parameter: `join` for the statement's denotation, the join the parser emits for the
     implementation model (Model/C06Impl.v) *)
  Variable J : jkind -> option feature -> list env -> list env -> list env.
  Fixpoint den_gen (d : db) (s : source) : list env :=
    match s with
    | STable t _ => map (fun rw => [((false, t), rw)]) (db_get t d)
    | SRef s' r => map (rekey r) (den_gen d s')
    | SJoin k l r c => J k c (den_gen d l) (den_gen d r)
    | SSet k l r => setop k (den_gen d l) (den_gen d r)
    | SQuery s' sel pre grp post ord rows =>
        map (fun rw => [(ANON, rw)])
            (qrows (den_gen d s') (match sel with [] => src_features s' | _ => sel end) pre grp post ord rows)
    end.
End Den.
Definition den : db -> source -> list env := den_gen join.

(* rows a statement denotes (booleans as integers) *)
Definition result (d : db) (s : source) : list (list value) := map vals (den d s).

(* ======================================= Part 2: the join the parser emits ====================================== *)
(* alchemy generate_join: left.join(right, onclause, isouter, full) after an optional swap of the operands *)
Record join_flags := { jf_full : bool; jf_outer : bool; jf_swap : bool }.
Definition sql_join (f : join_flags) (c : option feature) (l r : list env) : list env :=
  let l' := if jf_swap f then r else l in
  let r' := if jf_swap f then l else r in
  pairs_on c l' r'
  ++ (if jf_outer f || jf_full f then unmatched_l c l' r' else [])
  ++ (if jf_full f then unmatched_r c l' r' else []).

(* what the projection of a query sees of a row environment *)
Definition project (feats : list feature) (e : env) : list value := map (feval e) feats.

(* ================================= Part 4: result cache keyed by the SQL text ================================== *)
(* a storage is identified by its connection; a read goes through the process-wide cache keyed by the statement text *)
Section Cache.
  Variable stmt : Type.
  Variable stmt_eqb : stmt -> stmt -> bool.
  Variable content : Type.                        (* content of one storage *)
  Variable answer : Type.
  Variable exec : content -> stmt -> answer.      (* what the statement denotes over a content *)

  Inductive op := Read (conn : nat) (s : stmt) | Mutate (conn : nat) (c : content).
  Definition storages := list (nat * content).
  Fixpoint st_get (conn : nat) (default : content) (m : storages) : content :=
    match m with [] => default | (k, c) :: r => if Nat.eqb conn k then c else st_get conn default r end.
  Definition cache := list (stmt * answer).
  Fixpoint cache_get (s : stmt) (m : cache) : option answer :=
    match m with [] => None | (k, a) :: r => if stmt_eqb s k then Some a else cache_get s r end.

  Record state := { st_storages : storages; st_cache : cache }.
  Definition step (default : content) (st : state) (o : op) : state * option answer :=
    match o with
    | Mutate conn c => ({| st_storages := (conn, c) :: st_storages st; st_cache := st_cache st |}, None)
    | Read conn s =>
        match cache_get s (st_cache st) with
        | Some a => (st, Some a)
        | None => let a := exec (st_get conn default (st_storages st)) s in
                  ({| st_storages := st_storages st; st_cache := (s, a) :: st_cache st |}, Some a)
        end
    end.
  Fixpoint run (default : content) (st : state) (ops : list op) : state * list (option answer) :=
    match ops with
    | [] => (st, [])
    | o :: r => let '(st', a) := step default st o in let '(st'', l) := run default st' r in (st'', a :: l)
    end.
End Cache.

