(* C19: vocabulary shared with the generated codec tables. *)
Require Import String List.
Record encoding := Enc { kind : string; options : list (string * string) }.
