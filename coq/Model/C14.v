(* C14 - push-down hints: forml/io/dsl/_struct/series.py Predicate.Factors / factors of Comparison, And, Or, Not (after
   the merge and negation fixes) and what the parser registers per table (parser.py Tables.select/filter, visit_join,
   visit_query, Segment.predicate). Statements without references. *)
Require Import List Bool ZArith.
From FV Require Import Model.Dsl Model.DslSem.
Import ListNotations.

(* Column.dissect: table ids of the table columns of a feature *)
Fixpoint tables_in (f : feature) : list nat :=
  match f with
  | FCol t _ _ => [t]
  | FElem _ _ _ | FLit _ => []
  | FAlias g _ => tables_in g
  | FBin _ a b => tables_in a ++ tables_in b
  | FNot a => tables_in a
  | FAgg _ a => tables_in a
  end.

(* statements without references: no FElem anywhere in a feature *)
Fixpoint elem_free (f : feature) : bool :=
  match f with
  | FCol _ _ _ | FLit _ => true
  | FElem _ _ _ => false
  | FAlias g _ | FNot g | FAgg _ g => elem_free g
  | FBin _ a b => elem_free a && elem_free b
  end.

(* Predicate.Factors.primitive: all fields - elements of references included - belong to one table *)
Definition single_table (f : feature) : option nat :=
  if elem_free f then match nodup Nat.eq_dec (tables_in f) with [t] => Some t | _ => None end else None.

Definition factors_t := list (nat * feature).
Fixpoint fac_get (t : nat) (l : factors_t) : option feature :=
  match l with [] => None | (t', f) :: r => if Nat.eqb t t' then Some f else fac_get t r end.

(* Factors.merge: a conjunction constrains a table if either side does, a disjunction only if both do *)
Definition merge_and (l r : factors_t) : factors_t :=
  map (fun tf => (fst tf, match fac_get (fst tf) r with
                          | Some g => if feature_eqb (snd tf) g then snd tf else FBin OAnd (snd tf) g
                          | None => snd tf
                          end)) l
  ++ filter (fun tf => match fac_get (fst tf) l with Some _ => false | None => true end) r.

Definition merge_or (l r : factors_t) : factors_t :=
  flat_map (fun tf => match fac_get (fst tf) r with
                      | Some g => [(fst tf, if feature_eqb (snd tf) g then snd tf else FBin OOr (snd tf) g)]
                      | None => []
                      end) l.

Fixpoint factors (p : feature) : factors_t :=
  match p with
  | FBin OAnd a b => merge_and (factors a) (factors b)
  | FBin OOr a b => merge_or (factors a) (factors b)
  | FBin _ _ _ | FNot _ => match single_table p with Some t => [(t, p)] | None => [] end
  | _ => []
  end.

(* `if source.condition:` - an equality is truthy only when both sides are identical *)
Definition truthy (c : feature) : bool :=
  match c with FBin OEq a b => feature_eqb a b | _ => true end.

(* columns of table t used by a feature *)
Fixpoint columns_in (t : nat) (f : feature) : list nat :=
  match f with
  | FCol t' c _ => if Nat.eqb t t' then [c] else []
  | FElem _ _ _ | FLit _ => []
  | FAlias g _ => columns_in t g
  | FBin _ a b => columns_in t a ++ columns_in t b
  | FNot a => columns_in t a
  | FAgg _ a => columns_in t a
  end.

(* join conditions met while visiting the source of a query *)
Fixpoint join_conditions (s : source) : list feature :=
  match s with
  | SJoin _ l r (Some c) => c :: join_conditions l ++ join_conditions r
  | SJoin _ l r None => join_conditions l ++ join_conditions r
  | _ => []
  end.

Definition out_features (src : source) (sel : list feature) : list feature :=
  match sel with
  | [] => (fix feats (s : source) : list feature :=
             match s with
             | STable t cols => map (fun ck => FCol t (fst ck) (snd ck)) cols
             | SJoin _ l r _ => feats l ++ feats r
             | _ => []
             end) src
  | _ => sel
  end.

(* per table: offered column set and offered row-filter factors (their disjunction is the offered predicate) *)
Definition offered_columns (t : nat) (src : source) (sel : list feature) (pre : option feature) (grp : list feature)
           (post : option feature) (ord : list (feature * bool)) : list nat :=
  flat_map (columns_in t)
           (out_features src sel ++ match pre with Some p => [p] | None => [] end ++ grp
            ++ match post with Some p => [p] | None => [] end ++ map fst ord
            ++ filter truthy (join_conditions src)).

Definition offered_factors (t : nat) (src : source) (pre : option feature) : list feature :=
  flat_map (fun p => match fac_get t (factors p) with Some f => [f] | None => [] end)
           (match pre with Some p => [p] | None => [] end ++ filter truthy (join_conditions src)).

(* ---- correspondence cases -------------------------------------------------------------------------------- *)
Fixpoint nat_mem (x : nat) (l : list nat) : bool := match l with [] => false | y :: r => Nat.eqb x y || nat_mem x r end.
Definition same_set (a b : list nat) : bool := forallb (fun x => nat_mem x b) a && forallb (fun x => nat_mem x a) b.

Inductive case :=
  (* a query over tables/joins; for one table: the offered column names; and for each probe row of that table whether the
     offered predicate admitted it (None = no predicate offered) *)
  | CHints (src : source) (sel : list feature) (pre : option feature) (grp : list feature) (post : option feature)
           (ord : list (feature * bool)) (t : nat) (cols : list nat) (rows : list (list (nat * value))) (admitted : option (list bool)).

Definition admits (fs : list feature) (t : nat) (row : list (nat * value)) : bool :=
  existsb (fun f => holds [((false, t), row)] f) fs.

Fixpoint bools_eqb (a b : list bool) : bool :=
  match a, b with [], [] => true | x :: a', y :: b' => Bool.eqb x y && bools_eqb a' b' | _, _ => false end.

Definition check_case (c : case) : bool :=
  match c with
  | CHints src sel pre grp post ord t cols rows adm =>
      same_set (offered_columns t src sel pre grp post ord) cols
      && match offered_factors t src pre, adm with
         | [], None => true
         | (_ :: _) as fs, Some bs => bools_eqb (map (admits fs t) rows) bs
         | _, _ => false
         end
  end.

(* the clauses every contributing row combination of an inner-join query satisfies *)
Definition filter_clauses (src : source) (pre : option feature) : list feature :=
  match pre with Some p => [p] | None => [] end ++ filter truthy (join_conditions src).

(* table t sits on a side of an outer join whose rows are preserved even when the ON condition fails *)
Fixpoint mentions (t : nat) (s : source) : bool :=
  match s with
  | STable t' _ => Nat.eqb t t'
  | SRef s' _ => mentions t s'
  | SJoin _ l r _ | SSet _ l r => mentions t l || mentions t r
  | SQuery s' _ _ _ _ _ _ => mentions t s'
  end.
Fixpoint preserved (t : nat) (s : source) : bool :=
  match s with
  | SJoin k l r _ =>
      (match k with JLeft => mentions t l | JRight => mentions t r | JFull => mentions t l || mentions t r | _ => false end)
      || preserved t l || preserved t r
  | _ => false
  end.
