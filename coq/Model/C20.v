(* C20 - executable model of configuration layering (forml/setup/_conf.py Config.update/merge, read)
   and of the provider bank (forml/provider/__init__.py Bank.add/get, Service.__init_subclass__). *)
Require Import String List Bool ZArith.
Import ListNotations.

(* ---- configuration --------------------------------------------------------------------------- *)
(* scalars and list elements are atoms (Z codes chosen injectively by the harness) *)
Inductive cfg :=
  | Scalar (a : Z)
  | Lst (l : list Z)
  | Tbl (t : list (string * cfg)).

Fixpoint lookup (k : string) (t : list (string * cfg)) : option cfg :=
  match t with
  | [] => None
  | (k', v) :: r => if String.eqb k k' then Some v else lookup k r
  end.

Definition has_key (k : string) (t : list (string * cfg)) : bool :=
  match lookup k t with Some _ => true | None => false end.

Definition zmem (v : Z) (l : list Z) : bool := existsb (Z.eqb v) l.

(* tuple(right) + (v for v in left if v not in right) *)
Definition merge_lists (left right : list Z) : list Z := right ++ filter (fun v => negb (zmem v right)) left.

(* merge(left, right): tables recurse, lists are merged new-first, otherwise the right value wins *)
Fixpoint merge (left right : cfg) {struct left} : cfg :=
  match left with
  | Tbl tl =>
      match right with
      | Tbl tr =>
          Tbl (map (fun kv => (fst kv, match lookup (fst kv) tr with Some rv => merge (snd kv) rv | None => snd kv end)) tl
               ++ filter (fun kv => negb (has_key (fst kv) tl)) tr)
      | _ => right
      end
  | Lst a => match right with Lst b => Lst (merge_lists a b) | _ => right end
  | Scalar _ => right
  end.

(* Config(defaults, *paths): successive update() calls *)
Definition stack (sources : list cfg) : cfg := fold_left merge sources (Tbl []).

Fixpoint get (p : list string) (c : cfg) : option cfg :=
  match p with
  | [] => Some c
  | k :: p' => match c with Tbl t => match lookup k t with Some v => get p' v | None => None end | _ => None end
  end.

Definition is_table (c : cfg) : bool := match c with Tbl _ => true | _ => false end.

(* ---- provider bank ------------------------------------------------------------------------------ *)
Inductive ref := RQ (qualifier : string) | RA (alias : string).

Record cls := Cls { cid : string; calias : option string; cabstract : bool }.

Definition ref_eqb (a b : ref) : bool :=
  match a, b with
  | RQ x, RQ y => String.eqb x y
  | RA x, RA y => String.eqb x y
  | _, _ => false
  end.

Definition bank := list (ref * cls).

Fixpoint bank_get (r : ref) (b : bank) : option cls :=
  match b with
  | [] => None
  | (r', c) :: rest => if ref_eqb r r' then Some c else bank_get r rest
  end.

Definition refs_of (c : cls) : list ref :=
  RQ (cid c) :: match calias c with Some a => [RA a] | None => [] end.

(* a reference of the new class is taken by a different class *)
Definition collides (c : cls) (b : bank) : bool :=
  existsb (fun r => match bank_get r b with Some c' => negb (String.eqb (cid c') (cid c)) | None => false end) (refs_of c).

(* Bank.add: collision check first, abstract classes are not registered *)
Definition bank_add (c : cls) (b : bank) : option bank :=
  if collides c b then None
  else if cabstract c then Some b
  else Some (map (fun r => (r, c)) (refs_of c) ++ b).

Fixpoint bank_add_all (cs : list cls) (b : bank) : option bank :=
  match cs with
  | [] => Some b
  | c :: r => match bank_add c b with Some b' => bank_add_all r b' | None => None end
  end.

(* ---- correspondence cases ----------------------------------------------------------------------- *)
Fixpoint cfg_eqb (a b : cfg) {struct a} : bool :=
  match a, b with
  | Scalar x, Scalar y => Z.eqb x y
  | Lst x, Lst y => (Nat.eqb (List.length x) (List.length y)) && forallb (fun p => Z.eqb (fst p) (snd p)) (combine x y)
  | Tbl x, Tbl y =>
      (* same key set, equal values (key order is irrelevant: dictionaries) *)
      Nat.eqb (List.length x) (List.length y)
      && (fix go (l : list (string * cfg)) : bool :=
            match l with
            | [] => true
            | (k, v) :: l' => match lookup k y with Some w => cfg_eqb v w | None => false end && go l'
            end) x
  | _, _ => false
  end.

Definition ostring_eqb (a b : option string) : bool :=
  match a, b with None, None => true | Some x, Some y => String.eqb x y | _, _ => false end.

Inductive outcome := Missing | Found (qualifier : string).

Inductive case :=
  (* stack of sources, observed merged configuration *)
  | CStack (sources : list cfg) (obs : cfg)
  (* classes in registration order; index of the class whose registration was refused (None = all accepted);
     then resolved references with the observed outcome *)
  | CBank (classes : list cls) (refused : option nat) (lookups : list (ref * outcome)).

Fixpoint add_until (cs : list cls) (b : bank) (n : nat) : bank * option nat :=
  match cs with
  | [] => (b, None)
  | c :: r => match bank_add c b with Some b' => add_until r b' (S n) | None => (b, Some n) end
  end.

Definition outcome_eqb (a : option cls) (o : outcome) : bool :=
  match a, o with
  | None, Missing => true
  | Some c, Found q => String.eqb (cid c) q
  | _, _ => false
  end.

Definition onat_eqb (a b : option nat) : bool :=
  match a, b with None, None => true | Some x, Some y => Nat.eqb x y | _, _ => false end.

Definition check_case (c : case) : bool :=
  match c with
  | CStack srcs obs => cfg_eqb (stack srcs) obs
  | CBank cs refused lookups =>
      let '(b, r) := add_until cs [] 0 in
      onat_eqb r refused && forallb (fun lo => outcome_eqb (bank_get (fst lo) b) (snd lo)) lookups
  end.
