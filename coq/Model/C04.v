(* C04 - lifecycle model of positional state binding: a training run (optionally continuing from the states of a
   previous generation), the registry of committed generations, and later actions that re-expand the pipeline and bind
   the stored states to the stateful apply-path actors BY POSITION (Composition.persistent order / State.offset). *)
Require Import List Bool ZArith.
From FV Require Import Lib.Sym Model.C03.
Import ListNotations.

Definition fit_prev (a : actor) (prev feats labels : term) : term :=
  if astateful a then TState (aname a) (ahp a) prev feats labels else TNone.

(* training run; `prev` = states of the generation the run continues from, indexed like the persistent list *)
Definition train_op (prev : list term) (o : opspec) (s : flowst) : flowst :=
  let y' := match olabel o with Some l => act l (fit_prev l TNone (xt s) (yl s)) (yl s) | None => yl s end in
  let slot := nth (List.length (persisted s)) prev TNone in
  let sa := match oapply o with Some a => fit_prev a slot (xt s) y' | None => TNone end in
  let xa' := match oapply o with Some a => act a sa (xa s) | None => xa s end in
  let xt' := match otrain o, oapply o with
             | TSame, Some a => act a sa (xt s)
             | TOwn t, _ => act t (fit_prev t TNone (xt s) y') (xt s)
             | _, _ => xt s
             end in
  let pers := match oapply o with Some a => if astateful a then [sa] else [] | None => [] end in
  FlowSt xa' xt' y' (persisted s ++ pers).

Definition train_run (prev : list term) (ops : list opspec) (s : flowst) : flowst :=
  fold_left (fun st o => train_op prev o st) ops s.

(* a later action on a fresh expansion: the i-th stateful apply-path actor receives the i-th stored state *)
Fixpoint apply_run (ops : list opspec) (loaded : list term) (i : nat) (x : term) : term :=
  match ops with
  | [] => x
  | o :: r =>
      match oapply o with
      | Some a => if astateful a then apply_run r loaded (S i) (act a (nth i loaded TNone) x)
                  else apply_run r loaded i (act a TNone x)
      | None => apply_run r loaded i x
      end
  end.

(* lifecycle history over a registry of generations (each the committed state list of one training run) *)
Inductive action := DoTrain | DoApply (generation : nat).

Definition registry := list (list term).

Definition last_gen (r : registry) : list term := last r [].

Fixpoint lifecycle (ops : list opspec) (s0 : flowst) (r : registry) (h : list action) : registry * list term :=
  match h with
  | [] => (r, [])
  | DoTrain :: rest =>
      lifecycle ops s0 (r ++ [persisted (train_run (last_gen r) ops s0)]) rest
  | DoApply g :: rest =>
      let out := apply_run ops (nth g r []) 0 (xa s0) in
      let '(r', outs) := lifecycle ops s0 r rest in (r', out :: outs)
  end.

(* ---- correspondence cases ------------------------------------------------------------------------------ *)
Inductive case := CHistory (srcA srcT slice : nat) (e : expr) (h : list action)
                           (generations : list (list term)) (applied : list term).

Fixpoint lists_eqb (a b : list (list term)) : bool :=
  match a, b with [], [] => true | x :: a', y :: b' => terms_eqb x y && lists_eqb a' b' | _, _ => false end.

Definition check_case (c : case) : bool :=
  match c with
  | CHistory a t sl e h gens applied =>
      let '(r, outs) := lifecycle (flatten e) (source a t sl) [] h in
      lists_eqb r gens && terms_eqb outs applied
  end.
