(* C12 - wiring of cross-validated evaluation (forml/evaluation/_method.py CrossVal.produce / HoldOut,
   _stage.py TrainTestScore, _metric.py Function.score) and of the stacking ensemble
   (forml/pipeline/ensemble/_stacking.py Ensembler.compose, FullStack.Builder.build) over the operator denotation of C03.
   The splitter is symbolic: its state is fitted on (features, labels) once and the SAME state splits both, so
   "features and labels are split by the same fold indices" is literally "same state term". *)
Require Import List Bool ZArith.
From FV Require Import Lib.Sym Model.C03.
Import ListNotations.

Record names := Names { nsplit : nat; nmetric : nat; nreduce : nat; nappend : nat; nstack : nat; nmerge : nat }.

Section Folds.
  Variable nm : names.
  Variable X Y : term.                       (* train-mode features and labels reaching the splitter *)

  Definition split_state : term := TState (nsplit nm) 0 TNone X Y.
  Definition fsplit : term := TApp (nsplit nm) 0 split_state [X].
  Definition lsplit : term := TApp (nsplit nm) 0 split_state [Y].
  Definition train_features (i : nat) : term := TProj (2 * i) fsplit.
  Definition train_labels (i : nat) : term := TProj (2 * i) lsplit.
  Definition test_features (i : nat) : term := TProj (2 * i + 1) fsplit.
  Definition test_labels (i : nat) : term := TProj (2 * i + 1) lsplit.

  (* ---- evaluation: one (true, predicted) pair per fold --------------------------------------------------- *)
  (* the pipeline is expanded once per fold, trained on the fold's train part and applied to its test part *)
  Definition fold_prediction (e : expr) (i : nat) : term :=
    xa (den e (FlowSt (test_features i) (train_features i) (train_labels i) [])).

  Definition outcomes (e : expr) (folds : nat) : list (term * term) :=
    map (fun i => (test_labels i, fold_prediction e i)) (seq 0 folds).

  Definition score (e : expr) (folds : nat) : term :=
    let ms := map (fun tp => TApp (nmetric nm) 0 TNone [fst tp; snd tp]) (outcomes e folds) in
    match ms with
    | [m] => m
    | _ => TApp (nreduce nm) 0 TNone ms
    end.

  (* ---- stacking ------------------------------------------------------------------------------------------- *)
  Variable XA : term.                        (* apply-mode input reaching the ensemble *)

  (* the scope (everything composed to the left inside the ensemble's composition) expanded for fold i *)
  Definition scope_fold (scope : list opspec) (i : nat) (input : term) : flowst :=
    fold_left (fun st o => den_op o st) scope (FlowSt input (train_features i) (train_labels i) []).

  (* base model b on fold i, applied to `input` (after the scope's apply path), trained on the fold's train part *)
  Definition base_on (scope : list opspec) (base : expr) (i : nat) (input : term) : term :=
    let tr := scope_fold scope i input in
    xa (den base (FlowSt (xa tr) (xt tr) (yl tr) [])).

  Definition stack_train (scope : list opspec) (bases : list expr) (folds : nat) : term :=
    TApp (nappend nm) 0 TNone
         (map (fun b => TApp (nstack nm) 0 TNone (map (fun i => base_on scope b i (test_features i)) (seq 0 folds))) bases).

  Definition stack_apply (scope : list opspec) (bases : list expr) (folds : nat) : term :=
    TApp (nappend nm) 0 TNone
         (map (fun b => TApp (nmerge nm) 0 TNone (map (fun i => base_on scope b i XA) (seq 0 folds))) bases).

  Definition stack_labels (folds : nat) : term :=
    TApp (nstack nm) 0 TNone (map test_labels (seq 0 folds)).
End Folds.

(* ---- correspondence cases ---------------------------------------------------------------------------------- *)
Inductive case :=
  (* pipeline >> TrainTestScore(Function(metric, reduce), CrossVal / HoldOut): the evaluation value *)
  | CEval (nm : names) (srcT slice : nat) (e : expr) (folds : nat) (obs : term)
  (* scope >> FullStack(bases) >> probe: train-mode and apply-mode outputs *)
  | CStack (nm : names) (srcA srcT slice probe : nat) (scope : expr) (bases : list expr) (folds : nat) (train apply : term).

Definition check_case (c : case) : bool :=
  match c with
  | CEval nm t sl e folds obs =>
      let s := source 0 t sl in term_eqb (score nm (xt s) (yl s) e folds) obs
  | CStack nm a t sl probe scope bases folds tr ap =>
      let s := source a t sl in
      (* the stacked labels feed the (stateless) probe's trainer-less train path: only features are observed *)
      term_eqb (TApp probe 0 TNone [stack_train nm (xt s) (yl s) (flatten scope) bases folds]) tr
      && term_eqb (TApp probe 0 TNone [stack_apply nm (xt s) (yl s) (xa s) (flatten scope) bases folds]) ap
  end.
