(* C06 - correspondence cases of the three levels: engine rows vs the implementation model of the denotation, the term
   assembled by the real Visitor vs the automaton model, and read histories through the real alchemy feed vs the cache model. *)
Require Import List Bool ZArith.
From FV Require Import Model.Dsl Model.DslSem Model.C06 Generated.C06Join Model.C06Impl Model.C06Parser.
Import ListNotations.

(* a statement is identified by the SQL text the parser produces for it (the id is assigned per distinct text) *)
Definition hstmt := (nat * source)%type.
Definition hstmt_eqb (a b : hstmt) : bool := Nat.eqb (fst a) (fst b).
Definition hexec (d : db) (s : hstmt) : list (list value) := result_impl d (snd s).
Definition hop := C06.op hstmt db.

Definition answers_eqb (a b : option (list (list value))) : bool :=
  match a, b with None, None => true | Some x, Some y => bag_eqb x y | _, _ => false end.
Fixpoint all2 {A : Type} (f : A -> A -> bool) (a b : list A) : bool :=
  match a, b with [] , [] => true | x :: a', y :: b' => f x y && all2 f a' b' | _, _ => false end.

Inductive case :=
  | KRead (c : C06Impl.case)
  | KParse (c : C06Parser.case)
  | KHist (ops : list hop) (answers : list (option (list (list value)))).

Definition check_case (c : case) : bool :=
  match c with
  | KRead c' => C06Impl.check_case c'
  | KParse c' => C06Parser.check_case c'
  | KHist ops answers =>
      all2 answers_eqb
           (snd (C06.run hstmt hstmt_eqb db (list (list value)) hexec [] {| st_storages := []; st_cache := [] |} ops))
           answers
  end.
