(* C02 - executable model of the runners' view of a compiled table.
   Reference semantics: dependency-ordered evaluation (also what the dask runner's memoised `link` denotes).
   pyfunc: forml/provider/runner/pyfunc.py Expression._order / _build / __init__ (provider deques, Branch.fork)
   and the evaluation of the resulting term with Push/Pop queues. Instructions are numbered; values are free terms. *)
Require Import List Bool ZArith Arith.
From FV Require Import Lib.Sym.
Import ListNotations.

Inductive instr :=
  | IFun (name : nat) (hp : Z) (szout : nat) (stateful : bool)   (* actor functor (apply action); state = first argument if preset *)
  | IFunS (name : nat) (hp : Z) (szout : nat)                    (* functor with a state preset: first argument is the state *)
  | IGet (i : nat)
  | ILoad (state : term).                                        (* loader of a persisted state (TNone = nothing stored) *)

Record symbol := Sym { sid : nat; sinstr : instr; sargs : list nat }.
Definition table := list symbol.

Fixpoint find_sym (t : table) (k : nat) : option symbol :=
  match t with [] => None | s :: r => if Nat.eqb (sid s) k then Some s else find_sym r k end.

Definition app_term (name : nat) (hp : Z) (szout : nat) (st : term) (args : list term) : term :=
  let app := TApp name hp st args in
  match szout with 1 => app | k => TTup (map (fun i => TProj i app) (seq 0 k)) end.

Definition exec (i : instr) (args : list term) : option term :=
  match i with
  | IFun n h o _ => Some (app_term n h o TNone args)
  | IFunS n h o => match args with st :: rest => Some (app_term n h o st rest) | [] => None end
  | IGet k => match args with [TTup l] => nth_error l k | _ => None end
  | ILoad st => Some st
  end.

(* reference: evaluate instruction k with fuel (None = malformed table / out of fuel) *)
Fixpoint teval (fuel : nat) (t : table) (k : nat) : option term :=
  match fuel with
  | O => None
  | S f =>
      match find_sym t k with
      | None => None
      | Some s =>
          match (fix args (l : list nat) : option (list term) :=
                   match l with
                   | [] => Some []
                   | a :: r => match teval f t a, args r with Some v, Some vs => Some (v :: vs) | _, _ => None end
                   end) (sargs s) with
          | Some vs => exec (sinstr s) vs
          | None => None
          end
      end
  end.

(* consumers: the tail is the instruction nobody depends on *)
Definition is_arg (t : table) (k : nat) : bool := existsb (fun s => existsb (Nat.eqb k) (sargs s)) t.
Definition leaves (t : table) : list nat := map sid (filter (fun s => negb (is_arg t (sid s))) t).

(* ---- pyfunc: Expression._order --------------------------------------------------------------------- *)
(* walk(level, *parents): DFS from the tail recording for each node the first-visit order and the maximal level *)
Definition idx := list (nat * nat).                       (* insertion-ordered: node -> level *)
Fixpoint idx_get (k : nat) (l : idx) : option nat :=
  match l with [] => None | (k', v) :: r => if Nat.eqb k k' then Some v else idx_get k r end.
Fixpoint idx_set (k v : nat) (l : idx) : idx :=
  match l with
  | [] => [(k, v)]
  | (k', v') :: r => if Nat.eqb k k' then (k, v) :: r else (k', v') :: idx_set k v r
  end.

Fixpoint walk (fuel : nat) (t : table) (level : nat) (parents : list nat) (index : idx) : idx :=
  match fuel with
  | O => index
  | S f =>
      fold_left (fun ix node =>
                   let cur := match idx_get node ix with Some v => v | None => 0 end in
                   let ix' := idx_set node (Nat.max cur level) ix in
                   walk f t (S level) (match find_sym t node with Some s => sargs s | None => [] end) ix')
                parents index
  end.

(* sorted(index, key=level, reverse=True): stable insertion sort by descending level *)
Fixpoint ins_desc (x : nat * nat) (l : idx) : idx :=
  match l with
  | [] => [x]
  | y :: r => if Nat.leb (snd y) (snd x) then x :: l else y :: ins_desc x r
  end.
Definition sort_desc (l : idx) : idx := fold_right ins_desc [] l.

Definition order (t : table) (tail : nat) : list nat :=
  let fuel := S (List.length t) in
  map fst (sort_desc (walk fuel t 1 (match find_sym t tail with Some s => sargs s | None => [] end) [(tail, 0)])).

(* ---- pyfunc: Expression._build ----------------------------------------------------------------------- *)
(* a dag node: the term's own id (= instruction id), what it executes, its upstream term ids *)
Inductive action := ATask (name : nat) (hp : Z) (szout : nat) (st : term) | AGet (i : nat).
Record dnode := DNode { did : nat; dact : action; dargs : list nat }.

Definition is_loader (t : table) (k : nat) : option term :=
  match find_sym t k with Some (Sym _ (ILoad st) _) => Some st | _ => None end.

(* None = one of the asserts of _build fails *)
Fixpoint build_nodes (t : table) (ord : list nat) : option (list dnode) :=
  match ord with
  | [] => Some []
  | k :: r =>
      match find_sym t k, build_nodes t r with
      | Some s, Some rest =>
          match sinstr s with
          | ILoad _ => match sargs s with [] => Some rest | _ => None end      (* condensed *)
          | IGet i => Some (DNode k (AGet i) (sargs s) :: rest)
          | IFun n h o _ => Some (DNode k (ATask n h o TNone) (sargs s) :: rest)
          | IFunS n h o =>
              (* action.reduce: the preset consumes the first (loader) argument; a falsy state sets nothing *)
              match sargs s with
              | a :: args' => match is_loader t a with
                              | Some st => Some (DNode k (ATask n h o st) args' :: rest)
                              | None => None                                   (* state from a non-loader: not an apply-mode table *)
                              end
              | [] => None
              end
          end
      | _, _ => None
      end
  end.

Definition count_uses (dag : list dnode) (k : nat) : nat :=
  List.length (filter (Nat.eqb k) (flat_map dargs dag)).

(* ---- pyfunc: Expression.__init__ --------------------------------------------------------------------- *)
Inductive pterm :=
  | PTask (a : action)
  | PChain (right left : pterm)
  | PZip (a : action) (branches : list pterm)
  | PPush (q : nat) (t : pterm) (replicas : nat)
  | PPop (q : nat).

Definition provs := list (nat * list pterm).                (* term id -> deque *)
Fixpoint pv_get (k : nat) (l : provs) : list pterm :=
  match l with [] => [] | (k', v) :: r => if Nat.eqb k k' then v else pv_get k r end.
Fixpoint pv_set (k : nat) (v : list pterm) (l : provs) : provs :=
  match l with
  | [] => [(k, v)]
  | (k', v') :: r => if Nat.eqb k k' then (k, v) :: r else (k', v') :: pv_set k v r
  end.

(* [providers[a].popleft() for a in node.args]; None = IndexError *)
Fixpoint pop_args (args : list nat) (pv : provs) : option (list pterm * provs) :=
  match args with
  | [] => Some ([], pv)
  | a :: r =>
      match pv_get a pv with
      | [] => None
      | x :: xs => match pop_args r (pv_set a xs pv) with Some (l, pv') => Some (x :: l, pv') | None => None end
      end
  end.

Definition fork (q : nat) (t : pterm) (szout : nat) : list pterm :=
  match szout with
  | S (S k) => PPush q t (S k) :: repeat (PPop q) (S k)
  | _ => [t]
  end.

Fixpoint assemble (dag_all rest : list dnode) (pv : provs) : option provs :=
  match rest with
  | [] => Some pv
  | n :: r =>
      match pop_args (dargs n) pv with
      | None => None
      | Some (args, pv1) =>
          match pv_get (did n) pv1 with
          | [] => None
          | self :: selfq =>
              let base := match self with PTask a => a | _ => dact n end in
              match args with
              | [] => None                                    (* Chain(term) without an argument: TypeError *)
              | _ =>
                  let t := match args with [x] => PChain self x | _ => PZip base args end in
                  assemble dag_all r (pv_set (did n) (selfq ++ fork (did n) t (count_uses dag_all (did n))) pv1)
              end
          end
      end
  end.

(* None = construction fails (IndexError / an assert) *)
Definition mk_expr (t : table) : option pterm :=
  match leaves t with
  | [tail] =>
      match build_nodes t (order t tail) with
      | Some (((DNode _ _ []) :: rest) as dag) =>
          if Nat.eqb (count_uses dag tail) 0 then
            let pv0 := map (fun n => (did n, [PTask (dact n)])) dag in
            match assemble dag rest pv0 with
            | Some pv =>
                match pv_get tail pv with
                | [e] => if forallb (fun kv => match snd kv with [] => true | _ => Nat.eqb (fst kv) tail end) pv then Some e else None
                | _ => None
                end
            | None => None
            end
          else None
      | _ => None
      end
  | _ => None
  end.

(* ---- pyfunc: evaluation of the expression ---------------------------------------------------------------- *)
Definition queues := list (nat * list term).
Fixpoint q_get (k : nat) (l : queues) : list term :=
  match l with [] => [] | (k', v) :: r => if Nat.eqb k k' then v else q_get k r end.
Fixpoint q_set (k : nat) (v : list term) (l : queues) : queues :=
  match l with
  | [] => [(k, v)]
  | (k', v') :: r => if Nat.eqb k k' then (k, v) :: r else (k', v') :: q_set k v r
  end.

Definition do_action (a : action) (args : list term) : option term :=
  match a with
  | ATask n h o st => Some (app_term n h o st args)
  | AGet i => match args with [TTup l] => nth_error l i | _ => None end
  end.

(* the head task receives the call argument; here the source ignores it (constant symbolic source) *)
Fixpoint run (e : pterm) (q : queues) : option (term * queues) :=
  match e with
  | PTask a => match do_action a [] with Some v => Some (v, q) | None => None end
  | PChain r l =>
      match run l q with
      | Some (v, q1) =>
          match r with
          | PTask a => match do_action a [v] with Some w => Some (w, q1) | None => None end
          | _ => None
          end
      | None => None
      end
  | PZip a bs =>
      match (fix go (l : list pterm) (q : queues) : option (list term * queues) :=
               match l with
               | [] => Some ([], q)
               | b :: r => match run b q with
                           | Some (v, q1) => match go r q1 with Some (vs, q2) => Some (v :: vs, q2) | None => None end
                           | None => None
                           end
               end) bs q with
      | Some (vs, q1) => match do_action a vs with Some w => Some (w, q1) | None => None end
      | None => None
      end
  | PPush k t n =>
      match q_get k q with
      | [] => match run t q with
              | Some (v, q1) => Some (v, q_set k (q_get k q1 ++ repeat v n) q1)
              | None => None
              end
      | _ => None                                            (* assert not queue: outstanding elements *)
      end
  | PPop k => match q_get k q with v :: r => Some (v, q_set k r q) | [] => None end
  end.

Inductive outcome := Crash | Value (v : term).

Definition pyfunc (t : table) : outcome * outcome :=
  (* first and second call of the same expression (queues persist between calls) *)
  match mk_expr t with
  | None => (Crash, Crash)
  | Some e =>
      match run e [] with
      | None => (Crash, Crash)
      | Some (v, q) => (Value v, match run e q with Some (w, _) => Value w | None => Crash end)
      end
  end.

Definition reference (t : table) : outcome :=
  match leaves t with
  | [tail] => match teval (S (List.length t)) t tail with Some v => Value v | None => Crash end
  | _ => Crash
  end.

(* ---- correspondence cases ------------------------------------------------------------------------------ *)
Definition outcome_eqb (a b : outcome) : bool :=
  match a, b with Crash, Crash => true | Value x, Value y => term_eqb x y | _, _ => false end.

Inductive case := CTable (t : table) (ref py1 py2 : outcome).

Definition check_case (c : case) : bool :=
  match c with
  | CTable t r p1 p2 => outcome_eqb (reference t) r && outcome_eqb (fst (pyfunc t)) p1 && outcome_eqb (snd (pyfunc t)) p2
  end.
