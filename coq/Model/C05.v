(* C05 - one release directory of the posix registry as a state machine of file-system primitives
   (forml/provider/registry/filesystem/posix.py Registry.write / close / push after the atomic-publish fix,
    Path.Generation / Path.Release matchers; forml/io/asset/_directory/level/major.py Release.put, case.py Project.put).
   A generation is LISTED iff its tag file exists; a release iff its package file exists. Each primitive is atomic and
   durable in program order (the semantics of process death); a write may stop after any byte prefix. *)
Require Import List Bool ZArith.
Import ListNotations.

Definition bytes := list Z.

Record gendir := GenDir { tag : option bytes; tag_part : option bytes; gstates : list (nat * bytes) }.
Record reldir := RelDir {
  pkg : option bytes;                 (* package.4ml (file packages) *)
  pkg_part : option bytes;            (* .package.4ml.part *)
  stage : list (nat * bytes);         (* .stage/<sid>.bin *)
  gens : list (nat * gendir)          (* <generation>/ *)
}.

Fixpoint gen_get (g : nat) (l : list (nat * gendir)) : option gendir :=
  match l with [] => None | (g', d) :: r => if Nat.eqb g g' then Some d else gen_get g r end.
Fixpoint gen_set (g : nat) (d : gendir) (l : list (nat * gendir)) : list (nat * gendir) :=
  match l with
  | [] => [(g, d)]
  | (g', d') :: r => if Nat.eqb g g' then (g, d) :: r else (g', d') :: gen_set g d r
  end.
Fixpoint sid_get (s : nat) (l : list (nat * bytes)) : option bytes :=
  match l with [] => None | (s', b) :: r => if Nat.eqb s s' then Some b else sid_get s r end.
Definition sid_del (s : nat) (l : list (nat * bytes)) : list (nat * bytes) := filter (fun p => negb (Nat.eqb s (fst p))) l.

Inductive prim :=
  | PStage (sid : nat) (data : bytes)                  (* write: .stage/<sid>.bin *)
  | PMkGen (g : nat)                                   (* mkdir -p <g>/ *)
  | PMoveState (sid g : nat)                           (* rename .stage/<sid>.bin -> <g>/<sid>.bin *)
  | PWriteTagPart (g : nat) (data : bytes)             (* create/truncate <g>/.tag.toml.part and write *)
  | PPublishTag (g : nat)                              (* rename <g>/.tag.toml.part -> <g>/tag.toml *)
  | PWritePkgPart (data : bytes)
  | PPublishPkg.

Definition empty_gen : gendir := GenDir None None [].

Definition exec (r : reldir) (p : prim) : reldir :=
  match p with
  | PStage s d => RelDir (pkg r) (pkg_part r) ((s, d) :: sid_del s (stage r)) (gens r)
  | PMkGen g => match gen_get g (gens r) with
                | Some _ => r
                | None => RelDir (pkg r) (pkg_part r) (stage r) (gen_set g empty_gen (gens r))
                end
  | PMoveState s g =>
      match sid_get s (stage r), gen_get g (gens r) with
      | Some d, Some gd =>
          RelDir (pkg r) (pkg_part r) (sid_del s (stage r))
                 (gen_set g (GenDir (tag gd) (tag_part gd) ((s, d) :: sid_del s (gstates gd))) (gens r))
      | _, _ => r
      end
  | PWriteTagPart g d =>
      match gen_get g (gens r) with
      | Some gd => RelDir (pkg r) (pkg_part r) (stage r) (gen_set g (GenDir (tag gd) (Some d) (gstates gd)) (gens r))
      | None => r
      end
  | PPublishTag g =>
      match gen_get g (gens r) with
      | Some (GenDir _ (Some d) sts) => RelDir (pkg r) (pkg_part r) (stage r) (gen_set g (GenDir (Some d) None sts) (gens r))
      | _ => r
      end
  | PWritePkgPart d => RelDir (pkg r) (Some d) (stage r) (gens r)
  | PPublishPkg => match pkg_part r with Some d => RelDir (Some d) None (stage r) (gens r) | None => r end
  end.

Definition run (r : reldir) (ps : list prim) : reldir := fold_left exec ps r.

(* Registry.close(generation, tag): the tag's states are moved in, then the tag is published *)
Definition close_prims (g : nat) (sids : list nat) (tagbytes : bytes) : list prim :=
  PMkGen g :: map (fun s => PMoveState s g) sids ++ [PWriteTagPart g tagbytes; PPublishTag g].

Definition push_prims (pkgbytes : bytes) : list prim := [PWritePkgPart pkgbytes; PPublishPkg].

(* what a fresh reader sees: the release package if listed, and every listed generation with its tag bytes and states *)
Definition listed (r : reldir) : list (nat * (bytes * list (nat * bytes))) :=
  flat_map (fun gd => match tag (snd gd) with Some t => [(fst gd, (t, gstates (snd gd)))] | None => [] end) (gens r).

Definition view (r : reldir) : option bytes * list (nat * (bytes * list (nat * bytes))) := (pkg r, listed r).

(* process death: a prefix of the primitives, the interrupted write having stored only a prefix of its bytes *)
Definition truncate (p : prim) (k : nat) : prim :=
  match p with
  | PWriteTagPart g d => PWriteTagPart g (firstn k d)
  | PWritePkgPart d => PWritePkgPart (firstn k d)
  | PStage s d => PStage s (firstn k d)
  | _ => p
  end.

Definition crashed (r : reldir) (ps : list prim) (n k : nat) : reldir :=
  (* n complete primitives, then (if any is left) the next one interrupted after k bytes when it is a write *)
  let done := run r (firstn n ps) in
  match nth_error ps n with
  | Some p => match p with
              | PWriteTagPart _ _ | PWritePkgPart _ | PStage _ _ => exec done (truncate p k)
              | _ => done
              end
  | None => done
  end.

(* generation number allocation (Release.put) and release acceptance (Project.put) *)
Definition next_generation (r : reldir) : nat := S (fold_right Nat.max 0 (map fst (listed r))).
Definition accepts_release (existing : list Z) (v : Z) : bool := forallb (fun e => Z.ltb e v) existing.

(* ---- correspondence cases ---------------------------------------------------------------------------------- *)
Fixpoint bytes_eqb (a b : bytes) : bool :=
  match a, b with [], [] => true | x :: a', y :: b' => Z.eqb x y && bytes_eqb a' b' | _, _ => false end.

(* observation: listed generation numbers with, per generation, the state ids in tag order *)
Inductive action := ADump (sid : nat) | ACommit (sids : list nat).

Definition apply_action (r : reldir) (a : action) : reldir :=
  match a with
  | ADump s => exec r (PStage s [Z.of_nat s])
  | ACommit sids => run r (close_prims (next_generation r) sids (map Z.of_nat sids))
  end.

Definition summary (r : reldir) : list (nat * list nat) :=
  map (fun g => (fst g, map (fun z => Z.to_nat z) (fst (snd g)))) (listed r).

Fixpoint nats_eqb (a b : list nat) : bool :=
  match a, b with [], [] => true | x :: a', y :: b' => Nat.eqb x y && nats_eqb a' b' | _, _ => false end.
Fixpoint summary_eqb (a b : list (nat * list nat)) : bool :=
  match a, b with
  | [], [] => true
  | (g, s) :: a', (h, t) :: b' => Nat.eqb g h && nats_eqb s t && summary_eqb a' b'
  | _, _ => false
  end.

Inductive case :=
  (* history of dumps/commits on one release; observed listing (sorted by generation) with tag state ids *)
  | CHistory (h : list action) (obs : list (nat * list nat))
  (* release acceptance *)
  | CRelease (existing : list Z) (v : Z) (accepted : bool).

Definition sort_summary (l : list (nat * list nat)) : list (nat * list nat) :=
  fold_right (fun x acc =>
                (fix ins (l : list (nat * list nat)) :=
                   match l with [] => [x] | y :: r => if Nat.leb (fst x) (fst y) then x :: l else y :: ins r end) acc) [] l.

Definition check_case (c : case) : bool :=
  match c with
  | CHistory h obs => summary_eqb (sort_summary (summary (fold_left apply_action h (RelDir None None [] [])))) obs
  | CRelease ex v acc => Bool.eqb (accepts_release ex v) acc
  end.
