(* C04 - correspondence at the graph level: on the histories of Model/C04.v every later action is also replayed on the
   executable apply-segment graph (Model/C03Graph.v build_a) evaluated by the graph semantics of C01 with the accessor that
   binds the OBSERVED states of the chosen generation to the persistent groups by position. *)
Require Import List Bool ZArith Arith.
From FV Require Import Lib.Sym Model.C01 Model.C03 Model.C03Graph Model.C04.
Import ListNotations.

Fixpoint applied_graph (e : expr) (a t sl : nat) (gens : list (list term)) (trained_so_far : nat) (h : list action) : list term :=
  match h with
  | [] => []
  | DoTrain :: r => applied_graph e a t sl gens (S trained_so_far) r
  | DoApply g :: r =>
      let sts := if Nat.ltb g trained_so_far then nth g gens [] else [] in
      let ga := build_a e (asource a) in
      value (geval (Some (combine (pers_gids e (gsource a t sl)) sts)) (anodes ga)) (apa ga)
        :: applied_graph e a t sl gens trained_so_far r
  end.

(* every training action replayed on the training graph: evaluated with the accessor holding the OBSERVED previous generation
   (the latest one at that point) it must train, for the persistent groups in pipeline order, the OBSERVED next generation *)
Fixpoint trained_graph (e : expr) (a t sl : nat) (gens : list (list term)) (trained_so_far : nat) (h : list action) : bool :=
  match h with
  | [] => true
  | DoApply _ :: r => trained_graph e a t sl gens trained_so_far r
  | DoTrain :: r =>
      let gids := pers_gids e (gsource a t sl) in
      let prev := match trained_so_far with 0 => [] | S j => nth j gens [] end in
      let ev := geval (Some (combine gids prev)) (gnodes (build e (gsource a t sl))) in
      terms_eqb (map (fun g => match lookup_gid g (trained ev) with Some s => s | None => TNone end) gids) (nth trained_so_far gens [])
      && trained_graph e a t sl gens (S trained_so_far) r
  end.

Definition check_case_graph (c : C04.case) : bool :=
  C04.check_case c &&
  match c with
  | CHistory a t sl e h gens applied => terms_eqb (applied_graph e a t sl gens 0 h) applied && trained_graph e a t sl gens 0 h
  end.
