(* C16 - concurrent serving: forml/runtime/_service.
   A labelled transition system of the serving core.  Every atomic step of the implementation is an action, the schedule
   (which agent moves next: the event loop, the extract thread pool, any worker of any executor, an executor's result
   thread, the respond pool) is an arbitrary action list:
     AExtract r  - Wrapper.extract: descriptor lookup (unknown application), decoding (unsupported encoding), model selection
     ASubmit r   - Dealer.__call__ + Executor.apply on the event loop: pending[index] = future; tasks.put(Task(index, entry)); index += 1
     ATake i     - a Pool.Worker of executor i takes the next task off the queue
     AFinish i n - that worker finishes (runner.call(entry) or a forml error): results.put(task.success/failure)
     ADeliver i n - Executor.run: results.get(); pending[result.id].set_result / set_exception; del pending[result.id]
     ARespond r  - Wrapper.respond: the descriptor encodes the outcome
   Not modelled: process start-up / shutdown, timeouts of the queue polls, a worker dying on a non-forml exception (it stops
   the whole executor), the interior of the pyfunc runner (C02), the descriptor cache (modelled separately below). *)
Require Import List Bool ZArith Lia.
Import ListNotations.

Inductive errkind := EUnknownApp | EEncoding | EMissing.
Inductive answer := Ok (inst : nat) (v : Z) | Err (k : errkind).

Record request := { r_app : nat; r_payload : Z; r_badenc : bool; r_missing : bool; r_badaccept : bool }.
Definition entry := (Z * bool)%type.                       (* decoded payload, features missing *)
Inductive outcome := Success (v : Z) | Failure (k : errkind).

Section Serving.
  Variable reqs : nat -> request.                          (* the batch *)
  Variable inst_of : nat -> option nat.                    (* application -> model instance its descriptor selects *)
  Variable F : nat -> Z -> Z.                              (* what model instance i computes *)

  Definition entry_of (r : nat) : entry := (r_payload (reqs r), r_missing (reqs r)).
  Definition compute (i : nat) (e : entry) : outcome := if snd e then Failure EMissing else Success (F i (fst e)).

  (* what the caller of request r must receive *)
  Definition expected (r : nat) : answer :=
    match inst_of (r_app (reqs r)) with
    | None => Err EUnknownApp
    | Some i => if r_badenc (reqs r) then Err EEncoding
                else if r_missing (reqs r) then Err EMissing
                else if r_badaccept (reqs r) then Err EEncoding      (* no encoder for what the caller accepts: fails in respond *)
                else Ok i (F i (r_payload (reqs r)))
    end.

  Inductive phase :=
    | New | Extracted (i : nat) | Waiting (i id : nat) | Computed (i : nat) (v : Z) | Done (a : answer).

  Record exec := { next : nat; pending : list (nat * nat); tasks : list (nat * entry); inwork : list (nat * entry);
                   results : list (nat * outcome) }.
  Definition exec0 : exec := {| next := 0; pending := []; tasks := []; inwork := []; results := [] |}.

  Record state := { phases : nat -> phase; execs : nat -> exec }.
  Definition init : state := {| phases := fun _ => New; execs := fun _ => exec0 |}.

  Definition upd {A : Type} (f : nat -> A) (k : nat) (v : A) : nat -> A := fun x => if Nat.eqb x k then v else f x.

  Fixpoint lookup (id : nat) (p : list (nat * nat)) : option nat :=
    match p with [] => None | (k, r) :: t => if Nat.eqb id k then Some r else lookup id t end.
  Definition drop (id : nat) (p : list (nat * nat)) : list (nat * nat) := filter (fun kr => negb (Nat.eqb id (fst kr))) p.
  Fixpoint remove_nth {A : Type} (n : nat) (l : list A) : list A :=
    match l, n with [], _ => [] | _ :: t, 0 => t | x :: t, S m => x :: remove_nth m t end.

  Inductive action := AExtract (r : nat) | ASubmit (r : nat) | ATake (i : nat) | AFinish (i n : nat) | ADeliver (i n : nat)
                    | ARespond (r : nat).

  Definition step (workers : nat) (st : state) (a : action) : option state :=
    match a with
    | AExtract r =>
        match phases st r with
        | New =>
            let p := match inst_of (r_app (reqs r)) with
                     | None => Done (Err EUnknownApp)
                     | Some i => if r_badenc (reqs r) then Done (Err EEncoding) else Extracted i
                     end in
            Some {| phases := upd (phases st) r p; execs := execs st |}
        | _ => None
        end
    | ASubmit r =>
        match phases st r with
        | Extracted i =>
            let e := execs st i in
            let e' := {| next := S (next e); pending := (next e, r) :: pending e; tasks := tasks e ++ [(next e, entry_of r)];
                         inwork := inwork e; results := results e |} in
            Some {| phases := upd (phases st) r (Waiting i (next e)); execs := upd (execs st) i e' |}
        | _ => None
        end
    | ATake i =>
        let e := execs st i in
        match tasks e with
        | t :: rest =>
            if Nat.ltb (List.length (inwork e)) workers then
              Some {| phases := phases st;
                      execs := upd (execs st) i {| next := next e; pending := pending e; tasks := rest; inwork := t :: inwork e;
                                                   results := results e |} |}
            else None
        | [] => None
        end
    | AFinish i n =>
        let e := execs st i in
        match nth_error (inwork e) n with
        | Some (id, en) =>
            Some {| phases := phases st;
                    execs := upd (execs st) i {| next := next e; pending := pending e; tasks := tasks e;
                                                 inwork := remove_nth n (inwork e);
                                                 results := results e ++ [(id, compute i en)] |} |}
        | None => None
        end
    | ADeliver i n =>
        (* results put by different workers at the same moment reach the executor thread in either order: any of them *)
        let e := execs st i in
        match nth_error (results e) n with
        | Some (id, o) =>
            match lookup id (pending e) with
            | Some r =>
                Some {| phases := upd (phases st) r (match o with Success v => Computed i v | Failure k => Done (Err k) end);
                        execs := upd (execs st) i {| next := next e; pending := drop id (pending e); tasks := tasks e;
                                                     inwork := inwork e; results := remove_nth n (results e) |} |}
            | None => None                                  (* KeyError in the executor thread *)
            end
        | None => None
        end
    | ARespond r =>
        match phases st r with
        | Computed i v =>
            Some {| phases := upd (phases st) r (Done (if r_badaccept (reqs r) then Err EEncoding else Ok i v)); execs := execs st |}
        | _ => None
        end
    end.

  (* a schedule: actions that are not enabled are skipped (the agent finds nothing to do) *)
  Fixpoint run (workers : nat) (st : state) (acts : list action) : state :=
    match acts with
    | [] => st
    | a :: rest => run workers (match step workers st a with Some st' => st' | None => st end) rest
    end.

  Definition answered (st : state) (r : nat) : option answer := match phases st r with Done a => Some a | _ => None end.
End Serving.

(* ======================= the descriptor cache of Wrapper._get_descriptor (after the fix) ========================= *)
(* threads interleave at the granularity of the dictionary operations:
     1 check `application not in descriptors`   2 list the inventory and subtract the known keys   3 update
     4 check again (raise MissingError)          5 fill the entry with inventory.get *)
Inductive dpc := DStart | DMiss | DListed (updates : list nat) | DUpdated | DChecked | DFinished (found : bool).
Record dthread := { d_app : nat; d_pc : dpc }.
Record dstate := { d_known : list nat; d_threads : nat -> dthread }.
Definition mem (x : nat) (l : list nat) : bool := existsb (Nat.eqb x) l.
Definition dstep (inventory : list nat) (st : dstate) (t : nat) : dstate :=
  let th := d_threads st t in
  let set pc := {| d_known := d_known st; d_threads := fun x => if Nat.eqb x t then {| d_app := d_app th; d_pc := pc |} else d_threads st x |} in
  match d_pc th with
  | DStart => if mem (d_app th) (d_known st) then set DChecked else set DMiss
  | DMiss => set (DListed (filter (fun a => negb (mem a (d_known st))) inventory))
  | DListed ups => {| d_known := ups ++ d_known st;
                      d_threads := fun x => if Nat.eqb x t then {| d_app := d_app th; d_pc := DUpdated |} else d_threads st x |}
  | DUpdated => if mem (d_app th) (d_known st) then set DChecked else set (DFinished false)
  | DChecked => set (DFinished true)
  | DFinished _ => st
  end.
Fixpoint drun (inventory : list nat) (st : dstate) (sched : list nat) : dstate :=
  match sched with [] => st | t :: r => drun inventory (dstep inventory st t) r end.

(* the code before the fix raised when the application was not among *this thread's own* updates *)
Definition dstep_old (inventory : list nat) (st : dstate) (t : nat) : dstate :=
  let th := d_threads st t in
  match d_pc th with
  | DListed ups => {| d_known := ups ++ d_known st;
                      d_threads := fun x => if Nat.eqb x t then {| d_app := d_app th; d_pc := if mem (d_app th) ups then DChecked else DFinished false |}
                                            else d_threads st x |}
  | _ => dstep inventory st t
  end.
Fixpoint drun_old (inventory : list nat) (st : dstate) (sched : list nat) : dstate :=
  match sched with [] => st | t :: r => drun_old inventory (dstep_old inventory st t) r end.

(* ============================================ correspondence cases =============================================== *)
Definition answer_eqb (a b : answer) : bool :=
  match a, b with
  | Ok i v, Ok j w => Nat.eqb i j && Z.eqb v w
  | Err EUnknownApp, Err EUnknownApp | Err EEncoding, Err EEncoding | Err EMissing, Err EMissing => true
  | _, _ => false
  end.
Fixpoint nth_req (l : list request) (r : nat) : request :=
  match l, r with
  | [], _ => {| r_app := 0; r_payload := 0; r_badenc := false; r_missing := false; r_badaccept := false |}
  | x :: _, 0 => x
  | _ :: t, S m => nth_req t m
  end.
Fixpoint assoc (l : list (nat * nat)) (k : nat) : option nat :=
  match l with [] => None | (a, b) :: t => if Nat.eqb k a then Some b else assoc t k end.
Fixpoint assocZ (l : list (nat * Z)) (k : nat) : Z :=
  match l with [] => 0%Z | (a, b) :: t => if Nat.eqb k a then b else assocZ t k end.

Inductive case :=
  (* a batch served concurrently by the real engine: applications -> instances, instance multipliers, the requests, the
     observed schedule (trace of the instrumented implementation mapped to actions) and what every caller received *)
  | CServe (apps : list (nat * nat)) (mult : list (nat * Z)) (batch : list request) (workers : nat) (trace : list action)
           (got : list answer).

Definition check_case (c : case) : bool :=
  match c with
  | CServe apps mult batch workers trace got =>
      let reqs := nth_req batch in
      let inst_of := assoc apps in
      let F := fun i v => (assocZ mult i * v)%Z in
      (* every caller received what the specification says *)
      forallb (fun rg => answer_eqb (expected reqs inst_of F (fst rg)) (snd rg)) (combine (seq 0 (List.length batch)) got)
      (* the observed schedule is a run of the model: every traced step is enabled, and it ends with the same answers *)
      && (fix replay (st : state) (acts : list action) : bool :=
            match acts with
            | [] => forallb (fun rg => match answered st (fst rg) with Some a => answer_eqb a (snd rg) | None => false end)
                            (combine (seq 0 (List.length batch)) got)
            | a :: rest => match step reqs inst_of F workers st a with Some st' => replay st' rest | None => false end
            end) init trace
  end.
