(* C06 - implementation model: the denotation with the join the alchemy parser emits (flags generated from
   forml/provider/feed/reader/alchemy.py generate_join on every run) and the correspondence cases. *)
Require Import List Bool ZArith.
From FV Require Import Model.Dsl Model.DslSem Model.C06 Generated.C06Join.
Import ListNotations.

Definition impl_join (k : jkind) (c : option feature) (l r : list env) : list env := sql_join (flags k) c l r.
Definition den_impl : db -> source -> list env := den_gen impl_join.
Definition result_impl (d : db) (s : source) : list (list value) := map vals (den_impl d s).

(* ============================================ correspondence cases ============================================= *)
Fixpoint rows_eqb (a b : list (list value)) : bool :=
  match a, b with [], [] => true | x :: a', y :: b' => values_eqb x y && rows_eqb a' b' | _, _ => false end.
Fixpoint remove_row (x : list value) (l : list (list value)) : option (list (list value)) :=
  match l with
  | [] => None
  | y :: r => if values_eqb x y then Some r else match remove_row x r with Some r' => Some (y :: r') | None => None end
  end.
Fixpoint bag_eqb (a b : list (list value)) : bool :=
  match a with
  | [] => match b with [] => true | _ => false end
  | x :: a' => match remove_row x b with Some b' => bag_eqb a' b' | None => false end
  end.

Inductive case :=
  (* statement x storage content -> rows returned by the engine for the real parser output (exact sequence when the
     statement orders totally, a bag otherwise) *)
  | CRead (d : db) (s : source) (exact : bool) (rows : list (list value)).

Definition check_case (c : case) : bool :=
  match c with
  | CRead d s exact rows => if exact then rows_eqb (result_impl d s) rows else bag_eqb (result_impl d s) rows
  end.
