(* C06, part 3 - the push-down automaton of forml/io/dsl/parser.py Visitor next to the direct recursive translation.

   Target code is a term algebra mirroring the generate_* calls. The automaton state is what Container keeps: the current
   context (symbol stack, origins) and the stack of suspended contexts (`with self:` in visit_query). Not modelled: the
   identity of alias objects (handles are identified by the reference name), the generate_feature cache and the reference
   memo (they change which object is returned, not the term), the push-down hints (C14) and explicit source / feature
   override mappings (C09). *)
Require Import List Bool ZArith.
From FV Require Import Model.Dsl.
Import ListNotations.

Inductive okey := OT (t : nat) | OR (r : nat).                   (* origin: a table / a reference *)
Inductive handle := HTable (t : nat) | HAlias (r : nat).         (* what context.origins maps an origin to *)
Definition okey_eqb (a b : okey) : bool :=
  match a, b with OT x, OT y | OR x, OR y => Nat.eqb x y | _, _ => false end.
Definition origins := list (okey * handle).
Fixpoint lookup (k : okey) (o : origins) : option handle :=
  match o with [] => None | (k', h) :: r => if okey_eqb k k' then Some h else lookup k r end.

Inductive tfeat :=
  | TColumn (h : handle) (c : nat)              (* generate_element(origins[origin], name) *)
  | TLit (v : lit)
  | TAliasF (f : tfeat) (n : nat)
  | TBin (o : binop) (a b : tfeat)              (* generate_expression(cls, (a, b)) *)
  | TNot (a : tfeat)
  | TAgg (fn : aggfn) (a : tfeat).
Inductive tsrc :=
  | TTable (t : nat)
  | TRef (s : tsrc) (r : nat)
  | TJoin (l r : tsrc) (c : option tfeat) (k : jkind)
  | TSet (l r : tsrc) (k : nat)
  | TQuery (s : tsrc) (feats : list tfeat) (w : option tfeat) (g : list tfeat) (h : option tfeat)
           (o : list (tfeat * bool)) (rows : option (nat * nat)).

(* ---------------------------------------------- direct translation ---------------------------------------------- *)
Fixpoint tr_feat (o : origins) (f : feature) : option tfeat :=
  match f with
  | FCol t c _ => match lookup (OT t) o with Some h => Some (TColumn h c) | None => None end
  | FElem r c _ => match lookup (OR r) o with Some h => Some (TColumn h c) | None => None end
  | FLit v => Some (TLit v)
  | FAlias g n => match tr_feat o g with Some x => Some (TAliasF x n) | None => None end
  | FBin op a b =>
      match tr_feat o a with
      | Some x => match tr_feat o b with Some y => Some (TBin op x y) | None => None end
      | None => None
      end
  | FNot a => match tr_feat o a with Some x => Some (TNot x) | None => None end
  | FAgg fn a => match tr_feat o a with Some x => Some (TAgg fn x) | None => None end
  end.

Fixpoint tr_feats (o : origins) (fs : list feature) : option (list tfeat) :=
  match fs with
  | [] => Some []
  | f :: r => match tr_feat o f with
              | Some x => match tr_feats o r with Some xs => Some (x :: xs) | None => None end
              | None => None
              end
  end.
Definition tr_opt (o : origins) (p : option feature) : option (option tfeat) :=
  match p with None => Some None | Some f => match tr_feat o f with Some x => Some (Some x) | None => None end end.
Fixpoint tr_ord (o : origins) (l : list (feature * bool)) : option (list (tfeat * bool)) :=
  match l with
  | [] => Some []
  | (f, d) :: r => match tr_feat o f with
                   | Some x => match tr_ord o r with Some xs => Some ((x, d) :: xs) | None => None end
                   | None => None
                   end
  end.

(* Source.features of the DSL: what a query without explicit selection projects *)
Definition out_name (i : nat) (f : feature) : nat :=
  match f with FCol _ c _ | FElem _ c _ => c | FAlias _ n => n | _ => 1000 + i end.
Fixpoint mapi {A B : Type} (f : nat -> A -> B) (i : nat) (l : list A) : list B :=
  match l with [] => [] | x :: r => f i x :: mapi f (S i) r end.
Fixpoint src_features (s : source) : list feature :=
  match s with
  | STable t cols => map (fun ck => FCol t (fst ck) (snd ck)) cols
  | SJoin _ l r _ => src_features l ++ src_features r
  | SRef s' r => mapi (fun i f => FElem r (out_name i f) KInt) 0 (src_features s')
  | SQuery s' sel _ _ _ _ _ => match sel with [] => src_features s' | _ => sel end
  | SSet _ l _ => src_features l
  end.

Fixpoint tr_src (o : origins) (s : source) : option (tsrc * origins) :=
  match s with
  | STable t _ => Some (TTable t, (OT t, HTable t) :: o)
  | SRef s' r => match tr_src o s' with Some (i, o') => Some (TRef i r, (OR r, HAlias r) :: o') | None => None end
  | SJoin k l r c =>
      match tr_src o l with
      | Some (tl, o1) =>
          match tr_src o1 r with
          | Some (tr, o2) => match tr_opt o2 c with Some c' => Some (TJoin tl tr c' k, o2) | None => None end
          | None => None
          end
      | None => None
      end
  | SSet k l r =>
      match tr_src o l with
      | Some (tl, o1) => match tr_src o1 r with Some (tr, o2) => Some (TSet tl tr k, o2) | None => None end
      | None => None
      end
  | SQuery s' sel pre grp post ord rows =>
      (* a fresh context: origins registered underneath are invisible outside, outer origins invisible inside *)
      match tr_src [] s' with
      | Some (ts, oi) =>
          match tr_feats oi (match sel with [] => src_features s' | _ => sel end), tr_opt oi pre, tr_feats oi grp,
                tr_opt oi post, tr_ord oi ord with
          | Some fs, Some w, Some g, Some h, Some od => Some (TQuery ts fs w g h od rows, o)
          | _, _, _, _, _ => None
          end
      | None => None
      end
  end.

(* --------------------------------------------- push-down automaton ---------------------------------------------- *)
Inductive sym := SF (f : tfeat) | SS (s : tsrc).
Record ctx := { symbols : list sym; orig : origins }.
Record pstate := { cur : ctx; suspended : list ctx }.

(* Feature visitor: post-order, operands pushed left to right, popped right to left *)
Fixpoint visit_feat (o : origins) (f : feature) (st : list sym) : option (list sym) :=
  match f with
  | FCol t c _ => match lookup (OT t) o with Some h => Some (SF (TColumn h c) :: st) | None => None end
  | FElem r c _ => match lookup (OR r) o with Some h => Some (SF (TColumn h c) :: st) | None => None end
  | FLit v => Some (SF (TLit v) :: st)
  | FAlias g n => match visit_feat o g st with Some (SF x :: st') => Some (SF (TAliasF x n) :: st') | _ => None end
  | FBin op a b =>
      match visit_feat o a st with
      | Some st1 => match visit_feat o b st1 with
                    | Some (SF y :: SF x :: st2) => Some (SF (TBin op x y) :: st2)
                    | _ => None
                    end
      | None => None
      end
  | FNot a => match visit_feat o a st with Some (SF x :: st') => Some (SF (TNot x) :: st') | _ => None end
  | FAgg fn a => match visit_feat o a st with Some (SF x :: st') => Some (SF (TAgg fn x) :: st') | _ => None end
  end.

(* generate_feature: accept, then pop the result off the current context *)
Definition gen_feat (o : origins) (f : feature) (st : list sym) : option (tfeat * list sym) :=
  match visit_feat o f st with Some (SF x :: st') => Some (x, st') | _ => None end.
Fixpoint gen_feats (o : origins) (fs : list feature) (st : list sym) : option (list tfeat * list sym) :=
  match fs with
  | [] => Some ([], st)
  | f :: r => match gen_feat o f st with
              | Some (x, st1) => match gen_feats o r st1 with Some (xs, st2) => Some (x :: xs, st2) | None => None end
              | None => None
              end
  end.
Definition gen_opt (o : origins) (p : option feature) (st : list sym) : option (option tfeat * list sym) :=
  match p with
  | None => Some (None, st)
  | Some f => match gen_feat o f st with Some (x, st') => Some (Some x, st') | None => None end
  end.
Fixpoint gen_ord (o : origins) (l : list (feature * bool)) (st : list sym) : option (list (tfeat * bool) * list sym) :=
  match l with
  | [] => Some ([], st)
  | (f, d) :: r => match gen_feat o f st with
                   | Some (x, st1) => match gen_ord o r st1 with Some (xs, st2) => Some ((x, d) :: xs, st2) | None => None end
                   | None => None
                   end
  end.

Definition push (x : sym) (p : pstate) : pstate :=
  {| cur := {| symbols := x :: symbols (cur p); orig := orig (cur p) |}; suspended := suspended p |}.
Definition pop_src (p : pstate) : option (tsrc * pstate) :=
  match symbols (cur p) with
  | SS s :: r => Some (s, {| cur := {| symbols := r; orig := orig (cur p) |}; suspended := suspended p |})
  | _ => None
  end.
Definition register (k : okey) (h : handle) (p : pstate) : pstate :=
  {| cur := {| symbols := symbols (cur p); orig := (k, h) :: orig (cur p) |}; suspended := suspended p |}.
Definition with_symbols (st : list sym) (p : pstate) : pstate :=
  {| cur := {| symbols := st; orig := orig (cur p) |}; suspended := suspended p |}.

Fixpoint visit_src (s : source) (p : pstate) : option pstate :=
  match s with
  | STable t _ => Some (push (SS (TTable t)) (register (OT t) (HTable t) p))
  | SRef s' r =>
      match visit_src s' p with
      | Some p1 => match pop_src p1 with
                   | Some (i, p2) => Some (push (SS (TRef i r)) (register (OR r) (HAlias r) p2))
                   | None => None
                   end
      | None => None
      end
  | SJoin k l r c =>
      match visit_src l p with
      | Some p1 =>
          match visit_src r p1 with
          | Some p2 =>
              match pop_src p2 with
              | Some (rgt, p3) =>
                  match pop_src p3 with
                  | Some (lft, p4) =>
                      match gen_opt (orig (cur p4)) c (symbols (cur p4)) with
                      | Some (c', st) => Some (push (SS (TJoin lft rgt c' k)) (with_symbols st p4))
                      | None => None
                      end
                  | None => None
                  end
              | None => None
              end
          | None => None
          end
      | None => None
      end
  | SSet k l r =>
      match visit_src l p with
      | Some p1 =>
          match visit_src r p1 with
          | Some p2 =>
              match pop_src p2 with
              | Some (rgt, p3) =>
                  match pop_src p3 with
                  | Some (lft, p4) => Some (push (SS (TSet lft rgt k)) p4)
                  | None => None
                  end
              | None => None
              end
          | None => None
          end
      | None => None
      end
  | SQuery s' sel pre grp post ord rows =>
      (* __enter__: suspend the current context, start an empty one *)
      let inner := {| cur := {| symbols := []; orig := [] |}; suspended := cur p :: suspended p |} in
      match visit_src s' inner with
      | Some p1 =>
          let o := orig (cur p1) in
          match gen_feats o (match sel with [] => src_features s' | _ => sel end) (symbols (cur p1)) with
          | Some (fs, st1) =>
              match gen_opt o pre st1 with
              | Some (w, st2) =>
                  match gen_feats o grp st2 with
                  | Some (g, st3) =>
                      match gen_opt o post st3 with
                      | Some (h, st4) =>
                          match gen_ord o ord st4 with
                          | Some (od, st5) =>
                              match pop_src (with_symbols st5 p1) with
                              | Some (ts, p2) =>
                                  (* __exit__: the context must be clean, then the suspended one resumes *)
                                  match symbols (cur p2), suspended p2 with
                                  | [], outer :: rest =>
                                      Some (push (SS (TQuery ts fs w g h od rows)) {| cur := outer; suspended := rest |})
                                  | _, _ => None
                                  end
                              | None => None
                              end
                          | None => None
                          end
                      | None => None
                      end
                  | None => None
                  end
              | None => None
              end
          | None => None
          end
      | None => None
      end
  end.

(* Parser.__enter__ ... statement.accept(visitor) ... fetch(): one symbol, nothing else pending *)
Definition parse (s : source) : option tsrc :=
  match visit_src s {| cur := {| symbols := []; orig := [] |}; suspended := [] |} with
  | Some p => match symbols (cur p), suspended p with [SS t], [] => Some t | _, _ => None end
  | None => None
  end.

(* ----------------------------------------- scoping: when parsing cannot fail ------------------------------------ *)
Fixpoint reg (s : source) : list okey :=
  match s with
  | STable t _ => [OT t]
  | SRef s' r => OR r :: reg s'
  | SJoin _ l r _ | SSet _ l r => reg r ++ reg l
  | SQuery _ _ _ _ _ _ _ => []
  end.
Fixpoint key_in (k : okey) (l : list okey) : bool := match l with [] => false | x :: r => okey_eqb k x || key_in k r end.
Fixpoint feat_ok (ks : list okey) (f : feature) : bool :=
  match f with
  | FCol t _ _ => key_in (OT t) ks
  | FElem r _ _ => key_in (OR r) ks
  | FLit _ => true
  | FAlias g _ | FNot g | FAgg _ g => feat_ok ks g
  | FBin _ a b => feat_ok ks a && feat_ok ks b
  end.
Definition opt_ok (ks : list okey) (p : option feature) : bool := match p with Some f => feat_ok ks f | None => true end.
(* every column / element mentioned is in scope where the visitor generates it *)
Fixpoint scoped (ks : list okey) (s : source) : bool :=
  match s with
  | STable _ _ => true
  | SRef s' _ => scoped ks s'
  | SJoin _ l r c => scoped ks l && scoped (reg l ++ ks) r && opt_ok (reg r ++ reg l ++ ks) c
  | SSet _ l r => scoped ks l && scoped (reg l ++ ks) r
  | SQuery s' sel pre grp post ord _ =>
      scoped [] s'
      && forallb (feat_ok (reg s')) (match sel with [] => src_features s' | _ => sel end)
      && opt_ok (reg s') pre && forallb (feat_ok (reg s')) grp && opt_ok (reg s') post
      && forallb (fun fd => feat_ok (reg s') (fst fd)) ord
  end.

(* ------------------------------------------------ correspondence ------------------------------------------------- *)
Definition handle_eqb (a b : handle) : bool :=
  match a, b with HTable x, HTable y | HAlias x, HAlias y => Nat.eqb x y | _, _ => false end.
Fixpoint tfeat_eqb (a b : tfeat) : bool :=
  match a, b with
  | TColumn h c, TColumn h' c' => handle_eqb h h' && Nat.eqb c c'
  | TLit v, TLit w => lit_eqb v w
  | TAliasF f n, TAliasF g m => tfeat_eqb f g && Nat.eqb n m
  | TBin o x y, TBin o' x' y' => binop_eqb o o' && tfeat_eqb x x' && tfeat_eqb y y'
  | TNot x, TNot y => tfeat_eqb x y
  | TAgg f x, TAgg g y => aggfn_eqb f g && tfeat_eqb x y
  | _, _ => false
  end.
Fixpoint list_eqb {A : Type} (eq : A -> A -> bool) (a b : list A) : bool :=
  match a, b with [], [] => true | x :: a', y :: b' => eq x y && list_eqb eq a' b' | _, _ => false end.
Definition opt_eqb {A : Type} (eq : A -> A -> bool) (a b : option A) : bool :=
  match a, b with None, None => true | Some x, Some y => eq x y | _, _ => false end.
Definition jkind_eqb (a b : jkind) : bool :=
  match a, b with JInner, JInner | JLeft, JLeft | JRight, JRight | JFull, JFull | JCross, JCross => true | _, _ => false end.
Fixpoint tsrc_eqb (a b : tsrc) : bool :=
  match a, b with
  | TTable t, TTable t' => Nat.eqb t t'
  | TRef s r, TRef s' r' => tsrc_eqb s s' && Nat.eqb r r'
  | TJoin l r c k, TJoin l' r' c' k' => tsrc_eqb l l' && tsrc_eqb r r' && opt_eqb tfeat_eqb c c' && jkind_eqb k k'
  | TSet l r k, TSet l' r' k' => tsrc_eqb l l' && tsrc_eqb r r' && Nat.eqb k k'
  | TQuery s f w g h o rows, TQuery s' f' w' g' h' o' rows' =>
      tsrc_eqb s s' && list_eqb tfeat_eqb f f' && opt_eqb tfeat_eqb w w' && list_eqb tfeat_eqb g g' && opt_eqb tfeat_eqb h h'
      && list_eqb (fun x y => tfeat_eqb (fst x) (fst y) && Bool.eqb (snd x) (snd y)) o o'
      && opt_eqb (fun x y => Nat.eqb (fst x) (fst y) && Nat.eqb (snd x) (snd y)) rows rows'
  | _, _ => false
  end.

Inductive case :=
  (* statement -> the term a recording parser (generate_* building terms) assembled through the real Visitor; None = the
     real parser raised *)
  | CParse (s : source) (t : option tsrc).
Definition check_case (c : case) : bool :=
  match c with CParse s t => opt_eqb tsrc_eqb (parse s) t end.
