(* C18 - executable model of persisted metadata and keys:
   Tag.dumps / Tag.loads at the document level (forml/io/asset/_directory/level/minor.py; the toml library is
   modelled as "drops None entries, identity otherwise"), Generation.Key, the PEP 440 ordering of Release.Key
   (packaging's comparison key without local segments), Level.Listing and the generation number allocation
   of Release.put. *)
Require Import List Bool ZArith.
Import ListNotations.
Open Scope Z_scope.

(* ---- tag document codec --------------------------------------------------------------------------- *)
(* timestamps, ordinals and scores are opaque scalars (Z codes chosen injectively by the harness) *)
Record tag := Tag { tr_ts : option Z; tr_ord : option Z; tu_ts : option Z; tu_score : option Z; states : list Z }.

(* Tag.__new__: `training or Training()` - a mode without timestamp is falsy and replaced by the empty one *)
Definition norm_mode (ts attr : option Z) : option Z * option Z :=
  match ts with Some _ => (ts, attr) | None => (None, None) end.

Definition mk_tag (trts trord tuts tuscore : option Z) (sts : list Z) : tag :=
  let '(a, b) := norm_mode trts trord in
  let '(c, d) := norm_mode tuts tuscore in
  Tag a b c d sts.

(* the TOML document: a key is present iff its value is not None *)
Record doc := Doc { d_tr_ts : option Z; d_tr_ord : option Z; d_tu_ts : option Z; d_tu_score : option Z; d_states : list Z }.

Definition dumps_doc (t : tag) : doc := Doc (tr_ts t) (tr_ord t) (tu_ts t) (tu_score t) (states t).

(* Tag.loads: every entry is looked up with .get *)
Definition loads_doc (d : doc) : tag := mk_tag (d_tr_ts d) (d_tr_ord d) (d_tu_ts d) (d_tu_score d) (d_states d).

(* ---- generation keys ------------------------------------------------------------------------------- *)
Definition gen_key (z : Z) : option Z := if 1 <=? z then Some z else None.
Definition gen_next (k : Z) : Z := k + 1.

(* Release.put: generation = last.next, or 1 for an empty listing *)
Definition zmax (l : list Z) : option Z :=
  match l with [] => None | x :: r => Some (fold_left Z.max r x) end.
Definition next_generation (existing : list Z) : Z :=
  match zmax existing with Some m => gen_next m | None => 1 end.

(* ---- release keys: PEP 440 order --------------------------------------------------------------------- *)
(* parsed version: epoch, release numbers, pre (rank a=0 b=1 rc=2, n), post n, dev n *)
Record version := Version { epoch : Z; release : list Z; pre : option (Z * Z); post : option Z; dev : option Z }.

Fixpoint strip_zeros_rev (l : list Z) : list Z :=
  match l with 0 :: r => strip_zeros_rev r | _ => l end.
Definition trim (l : list Z) : list Z := rev (strip_zeros_rev (rev l)).

Definition suffix (v : version) : list Z :=
  let '(pre_rank, pre_n) :=
    match pre v, post v, dev v with
    | None, None, Some _ => (-1, 0)
    | None, _, _ => (3, 0)
    | Some (r, n), _, _ => (r, n)
    end in
  [pre_rank; pre_n; match post v with None => 0 | Some _ => 1 end; match post v with None => 0 | Some n => n end;
   match dev v with None => 1 | Some _ => 0 end; match dev v with None => 0 | Some n => n end].

(* lexicographic comparison of integer tuples: a proper prefix is smaller *)
Fixpoint lex (a b : list Z) : comparison :=
  match a, b with
  | [], [] => Eq
  | [], _ :: _ => Lt
  | _ :: _, [] => Gt
  | x :: a', y :: b' => match x ?= y with Eq => lex a' b' | c => c end
  end.

Definition vkey (v : version) : list Z * list Z * list Z := ([epoch v], trim (release v), suffix v).

Definition vcmp (a b : version) : comparison :=
  match epoch a ?= epoch b with
  | Eq => match lex (trim (release a)) (trim (release b)) with
          | Eq => lex (suffix a) (suffix b)
          | c => c
          end
  | c => c
  end.

(* ---- listings: sorted(set(items)), last ------------------------------------------------------------------ *)
Section Listing.
  Variable A : Type.
  Variable cmp : A -> A -> comparison.

  Fixpoint linsert (x : A) (l : list A) : list A :=
    match l with
    | [] => [x]
    | y :: r => match cmp x y with Lt => x :: l | Eq => l | Gt => y :: linsert x r end
    end.
  Definition listing (l : list A) : list A := fold_right linsert [] l.
  Definition last_key (l : list A) : option A := match rev (listing l) with [] => None | x :: _ => Some x end.
End Listing.
Arguments linsert {A}. Arguments listing {A}. Arguments last_key {A}.

(* ---- correspondence cases -------------------------------------------------------------------------------- *)
Definition oz_eqb (a b : option Z) : bool :=
  match a, b with None, None => true | Some x, Some y => x =? y | _, _ => false end.
Fixpoint zs_eqb (a b : list Z) : bool :=
  match a, b with [], [] => true | x :: a', y :: b' => (x =? y) && zs_eqb a' b' | _, _ => false end.
Definition tag_eqb (a b : tag) : bool :=
  oz_eqb (tr_ts a) (tr_ts b) && oz_eqb (tr_ord a) (tr_ord b) && oz_eqb (tu_ts a) (tu_ts b)
  && oz_eqb (tu_score a) (tu_score b) && zs_eqb (states a) (states b).
Definition cmp_eqb (a b : comparison) : bool :=
  match a, b with Eq, Eq | Lt, Lt | Gt, Gt => true | _, _ => false end.

Inductive case :=
  (* constructor arguments of the tag; the tag read back from its own bytes *)
  | CTag (trts trord tuts tuscore : option Z) (sts : list Z) (obs : tag)
  | CGenKey (z : Z) (obs : option Z) (next : option Z)
  | CVersions (a b : version) (obs : comparison)
  | CGenListing (keys : list Z) (obs : list Z) (last : option Z)
  | CRelListing (keys : list version) (obs_ranks : list nat)
  | CNextGeneration (existing : list Z) (obs : Z).

(* index (in the input list) of each listed release, in listing order *)
Definition rank_of (keys : list version) (v : version) : nat :=
  match find (fun iv => cmp_eqb (vcmp (snd iv) v) Eq) (combine (seq 0 (List.length keys)) keys) with
  | Some (i, _) => i | None => 0%nat end.

Fixpoint nats_eqb (a b : list nat) : bool :=
  match a, b with [], [] => true | x :: a', y :: b' => Nat.eqb x y && nats_eqb a' b' | _, _ => false end.

Definition check_case (c : case) : bool :=
  match c with
  | CTag a b c' d s obs => tag_eqb (loads_doc (dumps_doc (mk_tag a b c' d s))) obs && tag_eqb (mk_tag a b c' d s) obs
  | CGenKey z obs next =>
      oz_eqb (gen_key z) obs && oz_eqb (match gen_key z with Some k => Some (gen_next k) | None => None end) next
  | CVersions a b obs => cmp_eqb (vcmp a b) obs
  | CGenListing keys obs last => zs_eqb (listing Z.compare keys) obs && oz_eqb (last_key Z.compare keys) last
  | CRelListing keys obs => nats_eqb (map (rank_of keys) (listing vcmp keys)) obs
  | CNextGeneration ex obs => next_generation ex =? obs
  end.
