(* C01 - reference denotation of a task-graph segment (what executing the compiled table must yield).
   The segment is given as its nodes in a dependency order (publishers, and the trained member of a group,
   before their consumers). The compiler's own algorithm (Table.add / Linkage / __iter__) is NOT modelled:
   its output is executed by an independent interpreter and compared with this denotation. *)
Require Import List Bool ZArith.
From FV Require Import Lib.Sym.
Import ListNotations.

Inductive kind :=
  | KApply (inputs : list (nat * nat))                (* per input port: (publisher node, output port) *)
  | KTrain (train label : nat * nat).

Record node := Node { nname : nat; nhp : Z; ngid : nat; nstateful : bool; nszout : nat; nkind : kind }.

(* persistent assets: group ids in list order with the previously stored state (TNone = none) *)
Definition assets := option (list (nat * term)).

Fixpoint lookup_gid (g : nat) (l : list (nat * term)) : option term :=
  match l with [] => None | (g', t) :: r => if Nat.eqb g g' then Some t else lookup_gid g r end.

Definition previous (a : assets) (g : nat) : option term :=
  match a with None => None | Some l => lookup_gid g l end.

Record env := Env {
  outputs : list (list term);          (* per evaluated node: its output port values *)
  trained : list (nat * term)          (* group id -> state produced in this run *)
}.

Definition value (e : env) (src : nat * nat) : term := nth (snd src) (nth (fst src) (outputs e) []) TNone.

Definition eval_node (a : assets) (e : env) (n : node) : env :=
  match nkind n with
  | KTrain tr lb =>
      let prev := match previous a (ngid n) with Some t => t | None => TNone end in
      let st := TState (nname n) (nhp n) prev (value e tr) (value e lb) in
      Env (outputs e ++ [[st]]) ((ngid n, st) :: trained e)
  | KApply inputs =>
      let st :=
        if nstateful n then
          match lookup_gid (ngid n) (trained e) with
          | Some s => s                                         (* state of the sibling trained in this run *)
          | None => match previous a (ngid n) with Some t => t | None => TNone end
          end
        else TNone in
      let app := TApp (nname n) (nhp n) st (map (value e) inputs) in
      let outs := match nszout n with 1 => [app] | k => map (fun i => TProj i app) (seq 0 k) end in
      Env (outputs e ++ [outs]) (trained e)
  end.

Definition geval (a : assets) (nodes : list node) : env := fold_left (eval_node a) nodes (Env [] []).

(* committed states: one per persistent group, at its list position (train mode only) *)
Definition committed (a : assets) (e : env) : option (list term) :=
  match a, trained e with
  | Some ((_ :: _) as l), _ :: _ => Some (map (fun gt => match lookup_gid (fst gt) (trained e) with Some s => s | None => TNone end) l)
  | _, _ => None
  end.

(* loaders: persistent groups present in the segment *)
Definition loads (a : assets) (nodes : list node) : list nat :=
  match a with
  | None => []
  | Some l => filter (fun i => existsb (fun n => nstateful n && Nat.eqb (ngid n) (fst (nth i l (0, TNone)))) nodes)
                     (seq 0 (List.length l))
  end.

(* ---- correspondence cases -------------------------------------------------------------------------------- *)
Definition oterms_eqb (a b : option (list term)) : bool :=
  match a, b with None, None => true | Some x, Some y => terms_eqb x y | _, _ => false end.
Fixpoint nats_eqb (a b : list nat) : bool :=
  match a, b with [], [] => true | x :: a', y :: b' => Nat.eqb x y && nats_eqb a' b' | _, _ => false end.

Inductive case := CSegment (nodes : list node) (a : assets) (tail : nat)
                           (sink : term) (commit : option (list term)) (loaded : list nat).

Definition check_case (c : case) : bool :=
  match c with
  | CSegment nodes a tail sink commit loaded =>
      let e := geval a nodes in
      term_eqb (value e (tail, 0)) sink && oterms_eqb (committed a e) commit && nats_eqb (loads a nodes) loaded
  end.
