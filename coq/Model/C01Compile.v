(* C01 - executable model of the compiler itself: forml/flow/_code/compiler.py Table.add / Linkage.insert /
   Linkage.update / Linkage.prepend / Linkage.leaves / Index.set / Index.reset / Table.__iter__ (alias merge via
   itertools.groupby, stub-getter pruning), and of the instruction semantics of target/user.py (Functor, Apply, Train,
   SetState preset) and target/system.py (Loader, Dumper, Getter, Committer) over free terms.

   Keys model uuids: node uid, group gid, and uuid4() values drawn from a counter. Python dicts are insertion-ordered
   association lists (Index.reset deletes and re-inserts at the end). An assertion / KeyError / AssemblyError of the
   real code is `None`. The nodes are given in dependency order (as for the denotation of Model/C01.v); the order in
   which Traversal.each hands them to Table.add is the separate argument `visit`. *)
Require Import List Bool ZArith Arith.
From FV Require Import Lib.Sym Model.C01.
Import ListNotations.

Inductive key := KU (i : nat) | KG (g : nat) | KF (n : nat).
Definition key_eqb (a b : key) : bool :=
  match a, b with KU x, KU y | KG x, KG y | KF x, KF y => Nat.eqb x y | _, _ => false end.

Inductive op :=
  | OFunctor (node : nat) (train preset : bool)     (* user.Functor(builder of node, Apply|Train, SetState preset?) *)
  | OLoader (g : nat)
  | ODumper
  | OCommitter
  | OGetter (idx : nat).

Record instr := Instr { iid : nat; iop : op }.        (* iid = object identity *)

Record tbl := Tbl {
  index : list (key * instr);                         (* Index._instructions, insertion-ordered *)
  absl : list (key * list (option key));              (* Linkage._absolute *)
  pref : list (key * list key);                       (* Linkage._prefixed *)
  committer : option key;
  next : nat                                          (* uuid4 / object allocation counter *)
}.

Definition empty : tbl := Tbl [] [] [] None 0.

Fixpoint assoc {A} (k : key) (l : list (key * A)) : option A :=
  match l with [] => None | (k', v) :: r => if key_eqb k k' then Some v else assoc k r end.
Fixpoint assoc_set {A} (k : key) (v : A) (l : list (key * A)) : list (key * A) :=
  match l with
  | [] => [(k, v)]
  | (k', v') :: r => if key_eqb k k' then (k, v) :: r else (k', v') :: assoc_set k v r
  end.
Fixpoint assoc_del {A} (k : key) (l : list (key * A)) : list (key * A) :=
  match l with [] => [] | (k', v) :: r => if key_eqb k k' then r else (k', v) :: assoc_del k r end.

Definition bind {A B} (x : option A) (f : A -> option B) : option B := match x with Some a => f a | None => None end.
Notation "x <- e ;; f" := (bind e (fun x => f)) (at level 61, e at next level, right associativity).

(* Index.set with a given key: 'Instruction collision' assertion *)
Definition index_set (t : tbl) (i : instr) (k : key) : option tbl :=
  match assoc k (index t) with
  | Some _ => None
  | None => Some (Tbl (index t ++ [(k, i)]) (absl t) (pref t) (committer t) (next t))
  end.

(* a new instruction object *)
Definition alloc (t : tbl) (o : op) : tbl * instr :=
  (Tbl (index t) (absl t) (pref t) (committer t) (S (next t)), Instr (next t) o).
(* Index.set without key: uuid4() *)
Definition index_fresh (t : tbl) (i : instr) : option (tbl * key) :=
  let k := KF (next t) in
  t' <- index_set (Tbl (index t) (absl t) (pref t) (committer t) (S (next t))) i k ;; Some (t', k).

(* Index.reset(orig) *)
Definition index_reset (t : tbl) (orig : key) : option (tbl * key) :=
  i <- assoc orig (index t) ;;
  index_fresh (Tbl (assoc_del orig (index t)) (absl t) (pref t) (committer t) (next t)) i.

Fixpoint set_nth {A} (n : nat) (v : A) (l : list A) : list A :=
  match n, l with
  | _, [] => []
  | 0, _ :: r => v :: r
  | S m, x :: r => x :: set_nth m v r
  end.

(* Linkage.insert *)
Definition insert (t : tbl) (ins arg : key) (idx : option nat) : option tbl :=
  let args := match assoc ins (absl t) with Some l => l | None => [] end in
  let argcnt := List.length args in
  i <- match idx with
       | None => if Nat.leb argcnt 1 then Some 0 else None            (* 'Index required for multiarg' *)
       | Some i => Some i
       end ;;
  let args' := if Nat.leb argcnt i then args ++ repeat None (i - argcnt + 1) else args in
  match nth i args' None with
  | Some _ => None                                                      (* 'Link collision' *)
  | None => Some (Tbl (index t) (assoc_set ins (set_nth i (Some arg) args') (absl t)) (pref t) (committer t) (next t))
  end.

(* Linkage.prepend *)
Definition prepend (t : tbl) (ins arg : key) : tbl :=
  let l := match assoc ins (pref t) with Some l => l | None => [] end in
  Tbl (index t) (absl t) (assoc_set ins (l ++ [arg]) (pref t)) (committer t) (next t).

(* ---- the graph as the compiler sees it ---------------------------------------------------------------- *)
Definition is_train (n : node) : bool := match nkind n with KTrain _ _ => true | _ => false end.

(* Worker.derived: stateful with another trained member in its group *)
Definition derived (nodes : list node) (i : nat) (n : node) : bool :=
  nstateful n
  && existsb (fun jn => negb (Nat.eqb (fst jn) i) && Nat.eqb (ngid (snd jn)) (ngid n) && is_train (snd jn))
             (combine (seq 0 (List.length nodes)) nodes).

(* subscriptions of output port p of node i: (subscriber node, subscriber port number); Train = 0, Label = 1 *)
Definition subscribers (nodes : list node) (i p : nat) : list (nat * nat) :=
  flat_map (fun jn =>
    let j := fst jn in
    match nkind (snd jn) with
    | KApply inputs =>
        map (fun qs => (j, fst qs))
            (filter (fun qs => Nat.eqb (fst (snd qs)) i && Nat.eqb (snd (snd qs)) p) (combine (seq 0 (List.length inputs)) inputs))
    | KTrain tr lb =>
        (if Nat.eqb (fst tr) i && Nat.eqb (snd tr) p then [(j, 0)] else [])
        ++ (if Nat.eqb (fst lb) i && Nat.eqb (snd lb) p then [(j, 1)] else [])
    end) (combine (seq 0 (List.length nodes)) nodes).

Fixpoint offset_of (g : nat) (l : list (nat * term)) : option nat :=
  match l with [] => None | (g', _) :: r => if Nat.eqb g g' then Some 0 else option_map S (offset_of g r) end.
Definition persistent (a : assets) (g : nat) : bool :=
  match a with Some l => match offset_of g l with Some _ => true | None => false end | None => false end.
Definition offset (a : assets) (g : nat) : option nat := match a with Some l => offset_of g l | None => None end.

Fixpoint fold_opt {A B} (f : A -> B -> option A) (l : list B) (a : A) : option A :=
  match l with [] => Some a | x :: r => a' <- f a x ;; fold_opt f r a' end.

(* Linkage.update *)
Definition update (nodes : list node) (t : tbl) (i : nat) (n : node) : option tbl :=
  match nszout n with
  | 1 => fold_opt (fun t s => insert t (KU (fst s)) (KU i) (Some (snd s))) (subscribers nodes i 0) t
  | k =>
      fold_opt (fun t p =>
        let '(t1, g) := alloc t (OGetter p) in
        tk <- index_fresh t1 g ;;
        let '(t2, source) := tk in
        t3 <- insert t2 source (KU i) None ;;
        fold_opt (fun t s => insert t (KU (fst s)) source (Some (snd s))) (subscribers nodes i p) t3)
        (seq 0 k) t
  end.

(* Table.add *)
Definition add (a : assets) (nodes : list node) (t : tbl) (i : nat) : option tbl :=
  n <- nth_error nodes i ;;
  match assoc (KU i) (index t) with Some _ => None | None =>                      (* 'Node collision' *)
  let state := KG (ngid n) in
  let pers := nstateful n && persistent a (ngid n) in
  (* loader *)
  t <- (if pers then
          match assoc state (index t) with
          | Some _ => Some t
          | None => let '(t1, l) := alloc t (OLoader (ngid n)) in index_set t1 l state
          end
        else Some t) ;;
  (* dumper / committer / loader re-keying for the trained member *)
  ts <- (if nstateful n && is_train n && pers then
           tc <- match committer t with
                 | Some c => Some (t, c)
                 | None =>
                     let '(t1, ci) := alloc t OCommitter in
                     tk <- index_fresh t1 ci ;;
                     let '(t2, c) := tk in
                     Some (Tbl (index t2) (absl t2) (pref t2) (Some c) (next t2), c)
                 end ;;
           let '(t, c) := tc in
           let '(t1, di) := alloc t ODumper in
           tk <- index_fresh t1 di ;;
           let '(t2, d) := tk in
           t3 <- insert t2 d (KU i) None ;;
           off <- offset a (ngid n) ;;
           t4 <- insert t3 c d (Some off) ;;
           index_reset t4 state
         else Some (t, state)) ;;
  let '(t, state) := ts in
  let preset := nstateful n && (pers || derived nodes i n) in
  let t := if preset then prepend t (KU i) state else t in
  let '(t, f) := alloc t (OFunctor i (nstateful n && is_train n) preset) in
  t <- index_set t f (KU i) ;;
  t <- (if nstateful n && is_train n then index_set t f (KG (ngid n)) else Some t) ;;
  if is_train n then Some t else update nodes t i n
  end.

(* ---- Table.__iter__ ------------------------------------------------------------------------------------ *)
Definition opt_key_in (k : key) (l : list (option key)) : bool :=
  existsb (fun x => match x with Some y => key_eqb k y | None => false end) l.

Definition leaves (t : tbl) : option (list key) :=
  let keys := map fst (absl t) ++ map fst (pref t) in
  let parents := flat_map snd (absl t) ++ flat_map (fun kv => map Some (snd kv)) (pref t) in
  let children := filter (fun k => negb (opt_key_in k parents)) keys in
  match children, keys with
  | [], _ :: _ => None                                                  (* 'Not acyclic' *)
  | _, _ => Some children
  end.

Definition is_getter (i : instr) : bool := match iop i with OGetter _ => true | _ => false end.

(* itertools.groupby over the insertion-ordered keys: consecutive keys holding the same instruction object *)
Fixpoint groupby (l : list (key * instr)) (cur : option (instr * list key)) : list (instr * list key) :=
  match l with
  | [] => match cur with Some (i, ks) => [(i, rev ks)] | None => [] end
  | (k, i) :: r =>
      match cur with
      | Some (j, ks) => if Nat.eqb (iid i) (iid j) then groupby r (Some (j, k :: ks)) else (j, rev ks) :: groupby r (Some (i, [k]))
      | None => groupby r (Some (i, [k]))
      end
  end.

(* Linkage.__getitem__ *)
Definition linkage (t : tbl) (k : key) : list (option key) :=
  map Some (rev (match assoc k (pref t) with Some l => l | None => [] end))
  ++ match assoc k (absl t) with Some l => l | None => [] end.

(* merge / pick with the 'at most one non-null' assertion *)
Fixpoint merge (a b : list (option key)) : option (list (option key)) :=
  match a, b with
  | [], _ => Some b
  | _, [] => Some a
  | x :: a', y :: b' =>
      r <- merge a' b' ;;
      match x, y with
      | Some _, Some _ => None
      | Some _, None => Some (x :: r)
      | None, _ => Some (y :: r)
      end
  end.

Fixpoint traverse {A B} (f : A -> option B) (l : list A) : option (list B) :=
  match l with [] => Some [] | x :: r => y <- f x ;; ys <- traverse f r ;; Some (y :: ys) end.

Definition symbols (t : tbl) : option (list (instr * list instr)) :=
  lv <- leaves t ;;
  stubs0 <- traverse (fun n => assoc n (index t)) lv ;;                   (* KeyError for a leaf outside the index *)
  let stubs := filter is_getter stubs0 in
  traverse (fun g =>
      let '(i, ks) := g in
      ks' <- match map (linkage t) ks with
             | [] => None
             | x :: r => fold_opt merge r x
             end ;;
      args <- traverse (fun a => match a with Some k => assoc k (index t) | None => None end) ks' ;;
      Some (i, args))
    (filter (fun g => negb (existsb (fun s => Nat.eqb (iid s) (iid (fst g))) stubs)) (groupby (index t) None)).

(* flow.compile: the nodes are added in the traversal order *)
Definition compile (a : assets) (nodes : list node) (visit : list nat) : option (list (instr * list instr)) :=
  t <- fold_opt (add a nodes) visit empty ;; symbols t.

(* ---- position-based form of a symbol table (keys and object identities abstracted) -------------------- *)
Definition sym := (op * list nat)%type.

Fixpoint position (id : nat) (l : list (instr * list instr)) : option nat :=
  match l with [] => None | (i, _) :: r => if Nat.eqb (iid i) id then Some 0 else option_map S (position id r) end.

Definition canon (l : list (instr * list instr)) : option (list sym) :=
  traverse (fun s => args <- traverse (fun x => position (iid x) l) (snd s) ;; Some (iop (fst s), args)) l.

(* ---- instruction semantics over free terms ------------------------------------------------------------- *)
Definition exec_op (a : assets) (nodes : list node) (o : op) (vs : list term) : option term :=
  match o with
  | OFunctor i train preset =>
      n <- nth_error nodes i ;;
      sr <- (if preset then match vs with s :: r => Some (s, r) | [] => None end else Some (TNone, vs)) ;;
      let '(st, rest) := sr in
      if train then match rest with [f; l] => Some (TState (nname n) (nhp n) st f l) | _ => None end
      else Some (TApp (nname n) (nhp n) st rest)
  | OLoader g => match vs with [] => Some (match previous a g with Some t => t | None => TNone end) | _ => None end
  | ODumper => match vs with [s] => Some s | _ => None end
  | OCommitter => Some (TTup vs)
  | OGetter p => match vs with [v] => Some (TProj p v) | _ => None end
  end.

Fixpoint eval (fuel : nat) (a : assets) (nodes : list node) (t : list sym) (i : nat) : option term :=
  match fuel with
  | 0 => None
  | S f =>
      s <- nth_error t i ;;
      vs <- traverse (eval f a nodes t) (snd s) ;;
      exec_op a nodes (fst s) vs
  end.

(* ---- translation validation: a symbol table implements the graph --------------------------------------- *)
Definition op_eqb (x y : op) : bool :=
  match x, y with
  | OFunctor i t p, OFunctor j u q => Nat.eqb i j && Bool.eqb t u && Bool.eqb p q
  | OLoader g, OLoader h => Nat.eqb g h
  | ODumper, ODumper | OCommitter, OCommitter => true
  | OGetter p, OGetter q => Nat.eqb p q
  | _, _ => false
  end.

Fixpoint find_pos (f : sym -> bool) (t : list sym) : option nat :=
  match t with [] => None | s :: r => if f s then Some 0 else option_map S (find_pos f r) end.

(* position of the functor symbol of node i *)
Definition pos (t : list sym) (i : nat) : option nat :=
  find_pos (fun s => match fst s with OFunctor j _ _ => Nat.eqb i j | _ => false end) t.

(* index (in dependency order) of the latest trained member of group g among the first `i` nodes *)
Fixpoint trainer (nodes : list node) (i : nat) (g : nat) : option nat :=
  match i with
  | 0 => None
  | S k => match nth_error nodes k with
           | Some n => if Nat.eqb (ngid n) g && is_train n then Some k else trainer nodes k g
           | None => trainer nodes k g
           end
  end.

(* does symbol q deliver output port p of node j *)
Definition delivers (nodes : list node) (t : list sym) (q : nat) (jp : nat * nat) : bool :=
  match nth_error nodes (fst jp), pos t (fst jp), nth_error t q with
  | Some n, Some pj, Some s =>
      negb (is_train n) &&
      match nszout n with
      | 1 => Nat.eqb q pj && Nat.eqb (snd jp) 0
      | k => match s with (OGetter p, [x]) => Nat.eqb p (snd jp) && Nat.eqb x pj && Nat.ltb p k | _ => false end
      end
  | _, _, _ => false
  end.

Fixpoint all2 {A B} (f : A -> B -> bool) (x : list A) (y : list B) : bool :=
  match x, y with [], [] => true | a :: x', b :: y' => f a b && all2 f x' y' | _, _ => false end.

Definition is_loader (t : list sym) (q g : nat) : bool :=
  match nth_error t q with Some (OLoader h, []) => Nat.eqb g h | _ => false end.

(* node i (in dependency order: every publisher and the trained sibling have a smaller index) *)
Definition valid_node (a : assets) (nodes : list node) (t : list sym) (i : nat) (n : node) : bool :=
  match pos t i with
  | None => false
  | Some p =>
      match nth_error t p with
      | Some (OFunctor _ train preset, args) =>
          let ins := match nkind n with KApply inputs => inputs | KTrain tr lb => [tr; lb] end in
          Bool.eqb train (is_train n)
          && forallb (fun jp => Nat.ltb (fst jp) i) ins
          && (if is_train n then nstateful n else true)
          && match nkind n with
             | KApply _ => (* applied: state of the sibling trained in this run, else the stored one, else none *)
                 match (if nstateful n then trainer nodes i (ngid n) else None) with
                 | Some k =>
                     preset
                     && match args, pos t k with
                        | s :: rest, Some pk => Nat.eqb s pk && all2 (delivers nodes t) rest ins
                        | _, _ => false
                        end
                 | None =>
                     if nstateful n && persistent a (ngid n) then
                       preset && match args with s :: rest => is_loader t s (ngid n) && all2 (delivers nodes t) rest ins | [] => false end
                     else negb preset && all2 (delivers nodes t) args ins
                 end
             | KTrain _ _ =>
                 if persistent a (ngid n) then
                      preset && match args with s :: rest => is_loader t s (ngid n) && all2 (delivers nodes t) rest ins | [] => false end
                    else negb preset && all2 (delivers nodes t) args ins
             end
      | _ => false
      end
  end.

Definition validate (a : assets) (nodes : list node) (t : list sym) : bool :=
  forallb (fun jn => valid_node a nodes t (fst jn) (snd jn)) (combine (seq 0 (List.length nodes)) nodes).

(* what node i computes: the applied term (before the per-port split) or the trained state *)
Definition node_term (a : assets) (nodes : list node) (i : nat) : term :=
  match nth_error nodes i with
  | None => TNone
  | Some n =>
      let e := geval a (firstn i nodes) in
      match nkind n with
      | KTrain tr lb => TState (nname n) (nhp n) (match previous a (ngid n) with Some t => t | None => TNone end) (value e tr) (value e lb)
      | KApply inputs =>
          let st := if nstateful n then
                      match lookup_gid (ngid n) (trained e) with
                      | Some s => s
                      | None => match previous a (ngid n) with Some t => t | None => TNone end
                      end
                    else TNone in
          TApp (nname n) (nhp n) st (map (value e) inputs)
      end
  end.

(* the commit: the committer symbol receives one dumper per persistent group, at the group's list position, each
   fed by the trained member of that group *)
Definition valid_commit (a : assets) (nodes : list node) (t : list sym) : bool :=
  match a with
  | None => negb (existsb (fun s => match fst s with OCommitter | ODumper | OLoader _ => true | _ => false end) t)
  | Some l =>
      match find_pos (fun s => match fst s with OCommitter => true | _ => false end) t with
      | None => negb (existsb (fun n => is_train n && persistent a (ngid n)) nodes)
      | Some c =>
          match nth_error t c with
          | Some (_, args) =>
              all2 (fun d gt =>
                      match nth_error t d, trainer nodes (List.length nodes) (fst gt) with
                      | Some (ODumper, [f]), Some k => match pos t k with Some pk => Nat.eqb f pk | None => false end
                      | _, _ => false
                      end) args l
          | None => false
          end
      end
  end.

(* ---- correspondence case ------------------------------------------------------------------------------- *)
Definition sym_eqb (x y : sym) : bool := op_eqb (fst x) (fst y) && nats_eqb (snd x) (snd y).
Fixpoint syms_eqb (x y : list sym) : bool :=
  match x, y with [], [] => true | a :: x', b :: y' => sym_eqb a b && syms_eqb x' y' | _, _ => false end.

Inductive ccase := CTable (nodes : list node) (a : assets) (visit : list nat) (tail : nat)
                          (real : option (list sym)) (sink : term).

Definition check_ccase (c : ccase) : bool :=
  match c with
  | CTable nodes a visit tail real sink =>
      match bind (compile a nodes visit) canon, real with
      | Some m, Some r =>
          syms_eqb m r                                                     (* model compiler = real compiler *)
          && validate a nodes r && valid_commit a nodes r                  (* the real table implements the graph *)
          && match pos r tail with                                         (* and evaluates to what the real run gave *)
             | Some p => match eval (2 * List.length r + 2) a nodes r p with Some v => term_eqb v sink | None => false end
             | None => false
             end
      | None, None => true
      | _, _ => false
      end
  end.

(* both observations of one generated segment: the executed behaviour (Model/C01.v) and the emitted table *)
Inductive fcase := FCase (c : C01.case) (t : ccase).
Definition check_fcase (f : fcase) : bool := match f with FCase c t => C01.check_case c && check_ccase t end.

(* ---- well-formed compiler inputs (the hypothesis of the compiler-correctness theorem) -------------------- *)
Definition ref_ok (nodes : list node) (i : nat) (jp : nat * nat) : bool :=
  Nat.ltb (fst jp) i
  && match nth_error nodes (fst jp) with
     | Some m => negb (is_train m) && Nat.ltb (snd jp) (nszout m)
     | None => false
     end.

Definition node_ok (nodes : list node) (i : nat) (n : node) : bool :=
  let total := trainer nodes (List.length nodes) (ngid n) in
  match nkind n with
  | KApply inputs =>
      forallb (ref_ok nodes i) inputs
      (* the trained member of the group, if any, precedes its applied members in the dependency order *)
      && (if nstateful n then match total, trainer nodes i (ngid n) with
                              | None, _ => true
                              | Some k, Some k' => Nat.eqb k k'
                              | Some _, None => false
                              end
          else true)
  | KTrain tr lb =>
      ref_ok nodes i tr && ref_ok nodes i lb && nstateful n
      (* the only trained member of its group *)
      && match total, trainer nodes i (ngid n) with Some k, None => Nat.eqb k i | _, _ => false end
  end.

Fixpoint nodupb (l : list nat) : bool :=
  match l with [] => true | x :: r => negb (existsb (Nat.eqb x) r) && nodupb r end.

Definition assets_ok (a : assets) (nodes : list node) : bool :=
  match a with
  | None => true
  | Some l =>
      nodupb (map fst l)
      && let has g := match trainer nodes (List.length nodes) g with Some _ => true | None => false end in
         (forallb (fun gt => has (fst gt)) l || forallb (fun gt => negb (has (fst gt))) l)
  end.

Definition wfb (a : assets) (nodes : list node) (visit : list nat) : bool :=
  forallb (fun jn => node_ok nodes (fst jn) (snd jn)) (combine (seq 0 (List.length nodes)) nodes)
  && assets_ok a nodes
  && nodupb visit && forallb (fun i => Nat.ltb i (List.length nodes)) visit
  && Nat.eqb (List.length visit) (List.length nodes).

Definition compile_ok (a : assets) (nodes : list node) (visit : list nat) : bool :=
  match bind (compile a nodes visit) canon with
  | Some t => validate a nodes t && valid_commit a nodes t
  | None => false
  end.

(* the generated segments lie inside the domain of the compiler-correctness theorem (well-formed; the recorded
   traversal is a permutation of the nodes) whenever the real compiler accepted them *)
Definition check_fcase_wf (f : fcase) : bool :=
  check_fcase f
  && match f with
     | FCase _ (CTable nodes a visit _ (Some _) _) => wfb a nodes visit
     | _ => true
     end.
