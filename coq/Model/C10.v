(* C10 - executable model of ordinal windows.
   Mirrors forml/project/_component/__init__.py Source.Extract.Ordinal.where,
   forml/io/_input/extract.py Statement.Prepared.__call__ and forml/runtime/_agent.py Runner.train.
   The per-semantic bound operators come from Generated/C10Once.v (introspected from the live
   Once enum on every run). Ordinals are modelled by Z (every ordinal kind embeds monotonically). *)
Require Import ZArith List Bool String.
From FV Require Import Model.C10Base Generated.C10Once.
Import ListNotations.
Open Scope Z_scope.

Definition cmp_eval (c : cmp) (v b : Z) : bool :=
  match c with
  | CGe => b <=? v
  | CGt => b <? v
  | CLt => v <? b
  | CLe => v <=? b
  | CUnknown => false
  end.

(* Ordinal.where lower upper: conjunction of the supplied sides; a missing bound leaves the side open *)
Definition in_window (s : sem) (lo hi : option Z) (v : Z) : bool :=
  (match lo with None => true | Some l => cmp_eval (once_lower s) v l end)
  && (match hi with None => true | Some h => cmp_eval (once_upper s) v h end).

(* consecutive windows over a bound sequence *)
Fixpoint windows (bs : list Z) : list (Z * Z) :=
  match bs with
  | a :: ((b :: _) as r) => (a, b) :: windows r
  | _ => []
  end.

Definition hits (s : sem) (ws : list (Z * Z)) (v : Z) : nat :=
  List.length (filter (fun w => in_window s (Some (fst w)) (Some (snd w)) v) ws).

Definition delivered (s : sem) (bs : list Z) (v : Z) : nat := hits s (windows bs) v.

(* the same sequence with both ends left open: (-inf,b0) [b0,b1) ... [bn,+inf) *)
Definition owindows (bs : list Z) : list (option Z * option Z) :=
  match bs with
  | [] => [(None, None)]
  | b0 :: _ => (None, Some b0) :: map (fun w => (Some (fst w), Some (snd w))) (windows bs) ++ [(Some (last bs b0), None)]
  end.

Definition odelivered (s : sem) (bs : list Z) (v : Z) : nat :=
  List.length (filter (fun w => in_window s (fst w) (snd w) v) (owindows bs)).

(* Statement.Prepared.__call__ *)
Inductive prepared := Refused | Unfiltered | Filtered (lo hi : option Z).

Definition prepared_call (has_ordinal : bool) (lo hi : option Z) : prepared :=
  if has_ordinal then
    match lo, hi with
    | None, None => Unfiltered
    | _, _ => Filtered lo hi
    end
  else
    match lo, hi with
    | None, None => Unfiltered
    | _, _ => Refused
    end.

(* Runner.train: an absent lower bound continues from the last training ordinal *)
Definition train_lower (lo tag_ordinal : option Z) : option Z :=
  match lo with Some l => Some l | None => tag_ordinal end.

(* str.lower() on ASCII *)
Definition lower_ascii (c : Ascii.ascii) : Ascii.ascii :=
  let n := Ascii.nat_of_ascii c in
  if andb (Nat.leb 65 n) (Nat.leb n 90) then Ascii.ascii_of_nat (n + 32) else c.

Fixpoint lower (s : string) : string :=
  match s with
  | EmptyString => EmptyString
  | String c r => String (lower_ascii c) (lower r)
  end.

Definition alias_lookup (name : string) : option sem :=
  match find (fun p => String.eqb (fst p) (lower name)) aliases with
  | Some p => Some (snd p)
  | None => None
  end.

(* ---- correspondence cases ------------------------------------------------------------------ *)
Definition sem_eqb (a b : sem) : bool :=
  match a, b with Exactly, Exactly | Atmost, Atmost | Atleast, Atleast => true | _, _ => false end.

Definition zlist_eqb (a b : list Z) : bool :=
  (List.length a =? List.length b)%nat && forallb (fun p => fst p =? snd p) (combine a b).

Definition oz_eqb (a b : option Z) : bool :=
  match a, b with None, None => true | Some x, Some y => x =? y | _, _ => false end.

Definition prepared_eqb (a b : prepared) : bool :=
  match a, b with
  | Refused, Refused | Unfiltered, Unfiltered => true
  | Filtered a1 a2, Filtered b1 b2 => oz_eqb a1 b1 && oz_eqb a2 b2
  | _, _ => false
  end.

Inductive case :=
  (* spelling of the semantic, data (sorted), list of windows with the rows the database delivered (sorted) *)
  | CWindows (spelling : option string) (data : list Z) (obs : list ((option Z * option Z) * list Z))
  (* has ordinal?, bounds, observed verdict *)
  | CPrepared (has_ordinal : bool) (lo hi : option Z) (obs : prepared)
  (* Runner.train lower, tag ordinal, observed effective lower bound *)
  | CTrain (lo tag : option Z) (obs : option Z)
  (* spelling accepted as which semantic (None = rejected) *)
  | CAlias (spelling : string) (obs : option sem).

Definition resolve (spelling : option string) : option sem :=
  match spelling with None => Some Exactly | Some s => alias_lookup s end.

Definition check_case (c : case) : bool :=
  match c with
  | CWindows sp data obs =>
      match resolve sp with
      | None => false
      | Some s => forallb (fun wo => zlist_eqb (filter (in_window s (fst (fst wo)) (snd (fst wo))) data) (snd wo)) obs
      end
  | CPrepared ho lo hi obs => prepared_eqb (prepared_call ho lo hi) obs
  | CTrain lo tag obs => oz_eqb (train_lower lo tag) obs
  | CAlias sp obs =>
      match alias_lookup sp, obs with
      | None, None => true
      | Some a, Some b => sem_eqb a b
      | _, _ => false
      end
  end.
