(* Row-level semantics of DSL features (SQL three-valued logic) shared by C14 and C06. *)
Require Import List Bool ZArith.
From FV Require Import Model.Dsl.
Import ListNotations.

Inductive value := VNull | VInt (z : Z) | VStr (s : nat) | VBool (b : bool).

(* an environment assigns a row (column -> value) to each table / reference in scope *)
Definition env := list ((bool * nat) * list (nat * value)).     (* (is_reference, id) -> row *)

Fixpoint row_get (c : nat) (r : list (nat * value)) : value :=
  match r with [] => VNull | (c', v) :: t => if Nat.eqb c c' then v else row_get c t end.
Fixpoint env_get (k : bool * nat) (e : env) : list (nat * value) :=
  match e with
  | [] => []
  | (k', r) :: t => if Bool.eqb (fst k) (fst k') && Nat.eqb (snd k) (snd k') then r else env_get k t
  end.

Definition lit_value (v : lit) : value :=
  match v with LInt z => VInt z | LStr s => VStr s | LBool b => VBool b | LFloat _ => VNull end.

Definition arith (o : binop) (a b : Z) : Z := match o with OAdd => a + b | OSub => a - b | _ => a * b end%Z.

Definition cmpz (o : binop) (a b : Z) : bool :=
  match o with
  | OEq => Z.eqb a b | ONe => negb (Z.eqb a b) | OLt => Z.ltb a b | OLe => Z.leb a b | OGt => Z.ltb b a | _ => Z.leb b a
  end.

(* strings are compared through their codes: the harness numbers the strings of a case in lexicographic order *)
Definition cmp_values (o : binop) (a b : value) : value :=
  match a, b with
  | VInt x, VInt y => VBool (cmpz o x y)
  | VStr x, VStr y => VBool (cmpz o (Z.of_nat x) (Z.of_nat y))
  | VBool x, VBool y => VBool (cmpz o (if x then 1 else 0) (if y then 1 else 0))%Z
  | _, _ => VNull
  end.

Definition and3 (a b : value) : value :=
  match a, b with
  | VBool false, _ | _, VBool false => VBool false
  | VBool true, VBool true => VBool true
  | _, _ => VNull
  end.
Definition or3 (a b : value) : value :=
  match a, b with
  | VBool true, _ | _, VBool true => VBool true
  | VBool false, VBool false => VBool false
  | _, _ => VNull
  end.
Definition not3 (a : value) : value := match a with VBool b => VBool (negb b) | _ => VNull end.

(* aggregates are not evaluated row-wise (they evaluate to NULL here; C06 handles them per group) *)
Fixpoint feval (e : env) (f : feature) : value :=
  match f with
  | FCol t c _ => row_get c (env_get (false, t) e)
  | FElem r c _ => row_get c (env_get (true, r) e)
  | FLit v => lit_value v
  | FAlias g _ => feval e g
  | FBin o a b =>
      let x := feval e a in
      let y := feval e b in
      if is_arith o then match x, y with VInt p, VInt q => VInt (arith o p q) | _, _ => VNull end
      else if is_cmp o then cmp_values o x y
      else match o with OAnd => and3 x y | _ => or3 x y end
  | FNot a => not3 (feval e a)
  | FAgg _ _ => VNull
  end.

Definition holds (e : env) (p : feature) : bool := match feval e p with VBool true => true | _ => false end.
