(* C03 / C04 - denotation of operator expressions built from the decorated (wrap) operators:
   forml/pipeline/wrap/_operator.py Operator.compose, forml/flow/_suite/member.py Compound (>>),
   forml/flow/_suite/assembly.py Trunk.extend, Composition. The three coherent segments are represented by the
   terms they publish: apply features, train features, labels. *)
Require Import List Bool ZArith.
From FV Require Import Lib.Sym.
Import ListNotations.

Record actor := Actor { aname : nat; ahp : Z; astateful : bool }.

(* the train path may reuse the apply actor (mapper), use its own actor, or be absent *)
Inductive trainpath := TNo | TSame | TOwn (a : actor).

Record opspec := OpSpec { oapply : option actor; otrain : trainpath; olabel : option actor }.

Inductive expr := EOp (o : opspec) | ESeq (l r : expr).      (* ESeq l r  =  l >> r; the tree shape is the scoping *)

Record flowst := FlowSt {
  xa : term;                     (* apply-mode features *)
  xt : term;                     (* train-mode features *)
  yl : term;                     (* labels *)
  persisted : list term          (* states of the stateful apply-path actors, in apply-segment order *)
}.

Definition fit (a : actor) (feats labels : term) : term :=
  if astateful a then TState (aname a) (ahp a) TNone feats labels else TNone.

Definition act (a : actor) (st x : term) : term := TApp (aname a) (ahp a) st [x].

Definition den_op (o : opspec) (s : flowst) : flowst :=
  (* label actor first: trained on the incoming train features and the OLD labels, it produces the new labels *)
  let y' := match olabel o with Some l => act l (fit l (xt s) (yl s)) (yl s) | None => yl s end in
  (* every other stateful actor of the operator is trained on the incoming train features and the NEW labels *)
  let sa := match oapply o with Some a => fit a (xt s) y' | None => TNone end in
  let xa' := match oapply o with Some a => act a sa (xa s) | None => xa s end in
  let xt' := match otrain o, oapply o with
             | TSame, Some a => act a sa (xt s)
             | TOwn t, _ => act t (fit t (xt s) y') (xt s)
             | _, _ => xt s
             end in
  let pers := match oapply o with Some a => if astateful a then [sa] else [] | None => [] end in
  FlowSt xa' xt' y' (persisted s ++ pers).

Fixpoint den (e : expr) (s : flowst) : flowst :=
  match e with
  | EOp o => den_op o s
  | ESeq l r => den r (den l s)
  end.

Fixpoint flatten (e : expr) : list opspec :=
  match e with EOp o => [o] | ESeq l r => flatten l ++ flatten r end.

(* the symbolic source used by the correspondence: srcA for apply; slice(srcT) -> (features, labels) for train *)
Definition source (srcA srcT slice : nat) : flowst :=
  let sl := TApp slice 0 TNone [TApp srcT 0 TNone []] in
  FlowSt (TApp srcA 0 TNone []) (TProj 0 sl) (TProj 1 sl) [].

(* ---- correspondence cases ------------------------------------------------------------------------------ *)
Inductive case := CExpr (srcA srcT slice : nat) (e : expr) (train apply : term) (states : list term).

Definition check_case (c : case) : bool :=
  match c with
  | CExpr a t sl e tr ap sts =>
      let s := den e (source a t sl) in
      term_eqb (xt s) tr && term_eqb (xa s) ap && terms_eqb (persisted s) sts
  end.
