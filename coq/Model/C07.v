(* C07 - construction-time validation of statements, mirroring Query.__new__, Join.__new__, Set.__new__
   (forml/io/dsl/_struct/frame.py) and the operand rules of series.py (through Dsl.fkind), plus schema derivation. *)
Require Import List Bool ZArith.
From FV Require Import Model.Dsl.
Import ListNotations.

Fixpoint features_of (s : source) : list feature :=
  match s with
  | STable t cols => map (fun ck => FCol t (fst ck) (snd ck)) cols
  | SRef i r =>
      flat_map (fun f => match fname f, fkind f with Some n, Some k => [FElem r n k] | _, _ => [] end) (features_of i)
  | SJoin _ l r _ => features_of l ++ features_of r
  | SSet _ l r => features_of l ++ features_of r
  | SQuery src sel _ _ _ _ _ => match sel with [] => features_of src | _ => sel end
  end.

(* schema: the fields are collected in a dictionary keyed by the feature name (a positional placeholder for unnamed
   features), so a later feature of the same name replaces the earlier entry in place *)
Fixpoint put_field (n : nat) (k : option kind) (l : list (option nat * option kind)) : option (list (option nat * option kind)) :=
  match l with
  | [] => None
  | (Some m, j) :: r => if Nat.eqb n m then Some ((Some m, k) :: r)
                        else match put_field n k r with Some r' => Some ((Some m, j) :: r') | None => None end
  | x :: r => match put_field n k r with Some r' => Some (x :: r') | None => None end
  end.

Definition add_field (acc : list (option nat * option kind)) (f : feature) : list (option nat * option kind) :=
  match fname f with
  | Some n => match put_field n (fkind f) acc with Some acc' => acc' | None => acc ++ [(Some n, fkind f)] end
  | None => acc ++ [(None, fkind f)]
  end.

Definition schema_of (s : source) : list (option nat * option kind) := fold_left add_field (features_of s) [].

Definition okind_eqb (a b : option kind) : bool :=
  match a, b with Some x, Some y => kind_eqb x y | None, None => true | _, _ => false end.
Definition oname_eqb (a b : option nat) : bool :=
  match a, b with Some x, Some y => Nat.eqb x y | None, None => true | _, _ => false end.
Fixpoint schema_eqb (a b : list (option nat * option kind)) : bool :=
  match a, b with
  | [], [] => true
  | (n, k) :: a', (m, j) :: b' => oname_eqb n m && okind_eqb k j && schema_eqb a' b'
  | _, _ => false
  end.

(* the named rules of the grammar *)
Definition constructible (f : feature) : bool := match fkind f with Some _ => true | None => false end.
Definition is_predicate (f : feature) : bool := match fkind f with Some KBool => true | _ => false end.
Definition uses_only (avail : list feature) (f : feature) : bool := forallb (fun e => fmem e avail) (elements f).
Definition source_elements (s : source) : list feature := flat_map elements (features_of s).

Definition grouping_rule (selected grp : list feature) : bool :=
  match grp with
  | [] => true
  | _ => forallb (fun f => fmem (operable f) (map operable grp) || has_agg f) selected
  end.

Fixpoint ok_source (s : source) : bool :=
  match s with
  | STable _ _ => true
  | SRef i _ => ok_source i
  | SJoin k l r cond =>
      ok_source l && ok_source r
      && match k, cond with
         | JCross, None => true
         | JCross, Some _ => false
         | _, None => false
         | _, Some c =>
             is_predicate c && negb (has_agg c) && uses_only (flat_map elements (features_of l ++ features_of r)) c
         end
  | SSet _ l r => ok_source l && ok_source r && schema_eqb (schema_of l) (schema_of r)
  | SQuery src sel pre grp post ord _ =>
      let avail := source_elements src in
      ok_source src
      && forallb (fun f => constructible f && uses_only avail f) sel
      && match pre with None => true | Some p => is_predicate p && uses_only avail p && negb (has_agg p) end
      && forallb (fun g => constructible g && negb (has_agg g) && uses_only avail g) grp
      && grouping_rule (match sel with [] => features_of src | _ => sel end) grp
      && match post with None => true | Some p => is_predicate p && uses_only avail p end
      && forallb (fun o => constructible (fst o) && uses_only avail (fst o)) ord
  end.

(* ---- correspondence cases --------------------------------------------------------------------------------- *)
Inductive case := CStatement (s : source) (accepted : bool) (schema : list (option nat * option kind)).

Definition check_case (c : case) : bool :=
  match c with
  | CStatement s acc sch =>
      Bool.eqb (ok_source s) acc && (negb acc || schema_eqb (schema_of s) sch)
  end.
