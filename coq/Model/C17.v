(* C17 - executable model of the model-selection strategies (forml/application/_strategy.py).
   ABTest over exact rationals (normalisation, stable descending sort of the slots, eligibility
   count/total < target, first eligible slot is hit); Latest._pick over a registry listing. *)
Require Import List Bool ZArith QArith Qreduction.
Import ListNotations.

(* ---- A/B test over Q --------------------------------------------------------------------------- *)
Fixpoint qsum (l : list Q) : Q := match l with [] => 0 | x :: r => x + qsum r end.

(* ABTest.__init__: targets of the variants (None = omitted) -> normalised targets in variant order *)
Definition normalise (ts : list (option Q)) : list Q :=
  let given := flat_map (fun t => match t with Some q => [q] | None => [] end) ts in
  let missing := (List.length ts - List.length given)%nat in
  let explicit := qsum given in
  let implicit :=
    if Qlt_le_dec explicit 1 then (1 - explicit) / inject_Z (Z.of_nat missing)
    else explicit / inject_Z (Z.of_nat (List.length given)) in
  let full := map (fun t => match t with Some q => q | None => implicit end) ts in
  let combined := qsum full in
  map (fun t => Qred (t / combined)) full.

Record slot := Slot { variant : nat; target : Q; count : nat }.

(* sorted(..., key=target, reverse=True): stable insertion by descending target *)
Fixpoint insert_slot (x : slot) (l : list slot) : list slot :=
  match l with
  | [] => [x]
  | y :: r => if Qlt_le_dec (target x) (target y) then y :: insert_slot x r else x :: l
  end.

Definition init_slots (ts : list (option Q)) : list slot :=
  fold_right insert_slot [] (map (fun it => Slot (fst it) (snd it) 0) (combine (seq 0 (List.length ts)) (normalise ts))).

(* Slot.eligible: count / total < target *)
Definition eligible (total : nat) (s : slot) : bool :=
  if Qlt_le_dec (inject_Z (Z.of_nat (count s)) / inject_Z (Z.of_nat total)) (target s) then true else false.

(* first eligible slot is hit; None = RuntimeError('No eligible slots') *)
Fixpoint hit_first (total : nat) (l : list slot) : option (nat * list slot) :=
  match l with
  | [] => None
  | s :: r =>
      if eligible total s then Some (variant s, Slot (variant s) (target s) (S (count s)) :: r)
      else match hit_first total r with
           | Some (v, r') => Some (v, s :: r')
           | None => None
           end
  end.

Record abstate := AB { slots : list slot; total : nat }.

Definition select (st : abstate) : option (nat * abstate) :=
  let t := S (total st) in
  match hit_first t (slots st) with
  | Some (v, sl) => Some (v, AB sl t)
  | None => None
  end.

(* n consecutive requests: the chosen variant indices (stops at a failure) *)
Fixpoint run (n : nat) (st : abstate) : list nat * abstate :=
  match n with
  | O => ([], st)
  | S m => match select st with
           | Some (v, st') => let '(vs, fin) := run m st' in (v :: vs, fin)
           | None => ([], st)
           end
  end.

Definition abtest (ts : list (option Q)) (n : nat) : list nat := fst (run n (AB (init_slots ts) 0)).

(* ---- Latest._pick ------------------------------------------------------------------------------ *)
(* registry view of one project: releases (any order, keys as Z ranks) with their generation numbers *)
Definition zmax (l : list Z) : option Z :=
  match l with [] => None | x :: r => Some (fold_left Z.max r x) end.

Fixpoint zinsert (x : Z) (l : list Z) : list Z :=
  match l with [] => [x] | y :: r => if (x <? y)%Z then x :: l else if (x =? y)%Z then l else y :: zinsert x r end.
Definition listing (l : list Z) : list Z := fold_right zinsert [] l.   (* sorted(set(items)) *)

Definition gens_of (reg : list (Z * list Z)) (rel : Z) : list Z :=
  flat_map (fun rg => if (fst rg =? rel)%Z then snd rg else []) reg.

(* for release in reversed(project.list()): generation = ....list().last; Empty -> continue *)
Fixpoint pick_from (reg : list (Z * list Z)) (rels_desc : list Z) : option (Z * Z) :=
  match rels_desc with
  | [] => None
  | r :: rest => match zmax (gens_of reg r) with Some g => Some (r, g) | None => pick_from reg rest end
  end.

Definition pick (reg : list (Z * list Z)) (configured : option Z) : option (Z * Z) :=
  match configured with
  | Some r => match zmax (gens_of reg r) with Some g => Some (r, g) | None => None end
  | None => pick_from reg (rev (listing (map fst reg)))
  end.

(* ---- correspondence cases -------------------------------------------------------------------------- *)
Fixpoint natlist_eqb (a b : list nat) : bool :=
  match a, b with [] , [] => true | x :: a', y :: b' => Nat.eqb x y && natlist_eqb a' b' | _, _ => false end.

Definition opair_eqb (a b : option (Z * Z)) : bool :=
  match a, b with
  | None, None => true
  | Some (x, y), Some (u, v) => (x =? u)%Z && (y =? v)%Z
  | _, _ => false
  end.

Inductive case :=
  | CAB (targets : list (option Q)) (n : nat) (obs : list nat)
  | CPick (reg : list (Z * list Z)) (configured : option Z) (obs : option (Z * Z)).

Definition check_case (c : case) : bool :=
  match c with
  | CAB ts n obs => natlist_eqb (abtest ts n) obs
  | CPick reg cfg obs => opair_eqb (pick reg cfg) obs
  end.
