(* C19 - executable model of content negotiation.
   Mirrors forml/io/layout/_codec.py: Encoding.__new__ (kind lower-cased), Encoding.parse (stable sort by
   descending quality, q dropped), Encoding.match (fnmatch on the kind, options subset), get_encoder,
   get_decoder. The codec tables come from Generated/C19Codecs.v (introspected from the live module).
   Header tokenisation (cgi.parse_header, the comma split, whitespace/quote handling) is NOT modelled:
   the correspondence renders header strings from the token lists the model receives. *)
Require Import String Ascii List Bool ZArith.
From FV Require Import Lib.Str Model.C19Base Generated.C19Codecs.
Import ListNotations.

(* ---- fnmatch restricted to the `*` and `?` wildcards (bracket classes are outside the model) ---- *)
Definition star : ascii := "*"%char.
Definition qmark : ascii := "?"%char.

Fixpoint glob (p : list ascii) : list ascii -> bool :=
  match p with
  | [] => fun s => match s with [] => true | _ => false end
  | c :: p' =>
      if ascii_eqb c star then
        (fix skip (s : list ascii) : bool :=
           glob p' s || match s with [] => false | _ :: s' => skip s' end)
      else fun s =>
        match s with
        | [] => false
        | d :: s' => (ascii_eqb c qmark || ascii_eqb c d) && glob p' s'
        end
  end.

Definition has_star (s : string) : bool := existsb (ascii_eqb star) (chars s).

Fixpoint assoc (k : string) (l : list (string * string)) : option string :=
  match l with
  | [] => None
  | (k', v) :: r => if String.eqb k k' then Some v else assoc k r
  end.

Definition opt_str_eqb (a : option string) (b : string) : bool :=
  match a with Some x => String.eqb x b | None => false end.

(* Encoding.match: self = pattern, other = concrete *)
Definition matches (pat other : encoding) : bool :=
  negb (has_star (kind other))
  && glob (chars (kind pat)) (chars (kind other))
  && forallb (fun kv => opt_str_eqb (assoc (fst kv) (options other)) (snd kv)) (options pat).

(* ---- Encoding.parse -------------------------------------------------------------------------- *)
(* one media range as tokenised from the header: kind, parameters (q excluded), quality in 1/1000 *)
Record range := Range { rkind : string; rparams : list (string * string); rq : option Z }.

Definition quality (r : range) : Z := match rq r with Some q => q | None => 1000%Z end.

(* stable insertion sort by descending quality *)
Fixpoint insert (x : range) (l : list range) : list range :=
  match l with
  | [] => [x]
  | y :: r => if (quality x <? quality y)%Z then y :: insert x r else x :: l
  end.

Definition sort_ranges (l : list range) : list range := fold_right insert [] l.

(* cgi.parse_header lower-cases parameter names; Encoding.__new__ lower-cases the kind *)
Definition to_encoding (r : range) : encoding :=
  Enc (lower (rkind r)) (map (fun kv => (lower (fst kv), snd kv)) (rparams r)).

Definition parse (l : list range) : list encoding := map to_encoding (sort_ranges l).

(* ---- codec choice ---------------------------------------------------------------------------------- *)
Fixpoint find_index {A} (f : A -> bool) (l : list A) (n : nat) : option nat :=
  match l with
  | [] => None
  | x :: r => if f x then Some n else find_index f r (S n)
  end.

(* get_encoder over the targets: first pattern (client order) some encoder matches; first such encoder *)
Fixpoint get_encoder_in (table : list encoding) (targets : list encoding) : option nat :=
  match targets with
  | [] => None
  | p :: r =>
      match find_index (matches p) table 0 with
      | Some i => Some i
      | None => get_encoder_in table r
      end
  end.

Definition get_encoder := get_encoder_in ENCODERS.

(* get_decoder(source): first table entry whose (pattern) encoding matches the source *)
Definition get_decoder_in (table : list encoding) (source : encoding) : option nat :=
  find_index (fun pat => matches pat source) table 0.

Definition get_decoder := get_decoder_in DECODERS.

(* ---- correspondence cases ------------------------------------------------------------------------ *)
Definition pair_eqb (a b : string * string) : bool := String.eqb (fst a) (fst b) && String.eqb (snd a) (snd b).

Definition opts_eqb (a b : list (string * string)) : bool :=
  forallb (fun x => existsb (pair_eqb x) b) a && forallb (fun x => existsb (pair_eqb x) a) b.

Definition enc_eqb (a b : encoding) : bool := String.eqb (kind a) (kind b) && opts_eqb (options a) (options b).

Fixpoint encs_eqb (a b : list encoding) : bool :=
  match a, b with
  | [], [] => true
  | x :: a', y :: b' => enc_eqb x y && encs_eqb a' b'
  | _, _ => false
  end.

Definition onat_eqb (a b : option nat) : bool :=
  match a, b with None, None => true | Some x, Some y => Nat.eqb x y | _, _ => false end.

Inductive case :=
  | CParse (ranges : list range) (obs : list encoding)
  | CMatch (pat other : encoding) (obs : bool)
  | CEncoder (targets : list encoding) (obs : option nat)
  | CDecoder (source : encoding) (obs : option nat)
  (* whole path: header ranges -> parse -> get_encoder *)
  | CAccept (ranges : list range) (obs : option nat).

Definition check_case (c : case) : bool :=
  match c with
  | CParse rs obs => encs_eqb (parse rs) obs
  | CMatch p o obs => Bool.eqb (matches p o) obs
  | CEncoder ts obs => onat_eqb (get_encoder ts) obs
  | CDecoder s obs => onat_eqb (get_decoder s) obs
  | CAccept rs obs => onat_eqb (get_encoder (parse rs)) obs
  end.
