(* C15 - executable model of entry/schema alignment (forml/io/_input/_producer.py Reader.__call__,
   _match_entry, _cast), of kind match/cast (forml/io/dsl/_struct/kind.py) on the primitive kinds used,
   and of the tabular payload operations (forml/io/layout/_internal.py Dense / Frame). *)
Require Import String List Bool ZArith.
Import ListNotations.

(* ---- _match_entry ------------------------------------------------------------------------------ *)
Fixpoint zip_longest {A} (a b : list A) : list (option A * option A) :=
  match a with
  | [] => map (fun y => (None, Some y)) b
  | x :: a' =>
      match b with
      | [] => map (fun x => (Some x, None)) a
      | y :: b' => (Some x, Some y) :: zip_longest a' b'
      end
  end.

Definition okey_eqb (a b : option string) : bool :=
  match a, b with None, None => true | Some x, Some y => String.eqb x y | _, _ => false end.

(* dict with insertion by assignment: the newest binding is found first *)
Definition src := list (option string * nat).
Fixpoint src_get (k : option string) (s : src) : option nat :=
  match s with [] => None | (k', v) :: r => if okey_eqb k k' then Some v else src_get k r end.
Definition src_set (k : option string) (v : nat) (s : src) : src := (k, v) :: s.
Definition src_mem (k : option string) (s : src) : bool := match src_get k s with Some _ => true | None => false end.

(* `not supply`: None or the empty string *)
Definition falsy (k : option string) : bool := match k with None => true | Some s => String.eqb s "" end.

(* the zip_longest loop; None = early `return False, None` *)
Fixpoint match_loop (pairs : list (option string * option string)) (index : nat) (source : src) (identical : bool)
  : option (src * bool) :=
  match pairs with
  | [] => Some (source, identical)
  | (demand, supply) :: r =>
      let source' := src_set supply index source in
      if falsy supply && negb (src_mem demand source') then None
      else match_loop r (S index) source' (identical && okey_eqb supply demand)
  end.

Fixpoint collect (q : list string) (source : src) : option (list nat) :=
  match q with
  | [] => Some []
  | c :: r => match src_get (Some c) source, collect r source with
              | Some i, Some is => Some (i :: is)
              | _, _ => None
              end
  end.

(* (complete?, indices) *)
Definition match_entry (q e : list string) : bool * option (list nat) :=
  match match_loop (zip_longest q e) 0 [] true with
  | None => (false, None)
  | Some (_, true) => (true, None)
  | Some (source, false) => match collect q source with Some is => (true, Some is) | None => (false, None) end
  end.

(* ---- kinds and values ----------------------------------------------------------------------------- *)
Inductive kind := KInt | KFloat | KStr | KBool.
(* VStr n stands for the canonical decimal string of n (the only strings the correspondence generates) *)
Inductive value := VInt (z : Z) | VStr (z : Z) | VBool (b : bool).

Definition kind_eqb (a b : kind) : bool :=
  match a, b with KInt, KInt | KFloat, KFloat | KStr, KStr | KBool, KBool => true | _, _ => false end.

(* Primitive.cast: instances of the kind's native type pass through (bool is Integral and Real),
   otherwise the native constructor is applied; None = outside the modelled fragment *)
Definition cast (k : kind) (v : value) : option value :=
  match k, v with
  | KInt, VInt _ | KInt, VBool _ => Some v
  | KInt, VStr n => Some (VInt n)
  | KFloat, VInt _ | KFloat, VBool _ => Some v
  | KFloat, VStr _ => None
  | KStr, VStr _ => Some v
  | KStr, VInt n => Some (VStr n)
  | KStr, VBool _ => None
  | KBool, VBool _ => Some v
  | KBool, VInt n => Some (VBool (negb (Z.eqb n 0)))
  | KBool, VStr _ => None
  end.

(* ---- tabular payload: a matrix as list of rows ------------------------------------------------------ *)
Definition matrix := list (list value).
Definition dflt : value := VInt 0.

Definition ncols (m : matrix) : nat := match m with [] => O | r :: _ => List.length r end.
Definition column (m : matrix) (j : nat) : list value := map (fun r => nth j r dflt) m.
Definition to_rows (m : matrix) : matrix := m.
Definition to_columns_w (w : nat) (m : matrix) : matrix := map (column m) (seq 0 w).
Definition to_columns (m : matrix) : matrix := to_columns_w (ncols m) m.
Definition take_rows (idx : list nat) (m : matrix) : matrix := map (fun i => nth i m []) idx.
Definition take_columns (idx : list nat) (m : matrix) : matrix := map (fun r => map (fun j => nth j r dflt) idx) m.

(* ---- Reader.__call__ with an entry ---------------------------------------------------------------- *)
Definition field := (string * kind)%type.

Fixpoint kind_named (n : string) (fs : list field) : option kind :=
  match fs with [] => None | (n', k) :: r => if String.eqb n n' then Some k else kind_named n r end.

Fixpoint fields_eqb (a b : list field) : bool :=
  match a, b with
  | [], [] => true
  | (n, k) :: a', (n', k') :: b' => String.eqb n n' && kind_eqb k k' && fields_eqb a' b'
  | _, _ => false
  end.

Fixpoint cast_all (k : kind) (c : list value) : option (list value) :=
  match c with
  | [] => Some []
  | v :: r => match cast k v, cast_all k r with Some v', Some r' => Some (v' :: r') | _, _ => None end
  end.

(* _cast after the alignment: per expected field, cast the column unless the entry's field of the same
   name already has a matching kind *)
Fixpoint cast_columns (expected actual : list field) (cols : matrix) : option matrix :=
  match expected, cols with
  | [], _ => Some []
  | (n, k) :: er, c :: cr =>
      match kind_named n actual with
      | None => None
      | Some ak =>
          let c' := if kind_eqb k ak then Some c else cast_all k c in
          match c', cast_columns er actual cr with Some x, Some y => Some (x :: y) | _, _ => None end
      end
  | _ :: _, [] => Some []
  end.

Inductive delivery := Refused | Outside | Delivered (columns : matrix).

Definition deliver (query entry : list field) (data : matrix) : delivery :=
  match match_entry (map fst query) (map fst entry) with
  | (false, _) => Refused
  | (true, idx) =>
      let data' := match idx with Some ((_ :: _) as is) => take_columns is data | _ => data end in
      if fields_eqb entry query then Delivered (to_columns_w (List.length query) data')
      else match cast_columns query entry (to_columns_w (List.length query) data') with
           | Some cols => Delivered cols
           | None => Outside
           end
  end.

(* ---- correspondence cases ----------------------------------------------------------------------------- *)
Definition value_eqb (a b : value) : bool :=
  match a, b with
  | VInt x, VInt y => Z.eqb x y
  | VStr x, VStr y => Z.eqb x y
  | VBool x, VBool y => Bool.eqb x y
  | _, _ => false
  end.

Fixpoint list_eqb {A} (f : A -> A -> bool) (a b : list A) : bool :=
  match a, b with
  | [], [] => true
  | x :: a', y :: b' => f x y && list_eqb f a' b'
  | _, _ => false
  end.

Definition matrix_eqb : matrix -> matrix -> bool := list_eqb (list_eqb value_eqb).

Inductive op := TakeRows (idx : list nat) | TakeCols (idx : list nat).
Definition apply_op (m : matrix) (o : op) : matrix :=
  match o with TakeRows idx => take_rows idx m | TakeCols idx => take_columns idx m end.

Inductive observed := ORefused | ODelivered (columns : matrix).

Inductive case :=
  (* names only: observed (complete, indices) *)
  | CMatch (q e : list string) (complete : bool) (indices : option (list nat))
  (* whole entry path: query fields, entry fields, entry rows, observation *)
  | CDeliver (query entry : list field) (rows : matrix) (obs : observed)
  (* tabular ops on an h x w matrix: final row view and column view *)
  | CMatrix (w : nat) (m : matrix) (ops : list op) (wfinal : nat) (rows cols : matrix).

Definition onatlist_eqb (a b : option (list nat)) : bool :=
  match a, b with None, None => true | Some x, Some y => list_eqb Nat.eqb x y | _, _ => false end.

Definition check_case (c : case) : bool :=
  match c with
  | CMatch q e complete indices =>
      let '(b, i) := match_entry q e in Bool.eqb b complete && onatlist_eqb i indices
  | CDeliver q e rows obs =>
      match deliver q e rows, obs with
      | Refused, ORefused => true
      | Delivered cols, ODelivered cols' => matrix_eqb cols cols'
      | _, _ => false
      end
  | CMatrix w m ops wf rows cols =>
      let r := fold_left apply_op ops m in
      matrix_eqb (to_rows r) rows && matrix_eqb (to_columns_w wf r) cols
  end.
