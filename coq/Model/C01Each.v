(* C01 - the segment traversal that feeds the compiler: forml/flow/_graph/span.py Traversal.each / Traversal.subscribers.
   A depth-first walk from the head over the subscriptions of each visited node (output ports in index order, each port's
   subscriptions in the order they were made), never entering a node twice, following only trained subscribers at the tail. *)
Require Import List Bool ZArith Arith.
From FV Require Import Lib.Sym Model.C01 Model.C01Compile.
Import ListNotations.

(* `conn`: the order in which the nodes made their subscriptions (node k subscribes all its ports at once) *)
Definition subs_port (nodes : list node) (conn : list nat) (i p : nat) : list nat :=
  flat_map (fun k =>
    match nth_error nodes k with
    | Some nd =>
        match nkind nd with
        | KApply ins => map (fun _ => k) (filter (fun ip => Nat.eqb (fst ip) i && Nat.eqb (snd ip) p) ins)
        | KTrain tr lb => (if Nat.eqb (fst tr) i && Nat.eqb (snd tr) p then [k] else [])
                          ++ (if Nat.eqb (fst lb) i && Nat.eqb (snd lb) p then [k] else [])
        end
    | None => []
    end) conn.

Definition subs (nodes : list node) (conn : list nat) (i : nat) : list nat :=
  match nth_error nodes i with
  | Some nd => flat_map (subs_port nodes conn i) (seq 0 (nszout nd))
  | None => []
  end.

Definition trained_node (nodes : list node) (k : nat) : bool :=
  match nth_error nodes k with Some nd => is_train nd | None => false end.

(* traverse(pivot): accept, mark seen, then walk the (still unseen, and at the tail: trained) subscribers *)
Fixpoint traverse_each (fuel : nat) (nodes : list node) (conn : list nat) (tail pivot : nat) (acc : list nat) : list nat :=
  match fuel with
  | O => acc
  | S f =>
      fold_left (fun acc' k =>
                   if existsb (Nat.eqb k) acc' then acc'
                   else if Nat.eqb pivot tail && negb (trained_node nodes k) then acc'
                   else traverse_each f nodes conn tail k acc')
                (subs nodes conn pivot) (acc ++ [pivot])
  end.

Definition each (nodes : list node) (conn : list nat) (tail : nat) : list nat :=
  traverse_each (S (List.length nodes)) nodes conn tail 0 [].

(* a connected segment: every node but the head has a first port fed by an earlier node's existing output port, every node
   but the head has made its subscriptions, and whatever subscribes to the tail is a trained node *)
Definition node_ports (nd : node) : list (nat * nat) := match nkind nd with KApply ins => ins | KTrain tr lb => [tr; lb] end.

Definition connected_b (nodes : list node) (conn : list nat) (tail : nat) : bool :=
  negb (Nat.eqb (List.length nodes) 0)
  && forallb (fun jn =>
        let '(i, nd) := jn in
        (Nat.eqb i 0 || match node_ports nd with
                        | ip :: _ => Nat.ltb (fst ip) i && match nth_error nodes (fst ip) with Some ndj => Nat.ltb (snd ip) (nszout ndj) | None => false end
                        | [] => false
                        end)
        && forallb (fun ip => negb (Nat.eqb (fst ip) tail) || is_train nd) (node_ports nd))
      (combine (seq 0 (List.length nodes)) nodes)
  && forallb (fun i => existsb (Nat.eqb i) conn) (seq 1 (List.length nodes - 1)).

(* ---- correspondence: the recorded order of Table.add calls is the modelled traversal ---------------------- *)
Inductive ecase := ECase (f : fcase) (conn : list nat).
Definition check_ecase (e : ecase) : bool :=
  match e with
  | ECase f conn =>
      check_fcase_wf f
      && match f with
         | FCase _ (CTable nodes _ visit tail (Some _) _) => nats_eqb (each nodes conn tail) visit && connected_b nodes conn tail
         | _ => true
         end
  end.

Definition wf_graph (a : assets) (nodes : list node) : bool :=
  forallb (fun jn => node_ok nodes (fst jn) (snd jn)) (combine (seq 0 (List.length nodes)) nodes) && assets_ok a nodes.
