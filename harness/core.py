"""Shared machinery of the forml verification checks (see DESIGN.md section 2).

One check invocation = regenerate source-derived constants -> proof gate (coqc on the property
file, Print Assumptions audit, forbidden-token audit) -> correspondence gate (real forml code vs
the Gallina model evaluated by vm_compute inside coqc) -> property oracle on the implementation
-> verdict, evidence, replay.
"""
import contextlib
import fcntl
import hashlib
import json
import os
import pathlib
import random
import re
import subprocess
import sys
import time
import traceback

ROOT = pathlib.Path(__file__).resolve().parent.parent
COQ = ROOT / 'coq'
REPO = pathlib.Path(os.environ.get('VERIF_REPO', '/repo'))
EVIDENCE = ROOT / 'evidence'
REPLAYS = ROOT / 'replays'
FINDINGS = ROOT / 'known_findings.json'

ALLOWED_AXIOMS = {
    # standard-library axioms that may appear under Print Assumptions (DESIGN.md section 7)
    'functional_extensionality_dep',
    'FunctionalExtensionality.functional_extensionality_dep',
    'proof_irrelevance',
    'ProofIrrelevance.proof_irrelevance',
    'classic',
    'Classical_Prop.classic',
    'JMeq_eq',
    'JMeq.JMeq_eq',
    'Eqdep.Eq_rect_eq.eq_rect_eq',
    'eq_rect_eq',
}
FORBIDDEN = re.compile(
    r'\b(Admitted|admit|Axiom|Axioms|Parameter|Parameters|Conjecture|Admit Obligations|bypass_check|'
    r'type-in-type|impredicative-set)\b|Unset\s+Guard|Unset\s+Positivity|Unset\s+Universe'
)
TRUSTED_BASE = [
    'Coq 8.16.1 kernel (coqc full .vo build; vm_compute used for closed witnesses and case evaluation; no native_compute)',
    'no axioms declared by the development; axioms under each theorem as reported by Print Assumptions are listed in coverage.assumptions_per_theorem',
    'hand-written Gallina model of the anchored forml code (coq/Model) - tied to /repo by the correspondence run of this check, not verified against it',
    'Python correspondence harness (case generators, drivers of the real forml code, canonicalisation, Coq literal printer) and source-derived constant generator',
    'CPython 3.12 and the third-party libraries forml calls (named per property in assumptions)',
]


# ------------------------------------------------------------------------------------------------
# Coq literal printers
# ------------------------------------------------------------------------------------------------
def cz(n) -> str:
    return f'({int(n)})%Z'


def cn(n) -> str:
    assert int(n) >= 0
    return f'{int(n)}%nat'


def cN(n) -> str:
    assert int(n) >= 0
    return f'{int(n)}%N'


def cb(b) -> str:
    return 'true' if b else 'false'


def cs(s: str) -> str:
    assert all(32 <= ord(c) < 127 for c in s), s
    return '"' + s.replace('"', '""') + '"%string'


def cl(items, ty=None) -> str:
    items = list(items)
    if not items:
        return f'(@nil ({ty}))' if ty else 'nil'
    body = '[' + '; '.join(items) + ']'
    return f'({body} : list ({ty}))' if ty else body


def co(x, f=lambda v: v, ty=None) -> str:
    if x is None:
        return f'(@None ({ty}))' if ty else 'None'
    return f'(Some {f(x)})'


def cp(*xs) -> str:
    return '(' + ', '.join(xs) + ')'


# ------------------------------------------------------------------------------------------------
# shell helpers
# ------------------------------------------------------------------------------------------------
def sh(cmd, timeout=1800, cwd=None, env=None, input=None):
    """Run a command; returns (rc, combined output). Never raises on failure/timeout."""
    try:
        res = subprocess.run(
            cmd,
            shell=isinstance(cmd, str),
            cwd=cwd,
            env=env,
            input=input,
            stdout=subprocess.PIPE,
            stderr=subprocess.STDOUT,
            timeout=timeout,
            text=True,
        )
        return res.returncode, res.stdout
    except subprocess.TimeoutExpired as err:
        out = err.stdout or ''
        if isinstance(out, bytes):
            out = out.decode(errors='replace')
        return 124, out + f'\n[timeout after {timeout}s]'


@contextlib.contextmanager
def coq_lock():
    COQ.mkdir(exist_ok=True)
    with open(COQ / '.lock', 'w') as handle:
        fcntl.flock(handle, fcntl.LOCK_EX)
        try:
            yield
        finally:
            fcntl.flock(handle, fcntl.LOCK_UN)


def impl_env(extra=None):
    env = dict(os.environ)
    env['PYTHONPATH'] = f'{REPO}:{ROOT}'
    env.setdefault('PYTHONHASHSEED', '0')
    env['FORML_VERIF'] = '1'
    env['PYTHONWARNINGS'] = 'ignore'
    if extra:
        env.update(extra)
    return env


def impl_subprocess(module: str, cases: list, extra_env=None, timeout=1800) -> list:
    """Observe the cases in a fresh interpreter (isolation of process-global state, other hash seeds)."""
    import tempfile

    with tempfile.TemporaryDirectory(dir='/var/tmp') as tmp:
        src, dst = pathlib.Path(tmp) / 'in.json', pathlib.Path(tmp) / 'out.json'
        src.write_text(json.dumps(cases))
        rc, out = sh(
            ['/venv/bin/python', '-W', 'ignore', '-m', 'harness.implrun', module, str(src), str(dst)],
            timeout=timeout,
            cwd=str(ROOT),
            env=impl_env(extra_env),
        )
        if rc or not dst.exists():
            raise RuntimeError(f'driver {module} failed rc={rc}: {out[-1500:]}')
        return json.loads(dst.read_text())


# ------------------------------------------------------------------------------------------------
# Coq project
# ------------------------------------------------------------------------------------------------
SOURCE_DIRS = ('Lib', 'Generated', 'Model', 'Proofs', 'Properties')


def project_files():
    files = []
    for sub in SOURCE_DIRS:
        files += sorted(str(p.relative_to(COQ)) for p in (COQ / sub).rglob('*.v'))
    return files


def ensure_makefile():
    text = '-Q . FV\n' + '\n'.join(project_files()) + '\n'
    proj = COQ / '_CoqProject'
    if not proj.exists() or proj.read_text() != text or not (COQ / 'Makefile').exists():
        proj.write_text(text)
        rc, out = sh('coq_makefile -f _CoqProject -o Makefile', cwd=COQ, timeout=120)
        if rc:
            raise RuntimeError('coq_makefile failed: ' + out)


def write_generated(files: dict) -> list:
    """Write source-derived constant files when their content changed; returns changed names."""
    changed = []
    (COQ / 'Generated').mkdir(exist_ok=True)
    for name, text in files.items():
        path = COQ / 'Generated' / name
        if not path.exists() or path.read_text() != text:
            path.write_text(text)
            changed.append(name)
    return changed


def make(targets, jobs=8, timeout=1700):
    ensure_makefile()
    if isinstance(targets, str):
        targets = [targets]
    return sh(['timeout', str(timeout), 'make', f'-j{jobs}', *targets], cwd=COQ, timeout=timeout + 30)


def audit_sources():
    """Forbidden-token audit over every .v file of the development (comments included)."""
    hits = []
    for rel in project_files():
        for no, line in enumerate((COQ / rel).read_text().splitlines(), 1):
            if FORBIDDEN.search(line):
                hits.append(f'{rel}:{no}: {line.strip()}')
    return hits


THEOREM_RE = re.compile(r'^\s*(Theorem|Lemma|Corollary|Example|Fact)\s+([A-Za-z0-9_\']+)', re.M)


def proof_gate(pid: str) -> dict:
    """Compile Properties/<pid>.v afresh (dependencies through make) and audit its assumptions."""
    prop = COQ / 'Properties' / f'{pid}.v'
    src = prop.read_text()
    theorems = [m.group(2) for m in THEOREM_RE.finditer(src) if m.group(1) == 'Theorem']
    result = {
        'file': f'coq/Properties/{pid}.v',
        'theorems': theorems,
        'obligations': len(theorems),
        'discharged': 0,
        'ok': False,
        'failing': None,
        'assumptions': {},
        'log': '',
        'checker_cmd': f'make -C /verif/coq Properties/{pid}.vo  (coqc 8.16.1, full .vo, rebuilt on every run)',
    }
    with coq_lock():
        vo = prop.with_suffix('.vo')
        if vo.exists():
            vo.unlink()
        rc, out = make(f'Properties/{pid}.vo')
    result['log'] = out[-6000:]
    hits = audit_sources()
    if hits:
        result['failing'] = 'forbidden tokens: ' + '; '.join(hits[:5])
        return result
    if rc != 0:
        # name the theorem (or dependency) that no longer checks
        m = re.search(r'File "\./([^"]+)", line (\d+)', out)
        where = 'unknown'
        if m:
            fname, line = m.group(1), int(m.group(2))
            where = f'{fname}:{line}'
            try:
                text = (COQ / fname).read_text().splitlines()
                for i in range(line - 1, -1, -1):
                    mm = THEOREM_RE.match(text[i])
                    if mm:
                        where = f'{fname}:{mm.group(2)} (line {line})'
                        break
            except OSError:
                pass
        result['failing'] = where
        # count theorems of the property file that precede the failure (when it is in that file)
        if m and m.group(1) == f'Properties/{pid}.v':
            upto = '\n'.join(src.splitlines()[: int(m.group(2)) - 1])
            done = [x for x in THEOREM_RE.finditer(upto) if x.group(1) == 'Theorem']
            result['discharged'] = max(0, len(done) - 1)
        return result
    # Print Assumptions audit: one block per theorem, in file order
    blocks = re.split(r'(?=Closed under the global context|^Axioms:)', out, flags=re.M)
    blocks = [b for b in blocks if b.startswith('Closed under') or b.startswith('Axioms:')]
    printed = re.findall(r'Print Assumptions\s+([A-Za-z0-9_\']+)', src)
    missing = [t for t in theorems if t not in printed]
    if missing:
        result['failing'] = f'Properties/{pid}.v: no Print Assumptions for {missing}'
        return result
    if len(blocks) != len(printed):
        result['failing'] = f'Properties/{pid}.v: {len(printed)} Print Assumptions but {len(blocks)} reports'
        return result
    bad = []
    for name, block in zip(printed, blocks):
        if block.startswith('Closed'):
            result['assumptions'][name] = []
            continue
        axioms = re.findall(r'^([A-Za-z0-9_.\']+)\s*:', block, flags=re.M)
        result['assumptions'][name] = axioms
        for ax in axioms:
            if ax not in ALLOWED_AXIOMS and ax.split('.')[-1] not in ALLOWED_AXIOMS and not prim_ok(ax):
                bad.append(f'{name} depends on {ax}')
    if bad:
        result['failing'] = '; '.join(bad)
        return result
    result['discharged'] = len(theorems)
    result['ok'] = True
    return result


def prim_ok(ax: str) -> bool:
    """Native float / int63 primitives (kernel primitives, listed by Print Assumptions)."""
    return ax.startswith(('PrimFloat.', 'Uint63.', 'PrimInt63.', 'FloatAxioms.', 'FloatOps.')) or ax in {
        'float',
        'int',
    }


# ------------------------------------------------------------------------------------------------
# model evaluation inside Coq
# ------------------------------------------------------------------------------------------------
def _parse_nat_list(out: str):
    flat = ' '.join(out.split())
    m = re.search(r'=\s*(\[[^\]]*\]|nil)\s*:\s*list nat', flat)
    if not m:
        return None
    body = m.group(1)
    if body == 'nil' or body == '[]':
        return []
    return [int(x.replace('%nat', '')) for x in re.findall(r'\d+(?:%nat)?', body)]


def coq_mismatches(pid: str, imports: str, case_type: str, check_fun: str, terms: list, chunk=300, tag='corr'):
    """Evaluate `check_fun : case_type -> bool` on every term inside coqc; returns the indices whose
    check is false, plus the raw log of failing compilations. Requires the model .vo to be built."""
    outdir = COQ / 'Cases'
    outdir.mkdir(exist_ok=True)
    files = []
    for k in range(0, len(terms), chunk):
        part = terms[k : k + chunk]
        name = f'{pid}_{tag}_{k // chunk}'
        body = (
            f'From FV Require Lib.Corr.\n{imports}\nRequire Import List String ZArith. Import ListNotations.\n'
            f'Definition cases : list ({case_type}) :=\n  [ '
            + '\n  ; '.join(part)
            + ' ].\n'
            f'Eval vm_compute in (FV.Lib.Corr.mismatches ({check_fun}) cases).\n'
        )
        (outdir / f'{name}.v').write_text(body)
        files.append((k, name))
    procs = []
    for k, name in files:
        procs.append(
            (
                k,
                name,
                subprocess.Popen(
                    ['timeout', '900', 'coqc', '-Q', '.', 'FV', f'Cases/{name}.v'],
                    cwd=COQ,
                    stdout=subprocess.PIPE,
                    stderr=subprocess.STDOUT,
                    text=True,
                ),
            )
        )
        while sum(1 for *_, p in procs if p.poll() is None) >= 8:
            time.sleep(0.05)
    bad, errors = [], []
    for k, name, proc in procs:
        out, _ = proc.communicate()
        idx = _parse_nat_list(out) if proc.returncode == 0 else None
        if idx is None:
            errors.append(f'{name}: rc={proc.returncode}\n{out[-3000:]}')
        else:
            bad += [k + i for i in idx]
        for suffix in ('.v', '.vo', '.glob', '.vok', '.vos'):
            path = outdir / f'{name}{suffix}'
            if path.exists() and (suffix != '.v' or proc.returncode == 0):
                path.unlink()
        aux = outdir / f'.{name}.aux'
        if aux.exists():
            aux.unlink()
    return sorted(bad), errors


def coq_eval(imports: str, expr: str, timeout=300) -> str:
    """Evaluate one expression with vm_compute and return Coq's printed answer (diagnostics only)."""
    outdir = COQ / 'Cases'
    outdir.mkdir(exist_ok=True)
    name = f'eval_{os.getpid()}_{abs(hash(expr)) % 10**8}'
    (outdir / f'{name}.v').write_text(
        f'{imports}\nRequire Import List String ZArith. Import ListNotations.\nEval vm_compute in ({expr}).\n'
    )
    rc, out = sh(['timeout', str(timeout), 'coqc', '-Q', '.', 'FV', f'Cases/{name}.v'], cwd=COQ, timeout=timeout + 10)
    for path in outdir.glob(f'*{name}*'):
        path.unlink()
    return ' '.join(out.split())


# ------------------------------------------------------------------------------------------------
# findings, evidence, verdict
# ------------------------------------------------------------------------------------------------
def load_findings(pid: str):
    if not FINDINGS.exists():
        return [], []
    data = json.loads(FINDINGS.read_text())
    known = [f for f in data.get('known', []) if f['property'] == pid]
    fixed = [f for f in data.get('fixed', []) if f['property'] == pid]
    return known, fixed


def write_evidence(pid, tier, seed, coverage, assumptions, wall, violations):
    EVIDENCE.mkdir(exist_ok=True)
    doc = {
        'property_id': pid,
        'tier': tier,
        'seed': seed,
        'level': 'proof',
        'coverage': coverage,
        'assumptions': assumptions,
        'wall_s': round(wall, 2),
        'violations': violations,
    }
    (EVIDENCE / f'{pid}.json').write_text(json.dumps(doc, indent=1, sort_keys=True, default=str) + '\n')


def write_replay(pid, doc) -> pathlib.Path:
    out = REPLAYS / pid
    out.mkdir(parents=True, exist_ok=True)
    n = len(list(out.glob('*.json')))
    path = out / f'{n:03d}.json'
    path.write_text(json.dumps(doc, indent=1, default=str) + '\n')
    return path


def canon(obj):
    return json.dumps(obj, sort_keys=True, default=str)


class Prop:
    """Base class of a property check; subclasses live in harness/props/cXX.py."""

    ID = ''
    IMPORTS = ''  # Coq imports of the cases file
    CASE_TYPE = ''
    CHECK_FUN = ''
    ASSUMPTIONS: list = []
    RULE = ''
    EXTRA_TARGETS: list = []  # additional .vo needed by the cases (model files)

    # -- to override -----------------------------------------------------------------------------
    def generated(self) -> dict:
        """Source-derived constants: {file name: Gallina text}."""
        return {}

    def corpus(self) -> list:
        """Committed regression cases (run first)."""
        return []

    def cases(self, rng: random.Random, tier: str) -> list:
        raise NotImplementedError

    def run_impl(self, cases: list) -> list:
        """Observations of the real code, one per case (JSON-able)."""
        raise NotImplementedError

    def coq_case(self, case, obs) -> str:
        raise NotImplementedError

    def coq_cases(self, case, obs) -> list:
        """Coq case terms of one harness case (default: the single term of coq_case, none if it is None =
        implementation-only case without model counterpart)."""
        term = self.coq_case(case, obs)
        return [] if term is None else [term]

    def oracle(self, case, obs):
        """Property-text oracle on the implementation's observation: None or a description."""
        return None

    def signature(self, case, obs, problem):
        """Signature of an oracle violation, matched against known_findings.json."""
        return None

    def nontrivial(self, case, obs) -> bool:
        return True

    def shrink(self, case):
        """Candidate smaller cases (generic shrinking is property specific)."""
        return []

    def distribution(self, cases, observations) -> dict:
        return {}

    def model_output_expr(self, case, obs):
        """Optional Coq expression printing the model's own answer for a mismatching case."""
        return None


def _fails(prop: Prop, case):
    """Does the implementation violate the oracle on this case (not as a known finding)?"""
    try:
        obs = prop.run_impl([case])[0]
    except Exception as err:  # pylint: disable=broad-except
        return None, f'driver error {err!r}'
    return obs, prop.oracle(case, obs)


def search_failing_input(prop: Prop, suspects, pool, known_sigs, budget=400):
    """Search the implementation for a concrete input on which the property fails."""
    tried = 0
    for case in list(suspects) + list(pool):
        if tried >= budget:
            break
        tried += 1
        obs, problem = _fails(prop, case)
        if problem and prop.signature(case, obs, problem) not in known_sigs:
            # shrink greedily
            best, best_obs, best_problem = case, obs, problem
            improved = True
            rounds = 0
            while improved and rounds < 30:
                improved = False
                rounds += 1
                for cand in prop.shrink(best):
                    o2, p2 = _fails(prop, cand)
                    if p2 and prop.signature(cand, o2, p2) not in known_sigs:
                        best, best_obs, best_problem = cand, o2, p2
                        improved = True
                        break
            return best, best_obs, best_problem
    return None


def run_check(prop: Prop, tier: str, seed: int, replay=None) -> int:
    pid = prop.ID
    prop.tier = tier
    t0 = time.time()
    lines = []
    known, fixed = load_findings(pid)
    known_sigs = {f['signature'] for f in known}

    # 1. source-derived constants
    gen_error = None
    try:
        with coq_lock():
            changed = write_generated(prop.generated())
    except Exception:  # pylint: disable=broad-except
        changed = []
        gen_error = traceback.format_exc()

    # 2. proof gate
    gate = proof_gate(pid)
    if gen_error:
        gate['ok'] = False
        gate['failing'] = 'constant generator failed: ' + gen_error.strip().splitlines()[-1]

    # 3. cases
    rng = random.Random(seed)
    if replay:
        doc = json.loads(pathlib.Path(replay).read_text())
        cases = [doc['case']] if doc.get('case') is not None else []
    else:
        cases = list(prop.corpus()) + list(prop.cases(rng, tier))
    impl_error = None
    try:
        observations = prop.run_impl(cases) if cases else []
    except Exception:  # pylint: disable=broad-except
        impl_error = traceback.format_exc()
        observations = []

    # 4. oracle on the implementation
    viol = []  # (case, obs, problem) not covered by a listed finding
    seen_known = {}
    for case, obs in zip(cases, observations):
        problem = prop.oracle(case, obs)
        if problem:
            sig = prop.signature(case, obs, problem)
            if sig in known_sigs:
                seen_known.setdefault(sig, (case, obs, problem))
            else:
                viol.append((case, obs, problem))

    # 5. correspondence: model vs implementation, evaluated in Coq
    mism, corr_errors, modelled = [], [], 0
    if not impl_error and cases:
        deps_rc = 0
        if prop.EXTRA_TARGETS:
            with coq_lock():
                deps_rc, deps_out = make(prop.EXTRA_TARGETS)
            if deps_rc:
                corr_errors.append('model does not build: ' + deps_out[-2000:])
        if not deps_rc:
            try:
                terms, index = [], []
                for k, (c, o) in enumerate(zip(cases, observations)):
                    many = prop.coq_cases(c, o)
                    for term in many:
                        terms.append(term)
                        index.append(k)
                mism, errs = coq_mismatches(pid, prop.IMPORTS, prop.CASE_TYPE, prop.CHECK_FUN, terms)
                mism = sorted({index[i] for i in mism})
                modelled = len(terms)
                corr_errors += errs
            except Exception:  # pylint: disable=broad-except
                corr_errors.append('case printer failed: ' + traceback.format_exc())

    if os.environ.get('VERIF_DEBUG') and mism:
        for i in mism[:10]:
            print('MISMATCH', json.dumps(cases[i])[:400], json.dumps(observations[i], default=str)[:400])
    # 6. verdict
    rc = 0
    replay_doc = None
    for f in known:
        lines.append(f"KNOWN-FINDING: property={pid} {f['what']}")
    if viol:
        case, obs, problem = viol[0]
        found = search_failing_input(prop, [case], [], known_sigs, budget=1) or (case, obs, problem)
        replay_doc = {
            'property': pid,
            'kind': 'oracle-violation',
            'problem': found[2],
            'case': found[0],
            'observed': found[1],
            'seed': seed,
            'tier': tier,
            'others': len(viol) - 1,
        }
    elif not gate['ok'] or mism or corr_errors or impl_error:
        broken = []
        if not gate['ok']:
            broken.append(f"theorem {gate['failing']}")
        if mism:
            broken.append(f'corr:{pid}: model and implementation disagree on {len(mism)} of {len(cases)} cases')
        if corr_errors:
            broken.append(f'corr:{pid}: model evaluation failed: {corr_errors[0][:400]}')
        if impl_error:
            broken.append(f'corr:{pid}: implementation driver crashed: {impl_error.strip().splitlines()[-1]}')
        suspects = [cases[i] for i in mism[:50]]
        found = None
        if not impl_error:
            extra = [] if replay else prop.cases(random.Random(seed + 1), 'thorough' if tier == 'thorough' else 'quick')
            found = search_failing_input(prop, suspects, extra, known_sigs)
        replay_doc = {
            'property': pid,
            'kind': 'failing-input' if found else 'no-failing-input-found',
            'broken': broken,
            'seed': seed,
            'tier': tier,
        }
        if found:
            replay_doc.update(case=found[0], observed=found[1], problem=found[2])
        else:
            replay_doc['case'] = cases[mism[0]] if mism else None
            if mism:
                replay_doc['observed'] = observations[mism[0]]
                expr = prop.model_output_expr(cases[mism[0]], observations[mism[0]])
                if expr:
                    replay_doc['model_says'] = coq_eval(prop.IMPORTS, expr)
            replay_doc['proof_log'] = gate['log'][-1500:] if not gate['ok'] else None
    if replay_doc:
        rc = 1
        path = write_replay(pid, replay_doc)
        suffix = ' no-failing-input-found' if replay_doc['kind'] == 'no-failing-input-found' else ''
        lines.append(f'VIOLATION property={pid} replay={path}{suffix}')

    # 7. evidence
    distinct = {canon(c) for c, o in zip(cases, observations) if prop.nontrivial(c, o)}
    coverage = {
        'obligations': gate['obligations'],
        'discharged': gate['discharged'],
        'checker_cmd': gate['checker_cmd'],
        'trusted_base': TRUSTED_BASE,
        'theorems': gate['theorems'],
        'assumptions_per_theorem': gate['assumptions'],
        'proof_gate_ok': gate['ok'],
        'generated_constants_changed': changed,
        'evaluations': len(cases),
        'distinct_nontrivial': len(distinct),
        'rule': prop.RULE,
        'samples': [{'case': c, 'observed': o} for c, o in list(zip(cases, observations))[:3]],
        'traces_validated_against_impl': modelled - len(mism) if not corr_errors else 0,
        'cases_with_model_counterpart': modelled,
        'correspondence_mismatches': len(mism),
        'oracle_violations_new': len(viol),
        'known_findings_listed': [f['signature'] for f in known],
        'known_findings_reproduced_this_run': sorted(seen_known),
        'fixed_findings': [f['signature'] for f in fixed],
        'input_distribution': prop.distribution(cases, observations) if observations else {},
    }
    write_evidence(pid, tier, seed, coverage, prop.ASSUMPTIONS, time.time() - t0, 1 if rc else 0)
    print(
        f'[{pid}] tier={tier} seed={seed} theorems={gate["discharged"]}/{gate["obligations"]} '
        f'cases={len(cases)} mismatches={len(mism)} oracle_violations={len(viol)} '
        f'known_reproduced={len(seen_known)}/{len(known)} wall={time.time() - t0:.1f}s'
    )
    for line in lines:
        print(line)
    sys.stdout.flush()
    return rc
