"""Symbolic actors and helpers shared by the flow-level drivers (C01-C04, C11, C12).

Actors are uninterpreted function symbols: applying actor `name` (hyper-parameters `hp`, state `st`) to inputs
x1..xn yields the term ('app', name, hp, st, [x1..xn]) and training yields the state term
('state', name, hp, prev, features, labels). Terms are nested tuples/lists of JSON-able atoms."""
import json

from forml import flow


def freeze(x):
    if isinstance(x, (list, tuple)):
        return tuple(freeze(i) for i in x)
    return x


class Stateless(flow.Actor):
    """f(x1..xn) -> term, or a tuple of szout projections of it. With `mark` (a callable returning (name, hp)) the
    identity of the symbol lives in a hyper-parameter whose repr is lossy (a lambda)."""

    def __init__(self, name, szout=1, hp=0, mark=None):
        self.name, self.szout, self.hp, self.mark = name, szout, hp, mark

    def apply(self, *args):
        name, hp = self.mark() if self.mark else (self.name, self.hp)
        term = ('app', name, hp, None, freeze(args))
        if self.szout == 1:
            return term
        return tuple(('proj', i, term) for i in range(self.szout))

    def get_params(self):
        return {'name': self.name, 'szout': self.szout, 'hp': self.hp, 'mark': self.mark}

    def set_params(self, **params):
        for k, v in params.items():
            setattr(self, k, v)


class Stateful(Stateless):
    """Additionally trainable: the state is a term recording what it was trained on (and the previous state)."""

    def __init__(self, name, szout=1, hp=0):
        super().__init__(name, szout, hp)
        self.state = None

    def train(self, features, labels):
        self.state = ('state', self.name, self.hp, self.state, freeze(features), freeze(labels))

    def apply(self, *args):
        term = ('app', self.name, self.hp, self.state, freeze(args))
        if self.szout == 1:
            return term
        return tuple(('proj', i, term) for i in range(self.szout))

    def get_state(self):
        return json.dumps(self.state).encode()

    def set_state(self, state):
        if state:
            self.state = freeze(json.loads(state.decode()))


class Snapshot(Stateful):
    """A stateful actor whose own set_state also restores the hyper-parameter the state was trained with (as an actor
    pickling its whole __dict__ does): only the state preset's re-application of the builder parameters makes the
    hyper-parameters of the CURRENT code win."""

    def set_state(self, state):
        if state:
            self.state = freeze(json.loads(state.decode()))
            self.hp = self.state[2]


def builder(name, stateful=False, szout=1, hp=0):
    return (Stateful if stateful else Stateless).builder(name, szout=szout, hp=hp)


class Source(flow.Actor):
    """Constant symbolic data source: ignores whatever it is called with (pyfunc hands it the request entry)."""

    def __init__(self, name='src', szout=1, hp=0):
        self.name, self.szout, self.hp = name, szout, hp

    def apply(self, *args):
        term = ('app', self.name, self.hp, None, ())
        if self.szout == 1:
            return term
        return tuple(('proj', i, term) for i in range(self.szout))

    def get_params(self):
        return {'name': self.name, 'szout': self.szout, 'hp': self.hp}

    def set_params(self, **params):
        for k, v in params.items():
            setattr(self, k, v)


class Recorder(flow.Actor):
    """Sink: appends the term it receives to a file (works under every dask scheduler) and passes it on."""

    def __init__(self, name='sink', path=None, hp=0):
        self.name, self.path, self.hp = name, path, hp

    def apply(self, *args):
        term = ('app', self.name, self.hp, None, freeze(args))
        if self.path:
            with open(self.path, 'a') as out:
                out.write(json.dumps(term) + '\n')
        return term

    def get_params(self):
        return {'name': self.name, 'path': self.path, 'hp': self.hp}

    def set_params(self, **params):
        for k, v in params.items():
            setattr(self, k, v)
