"""C17 driver: real application.ABTest / Latest strategies."""
import itertools
import time

from forml import application
from forml.io import asset

_N = itertools.count()


class Registry(asset.Registry):
    """In-memory listing-only registry stub (levels, listings and instances are the real asset classes)."""

    def __init__(self, content):
        super().__init__(staging='/var/tmp/verif_c17_staging')
        self.content = content  # {project: {release: [generation numbers]}}
        self._id = next(_N)
        self.listings = 0       # number of release listings served (one per pick of the Latest strategy)

    def __hash__(self):
        return hash(self._id)

    def __eq__(self, other):
        return other is self

    def projects(self):
        return list(self.content)

    def releases(self, project):
        self.listings += 1
        return list(self.content.get(str(project), {}))

    def generations(self, project, release):
        self.listings += 1
        return list(self.content.get(str(project), {}).get(str(release), []))

    def push(self, package):
        raise NotImplementedError()

    def pull(self, project, release):
        raise NotImplementedError()

    def read(self, project, release, generation, sid):
        raise NotImplementedError()

    def write(self, project, release, sid, state):
        raise NotImplementedError()

    def open(self, project, release, generation):
        raise NotImplementedError()

    def close(self, project, release, generation, tag):
        raise NotImplementedError()


def ident(instance):
    gen = instance._generation  # pylint: disable=protected-access
    return [str(gen.release.key), int(gen.key)]


def abtest(case):
    weights = case['weights']
    content = {'prj': {'1': list(range(1, len(weights) + 1))}}
    directory = asset.Directory(Registry(content))
    builder = application.ABTest.compare('prj', '1', 1, weights[0])
    for i, w in enumerate(weights[1:-1], start=2):
        builder = builder.over(i, target=w)
    selector = builder.against(len(weights), target=weights[-1])
    picks = []
    try:
        for _ in range(case['n']):
            picks.append(ident(selector.select(directory, None, None))[1] - 1)
    except RuntimeError as err:
        return {'picks': picks, 'failed': str(err)}
    return {'picks': picks}


def _follow(selector, directory, steps):
    """One select per step of a registry history (after waiting for a refresh that started after the change)."""
    out = []
    for i, step in enumerate(steps):
        if i:
            registry = directory.registry
            registry.content['prj'] = {str(r): list(g) for r, g in step}
            # wait for a refresh that STARTED after the change to have finished (not for a fixed time: the refresher
            # thread may be starved on a loaded machine): further listings, then the interval once more
            seen, deadline = registry.listings, time.time() + 5
            while registry.listings < seen + 4 and time.time() < deadline:
                time.sleep(0.01)
            time.sleep(0.1)
        try:
            out.append(ident(selector.select(directory, None, None)))
        except asset.Level.Listing.Empty:
            out.append(None)
        except asset.Level.Invalid:
            out.append(None)
    return out


def latest(case):
    """History of registry contents; one select per step. With `second`: the SAME selector then serves another registry
    (first selected after the refresher thread has started) through its own history."""
    selector = application.Latest('prj', release=None if case['release'] is None else str(case['release']), refresh=0.05)
    first = asset.Directory(Registry({'prj': {str(r): list(g) for r, g in case['steps'][0]}}))
    out = {'picks': _follow(selector, first, case['steps'])}
    if case.get('second'):
        time.sleep(0.2)     # the refresher thread is up and running by now
        second = asset.Directory(Registry({'prj': {str(r): list(g) for r, g in case['second'][0]}}))
        out['picks2'] = _follow(selector, second, case['second'])
    return out


def explicit(case):
    content = {'prj': {str(r): list(g) for r, g in case['reg']}}
    directory = asset.Directory(Registry(content))
    selector = application.Explicit('prj', str(case['release']), case['generation'])
    return {'picks': [ident(selector.select(directory, None, None)) for _ in range(3)]}


def observe(case):
    try:
        return {'ab': abtest, 'latest': latest, 'explicit': explicit}[case['t']](case)
    except Exception as err:  # pylint: disable=broad-except
        return {'error': f'{type(err).__name__}: {err}'}
