"""C19 driver: real forml.io.layout negotiation code."""
import math

from forml.io import dsl, layout
from forml.io.layout import _codec


def enc(e):
    return layout.Encoding(e['kind'], **e['options'])


def dump(e):
    return {'kind': e.kind, 'options': dict(e.options)}


def _index(table, codec):
    for i, c in enumerate(table):
        if c is codec:
            return i
    return -1


def observe(case):
    t = case['t']
    try:
        if t == 'parse':
            return {'encodings': [dump(e) for e in layout.Encoding.parse(case['header'])]}
        if t == 'match':
            return {'match': bool(enc(case['pat']).match(enc(case['other'])))}
        if t == 'encoder':
            try:
                codec = layout.get_encoder(*[enc(e) for e in case['targets']])
            except layout.Encoding.Unsupported:
                return {'index': None}
            return {'index': _index(_codec.ENCODERS, codec)}
        if t == 'decoder':
            try:
                codec = layout.get_decoder(enc(case['source']))
            except layout.Encoding.Unsupported:
                return {'index': None}
            return {'index': _index([c for c, _ in _codec.DECODERS], codec)}
        if t == 'accept':
            try:
                codec = layout.get_encoder(*layout.Encoding.parse(case['header']))
            except layout.Encoding.Unsupported:
                return {'index': None}
            return {'index': _index(_codec.ENCODERS, codec)}
        if t == 'roundtrip':
            schema = dsl.Schema.from_fields(*(dsl.Field(dsl.Integer() if k == 'i' else dsl.String(), name=n) for n, k in case['fields']))
            encoder = layout.get_encoder(enc(case['accept']))
            data = encoder.dumps(layout.Outcome(schema, case['rows']))
            entry = layout.get_decoder(enc(case['declare'])).loads(data)
            rows = [[x.item() if hasattr(x, 'item') else x for x in r] for r in entry.data.to_rows()]
            return {'names': [f.name for f in entry.schema], 'rows': rows, 'produced': encoder.encoding.header}
    except Exception as err:  # pylint: disable=broad-except
        return {'error': f'{type(err).__name__}: {err}'}
    raise ValueError(t)
