"""C10 driver: runs the real forml extraction path (Source.query -> Statement.prepare -> alchemy parser -> sqlite)."""
import datetime
import sqlite3

import sqlalchemy
from sqlalchemy import sql

import forml
from forml import flow, io, project
from forml.io import layout
from forml.io import dsl
from forml.io._input import extract as extmod
from forml.provider.feed.reader import alchemy
from forml.runtime import _agent

from harness.props.c10 import embed

KIND = {
    'integer': dsl.Integer(),
    'float': dsl.Float(),
    'date': dsl.Date(),
    'timestamp': dsl.Timestamp(),
    'string': dsl.String(),
}
_TABLES = {}


def table(kind: str) -> dsl.Table:
    if kind not in _TABLES:
        _TABLES[kind] = dsl.Table(
            dsl.Schema.from_fields(dsl.Field(dsl.Integer(), name='rid'), dsl.Field(KIND[kind], name='ord'), title=f'T{kind}')
        )
    return _TABLES[kind]


def _sqlval(kind, value):
    if kind == 'date':
        return value.isoformat()
    if kind == 'timestamp':
        return value.strftime('%Y-%m-%d %H:%M:%S.%f')
    return value


class _Feed(io.Feed):
    """Minimal feed over one sqlite table: the producer parses the statement the drivers hand over with the real
    alchemy parser and executes it."""

    def __init__(self, tab, conn, data):
        super().__init__()
        self._tab, self._conn, self._data = tab, conn, data
        self.statements = []

    @property
    def sources(self):
        return {self._tab: sql.table(sql.quoted_name('t', quote=True))}

    def producer(self, sources, features, **kwargs):  # pylint: disable=arguments-differ
        def produce(statement, entry=None):
            self.statements.append(statement)
            parser = alchemy.Parser(sources, features)
            with parser:
                statement.accept(parser)
                code = parser.fetch()
            got = [r[0] for r in self._conn.execute(code).fetchall()]
            rows = sorted(self._data[i] for i in got)
            return layout.Dense.from_rows([[v] for v in rows]) if rows else layout.Dense.from_rows([[None]]).take_rows([])

        return produce


class _Workers(flow.Visitor):
    def __init__(self):
        self.nodes = []

    def visit_node(self, node):
        if isinstance(node, flow.Worker):
            self.nodes.append(node)


def _run(segment):
    """Build and fire the driver actor of an extraction segment (its single head worker)."""
    visitor = _Workers()
    segment.accept(visitor)
    return [r.iloc[0] if hasattr(r, 'iloc') else r[0] for r in visitor.nodes[0].builder().apply()]


def _load(feed, extract, lo, hi):
    trunk = feed.load(extract, lo, hi).compose(flow.Origin())
    return {'train': trunk.train, 'apply': trunk.apply}


def windows(case):
    kind = case['kind']
    tab = table(kind)
    source = project.Source.query(tab.select(tab.rid, tab.ord), ordinal=tab.ord, once=case['sp'])
    engine = sqlalchemy.create_engine('sqlite://')
    with engine.connect() as conn:
        ctype = {'integer': 'INTEGER', 'float': 'REAL', 'string': 'TEXT', 'date': 'DATE', 'timestamp': 'TIMESTAMP'}[kind]
        conn.execute(sql.text(f'CREATE TABLE "t" (rid INTEGER, ord {ctype})'))
        for i, z in enumerate(case['data']):
            conn.execute(sql.text('INSERT INTO "t" VALUES (:r, :o)'), {'r': i, 'o': _sqlval(kind, embed(kind, z))})
        feed = _Feed(tab, conn, case['data'])
        rows = {'train': [], 'apply': []}
        for lo, hi in zip(case['bounds'], case['bounds'][1:]):
            segments = _load(
                feed, source.extract, None if lo is None else embed(kind, lo), None if hi is None else embed(kind, hi)
            )
            for mode, segment in segments.items():
                rows[mode].append(_run(segment))
    return {'sem': repr(source.extract.ordinal.once), 'rows': rows}


def windows_feed(case):
    """The same consecutive windows through the real alchemy.Feed (its reader and result cache) over a sqlite file; every
    window of the case shares one process and one (private) cache directory, as consecutive launches of a project do."""
    import pathlib
    import shutil
    import tempfile

    from forml.provider.feed import alchemy as feedmod

    kind = case['kind']
    tab = table(kind)
    source = project.Source.query(tab.select(tab.rid, tab.ord), ordinal=tab.ord, once=case['sp'])
    tmp = pathlib.Path(tempfile.mkdtemp(prefix='c10f_', dir='/var/tmp'))
    saved = feedmod.Feed.Reader.RESULTS
    try:
        engine = sqlalchemy.create_engine(f'sqlite:///{tmp}/db.sqlite')
        with engine.begin() as conn:
            ctype = {'integer': 'INTEGER', 'float': 'REAL', 'string': 'TEXT'}[kind]
            conn.execute(sql.text(f'CREATE TABLE "t" (rid INTEGER, ord {ctype})'))
            for i, z in enumerate(case['data']):
                conn.execute(sql.text('INSERT INTO "t" VALUES (:r, :o)'), {'r': i, 'o': _sqlval(kind, embed(kind, z))})
        engine.dispose()
        feedmod.Feed.Reader.RESULTS = feedmod.Results(tmp / 'cache')
        feed = feedmod.Feed(sources={tab: 't'}, connection=f'sqlite:///{tmp}/db.sqlite')
        rows = {'train': [], 'apply': []}
        for lo, hi in zip(case['bounds'], case['bounds'][1:]):
            segments = _load(
                feed, source.extract, None if lo is None else embed(kind, lo), None if hi is None else embed(kind, hi)
            )
            for mode, segment in segments.items():
                rows[mode].append(sorted(case['data'][int(rid)] for rid in _run(segment)))
        return {'sem': repr(source.extract.ordinal.once), 'rows': rows}
    finally:
        feedmod.Feed.Reader.RESULTS = saved
        shutil.rmtree(tmp, ignore_errors=True)


def _bounds_of(stmt):
    if stmt.prefilter is None:
        return {'verdict': 'unfiltered'}
    lo = hi = None
    terms = []

    def walk(pred):
        if isinstance(pred, dsl.function.And):
            walk(pred.left)
            walk(pred.right)
        else:
            terms.append(pred)

    walk(stmt.prefilter)
    for term in terms:
        value = term.right.value
        if isinstance(term, (dsl.function.GreaterEqual, dsl.function.GreaterThan)):
            lo = value
        else:
            hi = value
    return {'verdict': 'filtered', 'lo': lo, 'hi': hi}


def prepared(case):
    """Bounds handed to Feed.load for a source with / without ordinal: what each mode's driver ends up executing."""
    tab = table('integer')
    source = project.Source.query(tab.select(tab.rid, tab.ord), ordinal=tab.ord if case['ordinal'] else None)
    engine = sqlalchemy.create_engine('sqlite://')
    out = {}
    with engine.connect() as conn:
        conn.execute(sql.text('CREATE TABLE "t" (rid INTEGER, ord INTEGER)'))
        feed = _Feed(tab, conn, [])
        for mode, segment in _load(feed, source.extract, case['lo'], case['hi']).items():
            feed.statements.clear()
            try:
                _run(segment)
            except forml.UnexpectedError:
                out[mode] = {'verdict': 'refused'}
                continue
            out[mode] = _bounds_of(feed.statements[-1])
    return out


class _Stop(Exception):
    pass


class _Runner(_agent.Runner):
    """Real Runner.train body with the graph building stubbed out to record the effective bounds."""

    def __init__(self, tag_ordinal):  # pylint: disable=super-init-not-called
        class Training:
            ordinal = tag_ordinal

            @staticmethod
            def trigger():
                return None

        class Tag:
            training = Training

        class Project:
            pipeline = None

        class Instance:
            tag = Tag
            project = Project

        self._instance = Instance
        self.seen = None

    def _build(self, lower, upper, *args, **kwargs):
        self.seen = (lower, upper)
        raise _Stop()

    @classmethod
    def run(cls, symbols, **kwargs):
        raise NotImplementedError()


def train(case):
    runner = _Runner(case['tag'])
    try:
        runner.train(case['lo'], None)
    except _Stop:
        pass
    return {'lower': runner.seen[0]}


def alias(case):
    try:
        member = project.Source.Extract.Ordinal.Once(case['sp'])
    except ValueError:
        return {'sem': None}
    return {'sem': {'EXACTLY': 'Exactly', 'ATMOST': 'Atmost', 'ATLEAST': 'Atleast'}.get(member.name)}


def observe(case):
    try:
        return {'windows': windows_feed if case.get('via_feed') else windows, 'prepared': prepared, 'train': train, 'alias': alias}[case['t']](case)
    except Exception as err:  # pylint: disable=broad-except
        return {'error': f'{type(err).__name__}: {err}'}
