"""C14 driver: the real alchemy parser with generate_table captured; hints enforced on the data of a sqlite database.

A back-end honouring the hints is emulated on the data: the table it serves holds only the offered columns (columns
variant) or only the rows admitted by the offered predicate (rows variant); the unchanged parser output is then executed
against it and compared with the execution against the full tables.
"""
import sqlalchemy
from forml.provider.feed.reader import alchemy
from sqlalchemy import sql

from harness import dslgen

SQLTYPE = {'int': 'INTEGER', 'str': 'TEXT', 'bool': 'BOOLEAN', 'date': 'TEXT', 'timestamp': 'TEXT'}


class Capture(alchemy.Parser):
    def __init__(self, sources, log):
        super().__init__(sources, {})
        self._log = log

    def generate_table(self, table, features, predicate):
        self._log.append((table, list(features), predicate))
        return super().generate_table(table, features, predicate)


def parse(statement, names, log):
    tabs = dslgen.tables()
    sources = {tabs[t]: sql.table(sql.quoted_name(n, quote=True)) for t, n in names.items()}
    with Capture(sources, log) as visitor:
        statement.accept(visitor)
        return visitor.fetch()


def norm(rows):
    return sorted([[None if v is None else (int(v) if isinstance(v, bool) else v) for v in r] for r in rows], key=repr)


def execute(conn, statement, names):
    try:
        return {'rows': norm(conn.execute(parse(statement, names, [])).fetchall())}
    except Exception as err:  # pylint: disable=broad-except
        return {'error': f'{type(err).__name__}: {str(err)[:160]}'}


def observe(case):
    try:
        statement = dslgen.build_source(case['statement'])
    except Exception as err:  # pylint: disable=broad-except
        return {'error': f'build {type(err).__name__}: {str(err)[:200]}'}
    engine = sqlalchemy.create_engine('sqlite://')
    try:
        with engine.connect() as conn:
            for t, rows in case['data'].items():
                cols = dslgen.CATALOG[t]
                conn.execute(sql.text(f'CREATE TABLE "{t}" (' + ', '.join(f'"{c}" {SQLTYPE[k]}' for c, k in cols) + ')'))
                for r in rows:
                    conn.execute(
                        sql.text(f'INSERT INTO "{t}" VALUES (' + ', '.join(f':{c}' for c, _ in cols) + ')'),
                        {c: r.get(c) for c, _ in cols},
                    )
            full = {t: t for t in case['data']}
            log = []
            try:
                parse(statement, full, log)
            except Exception as err:  # pylint: disable=broad-except
                return {'error': f'parse {type(err).__name__}: {str(err)[:200]}'}
            hints = {}
            calls = []
            for table, features, predicate in log:
                t = str(table.name)
                cols = sorted({str(f.name) for f in features})
                admitted, broken = None, None
                if predicate is not None:
                    try:
                        ids = {r[0] for r in conn.execute(sql.select(sql.column('rowid')).select_from(table).where(predicate))}
                        admitted = [i + 1 in ids for i in range(len(case['data'][t]))]
                    except Exception as err:  # pylint: disable=broad-except
                        broken = str(err).replace('\n', ' ')[:200]
                calls.append({'table': t, 'cols': cols, 'admitted': admitted, 'unevaluable': broken})
                h = hints.setdefault(t, {'cols': set(), 'admitted': [False] * len(case['data'][t])})
                h['cols'] |= set(cols)
                h['admitted'] = [a or (admitted is None or admitted[i]) for i, a in enumerate(h['admitted'])]
            for t, h in hints.items():
                proj = ', '.join(f'"{c}"' for c in sorted(h['cols'])) or '1 AS "__none__"'
                conn.execute(sql.text(f'CREATE TABLE "hc_{t}" AS SELECT {proj} FROM "{t}"'))
                keep = ', '.join(str(i + 1) for i, a in enumerate(h['admitted']) if a)
                conn.execute(sql.text(f'CREATE TABLE "hr_{t}" AS SELECT * FROM "{t}" WHERE rowid IN ({keep})'))
            out = {'calls': calls, 'ignore': execute(conn, statement, full)}
            out['columns'] = execute(conn, statement, {t: (f'hc_{t}' if t in hints else t) for t in full})
            out['rows'] = execute(conn, statement, {t: (f'hr_{t}' if t in hints else t) for t in full})
            out['culprits'] = []
            if out['rows'] != out['ignore']:
                for t in hints:
                    if execute(conn, statement, {**full, t: f'hr_{t}'}) != out['ignore']:
                        out['culprits'].append(t)
            return out
    finally:
        engine.dispose()
