"""C20 driver: real setup.Config layering and provider bank."""
import abc
import importlib
import itertools
import os
import pathlib
import shutil
import sys
import tempfile

import toml

import forml
from forml import provider
from forml.setup import _conf

_COUNTER = itertools.count()
IFACES = {}


def plain(value):
    if hasattr(value, 'items'):
        return {k: plain(v) for k, v in value.items()}
    if isinstance(value, (list, tuple)):
        return [plain(v) for v in value]
    return value


def stack(case):
    tmp = pathlib.Path(tempfile.mkdtemp(prefix='c20_', dir='/var/tmp'))
    try:
        paths = []
        for i, src in enumerate(case['sources']):
            path = tmp / f'cfg{i}.toml'
            path.write_text(toml.dumps(src))
            paths.append(path)
        if case.get('gap') is not None:  # a configured path that does not exist is skipped
            paths.insert(case['gap'], tmp / 'missing.toml')
        config = _conf.Config({}, *paths)
        return {'config': plain(dict(config))}
    finally:
        shutil.rmtree(tmp, ignore_errors=True)


def bank(case):
    n = next(_COUNTER)
    pid = os.getpid()
    module = f'verifc20m{pid}x{n}'
    tmp = None
    kwargs = {}
    lazy = [c for c in case['classes'] if c.get('lazy')]
    if lazy:
        tmp = pathlib.Path(tempfile.mkdtemp(prefix='c20_', dir='/var/tmp'))
        pkg = tmp / f'{module}pkg'
        pkg.mkdir()
        (pkg / '__init__.py').write_text('')
        sys.path.insert(0, str(tmp))
        kwargs['path'] = [f'{module}pkg']
    try:
        iface = provider.Meta(
            'Iface', (provider.Service,), {'__module__': module, '__qualname__': 'Iface', 'run': abc.abstractmethod(lambda self: None)}, **kwargs
        )
        IFACES[module] = iface
        created = {'Iface': iface}
        qual = {}
        for c in lazy:
            qual[c['name']] = f"{module}pkg.{c['alias']}:{c['name']}"
            (tmp / f'{module}pkg' / f"{c['alias']}.py").write_text(
                'from harness.impl.c20 import IFACES\n'
                f"class {c['name']}(IFACES[{module!r}], alias={c['alias']!r}):\n    def run(self):\n        return None\n"
            )
        refused = None
        for i, c in enumerate(case['classes']):
            if c.get('lazy'):
                continue
            qual[c['name']] = f"{module}:{c['name']}"
            ns = {'__module__': module, '__qualname__': c['name']}
            if not c['abstract']:
                ns['run'] = lambda self: None
            kw = {'alias': c['alias']} if c['alias'] else {}
            try:
                created[c['name']] = provider.Meta(c['name'], (created[c['base']],), ns, **kw)
            except forml.UnexpectedError:
                refused = i
                break
        names = {v: k for k, v in qual.items()}
        lookups = []
        for ref in case['lookups']:
            reference = qual.get(ref['q'], f"{module}:{ref['q']}") if 'q' in ref else ref['a']
            try:
                cls = iface[reference]
                lookups.append(names.get(f'{cls.__module__}:{cls.__qualname__}', f'?{cls.__module__}:{cls.__qualname__}'))
            except forml.MissingError:
                lookups.append(None)
        return {'refused': refused, 'lookups': lookups}
    finally:
        if tmp:
            sys.path.remove(str(tmp))
            shutil.rmtree(tmp, ignore_errors=True)
            importlib.invalidate_caches()


def observe(case):
    try:
        return {'stack': stack, 'bank': bank}[case['t']](case)
    except Exception as err:  # pylint: disable=broad-except
        return {'error': f'{type(err).__name__}: {err}'}
