"""C04 driver: lifecycle histories. Every action runs in a FRESH interpreter (another hash seed), re-expands the
pipeline (new node ids) and binds the stored states through Composition.persistent / asset.State positions.
The registry between actions is a JSON list of generations (each the committed state list)."""
import json
import sys

from forml import evaluation, flow

from harness import flowsym
from harness.impl import c01, c03


class Metric(evaluation.Metric):
    """Symbolic metric: a two-input worker fed (true, predicted)."""

    def score(self, *outcomes):
        worker = flow.Worker(flowsym.Stateless.builder('metric'), 2, 1)
        worker[0].subscribe(outcomes[0].true)
        worker[1].subscribe(outcomes[0].pred)
        return worker


def step(expr, action, registry, shift=0, snapshot=False):
    """One lifecycle action on a fresh expansion; returns the (possibly extended) registry and an observation."""
    c03.HP_SHIFT, c03.SNAPSHOT = shift, snapshot
    pipeline = c03.make_expr(expr)
    if action[0] == 'perftrack':
        pipeline = pipeline >> evaluation.PerfTrackScore(Metric())
    composition = flow.Composition(c03.source(), pipeline)
    persistent = list(composition.persistent)
    if action[0] == 'train':
        previous = dict(zip(persistent, registry[-1])) if registry else {}
        assets = c01.Assets(persistent, previous)
        c03.run_segment(composition.train, assets)
        return registry + [assets.committed or []], {'committed': assets.committed or []}
    stored = registry[action[1]]
    assets = c01.Assets(persistent, dict(zip(persistent, stored)))
    if action[0] == 'apply':
        out, _ = c03.run_segment(composition.apply, assets)
    else:
        out, _ = c03.run_segment(composition.train, assets)
    return registry, {'out': out, 'npersistent': len(persistent), 'nstored': len(stored)}


def observe(case):
    """Drive the history, one subprocess per action."""
    import subprocess

    from harness import core

    registry, steps = [], []
    for k, action in enumerate(case['history']):
        payload = json.dumps({'expr': case['expr'], 'action': action, 'registry': registry,
                              'shift': case.get('shift', {}).get(str(k), 0), 'snapshot': bool(case.get('shift'))})
        env = core.impl_env({'PYTHONHASHSEED': str(1 + (k * 7919) % 1000)})
        res = subprocess.run(['/venv/bin/python', '-W', 'ignore', '-m', 'harness.impl.c04'], input=payload, env=env,
                             capture_output=True, text=True, cwd=str(core.ROOT), timeout=300)
        if res.returncode:
            return {'error': f'action {k} {action}: {res.stderr.strip().splitlines()[-1] if res.stderr.strip() else res.returncode}'}
        reply = json.loads(res.stdout.strip().splitlines()[-1])
        registry = reply['registry']
        steps.append(reply['obs'])
    return {'steps': steps, 'registry': registry}


if __name__ == '__main__':
    import logging

    logging.disable(logging.CRITICAL)
    request = json.loads(sys.stdin.read())
    reg, obs = step(request['expr'], request['action'], request['registry'], request.get('shift', 0), request.get('snapshot', False))
    print(json.dumps({'registry': reg, 'obs': obs}))
