"""C04 driver: lifecycle histories. Every action runs in a FRESH interpreter (another hash seed), re-expands the
pipeline (new node ids) and binds the stored states through Composition.persistent / asset.State positions.
The registry between actions is a JSON list of generations (each the committed state list)."""
import json
import sys

from forml import evaluation, flow

from harness import flowsym
from harness.impl import c01, c03


class Metric(evaluation.Metric):
    """Symbolic metric: a two-input worker fed (true, predicted)."""

    def score(self, *outcomes):
        worker = flow.Worker(flowsym.Stateless.builder('metric'), 2, 1)
        worker[0].subscribe(outcomes[0].true)
        worker[1].subscribe(outcomes[0].pred)
        return worker


def step(expr, action, registry, shift=0, snapshot=False, sink=False):
    """One lifecycle action on a fresh expansion; returns the (possibly extended) registry and an observation."""
    c03.HP_SHIFT, c03.SNAPSHOT = shift, snapshot
    if sink and action[0] != 'train':
        # like Launcher.apply vs Launcher.train_call: something is composed after the pipeline only when not training
        expr = ['seq', expr, ['op', {'apply': ['probe', 0, False], 'train': 'same'}]]
    pipeline = c03.make_expr(expr)
    if action[0] == 'perftrack':
        pipeline = pipeline >> evaluation.PerfTrackScore(Metric())
    if action[0] == 'perftrack':
        # as the runner does (Runner._build): source, pipeline >> evaluation, sink - the sink gives the apply segment its
        # explicit tail (without one, re-tracing the copied apply segment of a pipeline with merging branches is ambiguous)
        composition = flow.Composition(c03.source(), pipeline, c03.make_operator({'apply': ['psink', 0, False], 'train': 'same'}))
    else:
        composition = flow.Composition(c03.source(), pipeline)
    persistent = list(composition.persistent)
    if action[0] == 'train':
        previous = dict(zip(persistent, registry[-1])) if registry else {}
        assets = c01.Assets(persistent, previous)
        c03.run_segment(composition.train, assets)
        return registry + [assets.committed or []], {'committed': assets.committed or []}
    stored = registry[action[1]]
    assets = c01.Assets(persistent, dict(zip(persistent, stored)))
    if action[0] == 'apply':
        out, _ = c03.run_segment(composition.apply, assets)
    else:
        out, _ = c03.run_segment(composition.train, assets)
    return registry, {'out': out, 'npersistent': len(persistent), 'nstored': len(stored)}


def pinned(case):
    """An implicitly addressed (latest) generation read through the real asset levels while another training commits a
    new generation between two state loads of the same action."""
    import datetime
    import uuid

    from forml.io import asset

    class Stub(asset.Registry):
        def __init__(self, count, width):
            super().__init__(staging='/var/tmp/verif_c04_staging')
            self.count, self.width = count, width

        def __hash__(self):
            return id(self)

        def __eq__(self, other):
            return other is self

        def projects(self):
            return ['prj']

        def releases(self, project):
            return ['1']

        def generations(self, project, release):
            return list(range(1, self.count + 1))

        def open(self, project, release, generation):
            g = int(generation)
            return asset.Tag(training=asset.Tag.Training(datetime.datetime(2020, 1, 1), g),
                             states=[uuid.UUID(int=g * 100 + i + 1) for i in range(self.width)])

        def read(self, project, release, generation, sid):
            return f'{int(generation)}:{sid.int - int(generation) * 100 - 1}'.encode()

        def close(self, project, release, generation, tag):
            raise NotImplementedError()

        def push(self, package):
            raise NotImplementedError()

        def pull(self, project, release):
            raise NotImplementedError()

        def write(self, project, release, sid, state):
            raise NotImplementedError()

    registry = Stub(case['gens'], case['width'])
    generation = asset.Directory(registry).get('prj').get('1').get(None if case['implicit'] else case['gens'])
    loads = []
    for i in range(case['width']):
        if i == case['commit_before']:
            registry.count += 1        # a concurrent training commits the next generation right now
        g, idx = generation.get(i).decode().split(':')
        loads.append([int(g), int(idx)])
    return {'loads': loads}


def observe(case):
    if case.get('t') == 'pinned':
        try:
            return pinned(case)
        except Exception as err:  # pylint: disable=broad-except
            return {'error': f'{type(err).__name__}: {err}'}
    """Drive the history, one subprocess per action."""
    import subprocess

    from harness import core

    registry, steps = [], []
    for k, action in enumerate(case['history']):
        payload = json.dumps({'expr': case['expr'], 'action': action, 'registry': registry,
                              'shift': case.get('shift', {}).get(str(k), 0), 'snapshot': bool(case.get('shift')), 'sink': bool(case.get('sink_on_apply'))})
        env = core.impl_env({'PYTHONHASHSEED': str(1 + (k * 7919) % 1000)})
        res = subprocess.run(['/venv/bin/python', '-W', 'ignore', '-m', 'harness.impl.c04'], input=payload, env=env,
                             capture_output=True, text=True, cwd=str(core.ROOT), timeout=300)
        reply = None
        if res.returncode < 0:      # killed by a signal: an abort at interpreter teardown after the complete answer was printed is not a failure
            try:
                reply = json.loads(res.stdout.strip().splitlines()[-1])
            except (IndexError, ValueError):
                reply = None
            if not (isinstance(reply, dict) and 'registry' in reply and 'obs' in reply):
                reply = None
        if res.returncode and reply is None:
            return {'error': f'action {k} {action}: {res.stderr.strip().splitlines()[-1] if res.stderr.strip() else res.returncode}'}
        if reply is None:
            reply = json.loads(res.stdout.strip().splitlines()[-1])
        registry = reply['registry']
        steps.append(reply['obs'])
    return {'steps': steps, 'registry': registry}


if __name__ == '__main__':
    import logging

    logging.disable(logging.CRITICAL)
    request = json.loads(sys.stdin.read())
    reg, obs = step(request['expr'], request['action'], request['registry'], request.get('shift', 0), request.get('snapshot', False), request.get('sink', False))
    print(json.dumps({'registry': reg, 'obs': obs}))
